#!/bin/bash
# MANIFEST.setup_cmd: regenerate coq/theories/Gen from /repo and build the whole Coq development.
set -e
cd "$(dirname "$0")"
export PYTHONPATH=/repo:/verif PYTHONHASHSEED=0
/venv/bin/python -m harness.translate || echo "translator failed closed (checks will report it)"
/venv/bin/python - <<'PY'
from harness import core
try:
    print(core.build())
except core.BuildError as e:
    print("BUILD FAILED:", e)
    print(e.log[-3000:])
PY
