(* Model of the SLURM boundary (jade/hpc/slurm_manager.py, AsyncHpcSubmitter.is_complete,
   HpcStatusCollector.check_status, HpcManager.submit) over the GENERATED tables of Gen/SlurmGen.v.
   ASCII text only (Python's str.split()/\d also know non-ASCII whitespace/digits: outside the model).
   No proofs here. *)
From Coq Require Import String Ascii List ZArith NArith Bool.
From Jade Require Import Base.
From Jade.Gen Require Import SlurmGen.
Import ListNotations.
Open Scope string_scope.

(* ---------- squeue output -> statuses (SlurmManager._get_statuses_from_output) ---------- *)
Definition lookup_status (st : string) : hpc_status :=
  match assoc st statuses with Some v => v | None => status_default end.

(* dict assignment: a later line for the same id wins; key order = first insertion *)
Fixpoint dict_set {A} (k : string) (v : A) (d : list (string * A)) : list (string * A) :=
  match d with
  | [] => [(k, v)]
  | (k', v') :: r => if String.eqb k k' then (k, v) :: r else (k', v') :: dict_set k v r
  end.

Inductive line_result := Skip | Entry (id : string) (st : hpc_status) | AssertFail.
Definition parse_line (line : list ascii) : line_result :=
  match line with
  | [] => Skip                                          (* if line == "": continue *)
  | _ => match split_ws line with                      (* line.strip().split() *)
         | [a; b] => Entry (of_chars a) (lookup_status (of_chars b))
         | _ => AssertFail                             (* assert len(fields) == 2 *)
         end
  end.

Fixpoint parse_lines (ls : list (list ascii)) (d : list (string * hpc_status)) : option (list (string * hpc_status)) :=
  match ls with
  | [] => Some d
  | l :: r => match parse_line l with
              | Skip => parse_lines r d
              | Entry id st => parse_lines r (dict_set id st d)
              | AssertFail => None
              end
  end.
(* None = AssertionError *)
Definition get_statuses (out : string) : option (list (string * hpc_status)) :=
  parse_lines (split_on nl (chars out)) [].

(* HpcStatusCollector.check_status + AsyncHpcSubmitter.is_complete on one snapshot *)
Definition status_of (snap : list (string * hpc_status)) (id : string) : hpc_status :=
  match assoc id snap with Some s => s | None => status_absent end.
Definition is_finished (s : hpc_status) : bool := existsb (hpc_status_eqb s) finished_statuses.
Definition batch_is_complete (snap : list (string * hpc_status)) (id : string) : bool :=
  is_finished (status_of snap id).

(* ---------- sbatch response (SlurmManager.submit) ---------- *)
(* regex  <sbatch_prefix>(\d+)  with re.search: leftmost position where the literal is followed
   by at least one digit; the group is the maximal digit run *)
Fixpoint search_sbatch (l : list ascii) : option (list ascii) :=
  let here :=
    if is_prefix (chars sbatch_prefix) l then
      match take_while is_digit (drop_prefix (chars sbatch_prefix) l) with
      | [] => None
      | ds => Some ds
      end
    else None in
  match here with
  | Some ds => Some ds
  | None => match l with [] => None | _ :: r => search_sbatch r end
  end.

Inductive submit_result := GOOD (id : string) | ERROR.
Definition submit (ret : Z) (stdout : string) : submit_result :=
  if (ret =? 0)%Z then
    match search_sbatch (chars stdout) with
    | Some ds => GOOD (of_chars ds)
    | None => ERROR
    end
  else ERROR.

(* ---------- submission script (SlurmManager._create_submission_script_text) ---------- *)
Record script_cfg := {
  c_account : string; c_walltime : string;
  c_opt : string -> option string   (* getattr(self._config.hpc, param, None), already str()-ed *)
}.
Definition field (cfg : script_cfg) (name script path : string) (extra : list (string * string)) (f : string) : string :=
  match assoc f extra with
  | Some v => v
  | None =>
    if String.eqb f "account" then c_account cfg
    else if String.eqb f "walltime" then c_walltime cfg
    else if String.eqb f "name" then name
    else if String.eqb f "script" then script
    else if String.eqb f "path" then path
    else ""
  end.
Definition render (look : string -> string) (t : list piece) : string :=
  concat_str (map (fun p => match p with Lit s => s | Fld f => look f end) t).

Definition optional_lines (cfg : script_cfg) (name script path : string) : list string :=
  flat_map (fun p => match c_opt cfg p with
                     | Some v => [render (field cfg name script path [("param", p); ("value", v)]) script_optional_line]
                     | None => []
                     end) script_optional_params.

Definition script_lines (cfg : script_cfg) (name script path : string) : list string :=
  (map (render (field cfg name script path [])) script_header
   ++ optional_lines cfg name script path
   ++ map (render (field cfg name script path [])) script_tail)%list.
(* create_submission_script writes "\n".join(text) + "\n" *)
Definition script_text (cfg : script_cfg) (name script path : string) : string :=
  join nl_s (script_lines cfg name script path) ++ nl_s.

(* ---------- reading a script back (specification side): `#SBATCH --key=value` ---------- *)
Definition sbatch_marker : string := "#SBATCH --".
Definition directive_of_line (line : string) : option (string * string) :=
  match str_drop_prefix sbatch_marker line with
  | Some rest => str_split_char "="%char rest
  | None => None
  end.
Definition directives (lines : list string) : list (string * string) :=
  flat_map (fun l => match directive_of_line l with Some d => [d] | None => [] end) lines.

(* ---------- vocabulary of the specification (hand-written; trusted base) ---------- *)
(* SLURM job states in which the batch is neither finished nor about to finish *)
Definition active_vocabulary : list string :=
  ["PENDING"; "CONFIGURING"; "RUNNING"; "SUSPENDED"; "STOPPED"; "RESIZING"; "REQUEUED";
   "REQUEUE_HOLD"; "REQUEUE_FED"; "RESV_DEL_HOLD"; "SIGNALING"; "STAGE_OUT"; "SPECIAL_EXIT"; "REVOKED"].
(* optional fields of the SLURM configuration that must reach the script when set *)
Definition spec_optional_fields : list string :=
  ["gres"; "mem"; "nodes"; "ntasks"; "ntasks_per_node"; "partition"; "qos"; "tmp"; "reservation"].

(* ---------- SlurmManager.check_statuses: retried squeue, then the parse ---------- *)
From Jade Require Import Retry.
Inductive statuses_result :=
  | StExecutionError                     (* squeue kept failing: ExecutionError *)
  | StAssert                             (* unparsable line: AssertionError *)
  | StOk (execs : nat) (snap : list (string * hpc_status)).
Definition check_statuses (outs : nat -> outcome) : nat * statuses_result :=
  let '(n, o) := run_command statuses_num_retries true [] outs in
  if (o_ret o =? 0)%Z then
    match get_statuses (o_stdout o) with
    | Some snap => (n, StOk n snap)
    | None => (n, StAssert)
    end
  else (n, StExecutionError).
