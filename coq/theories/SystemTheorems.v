(* Prop-level readings of the monitors, and the remaining system theorems:
   the node bound at every instant (C06), wedged states refuse to act and rows are never lost (C11),
   every row has a cause (C12). *)
From Coq Require Import List ZArith NArith Bool Arith Lia Permutation.
From Jade Require Import Base System SystemMonitors SystemProofs SystemInv SystemOrder SystemLimits SystemHooks SystemLaunch.
Import ListNotations.
Open Scope N_scope.
Set Default Timeout 300.

(* ---------- invariants along a whole run ---------- *)
Lemma inv_run_from sc tr : forall s s', run_from sc s tr = Some s' ->
  Inv1 sc s -> Inv2 sc s -> Inv3 sc s -> Inv1 sc s' /\ Inv2 sc s' /\ Inv3 sc s'.
Proof.
  induction tr as [|e t IH]; intros s s' Hr H1 H2 H3; cbn [run_from] in Hr.
  - injection Hr as <-. auto.
  - destruct (step sc s e) as [s1|] eqn:Es; [|discriminate].
    eapply IH; eauto using inv1_step, inv2_step, inv3_step.
Qed.
Lemma inv_run sc tr s : run sc tr = Some s -> Inv1 sc s /\ Inv2 sc s /\ Inv3 sc s.
Proof. intros H. eapply inv_run_from; eauto using inv1_init, inv2_init, inv3_init. Qed.

Lemma run_prefix sc tr1 tr2 s : run sc (tr1 ++ tr2) = Some s -> exists s1, run sc tr1 = Some s1 /\ run_from sc s1 tr2 = Some s.
Proof.
  unfold run. rewrite run_from_app. destruct (run_from sc init tr1) as [s1|]; [|discriminate]. eauto.
Qed.

(* ---------- C01 ---------- *)
Theorem c01_system sc tr s : run sc tr = Some s ->
  NoDup (handed_of tr) /\ NoDup (indices_of tr) /\ NoDup (launched_of tr).
Proof.
  intros H. pose proof (c01_accepted _ _ _ H) as C. unfold c01_ok in C.
  rewrite !andb_true_iff, !nodupbN_spec in C. tauto.
Qed.

(* ---------- C02 ---------- *)
Lemma c02_from_app sc tr1 : forall seen tr2, c02_from sc seen (tr1 ++ tr2) = true ->
  c02_from sc (seen ++ row_names (rows_of tr1)) tr2 = true.
Proof.
  induction tr1 as [|e t IH]; intros seen tr2 H; cbn [app rows_of flat_map] in *.
  - cbn. rewrite app_nil_r. exact H.
  - cbn [c02_from] in H. apply andb_true_iff in H. destruct H as [_ H]. apply IH in H.
    unfold rows_of in *. rewrite row_names_app, app_assoc. exact H.
Qed.
Theorem c02_system sc tr1 id j tr2 s : run sc (tr1 ++ ELaunch id j :: tr2) = Some s ->
  forall d, In d (deps sc j) -> In d (row_names (rows_of tr1)).
Proof.
  intros H d Hd. pose proof (c02_accepted _ _ _ H) as C. unfold c02_ok in C.
  apply c02_from_app in C. cbn [c02_from app] in C. apply andb_true_iff in C. destruct C as [C _].
  rewrite subsetN_spec in C. apply C. exact Hd.
Qed.

(* ---------- C05 (safety half) ---------- *)
Lemma c05_from_done tr : forall sm, c05_from sm true tr = true ->
  forall e, In e tr -> is_mark_complete e = false /\ is_sbatch e = false.
Proof.
  induction tr as [|x t IH]; intros sm H e Hin; [contradiction|]. destruct Hin as [<-|Hin].
  - destruct x; cbn in *; auto; discriminate.
  - destruct x; cbn [c05_from] in H; try (eapply IH; eauto; fail); discriminate.
Qed.
Lemma c05_from_split tr1 : forall sm dn p tr2, c05_from sm dn (tr1 ++ EMarkComplete p :: tr2) = true ->
  dn = false /\ (sm = true \/ exists q r m, In (ESummary q r m) tr1) /\ exists sm', c05_from sm' true tr2 = true.
Proof.
  induction tr1 as [|x t IH]; intros sm dn p tr2 H; cbn [app] in H.
  - cbn [c05_from] in H. apply andb_true_iff in H. destruct H as [H1 H2]. apply andb_true_iff in H1. destruct H1 as [Hd Hs].
    apply negb_true_iff in Hd. split; [exact Hd|]. split; [left; exact Hs|]. eauto.
  - assert (Lift : forall sm0 dn0, c05_from sm0 dn0 (t ++ EMarkComplete p :: tr2) = true ->
               dn0 = false /\ (sm0 = true \/ (exists q' r' m', In (ESummary q' r' m') (x :: t))) /\
               (exists sm', c05_from sm' true tr2 = true)).
    { intros sm0 dn0 H0. destruct (IH _ _ _ _ H0) as (A & B & C). split; [exact A|]. split; [|exact C].
      destruct B as [B|(q' & r' & m' & B)]; [left; exact B|right; exists q', r', m'; right; exact B]. }
    destruct x; cbn [c05_from] in H; try (apply Lift; exact H).
    + (* sbatch *) apply andb_true_iff in H. destruct H as [_ H]. apply Lift. exact H.
    + (* summary *) destruct (IH _ _ _ _ H) as (A & _ & C). split; [exact A|]. split; [|exact C].
      right. eexists _, _, _. left. reflexivity.
    + (* an earlier mark_complete: then done = true and the later one is refused *)
      apply andb_true_iff in H. destruct H as [_ H]. destruct (IH _ _ _ _ H) as (A & _). discriminate.
Qed.
Theorem c05_system sc tr1 p tr2 s : run sc (tr1 ++ EMarkComplete p :: tr2) = Some s ->
  (exists q r m, In (ESummary q r m) tr1) /\
  (forall e, In e tr1 -> is_mark_complete e = false) /\
  (forall e, In e tr2 -> is_mark_complete e = false /\ is_sbatch e = false).
Proof.
  intros H. pose proof (c05_accepted _ _ _ H) as C. unfold c05_ok in C.
  destruct (c05_from_split _ _ _ _ _ C) as (_ & B & (sm' & D)).
  split; [destruct B as [B|B]; [discriminate|exact B]|]. split; [|intros e He; eapply c05_from_done; eauto].
  (* no earlier completion: otherwise this one would be the second *)
  intros e He. destruct (is_mark_complete e) eqn:E; [|reflexivity]. exfalso.
  destruct e; try discriminate. apply in_split in He. destruct He as (l1 & l2 & ->).
  rewrite <- app_assoc in C. cbn [app] in C.
  destruct (c05_from_split _ _ _ _ _ C) as (_ & _ & (sm2 & D2)).
  assert (In (EMarkComplete p) (l2 ++ EMarkComplete p :: tr2)) as Hin by (apply in_app_iff; right; left; reflexivity).
  destruct (c05_from_done _ _ D2 _ Hin) as [F _]. discriminate.
Qed.

(* ---------- C14 ---------- *)
Lemma c14_from_true tr : c14_from true tr = true -> forall e, In e tr -> is_sbatch e = false.
Proof.
  induction tr as [|x t IH]; intros H e Hin; [contradiction|]. destruct Hin as [<-|Hin].
  - destruct x; cbn in *; auto; discriminate.
  - destruct x; cbn [c14_from] in H; try (eapply IH; eauto; fail);
      apply andb_true_iff in H; destruct H as [_ H]; eapply IH; eauto.
Qed.
Lemma c14_from_app tr1 : forall c p tr2, c14_from c (tr1 ++ EMarkCanceled p :: tr2) = true -> c14_from true tr2 = true.
Proof.
  induction tr1 as [|x t IH]; intros c p tr2 H; cbn [app] in H.
  - exact H.
  - destruct x; cbn [c14_from] in H; try (eapply IH; eauto; fail).
    apply andb_true_iff in H. destruct H as [_ H]. eapply IH; eauto.
Qed.
Theorem c14_system sc tr1 p tr2 s : run sc (tr1 ++ EMarkCanceled p :: tr2) = Some s ->
  forall e, In e tr2 -> is_sbatch e = false.
Proof.
  intros H. pose proof (c14_accepted _ _ _ H) as C. unfold c14_ok in C.
  apply c14_from_app in C. apply c14_from_true. exact C.
Qed.

(* ---------- C06: the bound holds at every instant ---------- *)
Definition node_bound (sc : scenario) (s : state) : Prop :=
  forall m, sc_max_nodes sc = Some m -> N.of_nat (length (act_ids (hpc s))) <= m.

Lemma node_bound_step sc s e s' : step sc s e = Some s' -> Inv1 sc s -> Inv3 sc s -> node_bound sc s -> node_bound sc s'.
Proof.
  intros H HI1 HI3 HB.
  assert (N3 : Inv3 sc s') by (eapply inv3_step; eauto).
  pose proof (k_hpc_nodup sc s HI3) as ND. pose proof (k_hpc_nodup sc s' N3) as ND'. pose proof (k_active_owned sc s HI3) as AO.
  assert (Shrink : incl (act_ids (hpc s')) (act_ids (hpc s)) -> node_bound sc s').
  { intros Hi m Hm. specialize (HB m Hm). pose proof (NoDup_incl_length (act_ids_nodup _ ND') Hi). lia. }
  revert H. intros H. prep e H.
  all: unfold set_session, with_holder in *; cbn [hpc] in *.
  all: try (apply Shrink; apply incl_refl).
  all: try (match goal with Fh : find_h _ _ = Some _ |- _ => pose proof (find_h_unique _ _ _ ND Fh) as FU end).
  all: lazymatch goal with EV := ?x |- _ =>
         lazymatch x with
         | ESbatch _ _ _ _ _ (Some ?n) =>
           intros m Hm; cbn [hpc]; rewrite act_ids_app, app_length; cbn [act_ids filter h_active h_state map length];
           rewrite Hm in *; cbn [depth_ok] in *;
           match goal with D : (N.of_nat (length (r_out ?r)) <? m) = true, Ow : r_owns ?r = true, Hh : holder _ = Some ?r |- _ =>
             apply N.ltb_lt in D; pose proof (NoDup_incl_length (act_ids_nodup _ ND) (AO r Hh Ow)) as L end; lia
         | _ =>
           apply Shrink; cbn [hpc]; apply act_ids_set_incl; intros h1 Hh1 Hid1;
           first [ right; reflexivity | left; rewrite (FU h1 Hh1 Hid1); unfold h_active; match goal with E : h_state _ = _ |- _ => rewrite E end; reflexivity | left; rewrite (FU h1 Hh1 Hid1); assumption ]
         end
       end.
Qed.

Theorem c06_system sc tr s : run sc tr = Some s -> node_bound sc s.
Proof.
  unfold run.
  assert (G : forall tr s0 s1, run_from sc s0 tr = Some s1 -> Inv1 sc s0 -> Inv3 sc s0 -> node_bound sc s0 -> node_bound sc s1).
  { clear. induction tr as [|e t IH]; intros s0 s1 Hr H1 H3 HB; cbn [run_from] in Hr.
    - injection Hr as <-. exact HB.
    - destruct (step sc s0 e) as [s2|] eqn:Es; [|discriminate]. eapply IH; eauto using inv1_step, inv3_step, node_bound_step. }
  intros H. eapply G; eauto using inv1_init, inv3_init. intros m _. cbn. lia.
Qed.

(* ---------- C10: between two promotions there is a demotion ---------- *)
Definition is_promotion (e : event) : bool :=
  match e with ECreate _ => true | ELoad _ _ true _ _ => true | _ => false end.
Definition is_demote (e : event) : bool := match e with EDemote _ => true | _ => false end.

Lemma c10_from_held tr : forall h, c10_from (Some h) tr = true ->
  (forall e, In e tr -> is_demote e = false) -> forall e, In e tr -> is_promotion e = false.
Proof.
  induction tr as [|x t IH]; intros h H Hnd e Hin; [contradiction|].
  assert (Hx : is_demote x = false) by (apply Hnd; left; reflexivity).
  assert (Ht : forall e, In e t -> is_demote e = false) by (intros; apply Hnd; right; assumption).
  destruct Hin as [<-|Hin].
  - destruct x; cbn in *; auto; try discriminate. destruct promoted; cbn in *; [discriminate|reflexivity].
  - destruct x; cbn [c10_from] in H; try discriminate; try (eapply IH; eauto; fail).
    destruct promoted; cbn in *; [discriminate|eapply IH; eauto].
Qed.
Lemma c10_from_after tr1 : forall h e tr2, c10_from h (tr1 ++ e :: tr2) = true -> is_promotion e = true ->
  exists p, c10_from (Some p) tr2 = true.
Proof.
  induction tr1 as [|x t IH]; intros h e tr2 H He; cbn [app] in H.
  - destruct e; try discriminate; cbn [c10_from] in H.
    + apply andb_true_iff in H. destruct H as [_ H]. eauto.
    + destruct promoted; [|discriminate]. apply andb_true_iff in H. destruct H as [_ H]. eauto.
  - destruct x; cbn [c10_from] in H; try (eapply IH; eauto; fail).
    + apply andb_true_iff in H. destruct H as [_ H]. eapply IH; eauto.
    + destruct promoted; [apply andb_true_iff in H; destruct H as [_ H]|]; eapply IH; eauto.
    + apply andb_true_iff in H. destruct H as [_ H]. eapply IH; eauto.
Qed.
Theorem c10_system sc tr1 e1 tr2 e2 tr3 s :
  run sc (tr1 ++ e1 :: tr2 ++ e2 :: tr3) = Some s -> is_promotion e1 = true -> is_promotion e2 = true ->
  exists d, In d tr2 /\ is_demote d = true.
Proof.
  intros H H1 H2. pose proof (c10_accepted _ _ _ H) as C. unfold c10_ok in C.
  destruct (c10_from_after _ _ _ _ C H1) as (p & Cp).
  destruct (existsb is_demote tr2) eqn:Ex.
  - apply existsb_exists in Ex. exact Ex.
  - exfalso. assert (Hnd : forall e, In e tr2 -> is_demote e = false).
    { intros e He. destruct (is_demote e) eqn:Ed; [|reflexivity]. assert (existsb is_demote tr2 = true) by (apply existsb_exists; eauto). congruence. }
    (* the monitor would have to accept e2 while p still holds the role *)
    clear C H. revert p Cp. induction tr2 as [|x t IH]; intros p Cp; cbn [app] in Cp.
    + destruct e2; try discriminate; cbn [c10_from] in Cp; try discriminate; destruct promoted; discriminate.
    + assert (Hx : is_demote x = false) by (apply Hnd; left; reflexivity).
      assert (Ht : forall e, In e t -> is_demote e = false) by (intros; apply Hnd; right; assumption).
      assert (Ext : existsb is_demote t = false) by (cbn in Ex; apply orb_false_iff in Ex; tauto).
      destruct x; cbn [c10_from] in Cp; try discriminate; try (eapply IH; eauto; fail).
      destruct promoted; [discriminate|eapply IH; eauto].
Qed.

(* ---------- C11: a wedged submission refuses to act; rows are never lost ---------- *)
Definition wedged (s : state) : Prop :=
  marker s = true /\ forall r, holder s = Some r -> r_alive r = true -> r_owns r = false.
Definition acts (e : event) : bool :=
  match e with
  | ESbatch _ _ _ _ _ _ | ECollect _ _ | ESubCancel _ _ | EUpdate _ _ | EMarkComplete _ | EMarkerRemove _ | EMarkerTouch _ => true
  | _ => false
  end.

Lemma wedged_step sc s e s' : step sc s e = Some s' -> wedged s -> wedged s' /\ acts e = false.
Proof.
  intros H [Wm Wo]. prep e H. all: hlit.
  all: try (match goal with A : r_alive ?r = true |- _ => pose proof (Wo A) as Wn end).
  all: try congruence.
  all: split; [|reflexivity].
  all: unfold wedged; cbn [marker holder]; rw_holder.
  all: try (split; [assumption|]; hlit; cbn; intros; try discriminate; eauto; fail).
  all: try (split; [assumption|]; intros r0 Hr0; try discriminate; auto; fail).
Qed.

Theorem c11_refuses sc tr2 : forall s1 s2, wedged s1 -> run_from sc s1 tr2 = Some s2 ->
  wedged s2 /\ forall e, In e tr2 -> acts e = false.
Proof.
  induction tr2 as [|e t IH]; intros s1 s2 W Hr; cbn [run_from] in Hr.
  - injection Hr as <-. split; [exact W|intros ? []].
  - destruct (step sc s1 e) as [s3|] eqn:Es; [|discriminate].
    destruct (wedged_step _ _ _ _ Es W) as [W3 A]. destruct (IH _ _ W3 Hr) as [W2 F].
    split; [exact W2|]. intros x [<-|Hx]; auto.
Qed.

(* killing the process that owns submitter.lock wedges the submission *)
Lemma kill_owner_wedges sc s r s' : Inv1 sc s -> holder s = Some r -> r_owns r = true ->
  step sc s (EKill [r_pid r]) = Some s' -> wedged s'.
Proof.
  intros HI Hh Ho H. pose proof (i_owner_marker sc s HI r Hh Ho) as Hm.
  unfold step in H. rewrite Hh in H. cbn [memN existsb] in H. rewrite N.eqb_refl in H. cbn in H.
  injection H as <-. split; [exact Hm|]. cbn. intros r0 E. injection E as <-. cbn. discriminate.
Qed.
(* an exception in the round leaves the marker; after the demotion the submission is wedged *)
Lemma demote_with_marker_wedges sc s p s' : marker s = true -> step sc s (EDemote p) = Some s' -> wedged s'.
Proof.
  intros Hm H. unfold step in H. destruct (acting s p); [|discriminate]. injection H as <-.
  split; [exact Hm|]. cbn. discriminate.
Qed.

Lemma remove_row_perm r l : mem_row r l = true -> Permutation (r :: remove_row r l) l.
Proof.
  unfold mem_row, remove_row. induction l as [|x t IH]; cbn; [discriminate|].
  destruct (row_eqb r x) eqn:E.
  - apply row_eqb_eq in E. subst x. assert (row_eqb r r = true) as -> by (unfold row_eqb; rewrite N.eqb_refl, Z.eqb_refl, Bool.eqb_reflx; reflexivity). intros _. reflexivity.
  - cbn [orb]. intros H. destruct (row_eqb x r) eqn:E2; [apply row_eqb_eq in E2; subst; unfold row_eqb in E; rewrite N.eqb_refl, Z.eqb_refl, Bool.eqb_reflx in E; discriminate|].
    rewrite perm_swap. constructor. apply IH. exact H.
Qed.
Lemma remove_rows_perm rs : forall l, all_mem_rows rs l = true -> Permutation (remove_rows rs l ++ rs) l.
Proof.
  induction rs as [|r t IH]; intros l H; cbn in *; [rewrite app_nil_r; reflexivity|].
  apply andb_true_iff in H. destruct H as [H1 H2].
  rewrite <- (remove_row_perm r l H1) at 2. rewrite <- Permutation_middle. constructor. apply IH. exact H2.
Qed.

Definition rows_kept (s : state) : Prop := Permutation (rows s) (pending s ++ processed s).
Lemma rows_kept_step sc s e s' : step sc s e = Some s' -> rows_kept s -> rows_kept s'.
Proof.
  unfold rows_kept. intros H K. prep e H.
  all: unfold set_session, with_holder in *; cbn [rows pending processed] in *; try assumption.
  all: lazymatch goal with EV := ?x |- _ =>
         lazymatch x with
         | ECollect _ _ => rewrite K;
           match goal with A : all_mem_rows _ _ = true |- _ => rewrite <- (remove_rows_perm _ _ A) at 1 end;
           rewrite <- app_assoc; apply Permutation_app_head; apply Permutation_app_comm
         | ESubCancel _ _ => rewrite app_assoc; apply Permutation_app_tail; exact K
         | _ => rewrite K; rewrite <- !app_assoc; apply Permutation_app_head; apply Permutation_app_comm
         end
       end.
Qed.
Theorem c11_rows_kept sc tr s : run sc tr = Some s -> Permutation (rows_of tr) (pending s ++ processed s).
Proof.
  intros H. destruct (ghost_run_from _ _ _ _ H) as (_ & _ & _ & R). cbn in R. rewrite <- R.
  assert (G : forall tr s0 s1, run_from sc s0 tr = Some s1 -> rows_kept s0 -> rows_kept s1).
  { clear. induction tr as [|e t IH]; intros s0 s1 Hr K; cbn [run_from] in Hr.
    - injection Hr as <-. exact K.
    - destruct (step sc s0 e) as [s2|] eqn:Es; [|discriminate]. eapply IH; eauto using rows_kept_step. }
  apply (G _ _ _ H). unfold rows_kept. cbn. constructor.
Qed.

(* ---------- C12 / C03: the results summary is exactly what was really recorded ---------- *)
Theorem summary_faithful sc tr1 p res miss tr2 s : run sc (tr1 ++ ESummary p res miss :: tr2) = Some s ->
  exists s1, run sc tr1 = Some s1 /\
    Permutation res (processed s1) /\
    (forall j, In j miss <-> In j (all_jobs sc) /\ ~ In j (row_names (processed s1))) /\
    (forall r, In r res -> In r (rows_of tr1)).
Proof.
  intros H. destruct (run_prefix _ _ _ _ H) as (s1 & H1 & H2). exists s1. split; [exact H1|].
  cbn [run_from] in H2. destruct (step sc s1 (ESummary p res miss)) as [s2|] eqn:Es; [|discriminate].
  clear H2. revert Es. intros Es. unfold step in Es. cbv beta iota in Es.
  destruct (in_round s1 p) as [r|]; [|discriminate].
  match type of Es with (if ?c then _ else _) = _ => destruct c eqn:G; [|discriminate] end.
  repeat match goal with F : _ && _ = true |- _ => apply andb_true_iff in F; destruct F end.
  assert (P : Permutation res (processed s1)).
  { match goal with A : all_mem_rows res (processed s1) = true, B : all_mem_rows (processed s1) res = true |- _ =>
      pose proof (remove_rows_perm _ _ A) as PA; pose proof (remove_rows_perm _ _ B) as PB end.
    (* |res| <= |processed| and |processed| <= |res| with multiset inclusion both ways *)
    assert (L1 : (length res <= length (processed s1))%nat) by (rewrite <- (Permutation_length PA), app_length; lia).
    assert (L2 : (length (processed s1) <= length res)%nat) by (rewrite <- (Permutation_length PB), app_length; lia).
    assert (E : remove_rows res (processed s1) = []).
    { apply length_zero_iff_nil. apply Permutation_length in PA. rewrite app_length in PA. lia. }
    rewrite E in PA. cbn in PA. exact PA. }
  split; [exact P|]. split.
  - intros j. match goal with Q : eqsetN miss _ = true |- _ => rewrite eqsetN_spec in Q; rewrite Q end. apply diffN_spec.
  - intros x Hx. destruct (ghost_run_from _ _ _ _ H1) as (_ & _ & _ & R). cbn in R. rewrite <- R.
    pose proof (c11_rows_kept _ _ _ H1) as K. rewrite <- R in K.
    eapply Permutation_in; [symmetry; exact K|]. apply in_app_iff. right. eapply Permutation_in; [exact P|exact Hx].
Qed.

(* a job with a blocker that never got an outcome is never started *)
Theorem never_started_without_blocker_outcome sc tr s j d : run sc tr = Some s ->
  In d (deps sc j) -> ~ In d (row_names (rows_of tr)) -> ~ In j (launched_of tr).
Proof.
  intros H Hd Hn Hl. unfold launched_of in Hl. apply in_flat_map in Hl. destruct Hl as (e & He & Hj).
  destruct e; try contradiction. cbn in Hj. destruct Hj as [<-|[]].
  apply in_split in He. destruct He as (l1 & l2 & ->).
  pose proof (c02_system _ _ _ _ _ _ H d Hd) as C. apply Hn.
  unfold rows_of in *. rewrite flat_map_app, row_names_app. apply in_app_iff. left. exact C.
Qed.
