(* The invariant of the system model and its preservation by every accepted step.
   Clauses are grouped by the property they serve: placement (C01), order (C02), limits (C06). *)
From Coq Require Import List ZArith NArith Bool Arith Lia.
From Jade Require Import Base System SystemMonitors SystemProofs.
Import ListNotations.
Open Scope N_scope.
Set Default Timeout 300.

(* ---------- small facts ---------- *)
Lemma is_job_all_jobs sc j : is_job sc j = true -> In j (all_jobs sc).
Proof.
  unfold is_job, njobs, all_jobs. intros H. apply N.ltb_lt in H.
  apply in_map_iff. exists (N.to_nat j). split; [apply N2Nat.id|].
  apply in_seq. lia.
Qed.
Lemma eqsetN_spec a b : eqsetN a b = true <-> (forall x, In x a <-> In x b).
Proof.
  unfold eqsetN. rewrite andb_true_iff, !subsetN_spec. firstorder.
Qed.
Lemma app_not_nil {A} (l1 l2 : list A) : l2 <> [] -> l1 ++ l2 <> [].
Proof. destruct l1; cbn; [auto|discriminate]. Qed.
Lemma map_fst_not_nil {A B} (l : list (A * B)) : l <> [] -> map fst l <> [].
Proof. destruct l; cbn; [auto|discriminate]. Qed.
Lemma lookup_In {A} k (l : list (N * A)) v : lookup k l = Some v -> In (k, v) l.
Proof.
  induction l as [|[k' v'] l IH]; cbn; [discriminate|].
  destruct (N.eqb k k') eqn:E; [apply N.eqb_eq in E; intros H; injection H as ->; subst; auto|auto].
Qed.
Lemma row_names_app a b : row_names (a ++ b) = row_names a ++ row_names b.
Proof. apply map_app. Qed.

(* hpc list *)
Lemma set_h_ids id x l : map h_id (set_h id x l) = map h_id l.
Proof.
  unfold set_h. rewrite map_map. apply map_ext. intros h. destruct (N.eqb (h_id h) id); reflexivity.
Qed.
Lemma set_h_In id x l h' : In h' (set_h id x l) -> exists h, In h l /\ h_id h' = h_id h /\ h_jobs h' = h_jobs h.
Proof.
  unfold set_h. rewrite in_map_iff. intros (h & E & Hin). exists h. split; [exact Hin|].
  destruct (N.eqb (h_id h) id); subst; cbn; auto.
Qed.
Definition act_ids (l : list hentry) : list N := map h_id (filter h_active l).
Lemma act_ids_inactive id x l : (match x with HPending | HRunning => false | _ => true end) = true ->
  act_ids (set_h id x l) = rm id (act_ids l) \/ True.
Proof. auto. Qed.
Lemma act_ids_set_incl id x l :
  (forall h, In h l -> h_id h = id -> h_active h = true \/ (match x with HPending | HRunning => false | _ => true end) = true) ->
  incl (act_ids (set_h id x l)) (act_ids l).
Proof.
  unfold act_ids, set_h. intros Hh y Hy. apply in_map_iff in Hy. destruct Hy as (h' & <- & Hf).
  apply filter_In in Hf. destruct Hf as [Hin Hact]. apply in_map_iff in Hin. destruct Hin as (h & E & Hin).
  apply in_map_iff. destruct (N.eqb (h_id h) id) eqn:Eid.
  - apply N.eqb_eq in Eid. subst h'. cbn in *. exists h. split; [reflexivity|]. apply filter_In. split; [exact Hin|].
    destruct (Hh h Hin Eid) as [Ha|Hx]; [exact Ha|]. unfold h_active in Hact. cbn in Hact. destruct x; discriminate.
  - subst h'. exists h. split; [reflexivity|]. apply filter_In. auto.
Qed.
Lemma act_ids_rm id x l : (match x with HPending | HRunning => false | _ => true end) = true ->
  act_ids (set_h id x l) = rm id (act_ids l).
Proof.
  intros Hx. unfold act_ids, set_h, rm. induction l as [|h l IH]; cbn; [reflexivity|].
  destruct (N.eqb (h_id h) id) eqn:Eid.
  - unfold h_active at 1. cbn. replace (match x with HPending | HRunning => true | _ => false end) with false by (destruct x; auto; discriminate).
    destruct (h_active h); cbn; rewrite ?Eid; cbn; exact IH.
  - destruct (h_active h); cbn; rewrite ?Eid; cbn; [f_equal|]; exact IH.
Qed.
Lemma find_h_In id l h : find_h id l = Some h -> In h l /\ h_id h = id.
Proof.
  unfold find_h. intros H. apply find_some in H. destruct H as [H1 H2]. apply N.eqb_eq in H2. auto.
Qed.
Lemma find_n_In id l n : find_n id l = Some n -> In n l /\ n_id n = id.
Proof.
  unfold find_n. intros H. apply find_some in H. destruct H as [H1 H2]. apply N.eqb_eq in H2. auto.
Qed.
Lemma set_n_In nd l n' : In n' (set_n nd l) -> n' = nd \/ In n' l.
Proof.
  unfold set_n. rewrite in_map_iff. intros (n & E & Hin). destruct (N.eqb (n_id n) (n_id nd)); subst; auto.
Qed.

(* ---------- group 1: placement (C01) ---------- *)
Record Inv1 (sc : scenario) (s : state) : Prop := {
  i_round_owns : forall r, holder s = Some r -> r_round r = false -> r_owns r = false;
  i_owner_marker : forall r, holder s = Some r -> r_owns r = true -> marker s = true;
  i_notowns_placed : forall r, holder s = Some r -> r_owns r = false -> r_placed r = [];
  i_copy_ns : forall r j, holder s = Some r -> r_st r j = NS -> st s j = NS;
  i_handed_jobs : forall j, In j (handed s) -> In j (all_jobs sc);
  i_placed_jobs : forall r j, holder s = Some r -> In j (r_placed r) -> In j (all_jobs sc);
  i_handed_ns : forall j, In j (handed s) -> st s j = NS ->
                marker s = true /\ forall r, holder s = Some r -> r_owns r = true -> In j (r_placed r);
  i_updated_placed : forall r j, holder s = Some r -> r_updated r = true -> In j (r_placed r) -> st s j <> NS;
  i_nodup_handed : NoDup (handed s);
  i_index_le : forall r, holder s = Some r -> next_index s <= r_index r;
  i_index_eq : forall r, holder s = Some r ->
               (r_round r = false \/ r_updated r = true \/ r_placed r = []) -> r_index r = next_index s;
  i_indices : forall i, In i (indices s) ->
              i < next_index s \/ (marker s = true /\ forall r, holder s = Some r -> r_owns r = true -> i < r_index r);
  i_nodup_indices : NoDup (indices s)
}.

Lemma inv1_init sc : Inv1 sc init.
Proof. constructor; cbn; intros; try discriminate; try contradiction; try constructor. Qed.

Ltac prep e H := pose (EV := e); destruct e; step_inv H; use_holder; split_bools; rewrite ?orb_false_r, ?orb_true_r in *.
(* normalise: the holder equations are rewritten everywhere, facts quantified over the holder are
   instantiated, and when the new holder is a literal record the quantified session is replaced by it *)
Ltac spec_holder :=
  repeat match goal with
         | O : forall r, Some ?x = Some r -> _ |- _ => specialize (O x eq_refl)
         | O : forall r j, Some ?x = Some r -> _ |- _ => specialize (fun j => O x j eq_refl)
         | O : forall r, None = Some r -> _ |- _ => clear O
         | O : forall r j, None = Some r -> _ |- _ => clear O
         end.
Ltac hlit :=
  unfold set_session, with_holder, new_session in *; cbn [holder marker st bl ids next_index handed indices launched
    created complete canceled rows pending processed hpc nodes completions setups] in *;
  rw_holder; spec_holder;
  repeat match goal with
         | |- forall _ : session, _ => intro
         | |- forall _ : N, _ => intro
         | |- Some _ = Some _ -> _ => let E := fresh "E" in intros E; injection E as <-;
              cbn [r_pid r_alive r_st r_bl r_index r_out r_round r_canceled r_owns r_placed r_seen r_updated r_check
                   r_summary r_teardown r_setup r_creator r_polled r_collected] in *
         | |- None = Some _ -> _ => let E := fresh "E" in intros E; discriminate E
         end.
Ltac fwd := repeat match goal with O : ?a = ?b -> _, H : ?a = ?b |- _ => specialize (O H) end.
Ltac basic := solve [ eauto | intros; discriminate | intros; congruence | intros; cbn in *; eauto
                    | intros; cbn in *; congruence | intros; fwd; congruence | intros; cbn in *; contradiction
                    | intros; repeat match goal with E : ?x = _ :: _ |- _ => rewrite <- E in * end; eauto
                    | intros; unfold upd in *;
                      repeat match goal with H : context [if N.eqb ?a ?b then _ else _] |- _ => destruct (N.eqb a b) eqn:? end;
                      try discriminate; eauto ].

(* ---------- what the batch and update guards say ---------- *)
Lemma jstate_eqb_eq a b : jstate_eqb a b = true <-> a = b.
Proof. destruct a, b; cbn; split; intros; try discriminate; auto. Qed.

Lemma valid_batch_spec sc r g jobs : valid_batch sc r g jobs = true ->
  jobs <> [] /\ NoDup (map fst jobs) /\
  forall j b, In (j, b) jobs ->
    is_job sc j = true /\ jc_group (job sc j) = g /\ r_st r j = NS /\ ~ In j (r_placed r) /\
    (forall x, In x b <-> In x (r_bl r j)) /\ (forall x, In x b -> In x (map fst jobs)) /\
    (b <> [] -> gc_try (group sc g) = true).
Proof.
  unfold valid_batch. intros H.
  repeat match goal with F : _ && _ = true |- _ => apply andb_true_iff in F; destruct F end.
  split; [destruct jobs; [discriminate|discriminate]|].
  split; [apply nodupbN_spec; assumption|].
  intros j b Hin.
  match goal with F : forallb _ jobs = true |- _ => rewrite forallb_forall in F; specialize (F (j, b) Hin); cbn [fst snd] in F end.
  repeat match goal with F : _ && _ = true |- _ => apply andb_true_iff in F; destruct F end.
  repeat match goal with
         | F : negb _ = true |- _ => apply negb_true_iff in F
         | F : N.eqb _ _ = true |- _ => apply N.eqb_eq in F
         | F : jstate_eqb _ _ = true |- _ => apply jstate_eqb_eq in F
         | F : memN _ _ = false |- _ => apply memN_false in F
         | F : eqsetN _ _ = true |- _ => rewrite eqsetN_spec in F
         | F : subsetN _ _ = true |- _ => rewrite subsetN_spec in F
         end.
  repeat split; try assumption.
  all: try (intros Hx; match goal with F : forall x, In x _ <-> In x _ |- _ => apply F end; assumption).
  all: try (intros Hb; destruct b; [contradiction|assumption]).
Qed.

Lemma update_ok_spec r sn j : update_ok_job r sn j = true ->
  (In j (r_placed r) -> snap_st sn j = SUB /\ snap_bl sn j = []) /\
  (~ In j (r_placed r) ->
     match r_st r j with
     | NS => snap_st sn j = NS /\ (forall x, In x (snap_bl sn j) <-> In x (r_bl r j))
     | SUB => snap_st sn j <> NS /\ snap_bl sn j = []
     | DONE => snap_st sn j = DONE /\ snap_bl sn j = []
     end).
Proof.
  unfold update_ok_job, snap_st, snap_bl. destruct (lookup j (sn_jobs sn)) as [[x b]|]; [|discriminate].
  destruct (memN j (r_placed r)) eqn:Em.
  - intros H. apply andb_true_iff in H. destruct H as [H1 H2]. apply jstate_eqb_eq in H1.
    split; [intros _; split; [exact H1|destruct b; [reflexivity|discriminate]]|].
    intros Hn. apply memN_In in Em. contradiction.
  - intros H. split; [intros Hin; apply memN_false in Em; contradiction|]. intros _.
    destruct (r_st r j).
    + apply andb_true_iff in H. destruct H as [H1 H2]. apply jstate_eqb_eq in H1. split; [exact H1|apply eqsetN_spec; exact H2].
    + apply andb_true_iff in H. destruct H as [H1 H2]. split; [|destruct b; [reflexivity|discriminate]].
      destruct (memN j (r_seen r)); apply jstate_eqb_eq in H1; rewrite H1; discriminate.
    + apply andb_true_iff in H. destruct H as [H1 H2]. apply jstate_eqb_eq in H1. split; [exact H1|destruct b; [reflexivity|discriminate]].
Qed.

Ltac vb := match goal with F : valid_batch _ _ _ _ = true |- _ => apply valid_batch_spec in F; destruct F as (Vne & Vnd & Vj) end.
Ltac in_names Hin := apply in_map_iff in Hin; destruct Hin as ([? ?] & <- & Hin); cbn [fst].

Section Group1.
Variable sc : scenario.
Variables (s s' : state) (e : event).
Hypothesis H : step sc s e = Some s'.
Hypothesis HI : Inv1 sc s.

Lemma p_round_owns : forall r, holder s' = Some r -> r_round r = false -> r_owns r = false.
Proof. pose proof (i_round_owns sc s HI) as O. revert H. intros H. prep e H. all: hlit. all: basic. Qed.

Lemma p_owner_marker : forall r, holder s' = Some r -> r_owns r = true -> marker s' = true.
Proof. pose proof (i_owner_marker sc s HI) as O. revert H. intros H. prep e H. all: hlit. all: basic. Qed.

Lemma p_notowns_placed : forall r, holder s' = Some r -> r_owns r = false -> r_placed r = [].
Proof. pose proof (i_notowns_placed sc s HI) as O. revert H. intros H. prep e H. all: hlit. all: basic. Qed.

Lemma p_copy_ns : forall r j, holder s' = Some r -> r_st r j = NS -> st s' j = NS.
Proof. pose proof (i_copy_ns sc s HI) as O. revert H. intros H. prep e H. all: hlit. all: basic. Qed.

Lemma p_handed_jobs : forall j, In j (handed s') -> In j (all_jobs sc).
Proof.
  pose proof (i_handed_jobs sc s HI) as O. revert H. intros H. prep e H. all: hlit. all: try basic.
  all: intros Hin; apply in_app_iff in Hin; destruct Hin as [Hin|Hin]; [auto|].
  all: vb; in_names Hin; apply is_job_all_jobs; eapply Vj; eauto.
Qed.

Lemma p_placed_jobs : forall r j, holder s' = Some r -> In j (r_placed r) -> In j (all_jobs sc).
Proof.
  pose proof (i_placed_jobs sc s HI) as O. revert H. intros H. prep e H. all: hlit. all: try basic.
  all: intros Hin; apply in_app_iff in Hin; destruct Hin as [Hin|Hin]; [eauto|].
  all: vb; in_names Hin; apply is_job_all_jobs; eapply Vj; eauto.
Qed.
End Group1.

Section Group1b.
Variable sc : scenario.
Variables (s s' : state) (e : event).
Hypothesis H : step sc s e = Some s'.
Hypothesis HI : Inv1 sc s.

Lemma p_updated_placed : forall r j, holder s' = Some r -> r_updated r = true -> In j (r_placed r) -> st s' j <> NS.
Proof.
  pose proof (i_updated_placed sc s HI) as O. pose proof (i_placed_jobs sc s HI) as P.
  revert H. intros H. prep e H. all: hlit. all: try basic.
  (* update *)
  intros _ Hin. match goal with F : forallb (update_ok_job _ _) _ = true |- _ => rewrite forallb_forall in F; specialize (F j (P j Hin)); apply update_ok_spec in F; destruct F as [F _]; destruct (F Hin) as [F1 _]; rewrite F1; discriminate end.
Qed.

Lemma p_index_le : forall r, holder s' = Some r -> next_index s' <= r_index r.
Proof.
  pose proof (i_index_le sc s HI) as O. revert H. intros H. prep e H. all: hlit. all: try basic. all: try lia.
Qed.

Lemma p_index_eq : forall r, holder s' = Some r ->
  (r_round r = false \/ r_updated r = true \/ r_placed r = []) -> r_index r = next_index s'.
Proof.
  pose proof (i_index_eq sc s HI) as O. revert H. intros H. prep e H. all: hlit. all: try basic.
  all: try (intros [D|[D|D]]; try discriminate; try congruence; try (apply O; auto; fail)).
  all: try (exfalso; vb; apply app_eq_nil in D; destruct D as [_ D]; apply map_eq_nil in D; contradiction).
  all: try (apply O; rewrite <- ?Heql, <- ?Heql0; auto; fail).
Qed.

Lemma p_handed_ns : forall j, In j (handed s') -> st s' j = NS ->
  marker s' = true /\ forall r, holder s' = Some r -> r_owns r = true -> In j (r_placed r).
Proof.
  pose proof (i_handed_ns sc s HI) as O. pose proof (i_owner_marker sc s HI) as OM.
  pose proof (i_copy_ns sc s HI) as CN. pose proof (i_updated_placed sc s HI) as UP.
  pose proof (i_handed_jobs sc s HI) as HJ.
  revert H. intros H. prep e H. all: hlit; intros Hin Hns.
  all: try (destruct (O _ Hin Hns) as [Om Op]; split; [try congruence; auto|]; hlit; try basic; fail).
  all: lazymatch goal with EV := ?x |- _ =>
         lazymatch x with
         | ESbatch _ _ _ _ _ _ =>
           split; [eauto|]; hlit; intros _;
           apply in_app_iff; try (apply in_app_iff in Hin; destruct Hin as [Hin|Hin]; [|right; exact Hin]);
           left; destruct (O _ Hin Hns) as [_ Op]; spec_holder; apply Op; assumption
         | EUpdate _ _ =>
           match goal with F : forallb (update_ok_job _ _) _ = true |- _ =>
             rewrite forallb_forall in F; specialize (F j (HJ j Hin)); apply update_ok_spec in F; destruct F as [F1 F2] end;
           destruct (in_dec N.eq_dec j (r_placed s0)) as [Hp|Hp];
           [destruct (F1 Hp) as [F _]; congruence|];
           specialize (F2 Hp); destruct (r_st s0 j) eqn:Est;
           [ destruct (O _ Hin (CN j Est)) as [Om Op]; spec_holder; split; [exact Om|]; hlit; auto
           | destruct F2 as [F _]; contradiction | destruct F2 as [F _]; congruence ]
         | EMarkerRemove _ =>
           exfalso; destruct (O _ Hin Hns) as [_ Op]; spec_holder;
           match goal with E : r_owns _ = true |- _ => specialize (Op E) end;
           first [ eapply UP; eauto; fail | match goal with E : r_placed _ = [] |- _ => rewrite E in Op; contradiction end ]
         end
       end.
Qed.

Lemma p_nodup_handed : NoDup (handed s').
Proof.
  pose proof (i_nodup_handed sc s HI) as O. pose proof (i_handed_ns sc s HI) as HN.
  pose proof (i_copy_ns sc s HI) as CN.
  revert H. intros H. prep e H. all: hlit. all: try basic.
  all: vb; apply NoDup_app_iff; repeat split; [exact O|exact Vnd|];
    intros j Hj Hn; in_names Hn; destruct (Vj _ _ Hn) as (_ & _ & Vns & Vnp & _);
    destruct (HN _ Hj (CN _ Vns)) as [_ Op]; spec_holder; apply Vnp; apply Op; assumption.
Qed.

Lemma p_indices : forall i, In i (indices s') ->
  i < next_index s' \/ (marker s' = true /\ forall r, holder s' = Some r -> r_owns r = true -> i < r_index r).
Proof.
  pose proof (i_indices sc s HI) as O. pose proof (i_index_le sc s HI) as LE. pose proof (i_index_eq sc s HI) as IEQ.
  pose proof (i_owner_marker sc s HI) as OM.
  revert H. intros H. prep e H. all: hlit; intros Hin.
  all: try (destruct (O _ Hin) as [Ol|[Om Op]]; [left; try lia; auto|right; split; [try congruence; auto|]; hlit; try basic]; fail).
  all: lazymatch goal with EV := ?x |- _ =>
         lazymatch x with
         | ESbatch _ _ _ _ _ _ =>
           apply in_app_iff in Hin; destruct Hin as [Hin|[<-|[]]];
           [ destruct (O _ Hin) as [Ol|[Om Op]]; [left; exact Ol|right; split; [exact Om|]; hlit; intros _; spec_holder;
               match goal with E : r_owns _ = true |- _ => specialize (Op E) end; lia]
           | right; split; [eauto|]; hlit; intros _; lia ]
         | EMarkerRemove _ =>
           left; destruct (O _ Hin) as [Ol|[Om Op]]; [exact Ol|]; spec_holder;
           match goal with E : r_owns _ = true |- _ => specialize (Op E) end;
           rewrite <- IEQ; [exact Op|auto]
         end
       end.
Qed.

Lemma p_nodup_indices : NoDup (indices s').
Proof.
  pose proof (i_nodup_indices sc s HI) as O. pose proof (i_indices sc s HI) as IX. pose proof (i_index_le sc s HI) as LE.
  revert H. intros H. prep e H. all: hlit. all: try basic.
  all: apply NoDup_app_iff; repeat split; [exact O|repeat constructor; intros []|];
    intros i Hi [<-|[]]; destruct (IX _ Hi) as [Ol|[_ Op]]; spec_holder;
    [ lia | match goal with E : r_owns _ = true |- _ => specialize (Op E) end; lia ].
Qed.

End Group1b.



Lemma inv1_step sc s e s' : step sc s e = Some s' -> Inv1 sc s -> Inv1 sc s'.
Proof.
  intros H HI. constructor.
  - eapply p_round_owns; eauto.
  - eapply p_owner_marker; eauto.
  - eapply p_notowns_placed; eauto.
  - eapply p_copy_ns; eauto.
  - eapply p_handed_jobs; eauto.
  - eapply p_placed_jobs; eauto.
  - eapply p_handed_ns; eauto.
  - eapply p_updated_placed; eauto.
  - eapply p_nodup_handed; eauto.
  - eapply p_index_le; eauto.
  - eapply p_index_eq; eauto.
  - eapply p_indices; eauto.
  - eapply p_nodup_indices; eauto.
Qed.

Lemma inv1_run_from sc tr : forall s s', run_from sc s tr = Some s' -> Inv1 sc s -> Inv1 sc s'.
Proof.
  induction tr as [|e t IH]; intros s s' Hr HI; cbn [run_from] in Hr.
  - injection Hr as <-. exact HI.
  - destruct (step sc s e) as [s1|] eqn:Es; [|discriminate]. eapply IH; eauto using inv1_step.
Qed.

(* the ghost histories are the projections of the trace *)
Lemma ghost_step sc s e s' : step sc s e = Some s' ->
  handed s' = handed s ++ ev_handed e /\ indices s' = indices s ++ ev_indices e /\
  launched s' = launched s ++ ev_launched e /\ rows s' = rows s ++ ev_rows e.
Proof.
  intros H. prep e H.
  all: unfold set_session, with_holder in *; cbn [handed indices launched rows ev_handed ev_indices ev_launched ev_rows];
    rewrite ?app_nil_r; auto.
Qed.
Lemma ghost_run_from sc tr : forall s s', run_from sc s tr = Some s' ->
  handed s' = handed s ++ handed_of tr /\ indices s' = indices s ++ indices_of tr /\
  launched s' = launched s ++ launched_of tr /\ rows s' = rows s ++ rows_of tr.
Proof.
  induction tr as [|e t IH]; intros s s' Hr; cbn [run_from] in Hr.
  - injection Hr as <-. cbn. rewrite !app_nil_r. auto.
  - destruct (step sc s e) as [s1|] eqn:Es; [|discriminate].
    destruct (ghost_step _ _ _ _ Es) as (A & B & C & D). destruct (IH _ _ Hr) as (A' & B' & C' & D').
    unfold handed_of, indices_of, launched_of, rows_of in *. cbn [flat_map].
    rewrite A', B', C', D', A, B, C, D, <- !app_assoc. auto.
Qed.

Theorem c01_placement_accepted sc tr s : run sc tr = Some s ->
  nodupbN (handed_of tr) && nodupbN (indices_of tr) = true.
Proof.
  intros H. unfold run in H. pose proof (inv1_run_from _ _ _ _ H (inv1_init sc)) as HI.
  destruct (ghost_run_from _ _ _ _ H) as (A & B & _ & _). cbn in A, B.
  rewrite !andb_true_iff, !nodupbN_spec. rewrite <- A, <- B.
  split; [apply (i_nodup_handed _ _ HI)|apply (i_nodup_indices _ _ HI)].
Qed.
