(* Proofs about Status.v (C09): the status invariant is preserved by every operation under the
   preconditions its real callers guarantee, the internal assertions are unreachable there, and
   between resubmissions the persisted status only moves forward. *)
From Coq Require Import List ZArith NArith Bool Lia Arith.
From Jade Require Import Base Status.
Import ListNotations.
Open Scope Z_scope.

(* ---------- specification vocabulary ---------- *)
Definition wf (s : state) : Prop :=
  NoDup (names (js_jobs (st_js s)))
  /\ c_num (st_cfg s) = Z.of_nat (length (js_jobs (st_js s)))
  /\ (st_hash s = None \/ st_hash s = Some (st_cfg s)).

Definition status_inv (s : state) : Prop :=
  let c := st_cfg s in
  let jobs := js_jobs (st_js s) in
  0 <= c_completed c <= c_submitted c /\ c_submitted c <= c_num c
  /\ c_completed c = cnt DONE jobs
  /\ c_submitted c = cnt SUBMITTED jobs + cnt DONE jobs
  /\ (forall j, In j jobs -> j_state j <> NOT_SUBMITTED -> j_blocked j = [])
  /\ (forall j, In j jobs -> j_state j = DONE -> In (j_name j) (st_rows s)).

Definition inv (s : state) : Prop := wf s /\ status_inv s.

Definition state_le (a b : jstate) : Prop :=
  match a, b with
  | NOT_SUBMITTED, _ => True
  | SUBMITTED, NOT_SUBMITTED => False
  | SUBMITTED, _ => True
  | DONE, DONE => True
  | DONE, _ => False
  end.
Definition job_adv (a b : job) : Prop :=
  j_name a = j_name b /\ j_cancel a = j_cancel b /\ state_le (j_state a) (j_state b)
  /\ incl (j_blocked b) (j_blocked a).

Definition mono (s s' : state) : Prop :=
  let c := st_cfg s in let c' := st_cfg s' in
  c_num c = c_num c'
  /\ c_submitted c <= c_submitted c' /\ c_completed c <= c_completed c'
  /\ (c_complete c = true -> c_complete c' = true)
  /\ (c_canceled c = true -> c_canceled c' = true)
  /\ Forall2 job_adv (js_jobs (st_js s)) (js_jobs (st_js s'))
  /\ c_version c <= c_version c' /\ (c_version c = c_version c' -> c = c')
  /\ js_version (st_js s) <= js_version (st_js s') /\ (js_version (st_js s) = js_version (st_js s') -> st_js s = st_js s')
  /\ incl (st_rows s) (st_rows s').

(* ---------- basics ---------- *)
Lemma jstate_eqb_eq a b : jstate_eqb a b = true <-> a = b.
Proof. destruct a, b; cbn; split; intros H; try reflexivity; try discriminate. Qed.
Lemma jstate_eqb_refl a : jstate_eqb a a = true.
Proof. destruct a; reflexivity. Qed.
Lemma jstate_eqb_neq a b : jstate_eqb a b = false <-> a <> b.
Proof. rewrite <- jstate_eqb_eq. destruct (jstate_eqb a b); split; congruence. Qed.

Definition name_pres (f : job -> job) : Prop := forall j, j_name (f j) = j_name j.
Lemma np_set_state st : name_pres (set_state st). Proof. intros j; reflexivity. Qed.
Lemma np_set_blocked bs : name_pres (set_blocked bs). Proof. intros j; reflexivity. Qed.
Lemma np_cancel : name_pres (fun j => set_blocked [] (set_state DONE j)). Proof. intros j; reflexivity. Qed.

Lemma names_upd n f jobs : name_pres f -> names (upd_job n f jobs) = names jobs.
Proof.
  intros Hf. unfold names, upd_job. rewrite map_map. apply map_ext. intros j.
  destruct (N.eqb (j_name j) n); [apply Hf|reflexivity].
Qed.
Lemma length_upd n f jobs : length (upd_job n f jobs) = length jobs.
Proof. apply map_length. Qed.

Lemma find_job_upd m n f jobs : name_pres f ->
  find_job m (upd_job n f jobs) = if N.eqb m n then option_map f (find_job n jobs) else find_job m jobs.
Proof.
  intros Hf. unfold find_job, upd_job. induction jobs as [|a r IH]; cbn.
  - destruct (N.eqb m n); reflexivity.
  - destruct (N.eqb (j_name a) n) eqn:E.
    + apply N.eqb_eq in E. rewrite Hf. destruct (N.eqb m n) eqn:E2.
      * apply N.eqb_eq in E2. subst m. rewrite E, N.eqb_refl. reflexivity.
      * destruct (N.eqb (j_name a) m) eqn:E3.
        { apply N.eqb_eq in E3. apply N.eqb_neq in E2. congruence. }
        exact IH.
    + destruct (N.eqb m n) eqn:E2.
      * apply N.eqb_eq in E2. subst m. rewrite E. exact IH.
      * destruct (N.eqb (j_name a) m); [reflexivity|exact IH].
Qed.

Lemma find_job_In n jobs j : find_job n jobs = Some j -> In j jobs /\ j_name j = n.
Proof.
  unfold find_job. intros H. apply find_some in H. destruct H as [H1 H2]. apply N.eqb_eq in H2. auto.
Qed.
Lemma find_job_None n jobs : find_job n jobs = None <-> ~ In n (names jobs).
Proof.
  unfold find_job, names. induction jobs as [|a r IH]; cbn.
  - tauto.
  - destruct (N.eqb (j_name a) n) eqn:E.
    + apply N.eqb_eq in E. split; [discriminate|]. intros H. exfalso. apply H. auto.
    + apply N.eqb_neq in E. rewrite IH. tauto.
Qed.
Lemma find_unique jobs j : NoDup (names jobs) -> In j jobs -> find_job (j_name j) jobs = Some j.
Proof.
  unfold find_job, names. induction jobs as [|a r IH]; cbn; intros Hn Hi; [destruct Hi|].
  inversion Hn as [|? ? Hna Hnr]; subst. destruct Hi as [->|Hi].
  - rewrite N.eqb_refl. reflexivity.
  - destruct (N.eqb (j_name a) (j_name j)) eqn:E.
    + apply N.eqb_eq in E. exfalso. apply Hna. rewrite E. apply in_map. exact Hi.
    + apply IH; assumption.
Qed.
Lemma upd_notin n f jobs : ~ In n (names jobs) -> upd_job n f jobs = jobs.
Proof.
  unfold upd_job, names. induction jobs as [|a r IH]; cbn; intros H; [reflexivity|].
  destruct (N.eqb (j_name a) n) eqn:E.
  - apply N.eqb_eq in E. exfalso. apply H. auto.
  - f_equal. apply IH. intros Hi. apply H. auto.
Qed.

Definition b2z (b : bool) : Z := if b then 1 else 0.

Lemma cnt_cons x a r : cnt x (a :: r) = b2z (jstate_eqb (j_state a) x) + cnt x r.
Proof.
  unfold cnt. cbn. destruct (jstate_eqb (j_state a) x); cbn [length b2z]; lia.
Qed.
Lemma cnt_nonneg x jobs : 0 <= cnt x jobs.
Proof. unfold cnt. lia. Qed.
Lemma cnt_total jobs : cnt NOT_SUBMITTED jobs + cnt SUBMITTED jobs + cnt DONE jobs = Z.of_nat (length jobs).
Proof.
  induction jobs as [|a r IH]; [reflexivity|]. rewrite !cnt_cons. cbn [length]. rewrite Nat2Z.inj_succ.
  destruct (j_state a); cbn [jstate_eqb b2z]; lia.
Qed.

Lemma cnt_upd x n f jobs j : NoDup (names jobs) -> name_pres f -> find_job n jobs = Some j ->
  cnt x (upd_job n f jobs) = cnt x jobs - b2z (jstate_eqb (j_state j) x) + b2z (jstate_eqb (j_state (f j)) x).
Proof.
  intros Hn Hf. revert Hn. induction jobs as [|a r IH]; intros Hn Hfind; [discriminate|].
  inversion Hn as [|? ? Hna Hnr]; subst. unfold find_job in Hfind. cbn in Hfind.
  change (upd_job n f (a :: r)) with ((if N.eqb (j_name a) n then f a else a) :: upd_job n f r).
  destruct (N.eqb (j_name a) n) eqn:E.
  - injection Hfind as <-. apply N.eqb_eq in E. subst n. rewrite (upd_notin _ _ _ Hna). rewrite !cnt_cons. lia.
  - rewrite !cnt_cons. rewrite (IH Hnr Hfind). lia.
Qed.

(* states only: cnt depends on the states *)
Lemma cnt_map_state x g jobs : (forall j, j_state (g j) = j_state j) -> cnt x (map g jobs) = cnt x jobs.
Proof.
  intros Hg. induction jobs as [|a r IH]; [reflexivity|]. cbn [map]. rewrite !cnt_cons, Hg, IH. reflexivity.
Qed.

(* ---------- advancing ---------- *)
Lemma state_le_refl a : state_le a a. Proof. destruct a; exact I. Qed.
Lemma state_le_trans a b c : state_le a b -> state_le b c -> state_le a c.
Proof. destruct a, b, c; cbn; tauto. Qed.
Lemma job_adv_refl a : job_adv a a.
Proof. repeat split; try reflexivity; [apply state_le_refl|apply incl_refl]. Qed.
Lemma job_adv_trans a b c : job_adv a b -> job_adv b c -> job_adv a c.
Proof.
  intros [H1 [H2 [H3 H4]]] [G1 [G2 [G3 G4]]]. repeat split; try congruence.
  - eapply state_le_trans; eassumption.
  - eapply incl_tran; eassumption.
Qed.
Lemma Forall2_refl {A} (R : A -> A -> Prop) l : (forall a, R a a) -> Forall2 R l l.
Proof. intros H. induction l; constructor; auto. Qed.
Lemma Forall2_trans {A} (R : A -> A -> Prop) l1 : (forall a b c, R a b -> R b c -> R a c) ->
  forall l2 l3, Forall2 R l1 l2 -> Forall2 R l2 l3 -> Forall2 R l1 l3.
Proof.
  intros HR. induction l1 as [|a r IH]; intros l2 l3 H12 H23.
  - inversion H12; subst. inversion H23; subst. constructor.
  - inversion H12; subst. inversion H23; subst. constructor; [eapply HR; eassumption|eapply IH; eassumption].
Qed.
Lemma adv_refl jobs : Forall2 job_adv jobs jobs.
Proof. apply Forall2_refl. exact job_adv_refl. Qed.
Lemma adv_trans a b c : Forall2 job_adv a b -> Forall2 job_adv b c -> Forall2 job_adv a c.
Proof. apply Forall2_trans. exact job_adv_trans. Qed.

Lemma adv_map g jobs : (forall j, In j jobs -> job_adv j (g j)) -> Forall2 job_adv jobs (map g jobs).
Proof.
  induction jobs as [|a r IH]; intros H; cbn; constructor.
  - apply H. left. reflexivity.
  - apply IH. intros j Hj. apply H. right. exact Hj.
Qed.
Lemma adv_upd n f jobs j : NoDup (names jobs) -> find_job n jobs = Some j -> job_adv j (f j) ->
  Forall2 job_adv jobs (upd_job n f jobs).
Proof.
  intros Hn Hf Ha. unfold upd_job. apply adv_map. intros j' Hj'.
  destruct (N.eqb (j_name j') n) eqn:E; [|apply job_adv_refl].
  apply N.eqb_eq in E. pose proof (find_unique _ _ Hn Hj') as Hu. rewrite E in Hu.
  assert (j' = j) by congruence. subst. exact Ha.
Qed.

Lemma Forall_upd (P : job -> Prop) n f jobs :
  Forall P jobs -> (forall j, In j jobs -> j_name j = n -> P (f j)) -> Forall P (upd_job n f jobs).
Proof.
  intros HP Hf. unfold upd_job. apply Forall_forall. intros x Hx. apply in_map_iff in Hx.
  destruct Hx as [j [<- Hj]]. destruct (N.eqb (j_name j) n) eqn:E.
  - apply N.eqb_eq in E. apply Hf; assumption.
  - rewrite Forall_forall in HP. apply HP. exact Hj.
Qed.

(* ---------- is_state ---------- *)
Lemma is_state_find jobs n st : is_state jobs n st = true <-> exists j, find_job n jobs = Some j /\ j_state j = st.
Proof.
  unfold is_state. destruct (find_job n jobs) as [j|].
  - rewrite jstate_eqb_eq. split; [intros H; exists j; auto|intros [j' [H1 H2]]; congruence].
  - split; [discriminate|intros [j' [H1 _]]; discriminate].
Qed.
Lemma is_state_fun jobs n a b : is_state jobs n a = true -> is_state jobs n b = true -> a = b.
Proof. rewrite !is_state_find. intros [j [H1 H2]] [j' [G1 G2]]. congruence. Qed.
Lemma is_state_upd_other jobs n m f st : name_pres f -> m <> n -> is_state (upd_job n f jobs) m st = is_state jobs m st.
Proof.
  intros Hf Hne. unfold is_state. rewrite find_job_upd by exact Hf.
  apply N.eqb_neq in Hne. rewrite Hne. reflexivity.
Qed.
Lemma is_state_upd_same jobs n f j : name_pres f -> find_job n jobs = Some j ->
  is_state (upd_job n f jobs) n (j_state (f j)) = true.
Proof.
  intros Hf Hj. unfold is_state. rewrite find_job_upd by exact Hf. rewrite N.eqb_refl, Hj. cbn. apply jstate_eqb_refl.
Qed.
Lemma is_state_upd_keep jobs n f m st : name_pres f -> (forall j, j_state (f j) = j_state j) ->
  is_state (upd_job n f jobs) m st = is_state jobs m st.
Proof.
  intros Hf Hs. unfold is_state. rewrite find_job_upd by exact Hf. destruct (N.eqb m n) eqn:E; [|reflexivity].
  apply N.eqb_eq in E. subst. destruct (find_job n jobs); cbn; [rewrite Hs|]; reflexivity.
Qed.

(* ---------- table transitions ---------- *)
Definition trans (jobs jobs' : list job) (dS dD : Z) : Prop :=
  names jobs' = names jobs /\ Forall2 job_adv jobs jobs'
  /\ cnt SUBMITTED jobs' = cnt SUBMITTED jobs + dS /\ cnt DONE jobs' = cnt DONE jobs + dD.

Lemma trans_refl jobs : trans jobs jobs 0 0.
Proof. repeat split; try lia. apply adv_refl. Qed.
Lemma trans_trans a b c s1 d1 s2 d2 : trans a b s1 d1 -> trans b c s2 d2 -> trans a c (s1 + s2) (d1 + d2).
Proof.
  intros [H1 [H2 [H3 H4]]] [G1 [G2 [G3 G4]]]. repeat split; try congruence; try lia.
  eapply adv_trans; eassumption.
Qed.
Lemma trans_upd n f jobs j : NoDup (names jobs) -> name_pres f -> find_job n jobs = Some j -> job_adv j (f j) ->
  trans jobs (upd_job n f jobs)
        (b2z (jstate_eqb (j_state (f j)) SUBMITTED) - b2z (jstate_eqb (j_state j) SUBMITTED))
        (b2z (jstate_eqb (j_state (f j)) DONE) - b2z (jstate_eqb (j_state j) DONE)).
Proof.
  intros Hn Hf Hj Ha. repeat split.
  - apply names_upd. exact Hf.
  - eapply adv_upd; eassumption.
  - rewrite (cnt_upd _ _ _ _ _ Hn Hf Hj). lia.
  - rewrite (cnt_upd _ _ _ _ _ Hn Hf Hj). lia.
Qed.

Lemma trans_eq a b s d s' d' : trans a b s d -> s = s' -> d = d' -> trans a b s' d'.
Proof. intros H -> ->. exact H. Qed.

Definition P_rows (R : list N) (j : job) : Prop := j_state j = DONE -> In (j_name j) R.

(* stage A: the in-memory pre-mutations *)
Lemma pre_spec R : forall pre jobs, NoDup (names jobs) -> pre_ok jobs pre = true -> incl (cancel_names pre) R ->
  let jobs1 := apply_pre pre jobs in
  trans jobs jobs1 0 (Z.of_nat (length (cancel_names pre)))
  /\ (forall n, In n (cancel_names pre) -> is_state jobs1 n DONE = true)
  /\ (forall n st, st <> NOT_SUBMITTED -> is_state jobs n st = true -> is_state jobs1 n st = true)
  /\ (Forall (P_rows R) jobs -> Forall (P_rows R) jobs1).
Proof.
  induction pre as [|p r IH]; intros jobs Hn Hok Hincl; cbn zeta.
  - cbn. split; [apply trans_refl|]. split; [intros n []|]. split; auto.
  - cbn [pre_ok] in Hok. apply andb_true_iff in Hok. destruct Hok as [Hp Hr].
    cbn [apply_pre fold_left]. change (fold_left (fun js p0 => apply_premut p0 js) r (apply_premut p jobs))
      with (apply_pre r (apply_premut p jobs)).
    destruct p as [n|n bs].
    + (* PreCancel *)
      apply is_state_find in Hp. destruct Hp as [j [Hj Hst]].
      set (f := fun j => set_blocked [] (set_state DONE j)).
      assert (Hadv : job_adv j (f j)).
      { repeat split; cbn; [rewrite Hst; exact I|intros x []]. }
      assert (Ht : trans jobs (upd_job n f jobs) 0 1).
      { eapply trans_eq; [exact (trans_upd n f jobs j Hn np_cancel Hj Hadv)| |]; unfold f; cbn [set_blocked set_state j_state];
          rewrite Hst; reflexivity. }
      assert (Hn' : NoDup (names (apply_premut (PreCancel n) jobs))).
      { cbn. fold f. rewrite names_upd; [exact Hn|exact np_cancel]. }
      cbn [cancel_names] in Hincl.
      specialize (IH (apply_premut (PreCancel n) jobs) Hn' Hr (fun x Hx => Hincl x (or_intror Hx))).
      cbn zeta in IH. destruct IH as [It [Ic [Is Ip]]].
      cbn [cancel_names length]. rewrite Nat2Z.inj_succ. split; [|split; [|split]].
      * eapply trans_eq; [exact (trans_trans _ _ _ _ _ _ _ Ht It)|lia|lia].
      * intros m [<-|Hm]; [|apply Ic; exact Hm].
        apply Is; [discriminate|]. cbn. fold f.
        exact (is_state_upd_same jobs n f j np_cancel Hj).
      * intros m st Hne Hm. apply Is; [exact Hne|]. cbn. fold f.
        destruct (N.eq_dec m n) as [->|Hmn].
        { exfalso. apply Hne. apply (is_state_fun jobs n st NOT_SUBMITTED Hm). apply is_state_find. eauto. }
        rewrite is_state_upd_other; [exact Hm|exact np_cancel|exact Hmn].
      * intros HP. apply Ip. cbn. fold f. apply Forall_upd; [exact HP|].
        intros j' _ Hname _. cbn. rewrite Hname. apply Hincl. left. reflexivity.
    + (* PreShrink *)
      apply andb_true_iff in Hp. destruct Hp as [Hp Hsub].
      apply is_state_find in Hp. destruct Hp as [j [Hj Hst]].
      assert (Hadv : job_adv j (set_blocked bs j)).
      { repeat split; cbn; [apply state_le_refl|]. unfold blocked_of in Hsub. rewrite Hj in Hsub.
        intros x Hx. rewrite subsetN_spec in Hsub. auto. }
      assert (Ht : trans jobs (upd_job n (set_blocked bs) jobs) 0 0).
      { eapply trans_eq; [exact (trans_upd n (set_blocked bs) jobs j Hn (np_set_blocked bs) Hj Hadv)| |];
          cbn [set_blocked j_state]; lia. }
      assert (Hn' : NoDup (names (apply_premut (PreShrink n bs) jobs))).
      { cbn. rewrite names_upd; [exact Hn|apply np_set_blocked]. }
      cbn [cancel_names] in Hincl |- *.
      specialize (IH (apply_premut (PreShrink n bs) jobs) Hn' Hr Hincl).
      cbn zeta in IH. destruct IH as [It [Ic [Is Ip]]]. split; [|split; [|split]].
      * eapply trans_eq; [exact (trans_trans _ _ _ _ _ _ _ Ht It)|lia|lia].
      * exact Ic.
      * intros m st Hne Hm. apply Is; [exact Hne|]. cbn.
        rewrite is_state_upd_keep; [exact Hm|apply np_set_blocked|reflexivity].
      * intros HP. apply Ip. cbn. apply Forall_upd; [exact HP|].
        intros j' Hj' Hname. rewrite Forall_forall in HP. exact (HP j' Hj').
Qed.

(* stage B: for job in submitted_jobs *)
Lemma submit_spec R : forall L jobs, NoDup (names jobs) -> NoDup L ->
  (forall n, In n L -> is_state jobs n NOT_SUBMITTED = true) ->
  exists jobs2, submit_loop L jobs = Ok jobs2
    /\ trans jobs jobs2 (Z.of_nat (length L)) 0
    /\ (forall m st, ~ In m L -> is_state jobs2 m st = is_state jobs m st)
    /\ (forall m, ~ In m L -> blocked_of jobs2 m = blocked_of jobs m)
    /\ (Forall (P_rows R) jobs -> Forall (P_rows R) jobs2).
Proof.
  induction L as [|n r IH]; intros jobs Hn Hd Hst.
  - exists jobs. cbn. split; [reflexivity|]. split; [apply trans_refl|]. auto.
  - inversion Hd as [|? ? Hnr Hdr]; subst.
    pose proof (Hst n (or_introl eq_refl)) as Hs. apply is_state_find in Hs. destruct Hs as [j [Hj Hjs]].
    cbn [submit_loop]. rewrite Hj, Hjs. cbn [jstate_eqb].
    set (jobs' := upd_job n (set_state SUBMITTED) jobs).
    assert (Ht : trans jobs jobs' 1 0).
    { eapply trans_eq; [apply (trans_upd n (set_state SUBMITTED) jobs j Hn (np_set_state _) Hj)| |].
      - repeat split; cbn; [rewrite Hjs; exact I|apply incl_refl].
      - cbn [set_state j_state]. rewrite Hjs. reflexivity.
      - cbn [set_state j_state]. rewrite Hjs. reflexivity. }
    assert (Hn' : NoDup (names jobs')) by (unfold jobs'; rewrite names_upd; [exact Hn|apply np_set_state]).
    assert (Hst' : forall m, In m r -> is_state jobs' m NOT_SUBMITTED = true).
    { intros m Hm. unfold jobs'. rewrite is_state_upd_other; [apply Hst; right; exact Hm|apply np_set_state|].
      intros ->. exact (Hnr Hm). }
    destruct (IH jobs' Hn' Hdr Hst') as [jobs2 [E [T [Fs [Fb Fp]]]]].
    exists jobs2. split; [exact E|]. split; [|split; [|split]].
    + eapply trans_eq; [exact (trans_trans _ _ _ _ _ _ _ Ht T)| |lia]. cbn [length]. lia.
    + intros m st Hm. rewrite Fs by (intros H; apply Hm; right; exact H).
      unfold jobs'. apply is_state_upd_other; [apply np_set_state|]. intros ->. apply Hm. left. reflexivity.
    + intros m Hm. rewrite Fb by (intros H; apply Hm; right; exact H).
      unfold jobs', blocked_of. rewrite find_job_upd by apply np_set_state.
      destruct (N.eqb m n) eqn:E2; [|reflexivity]. apply N.eqb_eq in E2. exfalso. apply Hm. left. auto.
    + intros HP. apply Fp. unfold jobs'. apply Forall_upd; [exact HP|]. intros j' _ _ Hc. discriminate Hc.
Qed.

(* stage C: for job in blocked_jobs *)
Lemma blocked_spec R : forall L jobs, NoDup (names jobs) -> NoDup (map fst L) ->
  (forall n bs, In (n, bs) L -> is_state jobs n NOT_SUBMITTED = true /\ incl bs (blocked_of jobs n)) ->
  exists jobs3, blocked_loop L jobs = Ok jobs3
    /\ trans jobs jobs3 0 0
    /\ (forall m st, is_state jobs3 m st = is_state jobs m st)
    /\ (Forall (P_rows R) jobs -> Forall (P_rows R) jobs3).
Proof.
  induction L as [|[n bs] r IH]; intros jobs Hn Hd Hst.
  - exists jobs. cbn. split; [reflexivity|]. split; [apply trans_refl|]. auto.
  - cbn [map fst] in Hd. inversion Hd as [|? ? Hnr Hdr]; subst.
    destruct (Hst n bs (or_introl eq_refl)) as [Hs Hb]. apply is_state_find in Hs. destruct Hs as [j [Hj Hjs]].
    cbn [blocked_loop]. rewrite Hj, Hjs. cbn [jstate_eqb].
    set (jobs' := upd_job n (set_blocked bs) jobs).
    assert (Ht : trans jobs jobs' 0 0).
    { eapply trans_eq; [apply (trans_upd n (set_blocked bs) jobs j Hn (np_set_blocked _) Hj)| |].
      - repeat split; cbn; [apply state_le_refl|]. unfold blocked_of in Hb. rewrite Hj in Hb. exact Hb.
      - cbn [set_blocked j_state]. lia.
      - cbn [set_blocked j_state]. lia. }
    assert (Hn' : NoDup (names jobs')) by (unfold jobs'; rewrite names_upd; [exact Hn|apply np_set_blocked]).
    assert (Hkeep : forall m st, is_state jobs' m st = is_state jobs m st).
    { intros m st. unfold jobs'. apply is_state_upd_keep; [apply np_set_blocked|reflexivity]. }
    assert (Hst' : forall m bs', In (m, bs') r -> is_state jobs' m NOT_SUBMITTED = true /\ incl bs' (blocked_of jobs' m)).
    { intros m bs' Hm. destruct (Hst m bs' (or_intror Hm)) as [H1 H2]. split; [rewrite Hkeep; exact H1|].
      unfold jobs', blocked_of. rewrite find_job_upd by apply np_set_blocked.
      destruct (N.eqb m n) eqn:E2; [|exact H2]. apply N.eqb_eq in E2. subst m. exfalso. apply Hnr.
      change n with (fst (n, bs')). apply in_map. exact Hm. }
    destruct (IH jobs' Hn' Hdr Hst') as [jobs3 [E [T [Fs Fp]]]].
    exists jobs3. split; [exact E|]. split; [|split].
    + eapply trans_eq; [exact (trans_trans _ _ _ _ _ _ _ Ht T)|lia|lia].
    + intros m st. rewrite Fs. apply Hkeep.
    + intros HP. apply Fp. unfold jobs'. apply Forall_upd; [exact HP|].
      intros j' Hj' _. rewrite Forall_forall in HP. exact (HP j' Hj').
Qed.

(* stage D: for name in completed_job_names *)
Definition nsub (jobs : list job) (L : list N) : Z :=
  Z.of_nat (length (filter (fun n => is_state jobs n SUBMITTED) L)).

Lemma completed_spec R processed : forall L jobs, NoDup (names jobs) -> NoDup L -> incl L R ->
  (forall n, In n L -> ~ In n processed /\ (is_state jobs n SUBMITTED = true \/ is_state jobs n DONE = true)) ->
  exists jobs4, completed_loop L processed jobs = Ok jobs4
    /\ trans jobs jobs4 (- nsub jobs L) (nsub jobs L)
    /\ (Forall (P_rows R) jobs -> Forall (P_rows R) jobs4).
Proof.
  induction L as [|n r IH]; intros jobs Hn Hd HR Hst.
  - exists jobs. cbn. split; [reflexivity|]. split; [apply trans_refl|]. auto.
  - inversion Hd as [|? ? Hnr Hdr]; subst.
    destruct (Hst n (or_introl eq_refl)) as [Hnp Hs].
    cbn [completed_loop]. apply memN_false in Hnp. rewrite Hnp.
    set (jobs' := upd_job n (set_state DONE) jobs).
    assert (Hex : exists j, find_job n jobs = Some j /\ (j_state j = SUBMITTED \/ j_state j = DONE)).
    { destruct Hs as [Hs|Hs]; apply is_state_find in Hs; destruct Hs as [j [Hj Hjs]]; exists j; auto. }
    destruct Hex as [j [Hj Hjs]]. rewrite Hj.
    assert (Ht : trans jobs jobs' (- b2z (is_state jobs n SUBMITTED)) (b2z (is_state jobs n SUBMITTED))).
    { eapply trans_eq; [apply (trans_upd n (set_state DONE) jobs j Hn (np_set_state _) Hj)| |].
      - repeat split; cbn; [|apply incl_refl]. destruct (j_state j); exact I.
      - cbn [set_state j_state]. unfold is_state. rewrite Hj. destruct Hjs as [->| ->]; reflexivity.
      - cbn [set_state j_state]. unfold is_state. rewrite Hj. destruct Hjs as [->| ->]; reflexivity. }
    assert (Hn' : NoDup (names jobs')) by (unfold jobs'; rewrite names_upd; [exact Hn|apply np_set_state]).
    assert (Hother : forall m st, In m r -> is_state jobs' m st = is_state jobs m st).
    { intros m st Hm. unfold jobs'. apply is_state_upd_other; [apply np_set_state|]. intros ->. exact (Hnr Hm). }
    assert (Hst' : forall m, In m r -> ~ In m processed /\ (is_state jobs' m SUBMITTED = true \/ is_state jobs' m DONE = true)).
    { intros m Hm. destruct (Hst m (or_intror Hm)) as [H1 H2]. split; [exact H1|]. rewrite !Hother by exact Hm. exact H2. }
    destruct (IH jobs' Hn' Hdr (fun x Hx => HR x (or_intror Hx)) Hst') as [jobs4 [E [T Fp]]].
    exists jobs4. split; [exact E|]. split.
    + assert (Hns : nsub jobs (n :: r) = b2z (is_state jobs n SUBMITTED) + nsub jobs' r).
      { unfold nsub. cbn [filter].
        rewrite (filter_ext_in (fun m => is_state jobs' m SUBMITTED) (fun m => is_state jobs m SUBMITTED) r)
          by (intros m Hm; apply Hother; exact Hm).
        destruct (is_state jobs n SUBMITTED); cbn [length b2z]; lia. }
      eapply trans_eq; [exact (trans_trans _ _ _ _ _ _ _ Ht T)|lia|lia].
    + intros HP. apply Fp. unfold jobs'. apply Forall_upd; [exact HP|].
      intros j' _ Hname _. cbn. rewrite Hname. apply HR. left. reflexivity.
Qed.

(* counting: |{n in L : n in C}| = |C| for duplicate-free C included in duplicate-free L *)
Lemma filter_mem_length (C L : list N) : NoDup C -> NoDup L -> incl C L ->
  length (filter (fun n => memN n C) L) = length C.
Proof.
  intros HC HL Hincl. apply Nat.le_antisymm.
  - apply NoDup_incl_length; [apply NoDup_filter; exact HL|].
    intros x Hx. apply filter_In in Hx. apply memN_In. tauto.
  - apply NoDup_incl_length; [exact HC|].
    intros x Hx. apply filter_In. split; [auto|apply memN_In; exact Hx].
Qed.
Lemma filter_split_length {A} (f : A -> bool) l :
  (length (filter f l) + length (filter (fun x => negb (f x)) l))%nat = length l.
Proof. induction l as [|a r IH]; cbn; [reflexivity|]. destruct (f a); cbn; lia. Qed.

(* ---------- serialisation ---------- *)
Lemma config_eqb_eq a b : config_eqb a b = true <-> a = b.
Proof.
  destruct a, b. unfold config_eqb. cbn.
  rewrite !andb_true_iff, !Z.eqb_eq, !eqb_true_iff. split.
  - intros [[[[[[? ?] ?] ?] ?] ?] ?]. congruence.
  - intros H. injection H as -> -> -> -> -> -> ->. tauto.
Qed.

Lemma ser_spec c0 c1 h : (h = None \/ h = Some c0) -> c_version c1 = c_version c0 ->
  let c' := fst (serialize_cfg c1 h) in
  snd (serialize_cfg c1 h) = Some c' /\ (c' = c1 \/ c' = bump_cfg c1)
  /\ c_version c0 <= c_version c' /\ (c_version c0 = c_version c' -> c1 = c0 /\ c' = c0).
Proof.
  intros Hh Hv. unfold serialize_cfg. destruct Hh as [-> | ->].
  - cbn. repeat split; auto; lia.
  - destruct (config_eqb c1 c0) eqn:E.
    + apply config_eqb_eq in E. subst. cbn. repeat split; auto; lia.
    + cbn. repeat split; auto; lia.
Qed.

Lemma list_eqb_N_eq a b : list_eqb N.eqb a b = true -> a = b.
Proof.
  revert b. induction a as [|x a IH]; destruct b as [|y b]; cbn; intros H; try reflexivity; try discriminate.
  apply andb_true_iff in H. destruct H as [H1 H2]. apply N.eqb_eq in H1. subst. f_equal. auto.
Qed.

Lemma names_length jobs jobs' : names jobs' = names jobs -> length jobs' = length jobs.
Proof. unfold names. intros H. rewrite <- (map_length j_name jobs'), H. apply map_length. Qed.

Lemma names_clear jobs : names (clear_loop jobs) = names jobs.
Proof. unfold names, clear_loop. rewrite map_map. apply map_ext. intros j. destruct (j_state j); reflexivity. Qed.
Lemma cnt_clear x jobs : cnt x (clear_loop jobs) = cnt x jobs.
Proof. apply cnt_map_state. intros j. destruct (j_state j) eqn:E; cbn; congruence. Qed.
Lemma adv_clear jobs : Forall2 job_adv jobs (clear_loop jobs).
Proof.
  apply adv_map. intros j _. destruct (j_state j) eqn:E; [apply job_adv_refl| |];
    (repeat split; cbn; [apply state_le_refl|intros x []]).
Qed.
Lemma clear_blocked jobs : forall j, In j (clear_loop jobs) -> j_state j <> NOT_SUBMITTED -> j_blocked j = [].
Proof.
  intros j Hj Hs. apply in_map_iff in Hj. destruct Hj as [j0 [<- _]].
  destruct (j_state j0) eqn:E; [|reflexivity|reflexivity]. exfalso. apply Hs. exact E.
Qed.
Lemma rows_clear R jobs : Forall (P_rows R) jobs -> Forall (P_rows R) (clear_loop jobs).
Proof.
  intros H. apply Forall_forall. intros j Hj. apply in_map_iff in Hj. destruct Hj as [j0 [<- Hj0]].
  rewrite Forall_forall in H. specialize (H j0 Hj0). unfold P_rows in *. destruct (j_state j0) eqn:E; cbn; rewrite ?E; auto.
Qed.

Lemma status_ineq c jobs : c_num c = Z.of_nat (length jobs) -> c_completed c = cnt DONE jobs ->
  c_submitted c = cnt SUBMITTED jobs + cnt DONE jobs ->
  0 <= c_completed c <= c_submitted c /\ c_submitted c <= c_num c.
Proof.
  intros H1 H2 H3. pose proof (cnt_total jobs). pose proof (cnt_nonneg NOT_SUBMITTED jobs).
  pose proof (cnt_nonneg SUBMITTED jobs). pose proof (cnt_nonneg DONE jobs). lia.
Qed.

(* canceled names are duplicate-free: a canceled job is DONE afterwards and cannot be canceled again *)
Lemma done_stays n : forall r jobs, is_state jobs n DONE = true -> pre_ok jobs r = true -> ~ In n (cancel_names r).
Proof.
  induction r as [|q r IHr]; intros jobs Hdone Kr Hin; [destruct Hin|].
  cbn [pre_ok] in Kr. apply andb_true_iff in Kr. destruct Kr as [Kq Kr].
  assert (Hdone' : is_state (apply_premut q jobs) n DONE = true).
  { destruct q as [m|m bs]; cbn.
    - destruct (N.eq_dec n m) as [->|Hne].
      + pose proof (is_state_fun _ _ _ _ Kq Hdone). discriminate.
      + rewrite is_state_upd_other; [exact Hdone|exact np_cancel|exact Hne].
    - rewrite is_state_upd_keep; [exact Hdone|apply np_set_blocked|reflexivity]. }
  destruct q as [m|m bs]; cbn [cancel_names] in Hin.
  - destruct Hin as [->|Hin]; [pose proof (is_state_fun _ _ _ _ Kq Hdone); discriminate|].
    exact (IHr _ Hdone' Kr Hin).
  - exact (IHr _ Hdone' Kr Hin).
Qed.
Lemma cancel_names_nodup : forall pre jobs, NoDup (names jobs) -> pre_ok jobs pre = true -> NoDup (cancel_names pre).
Proof.
  induction pre as [|p r IH]; intros jobs Hnd Kpre; [constructor|].
  cbn [pre_ok] in Kpre. apply andb_true_iff in Kpre. destruct Kpre as [Kp Kr].
  assert (Hnd' : NoDup (names (apply_premut p jobs))).
  { destruct p; cbn; rewrite names_upd; auto using np_cancel, np_set_blocked. }
  destruct p as [n|n bs]; cbn [cancel_names]; [|exact (IH _ Hnd' Kr)].
  constructor; [|exact (IH _ Hnd' Kr)].
  apply is_state_find in Kp. destruct Kp as [j [Hj Hjs]].
  apply (done_stays n r (apply_premut (PreCancel n) jobs)); [|exact Kr].
  cbn. exact (is_state_upd_same jobs n _ j np_cancel Hj).
Qed.

Ltac simpl_st := cbn [st_cfg st_js st_rows st_hash js_jobs js_hpc js_batch js_version serialize_js].

(* ---------- one round ---------- *)
Theorem round_spec s a : inv s -> round_ok s a = true ->
  exists s', round s a = Ok s' /\ inv s' /\ mono s s'.
Proof.
  intros [[Hnd [Hnum Hhash]] [_ [_ [Hc [Hs [_ Hrows]]]]]] Hok.
  unfold round_ok in Hok. cbn zeta in Hok.
  repeat (apply andb_true_iff in Hok; let H := fresh "K" in destruct Hok as [Hok H]).
  rename Hok into Kpre.
  (* K8: canceled = cancel_names; K7 nodup submitted; K6 submitted NS; K5 nodup blocked; K4 blocked; K3 nodup completed;
     K2 completed states; K1 canceled subset completed; K0 completed subset rows *)
  set (jobs0 := js_jobs (st_js s)) in *.
  set (jobs1 := apply_pre (ra_pre a) jobs0) in *.
  set (R := st_rows s ++ ra_new_rows a) in *.
  apply list_eqb_N_eq in K7.
  apply nodupbN_spec in K6. apply nodupbN_spec in K4. apply nodupbN_spec in K2.
  rewrite forallb_forall in K5, K3, K1.
  rewrite subsetN_spec in K0, K.
  assert (HcancR : incl (cancel_names (ra_pre a)) R).
  { rewrite <- K7. intros x Hx. apply K. apply K0. exact Hx. }
  destruct (pre_spec R (ra_pre a) jobs0 Hnd Kpre HcancR) as [TA [A2 [A3 A4]]]. fold jobs1 in TA, A2, A3, A4.
  assert (Hnd1 : NoDup (names jobs1)) by (destruct TA as [E _]; rewrite E; exact Hnd).
  destruct (submit_spec R (ra_submitted a) jobs1 Hnd1 K6 K5) as [jobs2 [EB [TB [B2 [B3 B4]]]]].
  assert (Hnd2 : NoDup (names jobs2)) by (destruct TB as [E _]; rewrite E; exact Hnd1).
  assert (HC : forall n bs, In (n, bs) (ra_blocked a) ->
                 is_state jobs2 n NOT_SUBMITTED = true /\ incl bs (blocked_of jobs2 n)).
  { intros n bs Hin. specialize (K3 _ Hin). cbn [fst snd] in K3.
    apply andb_true_iff in K3. destruct K3 as [K3 Kn]. apply andb_true_iff in K3. destruct K3 as [Kst Ksub].
    apply negb_true_iff in Kn. apply memN_false in Kn.
    rewrite B2 by exact Kn. rewrite B3 by exact Kn. split; [exact Kst|]. rewrite subsetN_spec in Ksub. exact Ksub. }
  destruct (blocked_spec R (ra_blocked a) jobs2 Hnd2 K4 HC) as [jobs3 [EC [TC [C2 C3]]]].
  assert (Hnd3 : NoDup (names jobs3)) by (destruct TC as [E _]; rewrite E; exact Hnd2).
  (* state in jobs1 of a completed name *)
  assert (Hcs1 : forall n, In n (ra_completed a) ->
            (In n (ra_canceled a) /\ is_state jobs1 n DONE = true)
            \/ (~ In n (ra_canceled a) /\ is_state jobs1 n SUBMITTED = true)).
  { intros n Hn. destruct (memN n (ra_canceled a)) eqn:Em.
    - left. apply memN_In in Em. split; [exact Em|]. apply A2. rewrite <- K7. exact Em.
    - right. split; [apply memN_false; exact Em|]. specialize (K1 n Hn). rewrite Em, orb_false_r in K1.
      apply A3; [discriminate|exact K1]. }
  assert (Hnotsub : forall n, In n (ra_completed a) -> ~ In n (ra_submitted a)).
  { intros n Hn Hin. specialize (K5 n Hin). destruct (Hcs1 n Hn) as [[_ H]|[_ H]];
      pose proof (is_state_fun _ _ _ _ K5 H); discriminate. }
  assert (HD : forall n, In n (ra_completed a) ->
             ~ In n (ra_submitted a ++ map fst (ra_blocked a))
             /\ (is_state jobs3 n SUBMITTED = true \/ is_state jobs3 n DONE = true)).
  { intros n Hn. split.
    - rewrite in_app_iff. intros [Hin|Hin]; [exact (Hnotsub n Hn Hin)|].
      apply in_map_iff in Hin. destruct Hin as [[n' bs] [Hfst Hin]]. cbn in Hfst. subst n'.
      destruct (HC n bs Hin) as [Hns _]. rewrite B2 in Hns by (apply Hnotsub; exact Hn).
      destruct (Hcs1 n Hn) as [[_ H]|[_ H]]; pose proof (is_state_fun _ _ _ _ Hns H); discriminate.
    - rewrite !C2, !B2 by (apply Hnotsub; exact Hn). destruct (Hcs1 n Hn) as [[_ H]|[_ H]]; auto. }
  destruct (completed_spec R (ra_submitted a ++ map fst (ra_blocked a)) (ra_completed a) jobs3 Hnd3 K2 K HD)
    as [jobs4 [ED [TD D3]]].
  (* the number of SUBMITTED -> DONE transitions *)
  assert (Hk : nsub jobs3 (ra_completed a) = Z.of_nat (length (ra_completed a)) - Z.of_nat (length (ra_canceled a))).
  { unfold nsub.
    rewrite (filter_ext_in (fun n => is_state jobs3 n SUBMITTED) (fun n => negb (memN n (ra_canceled a)))).
    - pose proof (filter_split_length (fun n => memN n (ra_canceled a)) (ra_completed a)) as Hsp.
      assert (Hcn : NoDup (ra_canceled a)).
      { rewrite K7. exact (cancel_names_nodup (ra_pre a) jobs0 Hnd Kpre). }
      pose proof (filter_mem_length (ra_canceled a) (ra_completed a) Hcn K2 K0) as Hml. lia.
    - intros n Hn. destruct (proj2 (HD n Hn)) as [H|H]; destruct (Hcs1 n Hn) as [[Hin H1]|[Hnin H1]].
      + exfalso. rewrite C2, B2 in H by (apply Hnotsub; exact Hn). pose proof (is_state_fun _ _ _ _ H H1). discriminate.
      + rewrite H. apply memN_false in Hnin. rewrite Hnin. reflexivity.
      + apply memN_In in Hin. rewrite Hin. cbn.
        destruct (is_state jobs3 n SUBMITTED) eqn:E; [|reflexivity]. pose proof (is_state_fun _ _ _ _ E H). discriminate.
      + exfalso. rewrite C2, B2 in H by (apply Hnotsub; exact Hn). pose proof (is_state_fun _ _ _ _ H H1). discriminate. }
  (* assemble *)
  pose proof (trans_trans _ _ _ _ _ _ _ (trans_trans _ _ _ _ _ _ _ (trans_trans _ _ _ _ _ _ _ TA TB) TC) TD)
    as [Tn [Tadv [Tsub Tdone]]].
  unfold round, update_job_status. fold jobs0 jobs1. rewrite EB. cbn [bind]. rewrite EC. cbn [bind]. rewrite ED. cbn [bind].
  set (c1 := {| c_num := c_num (st_cfg s);
                c_submitted := c_submitted (st_cfg s) + Z.of_nat (length (ra_submitted a)) + Z.of_nat (length (ra_canceled a));
                c_completed := c_completed (st_cfg s) + Z.of_nat (length (ra_completed a));
                c_complete := c_complete (st_cfg s); c_canceled := c_canceled (st_cfg s);
                c_submitter := c_submitter (st_cfg s); c_version := c_version (st_cfg s) |}).
  destruct (ser_spec (st_cfg s) c1 (st_hash s) Hhash eq_refl) as [Sh [Sc [Sv1 Sv2]]].
  destruct (serialize_cfg c1 (st_hash s)) as [c' h'] eqn:Eser. cbn [fst snd] in Sh, Sc, Sv1, Sv2.
  eexists. split; [reflexivity|].
  assert (Hfields : c_num c' = c_num c1 /\ c_submitted c' = c_submitted c1 /\ c_completed c' = c_completed c1
                    /\ c_complete c' = c_complete c1 /\ c_canceled c' = c_canceled c1).
  { destruct Sc as [-> | ->]; cbn; auto. }
  destruct Hfields as [F1 [F2 [F3 [F4 F5]]]]. cbn in F1, F2, F3, F4, F5.
  assert (Hlen : length (clear_loop jobs4) = length jobs0).
  { apply names_length. rewrite names_clear. exact Tn. }
  assert (Hdone' : c_completed c' = cnt DONE (clear_loop jobs4)).
  { rewrite cnt_clear, F3, Tdone. fold jobs0 in Hc. rewrite Hc. rewrite Hk. rewrite <- K7. lia. }
  assert (Hsub' : c_submitted c' = cnt SUBMITTED (clear_loop jobs4) + cnt DONE (clear_loop jobs4)).
  { rewrite !cnt_clear, F2, Tdone, Tsub. fold jobs0 in Hs. rewrite Hs. rewrite <- K7. lia. }
  assert (Hnum' : c_num c' = Z.of_nat (length (clear_loop jobs4))).
  { rewrite F1, Hlen. exact Hnum. }
  split; [|].
  - (* inv *)
    split.
    + unfold wf. simpl_st. split; [rewrite names_clear, Tn; exact Hnd|]. split; [exact Hnum'|]. right. exact Sh.
    + unfold status_inv. simpl_st.
      destruct (status_ineq c' (clear_loop jobs4) Hnum' Hdone' Hsub') as [I1 I2].
      split; [exact I1|]. split; [exact I2|]. split; [exact Hdone'|]. split; [exact Hsub'|].
      split; [apply clear_blocked|].
      assert (HP0 : Forall (P_rows R) jobs0).
      { apply Forall_forall. intros j Hj Hd. unfold R. apply in_or_app. left. exact (Hrows j Hj Hd). }
      pose proof (rows_clear R jobs4 (D3 (C3 (B4 (A4 HP0))))) as HP. rewrite Forall_forall in HP. exact HP.
  - (* mono *)
    unfold mono. simpl_st. fold jobs0.
    split; [symmetry; exact F1|]. split; [rewrite F2; lia|]. split; [rewrite F3; lia|].
    split; [rewrite F4; auto|]. split; [rewrite F5; auto|].
    split; [eapply adv_trans; [exact Tadv|apply adv_clear]|].
    split; [exact Sv1|]. split; [intros E; symmetry; exact (proj2 (Sv2 E))|].
    split; [lia|]. split; [intros E; exfalso; lia|]. apply incl_appl. apply incl_refl.
Qed.

(* ---------- monotonicity is a preorder ---------- *)
Lemma mono_refl s : mono s s.
Proof.
  unfold mono. repeat split; try lia; auto using adv_refl, incl_refl.
Qed.
Lemma mono_trans a b c : mono a b -> mono b c -> mono a c.
Proof.
  unfold mono.
  intros [A1 [A2 [A3 [A4 [A5 [A6 [A7 [A8 [A9 [A10 A11]]]]]]]]]] [B1 [B2 [B3 [B4 [B5 [B6 [B7 [B8 [B9 [B10 B11]]]]]]]]]].
  split; [congruence|]. split; [lia|]. split; [lia|]. split; [auto|]. split; [auto|].
  split; [eapply adv_trans; eassumption|]. split; [lia|].
  split; [intros E; rewrite A8 by lia; apply B8; rewrite <- A8 by lia; lia|].
  split; [lia|].
  split; [intros E; rewrite A10 by lia; apply B10; rewrite <- A10 by lia; lia|].
  eapply incl_tran; eassumption.
Qed.

(* ---------- operations that only rewrite the config ---------- *)
Lemma with_cfg_spec s c1 : inv s ->
  c_version c1 = c_version (st_cfg s) -> c_num c1 = c_num (st_cfg s) ->
  c_submitted c1 = c_submitted (st_cfg s) -> c_completed c1 = c_completed (st_cfg s) ->
  inv (with_cfg s c1)
  /\ (( c_complete (st_cfg s) = true -> c_complete c1 = true) ->
      ( c_canceled (st_cfg s) = true -> c_canceled c1 = true) -> mono s (with_cfg s c1)).
Proof.
  intros [[Hnd [Hnum Hhash]] [I1 [I2 [I3 [I4 [I5 I6]]]]]] Ev En Es Ec.
  unfold with_cfg.
  destruct (ser_spec (st_cfg s) c1 (st_hash s) Hhash Ev) as [Sh [Sc [Sv1 Sv2]]].
  destruct (serialize_cfg c1 (st_hash s)) as [c' h'] eqn:Eser. cbn [fst snd] in Sh, Sc, Sv1, Sv2.
  assert (Hfields : c_num c' = c_num c1 /\ c_submitted c' = c_submitted c1 /\ c_completed c' = c_completed c1
                    /\ c_complete c' = c_complete c1 /\ c_canceled c' = c_canceled c1).
  { destruct Sc as [-> | ->]; cbn; auto. }
  destruct Hfields as [F1 [F2 [F3 [F4 F5]]]].
  split.
  - split.
    + unfold wf. simpl_st. split; [exact Hnd|]. split; [congruence|]. right. exact Sh.
    + unfold status_inv. simpl_st. rewrite F1, F2, F3, En, Es, Ec. auto 10.
  - intros Hcomp Hcanc. unfold mono. simpl_st.
    split; [congruence|]. split; [lia|]. split; [lia|]. split; [rewrite F4; exact Hcomp|]. split; [rewrite F5; exact Hcanc|].
    split; [apply adv_refl|]. split; [exact Sv1|]. split; [intros E; symmetry; exact (proj2 (Sv2 E))|].
    split; [lia|]. split; [reflexivity|]. apply incl_refl.
Qed.

(* ---------- are_all_jobs_complete ---------- *)
Lemma cnt_le_length x jobs : cnt x jobs <= Z.of_nat (length jobs).
Proof. pose proof (cnt_total jobs). pose proof (cnt_nonneg NOT_SUBMITTED jobs). pose proof (cnt_nonneg SUBMITTED jobs).
  pose proof (cnt_nonneg DONE jobs). destruct x; lia. Qed.
Lemma cnt_done_lt jobs j : In j jobs -> j_state j <> DONE -> cnt DONE jobs < Z.of_nat (length jobs).
Proof.
  induction jobs as [|a r IH]; intros Hin Hne; [destruct Hin|].
  rewrite cnt_cons. cbn [length]. rewrite Nat2Z.inj_succ. destruct Hin as [->|Hin].
  - apply jstate_eqb_neq in Hne. rewrite Hne. cbn [b2z]. pose proof (cnt_le_length DONE r). lia.
  - specialize (IH Hin Hne). destruct (jstate_eqb (j_state a) DONE); cbn [b2z]; lia.
Qed.
Lemma cnt_done_all jobs : (forall j, In j jobs -> j_state j = DONE) -> cnt DONE jobs = Z.of_nat (length jobs).
Proof.
  induction jobs as [|a r IH]; intros H; [reflexivity|].
  rewrite cnt_cons. cbn [length]. rewrite Nat2Z.inj_succ. rewrite (H a (or_introl eq_refl)). cbn [jstate_eqb b2z].
  rewrite IH; [lia|]. intros j Hj. apply H. right. exact Hj.
Qed.

Theorem are_all_complete_spec s : inv s ->
  exists b, are_all_complete s = Ok b /\ (b = true <-> forall j, In j (js_jobs (st_js s)) -> j_state j = DONE).
Proof.
  intros [[Hnd [Hnum Hhash]] [I1 [I2 [I3 [I4 [I5 I6]]]]]]. unfold are_all_complete.
  destruct (find (fun j => negb (jstate_eqb (j_state j) DONE)) (js_jobs (st_js s))) as [j|] eqn:Ef.
  - apply find_some in Ef. destruct Ef as [Hin Hne]. apply negb_true_iff, jstate_eqb_neq in Hne.
    pose proof (cnt_done_lt _ _ Hin Hne) as Hlt.
    destruct (c_completed (st_cfg s) =? c_num (st_cfg s)) eqn:E; [apply Z.eqb_eq in E; lia|].
    exists false. split; [reflexivity|]. split; [discriminate|]. intros Hall. exfalso. apply Hne. apply Hall. exact Hin.
  - assert (Hall : forall j, In j (js_jobs (st_js s)) -> j_state j = DONE).
    { intros j Hj. pose proof (find_none _ _ Ef j Hj) as H. apply negb_false_iff, jstate_eqb_eq in H. exact H. }
    pose proof (cnt_done_all _ Hall) as Hc.
    destruct (c_completed (st_cfg s) =? c_num (st_cfg s)) eqn:E; [|apply Z.eqb_neq in E; lia].
    exists true. split; [reflexivity|]. tauto.
Qed.

(* ---------- prepare_for_resubmission ---------- *)
Definition reset_job (rerun : list N) (upd : list (N * list N)) (j : job) : job :=
  if memN (j_name j) rerun
  then {| j_name := j_name j; j_state := NOT_SUBMITTED; j_blocked := lookup_blk (j_name j) upd; j_cancel := j_cancel j |}
  else j.

Lemma filter_names_length (p : N -> bool) jobs :
  length (filter (fun j => p (j_name j)) jobs) = length (filter p (names jobs)).
Proof. induction jobs as [|a r IH]; cbn; [reflexivity|]. destruct (p (j_name a)); cbn; rewrite IH; reflexivity. Qed.

Lemma reset_counts rerun upd jobs :
  cnt SUBMITTED (map (reset_job rerun upd) jobs) + cnt DONE (map (reset_job rerun upd) jobs)
  = Z.of_nat (length (filter (fun j => negb (memN (j_name j) rerun) && negb (jstate_eqb (j_state j) NOT_SUBMITTED)) jobs))
  /\ cnt DONE (map (reset_job rerun upd) jobs)
     = Z.of_nat (length (filter (fun j => negb (memN (j_name j) rerun) && jstate_eqb (j_state j) DONE) jobs)).
Proof.
  assert (Hst : forall a, j_state (reset_job rerun upd a) = if memN (j_name a) rerun then NOT_SUBMITTED else j_state a).
  { intros a. unfold reset_job. destruct (memN (j_name a) rerun); reflexivity. }
  induction jobs as [|a r [IH1 IH2]]; [split; reflexivity|].
  cbn [map filter]. rewrite !cnt_cons, !Hst.
  destruct (memN (j_name a) rerun) eqn:E; cbn [jstate_eqb b2z negb andb].
  - split; lia.
  - destruct (j_state a); cbn [jstate_eqb b2z negb andb length]; rewrite ?Nat2Z.inj_succ; split; lia.
Qed.

Theorem resubmit_spec s rerun upd : inv s -> c_complete (st_cfg s) = true ->
  exists s', prepare_for_resubmission s rerun upd = Ok s' /\ inv s'
    /\ c_complete (st_cfg s') = false
    /\ c_num (st_cfg s') = c_num (st_cfg s)
    /\ js_jobs (st_js s') = map (reset_job rerun upd) (js_jobs (st_js s))
    /\ c_version (st_cfg s) < c_version (st_cfg s')
    /\ js_version (st_js s) < js_version (st_js s')
    /\ c_canceled (st_cfg s') = false
    /\ st_rows s' = diffN (st_rows s) rerun.
Proof.
  intros [[Hnd [Hnum Hhash]] [I1 [I2 [I3 [I4 [I5 I6]]]]]] Kc.
  set (jobs := js_jobs (st_js s)) in *.
  destruct (reset_counts rerun upd jobs) as [Csub Cdone].
  unfold prepare_for_resubmission, resubmit_with. rewrite Kc. cbn [negb]. fold jobs.
  change (map (fun j => if memN (j_name j) rerun
                        then {| j_name := j_name j; j_state := NOT_SUBMITTED; j_blocked := lookup_blk (j_name j) upd;
                                j_cancel := j_cancel j |} else j) jobs) with (map (reset_job rerun upd) jobs).
  set (jobs' := map (reset_job rerun upd) jobs) in *.
  unfold resubmit_counters.
  set (ns := Z.of_nat (length (filter (fun j => negb (memN (j_name j) rerun) && negb (jstate_eqb (j_state j) NOT_SUBMITTED)) jobs))) in *.
  set (nd := Z.of_nat (length (filter (fun j => negb (memN (j_name j) rerun) && jstate_eqb (j_state j) DONE) jobs))) in *.
  set (c1 := {| c_num := c_num (st_cfg s); c_submitted := ns;
                c_completed := nd; c_complete := false; c_canceled := false;
                c_submitter := c_submitter (st_cfg s); c_version := c_version (st_cfg s) |}).
  destruct (ser_spec (st_cfg s) c1 (st_hash s) Hhash eq_refl) as [Sh [Sc [Sv1 Sv2]]].
  destruct (serialize_cfg c1 (st_hash s)) as [c' h'] eqn:Eser. cbn [fst snd] in Sh, Sc, Sv1, Sv2.
  assert (Hfields : c_num c' = c_num c1 /\ c_submitted c' = c_submitted c1 /\ c_completed c' = c_completed c1
                    /\ c_complete c' = c_complete c1 /\ c_canceled c' = c_canceled c1).
  { destruct Sc as [-> | ->]; cbn; auto. }
  destruct Hfields as [F1 [F2 [F3 [F4 F5]]]]. cbn in F1, F2, F3, F4, F5.
  assert (Hnames : names jobs' = names jobs).
  { unfold jobs', names. rewrite map_map. apply map_ext. intros j. unfold reset_job. destruct (memN (j_name j) rerun); reflexivity. }
  assert (Hlen : length jobs' = length jobs) by (apply names_length; exact Hnames).
  assert (Hdone' : c_completed c' = cnt DONE jobs') by (rewrite F3, Cdone; reflexivity).
  assert (Hsub' : c_submitted c' = cnt SUBMITTED jobs' + cnt DONE jobs') by (rewrite F2, Csub; reflexivity).
  assert (Hnum' : c_num c' = Z.of_nat (length jobs')) by (rewrite F1, Hlen; exact Hnum).
  assert (Hvers : c_version (st_cfg s) < c_version c').
  { destruct (Z.eq_dec (c_version (st_cfg s)) (c_version c')) as [E|E]; [|lia].
    destruct (Sv2 E) as [E1 _]. exfalso. assert (c_complete c1 = c_complete (st_cfg s)) by (rewrite E1; reflexivity).
    cbn in H. congruence. }
  eexists. split; [reflexivity|]. simpl_st. split; [|repeat split; auto; try lia].
  split.
  - unfold wf. simpl_st. split; [rewrite Hnames; exact Hnd|]. split; [exact Hnum'|]. right. exact Sh.
  - unfold status_inv. simpl_st.
    destruct (status_ineq c' jobs' Hnum' Hdone' Hsub') as [J1 J2].
    split; [exact J1|]. split; [exact J2|]. split; [exact Hdone'|]. split; [exact Hsub'|]. split.
    + intros j Hj Hs. apply in_map_iff in Hj. destruct Hj as [j0 [<- Hj0]]. unfold reset_job in *.
      destruct (memN (j_name j0) rerun); [exfalso; apply Hs; reflexivity|]. exact (I5 j0 Hj0 Hs).
    + intros j Hj Hs. apply in_map_iff in Hj. destruct Hj as [j0 [<- Hj0]]. unfold reset_job in *.
      destruct (memN (j_name j0) rerun) eqn:E; [discriminate Hs|].
      apply diffN_spec. split; [exact (I6 j0 Hj0 Hs)|]. apply memN_false. exact E.
Qed.

Lemma mono_same s s' : st_cfg s' = st_cfg s -> st_js s' = st_js s -> st_rows s' = st_rows s -> mono s s'.
Proof.
  intros E1 E2 E3. unfold mono. rewrite E1, E2, E3. repeat split; try lia; auto using adv_refl, incl_refl.
Qed.

(* ---------- every operation ---------- *)
Theorem step_spec s o : inv s -> op_ok s o = true ->
  exists s', step s o = Ok s' /\ inv s' /\ (is_resubmit o = false -> mono s s').
Proof.
  intros Hinv Hok. destruct o as [a| | |rerun upd| | | |id]; cbn [step op_ok is_resubmit] in *.
  - destruct (round_spec s a Hinv Hok) as [s' [E [I M]]]. exists s'. auto.
  - unfold mark_complete. apply negb_true_iff in Hok. rewrite Hok.
    destruct (with_cfg_spec s (set_complete true (st_cfg s)) Hinv eq_refl eq_refl eq_refl eq_refl) as [I M].
    eexists. split; [reflexivity|]. split; [exact I|]. intros _. apply M; cbn; auto.
  - unfold mark_canceled.
    destruct (with_cfg_spec s (set_canceled true (st_cfg s)) Hinv eq_refl eq_refl eq_refl eq_refl) as [I M].
    eexists. split; [reflexivity|]. split; [exact I|]. intros _. apply M; cbn; auto.
  - destruct (resubmit_spec s rerun upd Hinv Hok) as [s' [E [I _]]]. exists s'. split; [exact E|]. split; [exact I|]. discriminate.
  - unfold reload. eexists. split; [reflexivity|]. destruct Hinv as [[Hnd [Hnum Hhash]] Hst]. split.
    + split; [|exact Hst]. unfold wf. simpl_st. auto.
    + intros _. apply mono_same; reflexivity.
  - unfold promote. destruct (c_submitter (st_cfg s)).
    + exists s. split; [reflexivity|]. split; [exact Hinv|]. intros _. apply mono_refl.
    + destruct (with_cfg_spec s (set_submitter true (st_cfg s)) Hinv eq_refl eq_refl eq_refl eq_refl) as [I M].
      eexists. split; [reflexivity|]. split; [exact I|]. intros _. apply M; cbn; auto.
  - unfold demote. rewrite Hok.
    destruct (with_cfg_spec s (set_submitter false (st_cfg s)) Hinv eq_refl eq_refl eq_refl eq_refl) as [I M].
    eexists. split; [reflexivity|]. split; [exact I|]. intros _. apply M; cbn; auto.
  - unfold complete_hpc_job_id.
    assert (Hrm : exists l, remove_first id (js_hpc (st_js s)) = Some l).
    { apply memN_In in Hok. induction (js_hpc (st_js s)) as [|y r IH]; [destruct Hok|]. cbn.
      destruct (N.eqb id y) eqn:E; [eexists; reflexivity|]. destruct Hok as [->|Hin]; [rewrite N.eqb_refl in E; discriminate|].
      destruct (IH Hin) as [l ->]. eexists. reflexivity. }
    destruct Hrm as [l ->]. eexists. split; [reflexivity|].
    destruct Hinv as [[Hnd [Hnum Hhash]] Hst]. split.
    + split; [unfold wf; simpl_st; auto|]. exact Hst.
    + intros _. unfold mono. simpl_st. repeat split; try lia; auto using adv_refl, incl_refl.
Qed.

Lemma run_err e ops : fold_left (fun r o => bind r (fun s' => step s' o)) ops (Err e) = Err e.
Proof. induction ops as [|o r IH]; [reflexivity|]. cbn. exact IH. Qed.
Lemma run_cons s o r : run s (o :: r) = bind (step s o) (fun s' => run s' r).
Proof. unfold run. cbn. destruct (step s o) as [s'|e]; cbn; [reflexivity|apply run_err]. Qed.
Lemma run_app s ops1 ops2 : run s (ops1 ++ ops2) = bind (run s ops1) (fun s' => run s' ops2).
Proof.
  revert s. induction ops1 as [|o r IH]; intros s; [reflexivity|].
  rewrite <- app_comm_cons, !run_cons. destruct (step s o) as [s'|e]; cbn; [apply IH|reflexivity].
Qed.

Theorem run_spec : forall ops s, inv s -> run_ok s ops = true ->
  exists s', run s ops = Ok s' /\ inv s' /\ (forallb (fun o => negb (is_resubmit o)) ops = true -> mono s s').
Proof.
  induction ops as [|o r IH]; intros s Hinv Hok.
  - exists s. split; [reflexivity|]. split; [exact Hinv|]. intros _. apply mono_refl.
  - cbn [run_ok] in Hok. apply andb_true_iff in Hok. destruct Hok as [Ho Hr].
    destruct (step_spec s o Hinv Ho) as [s1 [E [I1 M1]]]. rewrite E in Hr.
    destruct (IH s1 I1 Hr) as [s' [E' [I' M']]].
    exists s'. rewrite run_cons, E. cbn [bind]. split; [exact E'|]. split; [exact I'|].
    cbn [forallb]. intros H. apply andb_true_iff in H. destruct H as [H1 H2]. apply negb_true_iff in H1.
    eapply mono_trans; [apply M1; exact H1|apply M'; exact H2].
Qed.

Lemma run_ok_app : forall ops1 ops2 s, run_ok s (ops1 ++ ops2) = true ->
  run_ok s ops1 = true /\ (forall s1, run s ops1 = Ok s1 -> run_ok s1 ops2 = true).
Proof.
  induction ops1 as [|o r IH]; intros ops2 s H.
  - split; [reflexivity|]. intros s1 E. injection E as <-. exact H.
  - rewrite <- app_comm_cons in H. cbn [run_ok] in H |- *. apply andb_true_iff in H. destruct H as [Ho Hr].
    rewrite Ho. cbn [andb]. rewrite run_cons. destruct (step s o) as [s'|e]; [|discriminate].
    cbn [bind]. apply IH. exact Hr.
Qed.

(* ---------- Cluster.create ---------- *)
Theorem create_inv spec : NoDup (map (fun x => fst (fst x)) spec) -> inv (create spec).
Proof.
  intros Hnd. unfold create. cbn [serialize_cfg].
  set (jobs := map (fun x => {| j_name := fst (fst x); j_state := NOT_SUBMITTED; j_blocked := snd (fst x); j_cancel := snd x |}) spec).
  assert (Hall : forall j, In j jobs -> j_state j = NOT_SUBMITTED).
  { intros j Hj. apply in_map_iff in Hj. destruct Hj as [x [<- _]]. reflexivity. }
  assert (Hc : forall x, x <> NOT_SUBMITTED -> cnt x jobs = 0).
  { intros x Hx. clear Hnd. induction jobs as [|a r IH]; [reflexivity|]. rewrite cnt_cons, IH.
    - rewrite (Hall a (or_introl eq_refl)). destruct x; cbn; try reflexivity. congruence.
    - intros j Hj. apply Hall. right. exact Hj. }
  split.
  - unfold wf. simpl_st. split; [|split].
    + unfold jobs, names. rewrite map_map. cbn. exact Hnd.
    + cbn. unfold jobs. rewrite map_length. reflexivity.
    + right. reflexivity.
  - unfold status_inv. simpl_st. cbn [bump_cfg c_completed c_submitted c_num].
    rewrite !Hc by discriminate. repeat split; try lia.
    + intros j Hj Hs. exfalso. apply Hs. apply Hall. exact Hj.
    + intros j Hj Hs. rewrite (Hall j Hj) in Hs. discriminate.
Qed.

(* ---------- the property, for every history ---------- *)
Theorem consistent_everywhere spec ops1 ops2 :
  NoDup (map (fun x => fst (fst x)) spec) -> run_ok (create spec) (ops1 ++ ops2) = true ->
  exists s1, run (create spec) ops1 = Ok s1 /\ wf s1 /\ status_inv s1.
Proof.
  intros Hnd Hok. destruct (run_ok_app ops1 ops2 _ Hok) as [H1 _].
  destruct (run_spec ops1 _ (create_inv spec Hnd) H1) as [s1 [E [[W I] _]]]. exists s1. auto.
Qed.

Theorem monotone_between spec ops1 ops2 :
  NoDup (map (fun x => fst (fst x)) spec) -> run_ok (create spec) (ops1 ++ ops2) = true ->
  forallb (fun o => negb (is_resubmit o)) ops2 = true ->
  exists s1 s2, run (create spec) ops1 = Ok s1 /\ run (create spec) (ops1 ++ ops2) = Ok s2 /\ mono s1 s2.
Proof.
  intros Hnd Hok Hnr. destruct (run_ok_app ops1 ops2 _ Hok) as [H1 H2].
  destruct (run_spec ops1 _ (create_inv spec Hnd) H1) as [s1 [E1 [I1 _]]].
  destruct (run_spec ops2 s1 I1 (H2 s1 E1)) as [s2 [E2 [_ M]]].
  exists s1, s2. split; [exact E1|]. split; [rewrite run_app, E1; exact E2|]. apply M. exact Hnr.
Qed.

Theorem no_assert_everywhere spec ops :
  NoDup (map (fun x => fst (fst x)) spec) -> run_ok (create spec) ops = true ->
  exists s, run (create spec) ops = Ok s /\ exists b, are_all_complete s = Ok b.
Proof.
  intros Hnd Hok. destruct (run_spec ops _ (create_inv spec Hnd) Hok) as [s [E [I _]]].
  exists s. split; [exact E|]. destruct (are_all_complete_spec s I) as [b [Eb _]]. exists b. exact Eb.
Qed.

(* ---------- corollaries in the shape of the property statements (Props/C09.v) ---------- *)
Lemma round_inv s a : wf s -> status_inv s -> round_ok s a = true ->
  exists s', round s a = Ok s' /\ wf s' /\ status_inv s'.
Proof. intros W I H. destruct (round_spec s a (conj W I) H) as [s' [E [[W' I'] _]]]. exists s'. auto. Qed.
Lemma round_no_assert s a : wf s -> status_inv s -> round_ok s a = true -> forall e, round s a <> Err e.
Proof. intros W I H e. destruct (round_spec s a (conj W I) H) as [s' [E _]]. rewrite E. discriminate. Qed.
Lemma round_mono s a s' : wf s -> status_inv s -> round_ok s a = true -> round s a = Ok s' -> mono s s'.
Proof. intros W I H E. destruct (round_spec s a (conj W I) H) as [s2 [E2 [_ M]]]. congruence. Qed.
Lemma all_complete_iff s : wf s -> status_inv s ->
  exists b, are_all_complete s = Ok b /\ (b = true <-> forall j, In j (js_jobs (st_js s)) -> j_state j = DONE).
Proof. intros W I. exact (are_all_complete_spec s (conj W I)). Qed.
Lemma step_inv s o : wf s -> status_inv s -> op_ok s o = true ->
  exists s', step s o = Ok s' /\ wf s' /\ status_inv s' /\ (is_resubmit o = false -> mono s s').
Proof. intros W I H. destruct (step_spec s o (conj W I) H) as [s' [E [[W' I'] M]]]. exists s'. auto. Qed.
Lemma resubmit_reset s rerun upd : wf s -> status_inv s -> c_complete (st_cfg s) = true ->
  exists s', prepare_for_resubmission s rerun upd = Ok s' /\ wf s' /\ status_inv s'
    /\ c_complete (st_cfg s') = false
    /\ c_num (st_cfg s') = c_num (st_cfg s)
    /\ js_jobs (st_js s') = map (reset_job rerun upd) (js_jobs (st_js s))
    /\ c_version (st_cfg s) < c_version (st_cfg s')
    /\ js_version (st_js s) < js_version (st_js s')
    /\ c_canceled (st_cfg s') = false
    /\ st_rows s' = diffN (st_rows s) rerun.
Proof.
  intros W I H. destruct (resubmit_spec s rerun upd (conj W I) H) as [s' [E [[W' I'] R]]]. exists s'. auto.
Qed.
Lemma resubmit_not_complete_asserts s rerun upd : c_complete (st_cfg s) = false ->
  prepare_for_resubmission s rerun upd = Err EAssert.
Proof. intros H. unfold prepare_for_resubmission, resubmit_with. rewrite H. reflexivity. Qed.
Lemma versions_strict s s' : mono s s' ->
  (st_cfg s <> st_cfg s' -> c_version (st_cfg s) < c_version (st_cfg s'))
  /\ (st_js s <> st_js s' -> js_version (st_js s) < js_version (st_js s')).
Proof.
  unfold mono. intros [_ [_ [_ [_ [_ [_ [V1 [V2 [V3 [V4 _]]]]]]]]]]. split; intros Hne.
  - destruct (Z.eq_dec (c_version (st_cfg s)) (c_version (st_cfg s'))) as [E|E]; [exfalso; auto|lia].
  - destruct (Z.eq_dec (js_version (st_js s)) (js_version (st_js s'))) as [E|E]; [exfalso; auto|lia].
Qed.

(* ---------- HISTORY: the counters prepare_for_resubmission computed before /repo commit ce6353a ---------- *)
Definition old_witness_spec : list (N * list N * bool) := [(1%N, [], false); (2%N, [], false)].
Definition old_witness_ops : list op :=
  [ OpRound {| ra_pre := []; ra_submitted := [1%N]; ra_blocked := []; ra_canceled := []; ra_completed := [];
               ra_hpc := [100%N]; ra_batch := 2; ra_new_rows := [] |};
    OpMarkCanceled;
    OpRound {| ra_pre := []; ra_submitted := []; ra_blocked := []; ra_canceled := []; ra_completed := [];
               ra_hpc := []; ra_batch := 2; ra_new_rows := [] |};
    OpMarkComplete ].
Lemma resubmit_old_refuted :
  exists s s', run_ok (create old_witness_spec) old_witness_ops = true
    /\ run (create old_witness_spec) old_witness_ops = Ok s
    /\ prepare_for_resubmission_old s [] [] = Ok s'
    /\ c_submitted (st_cfg s') = 2 /\ cnt SUBMITTED (js_jobs (st_js s')) + cnt DONE (js_jobs (st_js s')) = 1
    /\ ~ status_inv s'.
Proof.
  eexists. eexists. split; [vm_compute; reflexivity|]. split; [vm_compute; reflexivity|].
  split; [vm_compute; reflexivity|]. split; [reflexivity|]. split; [reflexivity|].
  intros [_ [_ [_ [H _]]]]. vm_compute in H. discriminate H.
Qed.
