(* C14 / C05: a canceled submission runs to completion.  Once the canceled flag is set nothing is handed to the
   HPC any more (c14_system); so, by the progress theorem, from any later quiescent state - no batch queued or
   running, nobody holds the submitter role - every completion check that a submitter round reaches returns
   "complete": the first try-submit-jobs after the batches have ended completes the submission, whichever
   process runs it and whatever else (refused promotions, failed status queries) happens in between. *)
From Coq Require Import List ZArith NArith Bool Arith Lia.
From Jade Require Import Base System SystemMonitors SystemProofs SystemInv SystemLimits SystemTheorems SystemProgress.
Import ListNotations.
Open Scope N_scope.
Set Default Timeout 300.

Lemma sbatch_ok_is_sbatch e : sbatch_ok e = true -> is_sbatch e = true.
Proof. destruct e; cbn; congruence. Qed.

Theorem canceled_submission_completes sc tr0 q tr1 tr2 p b tr3 s0 s' :
  run sc (tr0 ++ EMarkCanceled q :: tr1) = Some s0 -> quiescent s0 ->
  run sc ((tr0 ++ EMarkCanceled q :: tr1) ++ tr2 ++ ECheckComplete p b :: tr3) = Some s' ->
  b = true.
Proof.
  intros H0 Hq Hr.
  destruct (progress_run sc _ tr2 p b tr3 s0 s' H0 Hq Hr) as [[e [Hin Hk]]|Hb]; [|exact Hb].
  exfalso. apply sbatch_ok_is_sbatch in Hk.
  rewrite <- app_assoc in Hr. cbn [app] in Hr.
  assert (Hin' : In e (tr1 ++ tr2 ++ ECheckComplete p b :: tr3)).
  { apply in_app_iff. right. apply in_app_iff. left. exact Hin. }
  rewrite (c14_system sc tr0 q _ s' Hr e Hin') in Hk. discriminate.
Qed.
