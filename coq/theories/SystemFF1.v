(* Fault-free runs, part 1: what "fault-free" means, event by event, and the invariant that relates
   the job table (as the process holding the submitter role sees it) to the consolidated results.
   Used by SystemComplete.v for the completeness half of C03 / C05. *)
From Coq Require Import List ZArith NArith Bool Arith Lia Permutation.
From Jade Require Import Base System SystemMonitors SystemProofs SystemInv SystemOrder SystemLimits SystemHooks SystemLaunch SystemTheorems.
From Jade Require Export SystemFault.
Import ListNotations.
Open Scope N_scope.
Set Default Timeout 300.

(* the job table as seen by whoever may change it: the holder of the submitter role, else the files *)
Definition vst (s : state) : N -> jstate := match holder s with Some r => r_st r | None => st s end.
Definition vbl (s : state) : N -> list N := match holder s with Some r => r_bl r | None => bl s end.
Definition P (s : state) : list N := row_names (processed s).

Record FFa (sc : scenario) (s : state) : Prop := {
  a_nocancel : canceled s = false;
  a_sess : forall r, holder s = Some r -> r_canceled r = false;
  a_marker : marker s = true -> exists r, holder s = Some r /\ r_owns r = true;
  a_fresh : forall r, holder s = Some r -> r_round r = false ->
            r_seen r = [] /\ r_placed r = [] /\ r_updated r = false;
  a_copy : forall r, holder s = Some r -> (r_updated r = true \/ (r_seen r = [] /\ r_placed r = [])) ->
           forall j, r_st r j = st s j /\ r_bl r j = bl s j;
  a_chk : forall r, holder s = Some r -> r_check r <> None -> r_owns r = false -> r_updated r = true;
  a_owns_coll : forall r, holder s = Some r -> r_owns r = true -> r_collected r = true;
  a_seen : forall r, holder s = Some r -> incl (r_seen r) (P s);
  a_placed : forall r, holder s = Some r -> incl (r_placed r) (handed s);
  a_placed_ns : forall r j, holder s = Some r -> r_updated r = false -> In j (r_placed r) -> r_st r j = NS;
  a_created : created s = false -> handed s = [] /\ rows s = [] /\ processed s = [] /\ pending s = [] /\ hpc s = [] /\ nodes s = []
}.
Lemma ffa_init sc : FFa sc init.
Proof. constructor; cbn; intros; try discriminate; try contradiction; auto 10. Qed.

Ltac ffstart e H Hff := prep e H; cbn [ff_ev] in Hff; try discriminate Hff;
  try (match goal with Q : true = _ && false |- _ => rewrite andb_false_r in Q; discriminate Q end);
  unfold vst, vbl, P in *; hlit.

Section GroupA.
Variable sc : scenario.
Variables (s s' : state) (e : event).
Hypothesis H : step sc s e = Some s'.
Hypothesis Hff : ff_ev sc s e = true.
Hypothesis HI1 : Inv1 sc s.
Hypothesis HI3 : Inv3 sc s.
Hypothesis HI : FFa sc s.

Lemma a1 : canceled s' = false.
Proof. pose proof (a_nocancel sc s HI) as O. revert H Hff. intros H Hff. ffstart e H Hff. all: basic. Qed.

Lemma a2 : forall r, holder s' = Some r -> r_canceled r = false.
Proof.
  pose proof (a_sess sc s HI) as O. pose proof (a_nocancel sc s HI) as C.
  revert H Hff. intros H Hff. ffstart e H Hff. all: basic.
Qed.

Lemma a3 : marker s' = true -> exists r, holder s' = Some r /\ r_owns r = true.
Proof.
  pose proof (a_marker sc s HI) as O. pose proof (i_round_owns sc s HI1) as RO. pose proof (i_owner_marker sc s HI1) as OM.
  revert H Hff. intros H Hff. ffstart e H Hff. all: try basic.
  all: try (intros Hm; destruct (O Hm) as (r0 & E0 & Ho);
            first [ discriminate
                  | injection E0 as <-; eexists; split; [reflexivity|]; cbn; auto; fail
                  | injection E0 as <-; exfalso; split_bools;
                    repeat match goal with Q : _ || _ = true |- _ => apply orb_true_iff in Q; destruct Q end; split_bools;
                    try (destr_in Hff; try discriminate; split_bools); fwd; congruence ]; fail).
  (* create *) intros Hm. destruct (O Hm) as (r0 & E0 & _). rewrite (k_fresh sc s HI3) in E0 by assumption. discriminate.
Qed.

Lemma a4 : forall r, holder s' = Some r -> r_round r = false -> r_seen r = [] /\ r_placed r = [] /\ r_updated r = false.
Proof.
  pose proof (a_fresh sc s HI) as O. revert H Hff. intros H Hff. ffstart e H Hff. all: try basic.
Qed.

Lemma diffN_nil l : diffN l [] = l.
Proof. unfold diffN. induction l as [|x t IH]; cbn; [reflexivity|]. f_equal. exact IH. Qed.

Lemma a5 : forall r, holder s' = Some r -> (r_updated r = true \/ (r_seen r = [] /\ r_placed r = [])) ->
  forall j, r_st r j = st s' j /\ r_bl r j = bl s' j.
Proof.
  pose proof (a_copy sc s HI) as O. pose proof (a_fresh sc s HI) as FR.
  revert H Hff. intros H Hff. ffstart e H Hff. all: try basic.
  all: try (intros; split; reflexivity).
  all: lazymatch goal with EV := ?x |- _ =>
         lazymatch x with
         | ERound _ => intros _; apply O; right; destruct FR as (A & B & _); auto
         | ECollect _ _ =>
           intros [D|[D _]]; [congruence|]; apply app_eq_nil in D; destruct D as [D1 D2];
           intros j0; destruct (O (or_intror (conj D1 ltac:(eapply i_notowns_placed; eauto))) j0) as [A B];
           split; [exact A|]; rewrite D2, diffN_nil; destruct (r_st _ j0); exact B
         | ESubCancel _ _ => intros [D|[D _]]; [congruence|]; apply app_eq_nil in D; destruct D as [_ D]; discriminate
         | ESbatch _ _ _ _ _ _ =>
           intros [D|[_ D]]; [congruence|]; exfalso; vb; apply app_eq_nil in D; destruct D as [_ D];
           apply map_eq_nil in D; contradiction
         end
       end.
Qed.

Lemma a6 : forall r, holder s' = Some r -> r_check r <> None -> r_owns r = false -> r_updated r = true.
Proof.
  pose proof (a_chk sc s HI) as O. revert H Hff. intros H Hff. ffstart e H Hff. all: try basic.
  all: try (intros; apply O; congruence).
Qed.

Lemma a7 : forall r, holder s' = Some r -> r_owns r = true -> r_collected r = true.
Proof.
  pose proof (a_owns_coll sc s HI) as O. revert H Hff. intros H Hff. ffstart e H Hff. all: try basic.
Qed.

Lemma a8 : forall r, holder s' = Some r -> incl (r_seen r) (P s').
Proof.
  pose proof (a_seen sc s HI) as O. revert H Hff. intros H Hff. ffstart e H Hff. all: try basic.
  all: try (intros x []; fail).
  all: intros x Hx; rewrite row_names_app; apply in_app_iff in Hx; apply in_app_iff;
    (destruct Hx as [Hx|Hx]; [left; apply O; exact Hx|right; exact Hx]).
Qed.

Lemma a9 : forall r, holder s' = Some r -> incl (r_placed r) (handed s').
Proof.
  pose proof (a_placed sc s HI) as O. revert H Hff. intros H Hff. ffstart e H Hff. all: try basic.
  all: try (intros x []; fail).
  all: intros x Hx; apply in_app_iff in Hx; apply in_app_iff;
    (destruct Hx as [Hx|Hx]; [left; apply O; exact Hx|right; exact Hx]).
Qed.

Lemma a10 : forall r j, holder s' = Some r -> r_updated r = false -> In j (r_placed r) -> r_st r j = NS.
Proof.
  pose proof (a_placed_ns sc s HI) as O. pose proof (i_notowns_placed sc s HI1) as NP.
  revert H Hff. intros H Hff. ffstart e H Hff. all: try basic.
  all: lazymatch goal with EV := ?x |- _ =>
         lazymatch x with
         | ESubCancel _ _ => intros _ Hin; rewrite NP in Hin by assumption; contradiction
         | ESbatch _ _ _ _ _ _ =>
           intros Hu Hin; apply in_app_iff in Hin; destruct Hin as [Hin|Hin]; [apply O; assumption|];
           vb; in_names Hin; eapply Vj; eauto
         end
       end.
Qed.

Lemma a11 : created s' = false ->
  handed s' = [] /\ rows s' = [] /\ processed s' = [] /\ pending s' = [] /\ hpc s' = [] /\ nodes s' = [].
Proof.
  pose proof (a_created sc s HI) as O. pose proof (k_fresh sc s HI3) as FR.
  revert H Hff. intros H Hff. ffstart e H Hff. all: try basic.
  all: try (intros Hc; destruct (O Hc) as (_ & _ & _ & _ & Eh & En);
            repeat match goal with Q : find_n _ _ = Some _ |- _ => rewrite En in Q; discriminate Q
                                 | Q : find_h _ _ = Some _ |- _ => rewrite Eh in Q; discriminate Q end; fail).
Qed.

Lemma ffa_step_lemma : FFa sc s'.
Proof.
  constructor; [apply a1|apply a2|apply a3|apply a4|apply a5|apply a6|apply a7|apply a8|apply a9|apply a10|apply a11].
Qed.
End GroupA.

Lemma ffa_step sc s e s' : step sc s e = Some s' -> ff_ev sc s e = true -> Inv1 sc s -> Inv3 sc s -> FFa sc s -> FFa sc s'.
Proof. intros. eapply ffa_step_lemma; eauto. Qed.
