(* Model of the pipeline sequencing code (property C15).  No proofs here.

   jade/jobs/pipeline_manager.py  PipelineManager.create / load / submit_next_stage /
                                  _submit_next_stage / _run_auto_config, pipeline.json
   jade/cli/pipeline.py           `jade pipeline submit`, `jade pipeline submit-next-stage`
   jade/jobs/job_submitter.py     JobSubmitter._handle_completion (hand-over to the next stage)

   The integer literals of that code (the `+ 1`, `- 2`, ... ) and the statement order of
   _handle_completion are NOT typed in here: the model takes them as a `consts` record, which
   Props/C15.v fills from Gen/PipelineGen.v (regenerated from /repo by harness/gen/pipeline.py).

   Persistent state = pipeline.json: current stage number (1-based, Python int -> Z), the
   per-stage return codes, is_complete, and per stage whether it has an auto-config command.
   Every CLI invocation loads pipeline.json afresh, so the state between operations is exactly the
   file; an operation's result is (exception class | ok, file afterwards, events).
   Ghost state = the log of events observed at the boundaries:
     EvAdvance k rc   the sequencing check passed for submit_next_stage(k, return_code=rc)
     EvAutoConfig j   the auto-config command of the stage at list position j was run
     EvReadConfig j   the config file of the stage at list position j was read
     EvSubmit k       JobSubmitter.run_submit_jobs(.., pipeline_stage_num=k) was called
     EvMarkComplete k / EvResubmit k   (system level: Cluster.mark_complete of stage k's
                      submission / `jade resubmit-jobs` on stage k's output directory)
   Environment: the auto-config command, the readability of the stage's config file and the status
   returned by run_submit_jobs are inputs of every operation (`env`).
   Python list indexing with a possibly negative int is modelled (py_index), so that the model also
   follows code whose offsets were changed.
   Not modelled: `submit --force` (removes the directory: a new pipeline instance = a new world),
   the contents of the stage configurations, the environment variables handed to auto-config. *)
From Coq Require Import String List ZArith Bool Arith Lia.
From Jade.Gen Require Import PipelineGen.
Import ListNotations.
Open Scope list_scope.
Open Scope Z_scope.

Record consts := {
  c_init : Z;        (* PipelineConfig(stage_num = .) in create_config_from_* *)
  c_assert : Z;      (* assert stage_num == . *)
  c_cli_first : Z;   (* `jade pipeline submit`: mgr.submit_next_stage(.) *)
  c_seq : Z;         (* stage_num != self.stage_num + . *)
  c_rc_back : Z;     (* stages[stage_num - .].return_code = return_code *)
  c_incr : Z;        (* stage_num += . *)
  c_done : Z;        (* stage_num == len(stages) + . *)
  c_cur_back : Z;    (* stages[self.stage_num - .] *)
  c_hand : Z;        (* next_stage = cluster.config.pipeline_stage_num + . *)
  c_after_mark : bool (* in _handle_completion, mark_complete precedes the hand-over *)
}.

Definition std_consts : consts :=
  {| c_init := 1; c_assert := 1; c_cli_first := 1; c_seq := 1; c_rc_back := 2; c_incr := 1;
     c_done := 1; c_cur_back := 1; c_hand := 1; c_after_mark := true |}.

Inductive pevent :=
| EvAdvance (k rc : Z)
| EvAutoConfig (j : Z)
| EvReadConfig (j : Z)
| EvSubmit (k : Z)
| EvMarkComplete (k : Z)
| EvResubmit (k : Z).

Record pstate := {
  p_auto : list bool;          (* per stage: auto_config_cmd is not None *)
  p_stage : Z;                 (* PipelineConfig.stage_num *)
  p_rcs : list (option Z);     (* PipelineStage.return_code per stage *)
  p_complete : bool            (* PipelineConfig.is_complete *)
}.

Definition nstages (s : pstate) : Z := Z.of_nat (length (p_auto s)).

(* Python's l[i] for an int i: negative indices count from the end, otherwise IndexError *)
Definition py_index (len : nat) (i : Z) : option nat :=
  if 0 <=? i then (if i <? Z.of_nat len then Some (Z.to_nat i) else None)
  else if 0 <=? i + Z.of_nat len then Some (Z.to_nat (i + Z.of_nat len)) else None.

Fixpoint set_nth {A} (i : nat) (x : A) (l : list A) : list A :=
  match l, i with
  | [], _ => []
  | _ :: t, O => x :: t
  | h :: t, S j => h :: set_nth j x t
  end.

Inductive auto_out := AutoOk | AutoRetNonzero | AutoNoFile.
Record env := {
  e_auto : auto_out;   (* what the auto-config command does (if the stage has one) *)
  e_cfg_ok : bool;     (* create_config_from_file(stage.config_file) succeeds *)
  e_ret : Z            (* what JobSubmitter.run_submit_jobs returns *)
}.
Definition good_env : env := {| e_auto := AutoOk; e_cfg_ok := true; e_ret := 0 |}.

Inductive presult :=
| ROkSubmitted (k : Z)          (* returned normally after run_submit_jobs(.., pipeline_stage_num=k) = 0 *)
| ROkComplete                   (* returned normally: "Pipeline is complete" *)
| RErrExists                    (* jade pipeline submit: output directory exists -> exit 1 *)
| RErrNoPipeline                (* FileNotFoundError: no pipeline.json *)
| RErrAssert                    (* AssertionError (return_code None, stage_num <> 1) *)
| RErrInvalidParameter          (* the sequencing check *)
| RErrIndexRc                   (* IndexError at stages[stage_num - 2], nothing written *)
| RErrIndexStage                (* IndexError at stages[self.stage_num - 1], after _serialize *)
| RErrAutoConfig (k : Z)        (* ExecutionError from _run_auto_config *)
| RErrConfig (k : Z)            (* create_config_from_file raised *)
| RErrStageFailed (k : Z)       (* ExecutionError: run_submit_jobs returned non-zero *)
| RErrOther.                    (* never produced by the model: any other exception observed on the real code *)

(* the part of _submit_next_stage after the second _serialize() *)
Definition submit_stage (c : consts) (e : env) (s : pstate) (log : list pevent)
  : presult * pstate * list pevent :=
  let k := p_stage s in
  match py_index (length (p_auto s)) (k - c_cur_back c) with
  | None => (RErrIndexStage, s, log)
  | Some i =>
    let j := Z.of_nat i + 1 in
    let has_auto := nth i (p_auto s) false in
    let log1 := if has_auto then log ++ [EvAutoConfig j] else log in
    let auto_ok := match e_auto e with AutoOk => true | _ => negb has_auto end in
    if negb auto_ok then (RErrAutoConfig k, s, log1)
    else if negb (e_cfg_ok e) then (RErrConfig k, s, log1 ++ [EvReadConfig j])
    else let log2 := log1 ++ [EvReadConfig j; EvSubmit k] in
         if e_ret e =? 0 then (ROkSubmitted k, s, log2) else (RErrStageFailed k, s, log2)
  end.

Definition set_complete (s : pstate) : pstate :=
  {| p_auto := p_auto s; p_stage := p_stage s; p_rcs := p_rcs s; p_complete := true |}.

(* from `if self._config.stage_num == len(self._config.stages) + 1:` on *)
Definition advance (c : consts) (e : env) (s : pstate) (log : list pevent) :=
  if p_stage s =? nstages s + c_done c then (ROkComplete, set_complete s, log)
  else submit_stage c e s log.

(* PipelineManager._submit_next_stage(k, return_code=orc) on the loaded state s *)
Definition next_stage (c : consts) (k : Z) (orc : option Z) (e : env) (s : pstate) (log : list pevent)
  : presult * pstate * list pevent :=
  match orc with
  | None => if k =? c_assert c then advance c e s log else (RErrAssert, s, log)
  | Some rc =>
    if negb (k =? p_stage s + c_seq c) then (RErrInvalidParameter, s, log)
    else match py_index (length (p_rcs s)) (k - c_rc_back c) with
         | None => (RErrIndexRc, s, log)
         | Some i =>
           advance c e {| p_auto := p_auto s; p_stage := p_stage s + c_incr c;
                          p_rcs := set_nth i (Some rc) (p_rcs s); p_complete := p_complete s |}
                   (log ++ [EvAdvance k rc])
         end
  end.

(* the world: the pipeline output directory (None = does not exist) + ghost log *)
Record world := { w_pipe : option pstate; w_log : list pevent }.
Definition init_world : world := {| w_pipe := None; w_log := [] |}.

Inductive op :=
| OpSubmit (autos : list bool) (e : env)       (* jade pipeline submit <pipeline.json of these stages> -o dir *)
| OpNext (k : Z) (orc : option Z) (e : env).   (* PipelineManager.load(dir).submit_next_stage(k, return_code=orc);
                                                  the CLI submit-next-stage always passes an int: orc = Some rc *)

Definition init_pipe (c : consts) (autos : list bool) : pstate :=
  {| p_auto := autos; p_stage := c_init c; p_rcs := map (fun _ => None) autos; p_complete := false |}.

Definition step (c : consts) (w : world) (o : op) : presult * world :=
  match o, w_pipe w with
  | OpSubmit _ _, Some _ => (RErrExists, w)
  | OpSubmit autos e, None =>
    let '(r, s, log) := next_stage c (c_cli_first c) None e (init_pipe c autos) (w_log w) in
    (r, {| w_pipe := Some s; w_log := log |})
  | OpNext _ _ _, None => (RErrNoPipeline, w)
  | OpNext k orc e, Some s =>
    let '(r, s', log) := next_stage c k orc e s (w_log w) in
    (r, {| w_pipe := Some s'; w_log := log |})
  end.

Fixpoint run (c : consts) (w : world) (ops : list op) : list presult * world :=
  match ops with
  | [] => ([], w)
  | o :: t => let '(r, w1) := step c w o in let '(rs, w2) := run c w1 t in (r :: rs, w2)
  end.

Definition final (c : consts) (ops : list op) : world := snd (run c init_world ops).

(* operations that the command line can issue (return code always given) *)
Definition cli_op (o : op) : bool := match o with OpNext _ None _ => false | _ => true end.

(* did the call get past the sequencing / assertion / existence checks? *)
Definition accepted (r : presult) : bool :=
  match r with
  | RErrExists | RErrNoPipeline | RErrAssert | RErrInvalidParameter | RErrIndexRc => false
  | _ => true
  end.

(* ---- views of the log ---- *)
Definition submitted (log : list pevent) : list Z :=
  flat_map (fun ev => match ev with EvSubmit k => [k] | _ => [] end) log.
Definition configured (log : list pevent) : list Z :=
  flat_map (fun ev => match ev with EvAutoConfig k => [k] | _ => [] end) log.
Definition config_read (log : list pevent) : list Z :=
  flat_map (fun ev => match ev with EvReadConfig k => [k] | _ => [] end) log.
Definition advanced (log : list pevent) : list (Z * Z) :=
  flat_map (fun ev => match ev with EvAdvance k rc => [(k, rc)] | _ => [] end) log.

Fixpoint zseq (start : Z) (len : nat) : list Z :=
  match len with O => [] | S l => start :: zseq (start + 1) l end.

(* return code recorded for stage j (1-based) *)
Definition recorded_rc (s : pstate) (j : Z) : option Z :=
  match nth_error (p_rcs s) (Z.to_nat (j - 1)) with Some (Some rc) => Some rc | _ => None end.

(* what the correspondence compares after every operation *)
Definition observe (w : world) : option (Z * list (option Z) * bool) :=
  match w_pipe w with None => None | Some s => Some (p_stage s, p_rcs s, p_complete s) end.

Fixpoint run_obs (c : consts) (w : world) (ops : list op)
  : list (presult * option (Z * list (option Z) * bool) * list pevent) :=
  match ops with
  | [] => []
  | o :: t => let '(r, w1) := step c w o in
              (r, observe w1, skipn (length (w_log w)) (w_log w1)) :: run_obs c w1 t
  end.

(* ------------------------------------------------------------------------------------------
   System level: the hand-over inside JobSubmitter._handle_completion, composed with the above.
   sys_op:
     SysStart autos e        a user runs `jade pipeline submit`
     SysComplete k res e     the submitter working on the submission that run_submit_jobs created
                             with pipeline_stage_num = k reaches _handle_completion with result
                             value res: cluster.mark_complete(), then
                             `jade pipeline submit-next-stage <dir> --stage-num=k+1 --return-code=res`
     SysResubmit k           `jade resubmit-jobs` on stage k's output directory (makes a completed
                             submission active again, so it completes a second time)
   `outstanding` = submissions that exist and are not marked complete.  That a submission is
   marked complete at most once per (re)submission is property C05's business; here it is the
   explicit enabling condition `c05_enabled`: sys_step returns None when violated. *)
Inductive sys_op :=
| SysStart (autos : list bool) (e : env)
| SysComplete (k res : Z) (e : env)
| SysResubmit (k : Z).

Record sys := { y_world : world; y_outstanding : list Z; y_completed : list Z }.
Definition init_sys : sys := {| y_world := init_world; y_outstanding := []; y_completed := [] |}.

Definition memZ (x : Z) (l : list Z) : bool := existsb (Z.eqb x) l.
Fixpoint remove1 (x : Z) (l : list Z) : list Z :=
  match l with [] => [] | h :: t => if x =? h then t else h :: remove1 x t end.

Definition c05_enabled (y : sys) (o : sys_op) : bool :=
  match o with
  | SysStart _ _ => true
  | SysComplete k _ _ => memZ k (y_outstanding y)
  | SysResubmit k => memZ k (y_completed y) && negb (memZ k (y_outstanding y))
  end.

Definition add_log (w : world) (evs : list pevent) : world :=
  {| w_pipe := w_pipe w; w_log := w_log w ++ evs |}.

(* submissions created by one step = the EvSubmit events it appended *)
Definition new_submissions (w w1 : world) : list Z := submitted (skipn (length (w_log w)) (w_log w1)).

(* the tail of JobSubmitter._handle_completion for a submission with pipeline_stage_num = k *)
Definition complete_world (c : consts) (w0 : world) (k res : Z) (e : env) : world :=
  let nxt := OpNext (k + c_hand c) (Some res) e in
  if c_after_mark c
  then snd (step c (add_log w0 [EvMarkComplete k]) nxt)
  else add_log (snd (step c w0 nxt)) [EvMarkComplete k].

Definition sys_step (c : consts) (y : sys) (o : sys_op) : option sys :=
  if negb (c05_enabled y o) then None else
  match o with
  | SysStart autos e =>
    let w1 := snd (step c (y_world y) (OpSubmit autos e)) in
    Some {| y_world := w1; y_outstanding := y_outstanding y ++ new_submissions (y_world y) w1;
            y_completed := y_completed y |}
  | SysComplete k res e =>
    let w0 := y_world y in
    let w2 := complete_world c w0 k res e in
    Some {| y_world := w2;
            y_outstanding := remove1 k (y_outstanding y) ++ new_submissions w0 w2;
            y_completed := k :: y_completed y |}
  | SysResubmit k =>
    Some {| y_world := add_log (y_world y) [EvResubmit k];
            y_outstanding := k :: y_outstanding y; y_completed := y_completed y |}
  end.

Fixpoint sys_run (c : consts) (y : sys) (ops : list sys_op) : option sys :=
  match ops with
  | [] => Some y
  | o :: t => match sys_step c y o with None => None | Some y1 => sys_run c y1 t end
  end.

(* ---- specification vocabulary of the system-level theorems ----
   what must have happened before an event for it to be justified: a stage j > 1 is configured /
   its config read / submitted / made current only after stage j-1 was submitted and that submission
   was marked complete; a submission is marked complete only if it exists; resubmission only of a
   completed submission. *)
Definition ev_justified (pre : list pevent) (ev : pevent) : Prop :=
  match ev with
  | EvAutoConfig j | EvReadConfig j | EvSubmit j =>
      j = 1 \/ (In (EvMarkComplete (j - 1)) pre /\ In (EvSubmit (j - 1)) pre)
  | EvAdvance k _ => In (EvMarkComplete (k - 1)) pre /\ In (EvSubmit (k - 1)) pre
  | EvMarkComplete k => In (EvSubmit k) pre
  | EvResubmit k => In (EvMarkComplete k) pre
  end.

Definition log_ordered (L : list pevent) : Prop :=
  forall pre ev post, L = pre ++ ev :: post -> ev_justified pre ev.

(* ---- decidable equalities used by the correspondence ---- *)
Definition pevent_eqb (a b : pevent) : bool :=
  match a, b with
  | EvAdvance k r, EvAdvance k' r' => (k =? k') && (r =? r')
  | EvAutoConfig k, EvAutoConfig k' | EvReadConfig k, EvReadConfig k' | EvSubmit k, EvSubmit k'
  | EvMarkComplete k, EvMarkComplete k' | EvResubmit k, EvResubmit k' => k =? k'
  | _, _ => false
  end.

Definition presult_eqb (a b : presult) : bool :=
  match a, b with
  | ROkSubmitted k, ROkSubmitted k' | RErrAutoConfig k, RErrAutoConfig k'
  | RErrConfig k, RErrConfig k' | RErrStageFailed k, RErrStageFailed k' => k =? k'
  | ROkComplete, ROkComplete | RErrExists, RErrExists | RErrNoPipeline, RErrNoPipeline
  | RErrAssert, RErrAssert | RErrInvalidParameter, RErrInvalidParameter
  | RErrIndexRc, RErrIndexRc | RErrIndexStage, RErrIndexStage | RErrOther, RErrOther => true
  | _, _ => false
  end.

Fixpoint list_eqbZ {A} (eqb : A -> A -> bool) (a b : list A) : bool :=
  match a, b with
  | [], [] => true
  | x :: a', y :: b' => eqb x y && list_eqbZ eqb a' b'
  | _, _ => false
  end.

Definition optZ_eqb (a b : option Z) : bool :=
  match a, b with Some x, Some y => x =? y | None, None => true | _, _ => false end.

Definition obs_eqb (a b : option (Z * list (option Z) * bool)) : bool :=
  match a, b with
  | None, None => true
  | Some (s, rcs, c), Some (s', rcs', c') => (s =? s') && list_eqbZ optZ_eqb rcs rcs' && Bool.eqb c c'
  | _, _ => false
  end.

Definition step_obs_eqb (a b : presult * option (Z * list (option Z) * bool) * list pevent) : bool :=
  match a, b with
  | (r, o, l), (r', o', l') => presult_eqb r r' && obs_eqb o o' && list_eqbZ pevent_eqb l l'
  end.

(* system level: final pipeline.json + whole event log, None if the C05 discipline was violated *)
Definition sys_obs (c : consts) (ops : list sys_op)
  : option (option (Z * list (option Z) * bool) * list pevent) :=
  match sys_run c init_sys ops with
  | None => None
  | Some y => Some (observe (y_world y), w_log (y_world y))
  end.

Definition sys_obs_eqb (a b : option (option (Z * list (option Z) * bool) * list pevent)) : bool :=
  match a, b with
  | None, None => true
  | Some (o, l), Some (o', l') => obs_eqb o o' && list_eqbZ pevent_eqb l l'
  | _, _ => false
  end.

(* ------------------------------------------------------------------------------------------
   The constants of the current source, from Gen/PipelineGen.v (regenerated from /repo). *)
Definition index_of (x : string) (l : list string) : nat :=
  (fix go (l : list string) (i : nat) : nat :=
     match l with [] => i | h :: t => if String.eqb x h then i else go t (S i) end) l O.

Definition src_consts : consts :=
  {| c_init := gen_init_stage_files; c_assert := gen_assert_first; c_cli_first := gen_cli_first;
     c_seq := gen_seq_offset; c_rc_back := gen_rc_index_back; c_incr := gen_stage_incr;
     c_done := gen_done_offset; c_cur_back := gen_cur_index_back; c_hand := gen_hand_offset;
     c_after_mark := (index_of "mark_complete" gen_handover_order <? index_of "submit_next_stage" gen_handover_order)%nat |}.
