(* Proofs about the shlex model: every argument vector survives quote/join/split unchanged; plain
   words separated by whitespace runs are delivered as they are; splitting is compositional over
   a separating space.  All by induction over the state machine. *)
From Coq Require Import String Ascii List Bool NArith Lia.
From Jade Require Import Base Shlex.
Import ListNotations.
Open Scope string_scope.

(* ---------- strings ---------- *)
Lemma app_nil_r_s (s : string) : s ++ "" = s.
Proof. induction s; cbn; congruence. Qed.
Lemma app_assoc_s (a b c : string) : (a ++ b) ++ c = a ++ (b ++ c).
Proof. induction a; cbn; congruence. Qed.
Lemma snoc_app (t : string) (c : ascii) (w : string) : snoc t c ++ w = t ++ String c w.
Proof. unfold snoc. rewrite app_assoc_s. reflexivity. Qed.
Lemma all_chars_app f (a b : string) : all_chars f (a ++ b) = all_chars f a && all_chars f b.
Proof. induction a as [|c a IH]; cbn; [reflexivity|]. rewrite IH. apply andb_assoc. Qed.

(* ---------- character classes (finite: all 256 bytes) ---------- *)
Lemma safe_is_plain : forall c, safe_char c = true -> plain_char c = true.
Proof. intros [[] [] [] [] [] [] [] []]; vm_compute; intros H; congruence. Qed.
Lemma plain_char_spec c : plain_char c = true -> sh_ws c = false /\ sh_quote c = false /\ sh_escape c = false.
Proof.
  unfold plain_char. rewrite !andb_true_iff, !negb_true_iff. tauto.
Qed.
Lemma safe_all_plain s : all_chars safe_char s = true -> plain s = true.
Proof.
  unfold plain. induction s as [|c s IH]; cbn; [reflexivity|].
  rewrite !andb_true_iff. intros [H1 H2]. split; [apply safe_is_plain; exact H1|auto].
Qed.
Lemma sq_facts : sh_ws c_sq = false /\ sh_quote c_sq = true /\ sh_escape c_sq = false /\
                 sh_escapedquote c_sq = false /\ Ascii.eqb c_dq c_sq = false /\ Ascii.eqb c_sq c_dq = false /\
                 sh_ws c_dq = false /\ sh_quote c_dq = true /\ sh_escape c_dq = false.
Proof. vm_compute. repeat split. Qed.

(* ---------- words ---------- *)
(* inside a word, plain characters are appended to the token *)
Lemma lex_plain_A : forall w tok q rest, plain w = true ->
  lex (w ++ rest) StA tok q = lex rest StA (tok ++ w) q.
Proof.
  induction w as [|c w IH]; intros tok q rest H.
  - cbn. rewrite app_nil_r_s. reflexivity.
  - unfold plain in H. cbn in H. apply andb_true_iff in H. destruct H as [Hc Hw].
    destruct (plain_char_spec c Hc) as [H1 [H2 H3]].
    cbn. rewrite H1, H2, H3. rewrite (IH _ _ _ Hw). rewrite snoc_app. reflexivity.
Qed.
(* between tokens, a plain character starts a word (self.token = nextchar) *)
Lemma lex_plain_W : forall c w tok q rest, plain (String c w) = true ->
  lex (String c w ++ rest) StW tok q = lex rest StA (String c w) q.
Proof.
  intros c w tok q rest H. unfold plain in H. cbn in H. apply andb_true_iff in H. destruct H as [Hc Hw].
  destruct (plain_char_spec c Hc) as [H1 [H2 H3]].
  cbn. rewrite H1, H2, H3. rewrite (lex_plain_A w _ _ _ Hw). reflexivity.
Qed.
(* whitespace after a word hands the token out *)
Lemma lex_ws_A : forall c rest tok q, sh_ws c = true -> nonempty tok || q = true ->
  lex (String c rest) StA tok q = cons_opt tok (lex rest StW "" false).
Proof. intros c rest tok q H1 H2. cbn. rewrite H1, H2. reflexivity. Qed.
(* whitespace between tokens is skipped *)
Lemma lex_ws_run : forall w rest, all_chars sh_ws w = true ->
  lex (w ++ rest) StW "" false = lex rest StW "" false.
Proof.
  induction w as [|c w IH]; intros rest H; [reflexivity|].
  cbn in H. apply andb_true_iff in H. destruct H as [Hc Hw]. cbn. rewrite Hc. cbn. apply IH, Hw.
Qed.

(* ---------- quote ---------- *)
(* inside single quotes the body of quote t delivers exactly t, whatever t contains *)
Lemma lex_quote_body : forall t tok qd rest,
  lex (quote_body t ++ String c_sq rest) (StQ c_sq) tok qd = lex rest StA (tok ++ t) true.
Proof.
  destruct sq_facts as [F1 [F2 [F3 [F4 [F5 [F6 [F7 [F8 F9]]]]]]]].
  induction t as [|c t IH]; intros tok qd rest.
  - cbn [quote_body append lex]. rewrite Ascii.eqb_refl. rewrite app_nil_r_s. reflexivity.
  - cbn [quote_body]. destruct (Ascii.eqb c c_sq) eqn:E.
    + apply Ascii.eqb_eq in E. subst c.
      unfold sq_repl. cbn [append].
      (* sq: leave the quotes *)
      cbn [lex]. rewrite Ascii.eqb_refl.
      (* dq: enter double quotes *)
      rewrite F7, F8.
      (* sq inside double quotes: appended *)
      rewrite F6. rewrite F3. cbn [andb].
      (* dq: leave double quotes; sq: enter single quotes again *)
      rewrite Ascii.eqb_refl. rewrite F1, F2.
      rewrite IH. rewrite snoc_app. reflexivity.
    + cbn [append lex]. rewrite E.
      replace (sh_escape c && sh_escapedquote c_sq) with false by (rewrite F4; symmetry; apply andb_false_r).
      rewrite IH. rewrite snoc_app. reflexivity.
Qed.

(* inside a word, quote t extends the token by exactly t *)
Lemma lex_quote_A : forall t tok q rest, exists q',
  lex (quote t ++ rest) StA tok q = lex rest StA (tok ++ t) q' /\ (nonempty t || q' = true \/ q' = q).
Proof.
  destruct sq_facts as [F1 [F2 [F3 [F4 [F5 [F6 [F7 [F8 F9]]]]]]]].
  intros t tok q rest. destruct t as [|c t].
  - exists true. split; [|left; reflexivity].
    cbn. rewrite ?app_nil_r_s. reflexivity.
  - unfold quote. destruct (all_chars safe_char (String c t)) eqn:S.
    + exists q. split; [|right; reflexivity]. apply lex_plain_A. apply safe_all_plain, S.
    + exists true. split; [|left; apply orb_true_r].
      cbn [append lex]. rewrite F1, F2. rewrite app_assoc_s. cbn [append].
      apply lex_quote_body.
Qed.
(* between tokens, quote t is read as the one token t *)
Lemma lex_quote_W : forall t rest, exists q',
  lex (quote t ++ rest) StW "" false = lex rest StA t q' /\ nonempty t || q' = true.
Proof.
  destruct sq_facts as [F1 [F2 [F3 [F4 [F5 [F6 [F7 [F8 F9]]]]]]]].
  intros t rest. destruct t as [|c t].
  - exists true. split; [|reflexivity]. cbn. reflexivity.
  - unfold quote. destruct (all_chars safe_char (String c t)) eqn:S.
    + exists false. split; [|reflexivity]. apply lex_plain_W. apply safe_all_plain, S.
    + exists true. split; [|apply orb_true_r].
      cbn [append lex]. rewrite F1, F2, F3. rewrite app_assoc_s. cbn [append].
      rewrite lex_quote_body. reflexivity.
Qed.

(* ---------- round trip ---------- *)
Theorem split_shjoin : forall argv, split (shjoin argv) = Some argv.
Proof.
  unfold split, shjoin. induction argv as [|x r IH]; [reflexivity|].
  destruct r as [|y r].
  - cbn [map join]. rewrite <- (app_nil_r_s (quote x)).
    destruct (lex_quote_W x "") as [q' [E Hq]]. rewrite E. cbn. rewrite Hq. reflexivity.
  - change (join " " (map quote (x :: y :: r))) with (quote x ++ String c_sp (join " " (map quote (y :: r)))).
    destruct (lex_quote_W x (String c_sp (join " " (map quote (y :: r))))) as [q' [E Hq]]. rewrite E.
    rewrite lex_ws_A by (reflexivity || exact Hq). rewrite IH. reflexivity.
Qed.

(* ---------- plain words separated by whitespace runs ---------- *)
Lemma lex_join_ws : forall items, Forall item_ok items -> seps_ok items ->
  lex (join_ws items) StW "" false = Some (map fst items).
Proof.
  induction items as [|[t s] r IH]; intros Hall Hs; [reflexivity|].
  inversion Hall as [|? ? [Hp [Hne Hws]] Hall']; subst. cbn in Hp, Hne, Hws.
  destruct Hs as [Hs1 Hs2]. cbn [join_ws map fst].
  destruct t as [|c t]; [congruence|].
  rewrite lex_plain_W by exact Hp.
  destruct s as [|d s].
  - destruct r as [|it r]; [|exfalso; apply Hs1; [discriminate|reflexivity]]. reflexivity.
  - cbn in Hws. apply andb_true_iff in Hws. destruct Hws as [Hd Hs'].
    cbn [append]. rewrite lex_ws_A by (exact Hd || reflexivity).
    rewrite lex_ws_run by exact Hs'. rewrite (IH Hall' Hs2). reflexivity.
Qed.
Theorem split_plain : forall lead items, all_chars sh_ws lead = true -> Forall item_ok items -> seps_ok items ->
  split (lead ++ join_ws items) = Some (map fst items).
Proof.
  intros lead items Hl Hall Hs. unfold split. rewrite lex_ws_run by exact Hl. apply lex_join_ws; assumption.
Qed.

(* ---------- compositionality over a separating space ---------- *)
Lemma cons_opt_map t l X : cons_opt t (option_map (app l) X) = option_map (app (t :: l)) X.
Proof. destruct X; reflexivity. Qed.
Lemma cons_opt_some t X l : cons_opt t X = Some l -> exists l', X = Some l' /\ l = t :: l'.
Proof. destruct X as [l'|]; cbn; intros H; [inversion H; eauto|discriminate]. Qed.

Lemma lex_app_sp : forall s st tok q l rest, lex s st tok q = Some l ->
  lex (s ++ String c_sp rest) st tok q = option_map (app l) (lex rest StW "" false).
Proof.
  induction s as [|c s IH]; intros st tok q l rest H.
  - cbn [append]. destruct st; cbn in H; try discriminate.
    + cbn. destruct (nonempty tok || q) eqn:E; inversion H; subst.
      * destruct (lex rest StW "" false); reflexivity.
      * apply orb_false_iff in E. destruct E as [E1 E2]. destruct tok; [|discriminate]. subst q.
        destruct (lex rest StW "" false); reflexivity.
    + cbn. destruct (nonempty tok || q) eqn:E; inversion H; subst.
      * destruct (lex rest StW "" false); reflexivity.
      * apply orb_false_iff in E. destruct E as [E1 E2]. destruct tok; [|discriminate]. subst q.
        destruct (lex rest StW "" false); reflexivity.
  - cbn [append]. destruct st as [| |qc|back]; cbn [lex] in *.
    + destruct (sh_ws c).
      * destruct (nonempty tok || q).
        -- apply cons_opt_some in H. destruct H as [l' [H ->]]. rewrite (IH _ _ _ _ rest H). apply cons_opt_map.
        -- apply IH, H.
      * destruct (sh_escape c); [apply IH, H|]. destruct (sh_quote c); apply IH, H.
    + destruct (sh_ws c).
      * destruct (nonempty tok || q).
        -- apply cons_opt_some in H. destruct H as [l' [H ->]]. rewrite (IH _ _ _ _ rest H). apply cons_opt_map.
        -- apply IH, H.
      * destruct (sh_quote c); [apply IH, H|]. destruct (sh_escape c); apply IH, H.
    + destruct (Ascii.eqb c qc); [apply IH, H|]. destruct (sh_escape c && sh_escapedquote qc); apply IH, H.
    + destruct back as [qc|]; [|apply IH, H].
      destruct (negb (Ascii.eqb c c_bs) && negb (Ascii.eqb c qc)); apply IH, H.
Qed.

(* a command followed by a space and more text: the arguments of the command, then those of the text;
   an error in the appended text is an error of the whole *)
Theorem split_app_sp : forall a b la, split a = Some la ->
  split (a ++ String c_sp b) = option_map (app la) (split b).
Proof. intros a b la H. unfold split in *. apply lex_app_sp, H. Qed.

(* prefix ++ quote t, with a plain non-empty prefix, is the single argument prefix ++ t *)
Theorem split_prefix_quote : forall p t, plain p = true -> p <> "" -> split (p ++ quote t) = Some [p ++ t].
Proof.
  intros p t Hp Hne. unfold split. destruct p as [|c p]; [congruence|].
  rewrite lex_plain_W by exact Hp.
  rewrite <- (app_nil_r_s (quote t)).
  destruct (lex_quote_A t (String c p) false "") as [q' [E _]]. rewrite E. reflexivity.
Qed.
(* the same, followed by a space and more text *)
Theorem split_prefix_quote_sp : forall p t rest, plain p = true -> p <> "" ->
  split (p ++ quote t ++ String c_sp rest) = option_map (cons (p ++ t)) (split rest).
Proof.
  intros p t rest Hp Hne.
  replace (p ++ quote t ++ String c_sp rest) with ((p ++ quote t) ++ String c_sp rest) by apply app_assoc_s.
  rewrite (split_app_sp _ _ _ (split_prefix_quote p t Hp Hne)). destruct (split rest); reflexivity.
Qed.

(* what the lexer does NOT do for unquoted text (the reason quote is needed) *)
Lemma unquoted_space_splits : split "--jade-job-name=a b" = Some ["--jade-job-name=a"; "b"].
Proof. reflexivity. Qed.
Lemma unquoted_quote_fails : split "--jade-job-name=it's" = None.
Proof. reflexivity. Qed.
