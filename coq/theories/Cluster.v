(* Model of jade/jobs/cluster.py (class Cluster): the submitter role and the versioned state files.
   No proofs here (ClusterProofs.v), statements in Props/C10.v.

   One DISK per submission directory:
     cluster_config.json      -> d_cfg    (ClusterConfig: version, submitter, is_complete, is_canceled,
                                           submitted_jobs; the other fields are never changed by Cluster)
     config_version.txt       -> d_cfg_vf
     job_status.json          -> d_js     (JobStatus: version, batch_index, hpc_job_ids; the per-job
                                           records are an abstract payload, not modelled)
     job_status_version.txt   -> d_js_vf
     cluster_config.json.lock -> s_wedged (only the marker that _do_action_under_lock_internal
                                           re-creates after an exception: "A deadlock will occur")
   Any number of HANDLES (Cluster objects, in any processes on any hosts); handle i = i-th object
   returned by Cluster.create / Cluster.deserialize.  A handle has
     h_host     = self._hostname (socket.gethostname() at construction),
     h_cfg      = self._config   (in-memory copy, incl. version and submitter),
     h_hash     = self._config_hash (None, or the config text this handle wrote last; equality of
                  Python hash() values is modelled as equality of the content),
     h_js       = self._job_status (None unless deserialize_jobs),
     h_promoted = GHOST: what the calling CLI remembers ("promoted" returned true / create, and it has
                  not demoted successfully since).  It never influences the model's behaviour.
   Every operation runs under the cluster lock, i.e. atomically.

   Followed exactly (and exercised by the correspondence):
   * _serialize: read the VERSION FILE, compare with the in-memory version, raise ConfigVersionMismatch
     before anything is written; write only if the content differs from what this handle wrote last
     (fresh handles always write); bump version, write version file, write config.
   * _serialize_jobs: same compare; the "unchanged" test compares the hash of the job status with
     self._config_hash (sic), which never matches => it always writes.
   * _update_job_status: mutate memory, compare BOTH versions, then _serialize, _serialize_jobs
     (before the fix "reject a stale job-status copy before the cluster config is written" the second
     compare came after the first write: `update_old` / update_old_partial_write in ClusterProofs.v);
     prepare_for_resubmission does the same under the lock.
   * in-memory mutations made before an exception stay in the handle.
   * am_i_submitter compares HOST NAMES.
   Not modelled: serialize=False variants (no caller), Timeout while the lock is held by a live
   process (atomicity of operations stands for it), a process killed between two file writes (C11). *)
From Coq Require Import List NArith Bool Arith.
From Jade Require Import Base.
Import ListNotations.
Open Scope N_scope.

Record config := mkCfg { c_version : N; c_submitter : option N; c_complete : bool; c_canceled : bool;
                         c_submitted : N }.
Record jstat := mkJs { j_version : N; j_batch : N; j_ids : list N }.
Record disk := mkDisk { d_cfg : config; d_cfg_vf : N; d_js : jstat; d_js_vf : N }.
Record handle := mkH { h_host : N; h_cfg : config; h_hash : option config; h_js : option jstat;
                       h_promoted : bool }.
Record state := mkS { s_disk : disk; s_wedged : bool; s_handles : list handle }.

Definition cfg_eqb (a b : config) : bool :=
  (c_version a =? c_version b) && option_eqb N.eqb (c_submitter a) (c_submitter b)
  && Bool.eqb (c_complete a) (c_complete b) && Bool.eqb (c_canceled a) (c_canceled b)
  && (c_submitted a =? c_submitted b).
Definition js_eqb (a b : jstat) : bool :=
  (j_version a =? j_version b) && (j_batch a =? j_batch b) && list_eqb N.eqb (j_ids a) (j_ids b).
Definition disk_eqb (a b : disk) : bool :=
  cfg_eqb (d_cfg a) (d_cfg b) && (d_cfg_vf a =? d_cfg_vf b) && js_eqb (d_js a) (d_js b)
  && (d_js_vf a =? d_js_vf b).

Inductive result :=
| ROk
| RLoaded (id : nat) (promoted : bool)   (* Cluster.deserialize returned (handle id, promoted) *)
| RBool (b : bool)                        (* promote_to_submitter *)
| RCfgMismatch                            (* ConfigVersionMismatch *)
| RJsMismatch                             (* JobStatusVersionMismatch *)
| RAssertion                              (* AssertionError *)
| RAttrError                              (* AttributeError: job status not loaded *)
| RValueError                             (* list.remove(x): x not in list *)
| RBlocked                                (* lock marker present: filelock.Timeout *)
| RNoHandle.                              (* model only: no such handle id *)

Definition is_exn (r : result) : bool :=
  match r with RCfgMismatch | RJsMismatch | RAssertion | RAttrError | RValueError => true | _ => false end.

Definition result_eqb (a b : result) : bool :=
  match a, b with
  | ROk, ROk | RCfgMismatch, RCfgMismatch | RJsMismatch, RJsMismatch | RAssertion, RAssertion
  | RAttrError, RAttrError | RValueError, RValueError | RBlocked, RBlocked | RNoHandle, RNoHandle => true
  | RLoaded i p, RLoaded j q => Nat.eqb i j && Bool.eqb p q
  | RBool p, RBool q => Bool.eqb p q
  | _, _ => false
  end.

(* --- handle / config field updates ------------------------------------------------------------ *)
Definition cfg_with_version (c : config) (v : N) :=
  mkCfg v (c_submitter c) (c_complete c) (c_canceled c) (c_submitted c).
Definition cfg_with_submitter (c : config) (s : option N) :=
  mkCfg (c_version c) s (c_complete c) (c_canceled c) (c_submitted c).
Definition cfg_with_complete (c : config) (b : bool) :=
  mkCfg (c_version c) (c_submitter c) b (c_canceled c) (c_submitted c).
Definition cfg_with_canceled (c : config) (b : bool) :=
  mkCfg (c_version c) (c_submitter c) (c_complete c) b (c_submitted c).
Definition cfg_with_submitted (c : config) (n : N) :=
  mkCfg (c_version c) (c_submitter c) (c_complete c) (c_canceled c) n.

Definition h_with_cfg (h : handle) (c : config) := mkH (h_host h) c (h_hash h) (h_js h) (h_promoted h).
Definition h_with_js (h : handle) (j : option jstat) := mkH (h_host h) (h_cfg h) (h_hash h) j (h_promoted h).
Definition h_with_promoted (h : handle) (b : bool) := mkH (h_host h) (h_cfg h) (h_hash h) (h_js h) b.

(* --- the two guarded writes ------------------------------------------------------------------- *)
(* Cluster._check_config_version / _check_job_status_version *)
Definition chk_cfg (d : disk) (h : handle) : result * disk * handle :=
  if negb (c_version (h_cfg h) =? d_cfg_vf d) then (RCfgMismatch, d, h) else (ROk, d, h).
Definition chk_js (d : disk) (h : handle) : result * disk * handle :=
  match h_js h with
  | None => (RAttrError, d, h)
  | Some j => if negb (j_version j =? d_js_vf d) then (RJsMismatch, d, h) else (ROk, d, h)
  end.

(* run b only if a returned normally *)
Definition and_then (a : result * disk * handle) (b : disk -> handle -> result * disk * handle) :=
  match a with
  | (ROk, d, h) => b d h
  | x => x
  end.

(* the rest of Cluster._serialize after the check *)
Definition write_cfg (d : disk) (h : handle) : result * disk * handle :=
  if option_eqb cfg_eqb (Some (h_cfg h)) (h_hash h) then (ROk, d, h)
  else let c := cfg_with_version (h_cfg h) (c_version (h_cfg h) + 1) in
       (ROk, mkDisk c (c_version c) (d_js d) (d_js_vf d),
        mkH (h_host h) c (Some c) (h_js h) (h_promoted h)).
Definition write_js (d : disk) (h : handle) : result * disk * handle :=
  match h_js h with
  | None => (RAttrError, d, h)
  | Some j => let j' := mkJs (j_version j + 1) (j_batch j) (j_ids j) in
              (ROk, mkDisk (d_cfg d) (d_cfg_vf d) j' (j_version j'), h_with_js h (Some j'))
  end.

(* Cluster._serialize / Cluster._serialize_jobs *)
Definition ser_cfg (d : disk) (h : handle) := and_then (chk_cfg d h) write_cfg.
Definition ser_js (d : disk) (h : handle) := and_then (chk_js d h) write_js.

Definition am_i_submitter (h : handle) : bool := option_eqb N.eqb (c_submitter (h_cfg h)) (Some (h_host h)).
Definition has_submitter (h : handle) : bool := match c_submitter (h_cfg h) with Some _ => true | None => false end.

Fixpoint remove_first (x : N) (l : list N) : option (list N) :=
  match l with
  | [] => None
  | y :: r => if x =? y then Some r else option_map (cons y) (remove_first x r)
  end.

(* --- per-handle operations --------------------------------------------------------------------- *)
Inductive hop :=
| HPromote                                  (* promote_to_submitter() *)
| HDemote                                   (* demote_from_submitter() *)
| HMarkComplete | HMarkCanceled
| HSerialize | HSerializeJobs               (* serialize(reason) / serialize_jobs(reason) *)
| HUpdate (k b : N) (ids : list N)          (* update_job_status: submitted_jobs += k, batch_index := b,
                                               hpc_job_ids := ids *)
| HCompleteHpc (id : N)                     (* complete_hpc_job_id *)
| HReloadJobs                               (* deserialize_jobs() *)
| HPrepare (v : N).                         (* prepare_for_resubmission: is_complete := False, is_canceled := False,
                                               submitted_jobs := v (recounted from the job table), both files written *)

(* every operation runs under the cluster lock (prepare_for_resubmission too, since "prepare_for_resubmission
   holds the cluster lock while it rewrites both status files") *)
Definition locked (o : hop) : bool := match o with HPromote => true | _ => true end.   (* = true for every o *)

(* Cluster._promote_to_submitter *)
Definition promote (d : disk) (h : handle) : result * disk * handle :=
  if has_submitter h then (RBool false, d, h)
  else match ser_cfg d (h_with_cfg h (cfg_with_submitter (h_cfg h) (Some (h_host h)))) with
       | (ROk, d', h') => (RBool true, d', h_with_promoted h' true)
       | x => x
       end.

Definition act (o : hop) (d : disk) (h : handle) : result * disk * handle :=
  match o with
  | HPromote => promote d h
  | HDemote =>
    if am_i_submitter h then
      match ser_cfg d (h_with_cfg h (cfg_with_submitter (h_cfg h) None)) with
      | (ROk, d', h') => (ROk, d', h_with_promoted h' false)
      | x => x
      end
    else (RAssertion, d, h)
  | HMarkComplete =>
    if c_complete (h_cfg h) then (RAssertion, d, h)
    else ser_cfg d (h_with_cfg h (cfg_with_complete (h_cfg h) true))
  | HMarkCanceled => ser_cfg d (h_with_cfg h (cfg_with_canceled (h_cfg h) true))
  | HSerialize => ser_cfg d h
  | HSerializeJobs => ser_js d h
  | HUpdate k b ids =>
    match h_js h with
    | None => (RAttrError, d, h)
    | Some j =>
      let h1 := mkH (h_host h) (cfg_with_submitted (h_cfg h) (c_submitted (h_cfg h) + k)) (h_hash h)
                    (Some (mkJs (j_version j) b ids)) (h_promoted h) in
      and_then (chk_cfg d h1) (fun d h => and_then (chk_js d h) (fun d h => and_then (ser_cfg d h) ser_js))
    end
  | HCompleteHpc id =>
    match h_js h with
    | None => (RAttrError, d, h)
    | Some j =>
      match remove_first id (j_ids j) with
      | None => (RValueError, d, h)
      | Some ids' => ser_js d (h_with_js h (Some (mkJs (j_version j) (j_batch j) ids')))
      end
    end
  | HReloadJobs => (ROk, d, h_with_js h (Some (d_js d)))
  | HPrepare v =>
    if c_complete (h_cfg h) then
      let h1 := h_with_cfg h (cfg_with_submitted (cfg_with_canceled (cfg_with_complete (h_cfg h) false) false) v) in
      match h_js h with
      | None => (RAssertion, d, h1)          (* iter_jobs: assert self._job_status is not None *)
      | Some _ =>
        and_then (chk_cfg d h1) (fun d h => and_then (chk_js d h) (fun d h => and_then (ser_cfg d h) ser_js))
      end
    else (RAssertion, d, h)
  end.

(* --- global operations -------------------------------------------------------------------------- *)
Inductive op :=
| Load (host : N) (try_promote jobs : bool)   (* Cluster.deserialize(path, try_promote_to_submitter, deserialize_jobs) *)
| Do (i : nat) (o : hop)
| Unwedge.                                     (* the re-created lock marker disappears (operator removes
                                                 it / a newer filelock breaks the malformed marker) *)

Fixpoint upd {A} (l : list A) (i : nat) (x : A) : list A :=
  match l, i with
  | [], _ => []
  | _ :: r, O => x :: r
  | y :: r, S k => y :: upd r k x
  end.

Definition step (s : state) (o : op) : result * state :=
  match o with
  | Unwedge => (ROk, mkS (s_disk s) false (s_handles s))
  | Load host p j =>
    if s_wedged s then (RBlocked, s)
    else
      let d := s_disk s in
      let h0 := mkH host (d_cfg d) None None false in
      let '(r, d1, h1) := if p then promote d h0 else (RBool false, d, h0) in
      if is_exn r then (r, mkS d1 true (s_handles s))
      else
        let h2 := if j then h_with_js h1 (Some (d_js d1)) else h1 in
        (RLoaded (length (s_handles s)) (h_promoted h2), mkS d1 false (s_handles s ++ [h2]))
  | Do i o =>
    match nth_error (s_handles s) i with
    | None => (RNoHandle, s)
    | Some h =>
      if locked o && s_wedged s then (RBlocked, s)
      else
        let '(r, d', h') := act o (s_disk s) h in
        (r, mkS d' (s_wedged s || (locked o && is_exn r)) (upd (s_handles s) i h'))
    end
  end.

Fixpoint run (s : state) (ops : list op) : state :=
  match ops with
  | [] => s
  | o :: r => run (snd (step s o)) r
  end.

(* the observable history: each operation with its result *)
Fixpoint trace (s : state) (ops : list op) : list (op * result) :=
  match ops with
  | [] => []
  | o :: r => let '(x, s') := step s o in (o, x) :: trace s' r
  end.

(* Cluster.create(path, config) executed on `host`: version files "0", then serialize, serialize_jobs
   (both bump to 1); the creating handle is the submitter. *)
Definition create (host : N) : state :=
  let c0 := mkCfg 0 (Some host) false false 0 in
  let j0 := mkJs 0 1 [] in
  let d0 := mkDisk c0 0 j0 0 in
  let h0 := mkH host c0 None (Some j0) true in
  let '(_, d1, h1) := and_then (ser_cfg d0 h0) ser_js in
  mkS d1 false [h1].

(* --- the CLI protocol ---------------------------------------------------------------------------- *)
(* "a handle calls demote_from_submitter only if its own promotion succeeded and it has not demoted
   since": a boolean predicate on the operation sequence (evaluated along the run). *)
Definition demote_guard (s : state) (o : op) : bool :=
  match o with
  | Do i HDemote => match nth_error (s_handles s) i with Some h => h_promoted h | None => true end
  | _ => true
  end.

Fixpoint protocol_ok (s : state) (ops : list op) : bool :=
  match ops with
  | [] => true
  | o :: r => demote_guard s o && protocol_ok (snd (step s o)) r
  end.

Definition holds (s : state) (i : nat) : Prop :=
  exists h, nth_error (s_handles s) i = Some h /\ h_promoted h = true.

(* --- interface used by the correspondence (harness/clusterdrv.py) ------------------------------- *)
Inductive dop :=
| DOp (o : op)
| DPrep (i : nat) (v : N).        (* handle.prepare_for_resubmission(...) *)

Definition dstep (s : state) (o : dop) : result * state :=
  match o with DOp o => step s o | DPrep i v => step s (Do i (HPrepare v)) end.

(* what the driver can see of a handle: host, in-memory config, "memory equals what I wrote last",
   in-memory job status *)
Definition hview := (N * config * bool * option jstat)%type.
Definition view_handle (h : handle) : hview :=
  (h_host h, h_cfg h, option_eqb cfg_eqb (Some (h_cfg h)) (h_hash h), h_js h).
Definition hview_eqb (a b : hview) : bool :=
  match a, b with
  | (ha, ca, qa, ja), (hb, cb, qb, jb) =>
    (ha =? hb) && cfg_eqb ca cb && Bool.eqb qa qb && option_eqb js_eqb ja jb
  end.

(* per step: result, the four files, lock marker present; at the end: all handles *)
Definition sview := (result * disk * bool)%type.
Fixpoint observe (s : state) (ops : list dop) : list sview * list hview :=
  match ops with
  | [] => ([], map view_handle (s_handles s))
  | o :: r => let '(x, s') := dstep s o in
              let '(vs, hs) := observe s' r in ((x, s_disk s', s_wedged s') :: vs, hs)
  end.
Definition sview_eqb (a b : sview) : bool :=
  match a, b with (ra, da, wa), (rb, db, wb) => result_eqb ra rb && disk_eqb da db && Bool.eqb wa wb end.
Definition obs_eqb (a b : list sview * list hview) : bool :=
  list_eqb sview_eqb (fst a) (fst b) && list_eqb hview_eqb (snd a) (snd b).

(* --- the CLI call sites as programs over ONE handle's life ---------------------------------------- *)
(* what one process sees of its own handle: the load (with the `promoted` flag it got back), then
   its Cluster calls with their results *)
Inductive lev := LLoaded (promoted : bool) | LOp (o : hop) (r : result).

(* the CLI's own bookkeeping: `promoted` as returned, cleared by a successful demote;
   None = it called demote_from_submitter without holding a promotion *)
Definition local_step (p : bool) (e : lev) : option bool :=
  match e with
  | LLoaded b => Some b
  | LOp HPromote (RBool true) => Some true
  | LOp HDemote RNoHandle => Some p
  | LOp HDemote r => if p then Some (match r with ROk => false | _ => true end) else None
  | LOp _ _ => Some p
  end.
Fixpoint local_ok (p : bool) (evs : list lev) : bool :=
  match evs with
  | [] => true
  | e :: r => match local_step p e with Some p' => local_ok p' r | None => false end
  end.

Definition owner (e : op * result) : option nat :=
  match e with
  | (Load _ _ _, RLoaded k _) => Some k
  | (Do k _, _) => Some k
  | _ => None
  end.
Definition to_local (e : op * result) : lev :=
  match e with
  | (Load _ _ _, RLoaded _ p) => LLoaded p
  | (Do _ o, r) => LOp o r
  | (_, r) => LOp HReloadJobs r
  end.
Fixpoint events_of (i : nat) (tr : list (op * result)) : list lev :=
  match tr with
  | [] => []
  | e :: r => match owner e with
              | Some k => if Nat.eqb k i then to_local e :: events_of i r else events_of i r
              | None => events_of i r
              end
  end.
Definition bit_of (s : state) (i : nat) : bool :=
  match nth_error (s_handles s) i with Some h => h_promoted h | None => false end.

(* Cluster calls that neither promote nor demote (update_job_status, mark_complete, mark_canceled,
   complete_hpc_job_id, prepare_for_resubmission, ...) *)
Definition neutral (e : lev) : bool :=
  match e with LOp HPromote _ | LOp HDemote _ | LLoaded _ => false | _ => true end.

Inductive prog :=
| PDone                                  (* sys.exit / return / uncaught exception *)
| PLoaded (k : bool -> prog)             (* cluster, promoted = Cluster.deserialize(..., try_promote_to_submitter=True, ...) *)
| PDemote (k : result -> prog)           (* cluster.demote_from_submitter(); k sees the outcome *)
| PAny (k : prog)                        (* any number of neutral calls (a try-body that may raise at any point), then k *)
| PChoice (a b : prog).                  (* data-dependent branch *)

(* evs is a (prefix of a) run of p: a process may stop anywhere (killed, exception propagating) *)
Fixpoint accepts (p : prog) : list lev -> bool :=
  match p with
  | PDone => fun evs => match evs with [] => true | _ => false end
  | PLoaded k => fun evs => match evs with [] => true | LLoaded b :: r => accepts (k b) r | _ => false end
  | PDemote k => fun evs => match evs with [] => true | LOp HDemote x :: r => accepts (k x) r | _ => false end
  | PAny k => fix star (evs : list lev) : bool :=
                match evs with [] => true | e :: r => (neutral e && star r) || accepts k evs end
  | PChoice a b => fun evs => accepts a evs || accepts b evs
  end.

Definition p_exit : result -> prog := fun _ => PDone.

(* jade/cli/try_submit_jobs.py: not promoted -> exit; complete -> demote, exit;
   else try: submit_jobs(cluster) ... finally: demote *)
Definition prog_try_submit : prog :=
  PLoaded (fun promoted => if promoted then PChoice (PDemote p_exit) (PAny (PDemote p_exit)) else PDone).
(* jade/cli/cancel_jobs.py, one iteration of the retry loop (each iteration loads a new handle):
   not promoted -> sleep, next iteration; complete -> demote, exit; else cancel_jobs(cluster)
   (mark_canceled; an exception leaves without demoting), demote *)
Definition prog_cancel : prog :=
  PLoaded (fun promoted => if promoted then PChoice (PDemote p_exit) (PAny (PDemote p_exit)) else PDone).
(* jade/cli/resubmit_jobs.py: incomplete -> demote ONLY IF promoted, exit; assert promoted;
   (bad submission groups -> demote, exit); prepare_for_resubmission ...; try: submit_jobs finally: demote *)
Definition prog_resubmit : prog :=
  PLoaded (fun promoted =>
    PChoice (if promoted then PDemote p_exit else PDone)
            (if promoted then PAny (PDemote p_exit) else PDone)).
(* before "resubmit-jobs on an incomplete submission demotes only if it was promoted" (D5) *)
Definition prog_resubmit_old : prog :=
  PLoaded (fun promoted =>
    PChoice (PDemote p_exit)
            (if promoted then PAny (PDemote p_exit) else PDone)).
(* JobSubmitter.run_submit_jobs: the handle comes from Cluster.create (promoted);
   try: submit_jobs finally: demote *)
Definition prog_run_submit : prog := PAny (PDemote p_exit).
(* JobRunner._complete_hpc_job, one iteration: promoted -> try: complete_hpc_job_id finally: demote *)
Definition prog_complete_hpc : prog :=
  PLoaded (fun promoted => if promoted then PAny (PDemote p_exit) else PDone).
(* show-status, wait, hpc-jobs, ...: Cluster.deserialize without promotion, read only *)
Definition prog_reader : prog := PLoaded (fun _ => PAny PDone).

Definition cli_programs : list prog :=
  [prog_try_submit; prog_cancel; prog_resubmit; prog_complete_hpc; prog_reader].
