(* Proofs about the system model: every accepted trace satisfies the property monitors.
   Part 1: infrastructure, trace projections, C10 (role), C14 (cancel), C05 (completion). *)
From Coq Require Import List ZArith NArith Bool Arith Lia.
From Jade Require Import Base System SystemMonitors.
From Jade.Gen Require RoundGen.
Import ListNotations.
Open Scope N_scope.
Set Default Timeout 120.

Ltac destr_in H :=
  match type of H with
  | context [match ?x with _ => _ end] =>
    lazymatch x with
    | context [match _ with _ => _ end] => fail
    | _ => destruct x eqn:?
    end
  end.
Ltac step_inv H :=
  unfold step in H; cbv beta iota in H;
  repeat (destr_in H; try discriminate H);
  try (injection H as <-).
Ltac split_bools :=
  repeat match goal with
         | H : _ && _ = true |- _ => apply andb_true_iff in H; destruct H
         | H : negb _ = true |- _ => apply negb_true_iff in H
         | H : negb _ = false |- _ => apply negb_false_iff in H
         | H : Bool.eqb _ _ = true |- _ => apply Bool.eqb_prop in H
         | H : N.eqb _ _ = true |- _ => apply N.eqb_eq in H
         end.

(* the two decisions taken from the source (Gen/RoundGen.v), in the form the proofs use *)
Lemma check_complete_spec a n : RoundGen.check_complete a n = a || n.
Proof. destruct a, n; reflexivity. Qed.
Lemma skip_update_spec {A B} u (seen : list A) (placed : list B) same :
  u || negb (RoundGen.update_needed (negb (isnil seen)) (negb (isnil placed)) false (negb same)) = true ->
  u = true \/ (seen = [] /\ placed = [] /\ same = true).
Proof. destruct u; [auto|]. destruct seen, placed, same; cbn; intros H; try discriminate H; auto. Qed.

Lemma acting_some s p r : acting s p = Some r -> holder s = Some r /\ r_pid r = p /\ r_alive r = true.
Proof.
  unfold acting. destruct (holder s) as [r0|]; [|discriminate].
  destruct (N.eqb (r_pid r0) p && r_alive r0) eqn:E; [|discriminate].
  intros H; injection H as ->. apply andb_true_iff in E. destruct E as [E1 E2]. apply N.eqb_eq in E1. auto.
Qed.
Lemma in_round_some s p r : in_round s p = Some r ->
  holder s = Some r /\ r_pid r = p /\ r_alive r = true /\ r_round r = true.
Proof.
  unfold in_round. destruct (acting s p) as [r0|] eqn:E; [|discriminate].
  destruct (r_round r0) eqn:E2; [|discriminate]. intros H; injection H as ->.
  apply acting_some in E. tauto.
Qed.
Ltac use_holder :=
  repeat match goal with
         | E : in_round _ _ = Some _ |- _ => apply in_round_some in E; destruct E as (? & ? & ? & ?)
         | E : acting _ _ = Some _ |- _ => apply acting_some in E; destruct E as (? & ? & ?)
         end.

(* ---------- run_from ---------- *)
Lemma run_from_app sc tr1 tr2 s :
  run_from sc s (tr1 ++ tr2) = match run_from sc s tr1 with Some s1 => run_from sc s1 tr2 | None => None end.
Proof.
  revert s. induction tr1 as [|e t IH]; intros s; cbn [app run_from]; [reflexivity|].
  destruct (step sc s e); [apply IH|reflexivity].
Qed.

(* A monitor that is a fold with its own state m: if a relation R between model state and monitor
   state is kept by every accepted step and the monitor's check passes on every accepted step, the
   monitor accepts every accepted trace. *)
Section Simulation.
  Variable sc : scenario.
  Variable M : Type.
  Variable mon : M -> list event -> bool.
  Variable R : state -> M -> Prop.
  Hypothesis mon_nil : forall m, mon m [] = true.
  Hypothesis sim : forall s e s' m, step sc s e = Some s' -> R s m ->
                   exists m', (forall t, mon m (e :: t) = mon m' t) /\ R s' m'.
  Lemma simulation tr : forall s s' m, run_from sc s tr = Some s' -> R s m -> mon m tr = true.
  Proof.
    induction tr as [|e t IH]; intros s s' m Hrun HR; [apply mon_nil|].
    cbn [run_from] in Hrun. destruct (step sc s e) as [s1|] eqn:Es; [|discriminate].
    destruct (sim _ _ _ _ Es HR) as (m' & Hm & HR'). rewrite Hm. eapply IH; eauto.
  Qed.
End Simulation.

(* ---------- C10 ---------- *)
Definition hpid (s : state) : option N := option_map r_pid (holder s).
Definition R10 (s : state) (h : option N) : Prop := h = hpid s /\ (created s = false -> holder s = None).

Ltac fin10 := split; unfold hpid, option_map, set_session, with_holder in *; cbn;
  repeat match goal with E : holder _ = _ |- _ => rewrite ?E in * end; cbn in *;
  try congruence; try discriminate; auto;
  try (let Hc := fresh in intros Hc; match goal with R : created _ = false -> _ |- _ => specialize (R Hc); discriminate end).

Lemma c10_step sc s e s' h : step sc s e = Some s' -> R10 s h ->
  exists h', (forall t, c10_from h (e :: t) = c10_from h' t) /\ R10 s' h'.
Proof.
  intros H [Rh Rc]. unfold hpid in Rh.
  destruct e; step_inv H; use_holder; split_bools.
  all: try (exists h; split; [reflexivity|]; fin10; fail).
  all: match goal with |- exists _, (forall t, c10_from _ (?e :: t) = _) /\ _ =>
         lazymatch e with
         | ECreate ?p =>
           exists (Some p); split; [|fin10]; intros t; cbn [c10_from];
           rewrite Rh; match goal with E : created _ = false |- _ => rewrite (Rc E) end; reflexivity
         | ELoad ?p _ true _ _ =>
           first [ rewrite andb_false_r in *; discriminate
                 | exists (Some p); split; [|fin10]; intros t; cbn [c10_from]; rewrite Rh; reflexivity ]
         | EDemote ?p =>
           exists None; split; [|fin10]; intros t; cbn [c10_from]; rewrite Rh;
           match goal with E : holder _ = _ |- _ => rewrite E end; cbn;
           match goal with E : r_pid _ = p |- _ => rewrite E end; rewrite N.eqb_refl; reflexivity
         end
       end.
Qed.

Theorem c10_accepted sc tr s : run sc tr = Some s -> c10_ok sc tr = true.
Proof.
  intros H. unfold c10_ok, run in *.
  apply (simulation sc (option N) c10_from R10 (fun m => eq_refl) (c10_step sc) tr init s None H).
  split; reflexivity.
Qed.

(* ---------- C14 ---------- *)
Definition R14 (s : state) (c : bool) : Prop :=
  c = canceled s /\ (canceled s = true -> forall r, holder s = Some r -> r_canceled r = true).
Ltac rw_holder := repeat match goal with E : holder _ = _ |- _ => rewrite E in * end.
Ltac fin14 := rw_holder; split; unfold set_session, with_holder, new_session in *; cbn in *; rw_holder;
  [ try congruence; auto
  | try (intros Hc r0 Hr0; injection Hr0 as <-; cbn; eauto; fail); try (intros; discriminate); auto ].

Lemma c14_step sc s e s' c : step sc s e = Some s' -> R14 s c ->
  exists c', (forall t, c14_from c (e :: t) = c14_from c' t) /\ R14 s' c'.
Proof.
  intros H [Rc Rh].
  destruct e; step_inv H; use_holder; split_bools.
  all: try (exists c; split; [reflexivity|]; fin14; fail).
  all: match goal with |- exists _, (forall t, c14_from _ (?e :: t) = _) /\ _ =>
         lazymatch e with
         | EMarkCanceled _ => exists true; split; [reflexivity|]; fin14
         | ESbatch _ _ _ _ _ _ =>
           exists c; split; [|fin14]; intros t; cbn [c14_from];
           destruct c; [|reflexivity]; symmetry in Rc;
           match goal with E : holder _ = Some ?r, F : r_canceled ?r = false |- _ =>
             rewrite (Rh Rc r E) in F; discriminate end
         | _ => idtac
         end
       end.
Qed.

Theorem c14_accepted sc tr s : run sc tr = Some s -> c14_ok sc tr = true.
Proof.
  intros H. unfold c14_ok, run in *.
  apply (simulation sc bool c14_from R14 (fun m => eq_refl) (c14_step sc) tr init s false H).
  split; [reflexivity|]. cbn. discriminate.
Qed.

(* ---------- C05 (safety half) ---------- *)
Definition mon05 (m : bool * bool) (tr : list event) : bool := c05_from (fst m) (snd m) tr.
Definition R05 (s : state) (m : bool * bool) : Prop :=
  snd m = complete s /\ (forall r, holder s = Some r -> r_summary r = true -> fst m = true).
Ltac fin05 := rw_holder; split; unfold set_session, with_holder, new_session in *; cbn in *; rw_holder;
  [ try congruence; auto
  | try (intros r0 Hr0; injection Hr0 as <-; cbn; eauto; try discriminate; fail); try (intros; discriminate); eauto ].

Lemma c05_step sc s e s' m : step sc s e = Some s' -> R05 s m ->
  exists m', (forall t, mon05 m (e :: t) = mon05 m' t) /\ R05 s' m'.
Proof.
  intros H [Rc Rh]. destruct m as [sm dn]. unfold mon05. cbn [fst snd] in *.
  destruct e; step_inv H; use_holder; split_bools.
  all: try (exists (sm, dn); split; [reflexivity|]; fin05; fail).
  all: match goal with |- exists _, (forall t, c05_from _ _ (?e :: t) = _) /\ _ =>
         lazymatch e with
         | ESummary _ _ _ => exists (true, dn); split; [reflexivity|]; fin05
         | EMarkComplete _ =>
           exists (sm, true); split; [|fin05]; intros t; cbn [c05_from fst snd];
           match goal with E : holder _ = Some ?r, F : r_summary ?r = true |- _ => rewrite (Rh r E F) end;
           rewrite Rc; match goal with E : complete _ = false |- _ => rewrite E end; reflexivity
         | ESbatch _ _ _ _ _ _ =>
           exists (sm, dn); split; [|fin05]; intros t; cbn [c05_from fst snd];
           rewrite Rc; match goal with E : complete _ = false |- _ => rewrite E end; reflexivity
         | _ => idtac
         end
       end.
Qed.

Theorem c05_accepted sc tr s : run sc tr = Some s -> c05_ok sc tr = true.
Proof.
  intros H. unfold c05_ok, run in *.
  apply (simulation sc (bool * bool) mon05 R05 (fun m => eq_refl) (c05_step sc) tr init s (false, false) H).
  split; [reflexivity|]. cbn. discriminate.
Qed.
