From Coq Require Import List ZArith NArith Bool Arith Lia.
(* System invariant, group 2: dependency order (C02).  Every queued / not-submitted job's
   configured blockers are covered by its remaining-blocker set plus the outcome rows written so far. *)
From Jade Require Import Base System SystemMonitors SystemProofs SystemInv.
Set Default Timeout 300.
Import ListNotations.
Open Scope N_scope.

(* ---------- group 2: order (C02) ---------- *)
Lemma row_eqb_eq a b : row_eqb a b = true -> a = b.
Proof.
  unfold row_eqb. destruct a, b; cbn. intros H. repeat (apply andb_true_iff in H; destruct H as [H ?]).
  apply N.eqb_eq in H. apply Z.eqb_eq in H1. apply Bool.eqb_prop in H0. subst. reflexivity.
Qed.
Lemma remove_row_incl r l : incl (remove_row r l) l.
Proof.
  unfold remove_row. induction l as [|x t IH]; [intros ? []|].
  destruct (row_eqb x r); [intros y Hy; right; exact Hy|].
  intros y [->|Hy]; [left; reflexivity|right; apply IH; exact Hy].
Qed.
Lemma remove_rows_incl rs l : incl (remove_rows rs l) l.
Proof.
  revert l. induction rs as [|r t IH]; intros l; cbn; [apply incl_refl|].
  eapply incl_tran; [apply IH|apply remove_row_incl].
Qed.
Lemma mem_row_In r l : mem_row r l = true -> In r l.
Proof.
  unfold mem_row. rewrite existsb_exists. intros (x & Hx & E). apply row_eqb_eq in E. subst. exact Hx.
Qed.
Lemma all_mem_rows_incl rs l : all_mem_rows rs l = true -> incl rs l.
Proof.
  revert l. induction rs as [|r t IH]; intros l; cbn; [intros _ ? []|].
  intros H. apply andb_true_iff in H. destruct H as [H1 H2].
  intros y [<-|Hy]; [apply mem_row_In; exact H1|]. apply (remove_row_incl r). apply IH; assumption.
Qed.
Lemma row_names_incl a b : incl a b -> incl (row_names a) (row_names b).
Proof. intros H x Hx. apply in_map_iff in Hx. destruct Hx as (r & <- & Hr). apply in_map. apply H. exact Hr. Qed.

Definition covered (sc : scenario) (j : N) (b : list N) (rs : list row) : Prop :=
  incl (deps sc j) (b ++ row_names rs).
Lemma covered_mono sc j b rs extra : covered sc j b rs -> covered sc j b (rs ++ extra).
Proof.
  unfold covered. intros H x Hx. specialize (H x Hx). rewrite row_names_app. rewrite in_app_iff in *.
  destruct H; [left|right; apply in_app_iff; left]; assumption.
Qed.
Lemma covered_shrink sc j b b' rs : covered sc j b rs ->
  (forall x, In x b -> In x b' \/ In x (row_names rs)) -> covered sc j b' rs.
Proof.
  unfold covered. intros H Hs x Hx. specialize (H x Hx). rewrite in_app_iff in *.
  destruct H as [H|H]; [destruct (Hs x H); auto|auto].
Qed.

Record Inv2 (sc : scenario) (s : state) : Prop := {
  j_pending_rows : incl (row_names (pending s)) (row_names (rows s));
  j_bl : created s = true -> forall j, In j (all_jobs sc) -> st s j = NS -> covered sc j (bl s j) (rows s);
  j_rbl : forall r j, holder s = Some r -> In j (all_jobs sc) -> r_st r j = NS -> covered sc j (r_bl r j) (rows s);
  j_hjobs : forall h j b, In h (hpc s) -> In (j, b) (h_jobs h) -> covered sc j b (rows s);
  j_nqueue : forall n j b, In n (nodes s) -> In (j, b) (n_queue n) -> covered sc j b (rows s)
}.
Lemma inv2_init sc : Inv2 sc init.
Proof. constructor; cbn; intros; try discriminate; try contradiction. apply incl_refl. Qed.

Section Group2.
Variable sc : scenario.
Variables (s s' : state) (e : event).
Hypothesis H : step sc s e = Some s'.
Hypothesis HI : Inv2 sc s.

Lemma q_pending_rows : incl (row_names (pending s')) (row_names (rows s')).
Proof.
  pose proof (j_pending_rows sc s HI) as O. revert H. intros H. prep e H. all: hlit. all: try basic.
  all: lazymatch goal with EV := ?x |- _ =>
         lazymatch x with
         | ECollect _ _ => eapply incl_tran; [apply row_names_incl; apply remove_rows_incl|exact O]
         | ESubCancel _ _ => rewrite row_names_app; apply incl_appl; exact O
         | EAppend _ _ => rewrite !row_names_app; apply incl_app; [apply incl_appl; exact O|apply incl_appr; apply incl_refl]
         end
       end.
Qed.

Lemma q_bl : created s' = true -> forall j, In j (all_jobs sc) -> st s' j = NS -> covered sc j (bl s' j) (rows s').
Proof.
  pose proof (j_bl sc s HI) as O. pose proof (j_rbl sc s HI) as R.
  revert H. intros H. prep e H. all: hlit. all: try basic.
  all: try (intros Hc ? Hj Hns; apply covered_mono; eauto; fail).
  all: lazymatch goal with EV := ?x |- _ =>
         lazymatch x with
         | ECreate _ => intros _ j _ _ y Hy; apply in_app_iff; left; exact Hy
         | EUpdate _ _ =>
           intros _ j Hj Hns;
           match goal with F : forallb (update_ok_job _ _) _ = true |- _ =>
             rewrite forallb_forall in F; specialize (F j Hj); apply update_ok_spec in F; destruct F as [F1 F2] end;
           destruct (in_dec N.eq_dec j (r_placed s0)) as [Hp|Hp];
           [destruct (F1 Hp) as [F _]; congruence|];
           specialize (F2 Hp); destruct (r_st s0 j) eqn:Est;
           [ destruct F2 as [_ F]; eapply covered_shrink; [apply (R j Hj Est)|]; intros y Hy; left; apply F; exact Hy
           | destruct F2 as [F _]; contradiction | destruct F2 as [F _]; congruence ]
         end
       end.
Qed.

Lemma q_rbl : forall r j, holder s' = Some r -> In j (all_jobs sc) -> r_st r j = NS -> covered sc j (r_bl r j) (rows s').
Proof.
  pose proof (j_bl sc s HI) as O. pose proof (j_rbl sc s HI) as R. pose proof (j_pending_rows sc s HI) as PR.
  revert H. intros H. prep e H. all: hlit. all: try basic.
  all: try (intros; apply covered_mono; eauto; fail).
  all: lazymatch goal with EV := ?x |- _ =>
         lazymatch x with
         | ECreate _ => intros _ _ y Hy; apply in_app_iff; left; exact Hy
         | ECollect _ ?rs =>
           intros Hj Hns; rewrite Hns; eapply covered_shrink; [apply (R j Hj Hns)|];
           intros y Hy; destruct (memN y (row_names rs)) eqn:Em;
           [ right; apply PR; apply memN_In in Em; revert Em; apply row_names_incl; apply all_mem_rows_incl; assumption
           | left; apply diffN_spec; split; [exact Hy|apply memN_false; exact Em] ]
         | ESubCancel _ ?j0 =>
           match goal with |- In ?jj _ -> _ =>
             intros Hj Hns; unfold upd in Hns |- *; destruct (N.eqb jj j0) eqn:Ej; [discriminate|];
             rewrite Hns; eapply covered_shrink; [apply covered_mono; apply (R jj Hj Hns)|];
             intros y Hy; destruct (N.eqb y j0) eqn:Ey;
             [ right; apply N.eqb_eq in Ey; subst y; rewrite row_names_app; apply in_app_iff; right; left; reflexivity
             | left; apply diffN_spec; split; [exact Hy|intros [E|[]]; subst; rewrite N.eqb_refl in Ey; discriminate] ]
           end
         | EUpdate _ _ =>
           intros Hj Hns;
           match goal with F : forallb (update_ok_job _ _) _ = true |- _ =>
             rewrite forallb_forall in F; specialize (F j Hj); apply update_ok_spec in F; destruct F as [F1 F2] end;
           destruct (in_dec N.eq_dec j (r_placed s0)) as [Hp|Hp];
           [destruct (F1 Hp) as [F _]; congruence|];
           specialize (F2 Hp); destruct (r_st s0 j) eqn:Est;
           [ destruct F2 as [_ F]; eapply covered_shrink; [apply (R j Hj Est)|]; intros y Hy; left; apply F; exact Hy
           | destruct F2 as [F _]; contradiction | destruct F2 as [F _]; congruence ]
         end
       end.
Qed.

Lemma q_hjobs : forall h j b, In h (hpc s') -> In (j, b) (h_jobs h) -> covered sc j b (rows s').
Proof.
  pose proof (j_hjobs sc s HI) as O. pose proof (j_rbl sc s HI) as R.
  revert H. intros H. prep e H. all: hlit. all: try basic.
  all: try (intros; apply covered_mono; eauto; fail).
  all: lazymatch goal with EV := ?x |- _ =>
         lazymatch x with
         | ESbatch _ _ _ _ _ _ =>
           intros hh j0 b0 Hh Hjb; apply in_app_iff in Hh; destruct Hh as [Hh|[<-|[]]]; [eauto|];
           cbn [h_jobs] in Hjb; vb; destruct (Vj _ _ Hjb) as (Vi & _ & Vns & _ & Veq & _);
           eapply covered_shrink; [apply (R j0 (is_job_all_jobs _ _ Vi) Vns)|]; intros y Hy; left; apply Veq; exact Hy
         | _ =>
           intros hh j0 b0 Hh Hjb; apply set_h_In in Hh; destruct Hh as (h1 & Hh1 & _ & Ej); rewrite Ej in Hjb; eauto
         end
       end.
Qed.

Lemma map_dead_In id l n' :
  In n' (map (fun n => if N.eqb (n_id n) id
                       then {| n_id := id; n_alive := false; n_queue := n_queue n; n_running := n_running n;
                               n_depth := n_depth n; n_setup := n_setup n; n_teardown := n_teardown n; n_started := n_started n |}
                       else n) l) ->
  exists n, In n l /\ n_queue n' = n_queue n /\ n_running n' = n_running n /\ n_depth n' = n_depth n.
Proof.
  rewrite in_map_iff. intros (n & E & Hin). exists n. split; [exact Hin|].
  destruct (N.eqb (n_id n) id); subst; cbn; auto.
Qed.

Lemma q_nqueue : forall n j b, In n (nodes s') -> In (j, b) (n_queue n) -> covered sc j b (rows s').
Proof.
  pose proof (j_nqueue sc s HI) as O. pose proof (j_hjobs sc s HI) as Hq.
  revert H. intros H. prep e H. all: hlit. all: try basic.
  all: try (intros; apply covered_mono; eauto; fail).
  all: try (match goal with F : find_n _ _ = Some _ |- _ => apply find_n_In in F; destruct F as [Fn Fid] end).
  all: lazymatch goal with EV := ?x |- _ =>
         lazymatch x with
         | EHook _ _ _ =>
           intros n' j0 b0 Hn Hq0; apply set_n_In in Hn; destruct Hn as [->|Hn]; [cbn [n_queue] in Hq0; try contradiction|]; eauto
         | EScancel _ _ =>
           intros n' j0 b0 Hn Hq0; apply map_dead_In in Hn; destruct Hn as (n1 & Hn1 & Eq & _); rewrite Eq in Hq0; eauto
         | EBatchEnd _ =>
           intros n' j0 b0 Hn Hq0; apply map_dead_In in Hn; destruct Hn as (n1 & Hn1 & Eq & _); rewrite Eq in Hq0; eauto
         | EBatchStart _ =>
           intros n' j0 b0 Hn Hq0; apply in_app_iff in Hn; destruct Hn as [Hn|[<-|[]]]; [eauto|];
           cbn [n_queue] in Hq0; match goal with F : find_h _ _ = Some _ |- _ => apply find_h_In in F; destruct F as [Fh _] end; eauto
         | ELaunch _ _ =>
           intros n' j0 b0 Hn Hq0; apply set_n_In in Hn; destruct Hn as [->|Hn]; [cbn [n_queue] in Hq0; apply filter_In in Hq0; destruct Hq0|]; eauto
         | EAppend _ _ =>
           intros n' j0 b0 Hn Hq0; apply covered_mono; apply set_n_In in Hn; destruct Hn as [->|Hn];
           [cbn [n_queue] in Hq0; try (apply filter_In in Hq0; destruct Hq0)|]; eauto
         | EUnblock _ ?jj ?d =>
           intros n' j0 b0 Hn Hq0; apply set_n_In in Hn; destruct Hn as [->|Hn]; [|eauto];
           cbn [n_queue] in Hq0; apply in_map_iff in Hq0; destruct Hq0 as ([j1 b1] & E1 & Hin1); cbn [fst snd] in E1;
           destruct (N.eqb j1 jj) eqn:Ej1;
           [ injection E1 as <- <-; apply N.eqb_eq in Ej1; subst j1;
             eapply covered_shrink; [eapply O; eauto|]; intros y Hy; destruct (N.eqb y d) eqn:Ey;
             [ right; apply N.eqb_eq in Ey; subst y; match goal with M : memN _ (row_names (rows s)) = true |- _ => apply memN_In in M; exact M end
             | left; apply filter_In; split; [exact Hy|rewrite Ey; reflexivity] ]
           | injection E1 as <- <-; eauto ]
         end
       end.
Qed.
End Group2.

Lemma inv2_step sc s e s' : step sc s e = Some s' -> Inv2 sc s -> Inv2 sc s'.
Proof.
  intros H HI. constructor.
  - eapply q_pending_rows; eauto.
  - eapply q_bl; eauto.
  - eapply q_rbl; eauto.
  - eapply q_hjobs; eauto.
  - eapply q_nqueue; eauto.
Qed.

(* ---------- C02 ---------- *)
Definition R02 (sc : scenario) (s : state) (seen : list N) : Prop := Inv2 sc s /\ seen = row_names (rows s).

Lemma c02_step sc s e s' seen : step sc s e = Some s' -> R02 sc s seen ->
  exists seen', (forall t, c02_from sc seen (e :: t) = c02_from sc seen' t) /\ R02 sc s' seen'.
Proof.
  intros H [HI Hs]. exists (seen ++ row_names (ev_rows e)).
  destruct (ghost_step _ _ _ _ H) as (_ & _ & _ & Hr).
  split; [|split; [eapply inv2_step; eauto|rewrite Hr, row_names_app, Hs; reflexivity]].
  intros t. cbn [c02_from].
  destruct e; try reflexivity.
  (* launch *)
  replace (subsetN (deps sc j) seen) with true; [reflexivity|]. symmetry. apply subsetN_spec.
  revert H. intros H. unfold step in H. cbv beta iota in H.
  destruct (find_n id (nodes s)) as [n|] eqn:En; [|discriminate].
  destruct (lookup j (n_queue n)) as [[|]|] eqn:El; try discriminate.
  apply find_n_In in En. destruct En as [En _]. apply lookup_In in El.
  pose proof (j_nqueue sc s HI n j [] En El) as C. unfold covered in C. cbn [app] in C.
  intros x Hx. rewrite Hs. apply C. exact Hx.
Qed.

Theorem c02_accepted sc tr s : run sc tr = Some s -> c02_ok sc tr = true.
Proof.
  intros H. unfold c02_ok, run in *.
  apply (simulation sc (list N) (c02_from sc) (R02 sc) (fun m => eq_refl) (c02_step sc) tr init s [] H).
  split; [apply inv2_init|reflexivity].
Qed.
