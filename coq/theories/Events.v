(* C20, events: model of jade/events.py (EventsSummary.__init__, _consolidate_events,
   _save_events_summary, _get_events/_load_event_file/list_events, get_dataframe) and of the node's
   event-file aggregation jade/jobs/job_runner.py::JobRunner._aggregate_events.  No proofs here.

   event = one line of a *events.log file = json of StructuredLogEvent.__dict__:
     e_name    the "name" field (dict key of EventsSummary._events, file name events/<name>.json)
     e_ts      the "timestamp" field: a STRING (str(datetime.now())); the sort key of
               `self._events[name].sort(key=lambda x: x.timestamp)` is this string, compared with
               Python's str `<` (lexicographic by code point)
     e_payload everything else (source, category, message, event_class, data): opaque to the code
   A file is the list of its lines; `files` is in the order Path(output).glob("*events.log") yields.

   Aliasing/mutation: EventsSummary._events is a dict name -> list filled in file order and sorted in
   place (list.sort is stable: modelled as insertion sort that puts an element before the first
   element that is not smaller); _save_events_summary pops the RESOURCE_STATS names from it after
   writing them as Parquet. *)
From Coq Require Import String Ascii List NArith Bool Arith.
From Jade Require Import Base.
From Jade.Gen Require Import ReportsGen.
Import ListNotations.
Open Scope string_scope.
Open Scope list_scope.

Record event := mkEvent { e_name : string; e_ts : string; e_payload : N }.

Definition event_eqb (a b : event) : bool :=
  String.eqb (e_name a) (e_name b) && String.eqb (e_ts a) (e_ts b) && N.eqb (e_payload a) (e_payload b).

(* Python: a < b on str *)
Fixpoint str_ltb (a b : string) : bool :=
  match a, b with
  | _, EmptyString => false
  | EmptyString, String _ _ => true
  | String x a', String y b' =>
    if (N_of_ascii x <? N_of_ascii y)%N then true
    else if (N_of_ascii y <? N_of_ascii x)%N then false
    else str_ltb a' b'
  end.

(* list.sort(key=timestamp): stable *)
Fixpoint insert (x : event) (l : list event) : list event :=
  match l with
  | [] => [x]
  | y :: r => if str_ltb (e_ts y) (e_ts x) then y :: insert x r else x :: y :: r
  end.
Fixpoint sort (l : list event) : list event :=
  match l with [] => [] | x :: r => insert x (sort r) end.

(* self._events[event.name].append(event) on a defaultdict(list): insertion-ordered dict *)
Definition groups := list (string * list event).
Fixpoint group_add (e : event) (g : groups) : groups :=
  match g with
  | [] => [(e_name e, [e])]
  | (n, es) :: r => if String.eqb n (e_name e) then (n, es ++ [e]) :: r else (n, es) :: group_add e r
  end.
Definition group_from (g0 : groups) (l : list event) : groups := fold_left (fun g e => group_add e g) l g0.
Definition group (l : list event) : groups := group_from [] l.

Definition find_group (n : string) (g : groups) : option (list event) :=
  option_map snd (find (fun p => String.eqb (fst p) n) g).
(* dict.get(name, []) *)
Definition lookup (n : string) (g : groups) : list event :=
  match find_group n g with Some es => es | None => [] end.

(* _consolidate_events *)
Definition consolidate (files : list (list event)) : groups :=
  map (fun p => (fst p, sort (snd p))) (group (concat files)).

(* ---- the events directory and an EventsSummary instance ---- *)
Definition is_resource (n : string) : bool := existsb (String.eqb n) resource_stats.

Record events_dir := mkDir { d_json : groups;        (* events/<name>.json    *)
                             d_parquet : groups }.   (* events/<name>.parquet (one row per event here) *)
Definition empty_dir : events_dir := mkDir [] [].
Definition dir_is_empty (d : events_dir) : bool :=
  match d_json d, d_parquet d with [], [] => true | _, _ => false end.

Record es_state := mkEs { es_mem : groups;          (* self._events *)
                          es_dir : events_dir }.

(* EventsSummary.__init__(output_dir) with preload=False:
     event_files = list(self._event_dir.iterdir())
     if not event_files: self._consolidate_events(); self._save_events_summary()
     else: "events have already been consolidated, load them on demand" *)
Definition es_init (d : events_dir) (files : list (list event)) : es_state :=
  if dir_is_empty d then
    let c := consolidate files in
    let js := filter (fun p => negb (is_resource (fst p))) c in
    mkEs js (mkDir js (filter (fun p => is_resource (fst p)) c))
  else mkEs [] d.

(* list_events(name) = list(self._get_events(name)); None = the exception
   "event <name> is only available in Parquet" *)
Definition list_events (n : string) (s : es_state) : option (list event) :=
  match find_group n (es_mem s) with
  | Some es => Some es
  | None => if is_resource n then None else Some (lookup n (d_json (es_dir s)))
  end.
(* get_dataframe(name): the rows of events/<name>.parquet (empty frame if the file is missing) *)
Definition dataframe_rows (n : string) (s : es_state) : list event := lookup n (d_parquet (es_dir s)).
(* what is stored for a name, wherever it is stored *)
Definition stored (n : string) (s : es_state) : list event :=
  if is_resource n then dataframe_rows n s else lookup n (d_json (es_dir s)).

(* ---- JobRunner._aggregate_events ----
   fs: the per-job files <output>/job-outputs/<job>/events.log (key = job name);
   for job in config.iter_jobs(): if the file exists, append its lines to the node's file, remove it *)
Fixpoint fs_get (k : string) (fs : groups) : option (list event) :=
  match fs with [] => None | (k', c) :: r => if String.eqb k k' then Some c else fs_get k r end.
Definition fs_remove (k : string) (fs : groups) : groups :=
  filter (fun p => negb (String.eqb k (fst p))) fs.
Fixpoint aggregate (jobs : list string) (node : list event) (fs : groups) : list event * groups :=
  match jobs with
  | [] => (node, fs)
  | j :: r => match fs_get j fs with
              | None => aggregate r node fs
              | Some c => aggregate r (node ++ c) (fs_remove j fs)
              end
  end.
Definition fs_events (fs : groups) : list event := concat (map snd fs).
