(* Proofs about the JobQueue model (Queue.v).  Contracts exported to C06 (depth bounds), C02
   (run only when unblocked; names leave blocking sets only on observed completion; run at most
   once) and C04 (node-level cancel fix-point). *)
From Coq Require Import List ZArith NArith Bool Arith Lia.
From Jade Require Import Base Queue.
Import ListNotations.
Open Scope Z_scope.

(* ------------------------------------------------------------------------------------------ *)
(* outstanding dictionary *)
Definition noparked (l : list entry) : Prop := Forall (fun e => e_parked e = false) l.

Lemma live_le_length l : (live l <= length l)%nat.
Proof.
  unfold live. induction l as [|e r IH]; cbn; [lia|].
  destruct (negb (e_parked e)); cbn; lia.
Qed.

Lemma live_noparked l : noparked l -> live l = length l.
Proof.
  unfold live. induction 1 as [|e r He Hr IH]; cbn; [reflexivity|].
  rewrite He. cbn. f_equal. exact IH.
Qed.

Lemma od_set_length e l : (length (od_set e l) <= S (length l))%nat.
Proof.
  induction l as [|x r IH]; cbn; [lia|].
  destruct (N.eqb (e_name x) (e_name e)); cbn; lia.
Qed.

Lemma od_set_noparked e l : e_parked e = false -> noparked l -> noparked (od_set e l).
Proof.
  intros He H. induction H as [|x r Hx Hr IH]; cbn.
  - constructor; [exact He|constructor].
  - destruct (N.eqb (e_name x) (e_name e)); constructor; auto.
Qed.

Lemma live_od_pop n l : (live (od_pop n l) <= live l)%nat.
Proof.
  unfold live, od_pop. induction l as [|x r IH]; cbn; [lia|].
  destruct (negb (N.eqb (e_name x) n)); cbn; destruct (negb (e_parked x)); cbn; lia.
Qed.

Lemma live_od_set_parked n l : (live (od_set (mk_entry n true) l) <= live l)%nat.
Proof.
  unfold live, mk_entry. induction l as [|x r IH]; cbn; [lia|].
  destruct (N.eqb (e_name x) n); cbn; destruct (negb (e_parked x)); cbn; lia.
Qed.

Lemma live_park canc : forall l, (live (fold_left park canc l) <= live l)%nat.
Proof.
  induction canc as [|x r IH]; intros l; cbn [fold_left]; [apply Nat.le_refl|].
  eapply Nat.le_trans; [apply IH|]. apply live_od_set_parked.
Qed.

Lemma pop_all_in names : forall l e,
  In e (fold_left (fun o n => od_pop n o) names l) -> In e l /\ ~ In (e_name e) names.
Proof.
  induction names as [|n r IH]; intros l e H; cbn in *; [tauto|].
  apply IH in H. destruct H as [H1 H2]. unfold od_pop in H1. apply filter_In in H1.
  destruct H1 as [H1 H3]. split; [exact H1|]. intros [E|H4]; [|tauto].
  subst n. rewrite N.eqb_refl in H3. discriminate.
Qed.

Lemma init_out_length existing : (length (q_out (init existing)) <= length existing)%nat.
Proof.
  unfold init. cbn.
  assert (G : forall l acc, (length (fold_left (fun acc n => od_set (mk_entry n false) acc) l acc)
                            <= length acc + length l)%nat).
  { induction l as [|n r IH]; intros acc; cbn; [lia|].
    eapply Nat.le_trans; [apply IH|]. pose proof (od_set_length (mk_entry n false) acc). lia. }
  specialize (G existing []). cbn in G. exact G.
Qed.

Lemma init_noparked existing : noparked (q_out (init existing)).
Proof.
  unfold init. cbn.
  assert (G : forall l acc, noparked acc ->
             noparked (fold_left (fun acc n => od_set (mk_entry n false) acc) l acc)).
  { induction l as [|n r IH]; intros acc H; cbn; [exact H|].
    apply IH. apply od_set_noparked; [reflexivity|exact H]. }
  apply G. constructor.
Qed.

(* ------------------------------------------------------------------------------------------ *)
(* events *)
Definition norun (e : ev) : Prop := match e with EvRun _ _ _ _ => False | _ => True end.

Lemma scan_parked out : forall ans e, In e out -> e_parked e = true ->
  In (e_name e) (map fst (fst (scan out ans))).
Proof.
  induction out as [|x r IH]; intros ans e Hin Hp; [destruct Hin|].
  cbn. destruct Hin as [E|Hin].
  - subst x. rewrite Hp. destruct (scan r ans) as [c a]. cbn. left. reflexivity.
  - destruct (e_parked x).
    + specialize (IH ans e Hin Hp). destruct (scan r ans) as [c a]. cbn in *. right. exact IH.
    + destruct ans as [|[rc|] ans'].
      * apply IH; assumption.
      * specialize (IH ans' e Hin Hp). destruct (scan r ans') as [c a]. cbn in *. right. exact IH.
      * apply IH; assumption.
Qed.

Lemma sweep_length name failed q : forall kept canc evs,
  sweep name failed q = (kept, canc, evs) -> (length kept + length canc = length q)%nat.
Proof.
  induction q as [|x r IH]; intros kept canc evs H; cbn in H.
  - inversion H; reflexivity.
  - destruct (sweep name failed r) as [[k c] e]. specialize (IH k c e eq_refl).
    destruct (must_cancel failed x); [|destruct (memN name (qj_block x))]; inversion H; subst; cbn; lia.
Qed.

Lemma sweep_norun name failed q : forall kept canc evs,
  sweep name failed q = (kept, canc, evs) -> Forall norun evs.
Proof.
  induction q as [|x r IH]; intros kept canc evs H; cbn in H.
  - inversion H; constructor.
  - destruct (sweep name failed r) as [[k c] e]. specialize (IH k c e eq_refl).
    destruct (must_cancel failed x); [|destruct (memN name (qj_block x))]; inversion H; subst;
      try constructor; cbn; auto.
Qed.

(* what one step inside _check_completions may do to the state *)
Definition inner_ok (s s' : qstate) : Prop :=
  (live (q_out s') <= live (q_out s))%nat /\
  q_err s' = q_err s /\
  exists evs, q_log s' = q_log s ++ evs /\ Forall norun evs.

Lemma inner_ok_refl s : inner_ok s s.
Proof.
  repeat split; [lia|]. exists []. rewrite app_nil_r. split; [reflexivity|constructor].
Qed.

Lemma inner_ok_trans a b c : inner_ok a b -> inner_ok b c -> inner_ok a c.
Proof.
  intros [L1 [E1 [ev1 [G1 F1]]]] [L2 [E2 [ev2 [G2 F2]]]]. repeat split; [lia|congruence|].
  exists (ev1 ++ ev2). rewrite G2, G1, app_assoc. split; [reflexivity|]. apply Forall_app. tauto.
Qed.

Lemma handle_one_facts failed s name s' c : handle_one failed s name = (s', c) ->
  inner_ok s s' /\
  (length (q_queued s') + (if c then 1 else 0) <= length (q_queued s))%nat /\
  (c = false -> q_out s' = od_pop name (q_out s)).
Proof.
  unfold handle_one. destruct (sweep name failed (q_queued s)) as [[kept canc] evs] eqn:Hs.
  intros H. inversion H; subst; clear H. cbn.
  pose proof (sweep_length _ _ _ _ _ _ Hs) as HL. pose proof (sweep_norun _ _ _ _ _ _ Hs) as HN.
  split; [|split].
  - repeat split; cbn.
    + eapply Nat.le_trans; [apply live_park|apply live_od_pop].
    + exists evs. split; [reflexivity|exact HN].
  - destruct canc; cbn in *; lia.
  - destruct canc; cbn; [reflexivity|discriminate].
Qed.

Lemma handle_all_facts failed names : forall s s' c, handle_all failed s names = (s', c) ->
  inner_ok s s' /\
  (length (q_queued s') + (if c then 1 else 0) <= length (q_queued s))%nat /\
  (c = false -> q_out s' = fold_left (fun o n => od_pop n o) names (q_out s)).
Proof.
  induction names as [|n r IH]; intros s s' c H; cbn in H.
  - inversion H; subst. split; [apply inner_ok_refl|]. split; [lia|reflexivity].
  - destruct (handle_one failed s n) as [s1 c1] eqn:H1.
    destruct (handle_all failed s1 r) as [s2 c2] eqn:H2. inversion H; subst; clear H.
    apply handle_one_facts in H1. destruct H1 as [A1 [B1 C1]].
    apply IH in H2. destruct H2 as [A2 [B2 C2]].
    split; [eapply inner_ok_trans; eassumption|]. split.
    + destruct c1, c2; cbn in *; lia.
    + intros Hc. apply orb_false_iff in Hc. destruct Hc as [-> ->]. cbn.
      rewrite C2, C1; reflexivity.
Qed.

Lemma check_iter_facts failed s ans s2 rerun failed' ans' :
  check_iter failed s ans = (s2, rerun, failed', ans') ->
  inner_ok s s2 /\
  (length (q_queued s2) + (if rerun then 1 else 0) <= length (q_queued s))%nat /\
  (rerun = false -> noparked (q_out s2)).
Proof.
  unfold check_iter. destruct (scan (q_out s) ans) as [comp a] eqn:Hs.
  match goal with |- context [handle_all ?f ?s1 ?n] => destruct (handle_all f s1 n) as [s2' r] eqn:Hh end.
  intros H. inversion H; subst; clear H.
  apply handle_all_facts in Hh. cbn in Hh. destruct Hh as [[L [E [evs [G F]]]] [B C]].
  split; [|split].
  - repeat split; [exact L|exact E|].
    exists (map (fun c => EvComplete (fst c) (snd c)) comp ++ evs). rewrite G, app_assoc.
    split; [reflexivity|]. apply Forall_app. split; [|exact F].
    apply Forall_forall. intros e He. apply in_map_iff in He. destruct He as [c [<- _]]. exact I.
  - exact B.
  - intros Hr. specialize (C Hr). rewrite C. apply Forall_forall. intros e He.
    apply pop_all_in in He. destruct He as [He1 He2].
    destruct (e_parked e) eqn:Hp; [|reflexivity]. exfalso. apply He2.
    pose proof (scan_parked (q_out s) ans e He1 Hp) as Hin. rewrite Hs in Hin. exact Hin.
Qed.

Lemma check_loop_facts : forall fuel failed s ans s' f' a',
  check_loop fuel failed s ans = (s', f', a') ->
  (length (q_queued s) < fuel)%nat ->
  inner_ok s s' /\ (length (q_queued s') <= length (q_queued s))%nat /\ noparked (q_out s').
Proof.
  induction fuel as [|f IH]; intros failed s ans s' f' a' H Hf; [lia|].
  cbn in H. destruct (check_iter failed s ans) as [[[s2 rerun] failed2] ans2] eqn:Hi.
  apply check_iter_facts in Hi. destruct Hi as [A [B C]].
  destruct rerun.
  - apply IH in H; [|lia]. destruct H as [A' [B' C']].
    split; [eapply inner_ok_trans; eassumption|]. split; [lia|exact C'].
  - inversion H; subst; clear H. split; [exact A|]. split; [lia|]. apply C. reflexivity.
Qed.

(* _check_completions: terminates within the fuel, leaves no parked cancel behind, never adds a
   running entry, starts nothing *)
Lemma check_completions_facts s ans s' f' a' :
  check_completions s ans = (s', f', a') ->
  inner_ok s s' /\ (length (q_queued s') <= length (q_queued s))%nat /\ noparked (q_out s').
Proof. intros H. eapply check_loop_facts; [exact H|lia]. Qed.

Lemma check_completions_out_length s ans s' f' a' :
  check_completions s ans = (s', f', a') -> noparked (q_out s) ->
  (length (q_out s') <= length (q_out s))%nat.
Proof.
  intros H Hn. apply check_completions_facts in H. destruct H as [[L _] [_ N']].
  rewrite <- (live_noparked _ N'), <- (live_noparked _ Hn). exact L.
Qed.

(* ------------------------------------------------------------------------------------------ *)
(* C06: the depth bound *)
Definition ev_live_ok (depth : Z) (e : ev) : Prop :=
  match e with EvRun _ _ _ n => Z.of_nat n <= depth | _ => True end.

Lemma norun_live_ok depth evs : Forall norun evs -> Forall (ev_live_ok depth) evs.
Proof.
  intros H. eapply Forall_impl; [|exact H]. intros e He. destruct e; cbn in *; tauto.
Qed.

Record inv (depth : Z) (s : qstate) : Prop := {
  inv_noparked : noparked (q_out s);
  inv_len : Z.of_nat (length (q_out s)) <= depth;
  inv_log : Forall (ev_live_ok depth) (q_log s);
  inv_err : q_err s = false
}.

Lemma run_job_inv depth s x ok :
  noparked (q_out s) -> Z.of_nat (length (q_out s)) + 1 <= depth ->
  Forall (ev_live_ok depth) (q_log s) ->
  let s1 := run_job s x ok in
  noparked (q_out s1) /\ Z.of_nat (length (q_out s1)) <= Z.of_nat (length (q_out s)) + 1 /\
  Forall (ev_live_ok depth) (q_log s1) /\ q_err s1 = q_err s /\ q_queued s1 = q_queued s.
Proof.
  intros Hn Hl Hg. unfold run_job. destruct ok; cbn.
  - pose proof (od_set_length (mk_entry (qname x) false) (q_out s)) as HL.
    assert (Hn' : noparked (od_set (mk_entry (qname x) false) (q_out s)))
      by (apply od_set_noparked; [reflexivity|exact Hn]).
    repeat split; [exact Hn'|lia|].
    apply Forall_app. split; [exact Hg|]. constructor; [|constructor]. cbn.
      rewrite (live_noparked _ Hn'). lia.
  - repeat split; [exact Hn|lia|].
    apply Forall_app. split; [exact Hg|]. constructor; [|constructor]. cbn.
    pose proof (live_le_length (q_out s)). lia.
Qed.

Lemma launch_inv depth avail q : forall count s runs s' rest runs',
  launch avail q count s runs = (s', rest, runs') ->
  0 <= count < avail ->
  noparked (q_out s) -> Z.of_nat (length (q_out s)) + (avail - count) <= depth ->
  Forall (ev_live_ok depth) (q_log s) ->
  noparked (q_out s') /\ Z.of_nat (length (q_out s')) <= depth /\
  Forall (ev_live_ok depth) (q_log s') /\ q_err s' = q_err s.
Proof.
  induction q as [|x r IH]; intros count s runs s' rest runs' H Hc Hn Hl Hg; cbn in H.
  - inversion H; subst. repeat split; [exact Hn|lia|exact Hg].
  - destruct (negb (is_nil (qj_block x))).
    + destruct (launch avail r count s runs) as [[s0 rest0] runs0] eqn:Hr.
      inversion H; subst; clear H. eapply IH; eassumption.
    + destruct (pop_run runs) as [ok runs1].
      pose proof (run_job_inv depth s x ok Hn ltac:(lia) Hg) as [A [B [C [D _]]]].
      destruct (count + 1 >=? avail) eqn:Hge.
      * inversion H; subst; clear H. repeat split; [exact A|lia|exact C|exact D].
      * rewrite Z.geb_leb in Hge. apply Z.leb_gt in Hge.
        eapply IH in H; [|lia|exact A|lia|exact C].
        destruct H as [A' [B' [C' D']]]. repeat split; [exact A'|exact B'|exact C'|congruence].
Qed.

Lemma process_queue_inv depth s ans runs : inv depth s -> inv depth (process_queue depth s ans runs).
Proof.
  intros [Hn Hl Hg He]. unfold process_queue.
  destruct (check_completions s ans) as [[s1 f1] a1] eqn:Hc.
  pose proof (check_completions_out_length _ _ _ _ _ Hc Hn) as HL.
  apply check_completions_facts in Hc. destruct Hc as [[_ [E1 [evs [G1 F1]]]] [_ N1]].
  assert (I1 : inv depth s1).
  { constructor; [exact N1|lia| |congruence].
    rewrite G1. apply Forall_app. split; [exact Hg|apply norun_live_ok; exact F1]. }
  destruct (is_nil (q_queued s1)); [exact I1|].
  destruct (depth - Z.of_nat (length (q_out s1)) =? 0) eqn:Ha; [exact I1|].
  apply Z.eqb_neq in Ha.
  destruct (launch _ (q_queued s1) 0 s1 runs) as [[s2 rest] runs2] eqn:Hla.
  destruct I1 as [N1' L1' G1' E1'].
  eapply (launch_inv depth) in Hla; [|lia|exact N1'|lia|exact G1'].
  destruct Hla as [A [B [C D]]]. constructor; cbn; [exact A|exact B|exact C|congruence].
Qed.

Lemma submit_inv depth s j ok : inv depth s -> inv depth (submit depth s j ok).
Proof.
  intros [Hn Hl Hg He]. unfold submit, is_full.
  destruct (Z.of_nat (length (q_out s)) >=? depth) eqn:Hf.
  - constructor; cbn; assumption.
  - destruct (negb (is_nil (j_block j))).
    + constructor; cbn; assumption.
    + rewrite Z.geb_leb in Hf. apply Z.leb_gt in Hf.
      pose proof (run_job_inv depth s {| qj_job := j; qj_block := j_block j |} ok Hn ltac:(lia) Hg)
        as [A [B [C [D _]]]].
      constructor; [exact A|lia|exact C|congruence].
Qed.

Lemma step_inv depth s o : inv depth s -> inv depth (step depth s o).
Proof.
  intros H. destruct o as [j ok|j ok|ans runs]; cbn.
  - apply submit_inv; exact H.
  - destruct (is_full depth s); [exact H|apply submit_inv; exact H].
  - apply process_queue_inv; exact H.
Qed.

Lemma run_ops_inv depth ops : forall s, inv depth s -> inv depth (run_ops depth s ops).
Proof.
  unfold run_ops. induction ops as [|o r IH]; intros s H; cbn; [exact H|].
  apply IH. apply step_inv. exact H.
Qed.

Lemma init_inv depth existing :
  Z.of_nat (length (q_out (init existing))) <= depth -> inv depth (init existing).
Proof.
  intros H. constructor; [apply init_noparked|exact H|constructor|reflexivity].
Qed.

(* In every state reachable by ANY sequence of submit / guarded submit / process_queue calls, with
   any completion answers and run() results: no canceled entry is left in the outstanding
   dictionary, at most `depth` entries are outstanding, every run() call left at most `depth`
   running entries, and the need_to_rerun loop never ran out of fuel. *)
Theorem queue_depth_bound : forall depth existing ops,
  Z.of_nat (length (q_out (init existing))) <= depth ->
  let s := run_ops depth (init existing) ops in
  noparked (q_out s) /\
  Z.of_nat (length (q_out s)) <= depth /\
  (forall j blk ok n, In (EvRun j blk ok n) (q_log s) -> Z.of_nat n <= depth) /\
  q_err s = false.
Proof.
  intros depth existing ops H s.
  destruct (run_ops_inv depth ops _ (init_inv depth existing H)) as [A B C D].
  repeat split; [exact A|exact B| |exact D].
  intros j blk ok n Hin. rewrite Forall_forall in C. exact (C _ Hin).
Qed.

Corollary queue_depth_bound_existing : forall depth existing ops,
  Z.of_nat (length existing) <= depth ->
  Z.of_nat (length (q_out (run_ops depth (init existing) ops))) <= depth.
Proof.
  intros depth existing ops H. apply queue_depth_bound.
  pose proof (init_out_length existing). lia.
Qed.

(* ------------------------------------------------------------------------------------------ *)
(* HPC usage: only process_queue and `if not is_full(): submit(unblocked job)`.  Also covers a queue
   constructed with MORE existing entries than its depth. *)
Definition guarded_op (o : op) : Prop :=
  match o with
  | OpSubmit _ _ => False
  | OpSubmitIfNotFull j _ => j_block j = []
  | OpProcess _ _ => True
  end.

Record inv2 (depth k : Z) (s : qstate) : Prop := {
  inv2_noparked : noparked (q_out s);
  inv2_queued : q_queued s = [];
  inv2_len : Z.of_nat (length (q_out s)) <= Z.max depth k;
  inv2_log : Forall (ev_live_ok depth) (q_log s);
  inv2_err : q_err s = false
}.

Lemma step_inv2 depth k s o : guarded_op o -> inv2 depth k s -> inv2 depth k (step depth s o).
Proof.
  intros Hg [Hn Hq Hl Hlog He]. destruct o as [j ok|j ok|ans runs]; cbn in *; [destruct Hg| |].
  - unfold is_full. destruct (Z.of_nat (length (q_out s)) >=? depth) eqn:Hf; [constructor; assumption|].
    unfold submit, is_full. rewrite Hf, Hg. cbn.
    rewrite Z.geb_leb in Hf. apply Z.leb_gt in Hf.
    pose proof (run_job_inv depth s {| qj_job := j; qj_block := [] |} ok Hn ltac:(lia) Hlog)
      as [A [B [C [D E]]]].
    constructor; [exact A|congruence|lia|exact C|congruence].
  - unfold process_queue. destruct (check_completions s ans) as [[s1 f1] a1] eqn:Hc.
    pose proof (check_completions_out_length _ _ _ _ _ Hc Hn) as HL.
    apply check_completions_facts in Hc. destruct Hc as [[_ [E1 [evs [G1 F1]]]] [Q1 N1]].
    rewrite Hq in Q1. cbn in Q1. destruct (q_queued s1) eqn:Hq1; [|cbn in Q1; lia]. cbn.
    constructor; [exact N1|exact Hq1|lia| |congruence].
    rewrite G1. apply Forall_app. split; [exact Hlog|apply norun_live_ok; exact F1].
Qed.

Lemma run_ops_inv2 depth k ops : forall s, Forall guarded_op ops -> inv2 depth k s ->
  inv2 depth k (run_ops depth s ops).
Proof.
  unfold run_ops. induction ops as [|o r IH]; intros s Hg H; cbn; [exact H|].
  inversion Hg; subst. apply IH; [assumption|]. apply step_inv2; assumption.
Qed.

Theorem queue_hpc_bound : forall depth existing ops,
  Forall guarded_op ops ->
  let k := Z.of_nat (length (q_out (init existing))) in
  let s := run_ops depth (init existing) ops in
  q_queued s = [] /\ noparked (q_out s) /\
  Z.of_nat (length (q_out s)) <= Z.max depth k /\
  (forall j blk ok n, In (EvRun j blk ok n) (q_log s) -> Z.of_nat n <= depth) /\
  q_err s = false.
Proof.
  intros depth existing ops Hg k s.
  assert (I0 : inv2 depth k (init existing)).
  { constructor; [apply init_noparked|reflexivity|unfold k; lia|constructor|reflexivity]. }
  destruct (run_ops_inv2 depth k ops _ Hg I0) as [A B C D E].
  repeat split; [exact B|exact A|exact C| |exact E].
  intros j blk ok n Hin. rewrite Forall_forall in D. exact (D _ Hin).
Qed.

Lemma hpc_round_ops_guarded answers batches : Forall guarded_op (hpc_round_ops answers batches).
Proof.
  unfold hpc_round_ops. constructor; [exact I|].
  apply Forall_forall. intros o Ho. apply in_map_iff in Ho. destruct Ho as [b [<- _]]. reflexivity.
Qed.

(* ------------------------------------------------------------------------------------------ *)
(* C02 contracts: run only when unblocked and after every blocker was seen complete; a name leaves a
   blocking set only after that job was seen complete in _check_completions *)
Fixpoint cnames (log : list ev) : list N :=
  match log with
  | [] => []
  | EvComplete n _ :: r => n :: cnames r
  | _ :: r => cnames r
  end.

Lemma cnames_app a b : cnames (a ++ b) = cnames a ++ cnames b.
Proof. induction a as [|e r IH]; cbn; [reflexivity|]. destruct e; cbn; rewrite IH; reflexivity. Qed.

Lemma cnames_In n log : In n (cnames log) <-> exists rc, In (EvComplete n rc) log.
Proof.
  induction log as [|e r IH]; cbn.
  - split; [intros []|intros [rc []]].
  - destruct e as [j b o l|m rc|j b|a b]; cbn; rewrite IH; split.
    + intros [rc H]; exists rc; right; exact H.
    + intros [rc [H|H]]; [discriminate|exists rc; exact H].
    + intros [E|[rc' H]]; [subst; exists rc; left; reflexivity|exists rc'; right; exact H].
    + intros [rc' [H|H]]; [inversion H; left; reflexivity|right; exists rc'; exact H].
    + intros [rc H]; exists rc; right; exact H.
    + intros [rc [H|H]]; [discriminate|exists rc; exact H].
    + intros [rc H]; exists rc; right; exact H.
    + intros [rc [H|H]]; [discriminate|exists rc; exact H].
Qed.

Definition ev_just (seen : list N) (e : ev) : Prop :=
  match e with
  | EvRun j blk _ _ => blk = [] /\ forall b, In b (j_block j) -> In b seen
  | EvUnblock _ b => In b seen
  | _ => True
  end.

Definition justified (log : list ev) : Prop :=
  forall pre e post, log = pre ++ e :: post -> ev_just (cnames pre) e.

Lemma ev_just_mono seen seen' e : incl seen seen' -> ev_just seen e -> ev_just seen' e.
Proof. intros Hi. destruct e; cbn; auto. intros [H1 H2]. split; auto. Qed.

Lemma justified_app l1 l2 : justified l1 -> Forall (ev_just (cnames l1)) l2 -> justified (l1 ++ l2).
Proof.
  intros H1 H2 pre e post Heq. apply app_eq_app in Heq. destruct Heq as [l [[E1 E2]|[E1 E2]]].
  - destruct l as [|e' l'].
    + cbn in E2. rewrite app_nil_r in E1. subst pre. rewrite Forall_forall in H2.
      apply H2. rewrite <- E2. left. reflexivity.
    + cbn in E2. inversion E2; subst e' post. apply (H1 pre e l'). exact E1.
  - subst pre. rewrite Forall_forall in H2. eapply ev_just_mono; [|apply H2; rewrite E2; apply in_elt].
    rewrite cnames_app. apply incl_appl. apply incl_refl.
Qed.

(* a queued job: its current blocking set is a subset of the submitted one, and every name that
   left it has been seen complete *)
Definition qok (seen : list N) (x : qjob) : Prop :=
  incl (qj_block x) (j_block (qj_job x)) /\
  forall b, In b (j_block (qj_job x)) -> In b (qj_block x) \/ In b seen.

Lemma qok_mono seen seen' x : incl seen seen' -> qok seen x -> qok seen' x.
Proof. intros Hi [A B]. split; [exact A|]. intros b Hb. destruct (B b Hb); auto. Qed.

Lemma removeN_In n l x : In x (removeN n l) <-> In x l /\ x <> n.
Proof.
  unfold removeN. rewrite filter_In, negb_true_iff, N.eqb_neq. tauto.
Qed.

Lemma sweep_just name failed seen q : forall kept canc evs,
  sweep name failed q = (kept, canc, evs) -> In name seen ->
  (forall x, In x q -> qok seen x) ->
  Forall (ev_just seen) evs /\ (forall x, In x kept -> qok seen x).
Proof.
  induction q as [|x r IH]; intros kept canc evs H Hs Hq; cbn in H.
  - inversion H; subst. split; [constructor|intros x []].
  - destruct (sweep name failed r) as [[k c] e].
    destruct (IH k c e eq_refl Hs (fun y Hy => Hq y (or_intror Hy))) as [A B].
    destruct (must_cancel failed x); [|destruct (memN name (qj_block x)) eqn:Hm]; inversion H; subst; clear H.
    + split; [constructor; [exact I|exact A]|exact B].
    + split; [constructor; [exact Hs|exact A]|].
      intros y [<-|Hy]; [|apply B; exact Hy].
      destruct (Hq x (or_introl eq_refl)) as [Q1 Q2]. split; cbn.
      * intros b Hb. apply removeN_In in Hb. apply Q1. tauto.
      * intros b Hb. destruct (N.eq_dec b name) as [->|Hne]; [right; exact Hs|].
        destruct (Q2 b Hb) as [H1|H1]; [left; apply removeN_In; tauto|right; exact H1].
    + split; [exact A|]. intros y [<-|Hy]; [apply Hq; left; reflexivity|apply B; exact Hy].
Qed.

Definition jinv (s : qstate) : Prop :=
  justified (q_log s) /\ forall x, In x (q_queued s) -> qok (cnames (q_log s)) x.

Lemma handle_one_jinv failed s name s' c : handle_one failed s name = (s', c) ->
  In name (cnames (q_log s)) -> jinv s -> jinv s' /\ incl (cnames (q_log s)) (cnames (q_log s')).
Proof.
  unfold handle_one. destruct (sweep name failed (q_queued s)) as [[kept canc] evs] eqn:Hs.
  intros H Hn [J Q]. inversion H; subst; clear H. cbn.
  destruct (sweep_just _ _ _ _ _ _ _ Hs Hn Q) as [A B].
  assert (Hi : incl (cnames (q_log s)) (cnames (q_log s ++ evs)))
    by (rewrite cnames_app; apply incl_appl; apply incl_refl).
  split; [|exact Hi]. split; cbn.
  - apply justified_app; assumption.
  - intros x Hx. eapply qok_mono; [exact Hi|apply B; exact Hx].
Qed.

Lemma handle_all_jinv failed names : forall s s' c, handle_all failed s names = (s', c) ->
  (forall n, In n names -> In n (cnames (q_log s))) -> jinv s ->
  jinv s' /\ incl (cnames (q_log s)) (cnames (q_log s')).
Proof.
  induction names as [|n r IH]; intros s s' c H Hn J; cbn in H.
  - inversion H; subst. split; [exact J|apply incl_refl].
  - destruct (handle_one failed s n) as [s1 c1] eqn:H1.
    destruct (handle_all failed s1 r) as [s2 c2] eqn:H2. inversion H; subst; clear H.
    destruct (handle_one_jinv _ _ _ _ _ H1 (Hn n (or_introl eq_refl)) J) as [J1 I1].
    destruct (IH _ _ _ H2 (fun m Hm => I1 _ (Hn m (or_intror Hm))) J1) as [J2 I2].
    split; [exact J2|]. eapply incl_tran; eassumption.
Qed.

Lemma cnames_completes comp : cnames (map (fun c : N * Z => EvComplete (fst c) (snd c)) comp) = map fst comp.
Proof. induction comp as [|c r IH]; cbn; [reflexivity|]. rewrite IH. reflexivity. Qed.

Lemma check_iter_jinv failed s ans s2 rerun failed' ans' :
  check_iter failed s ans = (s2, rerun, failed', ans') -> jinv s -> jinv s2.
Proof.
  unfold check_iter. destruct (scan (q_out s) ans) as [comp a] eqn:Hs.
  match goal with |- context [handle_all ?f ?s1 ?n] => destruct (handle_all f s1 n) as [s2' r] eqn:Hh end.
  intros H [J Q]. inversion H; subst; clear H.
  eapply handle_all_jinv in Hh; [exact (proj1 Hh)| |]; cbn.
  - intros n Hn. rewrite cnames_app, cnames_completes. apply in_or_app. right. exact Hn.
  - split; cbn.
    + apply justified_app; [exact J|]. apply Forall_forall. intros e He.
      apply in_map_iff in He. destruct He as [c [<- _]]. exact I.
    + intros x Hx. eapply qok_mono; [|apply Q; exact Hx].
      rewrite cnames_app. apply incl_appl. apply incl_refl.
Qed.

Lemma check_loop_jinv : forall fuel failed s ans s' f' a',
  check_loop fuel failed s ans = (s', f', a') -> jinv s -> jinv s'.
Proof.
  induction fuel as [|f IH]; intros failed s ans s' f' a' H J; cbn in H.
  - inversion H; subst. exact J.
  - destruct (check_iter failed s ans) as [[[s2 rerun] failed2] ans2] eqn:Hi.
    apply check_iter_jinv in Hi; [|exact J]. destruct rerun.
    + eapply IH; eassumption.
    + inversion H; subst. exact Hi.
Qed.

Lemma run_job_jinv s x ok :
  justified (q_log s) -> qj_block x = [] -> (forall b, In b (j_block (qj_job x)) -> In b (cnames (q_log s))) ->
  let s1 := run_job s x ok in
  justified (q_log s1) /\ q_queued s1 = q_queued s /\ incl (cnames (q_log s)) (cnames (q_log s1)).
Proof.
  intros J Hb Hd. unfold run_job. destruct ok; cbn.
  - split; [|split; [reflexivity|rewrite cnames_app; apply incl_appl; apply incl_refl]].
    apply justified_app; [exact J|]. constructor; [|constructor]. cbn. split; assumption.
  - split; [|split; [reflexivity|rewrite cnames_app; apply incl_appl; apply incl_refl]].
    apply justified_app; [exact J|]. constructor; [|constructor]. cbn. split; assumption.
Qed.

Lemma launch_jinv avail q : forall count s runs s' rest runs',
  launch avail q count s runs = (s', rest, runs') ->
  justified (q_log s) -> (forall x, In x q -> qok (cnames (q_log s)) x) ->
  justified (q_log s') /\ incl rest q /\ incl (cnames (q_log s)) (cnames (q_log s')) /\
  q_queued s' = q_queued s.
Proof.
  induction q as [|x r IH]; intros count s runs s' rest runs' H J Q; cbn in H.
  - inversion H; subst. repeat split; [exact J|apply incl_refl|apply incl_refl].
  - destruct (is_nil (qj_block x)) eqn:Hb; cbn in H.
    + destruct (pop_run runs) as [ok runs1].
      assert (Hb' : qj_block x = []) by (destruct (qj_block x); [reflexivity|discriminate]).
      destruct (Q x (or_introl eq_refl)) as [_ Q2].
      assert (Hd : forall b, In b (j_block (qj_job x)) -> In b (cnames (q_log s))).
      { intros b Hbb. destruct (Q2 b Hbb) as [H1|H1]; [rewrite Hb' in H1; destruct H1|exact H1]. }
      pose proof (run_job_jinv s x ok J Hb' Hd) as [J1 [E1 I1]].
      destruct (count + 1 >=? avail).
      * inversion H; subst; clear H. repeat split; [exact J1|apply incl_tl; apply incl_refl|exact I1|exact E1].
      * eapply IH in H; [|exact J1|].
        -- destruct H as [A [B [C D]]]. repeat split; [exact A|apply incl_tl; exact B| |congruence].
           eapply incl_tran; eassumption.
        -- intros y Hy. eapply qok_mono; [exact I1|]. apply Q. right. exact Hy.
    + destruct (launch avail r count s runs) as [[s0 rest0] runs0] eqn:Hr.
      inversion H; subst; clear H.
      eapply IH in Hr; [|exact J|intros y Hy; apply Q; right; exact Hy].
      destruct Hr as [A [B [C D]]]. repeat split; [exact A| |exact C|exact D].
      intros y [<-|Hy]; [left; reflexivity|right; apply B; exact Hy].
Qed.

Lemma process_queue_jinv depth s ans runs : jinv s -> jinv (process_queue depth s ans runs).
Proof.
  intros J. unfold process_queue.
  destruct (check_completions s ans) as [[s1 f1] a1] eqn:Hc.
  apply check_loop_jinv in Hc; [|exact J].
  destruct (is_nil (q_queued s1)); [exact Hc|].
  destruct (depth - Z.of_nat (length (q_out s1)) =? 0); [exact Hc|].
  destruct (launch _ (q_queued s1) 0 s1 runs) as [[s2 rest] runs2] eqn:Hla.
  destruct Hc as [J1 Q1]. eapply launch_jinv in Hla; [|exact J1|exact Q1].
  destruct Hla as [A [B [C D]]]. split; cbn; [exact A|].
  intros x Hx. eapply qok_mono; [exact C|]. apply Q1. apply B. exact Hx.
Qed.

Lemma submit_jinv depth s j ok : jinv s -> jinv (submit depth s j ok).
Proof.
  intros [J Q]. unfold submit.
  assert (Hq : forall x, In x (q_queued s ++ [{| qj_job := j; qj_block := j_block j |}]) ->
                         qok (cnames (q_log s)) x).
  { intros x Hx. apply in_app_or in Hx. destruct Hx as [Hx|[<-|[]]]; [apply Q; exact Hx|].
    split; cbn; [apply incl_refl|]. intros b Hb. left. exact Hb. }
  destruct (is_full depth s); [split; cbn; assumption|].
  destruct (is_nil (j_block j)) eqn:Hb; cbn; [|split; cbn; assumption].
  assert (Hb' : j_block j = []) by (destruct (j_block j); [reflexivity|discriminate]).
  pose proof (run_job_jinv s {| qj_job := j; qj_block := j_block j |} ok J Hb') as R. cbn in R.
  destruct R as [J1 [E1 I1]]; [rewrite Hb'; intros b []|].
  split; [exact J1|]. rewrite E1. intros x Hx. eapply qok_mono; [exact I1|]. apply Q. exact Hx.
Qed.

Lemma run_ops_jinv depth ops : forall s, jinv s -> jinv (run_ops depth s ops).
Proof.
  unfold run_ops. induction ops as [|o r IH]; intros s H; cbn; [exact H|].
  apply IH. destruct o as [j ok|j ok|ans runs]; cbn.
  - apply submit_jinv; exact H.
  - destruct (is_full depth s); [exact H|apply submit_jinv; exact H].
  - apply process_queue_jinv; exact H.
Qed.

Lemma init_jinv existing : jinv (init existing).
Proof.
  split; cbn; [|intros x []]. intros pre e post H. destruct pre; discriminate.
Qed.

Theorem queue_runs_only_unblocked : forall depth existing ops j blk ok n,
  In (EvRun j blk ok n) (q_log (run_ops depth (init existing) ops)) -> blk = [].
Proof.
  intros depth existing ops j blk ok n Hin.
  destruct (run_ops_jinv depth ops _ (init_jinv existing)) as [J _].
  apply in_split in Hin. destruct Hin as [pre [post E]]. exact (proj1 (J _ _ _ E)).
Qed.

Theorem queue_run_after_blockers : forall depth existing ops pre j blk ok n post,
  q_log (run_ops depth (init existing) ops) = pre ++ EvRun j blk ok n :: post ->
  forall b, In b (j_block j) -> exists rc, In (EvComplete b rc) pre.
Proof.
  intros depth existing ops pre j blk ok n post E b Hb.
  destruct (run_ops_jinv depth ops _ (init_jinv existing)) as [J _].
  apply cnames_In. exact (proj2 (J _ _ _ E) b Hb).
Qed.

Theorem queue_unblock_only_on_completion : forall depth existing ops,
  let s := run_ops depth (init existing) ops in
  (forall pre jn b post, q_log s = pre ++ EvUnblock jn b :: post -> exists rc, In (EvComplete b rc) pre) /\
  (forall x, In x (q_queued s) ->
     incl (qj_block x) (j_block (qj_job x)) /\
     forall b, In b (j_block (qj_job x)) -> In b (qj_block x) \/ exists rc, In (EvComplete b rc) (q_log s)).
Proof.
  intros depth existing ops s.
  destruct (run_ops_jinv depth ops _ (init_jinv existing)) as [J Q]. fold s in J, Q. split.
  - intros pre jn b post E. apply cnames_In. exact (J _ _ _ E).
  - intros x Hx. destruct (Q x Hx) as [A B]. split; [exact A|].
    intros b Hb. destruct (B b Hb) as [H|H]; [left; exact H|right; apply cnames_In; exact H].
Qed.

(* ------------------------------------------------------------------------------------------ *)
(* each submitted job is started (run() called) or canceled at most once, never both *)
Definition starts_of (n : N) (e : ev) : bool :=
  match e with
  | EvRun j _ _ _ => N.eqb (j_name j) n
  | EvCancel j _ => N.eqb (j_name j) n
  | _ => false
  end.
Definition nstarted (n : N) (log : list ev) : nat := length (filter (starts_of n) log).
Definition nqueued (n : N) (q : list qjob) : nat := length (filter (fun x => N.eqb (qname x) n) q).
Definition submits_of (n : N) (o : op) : bool :=
  match o with
  | OpSubmit j _ | OpSubmitIfNotFull j _ => N.eqb (j_name j) n
  | OpProcess _ _ => false
  end.
Definition nsubmits (n : N) (ops : list op) : nat := length (filter (submits_of n) ops).
Definition acct (n : N) (s : qstate) : nat := (nstarted n (q_log s) + nqueued n (q_queued s))%nat.
Arguments nstarted : simpl never.
Arguments nqueued : simpl never.

Lemma nstarted_app n a b : nstarted n (a ++ b) = (nstarted n a + nstarted n b)%nat.
Proof. unfold nstarted. rewrite filter_app, app_length. reflexivity. Qed.

Lemma sweep_acct n name failed q : forall kept canc evs,
  sweep name failed q = (kept, canc, evs) -> (nqueued n kept + nstarted n evs = nqueued n q)%nat.
Proof.
  unfold nqueued, nstarted.
  induction q as [|x r IH]; intros kept canc evs H; cbn in H.
  - inversion H; reflexivity.
  - destruct (sweep name failed r) as [[k c] e]. specialize (IH k c e eq_refl).
    destruct (must_cancel failed x); [|destruct (memN name (qj_block x))]; inversion H; subst; clear H; cbn;
      unfold qname in *; cbn; destruct (N.eqb (j_name (qj_job x)) n); cbn; lia.
Qed.

Lemma handle_one_acct n failed s name s' c : handle_one failed s name = (s', c) -> acct n s' = acct n s.
Proof.
  unfold handle_one, acct. destruct (sweep name failed (q_queued s)) as [[kept canc] evs] eqn:Hs.
  intros H. inversion H; subst; clear H. cbn [q_log q_queued]. rewrite nstarted_app.
  pose proof (sweep_acct n _ _ _ _ _ _ Hs). lia.
Qed.

Lemma handle_all_acct n failed names : forall s s' c, handle_all failed s names = (s', c) -> acct n s' = acct n s.
Proof.
  induction names as [|m r IH]; intros s s' c H; cbn in H.
  - inversion H; reflexivity.
  - destruct (handle_one failed s m) as [s1 c1] eqn:H1.
    destruct (handle_all failed s1 r) as [s2 c2] eqn:H2. inversion H; subst; clear H.
    rewrite (IH _ _ _ H2). eapply handle_one_acct; eassumption.
Qed.

Lemma nstarted_completes n comp : nstarted n (map (fun c : N * Z => EvComplete (fst c) (snd c)) comp) = 0%nat.
Proof. unfold nstarted. induction comp as [|c r IH]; cbn; [reflexivity|exact IH]. Qed.

Lemma check_iter_acct n failed s ans s2 rerun failed' ans' :
  check_iter failed s ans = (s2, rerun, failed', ans') -> acct n s2 = acct n s.
Proof.
  unfold check_iter. destruct (scan (q_out s) ans) as [comp a] eqn:Hs.
  match goal with |- context [handle_all ?f ?s1 ?m] => destruct (handle_all f s1 m) as [s2' r] eqn:Hh end.
  intros H. inversion H; subst; clear H. rewrite (handle_all_acct n _ _ _ _ _ Hh).
  unfold acct. cbn. rewrite nstarted_app, nstarted_completes. lia.
Qed.

Lemma check_loop_acct n : forall fuel failed s ans s' f' a',
  check_loop fuel failed s ans = (s', f', a') -> acct n s' = acct n s.
Proof.
  induction fuel as [|f IH]; intros failed s ans s' f' a' H; cbn in H.
  - inversion H; reflexivity.
  - destruct (check_iter failed s ans) as [[[s2 rerun] failed2] ans2] eqn:Hi.
    apply (check_iter_acct n) in Hi. destruct rerun.
    + rewrite (IH _ _ _ _ _ _ H). exact Hi.
    + inversion H; subst. exact Hi.
Qed.

Lemma run_job_acct n s x ok :
  nstarted n (q_log (run_job s x ok)) = (nstarted n (q_log s) + (if N.eqb (qname x) n then 1 else 0))%nat /\
  q_queued (run_job s x ok) = q_queued s.
Proof.
  unfold run_job. destruct ok; cbn; rewrite nstarted_app; unfold nstarted, qname; cbn;
    destruct (N.eqb (j_name (qj_job x)) n); cbn; split; reflexivity.
Qed.

Lemma launch_acct n avail q : forall count s runs s' rest runs',
  launch avail q count s runs = (s', rest, runs') ->
  (nstarted n (q_log s') + nqueued n rest = nstarted n (q_log s) + nqueued n q)%nat.
Proof.
  induction q as [|x r IH]; intros count s runs s' rest runs' H; cbn in H.
  - inversion H; reflexivity.
  - destruct (negb (is_nil (qj_block x))).
    + destruct (launch avail r count s runs) as [[s0 rest0] runs0] eqn:Hr.
      inversion H; subst; clear H. specialize (IH _ _ _ _ _ _ Hr).
      unfold nqueued in *. cbn. destruct (N.eqb (qname x) n); cbn; lia.
    + destruct (pop_run runs) as [ok runs1].
      destruct (run_job_acct n s x ok) as [A _].
      destruct (count + 1 >=? avail).
      * inversion H; subst; clear H. rewrite A. unfold nqueued. cbn. destruct (N.eqb (qname x) n); cbn; lia.
      * specialize (IH _ _ _ _ _ _ H). rewrite IH, A. unfold nqueued. cbn.
        destruct (N.eqb (qname x) n); cbn; lia.
Qed.

Lemma process_queue_acct n depth s ans runs : acct n (process_queue depth s ans runs) = acct n s.
Proof.
  unfold process_queue. destruct (check_completions s ans) as [[s1 f1] a1] eqn:Hc.
  apply (check_loop_acct n) in Hc.
  destruct (is_nil (q_queued s1)); [exact Hc|].
  destruct (depth - Z.of_nat (length (q_out s1)) =? 0); [exact Hc|].
  destruct (launch _ (q_queued s1) 0 s1 runs) as [[s2 rest] runs2] eqn:Hla.
  apply (launch_acct n) in Hla. unfold acct in *. cbn. lia.
Qed.

Lemma submit_acct n depth s j ok :
  acct n (submit depth s j ok) = (acct n s + (if N.eqb (j_name j) n then 1 else 0))%nat.
Proof.
  unfold submit, acct.
  assert (Hq : nqueued n (q_queued s ++ [{| qj_job := j; qj_block := j_block j |}]) =
               (nqueued n (q_queued s) + (if N.eqb (j_name j) n then 1 else 0))%nat).
  { unfold nqueued. rewrite filter_app, app_length. cbn. unfold qname. cbn.
    destruct (N.eqb (j_name j) n); reflexivity. }
  destruct (is_full depth s); [cbn; lia|].
  destruct (negb (is_nil (j_block j))); [cbn; lia|].
  destruct (run_job_acct n s {| qj_job := j; qj_block := j_block j |} ok) as [A B].
  rewrite A, B. unfold qname. cbn. lia.
Qed.

Lemma run_ops_acct n depth ops : forall s,
  (acct n (run_ops depth s ops) <= acct n s + nsubmits n ops)%nat.
Proof.
  unfold run_ops, nsubmits. induction ops as [|o r IH]; intros s; cbn; [lia|].
  eapply Nat.le_trans; [apply IH|].
  destruct o as [j ok|j ok|ans runs]; cbn.
  - rewrite submit_acct. destruct (N.eqb (j_name j) n); cbn; lia.
  - destruct (is_full depth s); [destruct (N.eqb (j_name j) n); cbn; lia|].
    rewrite submit_acct. destruct (N.eqb (j_name j) n); cbn; lia.
  - rewrite process_queue_acct. lia.
Qed.

(* for every name: #run() calls + #cancels of jobs with that name <= #submit calls with that name *)
Theorem queue_runs_once : forall depth existing ops n,
  (nstarted n (q_log (run_ops depth (init existing) ops)) <= nsubmits n ops)%nat.
Proof.
  intros depth existing ops n. pose proof (run_ops_acct n depth ops (init existing)) as H.
  unfold acct in H. change (nstarted n (q_log (init existing))) with 0%nat in H.
  change (nqueued n (q_queued (init existing))) with 0%nat in H. lia.
Qed.

(* ------------------------------------------------------------------------------------------ *)
(* C04 contract: the cancel fix-point of one _check_completions pass *)
Lemma must_cancel_true failed x : must_cancel failed x = true ->
  j_flag (qj_job x) = true /\ exists b, In b (qj_block x) /\ In b failed.
Proof.
  unfold must_cancel. intros H. apply andb_true_iff in H. destruct H as [H H3].
  apply andb_true_iff in H. destruct H as [_ H2]. split; [exact H2|].
  destruct (interN (qj_block x) failed) as [|b r] eqn:E; [discriminate|].
  exists b. apply interN_spec. rewrite E. left. reflexivity.
Qed.

Lemma must_cancel_false failed x : must_cancel failed x = false ->
  j_flag (qj_job x) = false \/ forall b, In b (qj_block x) -> ~ In b failed.
Proof.
  unfold must_cancel. intros H.
  destruct (j_flag (qj_job x)); [right|left; reflexivity].
  intros b Hb Hf.
  assert (Hin : In b (interN (qj_block x) failed)) by (apply interN_spec; tauto).
  destruct (qj_block x) as [|b0 r0]; [destruct Hb|].
  destruct (interN (b0 :: r0) failed); [destruct Hin|]. cbn in H. discriminate.
Qed.

Lemma must_cancel_shrink failed x blk : must_cancel failed x = false -> incl blk (qj_block x) ->
  must_cancel failed {| qj_job := qj_job x; qj_block := blk |} = false.
Proof.
  intros H Hi. apply must_cancel_false in H. unfold must_cancel. cbn [qj_job qj_block].
  destruct H as [H|H]; [rewrite H; destruct (is_nil blk); reflexivity|].
  destruct (interN blk failed) as [|b r] eqn:E; [destruct (is_nil blk), (j_flag (qj_job x)); reflexivity|].
  exfalso. assert (Hin : In b (interN blk failed)) by (rewrite E; left; reflexivity).
  apply interN_spec in Hin. destruct Hin as [H1 H2]. exact (H b (Hi _ H1) H2).
Qed.

Lemma must_cancel_nil x : must_cancel [] x = false.
Proof.
  unfold must_cancel. assert (E : interN (qj_block x) [] = []).
  { unfold interN. induction (qj_block x) as [|b r IH]; cbn; [reflexivity|exact IH]. }
  rewrite E. cbn. rewrite andb_false_r. reflexivity.
Qed.

Definition nocomplete (e : ev) : Prop := match e with EvComplete _ _ => False | _ => True end.
Definition descends (x' x : qjob) : Prop := qj_job x' = qj_job x /\ incl (qj_block x') (qj_block x).

(* what a stretch of one pass did, relative to the failed set before (f) and after (f') *)
Definition pass_rel (f : list N) (s : qstate) (f' : list N) (s' : qstate) : Prop :=
  exists evs, q_log s' = q_log s ++ evs /\
    (forall b, In b f' <-> In b f \/ exists rc, rc <> 0 /\ In (EvComplete b rc) evs) /\
    (forall j blk, In (EvCancel j blk) evs ->
       j_flag j = true /\ (exists b, In b blk /\ In b f') /\
       exists x, In x (q_queued s) /\ qj_job x = j /\ incl blk (qj_block x)) /\
    (forall x, In x (q_queued s) ->
       (exists blk, In (EvCancel (qj_job x) blk) evs) \/ (exists x', In x' (q_queued s') /\ descends x' x)) /\
    (forall x', In x' (q_queued s') -> exists x, In x (q_queued s) /\ descends x' x).

Lemma descends_refl x : descends x x.
Proof. split; [reflexivity|apply incl_refl]. Qed.
Lemma descends_trans a b c : descends a b -> descends b c -> descends a c.
Proof. intros [A1 A2] [B1 B2]. split; [congruence|eapply incl_tran; eassumption]. Qed.

Lemma pass_rel_refl f s : pass_rel f s f s.
Proof.
  exists []. rewrite app_nil_r. split; [reflexivity|]. split; [|split; [|split]].
  - intros b. split; [auto|]. intros [H|[rc [_ []]]]. exact H.
  - intros j blk [].
  - intros x Hx. right. exists x. split; [exact Hx|apply descends_refl].
  - intros x Hx. exists x. split; [exact Hx|apply descends_refl].
Qed.

Lemma pass_rel_trans f0 s0 f1 s1 f2 s2 : pass_rel f0 s0 f1 s1 -> pass_rel f1 s1 f2 s2 -> pass_rel f0 s0 f2 s2.
Proof.
  intros [e1 [L1 [F1 [C1 [P1 D1]]]]] [e2 [L2 [F2 [C2 [P2 D2]]]]].
  exists (e1 ++ e2). split; [rewrite L2, L1, app_assoc; reflexivity|]. split; [|split; [|split]].
  - intros b. rewrite F2, F1. split.
    + intros [[H|[rc [Hr H]]]|[rc [Hr H]]]; [left; exact H| |]; right; exists rc; split; auto;
        apply in_or_app; [left|right]; exact H.
    + intros [H|[rc [Hr H]]]; [left; left; exact H|]. apply in_app_or in H. destruct H as [H|H].
      * left. right. exists rc. split; assumption.
      * right. exists rc. split; assumption.
  - intros j blk H. apply in_app_or in H. destruct H as [H|H].
    + destruct (C1 j blk H) as [A [[b [B1 B2]] X]]. split; [exact A|]. split; [|exact X].
      exists b. split; [exact B1|]. apply F2. left. exact B2.
    + destruct (C2 j blk H) as [A [B [x1 [X1 [X2 X3]]]]]. split; [exact A|]. split; [exact B|].
      destruct (D1 x1 X1) as [x0 [Y1 [Y2 Y3]]]. exists x0. split; [exact Y1|]. split; [congruence|].
      eapply incl_tran; eassumption.
  - intros x Hx. destruct (P1 x Hx) as [[blk H]|[x1 [X1 X2]]].
    + left. exists blk. apply in_or_app. left. exact H.
    + destruct (P2 x1 X1) as [[blk H]|[x2 [Y1 Y2]]].
      * left. exists blk. destruct X2 as [E _]. rewrite <- E. apply in_or_app. right. exact H.
      * right. exists x2. split; [exact Y1|eapply descends_trans; eassumption].
  - intros x2 Hx. destruct (D2 x2 Hx) as [x1 [X1 X2]]. destruct (D1 x1 X1) as [x0 [Y1 Y2]].
    exists x0. split; [exact Y1|eapply descends_trans; eassumption].
Qed.

Lemma sweep_pass name failed q : forall kept canc evs,
  sweep name failed q = (kept, canc, evs) ->
  Forall nocomplete evs /\
  (forall j blk, In (EvCancel j blk) evs -> exists x, In x q /\ qj_job x = j /\ qj_block x = blk /\ must_cancel failed x = true) /\
  (forall x, In x q -> In (EvCancel (qj_job x) (qj_block x)) evs \/ exists x', In x' kept /\ descends x' x) /\
  (forall x', In x' kept -> must_cancel failed x' = false /\ exists x, In x q /\ descends x' x).
Proof.
  induction q as [|x r IH]; intros kept canc evs H; cbn in H.
  - inversion H; subst. split; [constructor|]. split; [intros j blk []|]. split; intros y [].
  - destruct (sweep name failed r) as [[k c] e]. destruct (IH k c e eq_refl) as [A [B [C D]]].
    destruct (must_cancel failed x) eqn:Hm; [|destruct (memN name (qj_block x)) eqn:Hn]; inversion H; subst; clear H.
    + split; [constructor; [exact I|exact A]|]. split; [|split].
      * intros j blk [E|Hin].
        -- inversion E; subst. exists x. repeat split; [left; reflexivity|exact Hm].
        -- destruct (B j blk Hin) as [y [Y1 Y2]]. exists y. split; [right; exact Y1|exact Y2].
      * intros y [<-|Hy]; [left; left; reflexivity|].
        destruct (C y Hy) as [H1|[y' [H1 H2]]]; [left; right; exact H1|right; exists y'; tauto].
      * intros y Hy. destruct (D y Hy) as [D1 [z [Z1 Z2]]]. split; [exact D1|]. exists z. split; [right; exact Z1|exact Z2].
    + set (x1 := {| qj_job := qj_job x; qj_block := removeN name (qj_block x) |}).
      assert (Hd : descends x1 x).
      { split; [reflexivity|]. cbn. intros b Hb. apply removeN_In in Hb. tauto. }
      split; [constructor; [exact I|exact A]|]. split; [|split].
      * intros j blk [E|Hin]; [discriminate|].
        destruct (B j blk Hin) as [y [Y1 Y2]]. exists y. split; [right; exact Y1|exact Y2].
      * intros y [<-|Hy]; [right; exists x1; split; [left; reflexivity|exact Hd]|].
        destruct (C y Hy) as [H1|[y' [H1 H2]]]; [left; right; exact H1|right; exists y'; split; [right; exact H1|exact H2]].
      * intros y [<-|Hy].
        -- split; [apply must_cancel_shrink; [exact Hm|exact (proj2 Hd)]|]. exists x. split; [left; reflexivity|exact Hd].
        -- destruct (D y Hy) as [D1 [z [Z1 Z2]]]. split; [exact D1|]. exists z. split; [right; exact Z1|exact Z2].
    + split; [exact A|]. split; [|split].
      * intros j blk Hin. destruct (B j blk Hin) as [y [Y1 Y2]]. exists y. split; [right; exact Y1|exact Y2].
      * intros y [<-|Hy]; [right; exists x; split; [left; reflexivity|apply descends_refl]|].
        destruct (C y Hy) as [H1|[y' [H1 H2]]]; [left; exact H1|right; exists y'; split; [right; exact H1|exact H2]].
      * intros y [<-|Hy].
        -- split; [exact Hm|]. exists x. split; [left; reflexivity|apply descends_refl].
        -- destruct (D y Hy) as [D1 [z [Z1 Z2]]]. split; [exact D1|]. exists z. split; [right; exact Z1|exact Z2].
Qed.

Definition all_kept_ok (f : list N) (s : qstate) : Prop := forall x, In x (q_queued s) -> must_cancel f x = false.

Lemma handle_one_pass failed s name s' c : handle_one failed s name = (s', c) ->
  pass_rel failed s failed s' /\ all_kept_ok failed s'.
Proof.
  unfold handle_one. destruct (sweep name failed (q_queued s)) as [[kept canc] evs] eqn:Hs.
  intros H. inversion H; subst; clear H.
  destruct (sweep_pass _ _ _ _ _ _ Hs) as [A [B [C D]]]. split.
  - exists evs. cbn. split; [reflexivity|]. split; [|split; [|split]].
    + intros b. split; [auto|]. intros [H|[rc [_ H]]]; [exact H|].
      rewrite Forall_forall in A. destruct (A _ H).
    + intros j blk Hin. destruct (B j blk Hin) as [x [X1 [X2 [X3 X4]]]].
      apply must_cancel_true in X4. destruct X4 as [F1 [b [F2 F3]]].
      split; [congruence|]. split; [exists b; split; [congruence|exact F3]|].
      exists x. split; [exact X1|]. split; [exact X2|]. rewrite X3. apply incl_refl.
    + intros x Hx. destruct (C x Hx) as [H|H]; [left; exists (qj_block x); exact H|right; exact H].
    + intros x' Hx. exact (proj2 (D x' Hx)).
  - intros x Hx. cbn in Hx. exact (proj1 (D x Hx)).
Qed.

Lemma handle_all_pass failed names : forall s s' c, handle_all failed s names = (s', c) ->
  pass_rel failed s failed s' /\ (names <> [] \/ all_kept_ok failed s -> all_kept_ok failed s').
Proof.
  induction names as [|n r IH]; intros s s' c H; cbn in H.
  - inversion H; subst. split; [apply pass_rel_refl|]. intros [H1|H1]; [congruence|exact H1].
  - destruct (handle_one failed s n) as [s1 c1] eqn:H1.
    destruct (handle_all failed s1 r) as [s2 c2] eqn:H2. inversion H; subst; clear H.
    apply handle_one_pass in H1. destruct H1 as [P1 K1].
    apply IH in H2. destruct H2 as [P2 K2].
    split; [eapply pass_rel_trans; eassumption|]. intros _. apply K2. right. exact K1.
Qed.

Lemma failed_of_In b comp : In b (failed_of comp) <-> exists rc, rc <> 0 /\ In (b, rc) comp.
Proof.
  unfold failed_of. rewrite in_map_iff. split.
  - intros [[b' rc] [E H]]. cbn in E. subst b'. apply filter_In in H. destruct H as [H1 H2].
    cbn in H2. apply negb_true_iff in H2. apply Z.eqb_neq in H2. exists rc. split; assumption.
  - intros [rc [Hr H]]. exists (b, rc). split; [reflexivity|]. apply filter_In. split; [exact H|].
    cbn. apply negb_true_iff. apply Z.eqb_neq. exact Hr.
Qed.

Lemma check_iter_pass failed s ans s2 rerun failed' ans' :
  check_iter failed s ans = (s2, rerun, failed', ans') ->
  pass_rel failed s failed' s2 /\ (all_kept_ok failed s -> all_kept_ok failed' s2).
Proof.
  unfold check_iter. destruct (scan (q_out s) ans) as [comp a] eqn:Hs.
  match goal with |- context [handle_all ?f ?s1 ?n] => destruct (handle_all f s1 n) as [s2' r] eqn:Hh end.
  intros H. inversion H; subst; clear H.
  apply handle_all_pass in Hh. destruct Hh as [P K]. split.
  - eapply pass_rel_trans; [|exact P].
    exists (map (fun c => EvComplete (fst c) (snd c)) comp). cbn. split; [reflexivity|]. split; [|split; [|split]].
    + intros b. rewrite in_app_iff, failed_of_In. split.
      * intros [H|[rc [Hr H]]]; [left; exact H|right]. exists rc. split; [exact Hr|].
        apply in_map_iff. exists (b, rc). split; [reflexivity|exact H].
      * intros [H|[rc [Hr H]]]; [left; exact H|right]. exists rc. split; [exact Hr|].
        apply in_map_iff in H. destruct H as [[b' rc'] [E H]]. cbn in E. inversion E; subst. exact H.
    + intros j blk H. apply in_map_iff in H. destruct H as [c [E _]]. discriminate.
    + intros x Hx. right. exists x. split; [exact Hx|apply descends_refl].
    + intros x Hx. exists x. split; [exact Hx|apply descends_refl].
  - intros K0. apply K. destruct comp as [|c0 cr]; [right|left; discriminate].
    cbn. rewrite app_nil_r. exact K0.
Qed.

Lemma check_loop_pass : forall fuel failed s ans s' f' a',
  check_loop fuel failed s ans = (s', f', a') ->
  pass_rel failed s f' s' /\ (all_kept_ok failed s -> q_err s' = q_err s -> all_kept_ok f' s').
Proof.
  induction fuel as [|f IH]; intros failed s ans s' f' a' H; cbn in H.
  - inversion H; subst. split; [|intros K _; exact K].
    destruct (pass_rel_refl f' s) as [evs R]. exists evs. exact R.
  - destruct (check_iter failed s ans) as [[[s2 rerun] failed2] ans2] eqn:Hi.
    pose proof (check_iter_facts _ _ _ _ _ _ _ Hi) as [[_ [E2 _]] _].
    apply check_iter_pass in Hi. destruct Hi as [P K]. destruct rerun.
    + apply IH in H. destruct H as [P' K']. split; [eapply pass_rel_trans; eassumption|].
      intros K0 He. apply K'; [apply K; exact K0|congruence].
    + inversion H; subst. split; [exact P|]. intros K0 _. apply K. exact K0.
Qed.

(* One pass of _check_completions (any state, any answers).  F = the pass's failed_jobs set:
   - F is exactly the set of names seen complete with a non-zero return code in this pass (a job
     canceled in this pass is parked and seen complete with cancel_rc in the next iteration);
   - a job is canceled only if it is flagged and one of its current blockers is in F  (unflagged
     jobs are never canceled);
   - every job queued before the pass was either canceled or is still queued with a blocking set
     that only shrank, and no job still queued is flagged with a current blocker in F. *)
Theorem check_completions_cancels_iff : forall s ans s' F rest,
  check_completions s ans = (s', F, rest) ->
  exists evs, q_log s' = q_log s ++ evs /\
    (forall b, In b F <-> exists rc, rc <> 0 /\ In (EvComplete b rc) evs) /\
    (forall j blk, In (EvCancel j blk) evs ->
       j_flag j = true /\ (exists b, In b blk /\ In b F) /\
       exists x, In x (q_queued s) /\ qj_job x = j /\ incl blk (qj_block x)) /\
    (forall x, In x (q_queued s) ->
       (exists blk, In (EvCancel (qj_job x) blk) evs) \/
       (exists x', In x' (q_queued s') /\ qj_job x' = qj_job x /\ incl (qj_block x') (qj_block x))) /\
    (forall x', In x' (q_queued s') ->
       must_cancel F x' = false /\
       exists x, In x (q_queued s) /\ qj_job x' = qj_job x /\ incl (qj_block x') (qj_block x)).
Proof.
  intros s ans s' F rest H. unfold check_completions in H.
  pose proof (check_loop_facts _ _ _ _ _ _ _ H ltac:(lia)) as [[_ [He _]] _].
  apply check_loop_pass in H. destruct H as [[evs [L [Fs [C [P D]]]]] K].
  exists evs. split; [exact L|]. split; [|split; [exact C|split; [exact P|]]].
  - intros b. rewrite Fs. split; [intros [[]|H]; exact H|intros H; right; exact H].
  - intros x' Hx. split; [|exact (D x' Hx)].
    apply K; [intros x _; apply must_cancel_nil|exact He|exact Hx].
Qed.

(* canceled jobs are started never: a cancel and a run of the same name need two submits *)
Corollary queue_cancel_excludes_run : forall depth existing ops j1 b1 j2 b2 ok n,
  In (EvCancel j1 b1) (q_log (run_ops depth (init existing) ops)) ->
  In (EvRun j2 b2 ok n) (q_log (run_ops depth (init existing) ops)) ->
  j_name j1 = j_name j2 -> (2 <= nsubmits (j_name j1) ops)%nat.
Proof.
  intros depth existing ops j1 b1 j2 b2 ok n H1 H2 E.
  eapply Nat.le_trans; [|apply (queue_runs_once depth existing ops (j_name j1))].
  unfold nstarted. set (l := q_log (run_ops depth (init existing) ops)) in *.
  apply in_split in H1. destruct H1 as [p [q Hl]]. rewrite Hl in *.
  rewrite filter_app, app_length. cbn. rewrite N.eqb_refl. cbn.
  apply in_app_or in H2. destruct H2 as [H2|[H2|H2]]; [|discriminate|].
  - apply in_split in H2. destruct H2 as [p1 [p2 ->]]. rewrite filter_app, app_length. cbn.
    rewrite E, N.eqb_refl. cbn. lia.
  - apply in_split in H2. destruct H2 as [p1 [p2 ->]]. rewrite filter_app, app_length. cbn.
    rewrite E, N.eqb_refl. cbn. lia.
Qed.

(* ------------------------------------------------------------------------------------------ *)
(* No entry is lost: a name that entered the outstanding dictionary (existing entry, or a run()
   that returned GOOD) stays there until it has been seen complete.  (The depth bounds above are
   upper bounds; this is what makes the persisted id list of a submitter round cover every batch
   that may still be active.) *)
Definition onames (l : list entry) : list N := map e_name l.

Fixpoint started_ok (log : list ev) : list N :=
  match log with
  | [] => []
  | EvRun j _ true _ :: r => j_name j :: started_ok r
  | _ :: r => started_ok r
  end.

Lemma started_ok_app a b : started_ok (a ++ b) = started_ok a ++ started_ok b.
Proof.
  induction a as [|e r IH]; cbn; [reflexivity|].
  destruct e as [j bl [|] l| | |]; cbn; rewrite IH; reflexivity.
Qed.

Lemma started_ok_norun evs : Forall norun evs -> started_ok evs = [].
Proof.
  induction 1 as [|e r He Hr IH]; cbn; [reflexivity|]. destruct e; cbn in *; [destruct He| | |]; exact IH.
Qed.

Lemma started_ok_In n log : In n (started_ok log) <-> exists j blk k, In (EvRun j blk true k) log /\ j_name j = n.
Proof.
  induction log as [|e r IH]; cbn.
  - split; [intros []|intros [j [blk [k [[] _]]]]].
  - destruct e as [j bl [|] l|m rc|j bl|a b]; cbn; rewrite ?IH.
    + split.
      * intros [E|[j' [b' [k' [H1 H2]]]]]; [exists j, bl, l; split; [left; reflexivity|exact E]|].
        exists j', b', k'. split; [right; exact H1|exact H2].
      * intros [j' [b' [k' [[E|H1] H2]]]]; [inversion E; subst; left; reflexivity|].
        right. exists j', b', k'. split; assumption.
    + split; intros [j' [b' [k' [H1 H2]]]]; exists j', b', k'; (split; [|exact H2]);
        [right; exact H1|destruct H1 as [E|H1]; [discriminate|exact H1]].
    + split; intros [j' [b' [k' [H1 H2]]]]; exists j', b', k'; (split; [|exact H2]);
        [right; exact H1|destruct H1 as [E|H1]; [discriminate|exact H1]].
    + split; intros [j' [b' [k' [H1 H2]]]]; exists j', b', k'; (split; [|exact H2]);
        [right; exact H1|destruct H1 as [E|H1]; [discriminate|exact H1]].
    + split; intros [j' [b' [k' [H1 H2]]]]; exists j', b', k'; (split; [|exact H2]);
        [right; exact H1|destruct H1 as [E|H1]; [discriminate|exact H1]].
Qed.

Lemma onames_od_set e l n : In n (onames (od_set e l)) <-> n = e_name e \/ In n (onames l).
Proof.
  unfold onames. induction l as [|x r IH]; cbn.
  - split; [intros [H|[]]; left; symmetry; exact H|intros [H|[]]; left; symmetry; exact H].
  - destruct (N.eqb (e_name x) (e_name e)) eqn:E; cbn.
    + apply N.eqb_eq in E. rewrite E. split; [intros [H|H]; [left; symmetry; exact H|right; right; exact H]|].
      intros [H|[H|H]]; [left; symmetry; exact H|left; exact H|right; exact H].
    + rewrite IH. tauto.
Qed.

Lemma onames_od_pop m l n : In n (onames (od_pop m l)) <-> In n (onames l) /\ n <> m.
Proof.
  unfold onames, od_pop. induction l as [|x r IH]; cbn; [tauto|].
  destruct (N.eqb (e_name x) m) eqn:E; cbn.
  - apply N.eqb_eq in E. rewrite IH. split; [tauto|]. intros [[H|H] Hn]; [congruence|tauto].
  - apply N.eqb_neq in E. rewrite IH. split; [intros [H|H]; [subst; tauto|tauto]|tauto].
Qed.

Lemma onames_park canc : forall l n, In n (onames l) -> In n (onames (fold_left park canc l)).
Proof.
  induction canc as [|x r IH]; intros l n H; cbn; [exact H|].
  apply IH. unfold park. apply onames_od_set. right. exact H.
Qed.

Definition held (T : list N) (s : qstate) : Prop :=
  forall n, In n T -> In n (onames (q_out s)) \/ In n (cnames (q_log s)).

Lemma handle_one_held T failed s name s' c : handle_one failed s name = (s', c) ->
  In name (cnames (q_log s)) -> held T s -> held T s' /\ incl (cnames (q_log s)) (cnames (q_log s')).
Proof.
  unfold handle_one. destruct (sweep name failed (q_queued s)) as [[kept canc] evs] eqn:Hs.
  intros H Hn Hh. inversion H; subst; clear H. cbn.
  assert (Hi : incl (cnames (q_log s)) (cnames (q_log s ++ evs)))
    by (rewrite cnames_app; apply incl_appl; apply incl_refl).
  split; [|exact Hi]. intros n Hin. cbn.
  destruct (Hh n Hin) as [H|H]; [|right; apply Hi; exact H].
  destruct (N.eq_dec n name) as [->|Hne]; [right; apply Hi; exact Hn|].
  left. apply onames_park. apply onames_od_pop. split; assumption.
Qed.

Lemma handle_all_held T failed names : forall s s' c, handle_all failed s names = (s', c) ->
  (forall n, In n names -> In n (cnames (q_log s))) -> held T s ->
  held T s' /\ incl (cnames (q_log s)) (cnames (q_log s')).
Proof.
  induction names as [|n r IH]; intros s s' c H Hn Hh; cbn in H.
  - inversion H; subst. split; [exact Hh|apply incl_refl].
  - destruct (handle_one failed s n) as [s1 c1] eqn:H1.
    destruct (handle_all failed s1 r) as [s2 c2] eqn:H2. inversion H; subst; clear H.
    destruct (handle_one_held T _ _ _ _ _ H1 (Hn n (or_introl eq_refl)) Hh) as [J1 I1].
    destruct (IH _ _ _ H2 (fun m Hm => I1 _ (Hn m (or_intror Hm))) J1) as [J2 I2].
    split; [exact J2|]. eapply incl_tran; eassumption.
Qed.

Lemma check_iter_held T failed s ans s2 rerun failed' ans' :
  check_iter failed s ans = (s2, rerun, failed', ans') -> held T s -> held T s2.
Proof.
  unfold check_iter. destruct (scan (q_out s) ans) as [comp a] eqn:Hs.
  match goal with |- context [handle_all ?f ?s1 ?n] => destruct (handle_all f s1 n) as [s2' r] eqn:Hh end.
  intros H Hd. inversion H; subst; clear H.
  eapply (handle_all_held T) in Hh; [exact (proj1 Hh)| |]; cbn.
  - intros n Hn. rewrite cnames_app, cnames_completes. apply in_or_app. right. exact Hn.
  - intros n Hn. cbn. destruct (Hd n Hn) as [H|H]; [left; exact H|right].
    rewrite cnames_app. apply in_or_app. left. exact H.
Qed.

Lemma check_loop_held T : forall fuel failed s ans s' f' a',
  check_loop fuel failed s ans = (s', f', a') -> held T s -> held T s'.
Proof.
  induction fuel as [|f IH]; intros failed s ans s' f' a' H Hd; cbn in H.
  - inversion H; subst. exact Hd.
  - destruct (check_iter failed s ans) as [[[s2 rerun] failed2] ans2] eqn:Hi.
    apply (check_iter_held T) in Hi; [|exact Hd]. destruct rerun.
    + eapply IH; eassumption.
    + inversion H; subst. exact Hi.
Qed.

Definition lost_inv (existing : list N) (s : qstate) : Prop := held (existing ++ started_ok (q_log s)) s.

Lemma run_job_lost existing s x ok : lost_inv existing s -> lost_inv existing (run_job s x ok).
Proof.
  intros H. unfold lost_inv, run_job. destruct ok; cbn.
  - intros n Hn. cbn. rewrite started_ok_app in Hn. cbn in Hn.
    rewrite cnames_app. cbn. rewrite app_nil_r.
    apply in_app_or in Hn. destruct Hn as [Hn|Hn].
    + destruct (H n (in_or_app _ _ _ (or_introl Hn))) as [H1|H1]; [left; apply onames_od_set; right; exact H1|right; exact H1].
    + apply in_app_or in Hn. destruct Hn as [Hn|[<-|[]]].
      * destruct (H n (in_or_app _ _ _ (or_intror Hn))) as [H1|H1]; [left; apply onames_od_set; right; exact H1|right; exact H1].
      * left. apply onames_od_set. left. reflexivity.
  - intros n Hn. cbn. rewrite started_ok_app in Hn. cbn in Hn. rewrite app_nil_r in Hn.
    rewrite cnames_app. cbn. rewrite app_nil_r. exact (H n Hn).
Qed.

Lemma launch_lost existing avail q : forall count s runs s' rest runs',
  launch avail q count s runs = (s', rest, runs') -> lost_inv existing s -> lost_inv existing s'.
Proof.
  induction q as [|x r IH]; intros count s runs s' rest runs' H Hl; cbn in H.
  - inversion H; subst. exact Hl.
  - destruct (negb (is_nil (qj_block x))).
    + destruct (launch avail r count s runs) as [[s0 rest0] runs0] eqn:Hr.
      inversion H; subst; clear H. eapply IH; eassumption.
    + destruct (pop_run runs) as [ok runs1].
      pose proof (run_job_lost existing s x ok Hl) as H1.
      destruct (count + 1 >=? avail); [inversion H; subst; exact H1|eapply IH; eassumption].
Qed.

Lemma process_queue_lost existing depth s ans runs :
  lost_inv existing s -> lost_inv existing (process_queue depth s ans runs).
Proof.
  intros Hl. unfold process_queue.
  destruct (check_completions s ans) as [[s1 f1] a1] eqn:Hc.
  pose proof (check_completions_facts _ _ _ _ _ Hc) as [[_ [_ [evs [G F]]]] _].
  apply (check_loop_held (existing ++ started_ok (q_log s))) in Hc; [|exact Hl].
  assert (L1 : lost_inv existing s1).
  { unfold lost_inv. rewrite G, started_ok_app, (started_ok_norun _ F), app_nil_r. exact Hc. }
  destruct (is_nil (q_queued s1)); [exact L1|].
  destruct (depth - Z.of_nat (length (q_out s1)) =? 0); [exact L1|].
  destruct (launch _ (q_queued s1) 0 s1 runs) as [[s2 rest] runs2] eqn:Hla.
  apply (launch_lost existing) in Hla; [|exact L1]. exact Hla.
Qed.

Lemma submit_lost existing depth s j ok : lost_inv existing s -> lost_inv existing (submit depth s j ok).
Proof.
  intros Hl. unfold submit. destruct (is_full depth s); [exact Hl|].
  destruct (negb (is_nil (j_block j))); [exact Hl|]. apply run_job_lost. exact Hl.
Qed.

Lemma run_ops_lost existing depth ops : forall s, lost_inv existing s -> lost_inv existing (run_ops depth s ops).
Proof.
  unfold run_ops. induction ops as [|o r IH]; intros s H; cbn; [exact H|].
  apply IH. destruct o as [j ok|j ok|ans runs]; cbn.
  - apply submit_lost; exact H.
  - destruct (is_full depth s); [exact H|apply submit_lost; exact H].
  - apply process_queue_lost; exact H.
Qed.

Lemma init_onames existing n : In n existing -> In n (onames (q_out (init existing))).
Proof.
  unfold init. cbn.
  assert (G : forall l acc, In n l \/ In n (onames acc) ->
             In n (onames (fold_left (fun acc n => od_set (mk_entry n false) acc) l acc))).
  { induction l as [|m r IH]; intros acc H; cbn; [destruct H as [[]|H]; exact H|].
    apply IH. destruct H as [[<-|H]|H]; [right; apply onames_od_set; left; reflexivity|left; exact H|].
    right. apply onames_od_set. right. exact H. }
  intros H. apply G. left. exact H.
Qed.

Theorem queue_no_lost_entry : forall depth existing ops n,
  let s := run_ops depth (init existing) ops in
  In n existing \/ (exists j blk k, In (EvRun j blk true k) (q_log s) /\ j_name j = n) ->
  In n (map e_name (q_out s)) \/ exists rc, In (EvComplete n rc) (q_log s).
Proof.
  intros depth existing ops n s H.
  assert (I0 : lost_inv existing (init existing)).
  { intros m Hm. cbn in Hm. rewrite app_nil_r in Hm. left. apply init_onames. exact Hm. }
  pose proof (run_ops_lost existing depth ops _ I0) as L. fold s in L.
  destruct (L n) as [H1|H1].
  - apply in_or_app. destruct H as [H|H]; [left; exact H|right; apply started_ok_In; exact H].
  - left. exact H1.
  - right. apply cnames_In. exact H1.
Qed.
