(* Proofs about the JobQueue model (Queue.v).  Contracts exported to C06 (depth bounds), C02
   (run only when unblocked; names leave blocking sets only on observed completion; run at most
   once) and C04 (node-level cancel fix-point). *)
From Coq Require Import List ZArith NArith Bool Arith Lia.
From Jade Require Import Base Queue.
Import ListNotations.
Open Scope Z_scope.

(* ------------------------------------------------------------------------------------------ *)
(* outstanding dictionary *)
Definition noparked (l : list entry) : Prop := Forall (fun e => e_parked e = false) l.

Lemma live_le_length l : (live l <= length l)%nat.
Proof.
  unfold live. induction l as [|e r IH]; cbn; [lia|].
  destruct (negb (e_parked e)); cbn; lia.
Qed.

Lemma live_noparked l : noparked l -> live l = length l.
Proof.
  unfold live. induction 1 as [|e r He Hr IH]; cbn; [reflexivity|].
  rewrite He. cbn. f_equal. exact IH.
Qed.

Lemma od_set_length e l : (length (od_set e l) <= S (length l))%nat.
Proof.
  induction l as [|x r IH]; cbn; [lia|].
  destruct (N.eqb (e_name x) (e_name e)); cbn; lia.
Qed.

Lemma od_set_noparked e l : e_parked e = false -> noparked l -> noparked (od_set e l).
Proof.
  intros He H. induction H as [|x r Hx Hr IH]; cbn.
  - constructor; [exact He|constructor].
  - destruct (N.eqb (e_name x) (e_name e)); constructor; auto.
Qed.

Lemma live_od_pop n l : (live (od_pop n l) <= live l)%nat.
Proof.
  unfold live, od_pop. induction l as [|x r IH]; cbn; [lia|].
  destruct (negb (N.eqb (e_name x) n)); cbn; destruct (negb (e_parked x)); cbn; lia.
Qed.

Lemma live_od_set_parked n l : (live (od_set (mk_entry n true) l) <= live l)%nat.
Proof.
  unfold live, mk_entry. induction l as [|x r IH]; cbn; [lia|].
  destruct (N.eqb (e_name x) n); cbn; destruct (negb (e_parked x)); cbn; lia.
Qed.

Lemma live_park canc : forall l, (live (fold_left park canc l) <= live l)%nat.
Proof.
  induction canc as [|x r IH]; intros l; cbn [fold_left]; [apply Nat.le_refl|].
  eapply Nat.le_trans; [apply IH|]. apply live_od_set_parked.
Qed.

Lemma pop_all_in names : forall l e,
  In e (fold_left (fun o n => od_pop n o) names l) -> In e l /\ ~ In (e_name e) names.
Proof.
  induction names as [|n r IH]; intros l e H; cbn in *; [tauto|].
  apply IH in H. destruct H as [H1 H2]. unfold od_pop in H1. apply filter_In in H1.
  destruct H1 as [H1 H3]. split; [exact H1|]. intros [E|H4]; [|tauto].
  subst n. rewrite N.eqb_refl in H3. discriminate.
Qed.

Lemma init_out_length existing : (length (q_out (init existing)) <= length existing)%nat.
Proof.
  unfold init. cbn.
  assert (G : forall l acc, (length (fold_left (fun acc n => od_set (mk_entry n false) acc) l acc)
                            <= length acc + length l)%nat).
  { induction l as [|n r IH]; intros acc; cbn; [lia|].
    eapply Nat.le_trans; [apply IH|]. pose proof (od_set_length (mk_entry n false) acc). lia. }
  specialize (G existing []). cbn in G. exact G.
Qed.

Lemma init_noparked existing : noparked (q_out (init existing)).
Proof.
  unfold init. cbn.
  assert (G : forall l acc, noparked acc ->
             noparked (fold_left (fun acc n => od_set (mk_entry n false) acc) l acc)).
  { induction l as [|n r IH]; intros acc H; cbn; [exact H|].
    apply IH. apply od_set_noparked; [reflexivity|exact H]. }
  apply G. constructor.
Qed.

(* ------------------------------------------------------------------------------------------ *)
(* events *)
Definition norun (e : ev) : Prop := match e with EvRun _ _ _ _ => False | _ => True end.

Lemma scan_parked out : forall ans e, In e out -> e_parked e = true ->
  In (e_name e) (map fst (fst (scan out ans))).
Proof.
  induction out as [|x r IH]; intros ans e Hin Hp; [destruct Hin|].
  cbn. destruct Hin as [E|Hin].
  - subst x. rewrite Hp. destruct (scan r ans) as [c a]. cbn. left. reflexivity.
  - destruct (e_parked x).
    + specialize (IH ans e Hin Hp). destruct (scan r ans) as [c a]. cbn in *. right. exact IH.
    + destruct ans as [|[rc|] ans'].
      * apply IH; assumption.
      * specialize (IH ans' e Hin Hp). destruct (scan r ans') as [c a]. cbn in *. right. exact IH.
      * apply IH; assumption.
Qed.

Lemma sweep_length name failed q : forall kept canc evs,
  sweep name failed q = (kept, canc, evs) -> (length kept + length canc = length q)%nat.
Proof.
  induction q as [|x r IH]; intros kept canc evs H; cbn in H.
  - inversion H; reflexivity.
  - destruct (sweep name failed r) as [[k c] e]. specialize (IH k c e eq_refl).
    destruct (must_cancel failed x); [|destruct (memN name (qj_block x))]; inversion H; subst; cbn; lia.
Qed.

Lemma sweep_norun name failed q : forall kept canc evs,
  sweep name failed q = (kept, canc, evs) -> Forall norun evs.
Proof.
  induction q as [|x r IH]; intros kept canc evs H; cbn in H.
  - inversion H; constructor.
  - destruct (sweep name failed r) as [[k c] e]. specialize (IH k c e eq_refl).
    destruct (must_cancel failed x); [|destruct (memN name (qj_block x))]; inversion H; subst;
      try constructor; cbn; auto.
Qed.

(* what one step inside _check_completions may do to the state *)
Definition inner_ok (s s' : qstate) : Prop :=
  (live (q_out s') <= live (q_out s))%nat /\
  q_err s' = q_err s /\
  exists evs, q_log s' = q_log s ++ evs /\ Forall norun evs.

Lemma inner_ok_refl s : inner_ok s s.
Proof.
  repeat split; [lia|]. exists []. rewrite app_nil_r. split; [reflexivity|constructor].
Qed.

Lemma inner_ok_trans a b c : inner_ok a b -> inner_ok b c -> inner_ok a c.
Proof.
  intros [L1 [E1 [ev1 [G1 F1]]]] [L2 [E2 [ev2 [G2 F2]]]]. repeat split; [lia|congruence|].
  exists (ev1 ++ ev2). rewrite G2, G1, app_assoc. split; [reflexivity|]. apply Forall_app. tauto.
Qed.

Lemma handle_one_facts failed s name s' c : handle_one failed s name = (s', c) ->
  inner_ok s s' /\
  (length (q_queued s') + (if c then 1 else 0) <= length (q_queued s))%nat /\
  (c = false -> q_out s' = od_pop name (q_out s)).
Proof.
  unfold handle_one. destruct (sweep name failed (q_queued s)) as [[kept canc] evs] eqn:Hs.
  intros H. inversion H; subst; clear H. cbn.
  pose proof (sweep_length _ _ _ _ _ _ Hs) as HL. pose proof (sweep_norun _ _ _ _ _ _ Hs) as HN.
  split; [|split].
  - repeat split; cbn.
    + eapply Nat.le_trans; [apply live_park|apply live_od_pop].
    + exists evs. split; [reflexivity|exact HN].
  - destruct canc; cbn in *; lia.
  - destruct canc; cbn; [reflexivity|discriminate].
Qed.

Lemma handle_all_facts failed names : forall s s' c, handle_all failed s names = (s', c) ->
  inner_ok s s' /\
  (length (q_queued s') + (if c then 1 else 0) <= length (q_queued s))%nat /\
  (c = false -> q_out s' = fold_left (fun o n => od_pop n o) names (q_out s)).
Proof.
  induction names as [|n r IH]; intros s s' c H; cbn in H.
  - inversion H; subst. split; [apply inner_ok_refl|]. split; [lia|reflexivity].
  - destruct (handle_one failed s n) as [s1 c1] eqn:H1.
    destruct (handle_all failed s1 r) as [s2 c2] eqn:H2. inversion H; subst; clear H.
    apply handle_one_facts in H1. destruct H1 as [A1 [B1 C1]].
    apply IH in H2. destruct H2 as [A2 [B2 C2]].
    split; [eapply inner_ok_trans; eassumption|]. split.
    + destruct c1, c2; cbn in *; lia.
    + intros Hc. apply orb_false_iff in Hc. destruct Hc as [-> ->]. cbn.
      rewrite C2, C1; reflexivity.
Qed.

Lemma check_iter_facts failed s ans s2 rerun failed' ans' :
  check_iter failed s ans = (s2, rerun, failed', ans') ->
  inner_ok s s2 /\
  (length (q_queued s2) + (if rerun then 1 else 0) <= length (q_queued s))%nat /\
  (rerun = false -> noparked (q_out s2)).
Proof.
  unfold check_iter. destruct (scan (q_out s) ans) as [comp a] eqn:Hs.
  match goal with |- context [handle_all ?f ?s1 ?n] => destruct (handle_all f s1 n) as [s2' r] eqn:Hh end.
  intros H. inversion H; subst; clear H.
  apply handle_all_facts in Hh. cbn in Hh. destruct Hh as [[L [E [evs [G F]]]] [B C]].
  split; [|split].
  - repeat split; [exact L|exact E|].
    exists (map (fun c => EvComplete (fst c) (snd c)) comp ++ evs). rewrite G, app_assoc.
    split; [reflexivity|]. apply Forall_app. split; [|exact F].
    apply Forall_forall. intros e He. apply in_map_iff in He. destruct He as [c [<- _]]. exact I.
  - exact B.
  - intros Hr. specialize (C Hr). rewrite C. apply Forall_forall. intros e He.
    apply pop_all_in in He. destruct He as [He1 He2].
    destruct (e_parked e) eqn:Hp; [|reflexivity]. exfalso. apply He2.
    pose proof (scan_parked (q_out s) ans e He1 Hp) as Hin. rewrite Hs in Hin. exact Hin.
Qed.

Lemma check_loop_facts : forall fuel failed s ans s' f' a',
  check_loop fuel failed s ans = (s', f', a') ->
  (length (q_queued s) < fuel)%nat ->
  inner_ok s s' /\ (length (q_queued s') <= length (q_queued s))%nat /\ noparked (q_out s').
Proof.
  induction fuel as [|f IH]; intros failed s ans s' f' a' H Hf; [lia|].
  cbn in H. destruct (check_iter failed s ans) as [[[s2 rerun] failed2] ans2] eqn:Hi.
  apply check_iter_facts in Hi. destruct Hi as [A [B C]].
  destruct rerun.
  - apply IH in H; [|lia]. destruct H as [A' [B' C']].
    split; [eapply inner_ok_trans; eassumption|]. split; [lia|exact C'].
  - inversion H; subst; clear H. split; [exact A|]. split; [lia|]. apply C. reflexivity.
Qed.

(* _check_completions: terminates within the fuel, leaves no parked cancel behind, never adds a
   running entry, starts nothing *)
Lemma check_completions_facts s ans s' f' a' :
  check_completions s ans = (s', f', a') ->
  inner_ok s s' /\ (length (q_queued s') <= length (q_queued s))%nat /\ noparked (q_out s').
Proof. intros H. eapply check_loop_facts; [exact H|lia]. Qed.

Lemma check_completions_out_length s ans s' f' a' :
  check_completions s ans = (s', f', a') -> noparked (q_out s) ->
  (length (q_out s') <= length (q_out s))%nat.
Proof.
  intros H Hn. apply check_completions_facts in H. destruct H as [[L _] [_ N']].
  rewrite <- (live_noparked _ N'), <- (live_noparked _ Hn). exact L.
Qed.

(* ------------------------------------------------------------------------------------------ *)
(* C06: the depth bound *)
Definition ev_live_ok (depth : Z) (e : ev) : Prop :=
  match e with EvRun _ _ _ n => Z.of_nat n <= depth | _ => True end.

Lemma norun_live_ok depth evs : Forall norun evs -> Forall (ev_live_ok depth) evs.
Proof.
  intros H. eapply Forall_impl; [|exact H]. intros e He. destruct e; cbn in *; tauto.
Qed.

Record inv (depth : Z) (s : qstate) : Prop := {
  inv_noparked : noparked (q_out s);
  inv_len : Z.of_nat (length (q_out s)) <= depth;
  inv_log : Forall (ev_live_ok depth) (q_log s);
  inv_err : q_err s = false
}.

Lemma run_job_inv depth s x ok :
  noparked (q_out s) -> Z.of_nat (length (q_out s)) + 1 <= depth ->
  Forall (ev_live_ok depth) (q_log s) ->
  let s1 := run_job s x ok in
  noparked (q_out s1) /\ Z.of_nat (length (q_out s1)) <= Z.of_nat (length (q_out s)) + 1 /\
  Forall (ev_live_ok depth) (q_log s1) /\ q_err s1 = q_err s /\ q_queued s1 = q_queued s.
Proof.
  intros Hn Hl Hg. unfold run_job. destruct ok; cbn.
  - pose proof (od_set_length (mk_entry (qname x) false) (q_out s)) as HL.
    assert (Hn' : noparked (od_set (mk_entry (qname x) false) (q_out s)))
      by (apply od_set_noparked; [reflexivity|exact Hn]).
    repeat split; [exact Hn'|lia|].
    apply Forall_app. split; [exact Hg|]. constructor; [|constructor]. cbn.
      rewrite (live_noparked _ Hn'). lia.
  - repeat split; [exact Hn|lia|].
    apply Forall_app. split; [exact Hg|]. constructor; [|constructor]. cbn.
    pose proof (live_le_length (q_out s)). lia.
Qed.

Lemma launch_inv depth avail q : forall count s runs s' rest runs',
  launch avail q count s runs = (s', rest, runs') ->
  0 <= count < avail ->
  noparked (q_out s) -> Z.of_nat (length (q_out s)) + (avail - count) <= depth ->
  Forall (ev_live_ok depth) (q_log s) ->
  noparked (q_out s') /\ Z.of_nat (length (q_out s')) <= depth /\
  Forall (ev_live_ok depth) (q_log s') /\ q_err s' = q_err s.
Proof.
  induction q as [|x r IH]; intros count s runs s' rest runs' H Hc Hn Hl Hg; cbn in H.
  - inversion H; subst. repeat split; [exact Hn|lia|exact Hg].
  - destruct (negb (is_nil (qj_block x))).
    + destruct (launch avail r count s runs) as [[s0 rest0] runs0] eqn:Hr.
      inversion H; subst; clear H. eapply IH; eassumption.
    + destruct (pop_run runs) as [ok runs1].
      pose proof (run_job_inv depth s x ok Hn ltac:(lia) Hg) as [A [B [C [D _]]]].
      destruct (count + 1 >=? avail) eqn:Hge.
      * inversion H; subst; clear H. repeat split; [exact A|lia|exact C|exact D].
      * rewrite Z.geb_leb in Hge. apply Z.leb_gt in Hge.
        eapply IH in H; [|lia|exact A|lia|exact C].
        destruct H as [A' [B' [C' D']]]. repeat split; [exact A'|exact B'|exact C'|congruence].
Qed.

Lemma process_queue_inv depth s ans runs : inv depth s -> inv depth (process_queue depth s ans runs).
Proof.
  intros [Hn Hl Hg He]. unfold process_queue.
  destruct (check_completions s ans) as [[s1 f1] a1] eqn:Hc.
  pose proof (check_completions_out_length _ _ _ _ _ Hc Hn) as HL.
  apply check_completions_facts in Hc. destruct Hc as [[_ [E1 [evs [G1 F1]]]] [_ N1]].
  assert (I1 : inv depth s1).
  { constructor; [exact N1|lia| |congruence].
    rewrite G1. apply Forall_app. split; [exact Hg|apply norun_live_ok; exact F1]. }
  destruct (is_nil (q_queued s1)); [exact I1|].
  destruct (depth - Z.of_nat (length (q_out s1)) =? 0) eqn:Ha; [exact I1|].
  apply Z.eqb_neq in Ha.
  destruct (launch _ (q_queued s1) 0 s1 runs) as [[s2 rest] runs2] eqn:Hla.
  destruct I1 as [N1' L1' G1' E1'].
  eapply (launch_inv depth) in Hla; [|lia|exact N1'|lia|exact G1'].
  destruct Hla as [A [B [C D]]]. constructor; cbn; [exact A|exact B|exact C|congruence].
Qed.

Lemma submit_inv depth s j ok : inv depth s -> inv depth (submit depth s j ok).
Proof.
  intros [Hn Hl Hg He]. unfold submit, is_full.
  destruct (Z.of_nat (length (q_out s)) >=? depth) eqn:Hf.
  - constructor; cbn; assumption.
  - destruct (negb (is_nil (j_block j))).
    + constructor; cbn; assumption.
    + rewrite Z.geb_leb in Hf. apply Z.leb_gt in Hf.
      pose proof (run_job_inv depth s {| qj_job := j; qj_block := j_block j |} ok Hn ltac:(lia) Hg)
        as [A [B [C [D _]]]].
      constructor; [exact A|lia|exact C|congruence].
Qed.

Lemma step_inv depth s o : inv depth s -> inv depth (step depth s o).
Proof.
  intros H. destruct o as [j ok|j ok|ans runs]; cbn.
  - apply submit_inv; exact H.
  - destruct (is_full depth s); [exact H|apply submit_inv; exact H].
  - apply process_queue_inv; exact H.
Qed.

Lemma run_ops_inv depth ops : forall s, inv depth s -> inv depth (run_ops depth s ops).
Proof.
  unfold run_ops. induction ops as [|o r IH]; intros s H; cbn; [exact H|].
  apply IH. apply step_inv. exact H.
Qed.

Lemma init_inv depth existing :
  Z.of_nat (length (q_out (init existing))) <= depth -> inv depth (init existing).
Proof.
  intros H. constructor; [apply init_noparked|exact H|constructor|reflexivity].
Qed.

(* In every state reachable by ANY sequence of submit / guarded submit / process_queue calls, with
   any completion answers and run() results: no canceled entry is left in the outstanding
   dictionary, at most `depth` entries are outstanding, every run() call left at most `depth`
   running entries, and the need_to_rerun loop never ran out of fuel. *)
Theorem queue_depth_bound : forall depth existing ops,
  Z.of_nat (length (q_out (init existing))) <= depth ->
  let s := run_ops depth (init existing) ops in
  noparked (q_out s) /\
  Z.of_nat (length (q_out s)) <= depth /\
  (forall j blk ok n, In (EvRun j blk ok n) (q_log s) -> Z.of_nat n <= depth) /\
  q_err s = false.
Proof.
  intros depth existing ops H s.
  destruct (run_ops_inv depth ops _ (init_inv depth existing H)) as [A B C D].
  repeat split; [exact A|exact B| |exact D].
  intros j blk ok n Hin. rewrite Forall_forall in C. exact (C _ Hin).
Qed.

Corollary queue_depth_bound_existing : forall depth existing ops,
  Z.of_nat (length existing) <= depth ->
  Z.of_nat (length (q_out (run_ops depth (init existing) ops))) <= depth.
Proof.
  intros depth existing ops H. apply queue_depth_bound.
  pose proof (init_out_length existing). lia.
Qed.
