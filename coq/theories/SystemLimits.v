(* System invariant, group 3: limits (C06). *)
From Coq Require Import List ZArith NArith Bool Arith Lia.
From Jade Require Import Base System SystemMonitors SystemProofs SystemInv SystemOrder.
Import ListNotations.
Open Scope N_scope.
Set Default Timeout 300.

Definition believed (s : state) : list N := match holder s with Some r => r_out r | None => ids s end.

Lemma act_ids_app l1 l2 : act_ids (l1 ++ l2) = act_ids l1 ++ act_ids l2.
Proof. unfold act_ids. rewrite filter_app, map_app. reflexivity. Qed.
Lemma act_ids_sub l : incl (act_ids l) (map h_id l).
Proof. unfold act_ids. intros x Hx. apply in_map_iff in Hx. destruct Hx as (h & <- & Hf). apply filter_In in Hf. apply in_map. tauto. Qed.
Lemma find_h_unique l id h : NoDup (map h_id l) -> find_h id l = Some h ->
  forall h', In h' l -> h_id h' = id -> h' = h.
Proof.
  unfold find_h. induction l as [|x t IH]; cbn; [discriminate|]. intros Hnd Hf h' Hin Hid.
  apply NoDup_cons_iff in Hnd; destruct Hnd as [Hx Ht].
  destruct (N.eqb (h_id x) id) eqn:E.
  - injection Hf as <-. apply N.eqb_eq in E. destruct Hin as [<-|Hin]; [reflexivity|].
    exfalso. apply Hx. rewrite E, <- Hid. apply in_map. exact Hin.
  - destruct Hin as [<-|Hin]; [apply N.eqb_neq in E; contradiction|]. eapply IH; eauto.
Qed.
Lemma find_h_none l id : find_h id l = None -> ~ In id (map h_id l).
Proof.
  unfold find_h. intros Hf Hin. apply in_map_iff in Hin. destruct Hin as (h & E & Hin).
  apply (find_none _ _ Hf) in Hin. rewrite E, N.eqb_refl in Hin. discriminate.
Qed.
Lemma rm_notin id l : ~ In id l -> rm id l = l.
Proof.
  unfold rm. induction l as [|x t IH]; cbn; [reflexivity|]. intros Hn.
  destruct (N.eqb x id) eqn:E; [apply N.eqb_eq in E; subst; exfalso; apply Hn; left; reflexivity|].
  cbn. f_equal. apply IH. intros Hx. apply Hn. right. exact Hx.
Qed.
Lemma act_ids_notin l id h : NoDup (map h_id l) -> find_h id l = Some h -> h_active h = false -> ~ In id (act_ids l).
Proof.
  intros Hnd Hf Ha Hin. unfold act_ids in Hin. apply in_map_iff in Hin. destruct Hin as (h' & E & Hf').
  apply filter_In in Hf'. destruct Hf' as [Hin Hact]. rewrite (find_h_unique _ _ _ Hnd Hf h' Hin E) in Hact. congruence.
Qed.
Lemma act_ids_set_same l id h x : NoDup (map h_id l) -> find_h id l = Some h -> h_active h = true ->
  (match x with HPending | HRunning => true | _ => false end) = true -> act_ids (set_h id x l) = act_ids l.
Proof.
  intros Hnd Hf Ha Hx. unfold act_ids, set_h.
  assert (Hall : forall h', In h' l -> h_id h' = id -> h_active h' = true).
  { intros h' Hin Hid. rewrite (find_h_unique _ _ _ Hnd Hf h' Hin Hid). exact Ha. }
  clear Hf Hnd. induction l as [|y t IH]; cbn; [reflexivity|].
  destruct (N.eqb (h_id y) id) eqn:E.
  - apply N.eqb_eq in E. rewrite (Hall y (or_introl eq_refl) E). unfold h_active at 1. cbn. rewrite Hx. cbn.
    f_equal. apply IH. intros; apply Hall; auto. right; assumption.
  - destruct (h_active y); cbn; [f_equal|]; apply IH; intros; apply Hall; auto; right; assumption.
Qed.

Lemma filter_len_le {A} (f : A -> bool) l : (length (filter f l) <= length l)%nat.
Proof. induction l as [|x t IH]; cbn; [lia|]. destruct (f x); cbn; lia. Qed.

Record Inv3 (sc : scenario) (s : state) : Prop := {
  k_fresh : created s = false -> holder s = None;
  k_hpc_nodup : NoDup (map h_id (hpc s));
  k_active_free : marker s = false -> incl (act_ids (hpc s)) (believed s);
  k_active_owned : forall r, holder s = Some r -> r_owns r = true -> incl (act_ids (hpc s)) (r_out r);
  k_out_ids : forall r, holder s = Some r -> (r_owns r = false \/ r_updated r = true \/ r_placed r = []) ->
              incl (r_out r) (ids s);
  k_running : forall n, In n (nodes s) -> N.of_nat (length (n_running n)) <= n_depth n
}.
Lemma inv3_init sc : Inv3 sc init.
Proof. constructor; cbn; intros; try discriminate; try contradiction; try constructor; auto. intros ? []. Qed.


Section Group3.
Variable sc : scenario.
Variables (s s' : state) (e : event).
Hypothesis H : step sc s e = Some s'.
Hypothesis HI1 : Inv1 sc s.
Hypothesis HI : Inv3 sc s.

Lemma r_fresh : created s' = false -> holder s' = None.
Proof.
  pose proof (k_fresh sc s HI) as O. revert H. intros H. prep e H. all: hlit. all: try basic.
  all: try (intros Hc; specialize (O Hc); discriminate).
Qed.

Lemma r_hpc_nodup : NoDup (map h_id (hpc s')).
Proof.
  pose proof (k_hpc_nodup sc s HI) as O. revert H. intros H. prep e H. all: hlit. all: rewrite ?set_h_ids. all: try basic.
  all: rewrite map_app; apply NoDup_app_iff; repeat split; [exact O|repeat constructor; intros []|];
    intros i Hi [<-|[]]; match goal with M : memN _ _ = false |- _ => apply memN_false in M; contradiction end.
Qed.

Lemma r_running : forall n, In n (nodes s') -> N.of_nat (length (n_running n)) <= n_depth n.
Proof.
  pose proof (k_running sc s HI) as O. revert H. intros H. prep e H. all: hlit. all: try basic.
  all: try (match goal with F : find_n _ _ = Some _ |- _ => apply find_n_In in F; destruct F as [Fn Fid] end).
  all: lazymatch goal with EV := ?x |- _ =>
         lazymatch x with
         | EScancel _ _ => intros n' Hn; apply map_dead_In in Hn; destruct Hn as (n1 & Hn1 & _ & Er & Ed); rewrite Er, Ed; auto
         | EBatchEnd _ => intros n' Hn; apply map_dead_In in Hn; destruct Hn as (n1 & Hn1 & _ & Er & Ed); rewrite Er, Ed; auto
         | EBatchStart _ => intros n' Hn; apply in_app_iff in Hn; destruct Hn as [Hn|[<-|[]]]; [auto|cbn; lia]
         | ELaunch _ _ =>
           intros n' Hn; apply set_n_In in Hn; destruct Hn as [->|Hn]; [|auto]; cbn [n_running n_depth];
           rewrite app_length; cbn [length];
           match goal with L : (_ <? _) = true |- _ => apply N.ltb_lt in L; lia end
         | EAppend _ _ =>
           intros n' Hn; apply set_n_In in Hn; destruct Hn as [->|Hn]; [|auto]; cbn [n_running n_depth];
           try (specialize (O _ Fn); match goal with |- context [filter ?f ?l] => pose proof (filter_len_le f l) end; lia); auto
         | _ => intros n' Hn; apply set_n_In in Hn; destruct Hn as [->|Hn]; [cbn [n_running n_depth length]; try lia|]; auto
         end
       end.
Qed.

Lemma r_out_ids : forall r, holder s' = Some r -> (r_owns r = false \/ r_updated r = true \/ r_placed r = []) ->
  incl (r_out r) (ids s').
Proof.
  pose proof (k_out_ids sc s HI) as O. pose proof (i_notowns_placed sc s HI1) as NP. pose proof (i_round_owns sc s HI1) as RO.
  revert H. intros H. prep e H. all: hlit. all: try basic.
  all: try (intros D; apply O; destruct D as [D|[D|D]]; try discriminate; try congruence; auto; fail).
  all: lazymatch goal with EV := ?x |- _ =>
         lazymatch x with
         | ESqueue _ _ => intros D; eapply incl_tran; [apply incl_filter|apply O; exact D]
         | ESbatch _ _ _ _ _ _ =>
           intros [D|[D|D]]; [discriminate|congruence|];
           exfalso; vb; apply app_eq_nil in D; destruct D as [_ D]; apply map_eq_nil in D; contradiction
         | EUpdate _ _ =>
           intros _ y Hy; match goal with Q : eqsetN _ _ = true |- _ => rewrite eqsetN_spec in Q; apply Q; exact Hy end
         | _ =>
           intros D; repeat match goal with E : ?a = _ |- _ => lazymatch a with ids _ => rewrite E in * | r_placed _ => rewrite E in * | r_out _ => rewrite E in * end end;
           apply O; destruct D as [D|[D|D]]; try discriminate; try congruence; auto
         end
       end.
Qed.

Lemma r_active_owned : forall r, holder s' = Some r -> r_owns r = true -> incl (act_ids (hpc s')) (r_out r).
Proof.
  pose proof (k_active_owned sc s HI) as O. pose proof (k_active_free sc s HI) as F. pose proof (k_hpc_nodup sc s HI) as ND.
  revert H. intros H. prep e H. all: hlit. all: try basic.
  all: try (match goal with Fh : find_h _ _ = Some _ |- _ => pose proof (find_h_unique _ _ _ ND Fh) as FU end).
  all: lazymatch goal with EV := ?x |- _ =>
         lazymatch x with
         | ESqueue _ _ =>
           intros Ho y Hy; apply filter_In; split; [apply O; auto|];
           match goal with Q : eqsetN _ _ = true |- _ => rewrite eqsetN_spec in Q; apply memN_In; apply Q; exact Hy end
         | EMarkerTouch _ => intros _; unfold believed in F; rw_holder; repeat match goal with E : r_out _ = _ |- _ => rewrite E in * end; apply F; assumption
         | ESbatch _ _ _ _ _ _ =>
           intros _; rewrite act_ids_app; apply incl_app; [apply incl_appl; apply O; assumption|apply incl_appr; cbn; apply incl_refl]
         | _ =>
           lazymatch goal with
           | |- holder _ = _ -> _ => intros Hr0 Ho; pose proof (O _ Hr0 Ho) as O'
           | |- _ = true -> _ => intros Ho; pose proof (O Ho) as O'
           end; eapply incl_tran; [|exact O'];
           apply act_ids_set_incl; intros h1 Hh1 Hid1;
           first [ right; reflexivity | left; rewrite (FU h1 Hh1 Hid1); unfold h_active; match goal with E : h_state _ = _ |- _ => rewrite E end; reflexivity | left; rewrite (FU h1 Hh1 Hid1); assumption ]
         end
       end.
Qed.

Lemma r_active_free : marker s' = false -> incl (act_ids (hpc s')) (believed s').
Proof.
  pose proof (k_active_free sc s HI) as F. pose proof (k_active_owned sc s HI) as O. pose proof (k_hpc_nodup sc s HI) as ND.
  pose proof (k_out_ids sc s HI) as OI. pose proof (i_owner_marker sc s HI1) as OM. pose proof (k_fresh sc s HI) as FR.
  revert H. intros H. prep e H. all: unfold believed in *; hlit; cbn [r_out r_owns r_updated r_placed] in *. all: try basic.
  all: try (match goal with Fh : find_h _ _ = Some _ |- _ => pose proof (find_h_unique _ _ _ ND Fh) as FU end).
  all: cbv iota beta in F.
  all: try match goal with E : r_out _ = _ |- _ => rewrite E in * end.
  all: lazymatch goal with EV := ?x |- _ =>
         lazymatch x with
         | ECreate _ => intros Hm; match goal with C : created _ = false |- _ => rewrite (FR C) in F end; apply F; exact Hm
         | ELoad _ _ _ _ _ => first [exact F | rewrite andb_false_r in *; discriminate]
         | EDemote _ =>
           intros Hm; eapply incl_tran; [apply F; exact Hm|]; apply OI; left;
           destruct (r_owns s0) eqn:Eo; [rewrite (OM eq_refl) in Hm; discriminate|reflexivity]
         | ESqueue _ _ =>
           intros Hm y Hy; apply filter_In; split; [apply F; auto|];
           match goal with Q : eqsetN _ _ = true |- _ => rewrite eqsetN_spec in Q; apply memN_In; apply Q; exact Hy end
         | _ =>
           intros Hm; first [ exact (F Hm) |
           eapply incl_tran; [|apply F; exact Hm];
           apply act_ids_set_incl; intros h1 Hh1 Hid1;
           first [ right; reflexivity | left; rewrite (FU h1 Hh1 Hid1); unfold h_active; match goal with E : h_state _ = _ |- _ => rewrite E end; reflexivity | left; rewrite (FU h1 Hh1 Hid1); assumption ] ]
         end
       end.
Qed.

Lemma inv3_step_lemma : Inv3 sc s'.
Proof.
  constructor.
  - apply r_fresh.
  - apply r_hpc_nodup.
  - apply r_active_free.
  - apply r_active_owned.
  - apply r_out_ids.
  - apply r_running.
Qed.
End Group3.

Lemma inv3_step sc s e s' : step sc s e = Some s' -> Inv1 sc s -> Inv3 sc s -> Inv3 sc s'.
Proof. intros. eapply inv3_step_lemma; eauto. Qed.

Lemma act_ids_nodup l : NoDup (map h_id l) -> NoDup (act_ids l).
Proof.
  unfold act_ids. induction l as [|h t IH]; cbn; [constructor|]. intros Hnd. apply NoDup_cons_iff in Hnd. destruct Hnd as [Hh Ht].
  destruct (h_active h); cbn; [|auto]. constructor; [|auto].
  intros Hin. apply Hh. apply in_map_iff in Hin. destruct Hin as (x & E & Hx). apply filter_In in Hx. rewrite <- E. apply in_map. tauto.
Qed.

(* ---------- C06 (batches) ---------- *)
Definition R06 (sc : scenario) (s : state) (active : list N) : Prop :=
  Inv1 sc s /\ Inv3 sc s /\ active = act_ids (hpc s).

Lemma c06_step sc s e s' active : step sc s e = Some s' -> R06 sc s active ->
  exists active', (forall t, c06_from sc active (e :: t) = c06_from sc active' t) /\ R06 sc s' active'.
Proof.
  intros H (HI1 & HI3 & Ha).
  assert (N1 : Inv1 sc s') by (eapply inv1_step; eauto).
  assert (N3 : Inv3 sc s') by (eapply inv3_step; eauto).
  pose proof (k_hpc_nodup sc s HI3) as ND. pose proof (k_active_owned sc s HI3) as AO.
  assert (Same : hpc s' = hpc s -> exists active', (forall t, c06_from sc active (e :: t) = c06_from sc active' t) /\ R06 sc s' active' \/ True) by (intros; exists active; right; exact I).
  clear Same.
  revert H. intros H. prep e H.
  all: unfold set_session, with_holder in *; cbn [hpc] in *.
  all: try (exists (act_ids (hpc s)); subst active; split; [reflexivity|]; split; [exact N1|split; [exact N3|reflexivity]]; fail).
  all: lazymatch goal with EV := ?x |- _ =>
         lazymatch x with
         | ESbatch _ _ _ _ _ (Some ?n) =>
           exists (active ++ [n]); split;
           [ intros t; cbn [c06_from];
             replace (depth_ok (option_map N.succ (sc_max_nodes sc)) (N.of_nat (length (active ++ [n])))) with true; [reflexivity|];
             symmetry; destruct (sc_max_nodes sc) as [m|]; [|reflexivity]; cbn [option_map depth_ok] in *;
             apply N.ltb_lt; rewrite app_length; cbn [length];
             match goal with D : (N.of_nat (length (r_out ?r)) <? m) = true, Ow : r_owns ?r = true, Hh : holder _ = Some ?r |- _ =>
               apply N.ltb_lt in D; pose proof (NoDup_incl_length (act_ids_nodup _ ND) (AO r Hh Ow)) as L end;
             subst active; lia
           | split; [exact N1|split; [exact N3|]]; subst active; cbn [hpc]; rewrite act_ids_app; reflexivity ]
         | EScancel _ ?id =>
           exists (rm id active); split; [reflexivity|]; split; [exact N1|split; [exact N3|]]; subst active; cbn [hpc];
           first [ symmetry; apply act_ids_rm; reflexivity
                 | apply rm_notin; match goal with Fh : find_h _ _ = Some ?h |- _ => apply (act_ids_notin _ _ h ND Fh) end; assumption
                 | apply rm_notin; intros Hin; apply act_ids_sub in Hin; eapply find_h_none; eauto ]
         | EBatchEnd ?id =>
           exists (rm id active); split; [reflexivity|]; split; [exact N1|split; [exact N3|]]; subst active; cbn [hpc];
           first [ symmetry; apply act_ids_rm; reflexivity
                 | apply rm_notin; match goal with Fh : find_h _ _ = Some ?h |- _ => apply (act_ids_notin _ _ h ND Fh) end; unfold h_active; match goal with E : h_state _ = _ |- _ => rewrite E end; reflexivity ]
         | EBatchStart _ =>
           exists active; split; [reflexivity|]; split; [exact N1|split; [exact N3|]]; subst active; cbn [hpc];
           symmetry; eapply act_ids_set_same; eauto; unfold h_active; match goal with E : h_state _ = _ |- _ => rewrite E end; reflexivity
         end
       end.
Qed.

Theorem c06_accepted sc tr s : run sc tr = Some s -> c06_ok sc tr = true.
Proof.
  intros H. unfold c06_ok, run in *.
  apply (simulation sc (list N) (c06_from sc) (R06 sc) (fun m => eq_refl) (c06_step sc) tr init s [] H).
  split; [apply inv1_init|split; [apply inv3_init|reflexivity]].
Qed.

(* processes per node: the state form *)
Theorem c06_procs_accepted sc tr s : run sc tr = Some s ->
  forall n, In n (nodes s) -> N.of_nat (length (n_running n)) <= n_depth n.
Proof.
  intros H. unfold run in H.
  assert (G : forall tr s0 s1, run_from sc s0 tr = Some s1 -> Inv1 sc s0 -> Inv3 sc s0 -> Inv3 sc s1).
  { clear. induction tr as [|e t IH]; intros s0 s1 Hr H1 H3; cbn [run_from] in Hr.
    - injection Hr as <-. exact H3.
    - destruct (step sc s0 e) as [s2|] eqn:Es; [|discriminate]. eapply IH; eauto using inv1_step, inv3_step. }
  apply (k_running sc s (G _ _ _ H (inv1_init sc) (inv3_init sc))).
Qed.
