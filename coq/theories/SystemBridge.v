(* Bridge between Layer A and Layer B: the batch that the model of HpcSubmitter._make_batch (Batch.v, tied to
   the real code by the C07 correspondence) builds from a submitter's view of the not-submitted jobs of a
   group satisfies the `valid_batch` guard that the system acceptor (System.v) demands of every sbatch. *)
From Coq Require Import List ZArith NArith Bool Arith Lia.
From Jade Require Import Base.
From Jade Require Batch BatchProofs.
From Jade Require Import System SystemInv.
Import ListNotations.
Open Scope N_scope.
Set Default Timeout 300.

Module B := Batch.
Module BP := BatchProofs.

(* the candidate list is the submitter's view: not-submitted, not yet placed jobs of group g with their
   remaining blockers and configured estimates *)
Definition view_ok (sc : scenario) (r : session) (g : N) (avail : list B.cjob) : Prop :=
  NoDup (B.names avail) /\
  forall c, In c avail ->
    is_job sc (B.jname c) = true /\ jc_group (job sc (B.jname c)) = g /\ r_st r (B.jname c) = NS /\
    ~ In (B.jname c) (r_placed r) /\ (forall x, In x (B.jblocked c) <-> In x (r_bl r (B.jname c))) /\
    B.jest c = jc_est (job sc (B.jname c)).
Definition params_ok (sc : scenario) (g : N) (p : B.gparams) : Prop :=
  B.g_size p = gc_size (group sc g) /\ B.g_time p = gc_time (group sc g) /\ B.g_max p = gc_limit (group sc g) /\
  B.g_try p = gc_try (group sc g) /\ (1 <= B.g_size p)%N.

Definition payload (l : list B.cjob) : list (N * list N) := map (fun c => (B.jname c, B.jblocked c)) l.
Lemma payload_names l : map fst (payload l) = B.names l.
Proof. unfold payload, B.names. rewrite map_map. reflexivity. Qed.
Lemma sum_est_eq sc (l : list B.cjob) : (forall c, In c l -> B.jest c = jc_est (job sc (B.jname c))) ->
  System.sum_est sc (B.names l) = BP.sum_est l.
Proof.
  induction l as [|c t IH]; [reflexivity|]. intros H.
  change (System.sum_est sc (B.names (c :: t))) with (jc_est (job sc (B.jname c)) + System.sum_est sc (B.names t))%Z.
  change (BP.sum_est (c :: t)) with (B.jest c + BP.sum_est t)%Z.
  rewrite IH by (intros; apply H; right; assumption). rewrite (H c (or_introl eq_refl)). reflexivity.
Qed.

Theorem make_batch_valid sc r g p avail : view_ok sc r g avail -> params_ok sc g p ->
  B.mb_batch (B.make_batch p avail) <> [] ->
  valid_batch sc r g (payload (B.mb_batch (B.make_batch p avail))) = true.
Proof.
  intros [Hnd Hv] (Ps & Pt & Pm & Ptry & Psz) Hne.
  destruct (BP.make_batch_contract p avail Hnd) as (Bnd & (pre & Epre & Bin & _) & _ & Blim & Bcl & Btry & _).
  set (m := B.make_batch p avail) in *.
  assert (Hsub : forall c, In c (B.mb_batch m) -> In c avail).
  { intros c Hc. rewrite Epre. apply in_app_iff. left. apply Bin. exact Hc. }
  unfold valid_batch. rewrite payload_names. rewrite !andb_true_iff. repeat split.
  - destruct (B.mb_batch m); [contradiction|reflexivity].
  - apply nodupbN_spec. exact Bnd.
  - apply forallb_forall. intros [j b] Hjb. unfold payload in Hjb. apply in_map_iff in Hjb. destruct Hjb as (c & E & Hc).
    injection E as <- <-. cbn [fst snd]. destruct (Hv c (Hsub c Hc)) as (V1 & V2 & V3 & V4 & V5 & V6).
    rewrite !andb_true_iff. repeat split.
    + exact V1.
    + apply N.eqb_eq. exact V2.
    + rewrite V3. reflexivity.
    + apply negb_true_iff. apply memN_false. exact V4.
    + apply eqsetN_spec. exact V5.
    + apply subsetN_spec. intros x Hx. exact (Bcl c Hc x Hx).
    + destruct (B.jblocked c) eqn:Eb; [reflexivity|]. rewrite <- Ptry. apply (Btry c Hc). rewrite Eb. discriminate.
  - rewrite <- Pt. destruct (B.g_time p).
    + apply Z.leb_le. rewrite (sum_est_eq sc); [|intros c Hc; apply (Hv c (Hsub c Hc))]. rewrite <- Pm.
      destruct Blim as [Be|Bl]; [contradiction|exact Bl].
    + apply N.leb_le. unfold payload. rewrite map_length. rewrite <- Ps. lia.
Qed.

(* ---------- the whole submission part of a round ---------- *)
(* The acceptor demands `round_maximal` at the completion check: no NOT_SUBMITTED job without blockers is left unless
   the queue is full (or the submission is canceled).  The model of the submission loop of HpcSubmitter.run
   (Batch.submit_round, tied to the real code by the C07 correspondence) has exactly this property
   (BatchProofs.submit_round_maximal): so a session whose placed jobs and queue length are those the loop produced
   passes the guard. *)
Theorem round_maximal_of_submit_round sc (r0 r1 : session) depth groups ns oks idx rr :
  sc_max_nodes sc = Some depth ->
  NoDup (B.names ns) -> NoDup (map B.g_name groups) ->
  (* the candidate list covers the submitter's view: every NOT_SUBMITTED job of the table is a candidate with its
     remaining blockers, in a group that the round visits *)
  (forall j, In j (all_jobs sc) -> r_st r0 j = NS ->
     exists x, In x ns /\ B.jname x = j /\ B.jblocked x = r_bl r0 j /\ exists g, In g groups /\ B.jgroup x = B.g_name g) ->
  B.submit_round depth (N.of_nat (length (r_out r0))) idx oks groups ns = B.ROk rr ->
  (* the session after the loop: same table, the loop's jobs placed, the loop's queue length *)
  r_st r1 = r_st r0 -> r_bl r1 = r_bl r0 ->
  r_placed r1 = B.names (BP.subs_jobs (B.r_subs rr)) -> N.of_nat (length (r_out r1)) = B.r_out rr ->
  round_maximal sc r1 = true.
Proof.
  intros Hd Hns Hg Hview Hs Est Ebl Epl Eout. unfold round_maximal.
  destruct (BP.submit_round_maximal _ _ _ _ _ _ _ Hns Hg Hs) as [Hfull|Hall].
  - (* queue full *)
    unfold B.is_full, BatchGen.queue_full in Hfull. rewrite Hd. cbn [depth_ok]. rewrite Eout.
    apply N.leb_le in Hfull. replace (B.r_out rr <? depth) with false by (symmetry; apply N.ltb_ge; exact Hfull).
    cbn [negb]. rewrite orb_true_r. reflexivity.
  - apply orb_true_iff. right. apply forallb_forall. intros j Hj.
    destruct (r_st r1 j) eqn:E1; cbn [jstate_eqb andb negb orb]; try reflexivity.
    destruct (r_bl r1 j) as [|d t] eqn:E2; cbn [negb orb]; [|reflexivity].
    rewrite Est in E1. rewrite Ebl in E2. destruct (Hview j Hj E1) as (x & Hx & En & Eb & g & Hgi & Egx).
    apply memN_In. rewrite Epl, <- En. apply (Hall g x Hgi Hx Egx). rewrite Eb. exact E2.
Qed.
