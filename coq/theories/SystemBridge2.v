(* Bridge Layer A -> Layer B, second part: the job table that the model of Cluster._update_job_status (Status.v, tied
   to the real code by the C09 correspondence) writes at the end of a round - submitted jobs become SUBMITTED, completed
   names become DONE, blockers of submitted / done jobs are cleared, blocked jobs keep their current blockers - is a
   table the system acceptor accepts as the round's status update (guard `update_ok_job` of EUpdate). *)
From Coq Require Import List ZArith NArith Bool Arith Lia.
From Jade Require Import Base.
From Jade Require Status StatusProofs.
From Jade Require Import System SystemInv.
Import ListNotations.
Open Scope N_scope.
Set Default Timeout 300.

Module S := Status.
Module SP := StatusProofs.

Definition conv (x : S.jstate) : jstate :=
  match x with S.NOT_SUBMITTED => NS | S.SUBMITTED => SUB | S.DONE => DONE end.
Definition snap_of (jobs : list S.job) : list (N * (jstate * list N)) :=
  map (fun j => (S.j_name j, (conv (S.j_state j), S.j_blocked j))) jobs.
Lemma lookup_snap_of n jobs :
  lookup n (snap_of jobs) = option_map (fun j => (conv (S.j_state j), S.j_blocked j)) (S.find_job n jobs).
Proof.
  unfold snap_of, S.find_job. induction jobs as [|a r IH]; cbn; [reflexivity|].
  rewrite (N.eqb_sym n (S.j_name a)). destruct (N.eqb (S.j_name a) n); [reflexivity|exact IH].
Qed.

(* ---------- what the three loops do to one job ---------- *)
Lemma set_state_idem st j : S.set_state st (S.set_state st j) = S.set_state st j.
Proof. reflexivity. Qed.

Lemma submit_loop_at : forall L jobs jobs', S.submit_loop L jobs = S.Ok jobs' ->
  forall n, S.find_job n jobs' = if memN n L then option_map (S.set_state S.SUBMITTED) (S.find_job n jobs) else S.find_job n jobs.
Proof.
  induction L as [|x r IH]; intros jobs jobs' H n; cbn [S.submit_loop memN existsb] in *.
  - injection H as <-. reflexivity.
  - destruct (S.find_job x jobs) as [jx|] eqn:Ex; [|discriminate].
    destruct (S.jstate_eqb (S.j_state jx) S.SUBMITTED); [discriminate|].
    rewrite (IH _ _ H n). rewrite (SP.find_job_upd n x _ jobs (SP.np_set_state _)).
    unfold memN. cbn [existsb]. destruct (N.eqb n x) eqn:E.
    + apply N.eqb_eq in E. subst x. cbn [orb]. destruct (existsb (N.eqb n) r); [|reflexivity].
      destruct (S.find_job n jobs); reflexivity.
    + cbn [orb]. reflexivity.
Qed.

Lemma completed_loop_at proc : forall L jobs jobs', S.completed_loop L proc jobs = S.Ok jobs' ->
  (forall n, S.find_job n jobs' = if memN n L then option_map (S.set_state S.DONE) (S.find_job n jobs) else S.find_job n jobs) /\
  (forall n, In n L -> ~ In n proc).
Proof.
  induction L as [|x r IH]; intros jobs jobs' H; cbn [S.completed_loop] in *.
  - injection H as <-. split; [reflexivity|intros n []].
  - destruct (memN x proc) eqn:Ep; [discriminate|]. destruct (S.find_job x jobs) as [jx|] eqn:Ex; [|discriminate].
    destruct (IH _ _ H) as [A B]. split.
    + intros n. rewrite (A n). rewrite (SP.find_job_upd n x _ jobs (SP.np_set_state _)).
      unfold memN. cbn [existsb]. destruct (N.eqb n x) eqn:E.
      * apply N.eqb_eq in E. subst x. cbn [orb]. destruct (existsb (N.eqb n) r); [|reflexivity].
        destruct (S.find_job n jobs); reflexivity.
      * cbn [orb]. reflexivity.
    + intros n [<-|Hn]; [apply memN_false; exact Ep|apply B; exact Hn].
Qed.

Lemma blocked_loop_at (Bf : N -> list N) : forall L jobs jobs', (forall n bs, In (n, bs) L -> bs = Bf n) ->
  S.blocked_loop L jobs = S.Ok jobs' ->
  (forall n, S.find_job n jobs' = if memN n (map fst L) then option_map (S.set_blocked (Bf n)) (S.find_job n jobs) else S.find_job n jobs) /\
  (forall n, In n (map fst L) -> exists j, S.find_job n jobs = Some j /\ S.j_state j = S.NOT_SUBMITTED).
Proof.
  induction L as [|[x bs] r IH]; intros jobs jobs' HB H; cbn [S.blocked_loop map fst] in *.
  - injection H as <-. split; [reflexivity|intros n []].
  - destruct (S.find_job x jobs) as [jx|] eqn:Ex; [|discriminate].
    destruct (S.jstate_eqb (S.j_state jx) S.NOT_SUBMITTED) eqn:Es; [|discriminate].
    assert (Ebs : bs = Bf x) by (apply HB; left; reflexivity). subst bs.
    destruct (IH _ _ (fun n b Hi => HB n b (or_intror Hi)) H) as [A B]. split.
    + intros n. rewrite (A n). rewrite (SP.find_job_upd n x _ jobs (SP.np_set_blocked _)).
      unfold memN. cbn [existsb]. destruct (N.eqb n x) eqn:E.
      * apply N.eqb_eq in E. subst x. cbn [orb]. destruct (existsb (N.eqb n) (map fst r)); [|reflexivity].
        destruct (S.find_job n jobs); reflexivity.
      * cbn [orb]. reflexivity.
    + intros n [<-|Hn].
      * exists jx. split; [exact Ex|]. apply SP.jstate_eqb_eq. exact Es.
      * destruct (B n Hn) as (j & Ej & Sj). rewrite (SP.find_job_upd n x _ jobs (SP.np_set_blocked _)) in Ej.
        destruct (N.eqb n x) eqn:E.
        { apply N.eqb_eq in E. subst x. exists jx. split; [exact Ex|]. rewrite Ex in Ej. cbn in Ej. injection Ej as <-. exact Sj. }
        { exists j. auto. }
Qed.

Definition clearf (j : S.job) : S.job := match S.j_state j with S.NOT_SUBMITTED => j | _ => S.set_blocked [] j end.
Lemma find_job_clear n jobs : S.find_job n (S.clear_loop jobs) = option_map clearf (S.find_job n jobs).
Proof.
  unfold S.clear_loop, S.find_job. induction jobs as [|a r IH]; cbn; [reflexivity|].
  assert (En : S.j_name (match S.j_state a with S.NOT_SUBMITTED => a | _ => S.set_blocked [] a end) = S.j_name a)
    by (destruct (S.j_state a); reflexivity).
  rewrite En. destruct (N.eqb (S.j_name a) n); [reflexivity|exact IH].
Qed.
Lemma eqsetN_refl l : eqsetN l l = true.
Proof. apply eqsetN_spec. intros x. tauto. Qed.
Lemma memN_iff (cl seen : list N) n : (forall x, In x cl <-> In x seen) -> memN n cl = memN n seen.
Proof.
  intros H. destruct (memN n cl) eqn:A, (memN n seen) eqn:B; try reflexivity.
  - apply memN_In in A. apply H in A. apply memN_false in B. contradiction.
  - apply memN_In in B. apply H in B. apply memN_false in A. contradiction.
Qed.

(* the table Cluster._update_job_status writes is accepted by the system model as the round's status update *)
Theorem update_table_accepted (r : session) (jobs j2 j3 j4 : list S.job) (bl : list (N * list N)) (cl : list N) (sn : snapshot) :
  (forall n, In n (S.names jobs) ->
     exists j, S.find_job n jobs = Some j /\ conv (S.j_state j) = r_st r n /\ S.j_blocked j = r_bl r n) ->
  S.submit_loop (r_placed r) jobs = S.Ok j2 ->
  (forall n bs, In (n, bs) bl -> bs = r_bl r n) ->
  S.blocked_loop bl j2 = S.Ok j3 ->
  (forall n, In n cl <-> In n (r_seen r)) ->
  S.completed_loop cl (r_placed r ++ map fst bl) j3 = S.Ok j4 ->
  (forall n, In n (r_seen r) -> r_st r n <> NS) ->
  (forall n, In n (r_placed r) -> r_st r n = NS) ->
  sn_jobs sn = snap_of (S.clear_loop j4) ->
  forall n, In n (S.names jobs) -> update_ok_job r sn n = true.
Proof.
  intros Hview H2 Hbl H3 Hcl H4 Hseen Hplaced Hsn n Hn.
  destruct (Hview n Hn) as (j0 & E0 & Est & Ebl).
  pose proof (submit_loop_at _ _ _ H2 n) as F2.
  destruct (blocked_loop_at (r_bl r) _ _ _ Hbl H3) as [F3 B3]. specialize (F3 n).
  destruct (completed_loop_at _ _ _ _ H4) as [F4 B4]. specialize (F4 n).
  unfold update_ok_job. rewrite Hsn, lookup_snap_of, find_job_clear, F4, F3, F2, E0.
  rewrite (memN_iff cl (r_seen r) n Hcl).
  destruct (memN n (r_placed r)) eqn:Ep.
  - (* placed in this round *)
    apply memN_In in Ep. pose proof (Hplaced n Ep) as Ens.
    destruct (memN n (map fst bl)) eqn:Eb.
    { exfalso. apply memN_In in Eb. destruct (B3 n Eb) as (j & Ej & Sj). rewrite F2 in Ej.
      replace (memN n (r_placed r)) with true in Ej by (symmetry; apply memN_In; exact Ep).
      rewrite E0 in Ej. cbn in Ej. injection Ej as <-. discriminate Sj. }
    destruct (memN n (r_seen r)) eqn:Es.
    { exfalso. apply memN_In in Es. apply (Hseen n Es). exact Ens. }
    cbn. reflexivity.
  - destruct (r_st r n) eqn:Er.
    + (* still not submitted *)
      destruct (memN n (r_seen r)) eqn:Es; [exfalso; apply memN_In in Es; exact (Hseen n Es Er)|].
      assert (Sj : S.j_state j0 = S.NOT_SUBMITTED) by (destruct (S.j_state j0); cbn in Est; congruence).
      destruct (memN n (map fst bl)); cbn; unfold clearf; cbn; rewrite Sj; cbn; rewrite ?Ebl, ?Est, ?eqsetN_refl; reflexivity.
    + (* submitted: done iff a result was seen *)
      assert (Sj : S.j_state j0 = S.SUBMITTED) by (destruct (S.j_state j0); cbn in Est; congruence).
      destruct (memN n (map fst bl)) eqn:Eb.
      { exfalso. apply memN_In in Eb. destruct (B3 n Eb) as (j & Ej & Sj'). rewrite F2, E0 in Ej. injection Ej as <-. congruence. }
      destruct (memN n (r_seen r)); cbn; unfold clearf; cbn; rewrite ?Sj; cbn; rewrite ?Sj, ?Est; reflexivity.
    + assert (Sj : S.j_state j0 = S.DONE) by (destruct (S.j_state j0); cbn in Est; congruence).
      destruct (memN n (map fst bl)) eqn:Eb.
      { exfalso. apply memN_In in Eb. destruct (B3 n Eb) as (j & Ej & Sj'). rewrite F2, E0 in Ej. injection Ej as <-. congruence. }
      destruct (memN n (r_seen r)); cbn; unfold clearf; cbn; rewrite ?Sj; cbn; rewrite ?Sj, ?Est; reflexivity.
Qed.
