(* C20, statistics: proofs about Stats.v (sample lists of any length). *)
From Coq Require Import List ZArith QArith Bool Lia.
From Jade Require Import Base Stats.
From Jade.Gen Require Import ReportsGen.
Import ListNotations.
Set Default Timeout 60.
Open Scope Z_scope.

(* ---------- specification vocabulary ---------- *)
Definition is_min (m : Z) (l : list Z) : Prop := In m l /\ forall x, In x l -> m <= x.
Definition is_max (m : Z) (l : list Z) : Prop := In m l /\ forall x, In x l -> x <= m.
Definition total (l : list Z) : Z := fold_right Z.add 0 l.
Definition len (l : list Z) : Z := Z.of_nat (length l).

Lemma total_app a b : total (a ++ b) = total a + total b.
Proof. induction a as [|x a IH]; cbn; [reflexivity|]. unfold total in *. rewrite IH. lia. Qed.
Lemma len_app a b : len (a ++ b) = len a + len b.
Proof. unfold len. rewrite app_length. lia. Qed.

(* ---------- node statistics ---------- *)
Lemma gt_max v m : (if v >? m then v else m) = Z.max m v.
Proof. destruct (Z.gtb_spec v m); lia. Qed.
Lemma lt_min v m : (if v <? m then v else m) = Z.min m v.
Proof. destruct (Z.ltb_spec v m); lia. Qed.

Lemma node_fold l : forall s,
  let r := fold_left node_update l s in
  s_max r = fold_left Z.max l (s_max s) /\ s_min r = fold_left Z.min l (s_min s) /\
  s_sum r = s_sum s + total l /\ s_count r = s_count s + len l.
Proof.
  induction l as [|v l IH]; intros s; cbn.
  - unfold len. cbn. repeat split; lia.
  - destruct (IH (node_update s v)) as [H1 [H2 [H3 H4]]]. cbn in H1, H2, H3, H4.
    rewrite gt_max in H1. rewrite lt_min in H2. repeat split; try assumption.
    + rewrite H3. unfold total. cbn. lia.
    + rewrite H4. unfold len. cbn [length]. lia.
Qed.

Lemma fold_max_spec l : forall a, let m := fold_left Z.max l a in
  (m = a \/ In m l) /\ a <= m /\ forall x, In x l -> x <= m.
Proof.
  induction l as [|v l IH]; intros a; cbn.
  - split; [left; reflexivity|]. split; [lia|intros ? []].
  - destruct (IH (Z.max a v)) as [H1 [H2 H3]]. split; [|split].
    + destruct H1 as [H1|H1]; [|right; right; exact H1]. destruct (Z.max_spec a v) as [[_ E]|[_ E]]; rewrite E in *; [right; left; symmetry; exact H1|left; exact H1].
    + lia.
    + intros x [<-|Hx]; [lia|apply H3; exact Hx].
Qed.
Lemma fold_min_spec l : forall a, let m := fold_left Z.min l a in
  (m = a \/ In m l) /\ m <= a /\ forall x, In x l -> m <= x.
Proof.
  induction l as [|v l IH]; intros a; cbn.
  - split; [left; reflexivity|]. split; [lia|intros ? []].
  - destruct (IH (Z.min a v)) as [H1 [H2 H3]]. split; [|split].
    + destruct H1 as [H1|H1]; [|right; right; exact H1]. destruct (Z.min_spec a v) as [[_ E]|[_ E]]; rewrite E in *; [left; exact H1|right; left; symmetry; exact H1].
    + lia.
    + intros x [<-|Hx]; [lia|apply H3; exact Hx].
Qed.

(* what the running summaries hold after ANY sample list (no hypothesis) *)
Theorem node_run_general l :
  s_max (node_run l) = fold_left Z.max l stats_init_maximum /\
  s_min (node_run l) = fold_left Z.min l stats_init_minimum /\
  s_sum (node_run l) = stats_init_sum + total l /\ s_count (node_run l) = len l.
Proof.
  unfold node_run. destruct (node_fold l node_init) as [H1 [H2 [H3 H4]]]. cbn in *. repeat split; assumption.
Qed.

Lemma inject_Z_nonzero c : c <> 0 -> ~ inject_Z c == 0%Q.
Proof. intros H E. unfold Qeq in E. cbn in E. lia. Qed.
Lemma average_spec s : s_count s <> 0 -> (average s * inject_Z (s_count s) == inject_Z (s_sum s))%Q.
Proof. intros H. unfold average. rewrite Qmult_comm. apply Qmult_div_r. apply inject_Z_nonzero. exact H. Qed.

(* the report is right for every non-empty list of samples within [0, sys.maxsize] *)
Theorem node_stats_correct l : l <> [] -> Forall (fun v => 0 <= v <= sys_maxsize) l ->
  let s := node_run l in
  is_min (s_min s) l /\ is_max (s_max s) l /\ s_sum s = total l /\ s_count s = len l /\
  (average s * inject_Z (len l) == inject_Z (total l))%Q /\
  node_finalize s = Some (average s, s_max s, s_min s).
Proof.
  intros Hne Hall s. destruct (node_run_general l) as [H1 [H2 [H3 H4]]]. fold s in H1, H2, H3, H4.
  rewrite Forall_forall in Hall.
  assert (Hc : s_count s <> 0).
  { rewrite H4. unfold len. destruct l; [congruence|]. cbn [length]. lia. }
  destruct l as [|v0 l0] eqn:El; [congruence|]. rewrite <- El in *.
  assert (Hv0 : In v0 l) by (rewrite El; left; reflexivity).
  split; [|split; [|split; [|split; [|split]]]].
  - rewrite H2. destruct (fold_min_spec l stats_init_minimum) as [A [B C]]. cbn in A, B, C. split; [|exact C].
    destruct A as [A|A]; [|exact A]. pose proof (C v0 Hv0) as L. pose proof (Hall v0 Hv0) as R.
    rewrite A in L. unfold stats_init_minimum, sys_maxsize in *. assert (v0 = 9223372036854775807) by lia.
    rewrite A. unfold stats_init_minimum. subst v0. exact Hv0.
  - rewrite H1. destruct (fold_max_spec l stats_init_maximum) as [A [B C]]. cbn in A, B, C. split; [|exact C].
    destruct A as [A|A]; [|exact A]. pose proof (C v0 Hv0) as L. pose proof (Hall v0 Hv0) as R.
    rewrite A in L. unfold stats_init_maximum in *. assert (v0 = 0) by lia.
    rewrite A. unfold stats_init_maximum. subst v0. exact Hv0.
  - rewrite H3. unfold stats_init_sum. lia.
  - exact H4.
  - rewrite <- H4. assert (E : s_sum s = total l) by (rewrite H3; unfold stats_init_sum; lia). rewrite <- E.
    apply average_spec. exact Hc.
  - unfold node_finalize. destruct (Z.eqb_spec (s_count s) 0); [contradiction|reflexivity].
Qed.

(* no update, no report *)
Theorem node_no_samples : node_finalize (node_run []) = None.
Proof. reflexivity. Qed.

(* the two hypotheses are needed: outside [0, sys.maxsize] the initial values show through *)
Theorem node_min_above_maxsize l : Forall (fun v => sys_maxsize < v) l -> s_min (node_run l) = sys_maxsize.
Proof.
  intros H. destruct (node_run_general l) as [_ [H2 _]]. rewrite H2. clear H2.
  change stats_init_minimum with sys_maxsize. induction l as [|v l IH]; cbn; [reflexivity|].
  inversion H; subst. rewrite Z.min_l by lia. apply IH. assumption.
Qed.
Theorem node_max_negative l : Forall (fun v => v < 0) l -> s_max (node_run l) = 0.
Proof.
  intros H. destruct (node_run_general l) as [H1 _]. rewrite H1. clear H1.
  change stats_init_maximum with 0. induction l as [|v l IH]; cbn; [reflexivity|].
  inversion H; subst. rewrite Z.max_l by lia. apply IH. assumption.
Qed.

(* ---------- process statistics (first sample initialises; `elif` for the minimum) ---------- *)
Definition proc_inv (s : summ) (seen : list Z) : Prop :=
  is_min (s_min s) seen /\ is_max (s_max s) seen /\ s_sum s = total seen /\ s_count s = len seen.

Lemma proc_step s seen v : proc_inv s seen ->
  exists s', proc_update (Some s) v = Some s' /\ proc_inv s' (seen ++ [v]).
Proof.
  intros [[Hm1 Hm2] [[HM1 HM2] [Hs Hc]]]. eexists. split; [reflexivity|].
  assert (Hle : s_min s <= s_max s) by (apply Hm2; exact HM1).
  unfold proc_inv. cbn. rewrite total_app, len_app. unfold total at 2, len at 2. cbn.
  split; [|split; [|split; [lia|lia]]].
  - destruct (Z.gtb_spec v (s_max s)) as [G|G].
    + split; [apply in_or_app; left; exact Hm1|]. intros x Hx. apply in_app_or in Hx.
      destruct Hx as [Hx|[<-|[]]]; [apply Hm2; exact Hx|lia].
    + destruct (Z.ltb_spec v (s_min s)) as [L|L].
      * split; [apply in_or_app; right; left; reflexivity|]. intros x Hx. apply in_app_or in Hx.
        destruct Hx as [Hx|[<-|[]]]; [specialize (Hm2 x Hx); lia|lia].
      * split; [apply in_or_app; left; exact Hm1|]. intros x Hx. apply in_app_or in Hx.
        destruct Hx as [Hx|[<-|[]]]; [apply Hm2; exact Hx|lia].
  - destruct (Z.gtb_spec v (s_max s)) as [G|G].
    + split; [apply in_or_app; right; left; reflexivity|]. intros x Hx. apply in_app_or in Hx.
      destruct Hx as [Hx|[<-|[]]]; [specialize (HM2 x Hx); lia|lia].
    + split; [apply in_or_app; left; exact HM1|]. intros x Hx. apply in_app_or in Hx.
      destruct Hx as [Hx|[<-|[]]]; [apply HM2; exact Hx|lia].
Qed.

Lemma proc_fold l : forall s seen, proc_inv s seen ->
  exists s', fold_left proc_update l (Some s) = Some s' /\ proc_inv s' (seen ++ l).
Proof.
  induction l as [|v l IH]; intros s seen H.
  - exists s. rewrite app_nil_r. split; [reflexivity|exact H].
  - destruct (proc_step s seen v H) as [s1 [E1 H1]]. destruct (IH s1 (seen ++ [v]) H1) as [s2 [E2 H2]].
    exists s2. cbn [fold_left]. rewrite E1. rewrite <- app_assoc in H2. split; assumption.
Qed.

(* for every non-empty sample list, whatever the values *)
Theorem proc_stats_correct l : l <> [] ->
  exists s, proc_run l = Some s /\
  is_min (s_min s) l /\ is_max (s_max s) l /\ s_sum s = total l /\ s_count s = len l /\
  (average s * inject_Z (len l) == inject_Z (total l))%Q.
Proof.
  intros Hne. destruct l as [|v l]; [congruence|]. unfold proc_run. cbn [fold_left proc_update].
  assert (H0 : proc_inv (mkSumm v v v 1) [v]).
  { unfold proc_inv, is_min, is_max, total, len. cbn. repeat split; try lia; try (left; reflexivity);
      intros x [<-|[]]; lia. }
  destruct (proc_fold l _ _ H0) as [s [E [A [B [C D]]]]]. cbn [app] in *. exists s. split; [exact E|].
  repeat split; try apply A; try apply B; try assumption.
  rewrite <- D, <- C. apply average_spec. rewrite D. unfold len. cbn [length]. lia.
Qed.
Theorem proc_no_samples : proc_finalize (proc_run []) = None.
Proof. reflexivity. Qed.
