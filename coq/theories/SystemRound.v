(* The order of one submitter round.  Gen/RoundGen.v lists the protocol steps of HpcSubmitter.run in the
   order the source performs them (regenerated from /repo on every run); this file ties that list to the
   order the model expects and proves that the acceptor enforces it: within one round of one process the
   step indices of its events never decrease.  So an accepted impl trace follows the order of the source
   the model was generated from, and a reordering of the source is either rejected by the translator /
   this file or shows up as a rejected impl trace. *)
From Coq Require Import List ZArith NArith Bool Arith Lia.
From Jade Require Import Base System SystemMonitors SystemProofs SystemInv.
From Jade.Gen Require Import RoundGen.
Import ListNotations.
Open Scope N_scope.
Set Default Timeout 300.

Definition model_round : list round_step :=
  [SMarkerCheck; SPoll; SCollect; SMarkerTouch; SCancelGate; SSubmit; SUpdate; SCheck; SMarkerRemove].
Lemma round_order_tied : run_steps = model_round.
Proof. reflexivity. Qed.

Definition step_index (k : round_step) : nat :=
  match k with SMarkerCheck => 0 | SPoll => 1 | SCollect => 2 | SMarkerTouch => 3 | SCancelGate => 4
             | SSubmit => 5 | SUpdate => 6 | SCheck => 7 | SMarkerRemove => 8 end%nat.
Lemma step_index_pos k : nth_error run_steps (step_index k) = Some k.
Proof. destruct k; reflexivity. Qed.

(* which protocol step of which process an event is *)
Definition ev_step (e : event) : option (N * round_step) :=
  match e with
  | EMarkerFound p => Some (p, SMarkerCheck)
  | ESqueue p _ => Some (p, SPoll)
  | ECollect p _ => Some (p, SCollect)
  | ESubCancel p _ => Some (p, SCollect)
  | EMarkerTouch p => Some (p, SMarkerTouch)
  | ESbatch p _ _ _ _ _ => Some (p, SSubmit)
  | EUpdate p _ => Some (p, SUpdate)
  | ECheckComplete p _ => Some (p, SCheck)
  | EMarkerRemove p => Some (p, SMarkerRemove)
  | _ => None
  end.

(* how far the round of a session has got *)
Definition phase (r : session) : nat :=
  if negb (r_owns r) && r_updated r then 8
  else match r_check r with
       | Some _ => 7
       | None => if r_updated r then 6
                 else if negb (isnil (r_placed r)) then 5
                 else if r_owns r then 3
                 else if r_collected r then 2
                 else if r_polled r then 1 else 0
       end%nat.
Definition ph (s : state) (p : N) : option nat :=
  match holder s with
  | Some r => if N.eqb (r_pid r) p && r_round r then Some (phase r) else None
  | None => None
  end.

(* flags of a session *)
Record InvR (s : state) : Prop := {
  v_upd : forall r, holder s = Some r -> r_updated r = true -> r_collected r = true;
  v_own : forall r, holder s = Some r -> r_owns r = true -> r_collected r = true;
  v_chk : forall r, holder s = Some r -> r_check r <> None -> r_collected r = true /\ (r_owns r = true \/ r_updated r = true);
  v_pid : forall r, holder s = Some r -> True
}.
Lemma invr_init : InvR init.
Proof. constructor; cbn; intros; try discriminate; auto. Qed.
Lemma invr_step sc s e s' : step sc s e = Some s' -> InvR s -> InvR s'.
Proof.
  intros H [U O C _]. constructor; [| | |auto].
  - revert H. intros H. prep e H. all: hlit. all: try basic.
  - revert H. intros H. prep e H. all: hlit. all: try basic.
  - revert H. intros H. prep e H. all: hlit. all: try basic.
    all: try (intros Hc; split; [reflexivity|apply C; exact Hc]).
    all: try (intros _; apply C; congruence).
Qed.

(* a protocol step of the holder: the round had not got further than this step, and has got at least this far now *)
Lemma ev_phase sc s e s' p k : step sc s e = Some s' -> Inv1 sc s -> InvR s -> ev_step e = Some (p, k) ->
  exists a b, ph s p = Some a /\ ph s' p = Some b /\ (a <= step_index k <= b)%nat.
Proof.
  intros H I1 [U O C _] Ek. pose proof (i_notowns_placed sc s I1) as NP.
  revert H. intros H. prep e H. all: try discriminate Ek. all: injection Ek as <- <-.
  all: unfold ph, phase, set_session, with_holder; cbn [holder]; rw_holder; spec_holder.
  all: cbn [r_pid r_alive r_st r_bl r_index r_out r_round r_canceled r_owns r_placed r_seen r_updated r_check
              r_summary r_teardown r_setup r_creator r_polled r_collected].
  all: repeat match goal with E : r_pid _ = _ |- _ => rewrite E in * end; rewrite ?N.eqb_refl.
  all: repeat match goal with E : r_round _ = true |- _ => rewrite E in * end; cbn [andb].
  all: do 2 eexists; split; [reflexivity|split; [reflexivity|]].
  all: try (vb; match goal with |- context [isnil (?l ++ map fst ?jobs)] =>
              assert (Hne : isnil (l ++ map fst jobs) = false) by (destruct l; [destruct jobs; [contradiction|reflexivity]|reflexivity]); rewrite Hne end).
  all: destruct (r_owns s0) eqn:Eo, (r_updated s0) eqn:Eu, (r_collected s0) eqn:Ec, (r_polled s0) eqn:Ep;
       try discriminate; cbn [negb andb orb isnil step_index] in *.
  all: try (destruct (r_check s0) eqn:Ek); try discriminate; cbn [negb andb orb isnil step_index] in *.
  all: try (destruct (r_placed s0) eqn:El); cbn [negb andb orb isnil step_index app] in *; try lia.
  all: exfalso.
  all: try (specialize (U eq_refl); discriminate).
  all: try (specialize (O eq_refl); discriminate).
  all: try (specialize (NP eq_refl); discriminate).
  all: try (destruct C as [C1 [C2|C2]]; [discriminate|discriminate|discriminate]).
  all: try (destruct C as [C1 [C2|C2]]; [discriminate|try discriminate; try (specialize (U eq_refl); discriminate)..]).
Qed.

Lemma ph_other s p q a : ph s q = Some a -> q <> p -> ph s p = None.
Proof.
  unfold ph. destruct (holder s) as [r|]; [|discriminate]. destruct (N.eqb (r_pid r) q) eqn:E; [|discriminate].
  apply N.eqb_eq in E. intros _ Hne. replace (N.eqb (r_pid r) p) with false; [reflexivity|].
  symmetry. apply N.eqb_neq. congruence.
Qed.

(* every step of a run: the round of process p never moves backwards, and nobody enters a round except by ERound *)
Lemma step_phase sc s e s' p : step sc s e = Some s' -> Inv1 sc s -> InvR s -> e <> ERound p ->
  match ph s p, ph s' p with
  | Some a, Some b => (a <= b)%nat
  | None, Some _ => False
  | _, None => True
  end.
Proof.
  intros H I1 IR Hne. destruct (ev_step e) as [[q k]|] eqn:Ek.
  - destruct (ev_phase sc s e s' q k H I1 IR Ek) as (a & b & A & B & L).
    destruct (N.eq_dec q p) as [->|Hq]; [rewrite A, B; lia|].
    rewrite (ph_other _ _ _ _ A Hq), (ph_other _ _ _ _ B Hq). exact I.
  - prep e H. all: try discriminate Ek.
    all: unfold ph, phase, set_session, with_holder, new_session; cbn [holder]; rw_holder.
    all: cbn [r_pid r_alive r_st r_bl r_index r_out r_round r_canceled r_owns r_placed r_seen r_updated r_check
              r_summary r_teardown r_setup r_creator r_polled r_collected].
    all: repeat match goal with E : r_round _ = _ |- _ => rewrite E in * end.
    all: rewrite ?andb_false_r, ?andb_true_r; cbv beta iota.
    all: try exact I.
    all: try (destruct (holder s) as [r0|]; [destruct (N.eqb (r_pid r0) p && r_round r0); [lia|exact I]|exact I]).
    all: try (match goal with |- context [N.eqb ?a ?pp] => destruct (N.eqb a pp) eqn:Eq end; cbn [andb]; try exact I; try lia).
    all: try (apply N.eqb_eq in Eq; exfalso; apply Hne; congruence).
    all: try (match goal with |- match ?x with _ => _ end => destruct x; [lia|exact I] end).
    all: match goal with E : r_check _ = Some _ |- _ => rewrite E end; destruct (negb (r_owns s0) && r_updated s0); lia.
Qed.

Lemma invs_run_from sc tr : forall s s', run_from sc s tr = Some s' -> Inv1 sc s -> InvR s -> Inv1 sc s' /\ InvR s'.
Proof.
  induction tr as [|e t IH]; intros s s' Hr I1 IR; cbn [run_from] in Hr.
  - injection Hr as <-. auto.
  - destruct (step sc s e) as [s1|] eqn:Es; [|discriminate]. eapply IH; eauto using inv1_step, invr_step.
Qed.

Definition no_round (p : N) (tr : list event) : bool :=
  forallb (fun e => match e with ERound q => negb (N.eqb q p) | _ => true end) tr.

(* across a stretch of the run without ERound p, the phase of p's round only grows, and p does not enter a round *)
Lemma stretch_phase sc tr : forall s s' p, run_from sc s tr = Some s' -> Inv1 sc s -> InvR s -> no_round p tr = true ->
  match ph s p, ph s' p with
  | Some a, Some b => (a <= b)%nat
  | None, Some _ => False
  | _, None => True
  end.
Proof.
  unfold no_round. induction tr as [|e t IH]; intros s s' p Hr I1 IR Hn; cbn [run_from forallb] in *.
  - injection Hr as <-. destruct (ph s p); [lia|exact I].
  - destruct (step sc s e) as [s1|] eqn:Es; [|discriminate]. apply andb_true_iff in Hn. destruct Hn as [Hn1 Hn2].
    assert (Hne : e <> ERound p) by (intros ->; rewrite N.eqb_refl in Hn1; discriminate).
    pose proof (step_phase sc s e s1 p Es I1 IR Hne) as SP.
    pose proof (IH s1 s' p Hr (inv1_step _ _ _ _ Es I1) (invr_step _ _ _ _ Es IR) Hn2) as R.
    destruct (ph s p), (ph s1 p), (ph s' p); try contradiction; try exact I; lia.
Qed.

(* the acceptor enforces the order of the source: two protocol steps of the same process in the same round
   (no ERound of that process in between) occur in the order of Gen/RoundGen.run_steps *)
Theorem round_order_enforced sc tr1 e1 tr2 e2 tr3 s p k1 k2 :
  run sc (tr1 ++ e1 :: tr2 ++ e2 :: tr3) = Some s ->
  ev_step e1 = Some (p, k1) -> ev_step e2 = Some (p, k2) -> no_round p tr2 = true ->
  (step_index k1 <= step_index k2)%nat.
Proof.
  intros Hr E1 E2 Hn. unfold run in Hr. rewrite run_from_app in Hr.
  destruct (run_from sc init tr1) as [sa|] eqn:Ra; [|discriminate].
  destruct (invs_run_from sc tr1 _ _ Ra (inv1_init sc) invr_init) as [Ia Va].
  cbn [run_from] in Hr. destruct (step sc sa e1) as [sb|] eqn:S1; [|discriminate].
  rewrite run_from_app in Hr. destruct (run_from sc sb tr2) as [sc2|] eqn:Rb; [|discriminate].
  cbn [run_from] in Hr. destruct (step sc sc2 e2) as [sd|] eqn:S2; [|discriminate]. clear Hr.
  destruct (ev_phase sc sa e1 sb p k1 S1 Ia Va E1) as (a1 & b1 & _ & B1 & L1).
  pose proof (inv1_step _ _ _ _ S1 Ia) as Ib. pose proof (invr_step _ _ _ _ S1 Va) as Vb.
  destruct (invs_run_from sc tr2 _ _ Rb Ib Vb) as [Ic Vc].
  destruct (ev_phase sc sc2 e2 sd p k2 S2 Ic Vc E2) as (a2 & b2 & A2 & _ & L2).
  pose proof (stretch_phase sc tr2 sb sc2 p Rb Ib Vb Hn) as SP. rewrite B1, A2 in SP. lia.
Qed.
