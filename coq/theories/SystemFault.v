(* What "fault-free" means for a run of the system model, event by event (executable; no proofs here
   so that impl traces can be judged even when a proof is broken).  SystemFF1-3.v / SystemComplete.v
   prove the completeness half of C03 / C05 for the runs that satisfy it. *)
From Coq Require Import List ZArith NArith Bool.
From Jade Require Import Base System SystemMonitors.
Import ListNotations.
Open Scope N_scope.


(* An event of a fault-free run, judged in the state in which it occurs: no sbatch failure, no killed
   process, no scheduler error, no cancellation, no stale submitter.lock; a batch ends only when its
   node has nothing queued or running ("every batch runs to its end"); result collection reads every
   row that is in the node files, except rows of batches the collecting process still tracks as active
   (a node may append while the files are being read; such a row is collected in a later round); the submitter role is given back only by a process that is outside
   a round or has finished its round (completion check done, submitter.lock removed). *)
(* job j belongs to a batch that session r still tracks as queued or running *)
Definition tracked (s : state) (r : session) (j : N) : bool :=
  existsb (fun h => memN (h_id h) (r_out r) && memN j (map fst (h_jobs h))) (hpc s).

Definition ff_ev (sc : scenario) (s : state) (e : event) : bool :=
  match e with
  | ESbatch _ _ _ _ _ None => false
  | EKill _ => false
  | ESqueueFail _ => false
  | EScancel _ _ => false
  | EMarkCanceled _ => false
  | EMarkerFound _ => false
  | EBatchEnd id => match find_n id (nodes s) with
                    | Some n => isnil (n_queue n) && isnil (n_running n)
                    | None => false end
  | ECollect _ rs => match holder s with
                     | Some r => forallb (fun rw => mem_row rw rs || tracked s r (rw_job rw)) (pending s)
                     | None => false end
  | EDemote _ => match holder s with
                 | Some r => negb (r_round r) || (match r_check r with Some _ => negb (r_owns r) | None => false end)
                 | None => true end
  | _ => true
  end.
Fixpoint fault_free (sc : scenario) (s : state) (tr : list event) : bool :=
  match tr with
  | [] => true
  | e :: t => ff_ev sc s e && match step sc s e with Some s' => fault_free sc s' t | None => false end
  end.


(* ---------- executable tests for the hypotheses `acyclic` / `nodes_ok` of the completeness theorems (soundness:
   SystemAcyclic.v).  Ranks are assigned in passes: a job gets rank 1 + max rank of its blockers once all of them
   (which must be configured jobs) have one; |jobs| passes suffice for an acyclic graph. ---------- *)
Fixpoint lookup_rank (j : N) (a : list (N * nat)) : option nat :=
  match a with [] => None | (k, r) :: t => if N.eqb j k then Some r else lookup_rank j t end.

(* the rank a job could get now: 1 + the largest rank of its blockers, if they all have one *)
Fixpoint deps_rank (ds : list N) (a : list (N * nat)) : option nat :=
  match ds with
  | [] => Some O
  | d :: t => match lookup_rank d a, deps_rank t a with
              | Some r, Some m => Some (Nat.max (S r) m)
              | _, _ => None
              end
  end.

Definition pass (sc : scenario) (a : list (N * nat)) : list (N * nat) :=
  fold_left (fun acc j => match lookup_rank j acc with
                          | Some _ => acc
                          | None => match deps_rank (deps sc j) acc with Some r => (j, r) :: acc | None => acc end
                          end) (all_jobs sc) a.

Fixpoint passes (n : nat) (sc : scenario) (a : list (N * nat)) : list (N * nat) :=
  match n with O => a | S k => passes k sc (pass sc a) end.

Definition acyclicb (sc : scenario) : bool :=
  let a := passes (length (sc_jobs sc)) sc [] in
  forallb (fun j => match lookup_rank j a with Some _ => true | None => false end) (all_jobs sc)
  && forallb (fun j => forallb (fun d => memN d (all_jobs sc)) (deps sc j)) (all_jobs sc).
Definition nodes_okb (sc : scenario) : bool := depth_ok (sc_max_nodes sc) 0.


(* index of the first event that is not fault-free (for diagnostics) *)
Fixpoint first_fault (sc : scenario) (s : state) (tr : list event) (i : N) : option N :=
  match tr with
  | [] => None
  | e :: t => if ff_ev sc s e
              then match step sc s e with Some s' => first_fault sc s' t (i + 1) | None => None end
              else Some i
  end.

(* the acceptor's verdict, the monitors, whether the trace is fault-free, where it stops being so, and whether the
   scenario satisfies the static hypotheses (acyclic, at least one node) of the completeness theorems *)
Definition verdict2 (sc : scenario) (tr : list event) : (option N * list bool) * bool * option N * bool :=
  (verdict sc tr, fault_free sc init tr, first_fault sc init tr 0, acyclicb sc && nodes_okb sc).
