(* C05, progress: from a quiescent state - no batch of the submission queued or running, nobody holds
   the submitter role - a submitter round that hands no batch to the HPC decides that the submission is
   complete (its completion check returns true): so one try-submit-jobs either submits at least one batch
   or completes the submission.  Proved for every continuation accepted by the model in which no batch
   is successfully submitted (any number of processes, refused promotions, failed sbatch calls ...). *)
From Coq Require Import List ZArith NArith Bool Arith Lia.
From Jade Require Import Base System SystemMonitors SystemProofs SystemInv SystemLimits.
Import ListNotations.
Open Scope N_scope.
Set Default Timeout 300.

Definition sbatch_ok (e : event) : bool := match e with ESbatch _ _ _ _ _ (Some _) => true | _ => false end.

Record Quiet (s : state) : Prop := {
  q_none_active : act_ids (hpc s) = [];
  q_polled : forall r, holder s = Some r -> r_polled r = true -> r_out r = [];
  q_owner : forall r, holder s = Some r -> r_owns r = true -> r_out r = [];
  q_updated : forall r, holder s = Some r -> r_updated r = true -> r_owns r = true -> ids s = []
}.

Lemma act_ids_set_nil id x l : act_ids l = [] -> act_ids (set_h id x l) = [] \/ exists h, In h l /\ h_id h = id /\ h_active h = false.
Proof.
  intros Hn. destruct (act_ids (set_h id x l)) eqn:E; [left; reflexivity|]. right.
  assert (Hin : In n (act_ids (set_h id x l))) by (rewrite E; left; reflexivity).
  unfold act_ids, set_h in Hin. apply in_map_iff in Hin. destruct Hin as (h' & Eh & Hf). apply filter_In in Hf. destruct Hf as [Hm Ha].
  apply in_map_iff in Hm. destruct Hm as (h & E2 & Hh). destruct (N.eqb (h_id h) id) eqn:Eid.
  - exists h. split; [exact Hh|]. apply N.eqb_eq in Eid. split; [exact Eid|].
    destruct (h_active h) eqn:Ea; [|reflexivity]. exfalso.
    assert (In (h_id h) (act_ids l)) by (unfold act_ids; apply in_map; apply filter_In; auto). rewrite Hn in H. contradiction.
  - subst h'. exfalso. assert (In (h_id h) (act_ids l)) by (unfold act_ids; apply in_map; apply filter_In; auto). rewrite Hn in H. contradiction.
Qed.
Lemma eqsetN_nil_l a : eqsetN a [] = true -> a = [].
Proof. unfold eqsetN. destruct a; [reflexivity|]. cbn. discriminate. Qed.
Lemma incl_nil_eq {A} (l : list A) : incl l [] -> l = [].
Proof. destruct l; [reflexivity|]. intros H. exfalso. apply (H a). left. reflexivity. Qed.

Lemma filter_mem_nil (l : list N) : filter (fun i => memN i []) l = [].
Proof. induction l; cbn; auto. Qed.
Lemma active_entry_in l h : In h l -> h_active h = true -> In (h_id h) (act_ids l).
Proof. intros Hh Ha. unfold act_ids. apply in_map. apply filter_In. auto. Qed.

Ltac left_goals := match goal with EV := ?x |- _ => idtac x end.
Lemma quiet_step sc s e s' : step sc s e = Some s' -> sbatch_ok e = false -> Quiet s -> Quiet s'.
Proof.
  intros H Hs [Q1 Q2 Q3 Q4].
  prep e H. all: try discriminate Hs.
  all: try (match goal with Fh : find_h _ _ = Some _ |- _ => apply find_h_In in Fh; destruct Fh as [Fh Fhid] end).
  all: constructor; hlit; try basic.
  all: lazymatch goal with EV := ?x |- _ =>
    lazymatch x with
    | ESqueue _ _ =>
      intros _; match goal with Q : eqsetN _ (active_ids _) = true |- _ =>
        unfold active_ids in Q; fold (act_ids (hpc s)) in Q; rewrite Q1 in Q;
        apply eqsetN_nil_l in Q; subst end; apply filter_mem_nil
    | EUpdate _ _ =>
      intros _ _; match goal with Q : eqsetN (sn_ids _) (r_out _) = true, Ow : r_owns _ = true |- _ =>
        rewrite (Q3 Ow) in Q; apply eqsetN_nil_l in Q; exact Q end
    | EMarkerRemove _ => intros _ D; discriminate D
    | EBatchStart _ =>
      exfalso; match goal with Fh : In ?h0 (hpc _), St : h_state ?h0 = HPending |- _ =>
        assert (A : In (h_id h0) (act_ids (hpc s))) by (apply active_entry_in; [exact Fh|unfold h_active; rewrite St; reflexivity]);
        rewrite Q1 in A; contradiction end
    | EScancel _ _ =>
      first [ exact Q1
            | exfalso; match goal with Fh : In ?h0 (hpc _), Ac : h_active ?h0 = true |- _ =>
                pose proof (active_entry_in _ _ Fh Ac) as A; rewrite Q1 in A; contradiction end ]
    | EBatchEnd _ => first [ exact Q1 | rewrite act_ids_rm; [rewrite Q1; reflexivity|reflexivity] ]
    end end.
Qed.

Lemma quiet_run sc tr : forall s s', run_from sc s tr = Some s' -> forallb (fun e => negb (sbatch_ok e)) tr = true -> Quiet s -> Quiet s'.
Proof.
  induction tr as [|e t IH]; intros s s' Hr Hn Q; cbn [run_from] in Hr.
  - injection Hr as <-. exact Q.
  - destruct (step sc s e) as [s1|] eqn:Es; [|discriminate]. cbn in Hn. apply andb_true_iff in Hn. destruct Hn as [He Ht].
    apply negb_true_iff in He. eapply IH; eauto using quiet_step.
Qed.

Definition quiescent (s : state) : Prop := act_ids (hpc s) = [] /\ holder s = None.
Lemma quiescent_quiet s : quiescent s -> Quiet s.
Proof. intros [A B]. constructor; [exact A|intros r E; rewrite B in E; discriminate..]. Qed.

Theorem progress sc s tr1 p b tr2 s' : quiescent s ->
  run_from sc s (tr1 ++ ECheckComplete p b :: tr2) = Some s' ->
  (exists e, In e tr1 /\ sbatch_ok e = true) \/ b = true.
Proof.
  intros Hq Hr. destruct (forallb (fun e => negb (sbatch_ok e)) tr1) eqn:En.
  - right. rewrite run_from_app in Hr. destruct (run_from sc s tr1) as [s1|] eqn:E1; [|discriminate].
    pose proof (quiet_run _ _ _ _ E1 En (quiescent_quiet _ Hq)) as [Q1 Q2 Q3 Q4].
    cbn [run_from] in Hr. destruct (step sc s1 (ECheckComplete p b)) as [s2|] eqn:Es; [|discriminate]. clear Hr.
    revert Es. intros Es. unfold step in Es. cbv beta iota in Es.
    destruct (in_round s1 p) as [r|] eqn:Er; [|discriminate]. apply in_round_some in Er. destruct Er as (Eh & _).
    match type of Es with (if ?c then _ else _) = _ => destruct c eqn:G; [|discriminate] end.
    repeat match goal with F : _ && _ = true |- _ => apply andb_true_iff in F; destruct F end.
    assert (Hids : ids s1 = []).
    { assert (Ro : r_out r = []) by (apply (Q3 r Eh); assumption).
      match goal with D : r_updated r || negb _ = true |- _ => apply skip_update_spec in D; destruct D as [Du|(_ & _ & De)] end.
      - apply (Q4 r Eh Du); assumption.
      - rewrite Ro in De. unfold eqsetN in De. apply andb_true_iff in De. destruct De as [_ De]. rewrite subsetN_spec in De.
        apply incl_nil_eq. exact De. }
    match goal with B : Bool.eqb b _ = true |- _ => apply Bool.eqb_prop in B; rewrite B, Hids end.
    rewrite check_complete_spec. apply orb_true_r.
  - left. assert (Hex : existsb sbatch_ok tr1 = true).
    { clear -En. induction tr1 as [|x t IH]; cbn in *; [discriminate|]. destruct (sbatch_ok x); cbn in *; auto. }
    apply existsb_exists in Hex. exact Hex.
Qed.

(* the same statement about a whole run from the initial state *)
Corollary progress_run sc tr0 tr1 p b tr2 s0 s' : run sc tr0 = Some s0 -> quiescent s0 ->
  run sc (tr0 ++ tr1 ++ ECheckComplete p b :: tr2) = Some s' ->
  (exists e, In e tr1 /\ sbatch_ok e = true) \/ b = true.
Proof.
  intros H0 Hq Hr. unfold run in *. rewrite run_from_app, H0 in Hr. eapply progress; eauto.
Qed.

(* "after finitely many rounds": every successful submission hands at least one job that was never
   handed before, so an accepted trace contains at most |jobs| successful submissions - the rounds of
   the first alternative of `progress` are bounded by the number of configured jobs. *)
Lemma sbatch_ok_handed sc s e s' : step sc s e = Some s' -> sbatch_ok e = true -> (1 <= length (ev_handed e))%nat.
Proof.
  intros H Hk. destruct e; try discriminate. destruct res; [|discriminate]. cbn [ev_handed].
  unfold step in H. destruct (in_round s p) as [r|]; [|discriminate].
  match type of H with (if ?c then _ else _) = _ => destruct c eqn:G; [|discriminate] end.
  rewrite !andb_true_iff in G. destruct G as (((((((((_ & _) & _) & _) & _) & V) & _) & _) & _) & _).
  unfold valid_batch in V. rewrite !andb_true_iff in V. destruct V as (((V & _) & _) & _).
  destruct jobs; [discriminate|]. cbn. lia.
Qed.
Lemma sbatch_count_handed sc tr : forall s s', run_from sc s tr = Some s' ->
  (length (filter sbatch_ok tr) <= length (handed_of tr))%nat.
Proof.
  induction tr as [|e t IH]; intros s s' Hr; cbn [run_from] in Hr; [cbn; lia|].
  destruct (step sc s e) as [s1|] eqn:Es; [|discriminate]. specialize (IH _ _ Hr).
  unfold handed_of in *. cbn [flat_map filter]. rewrite app_length.
  destruct (sbatch_ok e) eqn:Ek; [pose proof (sbatch_ok_handed _ _ _ _ Es Ek); cbn [length]; lia|lia].
Qed.
Theorem sbatch_bound sc tr s : run sc tr = Some s ->
  (length (filter sbatch_ok tr) <= length (sc_jobs sc))%nat.
Proof.
  intros H. unfold run in H. pose proof (sbatch_count_handed _ _ _ _ H) as Hc.
  pose proof (inv1_run_from _ _ _ _ H (inv1_init sc)) as HI.
  destruct (ghost_run_from _ _ _ _ H) as (A & _). cbn in A.
  assert (Hl : (length (handed_of tr) <= length (all_jobs sc))%nat).
  { apply NoDup_incl_length; rewrite <- A; [apply (i_nodup_handed _ _ HI)|intros j Hj; apply (i_handed_jobs _ _ HI j Hj)]. }
  unfold all_jobs in Hl. rewrite map_length, seq_length in Hl. lia.
Qed.
