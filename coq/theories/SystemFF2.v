(* Fault-free runs, part 2: the job table seen by the holder of the submitter role agrees with the
   consolidated results (DONE <-> has a processed row, SUBMITTED -> handed to the HPC, a blocker still
   listed has no processed row). *)
From Coq Require Import List ZArith NArith Bool Arith Lia Permutation.
From Jade Require Import Base System SystemMonitors SystemProofs SystemInv SystemOrder SystemLimits SystemHooks SystemLaunch SystemTheorems SystemFF1.
Import ListNotations.
Open Scope N_scope.
Set Default Timeout 300.

Lemma update_ok_sub r sn j : update_ok_job r sn j = true -> ~ In j (r_placed r) -> r_st r j = SUB ->
  (In j (r_seen r) -> snap_st sn j = DONE) /\ (~ In j (r_seen r) -> snap_st sn j = SUB).
Proof.
  unfold update_ok_job, snap_st. destruct (lookup j (sn_jobs sn)) as [[x b]|]; [|discriminate].
  intros Hu Hp Hs. destruct (memN j (r_placed r)) eqn:Em; [apply memN_In in Em; contradiction|].
  rewrite Hs in Hu. apply andb_true_iff in Hu. destruct Hu as [Hu _].
  destruct (memN j (r_seen r)) eqn:Es; apply jstate_eqb_eq in Hu; subst x.
  - split; [reflexivity|]. intros Hn. apply memN_In in Es. contradiction.
  - split; [|reflexivity]. intros Hi. apply memN_false in Es. contradiction.
Qed.

Record FFb (sc : scenario) (s : state) : Prop := {
  b_rowjobs : forall j, In j (row_names (rows s)) -> In j (all_jobs sc);
  b_rownames : NoDup (row_names (rows s));
  b_run : forall n j, In n (nodes s) -> In j (n_running n) -> In j (handed s);
  b_pend : forall rw, In rw (pending s) -> In (rw_job rw) (handed s);
  b_done : forall j, In j (all_jobs sc) -> vst s j = DONE -> In j (P s);
  b_proc : forall j, In j (P s) ->
           vst s j = DONE \/ exists r, holder s = Some r /\ r_updated r = false /\ In j (r_seen r) /\ r_st r j = SUB;
  b_sub : forall j, In j (all_jobs sc) -> vst s j = SUB -> In j (handed s);
  b_handed : forall j, In j (handed s) -> vst s j <> NS \/ exists r, holder s = Some r /\ In j (r_placed r);
  b_bl : forall j d, In j (all_jobs sc) -> vst s j = NS -> In d (vbl s j) -> In d (deps sc j) /\ ~ In d (P s)
}.
Lemma ffb_init sc : FFb sc init.
Proof. constructor; cbn; intros; try discriminate; try contradiction; auto. constructor. Qed.

Lemma queue_handed sc s n j : Inv4 sc s -> In n (nodes s) -> In j (qnames n) -> In j (handed s).
Proof.
  intros I4 Hn Hj. destruct (m_queue sc s I4 n Hn) as (h & Hh & _ & _ & Hq & _).
  rewrite (m_handed sc s I4). apply in_flat_map. exists h. split; [exact Hh|]. apply Hq. exact Hj.
Qed.
Lemma lookup_qnames {A} j (l : list (N * A)) v : lookup j l = Some v -> In j (map fst l).
Proof. intros E. apply lookup_In in E. apply in_map_iff. exists (j, v). auto. Qed.

Lemma rows_where s j : rows_kept s -> In j (row_names (rows s)) ->
  (exists rw, In rw (pending s) /\ rw_job rw = j) \/ In j (P s).
Proof.
  unfold rows_kept, P, row_names. intros K Hj. apply in_map_iff in Hj. destruct Hj as (rw & E & Hin).
  apply (Permutation_in _ K) in Hin. apply in_app_iff in Hin. destruct Hin as [Hin|Hin].
  - left. eauto.
  - right. apply in_map_iff. eauto.
Qed.
Lemma rows_from s : rows_kept s -> forall j, ((exists rw, In rw (pending s) /\ rw_job rw = j) \/ In j (P s)) -> In j (row_names (rows s)).
Proof.
  unfold rows_kept, P, row_names. intros K j [(rw & Hin & E)|Hj].
  - apply in_map_iff. exists rw. split; [exact E|]. apply (Permutation_in _ (Permutation_sym K)). apply in_app_iff. auto.
  - apply in_map_iff in Hj. destruct Hj as (rw & E & Hin). apply in_map_iff. exists rw. split; [exact E|].
    apply (Permutation_in _ (Permutation_sym K)). apply in_app_iff. auto.
Qed.

Lemma dead_full id l n' : In n' (dead_map id l) ->
  exists n, In n l /\ n_id n' = n_id n /\ n_queue n' = n_queue n /\ n_running n' = n_running n.
Proof.
  rewrite in_map_iff. intros (n & E & Hin). exists n. split; [exact Hin|].
  destruct (N.eqb (n_id n) id) eqn:Eq; subst; cbn; auto. apply N.eqb_eq in Eq. auto.
Qed.

Ltac sescbn := cbn [r_pid r_alive r_st r_bl r_index r_out r_round r_canceled r_owns r_placed r_seen r_updated r_check
                   r_summary r_teardown r_setup r_creator r_polled r_collected] in *.
Ltac ffstart2 e H Hff FR := prep e H; cbn [ff_ev] in Hff; try discriminate Hff;
  try (match goal with Q : true = _ && false |- _ => rewrite andb_false_r in Q; discriminate Q end);
  unfold vst, vbl, P in *;
  try (match goal with C : created _ = false |- _ => rewrite (FR C) in * end);
  hlit; sescbn.

Lemma demote_copy sc s r : FFa sc s -> Inv1 sc s -> holder s = Some r ->
  negb (r_round r) || match r_check r with Some _ => negb (r_owns r) | None => false end = true ->
  (forall j, r_st r j = st s j /\ r_bl r j = bl s j) /\ r_placed r = [] /\ (r_updated r = true \/ r_seen r = []).
Proof.
  intros HA HI1 Eh Hd. apply orb_true_iff in Hd. destruct Hd as [Hd|Hd].
  - apply negb_true_iff in Hd. destruct (a_fresh sc s HA r Eh Hd) as (A & B & C).
    split; [apply (a_copy sc s HA r Eh); auto|]. auto.
  - destruct (r_check r) eqn:Ec; [|discriminate]. apply negb_true_iff in Hd.
    assert (U : r_updated r = true) by (apply (a_chk sc s HA r Eh); [congruence|exact Hd]).
    split; [apply (a_copy sc s HA r Eh); auto|]. split; [apply (i_notowns_placed sc s HI1 r Eh Hd)|auto].
Qed.

Section GroupB.
Variable sc : scenario.
Variables (s s' : state) (e : event).
Hypothesis H : step sc s e = Some s'.
Hypothesis Hff : ff_ev sc s e = true.
Hypothesis HI1 : Inv1 sc s.
Hypothesis HI3 : Inv3 sc s.
Hypothesis HI4 : Inv4 sc s.
Hypothesis HA : FFa sc s.
Hypothesis HK : rows_kept s.
Hypothesis HI : FFb sc s.

Lemma b1 : forall j, In j (row_names (rows s')) -> In j (all_jobs sc).
Proof.
  pose proof (b_rowjobs sc s HI) as O. pose proof (b_run sc s HI) as RN. pose proof (i_handed_jobs sc s HI1) as HJ.
  revert H Hff. intros H Hff. ffstart e H Hff. all: try basic.
  all: intros Hj; rewrite row_names_app in Hj; apply in_app_iff in Hj; destruct Hj as [Hj|[<-|[]]]; [apply O; exact Hj|].
  all: cbn [rw_job].
  all: try (apply is_job_all_jobs; assumption).
  all: match goal with Fn : find_n _ _ = Some _ |- _ => apply find_n_In in Fn; destruct Fn as [Fn _] end.
  all: apply HJ.
  all: first [ eapply queue_handed; [exact HI4|eassumption|]; eapply lookup_qnames; eassumption
             | eapply RN; [eassumption|]; apply memN_In; assumption ].
Qed.

Lemma b2 : NoDup (row_names (rows s')).
Proof.
  pose proof (b_rownames sc s HI) as O. pose proof (b_proc sc s HI) as PR. pose proof (b_pend sc s HI) as PD.
  pose proof (b_handed sc s HI) as HD. pose proof (i_notowns_placed sc s HI1) as NP.
  revert H Hff. intros H Hff. ffstart e H Hff. all: try basic.
  all: rewrite row_names_app; cbn [row_names map rw_job]; apply NoDup_app_iff; repeat split;
    [exact O|repeat constructor; intros []|intros x Hx [<-|[]]].
  all: lazymatch goal with EV := ?x |- _ =>
         lazymatch x with
         | EAppend _ _ => match goal with Q : memN _ _ = false |- _ => apply memN_false in Q; contradiction end
         | ESubCancel _ _ =>
           match goal with Q : jstate_eqb _ _ = true |- _ => apply jstate_eqb_eq in Q; rename Q into Ens end;
           destruct (rows_where s _ HK Hx) as [(rw0 & Hp & Ej)|Hp];
           [ apply PD in Hp; rewrite Ej in Hp; destruct (HD _ Hp) as [D|(r0 & E0 & D)];
             [contradiction|injection E0 as <-; rewrite NP in D by assumption; contradiction]
           | destruct (PR _ Hp) as [D|(r0 & E0 & _ & _ & D)]; [congruence|injection E0 as <-; congruence] ]
         end
       end.
Qed.

Lemma b3 : forall n j, In n (nodes s') -> In j (n_running n) -> In j (handed s').
Proof.
  pose proof (b_run sc s HI) as O.
  revert H Hff. intros H Hff. ffstart e H Hff. all: try basic.
  all: intros nx jx Hn Hj.
  all: repeat match goal with Fn : find_n _ _ = Some _ |- _ => apply find_n_In in Fn; destruct Fn as [Fn ?] end.
  all: lazymatch goal with EV := ?x |- _ =>
         lazymatch x with
         | ESbatch _ _ _ _ _ _ => apply in_app_iff; left; eapply O; eauto
         | EBatchStart _ => apply in_app_iff in Hn; destruct Hn as [Hn|[<-|[]]]; [eapply O; eauto|contradiction]
         | EBatchEnd _ => apply dead_full in Hn; destruct Hn as (n1 & Hn1 & _ & _ & Er); rewrite Er in Hj; eapply O; eauto
         | ELaunch _ _ =>
           apply set_n_In' in Hn; destruct Hn as [->|[Hn _]]; [|eapply O; eauto]; cbn [n_running] in Hj;
           apply in_app_iff in Hj; destruct Hj as [Hj|[<-|[]]]; [eapply O; eauto|];
           eapply queue_handed; [exact HI4|eassumption|]; eapply lookup_qnames; eassumption
         | EAppend _ _ =>
           apply set_n_In' in Hn; destruct Hn as [->|[Hn _]]; [|eapply O; eauto]; cbn [n_running] in Hj;
           try (apply filter_In in Hj; destruct Hj as [Hj _]); eapply O; eauto
         | _ => apply set_n_In' in Hn; destruct Hn as [->|[Hn _]]; [|eapply O; eauto]; cbn [n_running] in Hj;
           first [ contradiction | eapply O; eauto | repeat match goal with E : n_running _ = _ |- _ => rewrite <- E in * end; eapply O; eauto ]
         end
       end.
Qed.

Lemma b4 : forall rw, In rw (pending s') -> In (rw_job rw) (handed s').
Proof.
  pose proof (b_pend sc s HI) as O. pose proof (b_run sc s HI) as RN.
  revert H Hff. intros H Hff. ffstart e H Hff. all: try basic.
  all: intros rwx Hin.
  all: repeat match goal with Fn : find_n _ _ = Some _ |- _ => apply find_n_In in Fn; destruct Fn as [Fn ?] end.
  all: lazymatch goal with EV := ?x |- _ =>
         lazymatch x with
         | ECollect _ _ => apply O; eapply remove_rows_incl; exact Hin
         | ESbatch _ _ _ _ _ _ => apply in_app_iff; left; apply O; exact Hin
         | EAppend _ _ =>
           apply in_app_iff in Hin; destruct Hin as [Hin|[<-|[]]]; [apply O; exact Hin|];
           first [ eapply queue_handed; [exact HI4|eassumption|]; eapply lookup_qnames; eassumption
                 | eapply RN; [eassumption|]; apply memN_In; assumption ]
         end
       end.
Qed.

Lemma b5 : forall j, In j (all_jobs sc) -> vst s' j = DONE -> In j (P s').
Proof.
  pose proof (b_done sc s HI) as O. pose proof (k_fresh sc s HI3) as FR. pose proof (a_copy sc s HA) as CP.
  pose proof (a_fresh sc s HA) as FS. pose proof (a_chk sc s HA) as CK. pose proof (a_seen sc s HA) as SN.
  pose proof (a_placed_ns sc s HA) as PN.
  revert H Hff. intros H Hff. ffstart2 e H Hff FR. all: try basic.
  all: intros Hj Hd.
  all: lazymatch goal with EV := ?x |- _ =>
         lazymatch x with
         | EDemote _ =>
           match goal with E : holder s = Some ?r |- _ => destruct (demote_copy sc s r HA HI1 E Hff) as (CE & _ & _) end;
           apply O; [exact Hj|]; rewrite (proj1 (CE _)); exact Hd
         | ECollect _ _ => rewrite row_names_app; apply in_app_iff; left; apply O; assumption
         | ESubCancel _ _ =>
           rewrite row_names_app; apply in_app_iff; unfold upd in Hd;
           match type of Hd with context [N.eqb ?a ?b] => destruct (N.eqb a b) eqn:Eab end;
           [apply N.eqb_eq in Eab; subst; right; left; reflexivity|left; apply O; assumption]
         | EUpdate _ _ =>
           match goal with F : forallb (update_ok_job _ _) _ = true |- _ =>
             rewrite forallb_forall in F; specialize (F _ Hj); pose proof (update_ok_sub _ _ _ F) as F3;
             apply update_ok_spec in F; destruct F as [F1 F2] end;
           match goal with |- In ?j _ => destruct (in_dec N.eq_dec j (r_placed s0)) as [Hp|Hp] end;
           [destruct (F1 Hp) as [F _]; congruence|];
           specialize (F2 Hp); specialize (F3 Hp); destruct (r_st s0 _) eqn:Est;
           [ destruct F2 as [F _]; congruence
           | match goal with |- In ?j _ => destruct (in_dec N.eq_dec j (r_seen s0)) as [Hs|Hs] end;
             [apply SN; exact Hs|destruct (F3 eq_refl) as [_ F]; specialize (F Hs); congruence]
           | apply O; assumption ]
         end
       end.
Qed.

Lemma b6 : forall j, In j (P s') ->
  vst s' j = DONE \/ exists r, holder s' = Some r /\ r_updated r = false /\ In j (r_seen r) /\ r_st r j = SUB.
Proof.
  pose proof (b_proc sc s HI) as O. pose proof (k_fresh sc s HI3) as FR.
  pose proof (a_fresh sc s HA) as FS. pose proof (a_placed_ns sc s HA) as PN.
  pose proof (b_pend sc s HI) as PD. pose proof (b_handed sc s HI) as HD. pose proof (i_notowns_placed sc s HI1) as NP.
  pose proof (b_rowjobs sc s HI) as RJ.
  revert H Hff. intros H Hff. ffstart2 e H Hff FR. all: try basic.
  all: try (intros Hj; destruct (O _ Hj) as [D|(r0 & E0 & U & Sn & St)]; [left; exact D|];
            first [ discriminate E0
                  | injection E0 as <-; right; eexists; split; [reflexivity|]; sescbn; repeat split;
                    first [assumption | congruence | repeat match goal with E : r_seen _ = _ |- _ => rewrite E in * end; assumption]
                  | injection E0 as <-; exfalso;
                    repeat match goal with E : r_seen _ = _ |- _ => rewrite E in * end; first [contradiction|congruence] ]; fail).
  all: lazymatch goal with EV := ?x |- _ =>
         lazymatch x with
         | EDemote _ =>
           intros Hj; match goal with E : holder s = Some ?r |- _ => destruct (demote_copy sc s r HA HI1 E Hff) as (CE & _ & US) end;
           left; destruct (O _ Hj) as [D|(r0 & E0 & U & Sn & St)];
           [rewrite <- (proj1 (CE _)); exact D|injection E0 as <-; destruct US as [US|US]; [congruence|rewrite US in Sn; contradiction]]
         | ERound _ =>
           intros Hj; left; destruct (O _ Hj) as [D|(r0 & E0 & U & Sn & St)]; [exact D|];
           injection E0 as <-; destruct FS as (FS1 & _); [assumption|]; rewrite FS1 in Sn; contradiction
         | ECollect _ _ =>
           intros Hj; rewrite row_names_app in Hj; apply in_app_iff in Hj; destruct Hj as [Hj|Hj];
           [ destruct (O _ Hj) as [D|(r0 & E0 & U & Sn & St)]; [left; exact D|];
             injection E0 as <-; right; eexists; split; [reflexivity|]; sescbn; repeat split; try assumption; apply in_app_iff; left; exact Sn
           | pose proof Hj as Hj2; apply in_map_iff in Hj2; destruct Hj2 as (rw0 & Erw & Hrw);
             match goal with A : all_mem_rows _ (pending s) = true |- _ => apply all_mem_rows_incl in A; apply A in Hrw end;
             apply PD in Hrw; rewrite Erw in Hrw; destruct (HD _ Hrw) as [D|(r0 & E0 & D)];
             [|injection E0 as <-; rewrite NP in D by assumption; contradiction];
             destruct (r_st s0 _) eqn:Est; [contradiction| |left; reflexivity];
             right; eexists; split; [reflexivity|]; sescbn; repeat split; try assumption; apply in_app_iff; right; exact Hj ]
         | ESubCancel _ _ =>
           intros Hj; rewrite row_names_app in Hj; apply in_app_iff in Hj; destruct Hj as [Hj|[<-|[]]];
           [|left; unfold upd; cbn [rw_job]; rewrite N.eqb_refl; reflexivity];
           match goal with Q : jstate_eqb _ _ = true |- _ => apply jstate_eqb_eq in Q; rename Q into Ens end;
           unfold upd; destruct (O _ Hj) as [D|(r0 & E0 & U & Sn & St)];
           [ left; match goal with |- context [N.eqb ?a ?b] => destruct (N.eqb a b) end; [reflexivity|exact D] |];
           injection E0 as <-;
           match goal with |- context [N.eqb ?a ?b] => destruct (N.eqb a b) eqn:Eab end;
           [apply N.eqb_eq in Eab; subst; congruence|];
           right; eexists; split; [reflexivity|]; sescbn; rewrite Eab; repeat split; try assumption; apply in_app_iff; left; exact Sn
         | EUpdate _ _ =>
           intros Hj; left;
           assert (Hjj : In j (all_jobs sc)) by (apply RJ; apply (rows_from s HK); right; exact Hj);
           match goal with F : forallb (update_ok_job _ _) _ = true |- _ =>
             rewrite forallb_forall in F; specialize (F _ Hjj); pose proof (update_ok_sub _ _ _ F) as F3;
             apply update_ok_spec in F; destruct F as [F1 F2] end;
           destruct (O _ Hj) as [D|(r0 & E0 & U & Sn & St)];
           [ assert (Hp : ~ In j (r_placed s0)) by (intros Hp; rewrite (PN _ ltac:(assumption) Hp) in D; discriminate);
             specialize (F2 Hp); rewrite D in F2; destruct F2 as [F _]; exact F
           | injection E0 as <-;
             assert (Hp : ~ In j (r_placed s0)) by (intros Hp; rewrite (PN _ U Hp) in St; discriminate);
             destruct (F3 Hp St) as [F _]; apply F; exact Sn ]
         end
       end.
Qed.

Lemma b7 : forall j, In j (all_jobs sc) -> vst s' j = SUB -> In j (handed s').
Proof.
  pose proof (b_sub sc s HI) as O. pose proof (k_fresh sc s HI3) as FR. pose proof (a_placed sc s HA) as PL.
  revert H Hff. intros H Hff. ffstart2 e H Hff FR. all: try basic.
  all: intros Hj Hd.
  all: lazymatch goal with EV := ?x |- _ =>
         lazymatch x with
         | EDemote _ =>
           match goal with E : holder s = Some ?r |- _ => destruct (demote_copy sc s r HA HI1 E Hff) as (CE & _ & _) end;
           apply O; [exact Hj|]; rewrite (proj1 (CE _)); exact Hd
         | ESbatch _ _ _ _ _ _ => apply in_app_iff; left; apply O; assumption
         | EUpdate _ _ =>
           match goal with F : forallb (update_ok_job _ _) _ = true |- _ =>
             rewrite forallb_forall in F; specialize (F _ Hj); apply update_ok_spec in F; destruct F as [F1 F2] end;
           match goal with |- In ?j _ => destruct (in_dec N.eq_dec j (r_placed s0)) as [Hp|Hp] end;
           [apply PL; exact Hp|];
           specialize (F2 Hp); destruct (r_st s0 _) eqn:Est;
           [ destruct F2 as [F _]; congruence | apply O; assumption | destruct F2 as [F _]; congruence ]
         end
       end.
Qed.

Lemma b8 : forall j, In j (handed s') -> vst s' j <> NS \/ exists r, holder s' = Some r /\ In j (r_placed r).
Proof.
  pose proof (b_handed sc s HI) as O. pose proof (k_fresh sc s HI3) as FR. pose proof (a_fresh sc s HA) as FS.
  pose proof (i_updated_placed sc s HI1) as UP. pose proof (a_copy sc s HA) as CP. pose proof (i_handed_jobs sc s HI1) as HJ.
  pose proof (a_created sc s HA) as CR.
  revert H Hff. intros H Hff. ffstart2 e H Hff FR. all: try basic.
  all: try (intros Hj; destruct (O _ Hj) as [D|(r0 & E0 & D)]; [left; exact D|];
            first [ discriminate E0
                  | injection E0 as <-; right; eexists; split; [reflexivity|]; sescbn;
                    repeat match goal with E : r_placed _ = _ |- _ => rewrite E in * end; first [assumption|contradiction] ]; fail).
  all: lazymatch goal with EV := ?x |- _ =>
         lazymatch x with
         | EDemote _ =>
           intros Hj; match goal with E : holder s = Some ?r |- _ => destruct (demote_copy sc s r HA HI1 E Hff) as (CE & PE & _) end;
           left; destruct (O _ Hj) as [D|(r0 & E0 & D)];
           [rewrite <- (proj1 (CE _)); exact D|injection E0 as <-; rewrite PE in D; contradiction]
         | ERound _ =>
           intros Hj; left; destruct (O _ Hj) as [D|(r0 & E0 & D)]; [exact D|];
           injection E0 as <-; destruct FS as (_ & FS2 & _); [assumption|]; rewrite FS2 in D; contradiction
         | ESubCancel _ _ =>
           intros Hj; destruct (O _ Hj) as [D|(r0 & E0 & D)];
           [ left; unfold upd; match goal with |- context [N.eqb ?a ?b] => destruct (N.eqb a b) end; [discriminate|exact D]
           | injection E0 as <-; right; eexists; split; [reflexivity|]; sescbn; exact D ]
         | ESbatch _ _ _ _ _ _ =>
           intros Hj; apply in_app_iff in Hj; destruct Hj as [Hj|Hj];
           [ destruct (O _ Hj) as [D|(r0 & E0 & D)]; [left; exact D|];
             injection E0 as <-; right; eexists; split; [reflexivity|]; sescbn; apply in_app_iff; left; exact D
           | right; eexists; split; [reflexivity|]; sescbn; apply in_app_iff; right; exact Hj ]
         | EUpdate _ _ =>
           intros Hj; left;
           match goal with F : forallb (update_ok_job _ _) _ = true |- _ =>
             rewrite forallb_forall in F; specialize (F _ (HJ _ Hj)); apply update_ok_spec in F; destruct F as [F1 F2] end;
           match goal with |- ?f ?j <> _ => destruct (in_dec N.eq_dec j (r_placed s0)) as [Hp|Hp] end;
           [destruct (F1 Hp) as [F _]; rewrite F; discriminate|];
           destruct (O _ Hj) as [D|(r0 & E0 & D)]; [|injection E0 as <-; contradiction];
           specialize (F2 Hp); destruct (r_st s0 _) eqn:Est;
           [ contradiction | destruct F2 as [F _]; exact F | destruct F2 as [F _]; rewrite F; discriminate ]
         | EMarkerRemove _ =>
           intros Hj; left; destruct (O _ Hj) as [D|(r0 & E0 & D)]; [exact D|];
           injection E0 as <-;
           first [ repeat match goal with E : r_placed _ = _ |- _ => rewrite E in * end; contradiction
                 | match goal with U : r_updated _ = true |- _ => rewrite (proj1 (CP (or_introl U) _)); apply UP; [exact U|exact D] end ]
         end
       end.
Qed.

Lemma b9 : forall j d, In j (all_jobs sc) -> vst s' j = NS -> In d (vbl s' j) -> In d (deps sc j) /\ ~ In d (P s').
Proof.
  pose proof (b_bl sc s HI) as O. pose proof (k_fresh sc s HI3) as FR. pose proof (a_created sc s HA) as CR.
  revert H Hff. intros H Hff. ffstart2 e H Hff FR. all: try basic.
  all: intros Hj Hn Hd.
  all: lazymatch goal with EV := ?x |- _ =>
         lazymatch x with
         | ECreate _ => split; [exact Hd|]; destruct CR as (_ & _ & CP0 & _); [assumption|]; rewrite CP0; intros []
         | EDemote _ =>
           match goal with E : holder s = Some ?r |- _ => destruct (demote_copy sc s r HA HI1 E Hff) as (CE & _ & _) end;
           apply (O j); [exact Hj|rewrite (proj1 (CE _)); exact Hn|rewrite (proj2 (CE _)); exact Hd]
         | ECollect _ _ =>
           rewrite Hn in Hd; apply diffN_spec in Hd; destruct Hd as [Hd1 Hd2]; destruct (O _ d Hj Hn Hd1) as [A B];
           split; [exact A|]; rewrite row_names_app; intros Hx; apply in_app_iff in Hx; destruct Hx; contradiction
         | ESubCancel _ _ =>
           unfold upd in Hn;
           match type of Hn with context [N.eqb ?a ?b] => destruct (N.eqb a b) eqn:Eab end; [discriminate|];
           rewrite Hn in Hd; apply diffN_spec in Hd; destruct Hd as [Hd1 Hd2]; destruct (O _ d Hj Hn Hd1) as [A B];
           split; [exact A|]; rewrite row_names_app; intros Hx; apply in_app_iff in Hx; destruct Hx as [Hx|Hx]; [contradiction|];
           apply Hd2; exact Hx
         | EUpdate _ _ =>
           match goal with F : forallb (update_ok_job _ _) _ = true |- _ =>
             rewrite forallb_forall in F; specialize (F _ Hj); apply update_ok_spec in F; destruct F as [F1 F2] end;
           destruct (in_dec N.eq_dec j (r_placed s0)) as [Hp|Hp];
           [destruct (F1 Hp) as [F _]; congruence|];
           specialize (F2 Hp); destruct (r_st s0 j) eqn:Est;
           [ destruct F2 as [_ F]; apply (O j d Hj Est); apply F; exact Hd
           | destruct F2 as [F _]; contradiction | destruct F2 as [F _]; congruence ]
         end
       end.
Qed.

Lemma ffb_step_lemma : FFb sc s'.
Proof. constructor; [apply b1|apply b2|apply b3|apply b4|apply b5|apply b6|apply b7|apply b8|apply b9]. Qed.
End GroupB.

Lemma ffb_step sc s e s' : step sc s e = Some s' -> ff_ev sc s e = true -> Inv1 sc s -> Inv3 sc s -> Inv4 sc s ->
  FFa sc s -> rows_kept s -> FFb sc s -> FFb sc s'.
Proof. intros. eapply ffb_step_lemma; eauto. Qed.
