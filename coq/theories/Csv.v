(* Model of what jade/jobs/results_aggregator.py uses of Python's csv module (CPython 3.12):

   * csv.writer(buf, delimiter=d, lineterminator=EMPTY).writerow(fields)   [_format_row]
     dialect excel: quotechar = the double quote (dq), doublequote, QUOTE_MINIMAL, no escapechar.
     A field is quoted iff it contains the delimiter or the quote character (with an empty
     lineterminator CPython 3.12 does NOT quote CR / LF); inside quotes every quote is doubled; a
     record consisting of one empty field is written as two quotes.
   * csv.reader / csv.DictReader over the lines of a file                [_get_results]
     the state machine of Modules/_csv.c::parse_process_char restricted to one physical line
     (START_FIELD, IN_FIELD, IN_QUOTED_FIELD, QUOTE_IN_QUOTED_FIELD; non-strict).  A record whose
     quoted field is still open at the end of the line continues on the next line in CPython;
     here that is None (not a one-line record), as is a CR/LF inside an unquoted field
     (CPython: _csv.Error).

   No proofs here (CsvProofs.v). *)
From Coq Require Import String Ascii List Bool NArith.
From Jade Require Import Base.
Import ListNotations.
Open Scope list_scope.

Definition dq : ascii := ascii_of_N 34.
Definition cr : ascii := ascii_of_N 13.
Definition is_crlf (c : ascii) : bool := Ascii.eqb c nl || Ascii.eqb c cr.

(* ---------- writer ---------- *)
Definition needs_quote (d : ascii) (f : list ascii) : bool :=
  existsb (fun c => Ascii.eqb c d || Ascii.eqb c dq) f.
Fixpoint double_quotes (f : list ascii) : list ascii :=
  match f with
  | [] => []
  | c :: r => if Ascii.eqb c dq then dq :: dq :: double_quotes r else c :: double_quotes r
  end.
Definition format_field (d : ascii) (f : list ascii) : list ascii :=
  if needs_quote d f then dq :: double_quotes f ++ [dq] else f.
Fixpoint join_fields (d : ascii) (fs : list (list ascii)) : list ascii :=
  match fs with
  | [] => []
  | [f] => f
  | f :: r => f ++ d :: join_fields d r
  end.
Definition format_fields (d : ascii) (fs : list (list ascii)) : list ascii :=
  match fs with
  | [ [] ] => [dq; dq]
  | _ => join_fields d (map (format_field d) fs)
  end.

(* ---------- reader, one physical line (without its line terminator) ---------- *)
Inductive pstate := StartField | InField | InQuoted | QuoteInQuoted.

(* cur: current field, reversed; acc: finished fields, reversed *)
Fixpoint parse_aux (d : ascii) (st : pstate) (cur : list ascii) (acc : list (list ascii))
         (l : list ascii) : option (list (list ascii)) :=
  match l with
  | [] => match st with
          | InQuoted => None
          | _ => Some (rev (rev cur :: acc))
          end
  | c :: r =>
    match st with
    | StartField =>
      if is_crlf c then None
      else if Ascii.eqb c dq then parse_aux d InQuoted [] acc r
      else if Ascii.eqb c d then parse_aux d StartField [] ([] :: acc) r
      else parse_aux d InField [c] acc r
    | InField =>
      if is_crlf c then None
      else if Ascii.eqb c d then parse_aux d StartField [] (rev cur :: acc) r
      else parse_aux d InField (c :: cur) acc r
    | InQuoted =>
      if Ascii.eqb c dq then parse_aux d QuoteInQuoted cur acc r
      else parse_aux d InQuoted (c :: cur) acc r
    | QuoteInQuoted =>
      if Ascii.eqb c dq then parse_aux d InQuoted (dq :: cur) acc r
      else if Ascii.eqb c d then parse_aux d StartField [] (rev cur :: acc) r
      else if is_crlf c then None
      else parse_aux d InField (c :: cur) acc r
    end
  end.
(* an empty line is the empty record [] (DictReader skips those) *)
Definition parse_fields (d : ascii) (l : list ascii) : option (list (list ascii)) :=
  match l with
  | [] => Some []
  | _ => parse_aux d StartField [] [] l
  end.

(* ---------- on strings ---------- *)
Definition format_line (d : ascii) (fs : list string) : string :=
  of_chars (format_fields d (map chars fs)).
Definition parse_line (d : ascii) (s : string) : option (list string) :=
  option_map (map of_chars) (parse_fields d (chars s)).

Definition no_crlf (s : string) : Prop := forall c, In c (chars s) -> is_crlf c = false.
Definition no_crlfb (s : string) : bool := forallb (fun c => negb (is_crlf c)) (chars s).
