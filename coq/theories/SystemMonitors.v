(* Executable property monitors over event traces.  They are functions of the TRACE alone (no
   model state), so they can judge an impl trace even when the acceptor rejects it; SystemProofs.v
   proves `run sc tr = Some s -> cXX_ok sc tr = true` for every trace.  No proofs here. *)
From Coq Require Import List ZArith NArith Bool Arith.
From Jade Require Import Base System.
Import ListNotations.
Open Scope N_scope.

(* ---------- projections of a trace ---------- *)
Definition ev_handed (e : event) : list N :=
  match e with ESbatch _ _ _ jobs _ (Some _) => map fst jobs | _ => [] end.
Definition ev_indices (e : event) : list N :=
  match e with ESbatch _ idx _ _ _ _ => [idx] | _ => [] end.
Definition ev_launched (e : event) : list N :=
  match e with ELaunch _ j => [j] | _ => [] end.
Definition ev_rows (e : event) : list row :=
  match e with
  | EAppend _ r => [r]
  | ESubCancel _ j => [{| rw_job := j; rw_rc := 1%Z; rw_cancel := true |}]
  | _ => []
  end.
Definition handed_of (tr : list event) : list N := flat_map ev_handed tr.
Definition indices_of (tr : list event) : list N := flat_map ev_indices tr.
Definition launched_of (tr : list event) : list N := flat_map ev_launched tr.
Definition rows_of (tr : list event) : list row := flat_map ev_rows tr.

Definition is_sbatch (e : event) : bool := match e with ESbatch _ _ _ _ _ _ => true | _ => false end.
Definition is_mark_complete (e : event) : bool := match e with EMarkComplete _ => true | _ => false end.
Definition is_mark_canceled (e : event) : bool := match e with EMarkCanceled _ => true | _ => false end.

(* C01: no job in two batches, no batch index reused, no job started twice *)
Definition c01_ok (sc : scenario) (tr : list event) : bool :=
  nodupbN (handed_of tr) && nodupbN (indices_of tr) && nodupbN (launched_of tr).

(* C02: every launch is preceded by an outcome row of each blocker *)
Fixpoint c02_from (sc : scenario) (seen : list N) (tr : list event) : bool :=
  match tr with
  | [] => true
  | e :: t =>
    (match e with ELaunch _ j => subsetN (deps sc j) seen | _ => true end)
    && c02_from sc (seen ++ row_names (ev_rows e)) t
  end.
Definition c02_ok (sc : scenario) (tr : list event) : bool := c02_from sc [] tr.

(* C05 (safety half): one completion, results summary first, nothing submitted afterwards *)
Fixpoint c05_from (summary done : bool) (tr : list event) : bool :=
  match tr with
  | [] => true
  | e :: t =>
    match e with
    | ESummary _ _ _ => c05_from true done t
    | EMarkComplete _ => negb done && summary && c05_from summary true t
    | ESbatch _ _ _ _ _ _ => negb done && c05_from summary done t
    | _ => c05_from summary done t
    end
  end.
Definition c05_ok (sc : scenario) (tr : list event) : bool := c05_from false false tr.

(* C06: batches queued or running <= max nodes after every submission (the per-node process bound is
   the state invariant `i_running` of SystemProofs.v and the monitor c06p below) *)
Definition rm (x : N) (l : list N) : list N := filter (fun y => negb (N.eqb y x)) l.
Fixpoint c06_from (sc : scenario) (active : list N) (tr : list event) : bool :=
  match tr with
  | [] => true
  | e :: t =>
    match e with
    | ESbatch _ _ _ _ _ (Some id) =>
      depth_ok (option_map N.succ (sc_max_nodes sc)) (N.of_nat (length (active ++ [id])))
      && c06_from sc (active ++ [id]) t
    | EBatchEnd id => c06_from sc (rm id active) t
    | EScancel _ id => c06_from sc (rm id active) t
    | _ => c06_from sc active t
    end
  end.
Definition c06_ok (sc : scenario) (tr : list event) : bool := c06_from sc [] tr.

(* processes per node: live processes never exceed min(#jobs of the batch, processes per node or CPUs) *)
Fixpoint c06p_from (sc : scenario) (run : list (N * (N * N))) (tr : list event) : bool :=
  match tr with
  | [] => true
  | e :: t =>
    match e with
    | ESbatch _ _ _ jobs nproc (Some id) =>
      let workers := match nproc with Some k => k | None => sc_cpus sc end in
      c06p_from sc ((id, (0, N.min (N.of_nat (length jobs)) workers)) :: run) t
    | ELaunch id _ =>
      match lookup id run with
      | Some (k, d) => (k + 1 <=? d) && c06p_from sc ((id, (k + 1, d)) :: run) t
      | None => false
      end
    | EAppend id r =>
      if rw_cancel r then c06p_from sc run t
      else match lookup id run with
           | Some (k, d) => c06p_from sc ((id, (k - 1, d)) :: run) t
           | None => false
           end
    | _ => c06p_from sc run t
    end
  end.
Definition c06p_ok (sc : scenario) (tr : list event) : bool := c06p_from sc [] tr.

(* C10: successful promotions and demotions alternate; the role is held by one process at a time *)
Fixpoint c10_from (h : option N) (tr : list event) : bool :=
  match tr with
  | [] => true
  | e :: t =>
    match e with
    | ECreate p => (match h with None => true | Some _ => false end) && c10_from (Some p) t
    | ELoad p _ true _ _ => (match h with None => true | Some _ => false end) && c10_from (Some p) t
    | EDemote p => (match h with Some q => N.eqb p q | None => false end) && c10_from None t
    | _ => c10_from h t
    end
  end.
Definition c10_ok (sc : scenario) (tr : list event) : bool := c10_from None tr.

(* C14: nothing is handed to the HPC after the submission was marked canceled *)
Fixpoint c14_from (canceled : bool) (tr : list event) : bool :=
  match tr with
  | [] => true
  | e :: t =>
    match e with
    | EMarkCanceled _ => c14_from true t
    | ESbatch _ _ _ _ _ _ => negb canceled && c14_from canceled t
    | _ => c14_from canceled t
    end
  end.
Definition c14_ok (sc : scenario) (tr : list event) : bool := c14_from false tr.

(* C16: hooks.  setup: at most once, before any sbatch, and present before the creator's first
   sbatch when configured; teardown: exactly once between the results summary and the completion
   flag when configured; node setup before the node's first launch, node teardown after its last
   row, each at most once per node. *)
Record hk_state := {
  k_setup : N; k_sbatch : bool; k_summary : bool; k_teardown : N;
  k_nsetup : list N; k_nteardown : list N; k_nlaunched : list N }.
Fixpoint c16_from (sc : scenario) (k : hk_state) (tr : list event) : bool :=
  match tr with
  | [] => true
  | e :: t =>
    match e with
    | EHook _ HSetup _ =>
      N.eqb (k_setup k) 0 && negb (k_sbatch k)
      && c16_from sc {| k_setup := 1; k_sbatch := k_sbatch k; k_summary := k_summary k; k_teardown := k_teardown k;
                        k_nsetup := k_nsetup k; k_nteardown := k_nteardown k; k_nlaunched := k_nlaunched k |} t
    | ESbatch _ _ _ _ _ _ =>
      c16_from sc {| k_setup := k_setup k; k_sbatch := true; k_summary := k_summary k; k_teardown := k_teardown k;
                     k_nsetup := k_nsetup k; k_nteardown := k_nteardown k; k_nlaunched := k_nlaunched k |} t
    | ESummary _ _ _ =>
      c16_from sc {| k_setup := k_setup k; k_sbatch := k_sbatch k; k_summary := true; k_teardown := 0;
                     k_nsetup := k_nsetup k; k_nteardown := k_nteardown k; k_nlaunched := k_nlaunched k |} t
    | EHook _ HTeardown _ =>
      k_summary k && N.eqb (k_teardown k) 0
      && c16_from sc {| k_setup := k_setup k; k_sbatch := k_sbatch k; k_summary := k_summary k; k_teardown := 1;
                        k_nsetup := k_nsetup k; k_nteardown := k_nteardown k; k_nlaunched := k_nlaunched k |} t
    | EMarkComplete _ =>
      (if hk_teardown (sc_hooks sc) then N.eqb (k_teardown k) 1 else true)
      && c16_from sc {| k_setup := k_setup k; k_sbatch := k_sbatch k; k_summary := false; k_teardown := 0;
                        k_nsetup := k_nsetup k; k_nteardown := k_nteardown k; k_nlaunched := k_nlaunched k |} t
    | EHook _ HNodeSetup (Some id) =>
      negb (memN id (k_nsetup k)) && negb (memN id (k_nlaunched k))
      && c16_from sc {| k_setup := k_setup k; k_sbatch := k_sbatch k; k_summary := k_summary k; k_teardown := k_teardown k;
                        k_nsetup := id :: k_nsetup k; k_nteardown := k_nteardown k; k_nlaunched := k_nlaunched k |} t
    | EHook _ HNodeTeardown (Some id) =>
      negb (memN id (k_nteardown k))
      && c16_from sc {| k_setup := k_setup k; k_sbatch := k_sbatch k; k_summary := k_summary k; k_teardown := k_teardown k;
                        k_nsetup := k_nsetup k; k_nteardown := id :: k_nteardown k; k_nlaunched := k_nlaunched k |} t
    | ELaunch id _ =>
      (if hk_node_setup (sc_hooks sc) then memN id (k_nsetup k) else true) && negb (memN id (k_nteardown k))
      && c16_from sc {| k_setup := k_setup k; k_sbatch := k_sbatch k; k_summary := k_summary k; k_teardown := k_teardown k;
                        k_nsetup := k_nsetup k; k_nteardown := k_nteardown k; k_nlaunched := id :: k_nlaunched k |} t
    | EAppend id _ =>
      negb (memN id (k_nteardown k)) && c16_from sc k t
    | EHook _ _ _ => false
    | _ => c16_from sc k t
    end
  end.
Definition c16_ok (sc : scenario) (tr : list event) : bool :=
  c16_from sc {| k_setup := 0; k_sbatch := false; k_summary := false; k_teardown := 0;
                 k_nsetup := []; k_nteardown := []; k_nlaunched := [] |} tr.

Definition verdict (sc : scenario) (tr : list event) : option N * list bool :=
  (first_reject sc init tr 0,
   [c01_ok sc tr; c02_ok sc tr; c05_ok sc tr; c06_ok sc tr; c10_ok sc tr; c14_ok sc tr; c16_ok sc tr; c06p_ok sc tr]).
