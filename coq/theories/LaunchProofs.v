(* Proofs about the launch model: the appended arguments reach the program as single arguments for
   every job name and output directory; the output directory the command gets is the one the runner
   was given; a recorded row reads back as the same result. *)
From Coq Require Import String Ascii List Bool NArith ZArith Lia DecimalString DecimalZ DecimalPos.
From Jade Require Import Base Shlex ShlexProofs Launch.
From Jade.Gen Require Import LaunchGen.
Import ListNotations.
Open Scope string_scope.

(* ---------- generate_command ---------- *)
(* the generated table says: first the job name, then the output directory, both through quote *)
Lemma gen_command_unfold j output :
  gen_command j output =
  j_command j ++ (if j_append_name j then " --jade-job-name=" ++ quote (j_name j) else "")
              ++ (if j_append_out j then " --jade-runtime-output=" ++ quote (dirname output) else "").
Proof.
  unfold gen_command, append_steps. cbn. destruct (j_append_name j), (j_append_out j); cbn;
    rewrite ?app_nil_r_s, ?app_assoc_s; reflexivity.
Qed.

Lemma plain_name_prefix : plain "--jade-job-name=" = true /\ "--jade-job-name=" <> "".
Proof. split; [reflexivity|discriminate]. Qed.
Lemma plain_out_prefix : plain "--jade-runtime-output=" = true /\ "--jade-runtime-output=" <> "".
Proof. split; [reflexivity|discriminate]. Qed.

Theorem append_exact : forall j output args,
  split (j_command j) = Some args ->
  split (gen_command j output) = Some (args ++ extras j output)%list.
Proof.
  intros j output args H. rewrite gen_command_unfold. unfold extras, name_arg, out_arg.
  destruct plain_name_prefix as [P1 N1]. destruct plain_out_prefix as [P2 N2].
  destruct (j_append_name j), (j_append_out j).
  - change (" --jade-job-name=" ++ quote (j_name j)) with (String c_sp ("--jade-job-name=" ++ quote (j_name j))).
    change (" --jade-runtime-output=" ++ quote (dirname output))
      with (String c_sp ("--jade-runtime-output=" ++ quote (dirname output))).
    replace (j_command j ++ String c_sp ("--jade-job-name=" ++ quote (j_name j)) ++
             String c_sp ("--jade-runtime-output=" ++ quote (dirname output)))
      with (j_command j ++ String c_sp ("--jade-job-name=" ++ quote (j_name j) ++
             String c_sp ("--jade-runtime-output=" ++ quote (dirname output))))
      by (cbn; rewrite ?app_assoc_s; reflexivity).
    rewrite (split_app_sp _ _ _ H).
    rewrite (split_prefix_quote_sp _ _ _ P1 N1). rewrite (split_prefix_quote _ _ P2 N2). reflexivity.
  - rewrite app_nil_r_s.
    change (" --jade-job-name=" ++ quote (j_name j)) with (String c_sp ("--jade-job-name=" ++ quote (j_name j))).
    rewrite (split_app_sp _ _ _ H). rewrite (split_prefix_quote _ _ P1 N1). reflexivity.
  - change (j_command j ++ "" ++ " --jade-runtime-output=" ++ quote (dirname output))
      with (j_command j ++ String c_sp ("--jade-runtime-output=" ++ quote (dirname output))).
    rewrite (split_app_sp _ _ _ H). rewrite (split_prefix_quote _ _ P2 N2). reflexivity.
  - cbn [append]. rewrite app_nil_r_s, app_nil_r. exact H.
Qed.

(* a command that does not parse is not repaired by appending *)
Theorem append_error : forall j output,
  split (j_command j) = None -> j_append_name j = false -> j_append_out j = false ->
  split (gen_command j output) = None.
Proof.
  intros j output H H1 H2. rewrite gen_command_unfold, H1, H2. cbn [append]. rewrite app_nil_r_s. exact H.
Qed.

(* ---------- the directory ---------- *)
Lemma last_char_snoc pre a : last_char (pre ++ String a "") = Some a.
Proof.
  induction pre as [|c pre IH]; [reflexivity|]. cbn [append last_char]. rewrite IH.
  destruct (pre ++ String a "") eqn:E; [destruct pre; discriminate|reflexivity].
Qed.
Theorem dirname_jobs_output : forall pre a, a <> c_slash ->
  dirname (path_join (pre ++ String a "") "job-outputs") = pre ++ String a "".
Proof.
  intros pre a Ha. unfold path_join. cbn [starts_with_slash]. 
  change (Ascii.eqb "j" c_slash) with false. cbv iota.
  rewrite last_char_snoc. destruct (Ascii.eqb a c_slash) eqn:E; [apply Ascii.eqb_eq in E; contradiction|].
  assert (R : forall x, rev (chars (x ++ String c_slash "job-outputs")) =
                        ((chars "stuptuo-boj" ++ [c_slash]) ++ rev (chars x))%list).
  { intros x. rewrite chars_append, rev_app_distr. reflexivity. }
  assert (D : forall L, drop_to_slash ((chars "stuptuo-boj" ++ [c_slash]) ++ L) = c_slash :: L) by reflexivity.
  unfold dirname. rewrite R, D. rewrite chars_append, rev_app_distr.
  cbn [chars rev app strip_slashes]. change (Ascii.eqb c_slash c_slash) with true. cbv iota. rewrite E.
  cbn [rev]. rewrite rev_involutive.
  replace (pre ++ String a "") with (of_chars (chars pre ++ [a])%list); [reflexivity|].
  rewrite <- (of_chars_chars (pre ++ String a "")). rewrite chars_append. reflexivity.
Qed.

(* ---------- csv: one row ---------- *)
Definition sep_state (st : cstate) : Prop := st = CStart \/ st = CInField \/ st = CQuoteInQuoted.
Lemma parse_sep : forall st cur rest, sep_state st ->
  parse (String c_comma rest) st cur = cur :: parse rest CStart "".
Proof. intros st cur rest [ -> | [ -> | -> ] ]; reflexivity. Qed.
Lemma parse_end : forall st cur, parse "" st cur = [cur].
Proof. reflexivity. Qed.

Lemma needs_quote_cons c f : needs_quote (String c f) = (Ascii.eqb c c_comma || Ascii.eqb c c_dq) || needs_quote f.
Proof. reflexivity. Qed.

Lemma parse_unquoted_in : forall f cur rest, needs_quote f = false ->
  parse (f ++ rest) CInField cur = parse rest CInField (cur ++ f).
Proof.
  induction f as [|c f IH]; intros cur rest H.
  - cbn. rewrite app_nil_r_s. reflexivity.
  - rewrite needs_quote_cons in H. apply orb_false_iff in H. destruct H as [H1 H2].
    apply orb_false_iff in H1. destruct H1 as [Hc Hq].
    cbn [append parse]. rewrite Hc. rewrite (IH _ _ H2). rewrite snoc_app. reflexivity.
Qed.
Lemma parse_quoted_body : forall f cur rest,
  parse (dbl_quotes f ++ String c_dq rest) CInQuoted cur = parse rest CQuoteInQuoted (cur ++ f).
Proof.
  induction f as [|c f IH]; intros cur rest.
  - cbn [dbl_quotes append parse]. rewrite Ascii.eqb_refl, app_nil_r_s. reflexivity.
  - cbn [dbl_quotes]. destruct (Ascii.eqb c c_dq) eqn:E.
    + apply Ascii.eqb_eq in E. subst c. cbn [append parse]. rewrite !Ascii.eqb_refl.
      rewrite IH, snoc_app. reflexivity.
    + cbn [append parse]. rewrite E. rewrite IH, snoc_app. reflexivity.
Qed.
(* every field, written by the writer, is read back as itself, and leaves the reader in a state
   where a delimiter or the end of the line closes the field *)
Lemma parse_field : forall f, exists st, sep_state st /\
  forall rest, parse (csv_field f ++ rest) CStart "" = parse rest st f.
Proof.
  intros f. unfold csv_field. destruct (needs_quote f) eqn:Q.
  - exists CQuoteInQuoted. split; [right; right; reflexivity|]. intros rest.
    cbn [append parse]. rewrite Ascii.eqb_refl. rewrite app_assoc_s. cbn [append].
    rewrite parse_quoted_body. reflexivity.
  - destruct f as [|c f].
    + exists CStart. split; [left; reflexivity|]. reflexivity.
    + exists CInField. split; [right; left; reflexivity|]. intros rest.
      rewrite needs_quote_cons in Q. apply orb_false_iff in Q. destruct Q as [Q1 Q2].
      apply orb_false_iff in Q1. destruct Q1 as [Hc Hq].
      cbn [append parse]. rewrite Hq, Hc. rewrite (parse_unquoted_in _ _ _ Q2). reflexivity.
Qed.
Lemma parse_join : forall x r, parse (join "," (map csv_field (x :: r))) CStart "" = x :: r.
Proof.
  intros x r. revert x. induction r as [|y r IH]; intros x.
  - cbn [map join]. destruct (parse_field x) as [st [Hs E]].
    rewrite <- (app_nil_r_s (csv_field x)). rewrite E. reflexivity.
  - change (join "," (map csv_field (x :: y :: r)))
      with (csv_field x ++ String c_comma (join "," (map csv_field (y :: r)))).
    destruct (parse_field x) as [st [Hs E]]. rewrite E. rewrite (parse_sep _ _ _ Hs). rewrite IH. reflexivity.
Qed.
Theorem parse_format_row : forall x y r, parse_row (format_row (x :: y :: r)) = x :: y :: r.
Proof.
  intros x y r.
  assert (F : format_row (x :: y :: r) = join "," (map csv_field (x :: y :: r))) by (destruct x; reflexivity).
  rewrite F. transitivity (parse (join "," (map csv_field (x :: y :: r))) CStart ""); [|apply parse_join].
  change (join "," (map csv_field (x :: y :: r)))
    with (csv_field x ++ String c_comma (join "," (map csv_field (y :: r)))).
  destruct (csv_field x); reflexivity.
Qed.

(* ---------- str(int) / int() ---------- *)
Lemma parse_z_str z : parse_z (z_str z) = Some z.
Proof.
  unfold parse_z, z_str. rewrite NilZero.isi.
  - cbn. rewrite DecimalZ.of_to. reflexivity.
  - destruct z; cbn; intros H; inversion H. exact (Unsigned.to_uint_nonnil _ H1).
  - destruct z; cbn; intros H; inversion H. exact (Unsigned.to_uint_nonnil _ H1).
Qed.

(* ---------- the row of a result ---------- *)
Theorem row_roundtrip : forall r, r_hpc r <> Some "None" ->
  read_result header_text (format_row (result_row r)) = Some r.
Proof.
  intros r Hh. unfold result_row, result_fields. cbn [map].
  unfold read_result. rewrite parse_format_row.
  change (parse_row header_text) with result_fields. unfold result_fields.
  cbn -[z_str parse_z].
  rewrite parse_z_str.
  destruct r as [n rc st e c h]. cbn in *. f_equal. f_equal.
  destruct h as [s|]; [|reflexivity].
  destruct (s =? "None") eqn:E; [apply String.eqb_eq in E; subst; congruence|reflexivity].
Qed.

Theorem complete_row : forall name rc exec ctime hpc, hpc <> Some "None" ->
  read_result header_text (format_row (result_row (complete_result name rc exec ctime hpc))) =
  Some {| r_name := name; r_rc := rc; r_status := "finished"; r_exec := exec; r_ctime := ctime; r_hpc := hpc |}.
Proof. intros. rewrite row_roundtrip by assumption. reflexivity. Qed.

Theorem cancel_row : forall name ctime hpc, hpc <> Some "None" ->
  read_result header_text (format_row (result_row (cancel_result name ctime hpc))) =
  Some {| r_name := name; r_rc := 1; r_status := "canceled"; r_exec := "0.0"; r_ctime := ctime; r_hpc := hpc |}.
Proof. intros. rewrite row_roundtrip by assumption. reflexivity. Qed.

(* ---------- the launch ---------- *)
Theorem launch_exact : forall name cmd output argv, split cmd = Some argv ->
  launch_of name cmd output =
  Some {| l_argv := argv;
          l_env := [("JADE_RUNTIME_OUTPUT", output); ("JADE_JOB_NAME", name)];
          l_stdout := output ++ "/job-stdio/" ++ name ++ ".o";
          l_stderr := output ++ "/job-stdio/" ++ name ++ ".e" |}.
Proof. intros name cmd output argv H. unfold launch_of. rewrite H. reflexivity. Qed.
