(* C03 / C04 at system level: the outcome recorded for a job is determined by the dependency graph and
   the jobs' exit codes alone.  Every row a fault-free run records is locally consistent (a finish row
   carries the job's exit code, all its blockers have rows and - if the job is flagged - none of them
   failed; a cancel row belongs to a flagged job one of whose blockers failed); on an acyclic graph
   there is exactly one consistent assignment, so two runs - with any batching parameters, node limits,
   groups and interleavings - record the same outcome for every job they both record. *)
From Coq Require Import List ZArith NArith Bool Arith Lia Permutation.
From Jade Require Import Base System SystemMonitors SystemProofs SystemInv SystemOrder SystemLimits SystemHooks SystemLaunch
  SystemTheorems SystemProgress SystemFF1 SystemFF2 SystemFF3 SystemComplete.
Import ListNotations.
Open Scope N_scope.
Set Default Timeout 300.

Definition dep_failed (sc : scenario) (j : N) (rs : list row) : Prop :=
  exists rd, In rd rs /\ In (rw_job rd) (deps sc j) /\ rw_rc rd <> 0%Z.
Lemma has_failed_dep_spec sc j rs : has_failed_dep sc j rs = true <-> dep_failed sc j rs.
Proof.
  unfold has_failed_dep, dep_failed, failed_names. split.
  - intros H. destruct (interN (deps sc j) _) as [|d t] eqn:E; [discriminate|].
    assert (Hd : In d (interN (deps sc j) (map rw_job (filter (fun r => negb (Z.eqb (rw_rc r) 0)) rs)))) by (rewrite E; left; reflexivity).
    apply interN_spec in Hd. destruct Hd as [Hd1 Hd2]. apply in_map_iff in Hd2. destruct Hd2 as (rd & Ej & Hf).
    apply filter_In in Hf. destruct Hf as [Hin Hrc]. exists rd. split; [exact Hin|]. split; [rewrite Ej; exact Hd1|].
    apply negb_true_iff in Hrc. apply Z.eqb_neq in Hrc. exact Hrc.
  - intros (rd & Hin & Hd & Hrc).
    assert (Hi : In (rw_job rd) (interN (deps sc j) (map rw_job (filter (fun r => negb (Z.eqb (rw_rc r) 0)) rs)))).
    { apply interN_spec. split; [exact Hd|]. apply in_map. apply filter_In. split; [exact Hin|].
      apply negb_true_iff. apply Z.eqb_neq. exact Hrc. }
    destruct (interN (deps sc j) _); [contradiction|reflexivity].
Qed.
Lemma dep_failed_mono sc j rs extra : dep_failed sc j rs -> dep_failed sc j (rs ++ extra).
Proof. intros (rd & Hin & H). exists rd. split; [apply in_app_iff; left; exact Hin|exact H]. Qed.
Lemma dep_failed_incl sc j rs rs' : incl rs rs' -> dep_failed sc j rs -> dep_failed sc j rs'.
Proof. intros Hi (rd & Hin & H). exists rd. split; [apply Hi; exact Hin|exact H]. Qed.

Definition row_ok (sc : scenario) (rs : list row) (rw : row) : Prop :=
  In (rw_job rw) (all_jobs sc) /\
  (if rw_cancel rw
   then rw_rc rw = 1%Z /\ flag sc (rw_job rw) = true /\ dep_failed sc (rw_job rw) rs
   else rw_rc rw = jc_rc (job sc (rw_job rw)) /\
        (forall d, In d (deps sc (rw_job rw)) -> In d (row_names rs)) /\
        ~ (flag sc (rw_job rw) = true /\ dep_failed sc (rw_job rw) rs)).
Definition consistent (sc : scenario) (rs : list row) : Prop :=
  NoDup (row_names rs) /\ forall rw, In rw rs -> row_ok sc rs rw.

(* a new row for a job that had none keeps every old row consistent *)
Lemma row_ok_grow sc rs rw rw' : ~ In (rw_job rw') (row_names rs) -> row_ok sc rs rw -> row_ok sc (rs ++ [rw']) rw.
Proof.
  intros Hn [Hj Hk]. split; [exact Hj|]. destruct (rw_cancel rw).
  - destruct Hk as (A & B & C). repeat split; try assumption. apply dep_failed_mono. exact C.
  - destruct Hk as (A & B & C). repeat split; try assumption.
    + intros d Hd. rewrite row_names_app. apply in_app_iff. left. apply B. exact Hd.
    + intros [Hf (rd & Hin & Hd & Hrc)]. apply in_app_iff in Hin. destruct Hin as [Hin|[<-|[]]].
      * apply C. split; [exact Hf|]. exists rd. auto.
      * apply Hn. apply B. exact Hd.
Qed.

(* ---------- the graph lemma: a consistent assignment is unique ---------- *)
Definition same_graph (sc1 sc2 : scenario) : Prop :=
  all_jobs sc1 = all_jobs sc2 /\
  forall j, deps sc1 j = deps sc2 j /\ flag sc1 j = flag sc2 j /\ jc_rc (job sc1 j) = jc_rc (job sc2 j).

Lemma row_of_job rs j : In j (row_names rs) -> exists rw, In rw rs /\ rw_job rw = j.
Proof. unfold row_names. intros H. apply in_map_iff in H. destruct H as (rw & E & Hin). eauto. Qed.

Theorem consistent_unique sc1 sc2 rs1 rs2 : acyclic sc1 -> same_graph sc1 sc2 ->
  consistent sc1 rs1 -> consistent sc2 rs2 ->
  forall rw1 rw2, In rw1 rs1 -> In rw2 rs2 -> rw_job rw1 = rw_job rw2 -> rw1 = rw2.
Proof.
  intros (rank & Hrank) [Hjobs Hsame] [_ C1] [_ C2].
  assert (G : forall n rw1 rw2, (rank (rw_job rw1) < n)%nat -> In rw1 rs1 -> In rw2 rs2 -> rw_job rw1 = rw_job rw2 -> rw1 = rw2).
  { induction n as [|n IHn]; intros rw1 rw2 Hlt H1 H2 Ej; [lia|].
    destruct (C1 rw1 H1) as [Hj1 K1]. destruct (C2 rw2 H2) as [Hj2 K2]. rewrite <- Ej in K2.
    destruct (Hsame (rw_job rw1)) as (Ed & Ef & Erc).
    (* a failed blocker in one assignment is a failed blocker in the other whenever the other has a row for it *)
    assert (T12 : dep_failed sc1 (rw_job rw1) rs1 -> (forall d, In d (deps sc2 (rw_job rw1)) -> In d (row_names rs2)) ->
                  dep_failed sc2 (rw_job rw1) rs2).
    { intros (rd & Hin & Hd & Hrc) Hall. destruct (Hrank _ _ Hj1 Hd) as [_ Hr].
      rewrite Ed in Hd. destruct (row_of_job _ _ (Hall _ Hd)) as (rd2 & Hin2 & Ej2).
      assert (Eq : rd = rd2) by (apply IHn; [lia|assumption|assumption|congruence]).
      exists rd2. split; [exact Hin2|]. split; [rewrite Ej2; exact Hd|]. rewrite <- Eq. exact Hrc. }
    assert (T21 : dep_failed sc2 (rw_job rw1) rs2 -> (forall d, In d (deps sc1 (rw_job rw1)) -> In d (row_names rs1)) ->
                  dep_failed sc1 (rw_job rw1) rs1).
    { intros (rd2 & Hin2 & Hd & Hrc) Hall. rewrite <- Ed in Hd. destruct (row_of_job _ _ (Hall _ Hd)) as (rd & Hin & Ej1).
      assert (Hd1 : In (rw_job rd) (deps sc1 (rw_job rw1))) by (rewrite Ej1; exact Hd).
      destruct (Hrank _ _ Hj1 Hd1) as [_ Hr].
      assert (Eq : rd = rd2) by (apply IHn; [lia|assumption|assumption|congruence]).
      exists rd. split; [exact Hin|]. split; [exact Hd1|]. rewrite Eq. exact Hrc. }
    destruct rw1 as [j1 rc1 c1], rw2 as [j2 rc2 c2]. cbn [rw_job rw_rc rw_cancel] in *. subst j2.
    destruct c1, c2.
    - destruct K1 as (A1 & _), K2 as (A2 & _). congruence.
    - exfalso. destruct K1 as (_ & F1 & D1), K2 as (_ & All2 & N2). apply N2. split; [congruence|]. apply T12; assumption.
    - exfalso. destruct K1 as (_ & All1 & N1), K2 as (_ & F2 & D2). apply N1. split; [congruence|]. apply T21; assumption.
    - destruct K1 as (A1 & _), K2 as (A2 & _). congruence. }
  intros rw1 rw2. apply (G (S (rank (rw_job rw1)))). lia.
Qed.

(* ---------- every row of a fault-free run is consistent ---------- *)
Record FFe (sc : scenario) (s : state) : Prop := {
  e_rows : forall rw, In rw (rows s) -> row_ok sc (rows s) rw;
  e_run : forall n j, In n (nodes s) -> In j (n_running n) ->
          (forall d, In d (deps sc j) -> In d (row_names (rows s))) /\
          ~ (flag sc j = true /\ dep_failed sc j (rows s))
}.
Lemma ffe_init sc : FFe sc init.
Proof. constructor; cbn; intros; contradiction. Qed.

Lemma run_ok_grow sc rs j rw' : ~ In (rw_job rw') (row_names rs) ->
  (forall d, In d (deps sc j) -> In d (row_names rs)) /\ ~ (flag sc j = true /\ dep_failed sc j rs) ->
  (forall d, In d (deps sc j) -> In d (row_names (rs ++ [rw']))) /\ ~ (flag sc j = true /\ dep_failed sc j (rs ++ [rw'])).
Proof.
  intros Hn [B C]. split.
  - intros d Hd. rewrite row_names_app. apply in_app_iff. left. apply B. exact Hd.
  - intros [Hf (rd & Hin & Hd & Hrc)]. apply in_app_iff in Hin. destruct Hin as [Hin|[<-|[]]].
    + apply C. split; [exact Hf|]. exists rd. auto.
    + apply Hn. apply B. exact Hd.
Qed.

Section GroupE.
Variable sc : scenario.
Variables (s s' : state) (e : event).
Hypothesis H : step sc s e = Some s'.
Hypothesis Hff : ff_ev sc s e = true.
Hypothesis HF : FF sc s.
Hypothesis HF' : FF sc s'.
Hypothesis HI2 : Inv2 sc s.
Hypothesis HI : FFe sc s.

(* the job of a row added by this step had no row before *)
Lemma new_row_fresh rw' : rows s' = rows s ++ [rw'] -> ~ In (rw_job rw') (row_names (rows s)).
Proof.
  intros E. pose proof (b_rownames sc s' (ff_b sc s' HF')) as ND. rewrite E, row_names_app in ND.
  apply NoDup_app_iff in ND. destruct ND as (_ & _ & D). intros Hin. apply (D _ Hin). left. reflexivity.
Qed.

Lemma e1 : forall rw, In rw (rows s') -> row_ok sc (rows s') rw.
Proof.
  pose proof (e_rows sc s HI) as O. pose proof (e_run sc s HI) as RN. pose proof (k_fresh sc s (ff_3 sc s HF)) as FR.
  pose proof (b_rowjobs sc s' (ff_b sc s' HF')) as RJ. pose proof new_row_fresh as NF.
  pose proof (ff_k sc s HF) as HK.
  revert H Hff. intros H Hff. ffstart2 e H Hff FR. all: try basic.
  all: cbn [rows] in NF, RJ.
  all: intros rwx Hin; apply in_app_iff in Hin; destruct Hin as [Hin|[<-|[]]];
    [apply row_ok_grow; [apply NF; reflexivity|apply O; exact Hin]|].
  all: split; [apply RJ; rewrite row_names_app; apply in_app_iff; right; left; reflexivity|].
  all: repeat match goal with Fn : find_n _ _ = Some _ |- _ => apply find_n_In in Fn; destruct Fn as [Fn ?] end.
  all: lazymatch goal with EV := ?x |- _ =>
         lazymatch x with
         | ESubCancel _ _ =>
           cbn [rw_cancel rw_rc rw_job]; split; [reflexivity|]; split; [assumption|];
           apply dep_failed_mono;
           match goal with Q : has_failed_dep _ _ (processed s) = true |- _ => apply has_failed_dep_spec in Q;
             apply (dep_failed_incl _ _ (processed s)); [|exact Q] end;
           intros y Hy; apply (Permutation_in _ (Permutation_sym HK)); apply in_app_iff; right; exact Hy
         | EAppend _ _ =>
           match goal with Q : rw_cancel _ = _ |- _ => rewrite Q end;
           first [ (* cancel row *)
                   split; [match goal with Q : Z.eqb _ 1 = true |- _ => apply Z.eqb_eq in Q; exact Q end|];
                   split; [assumption|]; apply dep_failed_mono;
                   match goal with Q : has_failed_dep _ _ (rows s) = true |- _ => apply has_failed_dep_spec in Q; exact Q end
                 | (* finish row *)
                   split; [match goal with Q : Z.eqb _ _ = true |- _ => apply Z.eqb_eq in Q; exact Q end|];
                   apply run_ok_grow; [apply NF; reflexivity|];
                   eapply RN; [eassumption|]; apply memN_In; assumption ]
         end
       end.
Qed.

Lemma e2 : forall n j, In n (nodes s') -> In j (n_running n) ->
  (forall d, In d (deps sc j) -> In d (row_names (rows s'))) /\ ~ (flag sc j = true /\ dep_failed sc j (rows s')).
Proof.
  pose proof (e_run sc s HI) as O. pose proof (k_fresh sc s (ff_3 sc s HF)) as FR. pose proof new_row_fresh as NF.
  pose proof (j_nqueue sc s HI2) as NQ.
  revert H Hff. intros H Hff. ffstart2 e H Hff FR. all: try basic.
  all: cbn [rows] in NF.
  all: intros nx jx Hn Hj.
  all: repeat match goal with Fn : find_n _ _ = Some _ |- _ => apply find_n_In in Fn; destruct Fn as [Fn ?] end.
  all: lazymatch goal with EV := ?x |- _ =>
         lazymatch x with
         | ESubCancel _ _ => apply run_ok_grow; [apply NF; reflexivity|eapply O; eauto]
         | EBatchStart _ => apply in_app_iff in Hn; destruct Hn as [Hn|[<-|[]]]; [eapply O; eauto|contradiction]
         | EBatchEnd _ => apply dead_full in Hn; destruct Hn as (n1 & Hn1 & _ & _ & Er); rewrite Er in Hj; eapply O; eauto
         | ELaunch _ _ =>
           apply set_n_In' in Hn; destruct Hn as [->|[Hn _]]; [|eapply O; eauto]; cbn [n_running] in Hj;
           apply in_app_iff in Hj; destruct Hj as [Hj|[<-|[]]]; [eapply O; eauto|];
           split;
           [ intros d Hd; match goal with L : lookup _ (n_queue ?n0) = Some [] |- _ => apply lookup_In in L;
               exact (NQ _ _ _ ltac:(eassumption) L d Hd) end
           | intros [Hf Hd]; apply has_failed_dep_spec in Hd;
             match goal with Q : flag _ _ && has_failed_dep _ _ _ = false |- _ => rewrite Hf, Hd in Q; discriminate Q end ]
         | EAppend _ _ =>
           apply run_ok_grow; [apply NF; reflexivity|];
           apply set_n_In' in Hn; destruct Hn as [->|[Hn _]]; [|eapply O; eauto]; cbn [n_running] in Hj;
           try (apply filter_In in Hj; destruct Hj as [Hj _]); eapply O; eauto
         | _ => apply set_n_In' in Hn; destruct Hn as [->|[Hn _]]; [|eapply O; eauto]; cbn [n_running] in Hj;
           first [ contradiction | eapply O; eauto | repeat match goal with E : n_running _ = _ |- _ => rewrite <- E in * end; eapply O; eauto ]
         end
       end.
Qed.

Lemma ffe_step_lemma : FFe sc s'.
Proof. constructor; [apply e1|apply e2]. Qed.
End GroupE.

Record FFx (sc : scenario) (s : state) : Prop := { x_ff : FF sc s; x_2 : Inv2 sc s; x_e : FFe sc s }.
Lemma ffx_init sc : FFx sc init.
Proof. constructor; [apply ff_init|apply inv2_init|apply ffe_init]. Qed.
Lemma ffx_step sc s e s' : acyclic sc -> nodes_ok sc -> step sc s e = Some s' -> ff_ev sc s e = true -> FFx sc s -> FFx sc s'.
Proof.
  intros Hac Hno Hs Hf [XF X2 XE]. pose proof (ff_step sc s e s' Hac Hno Hs Hf XF) as XF'.
  constructor; [exact XF'|eapply inv2_step; eauto|eapply ffe_step_lemma; eauto].
Qed.
Lemma ffx_run_from sc : acyclic sc -> nodes_ok sc -> forall tr s s', run_from sc s tr = Some s' -> fault_free sc s tr = true ->
  FFx sc s -> FFx sc s'.
Proof.
  intros Hac Hno. induction tr as [|e t IH]; intros s s' Hr Hf HF; cbn [run_from fault_free] in *.
  - injection Hr as <-. exact HF.
  - apply andb_true_iff in Hf. destruct Hf as [Hf1 Hf2].
    destruct (step sc s e) as [s1|] eqn:Es; [|discriminate]. eapply IH; eauto using ffx_step.
Qed.

(* ---------- the theorems ---------- *)
Theorem rows_consistent sc tr s : acyclic sc -> nodes_ok sc -> run sc tr = Some s -> fault_free sc init tr = true ->
  consistent sc (rows s).
Proof.
  intros Hac Hno Hr Hf. pose proof (ffx_run_from sc Hac Hno _ _ _ Hr Hf (ffx_init sc)) as [XF X2 XE].
  split; [apply (b_rownames sc s (ff_b sc s XF))|apply (e_rows sc s XE)].
Qed.

(* independence: two fault-free runs of the same job graph - whatever their batching parameters, groups, node limits,
   numbers of rounds and interleavings - record the same outcome for every job both have a row for *)
Theorem outcome_independent sc1 sc2 tr1 tr2 s1 s2 :
  acyclic sc1 -> acyclic sc2 -> nodes_ok sc1 -> nodes_ok sc2 -> same_graph sc1 sc2 ->
  run sc1 tr1 = Some s1 -> fault_free sc1 init tr1 = true ->
  run sc2 tr2 = Some s2 -> fault_free sc2 init tr2 = true ->
  forall rw1 rw2, In rw1 (rows s1) -> In rw2 (rows s2) -> rw_job rw1 = rw_job rw2 -> rw1 = rw2.
Proof.
  intros A1 A2 N1 N2 SG R1 F1 R2 F2.
  exact (consistent_unique sc1 sc2 (rows s1) (rows s2) A1 SG (rows_consistent _ _ _ A1 N1 R1 F1) (rows_consistent _ _ _ A2 N2 R2 F2)).
Qed.

(* C03 in full for the system model: two fault-free runs of the same acyclic job graph that reach their results summary
   report exactly the same results - one per configured job, nothing missing *)
Theorem final_results_independent sc1 sc2 tra1 p1 res1 miss1 trb1 s1 tra2 p2 res2 miss2 trb2 s2 :
  acyclic sc1 -> acyclic sc2 -> nodes_ok sc1 -> nodes_ok sc2 -> same_graph sc1 sc2 ->
  run sc1 (tra1 ++ ESummary p1 res1 miss1 :: trb1) = Some s1 -> fault_free sc1 init (tra1 ++ ESummary p1 res1 miss1 :: trb1) = true ->
  run sc2 (tra2 ++ ESummary p2 res2 miss2 :: trb2) = Some s2 -> fault_free sc2 init (tra2 ++ ESummary p2 res2 miss2 :: trb2) = true ->
  miss1 = [] /\ miss2 = [] /\ (forall r, In r res1 <-> In r res2).
Proof.
  intros A1 A2 N1 N2 SG R1 F1 R2 F2.
  destruct (complete_no_missing _ _ _ _ _ _ _ A1 N1 R1 F1) as [M1 All1].
  destruct (complete_no_missing _ _ _ _ _ _ _ A2 N2 R2 F2) as [M2 All2].
  split; [exact M1|]. split; [exact M2|].
  (* the summaries list rows that were really recorded in the prefix *)
  destruct (summary_faithful _ _ _ _ _ _ _ R1) as (u1 & U1 & P1 & _ & In1).
  destruct (summary_faithful _ _ _ _ _ _ _ R2) as (u2 & U2 & P2 & _ & In2).
  destruct (fault_free_app _ _ _ _ F1) as [F1a _]. destruct (fault_free_app _ _ _ _ F2) as [F2a _].
  destruct (ghost_run_from _ _ _ _ U1) as (_ & _ & _ & G1). destruct (ghost_run_from _ _ _ _ U2) as (_ & _ & _ & G2).
  cbn [rows init app] in G1, G2.
  assert (K : forall ra rb, In ra res1 -> In rb res2 -> rw_job ra = rw_job rb -> ra = rb).
  { intros ra rb Ha Hb E. eapply (outcome_independent sc1 sc2 tra1 tra2 u1 u2); eauto.
    - rewrite G1. apply In1. exact Ha.
    - rewrite G2. apply In2. exact Hb. }
  destruct SG as [SJ _].
  intros r. split; intros Hr.
  - assert (Hj : In (rw_job r) (all_jobs sc1)).
    { destruct (rows_consistent sc1 tra1 u1 A1 N1 U1 F1a) as [_ C]. apply (C r). rewrite G1. apply In1. exact Hr. }
    rewrite SJ in Hj. destruct (row_of_job _ _ (All2 _ Hj)) as (r2 & H2 & E2).
    rewrite (K r r2 Hr H2 (eq_sym E2)). exact H2.
  - assert (Hj : In (rw_job r) (all_jobs sc2)).
    { destruct (rows_consistent sc2 tra2 u2 A2 N2 U2 F2a) as [_ C]. apply (C r). rewrite G2. apply In2. exact Hr. }
    rewrite <- SJ in Hj. destruct (row_of_job _ _ (All1 _ Hj)) as (r1 & H1 & E1).
    rewrite <- (K r1 r H1 Hr E1). exact H1.
Qed.

(* C04 at system level, for every accepted trace (faults included): a flagged job is never started when one of its
   blockers has a failed (non-zero or canceled) outcome, and all its blockers have outcomes when it starts *)
Theorem flagged_never_started_after_failure sc tr1 id j tr2 s : run sc (tr1 ++ ELaunch id j :: tr2) = Some s ->
  flag sc j = true -> forall rd, In rd (rows_of tr1) -> In (rw_job rd) (deps sc j) -> rw_rc rd = 0%Z.
Proof.
  intros Hr Hf rd Hin Hd. unfold run in Hr. rewrite run_from_app in Hr.
  destruct (run_from sc init tr1) as [s1|] eqn:E1; [|discriminate].
  destruct (ghost_run_from _ _ _ _ E1) as (_ & _ & _ & G). cbn [rows init app] in G.
  cbn [run_from] in Hr. destruct (step sc s1 (ELaunch id j)) as [s2|] eqn:Es; [|discriminate]. clear Hr.
  unfold step in Es. cbv beta iota in Es. destruct (find_n id (nodes s1)) as [n|]; [|discriminate].
  destruct (lookup j (n_queue n)) as [[|? ?]|]; try discriminate.
  match type of Es with (if ?c then _ else _) = _ => destruct c eqn:Q; [|discriminate] end.
  rewrite !andb_true_iff in Q. destruct Q as (_ & Q). apply negb_true_iff in Q. rewrite Hf in Q. cbn [andb] in Q.
  destruct (Z.eq_dec (rw_rc rd) 0) as [Z|NZ]; [exact Z|]. exfalso.
  assert (D : dep_failed sc j (rows s1)) by (exists rd; rewrite G; auto).
  apply has_failed_dep_spec in D. congruence.
Qed.
