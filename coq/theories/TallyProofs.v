(* C20, tallies: proofs about Tally.v over the GENERATED predicates and writer shapes. *)
From Coq Require Import String List ZArith NArith Bool Arith Lia Permutation.
From Jade Require Import Base Tally.
From Jade.Gen Require Import ReportsGen.
Import ListNotations.
Set Default Timeout 60.
Open Scope string_scope.
Open Scope list_scope.

(* ---------- specification vocabulary ---------- *)
Definition names (rows : list row) : list string := map r_name rows.
Definition exactly_one (A B C D : Prop) : Prop :=
  (A /\ ~ B /\ ~ C /\ ~ D) \/ (~ A /\ B /\ ~ C /\ ~ D) \/ (~ A /\ ~ B /\ C /\ ~ D) \/ (~ A /\ ~ B /\ ~ C /\ D).
Definition one_of3 (a b c : bool) : bool :=
  (a && negb b && negb c) || (negb a && b && negb c) || (negb a && negb b && c).
Definition one_class (rc : Z) (st : string) : bool :=
  one_of3 (is_successful rc st) (is_failed rc st) (is_canceled rc st).

(* ---------- the generated tables have the shape the model follows ---------- *)
Lemma build_chain_shape :
  build_chain = [("is_successful", "num_successful"); ("is_failed", "num_failed")] /\
  build_else = Some ("is_canceled", "num_canceled") /\
  build_summary = [("num_successful", "num_successful"); ("num_failed", "num_failed");
                   ("num_canceled", "num_canceled"); ("num_missing", "len(missing_jobs)")].
Proof. repeat split; reflexivity. Qed.
Lemma show_chain_shape :
  show_chain = [("is_successful", "Num successful"); ("is_failed", "Num failed")] /\
  show_else = Some ("is_canceled", "Num canceled").
Proof. split; reflexivity. Qed.
Lemma bytype_chain_shape :
  bytype_chain = [("is_successful", "successful"); ("is_failed", "failed"); ("is_canceled", "canceled")] /\
  bytype_else = None /\
  bytype_keys = [("successful", "successful"); ("failed", "failed"); ("canceled", "canceled")].
Proof. repeat split; reflexivity. Qed.

(* ---------- the classes on the rows JADE writes ---------- *)
(* the predicates look at the return code only through `== 0` *)
Lemma preds_rc_nonzero rc st : rc <> 0%Z ->
  is_successful rc st = is_successful 1 st /\ is_failed rc st = is_failed 1 st /\ is_canceled rc st = is_canceled 1 st.
Proof.
  intros H. unfold is_successful, is_failed, is_canceled.
  destruct (Z.eqb_spec rc 0); [contradiction|]. repeat split; reflexivity.
Qed.

Definition shape_ok (sh : option Z * string) : bool :=
  match fst sh with
  | Some rc => one_class rc (snd sh)
  | None => one_class 0 (snd sh) && one_class 1 (snd sh)
  end.
Lemma writer_shapes_ok : forallb shape_ok writer_shapes = true.
Proof. vm_compute. reflexivity. Qed.

Lemma writable_one_class r : writable r = true -> one_class (r_rc r) (r_status r) = true.
Proof.
  unfold writable. rewrite existsb_exists. intros [sh [Hin Hm]].
  pose proof writer_shapes_ok as Hok. rewrite forallb_forall in Hok. specialize (Hok sh Hin).
  unfold shape_matches in Hm. apply andb_true_iff in Hm. destruct Hm as [Hs Hr].
  apply String.eqb_eq in Hs. rewrite Hs. unfold shape_ok in Hok. destruct (fst sh) as [rc|].
  - apply Z.eqb_eq in Hr. rewrite Hr. exact Hok.
  - apply andb_true_iff in Hok. destruct Hok as [H0 H1]. destruct (Z.eq_dec (r_rc r) 0) as [E|E].
    + rewrite E. exact H0.
    + unfold one_class. destruct (preds_rc_nonzero (r_rc r) (snd sh) E) as [A [B C]]. rewrite A, B, C. exact H1.
Qed.

Definition row_one (r : row) : Prop := one_of3 (succ_p r) (fail_p r) (canc_p r) = true.
Lemma writable_row_one rows : Forall (fun r => writable r = true) rows -> Forall row_one rows.
Proof. apply Forall_impl. intros r H. apply writable_one_class. exact H. Qed.

(* the assert in _build_results / show_results is unreachable for rows JADE writes *)
Lemma classify_total r : row_one r -> classify_assert r <> None.
Proof.
  unfold row_one, classify_assert. destruct (succ_p r), (fail_p r), (canc_p r); cbn; intros H; congruence.
Qed.

(* ---------- counting ---------- *)
Lemma count_from_spec rows : Forall row_one rows -> forall c,
  count_from c rows = Some (mkCounts (n_succ c + N.of_nat (length (filter succ_p rows)))
                                     (n_fail c + N.of_nat (length (filter fail_p rows)))
                                     (n_canc c + N.of_nat (length (filter canc_p rows)))).
Proof.
  induction 1 as [|r rows Hr Hrows IH]; intros c; cbn.
  - rewrite !N.add_0_r. destruct c; reflexivity.
  - unfold row_one in Hr. unfold classify_assert.
    destruct (succ_p r), (fail_p r), (canc_p r); cbn in Hr; try discriminate; rewrite IH; cbn [n_succ n_fail n_canc length];
      f_equal; f_equal; lia.
Qed.
Lemma classes_cover rows : Forall row_one rows ->
  length (filter succ_p rows) + length (filter fail_p rows) + length (filter canc_p rows) = length rows.
Proof.
  induction 1 as [|r rows Hr Hrows IH]; cbn; [reflexivity|]. unfold row_one in Hr.
  destruct (succ_p r), (fail_p r), (canc_p r); cbn in Hr; try discriminate; cbn [length]; lia.
Qed.

(* the if/elif chain of get_results_by_type selects the same rows as the independent filters *)
Lemma filter_ext_Forall {A} (P : A -> Prop) (f g : A -> bool) l :
  Forall P l -> (forall x, P x -> f x = g x) -> filter f l = filter g l.
Proof.
  induction 1 as [|x l Hx Hl IH]; intros H; cbn; [reflexivity|]. rewrite (H x Hx), IH; [reflexivity|exact H].
Qed.
Lemma by_type_spec rows : Forall row_one rows ->
  by_type rows = (successful_results rows, failed_results rows, canceled_results rows).
Proof.
  intros H. unfold by_type, successful_results, failed_results, canceled_results. f_equal; [f_equal|].
  - apply (filter_ext_Forall row_one); [exact H|]. intros r Hr. unfold row_one in Hr.
    destruct (succ_p r), (fail_p r), (canc_p r); cbn in *; congruence.
  - apply (filter_ext_Forall row_one); [exact H|]. intros r Hr. unfold row_one in Hr.
    destruct (succ_p r), (fail_p r), (canc_p r); cbn in *; congruence.
Qed.

(* ---------- missing jobs ---------- *)
Lemma mem_str_In x l : mem_str x l = true <-> In x l.
Proof.
  unfold mem_str. rewrite existsb_exists. split.
  - intros [y [Hy E]]. apply String.eqb_eq in E. subst. exact Hy.
  - intros H. exists x. split; [exact H|apply String.eqb_refl].
Qed.
Lemma summary_missing_In expected rows j :
  In j (summary_missing expected rows) <-> In j expected /\ ~ In j (names rows).
Proof.
  unfold summary_missing. rewrite filter_In, negb_true_iff. fold (names rows).
  rewrite <- (mem_str_In j (names rows)). destruct (mem_str j (names rows)); split; intros [A B]; split; congruence.
Qed.

Lemma missing_eq jobs rows : NoDup (names rows) -> incl (names rows) jobs ->
  Permutation (missing_jobs jobs rows) (summary_missing jobs rows) /\
  (length rows <> length jobs -> missing_jobs jobs rows = summary_missing jobs rows).
Proof.
  intros Hn Hi. unfold missing_jobs. destruct (Nat.eqb_spec (length rows) (length jobs)) as [E|E].
  - split; [|congruence]. assert (Hall : incl jobs (names rows)).
    { apply NoDup_length_incl; [exact Hn| |exact Hi]. unfold names. rewrite map_length. lia. }
    destruct (summary_missing jobs rows) as [|j r] eqn:S; [constructor|]. exfalso.
    assert (Hj : In j (summary_missing jobs rows)) by (rewrite S; left; reflexivity).
    apply summary_missing_In in Hj. destruct Hj as [A B]. apply B. apply Hall. exact A.
  - split; [apply Permutation_refl|reflexivity].
Qed.
Lemma missing_In jobs rows j : NoDup (names rows) -> incl (names rows) jobs ->
  In j (missing_jobs jobs rows) <-> In j jobs /\ ~ In j (names rows).
Proof.
  intros Hn Hi. rewrite <- summary_missing_In. destruct (missing_eq jobs rows Hn Hi) as [P _].
  split; intros H; [eapply Permutation_in; [exact P|exact H]|eapply Permutation_in; [apply Permutation_sym; exact P|exact H]].
Qed.
Lemma missing_length jobs rows : NoDup jobs -> NoDup (names rows) -> incl (names rows) jobs ->
  length rows + length (missing_jobs jobs rows) = length jobs.
Proof.
  intros Hj Hn Hi. destruct (missing_eq jobs rows Hn Hi) as [P _]. rewrite (Permutation_length P).
  assert (Q : Permutation jobs (names rows ++ summary_missing jobs rows)).
  { apply NoDup_Permutation; [exact Hj| |].
    - apply NoDup_app_iff. split; [exact Hn|]. split; [apply NoDup_filter; exact Hj|].
      intros x Hx Hm. apply summary_missing_In in Hm. tauto.
    - intros x. rewrite in_app_iff, summary_missing_In. split.
      + intros Hx. destruct (mem_str x (names rows)) eqn:M.
        * left. apply mem_str_In. exact M.
        * right. split; [exact Hx|]. intros H. apply mem_str_In in H. congruence.
      + intros [H|[H _]]; [apply Hi; exact H|exact H]. }
  rewrite (Permutation_length Q), app_length. unfold names. rewrite map_length. reflexivity.
Qed.

(* ---------- every job in exactly one class ---------- *)
Lemma unique_row rows : NoDup (names rows) -> forall r r', In r rows -> In r' rows -> r_name r = r_name r' -> r = r'.
Proof.
  induction rows as [|x rows IH]; cbn; intros Hn r r' Hr Hr' E; [destruct Hr|]. inversion Hn as [|? ? Hx Hn']; subst.
  destruct Hr as [<-|Hr], Hr' as [<-|Hr'].
  - reflexivity.
  - exfalso. apply Hx. rewrite E. apply in_map. exact Hr'.
  - exfalso. apply Hx. rewrite <- E. apply in_map. exact Hr.
  - apply IH; assumption.
Qed.
Lemma class_In (p : row -> bool) rows j :
  In j (names (filter p rows)) <-> exists r, In r rows /\ r_name r = j /\ p r = true.
Proof.
  unfold names. rewrite in_map_iff. split.
  - intros [r [E H]]. apply filter_In in H. exists r. tauto.
  - intros [r [H [E P]]]. exists r. split; [exact E|]. apply filter_In. tauto.
Qed.

Theorem tally_correct jobs rows :
  NoDup jobs -> NoDup (names rows) -> incl (names rows) jobs -> Forall (fun r => writable r = true) rows ->
  let m := missing_jobs jobs rows in
  let s := N.of_nat (length (successful_results rows)) in
  let f := N.of_nat (length (failed_results rows)) in
  let c := N.of_nat (length (canceled_results rows)) in
  completion_summary jobs rows = Some (s, f, c, N.of_nat (length m)) /\
  (s + f + c + N.of_nat (length m) = N.of_nat (length jobs))%N /\
  by_type rows = (successful_results rows, failed_results rows, canceled_results rows) /\
  Permutation m (summary_missing jobs rows) /\
  forall j, In j jobs ->
    exactly_one (In j (names (successful_results rows))) (In j (names (failed_results rows)))
                (In j (names (canceled_results rows))) (In j m).
Proof.
  intros Hj Hn Hi Hw m s f c. pose proof (writable_row_one rows Hw) as H1.
  split; [|split; [|split; [|split]]].
  - unfold completion_summary, build_summary_counts. rewrite (count_from_spec rows H1). cbn. reflexivity.
  - pose proof (classes_cover rows H1) as Hc. pose proof (missing_length jobs rows Hj Hn Hi) as Hm.
    subst s f c m. unfold successful_results, failed_results, canceled_results. lia.
  - apply by_type_spec. exact H1.
  - apply missing_eq; assumption.
  - intros j Hjj. unfold exactly_one, successful_results, failed_results, canceled_results.
    rewrite !class_In. subst m. rewrite (missing_In jobs rows j Hn Hi).
    destruct (mem_str j (names rows)) eqn:M.
    + apply mem_str_In in M. unfold names in M. apply in_map_iff in M. destruct M as [r [E Hr]].
      assert (Hin : In j (names rows)) by (unfold names; apply in_map_iff; exists r; tauto).
      assert (U : forall p, (exists r', In r' rows /\ r_name r' = j /\ p r' = true) <-> p r = true).
      { intros p. split.
        - intros [r' [A [B C]]]. rewrite (unique_row rows Hn r r' Hr A) by congruence. exact C.
        - intros P. exists r. tauto. }
      rewrite !U. rewrite Forall_forall in H1. specialize (H1 r Hr). unfold row_one in H1.
      destruct (succ_p r), (fail_p r), (canc_p r); cbn in H1; try discriminate.
      * left. repeat split; try congruence; tauto.
      * right. left. repeat split; try congruence; tauto.
      * right. right. left. repeat split; try congruence; tauto.
    + assert (Hout : ~ In j (names rows)) by (intros H; apply mem_str_In in H; congruence).
      assert (V : forall p, ~ (exists r', In r' rows /\ r_name r' = j /\ p r' = true)).
      { intros p [r' [A [B C]]]. apply Hout. unfold names. apply in_map_iff. exists r'. tauto. }
      right. right. right. repeat split; try apply V; assumption.
Qed.

(* the hypothesis "one row per job" is needed: with a duplicated row the length test of
   _handle_completion reports no missing job although one job has no result *)
Theorem tally_duplicate_rows_counterexample :
  let rows := [mkRow "a" 0 status_FINISHED; mkRow "a" 0 status_FINISHED] in
  let jobs := ["a"; "b"] in
  completion_summary jobs rows = Some (2, 0, 0, 0)%N /\ missing_jobs jobs rows = [] /\ ~ In "b" (names rows).
Proof.
  cbn. split; [vm_compute; reflexivity|]. split; [reflexivity|]. intros [H|[H|[]]]; discriminate.
Qed.
(* a row outside what JADE writes (return code 0, canceled) trips the assert *)
Theorem tally_unwritable_row_asserts :
  writable (mkRow "a" 0 status_CANCELED) = false /\ completion_summary ["a"] [mkRow "a" 0 status_CANCELED] = None.
Proof. split; vm_compute; reflexivity. Qed.
