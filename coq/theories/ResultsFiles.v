(* Fine-grained interleaving model of jade/jobs/results_aggregator.py (C08).

   Files: the consolidated file `processed_results.csv` (Proc) and the per-node batch files
   `results/results_batch_<n>.csv` (Node n); a file is absent or a list of written lines.  Every
   write in the code appends whole lines, each either the header (`delimiter.join(fields)`) or a
   row formatted by `_format_row` (csv.writer) - a line is therefore an `item`; its text is
   `render_item`, and READING goes through the text (csv.DictReader model, `read_file`).
   Lock markers: `<file>.lock` absent or held by an actor (SoftFileLock: O_EXCL create / unlink).

   Actors are program-counter machines; one step = one visible operation, in the code's order:
     appender (AsyncCliCommand._complete / cancel -> ResultsAggregator.append -> append_result;
               HpcSubmitter._cancel_job -> append_result on the processed file), per row:
         Acquire f ; Append f (open "a", header if tell()==0, row, close - one buffered write) ;
         Release f
     collector (HpcSubmitter._update_completed_jobs -> process_results), per round:
         Acquire Proc ; Glob (results_batch_*.csv, any order) ;
         for each listed n:  Acquire (Node n) ; Read (Node n) [_get_results] ;
                             Append Proc [_append_processed_results] ; Remove (Node n) [os.remove] ;
                             Release (Node n)
         Release Proc ; return the concatenation of what was read.
   `Acquire f` is enabled only when f's marker is absent (timeouts are not modelled).  Python
   exceptions (file missing at read/remove, unparsable file) propagate through the two `finally:
   lock.release()` blocks: the collector releases the node lock, then the processed lock, and the
   round has no return value (`None` in `c_rets`).
   A scheduler picks any enabled actor: `step s i perm` (perm = the order in which glob listed
   the node files; only looked at by the Glob step, which requires it to be a duplicate-free
   enumeration of the existing node files).

   No proofs here (ResultsFilesProofs.v). *)
From Coq Require Import String Ascii List Bool NArith Arith.
From Jade Require Import Base Csv.
From Jade.Gen Require Import ResultsFilesGen.
Import ListNotations.
Open Scope list_scope.

(* ---------- rows and their text ---------- *)
(* The six fields as the text `str(getattr(result, x))` produces (typed conversions int()/float()
   on the way back are Python's; only int(return_code) is modelled, as a literal check). *)
Record row := mkrow { r_name : string; r_rc : string; r_status : string; r_exec : string;
                      r_ctime : string; r_hpc : string }.

Definition delim : ascii :=
  match results_delimiter with String a EmptyString => a | _ => ascii_of_N 44 end.

Definition get_field (r : row) (name : string) : string :=
  if String.eqb name "name" then r_name r
  else if String.eqb name "return_code" then r_rc r
  else if String.eqb name "status" then r_status r
  else if String.eqb name "exec_time_s" then r_exec r
  else if String.eqb name "completion_time" then r_ctime r
  else if String.eqb name "hpc_job_id" then r_hpc r
  else "None"%string.
(* [str(getattr(result, x)) for x in self._get_fields()] *)
Definition row_fields (r : row) : list string := map (get_field r) result_fields.
Definition format_row (r : row) : string := format_line delim (row_fields r).
(* self._delimiter.join(self._get_fields()) : NOT csv-quoted *)
Definition header_line : string := join results_delimiter result_fields.

(* int(<text>): optional sign, at least one digit (what str(int) produces) *)
Definition is_int_lit (s : string) : bool :=
  match chars s with
  | [] => false
  | c :: r =>
    let ds := if Ascii.eqb c (ascii_of_N 45) then r else c :: r in
    match ds with [] => false | _ => forallb is_digit ds end
  end.

(* one DictReader row: dict(zip(fieldnames, fields)); the code reads row["return_code"] (int),
   row["exec_time_s"], row["completion_time"] (float) and deserialize_result the rest *)
Definition read_row (names : list string) (fs : list string) : option row :=
  let d := combine names fs in
  match assoc "name" d, assoc "return_code" d, assoc "status" d,
        assoc "exec_time_s" d, assoc "completion_time" d, assoc "hpc_job_id" d with
  | Some a, Some b, Some c, Some e, Some f, Some g =>
    if is_int_lit b then Some (mkrow a b c e f g) else None
  | _, _, _, _, _, _ => None
  end.

Fixpoint read_rows (names : list string) (lines : list string) : option (list row) :=
  match lines with
  | [] => Some []
  | l :: rest =>
    match parse_line delim l with
    | None => None
    | Some [] => read_rows names rest              (* DictReader skips empty records *)
    | Some fs =>
      match read_row names fs, read_rows names rest with
      | Some r, Some rs => Some (r :: rs)
      | _, _ => None
      end
    end
  end.
(* _get_results: the first line gives the field names *)
Definition read_file (lines : list string) : option (list row) :=
  match lines with
  | [] => Some []
  | h :: rest =>
    match parse_line delim h with
    | None => None
    | Some names => read_rows names rest
    end
  end.

(* ---------- files ---------- *)
Inductive fid := Proc | Node (n : N).
Definition fid_eqb (a b : fid) : bool :=
  match a, b with
  | Proc, Proc => true
  | Node x, Node y => N.eqb x y
  | _, _ => false
  end.

Inductive item := Hdr | Row (r : row).
Definition render_item (it : item) : string :=
  match it with Hdr => header_line | Row r => format_row r end.
Definition read_items (its : list item) : option (list row) := read_file (map render_item its).
Fixpoint rows_of (its : list item) : list row :=
  match its with
  | [] => []
  | Hdr :: r => rows_of r
  | Row x :: r => x :: rows_of r
  end.

(* finite maps keyed by file: association lists without duplicate keys *)
Fixpoint fget {V} (f : fid) (l : list (fid * V)) : option V :=
  match l with
  | [] => None
  | (g, v) :: r => if fid_eqb f g then Some v else fget f r
  end.
Definition fdel {V} (f : fid) (l : list (fid * V)) : list (fid * V) :=
  filter (fun p => negb (fid_eqb f (fst p))) l.
Definition fset {V} (f : fid) (v : V) (l : list (fid * V)) : list (fid * V) := (f, v) :: fdel f l.

Definition node_ids {V} (l : list (fid * V)) : list N :=
  flat_map (fun p => match fst p with Node n => [n] | Proc => [] end) l.

(* ---------- actors ---------- *)
Inductive apc := AIdle | AHold (f : fid) (r : row) | AWritten (f : fid).
Inductive cpc :=
| CIdle
| CGlob
| CLoop (todo : list N)
| CRead (n : N) (todo : list N)
| CAppend (n : N) (rs : list row) (todo : list N)
| CRemove (n : N) (rs : list row) (todo : list N)
| CRelN (n : N) (todo : list N).

Inductive actor :=
| App (todo : list (fid * row)) (pc : apc)
| Col (rounds : nat) (pc : cpc) (acc : list row) (failed : bool) (rets : list (option (list row))).

Record state := mkstate {
  files : list (fid * list item);
  locks : list (fid * nat);            (* marker of f held by actor number i *)
  actors : list actor;
  log : list (fid * row)               (* ghost: rows appended so far, with their target file *)
}.

(* after ResultsAggregator.create: the processed file holds the header *)
Definition init (acts : list actor) : state := mkstate [(Proc, [Hdr])] [] acts [].

Inductive op :=
| OAcq (f : fid) | ORel (f : fid) | OAppend (f : fid) | OGlob | ORead (f : fid) | ORemove (f : fid).

Fixpoint set_nth {A} (i : nat) (x : A) (l : list A) : list A :=
  match l, i with
  | [], _ => []
  | _ :: r, O => x :: r
  | a :: r, S k => a :: set_nth k x r
  end.

Definition is_enum_of (perm ids : list N) : bool := nodupbN perm && subsetN perm ids && subsetN ids perm.

Definition is_nil {A} (l : list A) : bool := match l with [] => true | _ => false end.
Definition content (f : fid) (fs : list (fid * list item)) : list item :=
  match fget f fs with Some its => its | None => [] end.

Definition with_actor (s : state) (i : nat) (a : actor) : state :=
  mkstate (files s) (locks s) (set_nth i a (actors s)) (log s).

Definition step (s : state) (i : nat) (perm : list N) : option (state * op) :=
  match nth_error (actors s) i with
  | None => None
  | Some (App todo pc) =>
    match pc with
    | AIdle =>
      match todo with
      | [] => None
      | (f, r) :: rest =>
        match fget f (locks s) with
        | Some _ => None
        | None => Some (mkstate (files s) (fset f i (locks s)) (set_nth i (App rest (AHold f r)) (actors s)) (log s),
                        OAcq f)
        end
      end
    | AHold f r =>
      (* open(f, "a"): created if missing; header iff tell() == 0; one buffered write at close *)
      let its := content f (files s) in
      let new := if is_nil its then [Hdr; Row r] else [Row r] in
      Some (mkstate (fset f (its ++ new) (files s)) (locks s) (set_nth i (App todo (AWritten f)) (actors s))
                    (log s ++ [(f, r)]),
            OAppend f)
    | AWritten f =>
      Some (mkstate (files s) (fdel f (locks s)) (set_nth i (App todo AIdle) (actors s)) (log s), ORel f)
    end
  | Some (Col rounds pc acc failed rets) =>
    match pc with
    | CIdle =>
      match rounds with
      | O => None
      | S k =>
        match fget Proc (locks s) with
        | Some _ => None
        | None => Some (mkstate (files s) (fset Proc i (locks s)) (set_nth i (Col k CGlob [] false rets) (actors s)) (log s),
                        OAcq Proc)
        end
      end
    | CGlob =>
      if is_enum_of perm (node_ids (files s))
      then Some (with_actor s i (Col rounds (CLoop perm) acc failed rets), OGlob)
      else None
    | CLoop [] =>
      Some (mkstate (files s) (fdel Proc (locks s))
                    (set_nth i (Col rounds CIdle [] false (rets ++ [if failed then None else Some acc])) (actors s))
                    (log s),
            ORel Proc)
    | CLoop (n :: todo) =>
      match fget (Node n) (locks s) with
      | Some _ => None
      | None => Some (mkstate (files s) (fset (Node n) i (locks s))
                              (set_nth i (Col rounds (CRead n todo) acc failed rets) (actors s)) (log s),
                      OAcq (Node n))
      end
    | CRead n todo =>
      match fget (Node n) (files s) with
      | None => Some (with_actor s i (Col rounds (CRelN n []) acc true rets), ORead (Node n))   (* FileNotFoundError *)
      | Some its =>
        match read_items its with
        | None => Some (with_actor s i (Col rounds (CRelN n []) acc true rets), ORead (Node n)) (* ValueError / KeyError *)
        | Some rs => Some (with_actor s i (Col rounds (CAppend n rs todo) acc failed rets), ORead (Node n))
        end
      end
    | CAppend n rs todo =>
      (* _append_processed_results: open(processed, "a"), no header logic *)
      Some (mkstate (fset Proc (content Proc (files s) ++ map Row rs) (files s)) (locks s)
                    (set_nth i (Col rounds (CRemove n rs todo) acc failed rets) (actors s)) (log s),
            OAppend Proc)
    | CRemove n rs todo =>
      match fget (Node n) (files s) with
      | None => Some (with_actor s i (Col rounds (CRelN n []) acc true rets), ORemove (Node n))
      | Some _ =>
        Some (mkstate (fdel (Node n) (files s)) (locks s)
                      (set_nth i (Col rounds (CRelN n todo) (acc ++ rs) failed rets) (actors s)) (log s),
              ORemove (Node n))
      end
    | CRelN n todo =>
      Some (mkstate (files s) (fdel (Node n) (locks s))
                    (set_nth i (Col rounds (CLoop (if failed then [] else todo)) acc failed rets) (actors s)) (log s),
            ORel (Node n))
    end
  end.

Definition label := (nat * list N)%type.

Fixpoint run (s : state) (sch : list label) : option (state * list op) :=
  match sch with
  | [] => Some (s, [])
  | (i, perm) :: rest =>
    match step s i perm with
    | None => None
    | Some (s', o) =>
      match run s' rest with
      | None => None
      | Some (s'', os) => Some (s'', o :: os)
      end
    end
  end.

(* ---------- observations ---------- *)
Definition actor_idle (a : actor) : bool :=
  match a with
  | App _ AIdle => true
  | Col _ CIdle _ _ _ => true
  | _ => false
  end.
(* no actor is inside a locked section *)
Definition quiescent (s : state) : bool := forallb actor_idle (actors s).

Definition all_rows (fs : list (fid * list item)) : list row := flat_map (fun p => rows_of (snd p)) fs.
Definition proc_rows (s : state) : list row := rows_of (content Proc (files s)).
Definition node_rows (s : state) : list row := all_rows (fdel Proc (files s)).

(* the successful return values of all collect rounds, concatenated *)
Definition rets_rows (rets : list (option (list row))) : list row :=
  flat_map (fun o => match o with Some rs => rs | None => [] end) rets.
Definition reported (s : state) : list row :=
  flat_map (fun a => match a with Col _ _ _ _ rets => rets_rows rets | _ => [] end) (actors s).
Definition appenders_done (s : state) : bool :=
  forallb (fun a => match a with App [] AIdle => true | App _ _ => false | _ => true end) (actors s).

(* ---------- what the correspondence compares ---------- *)
Definition file_text (s : state) (f : fid) : option (list string) :=
  option_map (map render_item) (fget f (files s)).
Definition rets_of (a : actor) : list (option (list (list string))) :=
  match a with
  | Col _ _ _ _ rets => map (option_map (map row_fields)) rets
  | App _ _ => []
  end.
Definition outcome (s : state) (fids : list fid) :=
  (map (file_text s) fids, map rets_of (actors s), map fst (locks s)).

Definition op_eqb (a b : op) : bool :=
  match a, b with
  | OAcq f, OAcq g | ORel f, ORel g | OAppend f, OAppend g | ORead f, ORead g | ORemove f, ORemove g => fid_eqb f g
  | OGlob, OGlob => true
  | _, _ => false
  end.

(* ---------- exhaustive exploration (canonical glob order: increasing batch id) ---------- *)
Fixpoint insertN (x : N) (l : list N) : list N :=
  match l with [] => [x] | y :: r => if N.leb x y then x :: l else y :: insertN x r end.
Definition sortN (l : list N) : list N := fold_right insertN [] l.
Definition canon_perm (s : state) : list N := sortN (node_ids (files s)).

Definition successors (s : state) : list state :=
  flat_map (fun i => match step s i (canon_perm s) with Some (s', _) => [s'] | None => [] end)
           (seq 0 (length (actors s))).
(* number of maximal schedules (0 contributions mean the fuel ran out) *)
Fixpoint count_runs (fuel : nat) (s : state) : N :=
  match fuel with
  | O => 0%N
  | S k =>
    match successors s with
    | [] => 1%N
    | succs => fold_right N.add 0%N (map (count_runs k) succs)
    end
  end.

(* ---------- specification vocabulary of the C08 theorems ---------- *)
(* a row the appenders may write: no CR/LF in any field text, return code an int literal *)
Definition row_ok (r : row) : Prop := Forall no_crlf (row_fields r) /\ is_int_lit (r_rc r) = true.

(* actors before their first step *)
Definition initial_actor (a : actor) : Prop :=
  match a with
  | App todo AIdle => Forall (fun p => row_ok (snd p)) todo
  | Col _ CIdle [] false [] => True
  | _ => False
  end.

Definition reachable (acts : list actor) (s : state) : Prop :=
  exists sch ops, run (init acts) sch = Some (s, ops).

(* rows appended to node files / directly to the processed file so far *)
Definition node_log (lg : list (fid * row)) : list row := map snd (filter (fun p => negb (fid_eqb (fst p) Proc)) lg).

Definition direct (lg : list (fid * row)) : list row := map snd (filter (fun p => fid_eqb (fst p) Proc) lg).

(* rows an appender still has to write *)
Definition pending_of (a : actor) : list row :=
  match a with
  | App todo pc => match pc with AHold _ r => [r] | _ => [] end ++ map snd todo
  | Col _ _ _ _ _ => []
  end.

Definition pending (s : state) : list row := flat_map pending_of (actors s).

(* all rows of the appenders' programs *)
Definition program_rows (acts : list actor) : list row := flat_map pending_of acts.

Definition total_rounds (acts : list actor) : nat :=
  fold_right (fun a n => match a with Col k _ _ _ _ => k + n | App _ _ => n end) 0 acts.

(* actor a is inside a locked section on f *)
Definition holds (a : actor) (f : fid) : Prop :=
  match a with
  | App _ (AHold g _) | App _ (AWritten g) => f = g
  | App _ AIdle => False
  | Col _ pc _ _ _ =>
    match pc with
    | CIdle => False
    | CGlob | CLoop _ => f = Proc
    | CRead n _ | CAppend n _ _ | CRemove n _ _ | CRelN n _ => f = Proc \/ f = Node n
    end
  end.

(* boolean forms, for concrete examples *)
Definition row_okb (r : row) : bool := forallb no_crlfb (row_fields r) && is_int_lit (r_rc r).
Definition initial_actorb (a : actor) : bool :=
  match a with
  | App todo AIdle => forallb (fun p => row_okb (snd p)) todo
  | Col _ CIdle [] false [] => true
  | _ => false
  end.
