From Coq Require Import String Ascii List ZArith NArith Bool Arith Lia.
From Jade Require Import Base Slurm.
From Jade.Gen Require Import SlurmGen.
Import ListNotations.
Open Scope list_scope.

(* ---------- the table ---------- *)
(* SLURM states in which the job has ended or is ending (specification vocabulary) *)
Definition terminal_vocabulary : list string :=
  ["COMPLETED"; "COMPLETING"; "FAILED"; "CANCELLED"; "TIMEOUT"; "NODE_FAIL"; "PREEMPTED";
   "BOOT_FAIL"; "DEADLINE"; "OUT_OF_MEMORY"]%string.
Definition mem_str (s : string) (l : list string) : bool := existsb (String.eqb s) l.
Lemma mem_str_In s l : mem_str s l = true <-> In s l.
Proof.
  unfold mem_str. rewrite existsb_exists. split.
  - intros [y [Hy E]]. apply String.eqb_eq in E. subst. exact Hy.
  - intros H. exists s. split; [exact H|apply String.eqb_refl].
Qed.

Lemma assoc_In {A} k (l : list (string * A)) v : assoc k l = Some v -> In (k, v) l.
Proof.
  induction l as [|[k' v'] r IH]; cbn; [discriminate|].
  destruct (String.eqb k k') eqn:E.
  - apply String.eqb_eq in E. subst. intros H; inversion H; subst. left; reflexivity.
  - intros H. right. auto.
Qed.

(* table sweep, evaluated by the kernel over the GENERATED table *)
Definition table_conservative_b : bool :=
  forallb (fun kv => implb (is_finished (snd kv)) (mem_str (fst kv) terminal_vocabulary)) statuses
  && negb (is_finished status_default)
  && forallb (fun st => negb (is_finished (lookup_status st))) active_vocabulary.

Lemma finished_only_terminal :
  table_conservative_b = true ->
  forall st, is_finished (lookup_status st) = true -> In st terminal_vocabulary.
Proof.
  unfold table_conservative_b. rewrite !andb_true_iff. intros [[H1 H2] _] st Hf.
  unfold lookup_status in Hf. destruct (assoc st statuses) as [v|] eqn:E.
  - apply assoc_In in E. rewrite forallb_forall in H1. specialize (H1 _ E). cbn [fst snd] in H1.
    rewrite Hf in H1. cbn in H1. apply mem_str_In. exact H1.
  - rewrite Hf in H2. discriminate.
Qed.

Lemma active_never_finished :
  table_conservative_b = true ->
  forall st, In st active_vocabulary -> is_finished (lookup_status st) = false.
Proof.
  unfold table_conservative_b. rewrite !andb_true_iff. intros [_ H3] st Hin.
  rewrite forallb_forall in H3. apply negb_true_iff. auto.
Qed.

Lemma unknown_never_finished :
  table_conservative_b = true ->
  forall st, assoc st statuses = None -> is_finished (lookup_status st) = false.
Proof.
  unfold table_conservative_b. rewrite !andb_true_iff. intros [[_ H2] _] st Hn.
  unfold lookup_status. rewrite Hn. apply negb_true_iff. exact H2.
Qed.

(* ---------- splitting ---------- *)
Definition no_nl (l : list ascii) : Prop := forall a, In a l -> Ascii.eqb a nl = false.
Definition all_ws (l : list ascii) : Prop := forall a, In a l -> is_ws a = true.
Definition no_ws (l : list ascii) : Prop := forall a, In a l -> is_ws a = false.

Lemma split_on_aux_nosep sep l : forall cur,
  (forall a, In a l -> Ascii.eqb a sep = false) -> split_on_aux sep l cur = [rev cur ++ l].
Proof.
  induction l as [|a r IH]; intros cur H; cbn.
  - rewrite app_nil_r. reflexivity.
  - rewrite (H a (or_introl eq_refl)). rewrite IH by (intros b Hb; apply H; right; exact Hb).
    cbn. rewrite <- app_assoc. reflexivity.
Qed.

Lemma split_on_aux_sep sep l r : forall cur,
  (forall a, In a l -> Ascii.eqb a sep = false) ->
  split_on_aux sep (l ++ sep :: r) cur = (rev cur ++ l) :: split_on_aux sep r [].
Proof.
  induction l as [|a l IH]; intros cur H; cbn.
  - rewrite Ascii.eqb_refl, app_nil_r. reflexivity.
  - rewrite (H a (or_introl eq_refl)). rewrite IH by (intros b Hb; apply H; right; exact Hb).
    cbn. rewrite <- app_assoc. reflexivity.
Qed.

Fixpoint join_nl (ls : list (list ascii)) : list ascii :=
  match ls with
  | [] => []
  | [l] => l
  | l :: r => l ++ nl :: join_nl r
  end.

Lemma split_join_nl ls : ls <> [] -> Forall no_nl ls -> split_on nl (join_nl ls) = ls.
Proof.
  unfold split_on. induction ls as [|l r IH]; intros Hne Hall; [congruence|].
  inversion Hall as [|? ? Hl Hr]; subst. destruct r as [|l2 r2].
  - cbn. rewrite split_on_aux_nosep by exact Hl. reflexivity.
  - change (join_nl (l :: l2 :: r2)) with (l ++ nl :: join_nl (l2 :: r2)).
    rewrite split_on_aux_sep by exact Hl. cbn [rev app]. f_equal. apply IH; [discriminate|exact Hr].
Qed.

Lemma split_ws_aux_skip p r : all_ws p -> split_ws_aux (p ++ r) [] = split_ws_aux r [].
Proof.
  induction p as [|a p IH]; intros H; cbn; [reflexivity|].
  rewrite (H a (or_introl eq_refl)). apply IH. intros b Hb; apply H; right; exact Hb.
Qed.

Lemma split_ws_aux_tok t r : forall cur, no_ws t -> split_ws_aux (t ++ r) cur = split_ws_aux r (rev t ++ cur).
Proof.
  induction t as [|a t IH]; intros cur H; cbn; [reflexivity|].
  rewrite (H a (or_introl eq_refl)). rewrite IH by (intros b Hb; apply H; right; exact Hb).
  rewrite <- app_assoc. reflexivity.
Qed.

Lemma split_ws_aux_ws_nil p : all_ws p -> split_ws_aux p [] = [].
Proof. intros H. rewrite <- (app_nil_r p). rewrite split_ws_aux_skip by exact H. reflexivity. Qed.

Lemma split_ws_aux_flush t p r : t <> [] -> all_ws p -> p <> [] ->
  split_ws_aux (p ++ r) (rev t) = t :: split_ws_aux r [].
Proof.
  intros Ht Hp Hne. destruct p as [|a p]; [congruence|]. cbn.
  rewrite (Hp a (or_introl eq_refl)).
  destruct (rev t) eqn:E.
  - exfalso. apply Ht. rewrite <- (rev_involutive t), E. reflexivity.
  - rewrite <- E, rev_involutive. f_equal. apply split_ws_aux_skip. intros b Hb; apply Hp; right; exact Hb.
Qed.

Lemma split_ws_two p1 t1 p2 t2 p3 :
  all_ws p1 -> no_ws t1 -> t1 <> [] -> all_ws p2 -> p2 <> [] -> no_ws t2 -> t2 <> [] -> all_ws p3 ->
  split_ws (p1 ++ t1 ++ p2 ++ t2 ++ p3) = [t1; t2].
Proof.
  intros H1 H2 H2n H3 H3n H4 H4n H5. unfold split_ws.
  rewrite split_ws_aux_skip by exact H1.
  rewrite split_ws_aux_tok by exact H2. rewrite app_nil_r.
  rewrite split_ws_aux_flush by assumption.
  rewrite split_ws_aux_tok by exact H4. rewrite app_nil_r. f_equal.
  destruct p3 as [|a p3].
  - cbn. destruct (rev t2) eqn:E.
    + exfalso. apply H4n. rewrite <- (rev_involutive t2), E. reflexivity.
    + rewrite <- E, rev_involutive. reflexivity.
  - rewrite <- (app_nil_r (a :: p3)). rewrite split_ws_aux_flush; [|assumption|assumption|discriminate].
    reflexivity.
Qed.

(* ---------- well-formed squeue output ---------- *)
(* one output line: blank, or  pad id pad+ STATE pad  where pads are whitespace other than \n *)
Record sq_entry := { e_p1 : list ascii; e_id : list ascii; e_p2 : list ascii; e_st : list ascii; e_p3 : list ascii }.
Inductive sq_line := Blank | Ent (e : sq_entry).
Definition pad_ok (p : list ascii) : Prop := all_ws p /\ no_nl p.
Definition tok_ok (t : list ascii) : Prop := no_ws t /\ t <> [].
Definition entry_ok (e : sq_entry) : Prop :=
  pad_ok (e_p1 e) /\ tok_ok (e_id e) /\ pad_ok (e_p2 e) /\ e_p2 e <> [] /\ tok_ok (e_st e) /\ pad_ok (e_p3 e).
Definition line_ok (l : sq_line) : Prop := match l with Blank => True | Ent e => entry_ok e end.
Definition render_line (l : sq_line) : list ascii :=
  match l with
  | Blank => []
  | Ent e => e_p1 e ++ e_id e ++ e_p2 e ++ e_st e ++ e_p3 e
  end.
Definition render_output (ls : list sq_line) : string := of_chars (join_nl (map render_line ls)).

Lemma nl_is_ws : is_ws nl = true. Proof. reflexivity. Qed.
Lemma no_ws_no_nl t : no_ws t -> no_nl t.
Proof.
  intros H a Ha. destruct (Ascii.eqb a nl) eqn:E; [|reflexivity].
  apply Ascii.eqb_eq in E. subst. pose proof nl_is_ws as W. rewrite (H _ Ha) in W. discriminate W.
Qed.
Lemma no_nl_app a b : no_nl a -> no_nl b -> no_nl (a ++ b).
Proof. intros Ha Hb x Hx. apply in_app_iff in Hx. destruct Hx; auto. Qed.

Lemma render_line_no_nl l : line_ok l -> no_nl (render_line l).
Proof.
  destruct l as [|e]; cbn; [intros _ a []|].
  intros [[_ H1] [[H2 _] [[_ H3] [_ [[H4 _] [_ H5]]]]]].
  repeat apply no_nl_app; auto using no_ws_no_nl.
Qed.

Lemma parse_line_render l : line_ok l ->
  parse_line (render_line l) =
  match l with Blank => Skip | Ent e => Entry (of_chars (e_id e)) (lookup_status (of_chars (e_st e))) end.
Proof.
  destruct l as [|e]; cbn [render_line line_ok]; [reflexivity|].
  intros [[H1 _] [[H2 H2n] [[H3 _] [H3n [[H4 H4n] [H5 _]]]]]].
  unfold parse_line. rewrite split_ws_two by assumption.
  destruct (e_p1 e ++ e_id e ++ e_p2 e ++ e_st e ++ e_p3 e) eqn:E; [|reflexivity].
  exfalso. apply app_eq_nil in E. destruct E as [_ E]. apply app_eq_nil in E. destruct E as [E _]. auto.
Qed.

Definition upd (d : list (string * hpc_status)) (l : sq_line) :=
  match l with Blank => d | Ent e => dict_set (of_chars (e_id e)) (lookup_status (of_chars (e_st e))) d end.

Lemma parse_lines_render ls : forall d, Forall line_ok ls ->
  parse_lines (map render_line ls) d = Some (fold_left upd ls d).
Proof.
  induction ls as [|l r IH]; intros d H; cbn; [reflexivity|].
  inversion H as [|? ? Hl Hr]; subst. rewrite parse_line_render by exact Hl.
  destruct l as [|e]; cbn; apply IH; exact Hr.
Qed.

Lemma get_statuses_render ls : Forall line_ok ls ->
  get_statuses (render_output ls) = Some (fold_left upd ls []).
Proof.
  intros H. unfold get_statuses, render_output. rewrite chars_of_chars.
  destruct ls as [|l r].
  - reflexivity.
  - rewrite split_join_nl.
    + apply parse_lines_render. exact H.
    + discriminate.
    + apply Forall_map. eapply Forall_impl; [|exact H]. apply render_line_no_nl.
Qed.

(* the state the scheduler reported last for `id` *)
Fixpoint reported (ls : list sq_line) (id : string) (acc : option string) : option string :=
  match ls with
  | [] => acc
  | Blank :: r => reported r id acc
  | Ent e :: r => if String.eqb id (of_chars (e_id e)) then reported r id (Some (of_chars (e_st e))) else reported r id acc
  end.

Lemma assoc_dict_set_same {A} k (v : A) d : assoc k (dict_set k v d) = Some v.
Proof.
  induction d as [|[k' v'] r IH]; cbn.
  - rewrite String.eqb_refl. reflexivity.
  - destruct (String.eqb k k') eqn:E; cbn.
    + rewrite String.eqb_refl. reflexivity.
    + rewrite E. exact IH.
Qed.
Lemma assoc_dict_set_other {A} k k2 (v : A) d : String.eqb k2 k = false -> assoc k2 (dict_set k v d) = assoc k2 d.
Proof.
  intros Hne. induction d as [|[k' v'] r IH]; cbn.
  - rewrite Hne. reflexivity.
  - destruct (String.eqb k k') eqn:E; cbn.
    + apply String.eqb_eq in E. subst. rewrite Hne. reflexivity.
    + destruct (String.eqb k2 k'); [reflexivity|exact IH].
Qed.

Lemma assoc_fold_upd id ls : forall d acc,
  assoc id d = option_map lookup_status acc ->
  assoc id (fold_left upd ls d) = option_map lookup_status (reported ls id acc).
Proof.
  induction ls as [|l r IH]; intros d acc H; cbn; [exact H|].
  destruct l as [|e]; cbn.
  - apply IH. exact H.
  - destruct (String.eqb id (of_chars (e_id e))) eqn:E.
    + apply String.eqb_eq in E. subst. apply IH. rewrite assoc_dict_set_same. reflexivity.
    + apply IH. rewrite assoc_dict_set_other by exact E. exact H.
Qed.

(* squeue parsing is total and exact on well-formed output, whatever the whitespace *)
Lemma status_exact ls : Forall line_ok ls ->
  exists snap, get_statuses (render_output ls) = Some snap /\
  forall id, status_of snap id =
             match reported ls id None with Some st => lookup_status st | None => status_absent end.
Proof.
  intros H. exists (fold_left upd ls []). split; [apply get_statuses_render; exact H|].
  intros id. unfold status_of. rewrite (assoc_fold_upd id ls [] None) by reflexivity.
  destruct (reported ls id None); reflexivity.
Qed.

(* a batch is treated as finished only if absent from the answer or reported in a terminal state *)
Lemma conservative ls : table_conservative_b = true -> Forall line_ok ls ->
  exists snap, get_statuses (render_output ls) = Some snap /\
  forall id, batch_is_complete snap id = true ->
    reported ls id None = None \/ exists st, reported ls id None = Some st /\ In st terminal_vocabulary.
Proof.
  intros Ht H. destruct (status_exact ls H) as [snap [H1 H2]]. exists snap. split; [exact H1|].
  intros id Hc. unfold batch_is_complete in Hc. rewrite H2 in Hc.
  destruct (reported ls id None) as [st|]; [right|left; reflexivity].
  exists st. split; [reflexivity|]. apply finished_only_terminal; assumption.
Qed.

Lemma absent_is_complete : is_finished status_absent = true ->
  forall snap id, assoc id snap = None -> batch_is_complete snap id = true.
Proof. intros H snap id Hn. unfold batch_is_complete, status_of. rewrite Hn. exact H. Qed.

(* ---------- sbatch response ---------- *)
Definition all_digits (l : list ascii) : Prop := forall a, In a l -> is_digit a = true.
Lemma take_while_all f l : forall a, In a (take_while f l) -> f a = true.
Proof.
  induction l as [|b r IH]; cbn; [intros a []|].
  destruct (f b) eqn:E; [|intros a []]. intros a [->|H]; auto.
Qed.
Lemma is_prefix_app p l : is_prefix p l = true -> l = p ++ drop_prefix p l.
Proof.
  revert l. induction p as [|a p IH]; intros l; cbn; [reflexivity|].
  destruct l as [|b l]; [discriminate|]. rewrite andb_true_iff. intros [E H].
  apply Ascii.eqb_eq in E. subst. f_equal. apply IH. exact H.
Qed.
Lemma take_while_prefix f l : exists r, l = take_while f l ++ r.
Proof.
  induction l as [|a l [r IH]]; cbn; [exists []; reflexivity|].
  destruct (f a); [exists r; cbn; f_equal; exact IH|exists (a :: l); reflexivity].
Qed.

Lemma search_sbatch_sound l ds : search_sbatch l = Some ds ->
  ds <> [] /\ all_digits ds /\ exists pre post, l = pre ++ chars sbatch_prefix ++ ds ++ post.
Proof.
  induction l as [|a r IH].
  - cbn [search_sbatch]. destruct (is_prefix (chars sbatch_prefix) []) eqn:Ep.
    + destruct (take_while is_digit (drop_prefix (chars sbatch_prefix) [])) eqn:Et; [discriminate|].
      intros H; inversion H; subst. split; [discriminate|]. split.
      * intros x Hx. rewrite <- Et in Hx. eapply take_while_all; eauto.
      * apply is_prefix_app in Ep. destruct (take_while_prefix is_digit (drop_prefix (chars sbatch_prefix) [])) as [post Hp].
        exists [], post. cbn [app]. rewrite Ep at 1. rewrite Hp at 1. rewrite Et. reflexivity.
    + discriminate.
  - cbn [search_sbatch]. destruct (is_prefix (chars sbatch_prefix) (a :: r)) eqn:Ep.
    + destruct (take_while is_digit (drop_prefix (chars sbatch_prefix) (a :: r))) eqn:Et.
      * intros H. apply IH in H. destruct H as [H1 [H2 [pre [post H3]]]]. split; [exact H1|]. split; [exact H2|].
        exists (a :: pre), post. cbn. f_equal. exact H3.
      * intros H; inversion H; subst. split; [discriminate|]. split.
        -- intros x Hx. rewrite <- Et in Hx. eapply take_while_all; eauto.
        -- apply is_prefix_app in Ep.
           destruct (take_while_prefix is_digit (drop_prefix (chars sbatch_prefix) (a :: r))) as [post Hp].
           exists [], post. cbn [app]. rewrite Ep at 1. rewrite Hp at 1. rewrite Et. reflexivity.
    + intros H. apply IH in H. destruct H as [H1 [H2 [pre [post H3]]]]. split; [exact H1|]. split; [exact H2|].
      exists (a :: pre), post. cbn. f_equal. exact H3.
Qed.

Lemma search_sbatch_none l : contains (chars sbatch_prefix) l = false -> search_sbatch l = None.
Proof.
  induction l as [|a r IH]; cbn [contains search_sbatch]; rewrite orb_false_iff; intros [H1 H2]; rewrite H1.
  - reflexivity.
  - apply IH. exact H2.
Qed.

(* GOOD only for exit code 0 and a response that contains the marker followed by digits *)
Lemma submit_good ret out id : submit ret out = GOOD id ->
  ret = 0%Z /\ chars id <> [] /\ all_digits (chars id) /\
  exists pre post, chars out = pre ++ chars sbatch_prefix ++ chars id ++ post.
Proof.
  unfold submit. destruct (ret =? 0)%Z eqn:E; [|discriminate]. apply Z.eqb_eq in E.
  destruct (search_sbatch (chars out)) as [ds|] eqn:Es; [|discriminate].
  intros H; inversion H; subst. rewrite chars_of_chars. apply search_sbatch_sound in Es.
  destruct Es as [H1 [H2 H3]]. auto.
Qed.
Lemma submit_nonzero ret out : ret <> 0%Z -> submit ret out = ERROR.
Proof. intros H. unfold submit. apply Z.eqb_neq in H. rewrite H. reflexivity. Qed.
Lemma submit_unparsable ret out : str_contains sbatch_prefix out = false -> submit ret out = ERROR.
Proof.
  intros H. unfold submit. destruct (ret =? 0)%Z; [|reflexivity].
  unfold str_contains in H. rewrite search_sbatch_none by exact H. reflexivity.
Qed.
Lemma is_prefix_self p l : is_prefix p (p ++ l) = true.
Proof. induction p as [|a p IH]; cbn; [reflexivity|]. rewrite Ascii.eqb_refl. exact IH. Qed.
Lemma drop_prefix_self p l : drop_prefix p (p ++ l) = l.
Proof. induction p as [|a p IH]; cbn; [destruct l; reflexivity|exact IH]. Qed.
(* completeness for the standard answer, possibly preceded by text that does not start the marker *)
Lemma search_sbatch_here ds post :
  ds <> [] -> all_digits ds -> (match post with [] => True | a :: _ => is_digit a = false end) ->
  search_sbatch (chars sbatch_prefix ++ ds ++ post) = Some ds.
Proof.
  intros Hn Hd Hp.
  pose proof (is_prefix_self (chars sbatch_prefix) (ds ++ post)) as Ep.
  pose proof (drop_prefix_self (chars sbatch_prefix) (ds ++ post)) as Ed.
  assert (Et : take_while is_digit (ds ++ post) = ds).
  { clear Hn Ep Ed. induction ds as [|a ds IH]; cbn.
    - destruct post as [|b post]; [reflexivity|]. cbn. rewrite Hp. reflexivity.
    - rewrite (Hd a (or_introl eq_refl)). f_equal. apply IH. intros b Hb. apply Hd. right; exact Hb. }
  destruct (chars sbatch_prefix ++ ds ++ post) eqn:E; cbn [search_sbatch]; rewrite Ep, Ed, Et;
    destruct ds; congruence.
Qed.

(* ---------- submission script ---------- *)
Open Scope string_scope.
Definition fixed_directives (cfg : script_cfg) (name path : string) : list (string * string) :=
  [("account", c_account cfg); ("job-name", name); ("time", c_walltime cfg);
   ("output", path ++ "/job_output_%j.o"); ("error", path ++ "/job_output_%j.e")].

Lemma directives_app a b : directives (a ++ b) = (directives a ++ directives b)%list.
Proof. unfold directives. apply flat_map_app. Qed.

Lemma header_directives cfg name script path :
  directives (map (render (field cfg name script path [])) script_header) = fixed_directives cfg name path.
Proof. vm_compute. reflexivity. Qed.

Lemma tail_directives cfg name script path :
  directives (map (render (field cfg name script path [])) script_tail) = [].
Proof. vm_compute. reflexivity. Qed.

Definition opt_line cfg name script path p v :=
  render (field cfg name script path [("param", p); ("value", v)]) script_optional_line.

Lemma optional_line_directive cfg name script path :
  Forall (fun p => forall v, directive_of_line (opt_line cfg name script path p v) = Some (p, v)) script_optional_params.
Proof. repeat constructor; intros v; vm_compute; reflexivity. Qed.

Lemma optional_directives cfg name script path :
  directives (optional_lines cfg name script path) =
  flat_map (fun p => match c_opt cfg p with Some v => [(p, v)] | None => [] end) script_optional_params.
Proof.
  unfold optional_lines. pose proof (optional_line_directive cfg name script path) as H.
  induction script_optional_params as [|p ps IH]; [reflexivity|].
  inversion H as [|? ? Hp Hps]; subst. cbn [flat_map]. rewrite directives_app, IH by exact Hps. f_equal.
  destruct (c_opt cfg p) as [v|]; [|reflexivity]. unfold directives. cbn [flat_map].
  fold (opt_line cfg name script path p v). rewrite Hp. reflexivity.
Qed.

Definition optional_vocab_b : bool :=
  forallb (fun p => mem_str p spec_optional_fields) script_optional_params
  && forallb (fun p => mem_str p script_optional_params) spec_optional_fields.

Lemma script_directives cfg name script path :
  directives (script_lines cfg name script path) =
  (fixed_directives cfg name path ++
   flat_map (fun p => match c_opt cfg p with Some v => [(p, v)] | None => [] end) script_optional_params)%list.
Proof.
  unfold script_lines. rewrite !directives_app, header_directives, optional_directives, tail_directives.
  rewrite app_nil_r. reflexivity.
Qed.

(* the script contains exactly the configured values and every optional parameter that is set *)
Lemma script_exact cfg name script path : optional_vocab_b = true ->
  forall k v, In (k, v) (directives (script_lines cfg name script path)) <->
              In (k, v) (fixed_directives cfg name path) \/ (In k spec_optional_fields /\ c_opt cfg k = Some v).
Proof.
  unfold optional_vocab_b. rewrite andb_true_iff, !forallb_forall. intros [Ha Hb] k v.
  rewrite script_directives, in_app_iff, in_flat_map. split.
  - intros [H|[p [Hp Hin]]]; [left; exact H|right].
    destruct (c_opt cfg p) as [v'|] eqn:E; [|destruct Hin]. destruct Hin as [Hin|[]]. inversion Hin; subst.
    split; [apply mem_str_In; apply Ha; exact Hp|exact E].
  - intros [H|[Hk Hv]]; [left; exact H|right]. exists k. split; [apply mem_str_In; apply Hb; exact Hk|].
    rewrite Hv. left; reflexivity.
Qed.

Lemma tail_lines cfg name script path :
  map (render (field cfg name script path [])) script_tail = [""; "srun " ++ script].
Proof. vm_compute. reflexivity. Qed.

Lemma script_first_last cfg name script path :
  hd "" (script_lines cfg name script path) = "#!/bin/bash" /\
  last (script_lines cfg name script path) "" = "srun " ++ script.
Proof.
  split; [vm_compute; reflexivity|]. unfold script_lines. rewrite tail_lines.
  change [""; "srun " ++ script] with (([""] : list string) ++ [("srun " ++ script)%string])%list.
  rewrite !app_assoc. apply last_last.
Qed.

(* ---------- the generated tables satisfy the boolean side conditions (kernel evaluation) ---------- *)
Lemma table_conservative_ok : table_conservative_b = true.
Proof. vm_compute. reflexivity. Qed.
Lemma optional_vocab_ok : optional_vocab_b = true.
Proof. vm_compute. reflexivity. Qed.
Lemma absent_finished_ok : is_finished status_absent = true.
Proof. vm_compute. reflexivity. Qed.
