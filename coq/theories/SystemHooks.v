(* C16: the hook monitor accepts every accepted trace. *)
From Coq Require Import List ZArith NArith Bool Arith Lia.
From Jade Require Import Base System SystemMonitors SystemProofs SystemInv SystemOrder.
Import ListNotations.
Open Scope N_scope.
Set Default Timeout 300.

Definition flags_rel (k : hk_state) (n : node) : Prop :=
  (n_setup n = true <-> In (n_id n) (k_nsetup k)) /\
  (n_teardown n = true <-> In (n_id n) (k_nteardown k)) /\
  (n_started n = true <-> In (n_id n) (k_nlaunched k)).

Record R16 (sc : scenario) (s : state) (k : hk_state) : Prop := {
  h_fresh : created s = false -> holder s = None /\ k_setup k = 0 /\ k_sbatch k = false;
  h_setup : forall r, holder s = Some r -> r_creator r = true -> r_setup r = false -> k_setup k = 0;
  h_sbatch : forall r, holder s = Some r -> r_creator r = true -> r_round r = false -> k_sbatch k = false;
  h_sum : forall r, holder s = Some r -> r_summary r = true ->
          k_summary k = true /\ (r_teardown r = false -> k_teardown k = 0) /\ (r_teardown r = true -> k_teardown k = 1);
  h_nosum : forall r, holder s = Some r -> r_summary r = false -> r_teardown r = false;
  h_ids : NoDup (map n_id (nodes s));
  h_nodes : forall n, In n (nodes s) -> flags_rel k n;
  h_known : forall id, In id (k_nsetup k) \/ In id (k_nteardown k) \/ In id (k_nlaunched k) ->
            exists n, In n (nodes s) /\ n_id n = id
}.

Definition k0 : hk_state := {| k_setup := 0; k_sbatch := false; k_summary := false; k_teardown := 0;
                               k_nsetup := []; k_nteardown := []; k_nlaunched := [] |}.
Lemma r16_init sc : R16 sc init k0.
Proof.
  constructor; cbn; intros; try discriminate; try contradiction; auto; try constructor.
  destruct H as [[]|[[]|[]]].
Qed.

Lemma set_n_In' nd l n' : In n' (set_n nd l) -> n' = nd \/ (In n' l /\ n_id n' <> n_id nd).
Proof.
  unfold set_n. rewrite in_map_iff. intros (n & E & Hin). destruct (N.eqb (n_id n) (n_id nd)) eqn:Eq; subst; auto.
  right. split; [exact Hin|]. apply N.eqb_neq. exact Eq.
Qed.
Lemma set_n_ids nd l : (exists n0, In n0 l /\ n_id n0 = n_id nd) \/ True -> map n_id (set_n nd l) = map n_id l.
Proof.
  intros _. unfold set_n. rewrite map_map. apply map_ext. intros n. destruct (N.eqb (n_id n) (n_id nd)) eqn:E; [apply N.eqb_eq in E; auto|reflexivity].
Qed.
Lemma set_n_has nd l n : In n l -> exists n', In n' (set_n nd l) /\ n_id n' = n_id n.
Proof.
  intros Hin. unfold set_n. destruct (N.eqb (n_id n) (n_id nd)) eqn:E.
  - exists nd. split; [apply in_map_iff; exists n; rewrite E; auto|apply N.eqb_eq in E; auto].
  - exists n. split; [apply in_map_iff; exists n; rewrite E; auto|reflexivity].
Qed.
Notation dead_map id l :=
  (map (fun n => if N.eqb (n_id n) id
                then {| n_id := id; n_alive := false; n_queue := n_queue n; n_running := n_running n;
                        n_depth := n_depth n; n_setup := n_setup n; n_teardown := n_teardown n; n_started := n_started n |}
                else n) l).
Lemma dead_map_In id l n' : In n' (dead_map id l) ->
  exists n, In n l /\ n_id n' = n_id n /\ n_setup n' = n_setup n /\ n_teardown n' = n_teardown n /\ n_started n' = n_started n.
Proof.
  rewrite in_map_iff. intros (n & E & Hin). exists n. split; [exact Hin|].
  destruct (N.eqb (n_id n) id) eqn:Eq; subst; cbn; auto. apply N.eqb_eq in Eq. auto.
Qed.
Lemma dead_map_ids id l : map n_id (dead_map id l) = map n_id l.
Proof.
  rewrite map_map. apply map_ext. intros n. destruct (N.eqb (n_id n) id) eqn:E; [apply N.eqb_eq in E; auto|reflexivity].
Qed.
Lemma dead_map_has id l n : In n l -> exists n', In n' (dead_map id l) /\ n_id n' = n_id n.
Proof.
  intros Hin. eexists. split; [apply (in_map _ _ _ Hin)|]. cbn. destruct (N.eqb (n_id n) id) eqn:E; [apply N.eqb_eq in E; auto|reflexivity].
Qed.
Lemma nodup_ids_unique l n1 n2 : NoDup (map n_id l) -> In n1 l -> In n2 l -> n_id n1 = n_id n2 -> n1 = n2.
Proof.
  induction l as [|x t IH]; cbn; [contradiction|]. intros Hnd H1 H2 E. apply NoDup_cons_iff in Hnd. destruct Hnd as [Hx Ht].
  destruct H1 as [<-|H1], H2 as [<-|H2]; auto.
  - exfalso. apply Hx. rewrite E. apply in_map. exact H2.
  - exfalso. apply Hx. rewrite <- E. apply in_map. exact H1.
Qed.

Definition kin (k : hk_state) (id : N) : Prop := In id (k_nsetup k) \/ In id (k_nteardown k) \/ In id (k_nlaunched k).
Lemma flags_set_n (k k' : hk_state) l n nd : In n l -> n_id nd = n_id n ->
  flags_rel k' nd -> (forall m, In m l -> n_id m <> n_id n -> flags_rel k' m) ->
  forall m, In m (set_n nd l) -> flags_rel k' m.
Proof.
  intros Hn Hid Hnd Hot m Hm. apply set_n_In' in Hm. destruct Hm as [->|[Hm Hne]]; [exact Hnd|].
  apply Hot; [exact Hm|congruence].
Qed.
Lemma known_set_n k' l n nd : In n l -> n_id nd = n_id n ->
  (forall id, kin k' id -> id = n_id n \/ exists m, In m l /\ n_id m = id) ->
  forall id, kin k' id -> exists m, In m (set_n nd l) /\ n_id m = id.
Proof.
  intros Hn Hid Hk id Hin. destruct (Hk id Hin) as [->|(m & Hm & E)].
  - destruct (set_n_has nd l n Hn) as (m' & Hm' & E'). eauto.
  - destruct (set_n_has nd l m Hm) as (m' & Hm' & E'). exists m'. split; [exact Hm'|congruence].
Qed.

Lemma find_n_none id l : find_n id l = None -> forall n, In n l -> n_id n <> id.
Proof.
  unfold find_n. intros Hf n Hin E. apply (find_none _ _ Hf) in Hin. rewrite E, N.eqb_refl in Hin. discriminate.
Qed.

Ltac gen16 F := try (first [ assumption | basic | intros Hc; exact (F Hc) | intros Hc; destruct (F Hc) as (Fh & ?); discriminate | intros; cbn in *; fwd; eauto | intros; cbn in *; fwd; intuition congruence ]; fail).
Ltac dead16 ID ND KN :=
  lazymatch goal with
  | |- NoDup _ => rewrite dead_map_ids; exact ID
  | |- forall n, In n _ -> flags_rel _ n =>
    let n' := fresh "n'" in let Hn := fresh "Hn" in
    intros n' Hn; apply dead_map_In in Hn; destruct Hn as (n1 & Hn1 & E1 & E2 & E3 & E4);
    destruct (ND n1 Hn1) as (A & B & C); unfold flags_rel; rewrite E1, E2, E3, E4; auto
  | |- _ \/ _ -> exists _, _ =>
    let Hid := fresh "Hid" in
    intros Hid; destruct (KN _ Hid) as (n1 & Hn1 & E1);
    lazymatch goal with |- exists _, In _ (map ?f ?l) /\ _ =>
      exists (f n1); split; [exact (in_map f l n1 Hn1)|];
      cbv beta; destruct (N.eqb (n_id n1) _) eqn:Eq; cbn [n_id]; [apply N.eqb_eq in Eq; congruence|exact E1] end
  end.

Ltac setn16 ID ND KN k :=
  match goal with Fn : In ?n0 (nodes _), Fid : n_id ?n0 = _ |- _ =>
  lazymatch goal with
  | |- NoDup _ => rewrite set_n_ids; [exact ID|auto]
  | |- forall n, In n _ -> flags_rel _ n =>
    eapply (flags_set_n k); [exact Fn|cbn [n_id]; symmetry; exact Fid| |intros m Hm _; exact (ND m Hm)];
    destruct (ND _ Fn) as (A & B & C); unfold flags_rel; cbn [n_id n_setup n_teardown n_started]; rewrite Fid in *; auto
  | |- _ \/ _ -> exists _, _ =>
    let Hid := fresh "Hid" in
    intros Hid; eapply known_set_n; [exact Fn|cbn [n_id]; symmetry; exact Fid| |exact Hid];
    intros idq Hq; right; exact (KN idq Hq)
  end end.

(* set_n with one flag of the node switched on and its id added to the matching monitor list *)
Ltac setn16k ID ND KN k k' :=
  match goal with Fn : In ?n0 (nodes _), Fid : n_id ?n0 = ?id |- _ =>
  lazymatch goal with
  | |- NoDup _ => rewrite set_n_ids; [exact ID|auto]
  | |- forall n, In n _ -> flags_rel _ n =>
    eapply (flags_set_n k k'); [exact Fn|cbn [n_id]; symmetry; exact Fid| |];
    [ destruct (ND _ Fn) as (A & B & C); unfold flags_rel; cbn [n_id n_setup n_teardown n_started k_nsetup k_nteardown k_nlaunched];
      rewrite Fid in *; repeat split; intros; auto; try (left; reflexivity); try tauto
    | intros m Hm Hne; destruct (ND m Hm) as (A & B & C); unfold flags_rel; cbn [k_nsetup k_nteardown k_nlaunched];
      rewrite Fid in Hne; repeat split; intros; cbn [In] in *; try tauto;
      repeat match goal with X : _ \/ _ |- _ => destruct X end; try congruence; tauto ]
  | |- _ \/ _ -> exists _, _ =>
    let Hid := fresh "Hid" in
    intros Hid; eapply (known_set_n k'); [exact Fn|cbn [n_id]; symmetry; exact Fid| |exact Hid];
    intros idq Hq; unfold kin in Hq; cbn [k_nsetup k_nteardown k_nlaunched In] in Hq; rewrite Fid;
    first [ right; apply KN; tauto
          | destruct Hq as [Hq|[Hq|Hq]]; repeat match goal with X : _ \/ _ |- _ => destruct X end;
            first [ left; congruence | right; apply KN; tauto ] ]
  end end.


Lemma c16_step sc s e s' k : step sc s e = Some s' -> R16 sc s k ->
  exists k', (forall t, c16_from sc k (e :: t) = c16_from sc k' t) /\ R16 sc s' k'.
Proof.
  intros H HR.
  pose proof (h_fresh sc s k HR) as F. pose proof (h_setup sc s k HR) as SU. pose proof (h_sbatch sc s k HR) as SB.
  pose proof (h_sum sc s k HR) as SM. pose proof (h_nosum sc s k HR) as NS'. pose proof (h_ids sc s k HR) as ID.
  pose proof (h_nodes sc s k HR) as ND. pose proof (h_known sc s k HR) as KN.
  prep e H.
  all: try (match goal with Fn : find_n _ _ = Some _ |- _ => apply find_n_In in Fn; destruct Fn as [Fn Fid] end).
  all: rw_holder; spec_holder.
  (* events that the monitor ignores and that change neither the holder's hook flags nor the nodes' *)
  all: try (exists k; split; [reflexivity|]; constructor; hlit;
            first [ assumption | basic
                  | intros Hc; destruct (F Hc) as (Fh & ?); discriminate
                  | intros Hc; exact (F Hc)
                  | intros; cbn in *; fwd; eauto ]; fail).
  all: lazymatch goal with EV := ?x |- _ =>
    match x with
    | EScancel _ _ => exists k; split; [reflexivity|]; constructor; hlit; gen16 F; dead16 ID ND KN
    | EBatchEnd _ => exists k; split; [reflexivity|]; constructor; hlit; gen16 F; dead16 ID ND KN
    | EUnblock _ _ _ => exists k; split; [reflexivity|]; constructor; hlit; gen16 F; setn16 ID ND KN k
    | EAppend ?id _ =>
      exists k; split;
      [ intros t; cbn [c16_from];
        match goal with Fn : In ?n0 (nodes _), Fid : n_id ?n0 = _ |- _ => destruct (ND _ Fn) as (_ & B & _); rewrite Fid in B end;
        match goal with T : n_teardown _ = false |- _ =>
          replace (memN id (k_nteardown k)) with false; [reflexivity|symmetry; apply memN_false; intros Hin; apply B in Hin; congruence] end
      | constructor; hlit; gen16 F; setn16 ID ND KN k ]
    | ELaunch ?id _ =>
      match goal with Fn : In ?n0 (nodes _), Fid : n_id ?n0 = _ |- _ => destruct (ND _ Fn) as (A0 & B0 & _); rewrite Fid in A0, B0 end;
      pose (k' := {| k_setup := k_setup k; k_sbatch := k_sbatch k; k_summary := k_summary k; k_teardown := k_teardown k;
                     k_nsetup := k_nsetup k; k_nteardown := k_nteardown k; k_nlaunched := id :: k_nlaunched k |});
      exists k'; split;
      [ intros t; cbn [c16_from]; subst k';
        match goal with T : n_teardown _ = false |- _ =>
          replace (memN id (k_nteardown k)) with false by (symmetry; apply memN_false; intros Hin; apply B0 in Hin; congruence) end;
        first [ match goal with E : hk_node_setup _ = true, S : n_setup _ = true |- _ => rewrite E;
                  replace (memN id (k_nsetup k)) with true by (symmetry; apply memN_In; apply A0; exact S) end; reflexivity
              | match goal with E : hk_node_setup _ = false |- _ => rewrite E end; reflexivity ]
      | constructor; hlit; subst k'; cbn [k_setup k_sbatch k_summary k_teardown]; gen16 F;
        setn16k ID ND KN k {| k_setup := k_setup k; k_sbatch := k_sbatch k; k_summary := k_summary k; k_teardown := k_teardown k;
                              k_nsetup := k_nsetup k; k_nteardown := k_nteardown k; k_nlaunched := id :: k_nlaunched k |} ]
    | EHook _ HNodeSetup (Some ?id) =>
      match goal with Fn : In ?n0 (nodes _), Fid : n_id ?n0 = _ |- _ => destruct (ND _ Fn) as (A0 & _ & C0); rewrite Fid in A0, C0 end;
      pose (k' := {| k_setup := k_setup k; k_sbatch := k_sbatch k; k_summary := k_summary k; k_teardown := k_teardown k;
                     k_nsetup := id :: k_nsetup k; k_nteardown := k_nteardown k; k_nlaunched := k_nlaunched k |});
      exists k'; split;
      [ intros t; cbn [c16_from]; subst k';
        replace (memN id (k_nsetup k)) with false by (symmetry; apply memN_false; intros Hin; apply A0 in Hin; congruence);
        replace (memN id (k_nlaunched k)) with false by (symmetry; apply memN_false; intros Hin; apply C0 in Hin; congruence);
        reflexivity
      | constructor; hlit; subst k'; cbn [k_setup k_sbatch k_summary k_teardown]; gen16 F;
        setn16k ID ND KN k {| k_setup := k_setup k; k_sbatch := k_sbatch k; k_summary := k_summary k; k_teardown := k_teardown k;
                              k_nsetup := id :: k_nsetup k; k_nteardown := k_nteardown k; k_nlaunched := k_nlaunched k |} ]
    | EHook _ HNodeTeardown (Some ?id) =>
      match goal with Fn : In ?n0 (nodes _), Fid : n_id ?n0 = _ |- _ => destruct (ND _ Fn) as (_ & B0 & _); rewrite Fid in B0 end;
      pose (k' := {| k_setup := k_setup k; k_sbatch := k_sbatch k; k_summary := k_summary k; k_teardown := k_teardown k;
                     k_nsetup := k_nsetup k; k_nteardown := id :: k_nteardown k; k_nlaunched := k_nlaunched k |});
      exists k'; split;
      [ intros t; cbn [c16_from]; subst k';
        replace (memN id (k_nteardown k)) with false by (symmetry; apply memN_false; intros Hin; apply B0 in Hin; congruence);
        reflexivity
      | constructor; hlit; subst k'; cbn [k_setup k_sbatch k_summary k_teardown]; gen16 F;
        setn16k ID ND KN k {| k_setup := k_setup k; k_sbatch := k_sbatch k; k_summary := k_summary k; k_teardown := k_teardown k;
                              k_nsetup := k_nsetup k; k_nteardown := id :: k_nteardown k; k_nlaunched := k_nlaunched k |} ]
    | EBatchStart ?id =>
      match goal with Fnone : find_n _ _ = None |- _ => pose proof (find_n_none _ _ Fnone) as NN end;
      exists k; split; [reflexivity|]; constructor; hlit; gen16 F;
      lazymatch goal with
      | |- NoDup _ => rewrite map_app; apply NoDup_app_iff; repeat split; [exact ID|repeat constructor; intros []|];
          intros i Hi [<-|[]]; apply in_map_iff in Hi; destruct Hi as (m & Em & Hm); exact (NN m Hm Em)
      | |- forall n, In n _ -> flags_rel _ n =>
          intros m Hm; apply in_app_iff in Hm; destruct Hm as [Hm|[<-|[]]]; [exact (ND m Hm)|];
          unfold flags_rel; cbn [n_id n_setup n_teardown n_started]; repeat split; intros Hx; try discriminate;
          exfalso; (assert (K : In id (k_nsetup k) \/ In id (k_nteardown k) \/ In id (k_nlaunched k)) by tauto);
          destruct (KN _ K) as (m & Hm & Em); exact (NN m Hm Em)
      | |- _ \/ _ -> exists _, _ =>
          intros Hid; destruct (KN _ Hid) as (m & Hm & Em); exists m; split; [apply in_app_iff; left; exact Hm|exact Em]
      end
    | ECreate _ => exists k; split; [reflexivity|]; constructor; hlit; gen16 F;
        try (intros; match goal with C : created _ = false |- _ => destruct (F C) as (_ & F1 & F2); auto end)
    | ESbatch _ _ _ _ _ _ =>
      exists {| k_setup := k_setup k; k_sbatch := true; k_summary := k_summary k; k_teardown := k_teardown k;
                k_nsetup := k_nsetup k; k_nteardown := k_nteardown k; k_nlaunched := k_nlaunched k |};
      split; [reflexivity|]; constructor; hlit; cbn [k_setup k_sbatch k_summary k_teardown k_nsetup k_nteardown k_nlaunched]; gen16 F
    | ESummary _ _ _ =>
      exists {| k_setup := k_setup k; k_sbatch := k_sbatch k; k_summary := true; k_teardown := 0;
                k_nsetup := k_nsetup k; k_nteardown := k_nteardown k; k_nlaunched := k_nlaunched k |};
      split; [reflexivity|]; constructor; hlit; cbn [k_setup k_sbatch k_summary k_teardown k_nsetup k_nteardown k_nlaunched]; gen16 F;
      try (intros _; match goal with S : r_summary _ = false |- _ => rewrite (NS' S) end; repeat split; intros; try discriminate; reflexivity)
    | EHook _ HSetup None =>
      exists {| k_setup := 1; k_sbatch := k_sbatch k; k_summary := k_summary k; k_teardown := k_teardown k;
                k_nsetup := k_nsetup k; k_nteardown := k_nteardown k; k_nlaunched := k_nlaunched k |};
      split; [intros t; cbn [c16_from];
              match goal with C : r_creator _ = true, S : r_setup _ = false, Rd : r_round _ = false |- _ =>
                rewrite (SU C S), (SB C Rd) end; reflexivity|];
      constructor; hlit; cbn [k_setup k_sbatch k_summary k_teardown k_nsetup k_nteardown k_nlaunched]; gen16 F
    | EHook _ HTeardown None =>
      exists {| k_setup := k_setup k; k_sbatch := k_sbatch k; k_summary := k_summary k; k_teardown := 1;
                k_nsetup := k_nsetup k; k_nteardown := k_nteardown k; k_nlaunched := k_nlaunched k |};
      match goal with S : r_summary _ = true, T : r_teardown _ = false |- _ => destruct (SM S) as (M1 & M2 & M3); pose proof (M2 T) as M4 end;
      split; [intros t; cbn [c16_from]; rewrite M1, M4; reflexivity|];
      constructor; hlit; cbn [k_setup k_sbatch k_summary k_teardown k_nsetup k_nteardown k_nlaunched]; gen16 F;
      try (intros _; repeat split; intros; try discriminate; auto)
    | EMarkComplete _ =>
      exists {| k_setup := k_setup k; k_sbatch := k_sbatch k; k_summary := false; k_teardown := 0;
                k_nsetup := k_nsetup k; k_nteardown := k_nteardown k; k_nlaunched := k_nlaunched k |};
      match goal with S : r_summary _ = true |- _ => destruct (SM S) as (M1 & M2 & M3) end;
      split; [intros t; cbn [c16_from];
              first [ match goal with E : hk_teardown _ = true, T : r_teardown _ = true |- _ => rewrite E, (M3 T) end; reflexivity
                    | match goal with E : hk_teardown _ = false |- _ => rewrite E end; reflexivity ]|];
      constructor; hlit; cbn [k_setup k_sbatch k_summary k_teardown k_nsetup k_nteardown k_nlaunched]; gen16 F
    | _ => idtac
    end end.
Qed.


Theorem c16_accepted sc tr s : run sc tr = Some s -> c16_ok sc tr = true.
Proof.
  intros H. unfold c16_ok, run in *.
  apply (simulation sc hk_state (c16_from sc) (R16 sc) (fun m => eq_refl) (c16_step sc) tr init s k0 H).
  apply r16_init.
Qed.

(* ---------- Prop-level readings ---------- *)
Definition is_node_setup (id : N) (e : event) : bool :=
  match e with EHook _ HNodeSetup (Some i) => N.eqb i id | _ => false end.
Definition is_setup (e : event) : bool := match e with EHook _ HSetup _ => true | _ => false end.
Definition on_node_after_teardown (id : N) (e : event) : bool :=
  match e with
  | ELaunch i _ => N.eqb i id | EAppend i _ => N.eqb i id
  | EHook _ HNodeTeardown (Some i) => N.eqb i id | _ => false end.

Lemma c16_nsetup_grows sc e k : forall t, c16_from sc k (e :: t) = true ->
  exists k', c16_from sc k' t = true /\
    (forall i, In i (k_nsetup k') <-> In i (k_nsetup k) \/ is_node_setup i e = true) /\
    (forall i, In i (k_nteardown k) -> In i (k_nteardown k')) /\
    (k_setup k = 1 -> k_setup k' = 1) /\ (k_sbatch k = true -> k_sbatch k' = true).
Proof.
  intros t H. destruct e; cbn [c16_from] in H;
    try (exists k; split; [exact H|]; split; [intros i; cbn; intuition discriminate|auto]; fail).
  - (* sbatch *) eexists; split; [exact H|]; cbn; split; [intros i; intuition discriminate|auto].
  - (* summary *) eexists; split; [exact H|]; cbn; split; [intros i; intuition discriminate|auto].
  - (* hooks *) destruct h; [ | |destruct nd as [id|]; [|discriminate]|destruct nd as [id|]; [|discriminate]];
      repeat (apply andb_true_iff in H; destruct H as [H ?]).
    + eexists; split; [eassumption|]; cbn; split; [intros i; intuition discriminate|auto].
    + eexists; split; [eassumption|]; cbn; split; [intros i; intuition discriminate|auto].
    + eexists; split; [eassumption|]; cbn; split; [|auto]. intros i. rewrite N.eqb_eq. intuition congruence.
    + eexists; split; [eassumption|]; cbn; split; [intros i; intuition discriminate|auto].
  - (* mark complete *) apply andb_true_iff in H; destruct H as [_ H]. eexists; split; [exact H|]; cbn; split; [intros i; intuition discriminate|auto].
  - (* launch *) repeat (apply andb_true_iff in H; destruct H as [H ?]). eexists; split; [eassumption|]; cbn; split; [intros i; intuition discriminate|auto].
  - (* append *) apply andb_true_iff in H; destruct H as [_ H]. exists k; split; [exact H|]; split; [intros i; cbn; intuition discriminate|auto].
Qed.

Lemma c16_launch_needs_setup sc tr1 : forall k id j tr2, hk_node_setup (sc_hooks sc) = true ->
  c16_from sc k (tr1 ++ ELaunch id j :: tr2) = true ->
  In id (k_nsetup k) \/ exists e, In e tr1 /\ is_node_setup id e = true.
Proof.
  induction tr1 as [|x t IH]; intros k id j tr2 Hk H; cbn [app] in H.
  - cbn [c16_from] in H. rewrite Hk in H. repeat (apply andb_true_iff in H; destruct H as [H ?]).
    left. apply memN_In. assumption.
  - destruct (c16_nsetup_grows _ _ _ _ H) as (k' & H' & G & _). destruct (IH _ _ _ _ Hk H') as [A|(e & He & E)].
    + apply G in A. destruct A as [A|A]; [left; exact A|right; exists x; split; [left; reflexivity|exact A]].
    + right. exists e. split; [right; exact He|exact E].
Qed.

Theorem c16_node_setup_before_launch sc tr1 id j tr2 s : hk_node_setup (sc_hooks sc) = true ->
  run sc (tr1 ++ ELaunch id j :: tr2) = Some s -> exists e, In e tr1 /\ is_node_setup id e = true.
Proof.
  intros Hk H. pose proof (c16_accepted _ _ _ H) as C. unfold c16_ok in C.
  destruct (c16_launch_needs_setup _ _ _ _ _ _ Hk C) as [[]|E]. exact E.
Qed.

Lemma c16_after_teardown sc tr : forall k id, In id (k_nteardown k) -> c16_from sc k tr = true ->
  forall e, In e tr -> on_node_after_teardown id e = false.
Proof.
  induction tr as [|x t IH]; intros k id Hin H e He; [contradiction|].
  destruct (c16_nsetup_grows _ _ _ _ H) as (k' & H' & _ & G & _).
  destruct He as [<-|He]; [|eapply (IH k' id); [apply G; exact Hin|exact H'|exact He]].
  destruct x; cbn; auto.
  - destruct h; auto. destruct nd as [i|]; auto. cbn [c16_from] in H. repeat (apply andb_true_iff in H; destruct H as [H ?]).
    destruct (N.eqb i id) eqn:E; [|reflexivity]. apply N.eqb_eq in E. subst i.
    match goal with M : negb (memN id _) = true |- _ => apply negb_true_iff, memN_false in M; contradiction end.
  - cbn [c16_from] in H. repeat (apply andb_true_iff in H; destruct H as [H ?]).
    destruct (N.eqb id0 id) eqn:E; [|reflexivity]. apply N.eqb_eq in E. subst id0.
    match goal with M : negb (memN id _) = true |- _ => apply negb_true_iff, memN_false in M; contradiction end.
  - cbn [c16_from] in H. apply andb_true_iff in H. destruct H as [M _].
    destruct (N.eqb id0 id) eqn:E; [|reflexivity]. apply N.eqb_eq in E. subst id0.
    apply negb_true_iff, memN_false in M. contradiction.
Qed.

Lemma c16_after_td_app sc tr1 : forall k p id tr2,
  c16_from sc k (tr1 ++ EHook p HNodeTeardown (Some id) :: tr2) = true ->
  forall e, In e tr2 -> on_node_after_teardown id e = false.
Proof.
  induction tr1 as [|x t IH]; intros k p id tr2 C; cbn [app] in C.
  - cbn [c16_from] in C. apply andb_true_iff in C. destruct C as [_ C].
    eapply c16_after_teardown; [|exact C]. cbn. left. reflexivity.
  - destruct (c16_nsetup_grows _ _ _ _ C) as (k' & C' & _). eapply IH. exact C'.
Qed.
Theorem c16_nothing_after_node_teardown sc tr1 p id tr2 s :
  run sc (tr1 ++ EHook p HNodeTeardown (Some id) :: tr2) = Some s ->
  forall e, In e tr2 -> on_node_after_teardown id e = false.
Proof.
  intros H. pose proof (c16_accepted _ _ _ H) as C. unfold c16_ok in C. eapply c16_after_td_app. exact C.
Qed.

Lemma c16_setup_done sc tr : forall k, (k_setup k = 1 \/ k_sbatch k = true) -> c16_from sc k tr = true ->
  forall e, In e tr -> is_setup e = false.
Proof.
  induction tr as [|x t IH]; intros k Hk H e He; [contradiction|].
  destruct (c16_nsetup_grows _ _ _ _ H) as (k' & H' & _ & _ & G1 & G2).
  destruct He as [<-|He]; [|eapply IH; [|exact H'|exact He]; destruct Hk; [left|right]; auto].
  destruct x; cbn; auto. destruct h; auto. exfalso. cbn [c16_from] in H.
  repeat (apply andb_true_iff in H; destruct H as [H ?]). apply N.eqb_eq in H. apply negb_true_iff in H1.
  destruct Hk as [Hk|Hk]; congruence.
Qed.

(* the setup command runs at most once, and never after a batch was handed to the HPC *)
Lemma c16_setup_app sc tr1 : forall k e tr2, c16_from sc k (tr1 ++ e :: tr2) = true ->
  (is_setup e = true \/ is_sbatch e = true) -> forall x, In x tr2 -> is_setup x = false.
Proof.
  induction tr1 as [|y t IH]; intros k e tr2 C He; cbn [app] in C.
  - destruct e; cbn in He; destruct He as [He|He]; try discriminate; cbn [c16_from] in C.
    + (* sbatch first *) eapply c16_setup_done; [|exact C]. right. reflexivity.
    + (* the setup hook *) destruct h; try discriminate.
      repeat (apply andb_true_iff in C; destruct C as [C ?]). eapply c16_setup_done; [|eassumption]. left. reflexivity.
  - destruct (c16_nsetup_grows _ _ _ _ C) as (k' & C' & _). eapply IH; eauto.
Qed.
(* the setup command runs at most once, and never after a batch was handed to the HPC *)
Theorem c16_setup_once_and_first sc tr1 e tr2 s : run sc (tr1 ++ e :: tr2) = Some s ->
  (is_setup e = true \/ is_sbatch e = true) -> forall x, In x tr2 -> is_setup x = false.
Proof.
  intros H He. pose proof (c16_accepted _ _ _ H) as C. unfold c16_ok in C. eapply c16_setup_app; eauto.
Qed.
