(* Proofs about the pipeline sequencing model (property C15).  Statements live in Props/C15.v. *)
From Coq Require Import String List ZArith Bool Arith Lia Sorted.
From Jade Require Import Pipeline.
From Jade.Gen Require Import PipelineGen.
Import ListNotations.
Open Scope list_scope.
Open Scope Z_scope.

(* ------------------------------------------------------------------------------------------
   The constants of the current source (regenerated) are the standard ones. *)
(* what the theorems need from the source: fails to check when the code's arithmetic / order changes *)
Definition src_ok : Prop :=
  src_consts = std_consts
  /\ gen_init_stage_commands = gen_init_stage_files
  /\ gen_numbering_files = 1 /\ gen_numbering_commands = 1
  /\ gen_cli_ints_required = true
  /\ gen_handover_order = ["results_summary"; "teardown"; "mark_complete"; "submit_next_stage"]%string.

Lemma src_is_std : src_ok.
Proof. repeat split. Qed.

Lemma src_consts_std : src_consts = std_consts.
Proof. exact (proj1 src_is_std). Qed.

(* ------------------------------------------------------------------------------------------
   list helpers *)
Lemma zseq_length s n : length (zseq s n) = n.
Proof. revert s; induction n; simpl; intros; auto. Qed.

Lemma zseq_In s n x : In x (zseq s n) <-> s <= x < s + Z.of_nat n.
Proof.
  revert s; induction n; intros s; simpl.
  - lia.
  - rewrite IHn. lia.
Qed.

Lemma zseq_snoc s n : zseq s (S n) = zseq s n ++ [s + Z.of_nat n].
Proof.
  revert s; induction n; intros s.
  - simpl. f_equal. lia.
  - change (zseq s (S (S n))) with (s :: zseq (s + 1) (S n)). rewrite IHn.
    simpl. do 2 f_equal. f_equal. lia.
Qed.

Lemma sorted_snoc l k : StronglySorted Z.lt l -> Forall (fun x => x < k) l -> StronglySorted Z.lt (l ++ [k]).
Proof.
  induction l; intros Hs Hf; simpl.
  - constructor; constructor.
  - inversion Hs; subst. inversion Hf; subst. constructor.
    + apply IHl; assumption.
    + apply Forall_app. split; [assumption|]. constructor; [assumption|constructor].
Qed.

Lemma sorted_NoDup l : StronglySorted Z.lt l -> NoDup l.
Proof.
  induction 1; constructor; auto.
  intro Hin. rewrite Forall_forall in H0. specialize (H0 _ Hin). lia.
Qed.

Lemma set_nth_length {A} i (x : A) l : length (set_nth i x l) = length l.
Proof. revert i; induction l; intros [|i]; simpl; auto. Qed.

Lemma nth_set_nth_eq {A} i (x d : A) l : (i < length l)%nat -> nth i (set_nth i x l) d = x.
Proof. revert i; induction l; intros [|i] H; simpl in *; try lia; auto. apply IHl; lia. Qed.

Lemma nth_set_nth_neq {A} i j (x d : A) l : i <> j -> nth j (set_nth i x l) d = nth j l d.
Proof. revert i j; induction l; intros [|i] [|j] H; simpl; auto; try congruence. Qed.

Fixpoint assocZ (k : Z) (l : list (Z * Z)) : option Z :=
  match l with [] => None | (k', v) :: t => if k =? k' then Some v else assocZ k t end.

Lemma assocZ_app k l1 l2 :
  assocZ k (l1 ++ l2) = match assocZ k l1 with Some v => Some v | None => assocZ k l2 end.
Proof. induction l1 as [|[k' v] t IH]; simpl; auto. destruct (k =? k'); auto. Qed.

Lemma assocZ_None k l : ~ In k (map fst l) -> assocZ k l = None.
Proof.
  induction l as [|[k' v] t IH]; simpl; intros H; auto.
  destruct (Z.eqb_spec k k'); [exfalso; apply H; left; congruence|]. apply IH. tauto.
Qed.

Lemma assocZ_In k v l : NoDup (map fst l) -> (assocZ k l = Some v <-> In (k, v) l).
Proof.
  induction l as [|[k' v'] t IH]; simpl; intros Hnd.
  - split; [discriminate|tauto].
  - inversion Hnd; subst. destruct (Z.eqb_spec k k').
    + subst. split.
      * intros [= ->]. left; reflexivity.
      * intros [[= ->]|Hin]; [reflexivity|]. exfalso. apply H1. change k' with (fst (k', v)). apply in_map. assumption.
    + rewrite IH by assumption. split; [tauto|]. intros [[= -> ->]|Hin]; [congruence|assumption].
Qed.

(* ------------------------------------------------------------------------------------------
   log views distribute over append *)
Lemma submitted_app a b : submitted (a ++ b) = submitted a ++ submitted b.
Proof. apply flat_map_app. Qed.
Lemma configured_app a b : configured (a ++ b) = configured a ++ configured b.
Proof. apply flat_map_app. Qed.
Lemma config_read_app a b : config_read (a ++ b) = config_read a ++ config_read b.
Proof. apply flat_map_app. Qed.
Lemma advanced_app a b : advanced (a ++ b) = advanced a ++ advanced b.
Proof. apply flat_map_app. Qed.

(* ------------------------------------------------------------------------------------------
   what one submission step appends (standard constants) *)
Definition env_ok (e : env) : bool :=
  match e_auto e with AutoOk => e_cfg_ok e | _ => false end.

(* events of one stage k: each view is [] or [k]; nothing is advanced *)
Definition stage_events (k : Z) (evs : list pevent) : Prop :=
  (submitted evs = [] \/ submitted evs = [k]) /\
  (configured evs = [] \/ configured evs = [k]) /\
  (config_read evs = [] \/ config_read evs = [k]) /\
  advanced evs = [] /\
  (forall ev, In ev evs -> ev = EvAutoConfig k \/ ev = EvReadConfig k \/ ev = EvSubmit k).

Lemma py_index_in (len : nat) (i : Z) : 0 <= i < Z.of_nat len -> py_index len i = Some (Z.to_nat i).
Proof.
  intros H. unfold py_index.
  destruct (Z.leb_spec 0 i); [|lia]. destruct (Z.ltb_spec i (Z.of_nat len)); [reflexivity|lia].
Qed.

Lemma py_index_len (len : nat) : py_index len (Z.of_nat len) = None.
Proof.
  unfold py_index. destruct (Z.leb_spec 0 (Z.of_nat len)); [|lia].
  destruct (Z.ltb_spec (Z.of_nat len) (Z.of_nat len)); [lia|reflexivity].
Qed.

Lemma submit_stage_spec e s log :
  1 <= p_stage s <= nstages s ->
  exists r evs, submit_stage std_consts e s log = (r, s, log ++ evs) /\ stage_events (p_stage s) evs /\
                (env_ok e = true -> submitted evs = [p_stage s]) /\
                r <> ROkComplete /\ accepted r = true.
Proof.
  intros Hst. unfold submit_stage, nstages in *. cbn [c_cur_back std_consts].
  rewrite py_index_in by lia.
  replace (Z.of_nat (Z.to_nat (p_stage s - 1)) + 1) with (p_stage s) by lia.
  set (k := p_stage s). unfold env_ok.
  destruct (nth (Z.to_nat (k - 1)) (p_auto s) false); destruct (e_auto e); destruct (e_cfg_ok e);
    destruct (e_ret e =? 0); cbn [negb andb];
    eexists; eexists; (split; [try reflexivity; rewrite <- ?app_assoc; try reflexivity; rewrite app_nil_r; reflexivity|]);
    (split; [unfold stage_events; cbn; repeat split; auto; intros ev Hev; cbn in Hev; intuition auto|]);
    (split; [intros Hok; try discriminate Hok; reflexivity|]);
    (split; [discriminate|reflexivity]).
Qed.

Definition complete_state (s : pstate) : Prop := p_stage s = nstages s + 1.

Lemma advance_spec e s log :
  1 <= p_stage s <= nstages s + 1 ->
  (p_stage s = nstages s + 1 /\ advance std_consts e s log = (ROkComplete, set_complete s, log)) \/
  (p_stage s <= nstages s /\
   exists r evs, advance std_consts e s log = (r, s, log ++ evs) /\ stage_events (p_stage s) evs /\
                 (env_ok e = true -> submitted evs = [p_stage s]) /\ r <> ROkComplete /\ accepted r = true).
Proof.
  intros Hst. unfold advance. cbn [c_done std_consts].
  destruct (Z.eqb_spec (p_stage s) (nstages s + 1)).
  - left. split; auto.
  - right. split; [lia|]. apply submit_stage_spec. lia.
Qed.

(* ------------------------------------------------------------------------------------------
   the invariant of pipeline.json + log *)
Definition below (s : pstate) (l : list Z) : Prop :=
  StronglySorted Z.lt l /\ Forall (fun k => 1 <= k <= p_stage s /\ k <= nstages s) l.

Definition quiet (log : list pevent) : Prop :=
  submitted log = [] /\ configured log = [] /\ config_read log = [] /\ advanced log = [].

Definition pinv (s : pstate) (log : list pevent) : Prop :=
  1 <= p_stage s <= nstages s + 1 /\
  length (p_rcs s) = length (p_auto s) /\
  (p_complete s = true <-> p_stage s = nstages s + 1) /\
  map fst (advanced log) = zseq 2 (Z.to_nat (p_stage s - 1)) /\
  (forall i, (i < length (p_auto s))%nat -> nth i (p_rcs s) None = assocZ (Z.of_nat i + 2) (advanced log)) /\
  below s (submitted log) /\ below s (configured log) /\ below s (config_read log).

Definition inv (w : world) : Prop :=
  match w_pipe w with None => quiet (w_log w) | Some s => pinv s (w_log w) end.

Lemma below_snoc s s' l evs k :
  below s l -> p_stage s' = p_stage s + 1 -> nstages s' = nstages s -> k = p_stage s' -> k <= nstages s ->
  1 <= p_stage s ->
  (evs = [] \/ evs = [k]) -> below s' (l ++ evs).
Proof.
  intros [Hs Hf] Hst Hn Hk Hkn H1 [->| ->].
  - rewrite app_nil_r. split; [assumption|]. eapply Forall_impl; [|exact Hf]. simpl. intros; lia.
  - split.
    + apply sorted_snoc; [assumption|]. eapply Forall_impl; [|exact Hf]. simpl. intros; lia.
    + apply Forall_app. split.
      * eapply Forall_impl; [|exact Hf]. simpl. intros; lia.
      * constructor; [lia|constructor].
Qed.

Lemma below_same s s' l :
  below s l -> p_stage s' = p_stage s -> nstages s' = nstages s -> below s' l.
Proof.
  intros [Hs Hf] Hst Hn. split; [assumption|]. eapply Forall_impl; [|exact Hf]. simpl. intros; lia.
Qed.

Lemma below_first s evs k :
  k = p_stage s -> 1 <= k <= nstages s -> (evs = [] \/ evs = [k]) -> below s evs.
Proof.
  intros Hk Hr [->| ->]; split; try constructor; try constructor; try lia; constructor.
Qed.

(* a successful submit-next-stage from a state satisfying the invariant *)
Lemma next_some_spec k rc e s log :
  pinv s log ->
  (k <> p_stage s + 1 /\ next_stage std_consts k (Some rc) e s log = (RErrInvalidParameter, s, log)) \/
  (k = p_stage s + 1 /\ p_stage s = nstages s + 1 /\ next_stage std_consts k (Some rc) e s log = (RErrIndexRc, s, log)) \/
  (k = p_stage s + 1 /\ p_stage s <= nstages s /\
   exists r s' evs, next_stage std_consts k (Some rc) e s log = (r, s', (log ++ [EvAdvance k rc]) ++ evs) /\
     accepted r = true /\ p_auto s' = p_auto s /\ p_stage s' = k /\
     p_rcs s' = set_nth (Z.to_nat (p_stage s - 1)) (Some rc) (p_rcs s) /\
     ((k = nstages s + 1 /\ evs = [] /\ p_complete s' = true /\ r = ROkComplete) \/
      (k <= nstages s /\ p_complete s' = p_complete s /\ stage_events k evs /\ r <> ROkComplete /\
       (env_ok e = true -> submitted evs = [k])))).
Proof.
  intros (Hst & Hlen & Hc & _). unfold next_stage. cbn [c_seq c_rc_back c_incr std_consts].
  destruct (Z.eqb_spec k (p_stage s + 1)) as [Hk|Hk]; cbn [negb].
  2:{ left. auto. }
  right. subst k.
  destruct (Z.eq_dec (p_stage s) (nstages s + 1)) as [Hlast|Hlast].
  - left. split; [reflexivity|]. split; [assumption|].
    replace (p_stage s + 1 - 2) with (Z.of_nat (length (p_rcs s))) by (unfold nstages in *; lia).
    rewrite py_index_len. reflexivity.
  - right. split; [reflexivity|]. split; [lia|].
    rewrite py_index_in by (unfold nstages in *; lia).
    replace (p_stage s + 1 - 2) with (p_stage s - 1) by lia.
    set (s1 := {| p_auto := p_auto s; p_stage := p_stage s + 1;
                  p_rcs := set_nth (Z.to_nat (p_stage s - 1)) (Some rc) (p_rcs s); p_complete := p_complete s |}).
    assert (Hn1 : nstages s1 = nstages s) by reflexivity.
    destruct (advance_spec e s1 (log ++ [EvAdvance (p_stage s + 1) rc])) as [[Hd Heq]|[Hd (r & evs & Heq & Hev & Hok & Hr & Hacc)]].
    + cbn. lia.
    + exists ROkComplete, (set_complete s1), []. rewrite app_nil_r. split; [exact Heq|].
      split; [reflexivity|]. split; [reflexivity|]. split; [cbn; lia|]. split; [reflexivity|].
      left. cbn in Hd. split; [lia|]. split; [reflexivity|]. split; reflexivity.
    + exists r, s1, evs. split; [exact Heq|].
      split; [assumption|]. split; [reflexivity|]. split; [reflexivity|]. split; [reflexivity|].
      right. cbn in Hd. split; [lia|]. split; [reflexivity|]. split; [exact Hev|]. split; assumption.
Qed.

Lemma pinv_next k rc e s log :
  pinv s log -> let '(r, s', log') := next_stage std_consts k (Some rc) e s log in pinv s' log'.
Proof.
  intros Hinv. destruct (next_some_spec k rc e s log Hinv) as [[_ ->]|[(_ & _ & ->)|(Hk & Hle & r & s' & evs & -> & Hacc & Ha & Hs & Hr & Hcase)]]; auto.
  destruct Hinv as (Hst & Hlen & Hc & Hkeys & Hrc & Hsub & Hcfg & Hrd).
  assert (Hn : nstages s' = nstages s) by (unfold nstages; rewrite Ha; reflexivity).
  assert (Hadv : advanced evs = []) by (destruct Hcase as [(_ & -> & _)|(_ & _ & Hev & _)]; [reflexivity|apply Hev]).
  assert (Hkeys' : map fst (advanced ((log ++ [EvAdvance k rc]) ++ evs)) = zseq 2 (Z.to_nat (p_stage s' - 1))).
  { rewrite !advanced_app, Hadv, app_nil_r. cbn. rewrite map_app, Hkeys. cbn.
    replace (Z.to_nat (p_stage s' - 1)) with (S (Z.to_nat (p_stage s - 1))) by lia.
    rewrite zseq_snoc. f_equal. f_equal. lia. }
  assert (Hrc' : forall i, (i < length (p_auto s'))%nat ->
                           nth i (p_rcs s') None = assocZ (Z.of_nat i + 2) (advanced ((log ++ [EvAdvance k rc]) ++ evs))).
  { intros i Hi. rewrite Ha in Hi. rewrite !advanced_app, Hadv, app_nil_r. cbn. rewrite assocZ_app. cbn.
    rewrite Hr. destruct (Nat.eq_dec i (Z.to_nat (p_stage s - 1))) as [->|Hne].
    - rewrite nth_set_nth_eq by (unfold nstages in *; lia).
      rewrite assocZ_None.
      + replace (Z.of_nat (Z.to_nat (p_stage s - 1)) + 2 =? k) with true; [reflexivity|]. symmetry. apply Z.eqb_eq. lia.
      + rewrite Hkeys, zseq_In. lia.
    - rewrite nth_set_nth_neq by auto. rewrite Hrc by assumption.
      destruct (assocZ (Z.of_nat i + 2) (advanced log)); [reflexivity|].
      destruct (Z.eqb_spec (Z.of_nat i + 2) k); [lia|reflexivity]. }
  unfold pinv.
  assert (Hlen' : length (p_rcs s') = length (p_auto s')) by (rewrite Hr, set_nth_length, Ha; assumption).
  destruct Hcase as [(Hkn & -> & Hcomp & _)|(Hkn & Hcomp & Hev & _ & _)].
  - rewrite app_nil_r in *.
    split; [lia|]. split; [exact Hlen'|]. split; [split; intros _; [lia|assumption]|].
    split; [exact Hkeys'|]. split; [exact Hrc'|].
    assert (Hb : forall l, below s l -> below s' l).
    { intros l [Hs1 Hf1]. split; [assumption|]. eapply Forall_impl; [|exact Hf1]. cbn. intros; lia. }
    rewrite submitted_app, configured_app, config_read_app. cbn. rewrite !app_nil_r. auto.
  - destruct Hev as (E1 & E2 & E3 & _ & _).
    split; [lia|]. split; [exact Hlen'|].
    split; [split; [rewrite Hcomp; intros Ht; apply Hc in Ht; lia | intros Ht; lia]|].
    split; [exact Hkeys'|]. split; [exact Hrc'|].
    rewrite !submitted_app, !configured_app, !config_read_app. cbn. rewrite !app_nil_r.
    split; [|split]; apply (below_snoc s s' _ _ k); auto; lia.
Qed.

Lemma nth_map_none {A} (l : list A) i : nth i (map (fun _ => @None Z) l) None = None.
Proof. revert i; induction l; intros [|i]; simpl; auto. Qed.

Lemma pinv_first autos e log :
  quiet log ->
  let '(r, s', log') := next_stage std_consts 1 None e (init_pipe std_consts autos) log in pinv s' log'.
Proof.
  intros (Q1 & Q2 & Q3 & Q4). unfold next_stage. cbn [c_assert std_consts Z.eqb Pos.eqb].
  set (s0 := init_pipe std_consts autos).
  assert (Hn : nstages s0 = Z.of_nat (length autos)) by reflexivity.
  assert (Hs0 : p_stage s0 = 1) by reflexivity.
  destruct (advance_spec e s0 log) as [[Hd ->]|[Hd (r & evs & -> & Hev & _)]].
  - rewrite Hn, Hs0. lia.
  - rewrite Hn, Hs0 in Hd. unfold pinv. cbn [set_complete p_stage p_auto p_rcs p_complete s0 init_pipe c_init std_consts].
    unfold nstages. cbn [p_auto set_complete]. change (p_auto s0) with autos.
    split; [lia|]. split; [apply map_length|]. split; [split; intros _; [lia|reflexivity]|].
    split; [rewrite Q4; reflexivity|]. split; [intros i Hi; rewrite Q4; apply nth_map_none|].
    unfold below. rewrite Q1, Q2, Q3. repeat split; constructor.
  - rewrite Hn, Hs0 in Hd. rewrite Hs0 in Hev. destruct Hev as (E1 & E2 & E3 & E4 & _).
    unfold pinv. cbn [p_stage p_auto p_rcs p_complete s0 init_pipe c_init std_consts].
    fold s0. rewrite Hn.
    split; [lia|]. split; [apply map_length|]. split; [split; [discriminate|lia]|].
    rewrite advanced_app, submitted_app, configured_app, config_read_app, Q1, Q2, Q3, Q4, E4. cbn [app].
    split; [reflexivity|]. split; [intros i Hi; apply nth_map_none|].
    split; [|split]; apply (below_first s0 _ 1); auto; rewrite ?Hn; lia.
Qed.

Lemma inv_step w o : cli_op o = true -> inv w -> inv (snd (step std_consts w o)).
Proof.
  intros Hcli Hinv. unfold step, inv in *. destruct o as [autos e|k [rc|] e]; destruct (w_pipe w) as [s|] eqn:Hp.
  - cbn. rewrite Hp. assumption.
  - cbn [c_cli_first std_consts]. pose proof (pinv_first autos e (w_log w) Hinv) as H.
    destruct (next_stage std_consts 1 None e (init_pipe std_consts autos) (w_log w)) as [[r s'] log']. exact H.
  - pose proof (pinv_next k rc e s (w_log w) Hinv) as H.
    destruct (next_stage std_consts k (Some rc) e s (w_log w)) as [[r s'] log']. exact H.
  - cbn. rewrite Hp. assumption.
  - discriminate.
  - discriminate.
Qed.

Lemma run_app c w a b :
  run c w (a ++ b) = let '(ra, wa) := run c w a in let '(rb, wb) := run c wa b in (ra ++ rb, wb).
Proof.
  revert w; induction a as [|o a IH]; intros w; simpl.
  - destruct (run c w b); reflexivity.
  - destruct (step c w o) as [r w1]. rewrite IH. destruct (run c w1 a) as [ra wa].
    destruct (run c wa b); reflexivity.
Qed.

Lemma inv_run w ops : forallb cli_op ops = true -> inv w -> inv (snd (run std_consts w ops)).
Proof.
  revert w; induction ops as [|o t IH]; intros w Hcli Hinv; simpl in *.
  - assumption.
  - apply andb_true_iff in Hcli as [Ho Ht].
    pose proof (inv_step w o Ho Hinv) as H1.
    destruct (step std_consts w o) as [r w1]. specialize (IH w1 Ht H1).
    destruct (run std_consts w1 t) as [rs w2]. exact IH.
Qed.

Lemma inv_init : inv init_world.
Proof. repeat split. Qed.

Lemma inv_final ops : forallb cli_op ops = true -> inv (final std_consts ops).
Proof. intros H. apply inv_run; [assumption|apply inv_init]. Qed.

(* ------------------------------------------------------------------------------------------
   T1: order, no repetition, within range -- all CLI histories, any environment *)
Lemma order_once c : c = std_consts -> forall ops, forallb cli_op ops = true ->
  forall view, In view [submitted; configured; config_read] ->
  let l := view (w_log (final c ops)) in
  StronglySorted Z.lt l /\ NoDup l /\
  forall k, In k l -> exists s, w_pipe (final c ops) = Some s /\ 1 <= k <= p_stage s /\ k <= nstages s.
Proof.
  intros -> ops Hcli view Hview l. pose proof (inv_final ops Hcli) as Hinv. unfold inv in Hinv.
  destruct (w_pipe (final std_consts ops)) as [s|] eqn:Hp.
  - destruct Hinv as (_ & _ & _ & _ & _ & Hs & Hc & Hr).
    assert (Hb : below s l).
    { subst l. cbn in Hview. destruct Hview as [<-|[<-|[<-|[]]]]; assumption. }
    destruct Hb as [Hso Hf]. split; [assumption|]. split; [apply sorted_NoDup; assumption|].
    intros k Hk. exists s. split; [reflexivity|]. rewrite Forall_forall in Hf. specialize (Hf k Hk). lia.
  - destruct Hinv as (Q1 & Q2 & Q3 & _).
    assert (Hl : l = []).
    { subst l. cbn in Hview. destruct Hview as [<-|[<-|[<-|[]]]]; assumption. }
    rewrite Hl. split; [constructor|]. split; [constructor|]. intros k [].
Qed.

(* T2: with a cooperative environment the submitted stages are exactly 1..m *)
Definition op_env (o : op) : env := match o with OpSubmit _ e => e | OpNext _ _ e => e end.

Definition inv2 (w : world) : Prop :=
  match w_pipe w with
  | None => True
  | Some s => submitted (w_log w) = zseq 1 (Z.to_nat (Z.min (p_stage s) (nstages s)))
  end.

Lemma inv2_step w o : cli_op o = true -> env_ok (op_env o) = true -> inv w -> inv2 w -> inv2 (snd (step std_consts w o)).
Proof.
  intros Hcli Hok Hinv H2. unfold step, inv, inv2 in *.
  destruct o as [autos e|k [rc|] e]; destruct (w_pipe w) as [s|] eqn:Hp; cbn [op_env] in Hok.
  - cbn. rewrite Hp. assumption.
  - cbn [c_cli_first std_consts]. destruct Hinv as (Q1 & _).
    unfold next_stage. cbn [c_assert std_consts Z.eqb Pos.eqb].
    set (s0 := init_pipe std_consts autos).
    assert (Hn : nstages s0 = Z.of_nat (length autos)) by reflexivity.
    assert (Hs0 : p_stage s0 = 1) by reflexivity.
    destruct (advance_spec e s0 (w_log w)) as [[Hd ->]|[Hd (r & evs & -> & _ & Hsub & _)]].
    + rewrite Hn, Hs0. lia.
    + cbn [snd w_pipe w_log]. rewrite Q1. change (p_stage (set_complete s0)) with 1.
      change (nstages (set_complete s0)) with (nstages s0). rewrite Hn in *. rewrite Hs0 in Hd.
      replace (Z.min 1 (Z.of_nat (length autos))) with 0 by lia. reflexivity.
    + cbn [snd w_pipe w_log]. rewrite submitted_app, Q1, (Hsub Hok), Hs0, Hn. rewrite Hn, Hs0 in Hd.
      replace (Z.min 1 (Z.of_nat (length autos))) with 1 by lia. reflexivity.
  - destruct (next_some_spec k rc e s (w_log w) Hinv)
      as [[_ ->]|[(_ & _ & ->)|(Hk & Hle & r & s' & evs & -> & Hacc & Ha & Hs & Hr & Hcase)]];
      cbn [snd w_pipe w_log]; auto.
    assert (Hn : nstages s' = nstages s) by (unfold nstages; rewrite Ha; reflexivity).
    destruct Hinv as (Hst & _).
    rewrite !submitted_app, H2, Hn, Hs. cbn [submitted flat_map app]. rewrite app_nil_r.
    destruct Hcase as [(Hkn & -> & _)|(Hkn & _ & _ & _ & Hsub)].
    + cbn. rewrite app_nil_r. f_equal. lia.
    + rewrite (Hsub Hok). replace (Z.to_nat (Z.min k (nstages s))) with (S (Z.to_nat (Z.min (p_stage s) (nstages s)))) by lia.
      rewrite zseq_snoc. f_equal. f_equal. lia.
  - cbn. rewrite Hp. exact I.
  - discriminate.
  - discriminate.
Qed.

Lemma inv2_run w ops :
  forallb cli_op ops = true -> forallb (fun o => env_ok (op_env o)) ops = true ->
  inv w -> inv2 w -> inv2 (snd (run std_consts w ops)).
Proof.
  revert w; induction ops as [|o t IH]; intros w Hcli Hok Hinv H2; simpl in *.
  - assumption.
  - apply andb_true_iff in Hcli as [Ho Ht]. apply andb_true_iff in Hok as [Hoo Hto].
    pose proof (inv_step w o Ho Hinv) as H1. pose proof (inv2_step w o Ho Hoo Hinv H2) as H3.
    destruct (step std_consts w o) as [r w1]. specialize (IH w1 Ht Hto H1 H3).
    destruct (run std_consts w1 t) as [rs w2]. exact IH.
Qed.

Lemma prefix_env_ok c : c = std_consts -> forall ops,
  forallb cli_op ops = true -> forallb (fun o => env_ok (op_env o)) ops = true ->
  forall s, w_pipe (final c ops) = Some s ->
  submitted (w_log (final c ops)) = zseq 1 (Z.to_nat (Z.min (p_stage s) (nstages s))).
Proof.
  intros -> ops Hcli Hok s Hp.
  pose proof (inv2_run init_world ops Hcli Hok inv_init I) as H. unfold inv2 in H. fold (final std_consts ops) in H.
  rewrite Hp in H. exact H.
Qed.

(* ------------------------------------------------------------------------------------------
   single steps *)
Lemma submit_stage_state c e s log : snd (fst (submit_stage c e s log)) = s.
Proof.
  unfold submit_stage. destruct (py_index _ _); [|reflexivity].
  destruct (nth n (p_auto s) false); destruct (e_auto e); destruct (e_cfg_ok e); destruct (e_ret e =? 0); reflexivity.
Qed.

Lemma submit_stage_accepted c e s log : accepted (fst (fst (submit_stage c e s log))) = true.
Proof.
  unfold submit_stage. destruct (py_index _ _); [|reflexivity].
  destruct (nth n (p_auto s) false); destruct (e_auto e); destruct (e_cfg_ok e); destruct (e_ret e =? 0); reflexivity.
Qed.

Lemma advance_state c e s log :
  p_stage (snd (fst (advance c e s log))) = p_stage s /\ accepted (fst (fst (advance c e s log))) = true.
Proof.
  unfold advance. destruct (p_stage s =? nstages s + c_done c).
  - split; reflexivity.
  - rewrite submit_stage_state, submit_stage_accepted. split; reflexivity.
Qed.

(* T3: submit_next_stage(k, rc) gets past the sequencing check only if the current stage is k-1 *)
Lemma accept_only_current c : c = std_consts -> forall w k rc e,
  accepted (fst (step c w (OpNext k (Some rc) e))) = true ->
  exists s, w_pipe w = Some s /\ p_stage s = k - 1 /\
            exists s', w_pipe (snd (step c w (OpNext k (Some rc) e))) = Some s' /\ p_stage s' = k.
Proof.
  intros -> w k rc e. unfold step. destruct (w_pipe w) as [s|]; [|discriminate].
  unfold next_stage. cbn [c_seq c_rc_back c_incr std_consts].
  destruct (Z.eqb_spec k (p_stage s + 1)) as [Hk|Hk]; cbn [negb]; [|discriminate].
  destruct (py_index _ _); [|discriminate].
  match goal with |- context [advance ?c ?e ?s0 ?l] => pose proof (advance_state c e s0 l) as [Hst _];
    destruct (advance c e s0 l) as [[r s'] log'] end.
  cbn in *. intros _. exists s. split; [reflexivity|]. split; [lia|]. exists s'. split; [reflexivity|]. lia.
Qed.

(* T4: a rejected call changes nothing (neither pipeline.json nor what was submitted) *)
Lemma rejected_unchanged c : c = std_consts -> forall w o,
  accepted (fst (step c w o)) = false -> snd (step c w o) = w.
Proof.
  intros -> [pipe log] o. unfold step. cbn [w_pipe w_log].
  destruct o as [autos e|k [rc|] e]; destruct pipe as [s|]; try reflexivity.
  - cbn [c_cli_first std_consts]. unfold next_stage. cbn [c_assert std_consts Z.eqb Pos.eqb].
    match goal with |- context [advance ?c ?e ?s0 ?l] => pose proof (advance_state c e s0 l) as [_ Hacc];
      destruct (advance c e s0 l) as [[r s'] log'] end.
    cbn in *. congruence.
  - unfold next_stage. destruct (negb _); [reflexivity|]. destruct (py_index _ _); [|reflexivity].
    match goal with |- context [advance ?c ?e ?s0 ?l] => pose proof (advance_state c e s0 l) as [_ Hacc];
      destruct (advance c e s0 l) as [[r s'] log'] end.
    cbn in *. congruence.
  - unfold next_stage. destruct (k =? c_assert std_consts); [|reflexivity].
    match goal with |- context [advance ?c ?e ?s0 ?l] => pose proof (advance_state c e s0 l) as [_ Hacc];
      destruct (advance c e s0 l) as [[r s'] log'] end.
    cbn in *. congruence.
Qed.

(* the current stage never decreases, the pipeline never disappears *)
Lemma stage_mono_step w o s : w_pipe w = Some s ->
  exists s', w_pipe (snd (step std_consts w o)) = Some s' /\ p_stage s <= p_stage s'.
Proof.
  intros Hp. unfold step. rewrite Hp. destruct o as [autos e|k [rc|] e].
  - exists s. cbn. rewrite Hp. split; [reflexivity|lia].
  - unfold next_stage. cbn [c_seq c_rc_back c_incr std_consts].
    destruct (negb _); [exists s; cbn; split; [reflexivity|lia]|].
    destruct (py_index _ _); [|exists s; cbn; split; [reflexivity|lia]].
    match goal with |- context [advance ?c ?e ?s0 ?l] => pose proof (advance_state c e s0 l) as [Hst _];
      destruct (advance c e s0 l) as [[r s'] log'] end.
    cbn in *. exists s'. split; [reflexivity|lia].
  - unfold next_stage. destruct (k =? c_assert std_consts); [|exists s; cbn; split; [reflexivity|lia]].
    match goal with |- context [advance ?c ?e ?s0 ?l] => pose proof (advance_state c e s0 l) as [Hst _];
      destruct (advance c e s0 l) as [[r s'] log'] end.
    cbn in *. exists s'. split; [reflexivity|lia].
Qed.

Lemma stage_mono_run ops : forall w s, w_pipe w = Some s ->
  exists s', w_pipe (snd (run std_consts w ops)) = Some s' /\ p_stage s <= p_stage s'.
Proof.
  induction ops as [|o t IH]; intros w s Hp; simpl.
  - exists s. split; [assumption|lia].
  - destruct (stage_mono_step w o s Hp) as (s1 & Hp1 & Hle).
    destruct (step std_consts w o) as [r w1]. cbn in Hp1.
    destruct (IH w1 s1 Hp1) as (s2 & Hp2 & Hle2).
    destruct (run std_consts w1 t) as [rs w2]. cbn in *. exists s2. split; [assumption|lia].
Qed.

(* T8: once submit_next_stage(k, ..) was accepted, every later call with the same k is rejected by the
   sequencing check and changes nothing -- whatever happened in between *)
Lemma repeat_rejected c : c = std_consts -> forall w k rc e,
  accepted (fst (step c w (OpNext k (Some rc) e))) = true ->
  forall ops rc' e',
  let w2 := snd (run c (snd (step c w (OpNext k (Some rc) e))) ops) in
  step c w2 (OpNext k (Some rc') e') = (RErrInvalidParameter, w2).
Proof.
  intros Hc w k rc e Hacc ops rc' e'.
  destruct (accept_only_current c Hc w k rc e Hacc) as (s & _ & _ & s1 & Hp1 & Hs1). subst c.
  destruct (stage_mono_run ops _ s1 Hp1) as (s2 & Hp2 & Hle). cbn zeta.
  set (w2 := snd (run std_consts (snd (step std_consts w (OpNext k (Some rc) e))) ops)) in *.
  unfold step. rewrite Hp2. unfold next_stage. cbn [c_seq std_consts].
  destruct (Z.eqb_spec k (p_stage s2 + 1)); [lia|]. cbn [negb].
  destruct w2 as [p l]. cbn in *. subst p. reflexivity.
Qed.

(* ------------------------------------------------------------------------------------------
   T5-T7: return codes, what `accepted` means for the log, completion *)
Lemma advanced_In k rc log : In (k, rc) (advanced log) <-> In (EvAdvance k rc) log.
Proof.
  unfold advanced. rewrite in_flat_map. split.
  - intros (ev & Hin & Hev). destruct ev; cbn in Hev; try tauto. destruct Hev as [[= <- <-]|[]]. assumption.
  - intros Hin. exists (EvAdvance k rc). split; [assumption|left; reflexivity].
Qed.

Lemma zseq_NoDup s n : NoDup (zseq s n).
Proof.
  revert s; induction n; intros s; simpl; constructor; auto.
  rewrite zseq_In. lia.
Qed.

Lemma recorded_rc_nth s j : 1 <= j <= Z.of_nat (length (p_rcs s)) ->
  recorded_rc s j = nth (Z.to_nat (j - 1)) (p_rcs s) None.
Proof.
  intros Hj. unfold recorded_rc.
  rewrite (nth_error_nth' (p_rcs s) None) by lia.
  destruct (nth (Z.to_nat (j - 1)) (p_rcs s) None); reflexivity.
Qed.

Lemma rc_recorded c : c = std_consts -> forall ops, forallb cli_op ops = true ->
  forall s, w_pipe (final c ops) = Some s ->
  map fst (advanced (w_log (final c ops))) = zseq 2 (Z.to_nat (p_stage s - 1)) /\
  forall j rc, 1 <= j <= nstages s ->
    (recorded_rc s j = Some rc <-> In (EvAdvance (j + 1) rc) (w_log (final c ops))).
Proof.
  intros -> ops Hcli s Hp. pose proof (inv_final ops Hcli) as Hinv. unfold inv in Hinv. rewrite Hp in Hinv.
  destruct Hinv as (Hst & Hlen & _ & Hkeys & Hrc & _). split; [assumption|].
  intros j rc Hj. unfold nstages in Hj.
  rewrite recorded_rc_nth by (rewrite Hlen; lia).
  rewrite Hrc by lia. replace (Z.of_nat (Z.to_nat (j - 1)) + 2) with (j + 1) by lia.
  rewrite assocZ_In by (rewrite Hkeys; apply zseq_NoDup). apply advanced_In.
Qed.

(* which calls extend the list of accepted completions: exactly the accepted submit-next-stage calls *)
Lemma advanced_step c : c = std_consts -> forall ops o, forallb cli_op ops = true ->
  let w := final c ops in
  advanced (w_log (snd (step c w o))) =
  advanced (w_log w) ++ match o with
                        | OpNext k (Some rc) _ => if accepted (fst (step c w o)) then [(k, rc)] else []
                        | _ => []
                        end.
Proof.
  intros -> ops o Hcli w. pose proof (inv_final ops Hcli) as Hinv. fold w in Hinv. unfold inv in Hinv.
  unfold step. destruct o as [autos e|k [rc|] e]; destruct (w_pipe w) as [s|] eqn:Hp; cbn [snd fst w_log];
    try (rewrite app_nil_r; reflexivity).
  - cbn [c_cli_first std_consts]. unfold next_stage. cbn [c_assert std_consts Z.eqb Pos.eqb].
    set (s0 := init_pipe std_consts autos).
    destruct (advance_spec e s0 (w_log w)) as [[Hd ->]|[Hd (r & evs & -> & (_ & _ & _ & E4 & _) & _)]].
    + change (p_stage s0) with 1. unfold nstages. lia.
    + cbn. rewrite app_nil_r. reflexivity.
    + cbn [snd w_log]. rewrite advanced_app, E4. reflexivity.
  - destruct (next_some_spec k rc e s (w_log w) Hinv)
      as [[_ ->]|[(_ & _ & ->)|(Hk & Hle & r & s' & evs & -> & Hacc & _ & _ & _ & Hcase)]];
      cbn [snd fst w_log accepted]; try (rewrite app_nil_r; reflexivity).
    rewrite Hacc, !advanced_app.
    assert (Hadv : advanced evs = []) by (destruct Hcase as [(_ & -> & _)|(_ & _ & Hev & _)]; [reflexivity|apply Hev]).
    rewrite Hadv, app_nil_r. reflexivity.
  - destruct Hinv as (Hst & _). unfold next_stage. cbn [c_assert std_consts].
    destruct (k =? 1); [|cbn; rewrite app_nil_r; reflexivity].
    destruct (advance_spec e s (w_log w) Hst) as [[Hd ->]|[Hd (r & evs & -> & (_ & _ & _ & E4 & _) & _)]].
    + cbn. rewrite app_nil_r. reflexivity.
    + cbn [snd w_log]. rewrite advanced_app, E4. reflexivity.
Qed.

Lemma complete_only_after_last c : c = std_consts -> forall ops, forallb cli_op ops = true ->
  forall s, w_pipe (final c ops) = Some s ->
  (p_complete s = true <-> p_stage s = nstages s + 1) /\
  (p_complete s = true ->
   map fst (advanced (w_log (final c ops))) = zseq 2 (length (p_auto s)) /\
   forall j, 1 <= j <= nstages s ->
     exists rc, recorded_rc s j = Some rc /\ In (EvAdvance (j + 1) rc) (w_log (final c ops))).
Proof.
  intros Hc ops Hcli s Hp. destruct (rc_recorded c Hc ops Hcli s Hp) as [Hkeys Hrc]. subst c.
  pose proof (inv_final ops Hcli) as Hinv. unfold inv in Hinv. rewrite Hp in Hinv.
  destruct Hinv as (Hst & Hlen & Hcomp & _). split; [assumption|].
  intros Ht. apply Hcomp in Ht. rewrite Ht in Hkeys.
  replace (Z.to_nat (nstages s + 1 - 1)) with (length (p_auto s)) in Hkeys by (unfold nstages; lia).
  split; [assumption|]. intros j Hj.
  assert (Hin : In (j + 1) (map fst (advanced (w_log (final std_consts ops))))).
  { rewrite Hkeys, zseq_In. unfold nstages in Hj. lia. }
  apply in_map_iff in Hin. destruct Hin as ([k rc] & Hk & Hin). cbn in Hk. subst k.
  exists rc. apply advanced_In in Hin. split; [apply Hrc; assumption|assumption].
Qed.

(* complete + cooperative environment: every stage 1..n was submitted, once, in order *)
Lemma complete_all_submitted c : c = std_consts -> forall ops,
  forallb cli_op ops = true -> forallb (fun o => env_ok (op_env o)) ops = true ->
  forall s, w_pipe (final c ops) = Some s -> p_complete s = true ->
  submitted (w_log (final c ops)) = zseq 1 (length (p_auto s)).
Proof.
  intros Hc ops Hcli Hok s Hp Ht.
  rewrite (prefix_env_ok c Hc ops Hcli Hok s Hp).
  apply (proj1 (complete_only_after_last c Hc ops Hcli s Hp)) in Ht.
  f_equal. unfold nstages in *. lia.
Qed.

(* ------------------------------------------------------------------------------------------
   System level: hand-over inside _handle_completion composed with the pipeline manager *)
Lemma ev_justified_mono pre x ev : ev_justified pre ev -> ev_justified (pre ++ x) ev.
Proof.
  destruct ev; cbn; intros H; try (destruct H as [H|[H1 H2]]; [left; assumption|right; split; apply in_or_app; left; assumption]);
    try (destruct H as [H1 H2]; split; apply in_or_app; left; assumption); apply in_or_app; left; assumption.
Qed.

Lemma log_ordered_nil : log_ordered [].
Proof. intros pre ev post H. destruct pre; discriminate. Qed.

Lemma log_ordered_snoc L ev : log_ordered L -> ev_justified L ev -> log_ordered (L ++ [ev]).
Proof.
  intros HL Hev pre e post Heq.
  destruct post as [|p post0] using rev_ind.
  - apply app_inj_tail in Heq as [-> ->]. assumption.
  - clear IHpost0. rewrite app_comm_cons, app_assoc in Heq. apply app_inj_tail in Heq as [Heq _].
    apply (HL pre e post0). assumption.
Qed.

Lemma log_ordered_app L evs : log_ordered L ->
  (forall pre ev post, evs = pre ++ ev :: post -> ev_justified (L ++ pre) ev) -> log_ordered (L ++ evs).
Proof.
  revert L; induction evs as [|a t IH]; intros L HL H.
  - rewrite app_nil_r. assumption.
  - replace (L ++ a :: t) with ((L ++ [a]) ++ t) by (rewrite <- app_assoc; reflexivity).
    apply IH.
    + apply log_ordered_snoc; [assumption|]. specialize (H [] a t eq_refl). rewrite app_nil_r in H. assumption.
    + intros pre ev post Heq. rewrite <- app_assoc. apply (H (a :: pre) ev post). rewrite Heq. reflexivity.
Qed.

Lemma submitted_In k l : In k (submitted l) <-> In (EvSubmit k) l.
Proof.
  unfold submitted. rewrite in_flat_map. split.
  - intros (ev & Hin & Hev). destruct ev; cbn in Hev; try tauto. destruct Hev as [<-|[]]. assumption.
  - intros Hin. exists (EvSubmit k). split; [assumption|left; reflexivity].
Qed.

Lemma memZ_In x l : memZ x l = true <-> In x l.
Proof.
  unfold memZ. rewrite existsb_exists. split.
  - intros (y & Hin & Heq). apply Z.eqb_eq in Heq. subst. assumption.
  - intros Hin. exists x. split; [assumption|apply Z.eqb_refl].
Qed.

Lemma remove1_In x k l : In x (remove1 k l) -> In x l.
Proof.
  induction l as [|h t IH]; simpl; [tauto|]. destruct (k =? h); [tauto|]. intros [->|H]; [left; reflexivity|right; auto].
Qed.

Lemma skipn_exact {A} (a b : list A) : skipn (length a) (a ++ b) = b.
Proof. induction a; simpl; auto. Qed.

Definition silent (evs : list pevent) : Prop :=
  submitted evs = [] /\ configured evs = [] /\ config_read evs = [] /\ advanced evs = [].

Lemma inv_add_log w evs : silent evs -> inv w -> inv (add_log w evs).
Proof.
  intros (S1 & S2 & S3 & S4). unfold inv, add_log. cbn [w_pipe w_log]. destruct (w_pipe w) as [s|].
  - unfold pinv. rewrite advanced_app, submitted_app, configured_app, config_read_app, S1, S2, S3, S4, !app_nil_r. tauto.
  - unfold quiet. rewrite advanced_app, submitted_app, configured_app, config_read_app, S1, S2, S3, S4, !app_nil_r. tauto.
Qed.

Definition sinv (y : sys) : Prop :=
  let L := w_log (y_world y) in
  inv (y_world y) /\ log_ordered L /\
  submitted L = zseq 1 (length (submitted L)) /\
  (forall k, In k (y_outstanding y) -> In (EvSubmit k) L) /\
  (forall k, In k (y_completed y) -> In (EvSubmit k) L /\ In (EvMarkComplete k) L).

Lemma sinv_init : sinv init_sys.
Proof.
  unfold sinv. cbn. split; [apply inv_init|]. split; [apply log_ordered_nil|]. split; [reflexivity|].
  split; intros k [].
Qed.

(* extending 1..m by its successor *)
Lemma zseq_extend l k : l = zseq 1 (length l) -> In k l -> Forall (fun x => x <= k) l ->
  l ++ [k + 1] = zseq 1 (length (l ++ [k + 1])).
Proof.
  intros Hl Hin Hle. rewrite app_length. cbn [length]. rewrite Nat.add_1_r, zseq_snoc, <- Hl. f_equal. f_equal.
  set (m := length l) in *.
  rewrite Hl in Hin. apply zseq_In in Hin.
  assert (Hm : (0 < m)%nat) by lia.
  assert (Hmin : In (Z.of_nat m) l) by (rewrite Hl; apply zseq_In; lia).
  rewrite Forall_forall in Hle. specialize (Hle _ Hmin). lia.
Qed.

Lemma complete_world_spec w0 k res e :
  inv w0 -> log_ordered (w_log w0) -> submitted (w_log w0) = zseq 1 (length (submitted (w_log w0))) ->
  In (EvSubmit k) (w_log w0) ->
  let w2 := complete_world std_consts w0 k res e in
  inv w2 /\ log_ordered (w_log w2) /\ submitted (w_log w2) = zseq 1 (length (submitted (w_log w2))) /\
  exists ext, w_log w2 = w_log w0 ++ EvMarkComplete k :: ext.
Proof.
  intros Hinv Hord Hseq HsubK. unfold complete_world. cbn [c_after_mark c_hand std_consts].
  set (wm := add_log w0 [EvMarkComplete k]).
  assert (Hinvm : inv wm) by (apply inv_add_log; [repeat split|assumption]).
  assert (Hordm : log_ordered (w_log wm)) by (apply log_ordered_snoc; assumption).
  assert (HmarkK : In (EvMarkComplete k) (w_log wm)) by (apply in_or_app; right; left; reflexivity).
  assert (HsubKm : In (EvSubmit k) (w_log wm)) by (apply in_or_app; left; assumption).
  assert (Hsubm : submitted (w_log wm) = submitted (w_log w0)) by (cbn; rewrite submitted_app; cbn; apply app_nil_r).
  assert (Hlm : w_log wm = w_log w0 ++ [EvMarkComplete k]) by reflexivity.
  clearbody wm.
  pose proof (inv_step wm (OpNext (k + 1) (Some res) e) eq_refl Hinvm) as Hinv2.
  assert (Hsame : forall w2, w_log w2 = w_log wm -> inv w2 ->
            inv w2 /\ log_ordered (w_log w2) /\ submitted (w_log w2) = zseq 1 (length (submitted (w_log w2))) /\
            exists ext, w_log w2 = w_log w0 ++ EvMarkComplete k :: ext).
  { intros w2 Hl Hi. rewrite Hl. split; [assumption|]. split; [assumption|]. split; [rewrite Hsubm; assumption|].
    exists []. assumption. }
  unfold step in *. destruct (w_pipe wm) as [s|] eqn:Hp.
  2:{ cbn [snd] in *. apply Hsame; [reflexivity|assumption]. }
  unfold inv in Hinvm. rewrite Hp in Hinvm.
  destruct (next_some_spec (k + 1) res e s (w_log wm) Hinvm)
    as [[_ Heq]|[(_ & _ & Heq)|(Hk & Hle & r & s' & evs & Heq & Hacc & Ha & Hs & Hr & Hcase)]];
    rewrite Heq in *; cbn [snd] in *.
  - apply Hsame; [reflexivity|assumption].
  - apply Hsame; [reflexivity|assumption].
  - assert (Hstage : p_stage s = k) by lia.
    assert (Hevs : (submitted evs = [] \/ submitted evs = [k + 1]) /\
                   forall ev, In ev evs -> ev = EvAutoConfig (k + 1) \/ ev = EvReadConfig (k + 1) \/ ev = EvSubmit (k + 1)).
    { destruct Hcase as [(_ & -> & _)|(_ & _ & (E1 & _ & _ & _ & E5) & _)]; [split; [left; reflexivity|intros ev []]|split; assumption]. }
    destruct Hevs as [E1 E5]. cbn [w_log].
    split; [assumption|].
    split.
    { apply log_ordered_app.
      - apply log_ordered_snoc; [assumption|]. cbn. replace (k + 1 - 1) with k by lia. split; assumption.
      - intros pre ev post Hev.
        assert (Hin : In ev evs) by (rewrite Hev; apply in_or_app; right; left; reflexivity).
        assert (HJ : In (EvMarkComplete k) ((w_log wm ++ [EvAdvance (k + 1) res]) ++ pre) /\
                     In (EvSubmit k) ((w_log wm ++ [EvAdvance (k + 1) res]) ++ pre))
          by (split; apply in_or_app; left; apply in_or_app; left; assumption).
        destruct (E5 ev Hin) as [->|[->| ->]]; cbn; right; replace (k + 1 - 1) with k by lia; exact HJ. }
    split.
    { rewrite !submitted_app, Hsubm. cbn [submitted flat_map app]. rewrite app_nil_r.
      destruct E1 as [->| ->]; [rewrite app_nil_r; assumption|].
      apply zseq_extend; [assumption|apply submitted_In; assumption|].
      destruct Hinvm as (_ & _ & _ & _ & _ & [_ Hf] & _). rewrite Hsubm in Hf.
      eapply Forall_impl; [|exact Hf]. cbn. intros; lia. }
    exists (EvAdvance (k + 1) res :: evs). rewrite Hlm, <- !app_assoc. reflexivity.
Qed.

Lemma sinv_step y o y' : sinv y -> sys_step std_consts y o = Some y' -> sinv y'.
Proof.
  intros (Hinv & Hord & Hseq & Hout & Hcomp) Hstep. unfold sys_step in Hstep.
  destruct (c05_enabled y o) eqn:Hen; cbn [negb] in Hstep; [|discriminate].
  set (w0 := y_world y) in *.
  destruct o as [autos e|k res e|k].
  - (* SysStart *)
    injection Hstep as <-. unfold sinv. cbn [y_world y_outstanding y_completed].
    pose proof (inv_step w0 (OpSubmit autos e) eq_refl Hinv) as Hinv1.
    unfold step in *. destruct (w_pipe w0) as [s|] eqn:Hp.
    + cbn [snd] in *. split; [assumption|]. split; [assumption|]. split; [assumption|].
      unfold new_submissions. replace (skipn (length (w_log w0)) (w_log w0)) with (@nil pevent) by (rewrite <- (app_nil_r (w_log w0)) at 2; rewrite skipn_exact; reflexivity).
      cbn. rewrite app_nil_r. split; assumption.
    + unfold inv in Hinv. rewrite Hp in Hinv. destruct Hinv as (Q1 & Q2 & Q3 & Q4).
      cbn [c_cli_first std_consts] in *. unfold next_stage in *. cbn [c_assert std_consts Z.eqb Pos.eqb] in *.
      set (s0 := init_pipe std_consts autos) in *.
      destruct (advance_spec e s0 (w_log w0)) as [[Hd Heq]|[Hd (r & evs & Heq & (E1 & _ & _ & _ & E5) & _)]].
      * change (p_stage s0) with 1. unfold nstages. lia.
      * rewrite Heq in *. cbn [snd w_log] in *. split; [assumption|]. split; [assumption|]. split; [assumption|].
        unfold new_submissions. cbn [w_log].
        replace (skipn (length (w_log w0)) (w_log w0)) with (@nil pevent) by (rewrite <- (app_nil_r (w_log w0)) at 2; rewrite skipn_exact; reflexivity).
        cbn. rewrite app_nil_r. split; assumption.
      * rewrite Heq in *. cbn [snd w_log] in *. split; [assumption|].
        split.
        { apply log_ordered_app; [assumption|]. intros pre ev post Hev.
          assert (Hin : In ev evs) by (rewrite Hev; apply in_or_app; right; left; reflexivity).
          change (p_stage s0) with 1 in E5. destruct (E5 ev Hin) as [->|[->| ->]]; left; reflexivity. }
        split.
        { rewrite submitted_app, Q1. cbn [app]. change (p_stage s0) with 1 in E1. destruct E1 as [->| ->]; reflexivity. }
        unfold new_submissions. cbn [w_log]. rewrite skipn_exact.
        split.
        { intros k Hk. apply in_app_or in Hk as [Hk|Hk]; apply in_or_app; [left; auto|right; apply submitted_In; assumption]. }
        { intros k Hk. destruct (Hcomp k Hk). split; apply in_or_app; left; assumption. }
  - (* SysComplete *)
    cbn [c05_enabled] in Hen. apply memZ_In in Hen. pose proof (Hout k Hen) as HsubK.
    injection Hstep as <-. unfold sinv. cbn [y_world y_outstanding y_completed].
    destruct (complete_world_spec w0 k res e Hinv Hord Hseq HsubK) as (Hi2 & Ho2 & Hs2 & ext & Hext).
    fold w0. set (w2 := complete_world std_consts w0 k res e) in *. clearbody w2.
    split; [assumption|]. split; [assumption|]. split; [assumption|].
    unfold new_submissions. rewrite Hext, skipn_exact.
    split.
    + intros k0 Hk0. apply in_app_or in Hk0 as [Hk0|Hk0].
      * apply in_or_app; left. apply Hout. eapply remove1_In; eassumption.
      * apply in_or_app; right. apply submitted_In. assumption.
    + intros k0 [<-|Hk0].
      * split; [apply in_or_app; left; assumption|apply in_or_app; right; left; reflexivity].
      * destruct (Hcomp k0 Hk0). split; apply in_or_app; left; assumption.
  - (* SysResubmit *)
    cbn [c05_enabled] in Hen. apply andb_true_iff in Hen as [Hc _]. apply memZ_In in Hc. destruct (Hcomp k Hc) as [Hs Hm].
    injection Hstep as <-. unfold sinv. cbn [y_world y_outstanding y_completed add_log w_log]. fold w0.
    split; [apply inv_add_log; [repeat split|assumption]|].
    split; [apply log_ordered_snoc; assumption|].
    split; [rewrite submitted_app; cbn; rewrite app_nil_r; assumption|].
    split.
    + intros k0 [<-|Hk0]; apply in_or_app; left; [assumption|apply Hout; assumption].
    + intros k0 Hk0. destruct (Hcomp k0 Hk0). split; apply in_or_app; left; assumption.
Qed.

Lemma sinv_run ops : forall y y', sinv y -> sys_run std_consts y ops = Some y' -> sinv y'.
Proof.
  induction ops as [|o t IH]; intros y y' Hy Hrun; simpl in Hrun.
  - injection Hrun as <-. assumption.
  - destruct (sys_step std_consts y o) as [y1|] eqn:Hs; [|discriminate].
    apply (IH y1); [eapply sinv_step; eassumption|assumption].
Qed.

Lemma pinv_rc s log : pinv s log -> forall j rc, 1 <= j <= nstages s ->
  (recorded_rc s j = Some rc <-> In (EvAdvance (j + 1) rc) log).
Proof.
  intros (Hst & Hlen & _ & Hkeys & Hrc & _) j rc Hj. unfold nstages in Hj.
  rewrite recorded_rc_nth by (rewrite Hlen; lia).
  rewrite Hrc by lia. replace (Z.of_nat (Z.to_nat (j - 1)) + 2) with (j + 1) by lia.
  rewrite assocZ_In by (rewrite Hkeys; apply zseq_NoDup). apply advanced_In.
Qed.

(* S1: every event of the whole system is justified by what happened before it *)
Lemma sys_handover_order c : c = std_consts -> forall ops y,
  sys_run c init_sys ops = Some y -> log_ordered (w_log (y_world y)).
Proof. intros -> ops y Hrun. apply (sinv_run ops init_sys y sinv_init Hrun). Qed.

(* S2: gap-free, duplicate-free, whatever the environment does *)
Lemma sys_order_once c : c = std_consts -> forall ops y,
  sys_run c init_sys ops = Some y ->
  let L := w_log (y_world y) in
  submitted L = zseq 1 (length (submitted L)) /\
  NoDup (submitted L) /\ NoDup (configured L) /\ NoDup (config_read L) /\
  forall k, In k (submitted L) -> exists s, w_pipe (y_world y) = Some s /\ 1 <= k <= p_stage s /\ k <= nstages s.
Proof.
  intros -> ops y Hrun L. destruct (sinv_run ops init_sys y sinv_init Hrun) as (Hinv & _ & Hseq & _).
  fold L in Hseq. split; [assumption|]. unfold inv in Hinv. destruct (w_pipe (y_world y)) as [s|] eqn:Hp.
  - destruct Hinv as (_ & _ & _ & _ & _ & [S1 F1] & [S2 _] & [S3 _]). fold L in S1, S2, S3, F1.
    split; [apply sorted_NoDup; assumption|]. split; [apply sorted_NoDup; assumption|]. split; [apply sorted_NoDup; assumption|].
    intros k Hk. exists s. split; [reflexivity|]. rewrite Forall_forall in F1. specialize (F1 k Hk). lia.
  - destruct Hinv as (Q1 & Q2 & Q3 & _). fold L in Q1, Q2, Q3. rewrite Q1, Q2, Q3.
    split; [constructor|]. split; [constructor|]. split; [constructor|]. intros k [].
Qed.

(* S3: complete only after every stage was submitted and its submission marked complete; the recorded
   return codes are the result values handed over by those completions *)
Lemma sys_complete c : c = std_consts -> forall ops y,
  sys_run c init_sys ops = Some y ->
  forall s, w_pipe (y_world y) = Some s -> p_complete s = true ->
  let L := w_log (y_world y) in
  p_stage s = nstages s + 1 /\
  forall j, 1 <= j <= nstages s ->
    In (EvSubmit j) L /\ In (EvMarkComplete j) L /\
    exists rc, recorded_rc s j = Some rc /\ In (EvAdvance (j + 1) rc) L.
Proof.
  intros -> ops y Hrun s Hp Hc L. destruct (sinv_run ops init_sys y sinv_init Hrun) as (Hinv & Hord & _).
  unfold inv in Hinv. rewrite Hp in Hinv. fold L in Hinv, Hord.
  pose proof (pinv_rc s L Hinv) as Hrc.
  destruct Hinv as (Hst & Hlen & Hcomp & Hkeys & _). apply Hcomp in Hc. split; [assumption|].
  intros j Hj.
  assert (Hin : In (j + 1) (map fst (advanced L))).
  { rewrite Hkeys, zseq_In. unfold nstages in *. lia. }
  apply in_map_iff in Hin. destruct Hin as ([k rc] & Hk & Hin). cbn in Hk. subst k.
  apply advanced_In in Hin. destruct (in_split _ _ Hin) as (pre & post & HL).
  pose proof (Hord pre _ post HL) as HJ. cbn in HJ. replace (j + 1 - 1) with j in HJ by lia. destruct HJ as [HM HS].
  split; [rewrite HL; apply in_or_app; left; assumption|].
  split; [rewrite HL; apply in_or_app; left; assumption|].
  exists rc. split; [apply Hrc; assumption|assumption].
Qed.

(* S4 (progress): the first completion of stage k, with a cooperative environment for stage k+1,
   records k's result and submits stage k+1 -- or completes the pipeline if k was the last stage *)
Lemma sys_progress c : c = std_consts -> forall ops y,
  sys_run c init_sys ops = Some y ->
  forall k res e s, w_pipe (y_world y) = Some s ->
  In (EvSubmit k) (w_log (y_world y)) -> ~ In (EvMarkComplete k) (w_log (y_world y)) -> env_ok e = true ->
  let w2 := complete_world c (y_world y) k res e in
  exists s2, w_pipe w2 = Some s2 /\ p_stage s2 = k + 1 /\ recorded_rc s2 k = Some res /\
    ((k < nstages s /\ In (EvSubmit (k + 1)) (w_log w2)) \/ (k = nstages s /\ p_complete s2 = true)).
Proof.
  intros -> ops y Hrun k res e s Hp Hsub Hnm Hok.
  destruct (sinv_run ops init_sys y sinv_init Hrun) as (Hinv & Hord & _).
  set (w0 := y_world y) in *. unfold inv in Hinv. rewrite Hp in Hinv.
  assert (Hk : 1 <= k <= p_stage s /\ k <= nstages s).
  { destruct Hinv as (_ & _ & _ & _ & _ & [_ Hf] & _). rewrite Forall_forall in Hf.
    apply submitted_In in Hsub. specialize (Hf k Hsub). lia. }
  assert (Hstage : p_stage s = k).
  { destruct (Z.eq_dec (p_stage s) k) as [|Hne]; [assumption|exfalso].
    destruct Hinv as (_ & _ & _ & Hkeys & _).
    assert (Hin : In (k + 1) (map fst (advanced (w_log w0)))) by (rewrite Hkeys, zseq_In; lia).
    apply in_map_iff in Hin. destruct Hin as ([k' rc] & Hk' & Hin). cbn in Hk'. subst k'.
    apply advanced_In in Hin. destruct (in_split _ _ Hin) as (pre & post & HL).
    pose proof (Hord pre _ post HL) as HJ. cbn in HJ. replace (k + 1 - 1) with k in HJ by lia.
    apply Hnm. rewrite HL. apply in_or_app. left. apply HJ. }
  unfold complete_world. cbn [c_after_mark c_hand std_consts].
  set (wm := add_log w0 [EvMarkComplete k]).
  assert (Hpm : w_pipe wm = Some s) by exact Hp.
  assert (Hinvm : pinv s (w_log wm)).
  { pose proof (inv_add_log w0 [EvMarkComplete k]) as H. unfold inv in H. fold wm in H. rewrite Hpm, Hp in H.
    apply H; [repeat split|assumption]. }
  clearbody wm. unfold step. rewrite Hpm.
  destruct (next_some_spec (k + 1) res e s (w_log wm) Hinvm)
    as [[Hne _]|[(_ & Hlast & _)|(_ & Hle & r & s' & evs & Heq & _ & Ha & Hs & Hr & Hcase)]]; try lia.
  rewrite Heq. cbn [snd w_pipe w_log]. exists s'. split; [reflexivity|]. split; [assumption|].
  split.
  { destruct Hinvm as (_ & Hlen & _).
    rewrite recorded_rc_nth by (rewrite Hr, set_nth_length, Hlen; unfold nstages in *; lia).
    rewrite Hr, Hstage. apply nth_set_nth_eq. rewrite Hlen. unfold nstages in *. lia. }
  destruct Hcase as [(Hkn & _ & Hcomp & _)|(Hkn & _ & _ & _ & Hsubm)].
  - right. split; [lia|assumption].
  - left. split; [lia|]. apply in_or_app. right. apply submitted_In. rewrite (Hsubm Hok). left. reflexivity.
Qed.
