(* Model of jade/utils/run_command.py::run_command's retry loop.
   The subprocess is an oracle: attempt k (0-based) yields `outs k`.  No proofs here. *)
From Coq Require Import String List ZArith NArith Bool Arith.
From Jade Require Import Base.
Import ListNotations.

Record outcome := { o_ret : Z; o_stdout : string; o_stderr : string }.

Definition should_exit_early (stderr : string) (errs : list string) : bool :=
  existsb (fun e => str_contains e stderr) errs.

(* `fuel` = attempts that may still follow this one; `k` = attempts already made.
   Python:  for i in range(num_retries + 1):
              ret = run(); if ret != 0 and num_retries > 0 and captured and early(stderr): i = last
              if ret == 0 or i == last: break
              sleep *)
Fixpoint retry_go (capture : bool) (errs : list string) (outs : nat -> outcome) (fuel k : nat)
  : nat * outcome :=
  let o := outs k in
  match fuel with
  | O => (S k, o)
  | S f =>
    if (o_ret o =? 0)%Z then (S k, o)
    else if capture && should_exit_early (o_stderr o) errs then (S k, o)
    else retry_go capture errs outs f (S k)
  end.

(* returns (number of executions, outcome that is returned to the caller) *)
Definition run_command (num_retries : nat) (capture : bool) (errs : list string) (outs : nat -> outcome)
  : nat * outcome :=
  retry_go capture errs outs num_retries 0.

(* what the caller sees: error_strings without output is rejected before anything runs *)
Inductive rc_result := RcInvalidParameter | RcDone (execs : nat) (o : outcome).
Definition run_command_api (num_retries : nat) (capture : bool) (errs : list string) (outs : nat -> outcome) :=
  match errs, capture with
  | _ :: _, false => RcInvalidParameter
  | _, _ => let '(n, o) := run_command num_retries capture errs outs in RcDone n o
  end.
