(* C20, events: proofs about Events.v (all lists / files of any size). *)
From Coq Require Import String Ascii List NArith Bool Arith Lia Permutation Sorted.
From Jade Require Import Base Events.
From Jade.Gen Require Import ReportsGen.
Import ListNotations.
Set Default Timeout 60.
Open Scope string_scope.
Open Scope list_scope.

(* ---------- specification vocabulary ---------- *)
(* a is not later than b: not (b.timestamp < a.timestamp) with Python's str comparison *)
Definition ts_le (a b : event) : Prop := str_ltb (e_ts b) (e_ts a) = false.
Definition has_name (n : string) (e : event) : bool := String.eqb (e_name e) n.
Definition has_ts (t : string) (e : event) : bool := String.eqb (e_ts e) t.

(* ---------- the order on timestamps ---------- *)
Lemma str_ltb_irrefl a : str_ltb a a = false.
Proof. induction a as [|x a IH]; cbn; [reflexivity|]. rewrite N.ltb_irrefl. exact IH. Qed.

Ltac cmp_chars :=
  repeat match goal with
         | |- context [(?a <? ?b)%N] => destruct (N.ltb_spec a b)
         | H : context [(?a <? ?b)%N] |- _ => destruct (N.ltb_spec a b)
         end.

Lemma str_ltb_asym a : forall b, str_ltb a b = true -> str_ltb b a = false.
Proof.
  induction a as [|x a IH]; intros [|y b]; cbn; intros H; try reflexivity; try discriminate.
  cmp_chars; try reflexivity; try discriminate; try lia. apply IH. exact H.
Qed.

Lemma str_ltb_trans a : forall b c, str_ltb a b = true -> str_ltb b c = true -> str_ltb a c = true.
Proof.
  induction a as [|x a IH]; intros [|y b] [|z c]; cbn; intros H1 H2; try reflexivity; try discriminate.
  cmp_chars; try reflexivity; try discriminate; try lia. eapply IH; eassumption.
Qed.

(* negative transitivity: "not later than" is transitive *)
Lemma str_geb_trans a : forall b c, str_ltb b a = false -> str_ltb c b = false -> str_ltb c a = false.
Proof.
  induction a as [|x a IH]; intros [|y b] [|z c]; cbn; intros H1 H2; try reflexivity; try discriminate.
  cmp_chars; try reflexivity; try discriminate; try lia. eapply IH; eassumption.
Qed.

Lemma N_of_ascii_inj x y : N_of_ascii x = N_of_ascii y -> x = y.
Proof. intros H. rewrite <- (ascii_N_embedding x), <- (ascii_N_embedding y), H. reflexivity. Qed.

Lemma str_ltb_total a : forall b, str_ltb a b = false -> str_ltb b a = false -> a = b.
Proof.
  induction a as [|x a IH]; intros [|y b]; cbn; intros H1 H2; try reflexivity; try discriminate.
  cmp_chars; try discriminate; try lia.
  assert (x = y) by (apply N_of_ascii_inj; lia). subst. f_equal. apply IH; assumption.
Qed.

Lemma ts_le_refl a : ts_le a a.
Proof. apply str_ltb_irrefl. Qed.
Lemma ts_le_trans a b c : ts_le a b -> ts_le b c -> ts_le a c.
Proof. unfold ts_le. intros H1 H2. eapply str_geb_trans; eassumption. Qed.
Lemma ts_le_total a b : ts_le a b \/ ts_le b a.
Proof.
  unfold ts_le. destruct (str_ltb (e_ts b) (e_ts a)) eqn:E; [right|left; reflexivity].
  apply str_ltb_asym. exact E.
Qed.
Lemma ts_le_antisym a b : ts_le a b -> ts_le b a -> e_ts a = e_ts b.
Proof. unfold ts_le. intros H1 H2. apply str_ltb_total; assumption. Qed.

(* ---------- insertion sort = a stable sort ---------- *)
Lemma insert_perm x l : Permutation (insert x l) (x :: l).
Proof.
  induction l as [|y r IH]; cbn; [apply Permutation_refl|].
  destruct (str_ltb (e_ts y) (e_ts x)).
  - eapply Permutation_trans; [apply perm_skip; exact IH|apply perm_swap].
  - apply Permutation_refl.
Qed.
Lemma sort_perm l : Permutation (sort l) l.
Proof.
  induction l as [|x r IH]; cbn; [constructor|].
  eapply Permutation_trans; [apply insert_perm|]. apply perm_skip. exact IH.
Qed.

Lemma insert_hd x y r : str_ltb (e_ts y) (e_ts x) = true -> HdRel ts_le y r -> HdRel ts_le y (insert x r).
Proof.
  intros Hyx Hr. destruct r as [|z r']; cbn.
  - constructor. unfold ts_le. apply str_ltb_asym. exact Hyx.
  - destruct (str_ltb (e_ts z) (e_ts x)).
    + constructor. inversion Hr; assumption.
    + constructor. unfold ts_le. apply str_ltb_asym. exact Hyx.
Qed.
Lemma insert_sorted x l : Sorted ts_le l -> Sorted ts_le (insert x l).
Proof.
  induction l as [|y r IH]; cbn; intros H.
  - repeat constructor.
  - inversion H as [|? ? Hs Hh]; subst. destruct (str_ltb (e_ts y) (e_ts x)) eqn:E.
    + constructor; [apply IH; exact Hs|apply insert_hd; assumption].
    + constructor; [exact H|]. constructor. exact E.
Qed.
Lemma sort_sorted l : Sorted ts_le (sort l).
Proof. induction l as [|x r IH]; cbn; [constructor|apply insert_sorted; exact IH]. Qed.
Lemma sort_strongly_sorted l : StronglySorted ts_le (sort l).
Proof. apply Sorted_StronglySorted; [intros a b c; apply ts_le_trans|apply sort_sorted]. Qed.

Lemma sort_id l : Sorted ts_le l -> sort l = l.
Proof.
  induction l as [|x r IH]; cbn; intros H; [reflexivity|].
  inversion H as [|? ? Hs Hh]; subst. rewrite (IH Hs).
  destruct r as [|y r']; cbn; [reflexivity|]. inversion Hh as [|? ? Hxy]; subst.
  unfold ts_le in Hxy. rewrite Hxy. reflexivity.
Qed.
Lemma sort_idempotent l : sort (sort l) = sort l.
Proof. apply sort_id. apply sort_sorted. Qed.

(* stability: events with equal timestamps keep the order they were read in *)
Lemma insert_stable t x l : filter (has_ts t) (insert x l) = filter (has_ts t) (x :: l).
Proof.
  induction l as [|y r IH]; [reflexivity|]. cbn [insert].
  destruct (str_ltb (e_ts y) (e_ts x)) eqn:E; [|reflexivity].
  cbn [filter] in *. rewrite IH. unfold has_ts.
  destruct (String.eqb_spec (e_ts x) t) as [Hx|Hx]; [|reflexivity].
  destruct (String.eqb_spec (e_ts y) t) as [Hy|Hy]; [|reflexivity].
  rewrite Hx, Hy, str_ltb_irrefl in E. discriminate.
Qed.
Lemma sort_stable t l : filter (has_ts t) (sort l) = filter (has_ts t) l.
Proof.
  induction l as [|x r IH]; [reflexivity|]. cbn [sort]. rewrite insert_stable. cbn [filter]. rewrite IH. reflexivity.
Qed.

(* ---------- grouping by name ---------- *)
Lemma find_group_cons n m es r :
  find_group n ((m, es) :: r) = if String.eqb m n then Some es else find_group n r.
Proof. unfold find_group. cbn. destruct (String.eqb m n); reflexivity. Qed.
Lemma lookup_cons n m es r : lookup n ((m, es) :: r) = if String.eqb m n then es else lookup n r.
Proof. unfold lookup. rewrite find_group_cons. destruct (String.eqb m n); reflexivity. Qed.

Lemma find_group_add n e g :
  find_group n (group_add e g) = if String.eqb (e_name e) n then Some (lookup n g ++ [e]) else find_group n g.
Proof.
  induction g as [|[m es] r IH]; cbn [group_add].
  - rewrite find_group_cons. destruct (String.eqb (e_name e) n); reflexivity.
  - destruct (String.eqb_spec m (e_name e)) as [Hm|Hm].
    + subst m. rewrite !find_group_cons, lookup_cons. destruct (String.eqb (e_name e) n); reflexivity.
    + rewrite !find_group_cons, lookup_cons, IH. destruct (String.eqb_spec m n) as [Hn|Hn].
      * subst n. destruct (String.eqb_spec (e_name e) m); [congruence|reflexivity].
      * reflexivity.
Qed.
Lemma lookup_group_add n e g :
  lookup n (group_add e g) = if has_name n e then lookup n g ++ [e] else lookup n g.
Proof. unfold lookup at 1. rewrite find_group_add. unfold has_name. destruct (String.eqb (e_name e) n); reflexivity. Qed.

Lemma lookup_group_from n l : forall g0, lookup n (group_from g0 l) = lookup n g0 ++ filter (has_name n) l.
Proof.
  induction l as [|e l IH]; intros g0; cbn.
  - rewrite app_nil_r. reflexivity.
  - unfold group_from in IH. rewrite IH, lookup_group_add. destruct (has_name n e); [rewrite <- app_assoc|]; reflexivity.
Qed.
Lemma lookup_group n l : lookup n (group l) = filter (has_name n) l.
Proof. unfold group. rewrite lookup_group_from. reflexivity. Qed.

Lemma find_group_map_sort n g :
  find_group n (map (fun p => (fst p, sort (snd p))) g) = option_map sort (find_group n g).
Proof.
  induction g as [|[m es] r IH]; [reflexivity|]. cbn [map fst snd]. rewrite !find_group_cons, IH.
  destruct (String.eqb m n); reflexivity.
Qed.
Lemma lookup_consolidate n files : lookup n (consolidate files) = sort (filter (has_name n) (concat files)).
Proof.
  unfold consolidate, lookup at 1. rewrite find_group_map_sort. rewrite <- lookup_group. unfold lookup.
  destruct (find_group n (group (concat files))); reflexivity.
Qed.

(* ---------- lossless, ordered, stable ---------- *)
Theorem consolidate_lossless files n :
  Permutation (lookup n (consolidate files)) (filter (has_name n) (concat files)) /\
  Sorted ts_le (lookup n (consolidate files)) /\
  (forall t, filter (has_ts t) (lookup n (consolidate files)) = filter (has_ts t) (filter (has_name n) (concat files))).
Proof.
  rewrite lookup_consolidate. split; [apply sort_perm|]. split; [apply sort_sorted|]. intros t. apply sort_stable.
Qed.

(* ---------- well-grouped summaries; consolidating a consolidated summary ---------- *)
Definition wf_group (p : string * list event) : Prop :=
  snd p <> [] /\ Forall (fun e => e_name e = fst p) (snd p).
Definition wf (g : groups) : Prop := NoDup (map fst g) /\ Forall wf_group g.

Lemma group_add_keys e g k : In k (map fst (group_add e g)) -> k = e_name e \/ In k (map fst g).
Proof.
  induction g as [|[m es] r IH]; cbn [group_add].
  - cbn. intros [H|[]]. left. congruence.
  - destruct (String.eqb m (e_name e)); cbn; intros [H|H]; auto.
    apply IH in H. tauto.
Qed.
Lemma group_add_wf e g : wf g -> wf (group_add e g).
Proof.
  induction g as [|[m es] r IH]; cbn [group_add]; intros [Hk Hg].
  - split; cbn; [constructor; [intros []|constructor]|]. constructor; [|constructor].
    split; cbn; [discriminate|]. constructor; [reflexivity|constructor].
  - inversion Hk as [|? ? Hn Hk']; subst. inversion Hg as [|? ? [Hne Hall] Hg']; subst. cbn in *.
    destruct (String.eqb_spec m (e_name e)) as [Hm|Hm].
    + split; cbn; [constructor; assumption|]. constructor; [|exact Hg'].
      split; cbn; [intros H; apply app_eq_nil in H; destruct H; discriminate|].
      apply Forall_app. split; [exact Hall|]. constructor; [congruence|constructor].
    + destruct (IH (conj Hk' Hg')) as [Hk2 Hg2]. split; cbn.
      * constructor; [|exact Hk2]. intros H. apply group_add_keys in H. destruct H; [congruence|contradiction].
      * constructor; [split; assumption|exact Hg2].
Qed.
Lemma group_from_wf l : forall g0, wf g0 -> wf (group_from g0 l).
Proof. induction l as [|e l IH]; intros g0 H; cbn; [exact H|]. apply IH. apply group_add_wf. exact H. Qed.
Lemma group_wf l : wf (group l).
Proof. apply group_from_wf. split; constructor. Qed.

Lemma group_add_new e g0 : ~ In (e_name e) (map fst g0) -> group_add e g0 = g0 ++ [(e_name e, [e])].
Proof.
  induction g0 as [|[m es] r IH]; cbn; intros H; [reflexivity|].
  destruct (String.eqb_spec m (e_name e)) as [Hm|Hm]; [tauto|]. rewrite IH; [reflexivity|tauto].
Qed.
Lemma group_add_last e g0 n es :
  ~ In n (map fst g0) -> e_name e = n -> group_add e (g0 ++ [(n, es)]) = g0 ++ [(n, es ++ [e])].
Proof.
  induction g0 as [|[m es'] r IH]; cbn; intros H Hn.
  - subst n. rewrite String.eqb_refl. reflexivity.
  - destruct (String.eqb_spec m (e_name e)) as [Hm|Hm]; [subst; tauto|]. rewrite IH; [reflexivity|tauto|exact Hn].
Qed.
Lemma group_from_last g0 n : ~ In n (map fst g0) ->
  forall es' acc, Forall (fun e => e_name e = n) es' -> group_from (g0 ++ [(n, acc)]) es' = g0 ++ [(n, acc ++ es')].
Proof.
  intros Hn. induction es' as [|e es' IH]; intros acc Hall; cbn.
  - rewrite app_nil_r. reflexivity.
  - inversion Hall; subst. rewrite group_add_last; [|exact Hn|reflexivity].
    unfold group_from in IH. rewrite IH; [|assumption]. rewrite <- app_assoc. reflexivity.
Qed.
Lemma group_from_one g0 n es : ~ In n (map fst g0) -> es <> [] -> Forall (fun e => e_name e = n) es ->
  group_from g0 es = g0 ++ [(n, es)].
Proof.
  intros Hn Hne Hall. destruct es as [|e es']; [congruence|]. inversion Hall; subst. cbn.
  rewrite group_add_new; [|exact Hn]. apply (group_from_last g0 (e_name e) Hn es' [e]). assumption.
Qed.

Lemma regroup g : Forall wf_group g -> forall g0, NoDup (map fst (g0 ++ g)) ->
  group_from g0 (concat (map snd g)) = g0 ++ g.
Proof.
  induction g as [|[n es] g' IH]; intros Hg g0 Hk; cbn.
  - rewrite app_nil_r. reflexivity.
  - inversion Hg as [|? ? [Hne Hall] Hg']; subst. cbn in *.
    unfold group_from. rewrite fold_left_app. fold (group_from g0 es).
    rewrite (group_from_one g0 n es); [| |exact Hne|exact Hall].
    + fold (group_from (g0 ++ [(n, es)]) (concat (map snd g'))). rewrite IH; [|exact Hg'|].
      * rewrite <- app_assoc. reflexivity.
      * rewrite <- app_assoc. exact Hk.
    + rewrite map_app in Hk. cbn in Hk. apply NoDup_remove_2 in Hk. intros H. apply Hk. apply in_or_app. left. exact H.
Qed.

Lemma sort_wf_group p : wf_group p -> wf_group (fst p, sort (snd p)).
Proof.
  intros [Hne Hall]. split; cbn.
  - intros H. apply Hne. apply Permutation_nil. rewrite <- H. apply sort_perm.
  - rewrite Forall_forall in *. intros e He. apply Hall. eapply Permutation_in; [apply sort_perm|exact He].
Qed.
Lemma consolidate_wf files : wf (consolidate files).
Proof.
  unfold consolidate. destruct (group_wf (concat files)) as [Hk Hg]. split.
  - rewrite map_map. cbn. exact Hk.
  - rewrite Forall_forall in *. intros p Hp. apply in_map_iff in Hp. destruct Hp as [q [<- Hq]].
    apply sort_wf_group. apply Hg. exact Hq.
Qed.
Lemma consolidate_groups_sorted files : Forall (fun p => Sorted ts_le (snd p)) (consolidate files).
Proof.
  unfold consolidate. rewrite Forall_forall. intros p Hp. apply in_map_iff in Hp. destruct Hp as [q [<- Hq]].
  cbn. apply sort_sorted.
Qed.

(* a summary read back as if its per-name files were event files consolidates to itself *)
Theorem consolidate_fixpoint g : wf g -> Forall (fun p => Sorted ts_le (snd p)) g -> consolidate (map snd g) = g.
Proof.
  intros [Hk Hg] Hs. unfold consolidate, group. rewrite (regroup g Hg []); [|exact Hk]. cbn.
  induction g as [|[n es] r IH]; [reflexivity|]. cbn.
  inversion Hs; subst. inversion Hk; subst. inversion Hg; subst. cbn in *.
  rewrite sort_id; [|assumption]. f_equal. apply IH; assumption.
Qed.
Theorem consolidate_idempotent files : consolidate (map snd (consolidate files)) = consolidate files.
Proof. apply consolidate_fixpoint; [apply consolidate_wf|apply consolidate_groups_sorted]. Qed.

(* ---------- EventsSummary instances ---------- *)
Lemma find_group_filter (f : string -> bool) n g :
  find_group n (filter (fun p => f (fst p)) g) = if f n then find_group n g else None.
Proof.
  induction g as [|[m es] r IH]; cbn [filter fst].
  - destruct (f n); reflexivity.
  - destruct (f m) eqn:Fm.
    + rewrite !find_group_cons, IH. destruct (String.eqb_spec m n) as [->|Hn]; [rewrite Fm|]; reflexivity.
    + rewrite IH, find_group_cons. destruct (String.eqb_spec m n) as [->|Hn]; [rewrite Fm|]; reflexivity.
Qed.

Lemma list_events_first files n :
  list_events n (es_init empty_dir files) =
  if is_resource n then None else Some (lookup n (consolidate files)).
Proof.
  unfold es_init, list_events. cbn [dir_is_empty empty_dir d_json d_parquet es_mem es_dir].
  rewrite (find_group_filter (fun m => negb (is_resource m))).
  destruct (is_resource n) eqn:R; cbn [negb]; [reflexivity|].
  unfold lookup at 2. destruct (find_group n (consolidate files)) eqn:F; [reflexivity|].
  unfold lookup. rewrite (find_group_filter (fun m => negb (is_resource m))), R. cbn. rewrite F. reflexivity.
Qed.
Lemma stored_first files n : stored n (es_init empty_dir files) = lookup n (consolidate files).
Proof.
  unfold stored, dataframe_rows, es_init. cbn [dir_is_empty empty_dir d_json d_parquet es_mem es_dir].
  destruct (is_resource n) eqn:R; unfold lookup.
  - rewrite (find_group_filter is_resource), R. reflexivity.
  - rewrite (find_group_filter (fun m => negb (is_resource m))), R. reflexivity.
Qed.

(* once the events directory holds files, __init__ does not consolidate: the instance shows what
   the directory holds, whatever the *events.log files contain now *)
Theorem no_reconsolidation d files : dir_is_empty d = false ->
  es_dir (es_init d files) = d /\
  forall n, list_events n (es_init d files) = if is_resource n then None else Some (lookup n (d_json d)).
Proof.
  intros H. unfold es_init. rewrite H. split; [reflexivity|]. intros n. reflexivity.
Qed.

(* opening the output directory a second time shows the same events and leaves the directory as it is *)
Theorem second_open_same files :
  let s1 := es_init empty_dir files in
  let s2 := es_init (es_dir s1) files in
  es_dir s2 = es_dir s1 /\ forall n, list_events n s2 = list_events n s1.
Proof.
  intros s1 s2. destruct (dir_is_empty (es_dir s1)) eqn:E.
  - assert (Hd : es_dir s1 = empty_dir).
    { destruct (es_dir s1) as [j p]. unfold dir_is_empty in E. cbn in E. destruct j, p; try discriminate. reflexivity. }
    assert (H2 : s2 = s1) by (subst s2; rewrite Hd; reflexivity). rewrite H2. split; reflexivity.
  - destruct (no_reconsolidation (es_dir s1) files E) as [H1 H2]. fold s2 in H1, H2.
    split; [exact H1|]. intros n. rewrite H2. subst s1. rewrite list_events_first.
    destruct (is_resource n) eqn:R; [reflexivity|]. f_equal.
    unfold es_init. cbn [dir_is_empty empty_dir d_json d_parquet es_mem es_dir].
    unfold lookup. rewrite (find_group_filter (fun m => negb (is_resource m))), R. reflexivity.
Qed.

(* ---------- node aggregation ---------- *)
Lemma fs_remove_notin j fs : ~ In j (map fst fs) -> fs_remove j fs = fs.
Proof.
  induction fs as [|[k c] r IH]; cbn; intros H; [reflexivity|].
  destruct (String.eqb_spec j k) as [->|Hk]; [tauto|]. cbn. f_equal. apply IH. tauto.
Qed.
Lemma fs_remove_in p j fs : In p (fs_remove j fs) <-> In p fs /\ fst p <> j.
Proof.
  unfold fs_remove. rewrite filter_In. destruct (String.eqb_spec j (fst p)); cbn; split; intros [H1 H2]; split; auto; congruence.
Qed.
Lemma fs_remove_nodup j fs : NoDup (map fst fs) -> NoDup (map fst (fs_remove j fs)).
Proof.
  induction fs as [|[k c] r IH]; cbn; intros H; [constructor|]. inversion H; subst.
  destruct (String.eqb j k); cbn; [apply IH; assumption|]. constructor; [|apply IH; assumption].
  intros Hin. apply in_map_iff in Hin. destruct Hin as [p [Hp Hin]]. apply fs_remove_in in Hin.
  destruct Hin as [Hin _]. subst k. apply H2. apply in_map. exact Hin.
Qed.
Lemma fs_get_remove j k fs : fs_get k (fs_remove j fs) = if String.eqb k j then None else fs_get k fs.
Proof.
  induction fs as [|[m c] r IH].
  - cbn. destruct (String.eqb k j); reflexivity.
  - unfold fs_remove in *. cbn [filter fst fs_get].
    destruct (String.eqb_spec j m) as [Hm|Hm]; cbn [negb fs_get].
    + subst m. rewrite IH. destruct (String.eqb_spec k j); reflexivity.
    + rewrite IH. destruct (String.eqb_spec k m) as [Hk|Hk].
      * subst m. destruct (String.eqb_spec k j); [congruence|reflexivity].
      * reflexivity.
Qed.
Lemma fs_get_perm j c fs : NoDup (map fst fs) -> fs_get j fs = Some c ->
  Permutation (fs_events fs) (c ++ fs_events (fs_remove j fs)).
Proof.
  unfold fs_events. induction fs as [|[k c'] r IH]; cbn; intros Hn Hg; [discriminate|]. inversion Hn; subst.
  destruct (String.eqb_spec j k) as [->|Hk]; cbn.
  - inversion Hg; subst. fold (fs_remove k r). rewrite fs_remove_notin; [apply Permutation_refl|assumption].
  - fold (fs_remove j r). eapply Permutation_trans; [apply Permutation_app_head; apply IH; assumption|].
    rewrite !app_assoc. apply Permutation_app_tail. apply Permutation_app_comm.
Qed.

Theorem aggregate_spec jobs : forall node fs, NoDup (map fst fs) ->
  let r := aggregate jobs node fs in
  Permutation (fst r ++ fs_events (snd r)) (node ++ fs_events fs) /\
  (exists tail, fst r = node ++ tail) /\
  (forall j, In j jobs -> fs_get j (snd r) = None) /\
  (forall k, ~ In k jobs -> fs_get k (snd r) = fs_get k fs) /\
  (forall p, In p (snd r) -> In p fs /\ ~ In (fst p) jobs).
Proof.
  induction jobs as [|j jobs IH]; intros node fs Hn; cbn.
  - split; [apply Permutation_refl|]. split; [exists []; rewrite app_nil_r; reflexivity|].
    split; [intros ? []|]. split; [reflexivity|]. intros p Hp. split; [exact Hp|intros []].
  - destruct (fs_get j fs) as [c|] eqn:G.
    + specialize (IH (node ++ c) (fs_remove j fs) (fs_remove_nodup j fs Hn)). cbn in IH.
      destruct IH as [P [[tail T] [A [B C]]]]. split; [|split; [|split; [|split]]].
      * eapply Permutation_trans; [exact P|]. rewrite <- app_assoc. apply Permutation_app_head.
        apply Permutation_sym. apply fs_get_perm; assumption.
      * exists (c ++ tail). rewrite T, app_assoc. reflexivity.
      * intros k [<-|Hk]; [|apply A; exact Hk].
        destruct (in_dec string_dec j jobs) as [Hin|Hout]; [apply A; exact Hin|].
        rewrite (B j Hout), fs_get_remove, String.eqb_refl. reflexivity.
      * intros k Hk. rewrite B; [|tauto]. rewrite fs_get_remove.
        destruct (String.eqb_spec k j); [subst; tauto|reflexivity].
      * intros p Hp. apply C in Hp. destruct Hp as [Hp Hj]. apply fs_remove_in in Hp. destruct Hp as [Hp Hne].
        split; [exact Hp|]. intros [H|H]; [congruence|tauto].
    + specialize (IH node fs Hn). cbn in IH. destruct IH as [P [T [A [B C]]]]. split; [exact P|]. split; [exact T|].
      split; [|split].
      * intros k [<-|Hk]; [|apply A; exact Hk].
        destruct (in_dec string_dec j jobs) as [Hin|Hout]; [apply A; exact Hin|]. rewrite (B j Hout). exact G.
      * intros k Hk. apply B. tauto.
      * intros p Hp. apply C in Hp. destruct Hp as [Hp Hj]. split; [exact Hp|]. intros [H|H]; [|tauto].
        subst j. clear - Hp G Hn. induction fs as [|[m c] r IHr]; [destruct Hp|]. cbn in *.
        inversion Hn; subst. destruct (String.eqb_spec (fst p) m) as [E|E]; [discriminate|].
        destruct Hp as [<-|Hp]; [cbn in E; congruence|]. apply IHr; assumption.
Qed.

Lemma filter_perm {A} (f : A -> bool) l l' : Permutation l l' -> Permutation (filter f l) (filter f l').
Proof.
  induction 1; cbn.
  - constructor.
  - destruct (f x); [apply perm_skip|]; assumption.
  - destruct (f x), (f y); try apply perm_swap; apply Permutation_refl.
  - eapply Permutation_trans; eassumption.
Qed.

(* end to end on a node: after the job event files were moved into the node's file, consolidating
   shows, per name, exactly the events of the other files, the node file and the job files *)
Theorem aggregate_then_consolidate files jobs node fs n :
  NoDup (map fst fs) -> (forall k, In k (map fst fs) -> In k jobs) ->
  snd (aggregate jobs node fs) = [] /\
  Permutation (lookup n (consolidate (files ++ [fst (aggregate jobs node fs)])))
              (filter (has_name n) (concat files ++ node ++ fs_events fs)).
Proof.
  intros Hn Hall. destruct (aggregate_spec jobs node fs Hn) as [P [_ [_ [_ C]]]].
  assert (E : snd (aggregate jobs node fs) = []).
  { destruct (snd (aggregate jobs node fs)) as [|p r]; [reflexivity|]. exfalso.
    destruct (C p (or_introl eq_refl)) as [Hp Hj]. apply Hj. apply Hall. apply in_map. exact Hp. }
  split; [exact E|]. rewrite E in P. cbn in P. rewrite app_nil_r in P.
  eapply Permutation_trans; [apply consolidate_lossless|]. apply filter_perm.
  rewrite concat_app. cbn. rewrite app_nil_r. apply Permutation_app_head. exact P.
Qed.

(* ---------- str(datetime) timestamps: string order = chronological order ---------- *)
Definition digit (n : N) : ascii := ascii_of_N (48 + n).
Definition pad2 (n : N) : string := String (digit (n / 10)) (String (digit (n mod 10)) "").

(* the fields of a datetime in groups of two decimal digits: year = 100*yh + yl, microsecond =
   10000*u1 + 100*u2 + u3; st_frac = None when the microsecond is 0 (str(datetime) prints no fraction) *)
Record stamp := mkStamp { yh : N; yl : N; mo : N; dd : N; hh : N; mi : N; ss : N; st_frac : option (N * N * N) }.
Definition frac_key (f : option (N * N * N)) : list N :=
  match f with None => [0; 0; 0]%N | Some (a, b, c) => [a; b; c] end.
Definition stamp_key (s : stamp) : list N := [yh s; yl s; mo s; dd s; hh s; mi s; ss s] ++ frac_key (st_frac s).
Definition render_frac (f : option (N * N * N)) : string :=
  match f with None => "" | Some (a, b, c) => ("." ++ pad2 a ++ pad2 b ++ pad2 c)%string end.
Definition render (s : stamp) : string :=
  (pad2 (yh s) ++ pad2 (yl s) ++ "-" ++ pad2 (mo s) ++ "-" ++ pad2 (dd s) ++ " " ++
   pad2 (hh s) ++ ":" ++ pad2 (mi s) ++ ":" ++ pad2 (ss s) ++ render_frac (st_frac s))%string.
Definition stamp_wf (s : stamp) : Prop :=
  Forall (fun x => x < 100)%N (stamp_key s) /\ st_frac s <> Some (0, 0, 0)%N.
(* chronological order = lexicographic order of the field groups *)
Fixpoint lex_ltb (a b : list N) : bool :=
  match a, b with
  | x :: a', y :: b' => if (x <? y)%N then true else if (y <? x)%N then false else lex_ltb a' b'
  | _, _ => false
  end.

Definition range100 : list N := map N.of_nat (seq 0 100).
Lemma range100_In a : (a < 100)%N -> In a range100.
Proof.
  intros H. unfold range100. rewrite <- (N2Nat.id a). apply in_map. apply in_seq. lia.
Qed.
Lemma pad2_table :
  forallb (fun a => forallb (fun b => Bool.eqb (str_ltb (pad2 a) (pad2 b)) (a <? b)%N) range100) range100 = true.
Proof. vm_compute. reflexivity. Qed.
Lemma pad2_lt a b : (a < 100)%N -> (b < 100)%N -> str_ltb (pad2 a) (pad2 b) = (a <? b)%N.
Proof.
  intros Ha Hb. pose proof pad2_table as T. rewrite forallb_forall in T.
  specialize (T a (range100_In a Ha)). rewrite forallb_forall in T. specialize (T b (range100_In b Hb)).
  apply eqb_prop in T. exact T.
Qed.

Lemma str_ltb_app_same_length s1 : forall s2 t1 t2, String.length s1 = String.length s2 ->
  str_ltb (s1 ++ t1)%string (s2 ++ t2)%string =
  if str_ltb s1 s2 then true else if str_ltb s2 s1 then false else str_ltb t1 t2.
Proof.
  induction s1 as [|x s1 IH]; intros [|y s2] t1 t2 H; cbn in H; try discriminate.
  - cbn. destruct t1, t2; reflexivity.
  - cbn. destruct (N_of_ascii x <? N_of_ascii y)%N; [reflexivity|].
    destruct (N_of_ascii y <? N_of_ascii x)%N; [reflexivity|]. apply IH. congruence.
Qed.
Lemma step_pad x y t1 t2 : (x < 100)%N -> (y < 100)%N ->
  str_ltb (pad2 x ++ t1)%string (pad2 y ++ t2)%string =
  if (x <? y)%N then true else if (y <? x)%N then false else str_ltb t1 t2.
Proof.
  intros Hx Hy. rewrite str_ltb_app_same_length by reflexivity. rewrite !pad2_lt by assumption. reflexivity.
Qed.
Lemma step_sep c t1 t2 : str_ltb (String c t1) (String c t2) = str_ltb t1 t2.
Proof. cbn. rewrite N.ltb_irrefl. reflexivity. Qed.

Lemma frac_order fa fb :
  Forall (fun x => x < 100)%N (frac_key fa) -> Forall (fun x => x < 100)%N (frac_key fb) ->
  fa <> Some (0, 0, 0)%N -> fb <> Some (0, 0, 0)%N ->
  str_ltb (render_frac fa) (render_frac fb) = lex_ltb (frac_key fa) (frac_key fb).
Proof.
  intros Ha Hb Fa Fb.
  assert (E : forall u, (u <? 0)%N = false) by (intros u; apply N.ltb_ge; lia).
  destruct fa as [[[u1 u2] u3]|], fb as [[[v1 v2] v3]|]; cbn [render_frac frac_key] in *;
    repeat match goal with H : Forall _ (_ :: _) |- _ => inversion H; clear H; subst end.
  - cbn [append]. rewrite step_sep. rewrite !step_pad by assumption. rewrite pad2_lt by assumption.
    cbn [lex_ltb]. destruct (u3 <? v3)%N, (v3 <? u3)%N; reflexivity.
  - cbn [lex_ltb]. rewrite !E. destruct u1, u2, u3; reflexivity.
  - cbn [lex_ltb]. rewrite !E.
    destruct v1 as [|p1]; [destruct v2 as [|p2]; [destruct v3 as [|p3]; [congruence|]|]|]; reflexivity.
  - reflexivity.
Qed.

Theorem stamp_order a b : stamp_wf a -> stamp_wf b ->
  str_ltb (render a) (render b) = lex_ltb (stamp_key a) (stamp_key b).
Proof.
  intros [Ha Fa] [Hb Fb]. destruct a as [a1 a2 a3 a4 a5 a6 a7 fa], b as [b1 b2 b3 b4 b5 b6 b7 fb].
  unfold stamp_key, render in *. cbn [yh yl mo dd hh mi ss st_frac app] in *.
  repeat match goal with H : Forall _ (_ :: _) |- _ => inversion H; clear H; subst end.
  cbn [lex_ltb append].
  repeat ((rewrite step_pad by assumption) || rewrite step_sep).
  rewrite frac_order by assumption. reflexivity.
Qed.
