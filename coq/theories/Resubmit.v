(* Model of `jade resubmit-jobs` (jade/cli/resubmit_jobs.py) and the pieces it drives:
   ResultsSummary.get_results_by_type / get_missing_jobs (jade/result.py),
   ResultsAggregator.clear_results_for_resubmission (jade/jobs/results_aggregator.py),
   Cluster.prepare_for_resubmission / _promote_to_submitter / _demote_from_submitter
   (jade/jobs/cluster.py).  No proofs here (ResubmitProofs.v).

   Conventions: job names, host names, group names are opaque `N`.  Python sets are lists used as
   sets (the set `jobs_to_resubmit` is kept duplicate-free because the code takes its `len`).
   Aliasing that matters: `_update_with_blocking_jobs` MUTATES the set it is given (the caller's
   `jobs_to_resubmit` is the closure afterwards) and returns the dict; both are threaded here.
   Times are exact integers (the correspondence uses the float's bits), never compared to clocks. *)
From Coq Require Import List ZArith NArith Bool Arith.
From Jade Require Import Base.
Import ListNotations.

(* ---------- results ---------- *)
(* JobCompletionStatus value of a row: 0 = "finished", 1 = "canceled", anything else = other text *)
Record row := { r_name : N; r_rc : Z; r_status : N; r_exec : Z; r_ctime : Z; r_hpc : option N }.

Definition row_eqb (a b : row) : bool :=
  N.eqb (r_name a) (r_name b) && Z.eqb (r_rc a) (r_rc b) && N.eqb (r_status a) (r_status b) &&
  Z.eqb (r_exec a) (r_exec b) && Z.eqb (r_ctime a) (r_ctime b) && option_eqb N.eqb (r_hpc a) (r_hpc b).

(* Result.is_successful / is_failed / is_canceled *)
Definition is_successful (r : row) : bool := Z.eqb (r_rc r) 0 && N.eqb (r_status r) 0.
Definition is_failed (r : row) : bool := negb (Z.eqb (r_rc r) 0) && N.eqb (r_status r) 0.
Definition is_canceled (r : row) : bool := negb (Z.eqb (r_rc r) 0) && N.eqb (r_status r) 1.

(* deserialize_results: {x["name"]: ... for x in data} - a dict: position of the first occurrence,
   value of the last *)
Fixpoint upsert (r : row) (d : list row) : list row :=
  match d with
  | [] => [r]
  | x :: t => if N.eqb (r_name x) (r_name r) then r :: t else x :: upsert r t
  end.
Definition results_dict (rows : list row) : list row := fold_left (fun d r => upsert r d) rows [].

(* get_results_by_type: the if/elif chain *)
Definition by_type_successful (d : list row) := filter is_successful d.
Definition by_type_failed (d : list row) := filter (fun r => negb (is_successful r) && is_failed r) d.
Definition by_type_canceled (d : list row) :=
  filter (fun r => negb (is_successful r) && negb (is_failed r) && is_canceled r) d.

(* get_missing_jobs(cluster.iter_jobs()) *)
Definition missing_jobs (d : list row) (jobs : list N) : list N :=
  filter (fun j => negb (memN j (map r_name d))) jobs.

Definition dedupN (l : list N) : list N := fold_left (fun acc x => addN x acc) l [].

(* _get_jobs_to_resubmit; `results` is the "results" list of results.json, `jobs` the cluster's jobs *)
Definition selected (failed missing successful : bool) (results : list row) (jobs : list N) : list N :=
  let d := results_dict results in
  dedupN (
    (if failed || successful then
       (if failed then map r_name (by_type_canceled d) ++ map r_name (by_type_failed d) else []) ++
       (if successful then map r_name (by_type_successful d) else [])
     else []) ++
    (if missing then missing_jobs d jobs else [])).

(* ---------- the closure loop of _update_with_blocking_jobs ---------- *)
Record cjob := { cj_name : N; cj_deps : list N }.     (* config.json, in listing order *)

Fixpoint dict_set (k : N) (v : list N) (d : list (N * list N)) : list (N * list N) :=
  match d with
  | [] => [(k, v)]
  | (k', v') :: t => if N.eqb k' k then (k, v) :: t else (k', v') :: dict_set k v t
  end.
Fixpoint dict_get (k : N) (d : list (N * list N)) : option (list N) :=
  match d with
  | [] => None
  | (k', v) :: t => if N.eqb k' k then Some v else dict_get k t
  end.

Definition cstate := (list N * list (N * list N))%type.   (* jobs_to_resubmit, updated_blocking_jobs_by_name *)

(* body of `for job in config.iter_jobs()` *)
Definition step_job (st : cstate) (j : cjob) : cstate :=
  match cj_deps j with
  | [] => st                                            (* if not blocking_jobs: continue *)
  | _ =>
    match interN (cj_deps j) (fst st) with
    | [] => st
    | i => (addN (cj_name j) (fst st), dict_set (cj_name j) i (snd st))
    end
  end.
Definition pass (jobs : list cjob) (st : cstate) : cstate := fold_left step_job jobs st.

Inductive closure_result :=
| ClOk (st : cstate)
| ClAssert (i : nat) (num_added : nat) (first : nat).    (* assert i < max_iter - 1 *)

(* `for i in range(max_iter)`: fuel = remaining iterations *)
Fixpoint iterate (fuel i max_iter : nat) (jobs : list cjob) (st : cstate) : closure_result :=
  match fuel with
  | O => ClOk st
  | S f =>
    let first := length (fst st) in
    let st' := pass jobs st in
    let num_added := length (fst st') - first in
    if Nat.eqb num_added 0 then ClOk st'
    else if Nat.ltb i (max_iter - 1) then iterate f (S i) max_iter jobs st'
         else ClAssert i num_added first
  end.

Definition closure (jobs : list cjob) (sel : list N) : closure_result :=
  iterate (length jobs) 0 (length jobs) jobs (dedupN sel, []).

(* `updated_blocking_jobs_by_name.get(job.name, set())` *)
Definition new_blockers (d : list (N * list N)) (name : N) : list N :=
  match dict_get name d with Some v => v | None => [] end.

(* ---------- clear_results_for_resubmission ---------- *)
(* rows re-read from the rewritten file: DictWriter writes hpc_job_id None as the empty field, which
   reads back as the empty string (not as None); everything else reads back unchanged.  The empty
   string is hpc id 0 in the correspondence's encoding. *)
Definition rewrite_row (r : row) : row :=
  {| r_name := r_name r; r_rc := r_rc r; r_status := r_status r; r_exec := r_exec r; r_ctime := r_ctime r;
     r_hpc := match r_hpc r with None => Some 0%N | x => x end |}.
Definition clear_results (rows : list row) (rerun : list N) : list row :=
  map rewrite_row (filter (fun r => negb (memN (r_name r) rerun)) rows).

(* ---------- cluster ---------- *)
Inductive jstate := NOT_SUBMITTED | SUBMITTED | DONE.
Definition jstate_eqb (a b : jstate) : bool :=
  match a, b with NOT_SUBMITTED, NOT_SUBMITTED | SUBMITTED, SUBMITTED | DONE, DONE => true | _, _ => false end.
Record sjob := { s_name : N; s_state : jstate; s_blocked : list N }.

Record cluster := {
  c_submitter : option N;
  c_complete : bool;
  c_canceled : bool;                   (* set by cancel-jobs; HpcSubmitter.run submits nothing while it is set *)
  c_num : Z; c_submitted : Z; c_completed : Z;
  c_groups : list (N * N);             (* submission group name, parameters (opaque) *)
  c_jobs : list sjob }.

Definition set_submitter (s : option N) (c : cluster) : cluster :=
  {| c_submitter := s; c_complete := c_complete c; c_canceled := c_canceled c; c_num := c_num c; c_submitted := c_submitted c;
     c_completed := c_completed c; c_groups := c_groups c; c_jobs := c_jobs c |}.
Definition set_groups (g : list (N * N)) (c : cluster) : cluster :=
  {| c_submitter := c_submitter c; c_complete := c_complete c; c_canceled := c_canceled c; c_num := c_num c; c_submitted := c_submitted c;
     c_completed := c_completed c; c_groups := g; c_jobs := c_jobs c |}.

(* Cluster._promote_to_submitter *)
Definition promote (me : N) (c : cluster) : cluster * bool :=
  match c_submitter c with
  | Some _ => (c, false)
  | None => (set_submitter (Some me) c, true)
  end.
(* Cluster._demote_from_submitter: None = AssertionError (am_i_submitter) *)
Definition demote (me : N) (c : cluster) : option cluster :=
  match c_submitter c with
  | Some h => if N.eqb h me then Some (set_submitter None c) else None
  | None => None
  end.

Definition prep_job (rerun : list N) (d : list (N * list N)) (j : sjob) : sjob :=
  if memN (s_name j) rerun
  then {| s_name := s_name j; s_state := NOT_SUBMITTED; s_blocked := new_blockers d (s_name j) |}
  else j.
Definition counts_completed (rerun : list N) (j : sjob) : bool :=
  negb (memN (s_name j) rerun) && jstate_eqb (s_state j) DONE.
Definition counts_submitted (rerun : list N) (j : sjob) : bool :=
  negb (memN (s_name j) rerun) && negb (jstate_eqb (s_state j) NOT_SUBMITTED).

(* Cluster.prepare_for_resubmission; None = `assert self._config.is_complete`.
   The canceled flag is cleared (a resubmission is a request to run again).
   Counters come from the job table: submitted = jobs that are not rerun and not NOT_SUBMITTED,
   completed = jobs that are not rerun and DONE. *)
Definition prepare (c : cluster) (rerun : list N) (d : list (N * list N)) : option cluster :=
  if c_complete c then
    Some {| c_submitter := c_submitter c; c_complete := false; c_canceled := false; c_num := c_num c;
            c_submitted := Z.of_nat (length (filter (counts_submitted rerun) (c_jobs c)));
            c_completed := Z.of_nat (length (filter (counts_completed rerun) (c_jobs c)));
            c_groups := c_groups c;
            c_jobs := map (prep_job rerun d) (c_jobs c) |}
  else None.

(* the gate of HpcSubmitter.run: a submitter round hands batches to the HPC only if not canceled *)
Definition round_may_submit (c : cluster) : bool := negb (c_canceled c).

(* the jobs a submitter round may put into batches: HpcSubmitter._get_available_jobs iterates
   cluster.iter_jobs(state=NOT_SUBMITTED) (of every group in turn) *)
Definition offered (c : cluster) : list N :=
  map s_name (filter (fun j => jstate_eqb (s_state j) NOT_SUBMITTED) (c_jobs c)).

(* ---------- the command ---------- *)
Record world := {
  w_cluster : cluster;                 (* cluster_config.json + job_status.json *)
  w_rows : list row;                   (* processed_results.csv *)
  w_results : list row;                (* "results" of results.json *)
  w_config : list cjob;                (* config.json *)
  w_events : option (list N) }.        (* files of the events directory; None = no directory *)

Definition with_cluster (c : cluster) (w : world) : world :=
  {| w_cluster := c; w_rows := w_rows w; w_results := w_results w; w_config := w_config w; w_events := w_events w |}.

(* where an exception is injected (an I/O error, a version mismatch, ...) *)
Inductive fault := FNone | FSelect | FClosure | FReset | FPrepare | FEvents | FLoad | FSubmit.
Definition fault_eqb (a b : fault) : bool :=
  match a, b with
  | FNone, FNone | FSelect, FSelect | FClosure, FClosure | FReset, FReset | FPrepare, FPrepare
  | FEvents, FEvents | FLoad, FLoad | FSubmit, FSubmit => true
  | _, _ => false
  end.

Inductive outcome :=
| Exit (code : Z)                      (* sys.exit(code) *)
| Raised (where_ : fault)              (* the injected exception leaves the command *)
| AssertPromoted                       (* `assert promoted` *)
| AssertClosure                        (* the assertion inside _update_with_blocking_jobs *)
| AssertPrepare                        (* assert self._config.is_complete *)
| AssertDemote.                        (* assert self.am_i_submitter() *)

(* --submission-groups-file: the in-memory replacement loop.  Returns the groups after the loop and
   whether every group of the file was found. *)
Fixpoint replace_group (g : N * N) (groups : list (N * N)) : list (N * N) * bool :=
  match groups with
  | [] => ([], false)
  | x :: t => if N.eqb (fst x) (fst g) then (g :: t, true)
              else let (t', ok) := replace_group g t in (x :: t', ok)
  end.
Fixpoint replace_groups (file : list (N * N)) (groups : list (N * N)) : list (N * N) * bool :=
  match file with
  | [] => (groups, true)
  | g :: rest => let (groups', ok) := replace_group g groups in
                 if ok then replace_groups rest groups' else (groups', false)
  end.

Definition finish_demote (me : N) (w : world) (o : outcome) : outcome * world :=
  match demote me (w_cluster w) with
  | Some c => (o, with_cluster c w)
  | None => (AssertDemote, w)
  end.

(* `submit_status`: what the (not modelled here) JobSubmitter.submit_jobs returns: 0 = IN_PROGRESS
   maps to exit 0, otherwise status.value.  `sub` is its effect on the world. *)
Definition resubmit (me : N) (failed missing successful : bool) (groups_file : option (list (N * N)))
           (f : fault) (sub : world -> world) (status_exit : Z) (w : world) : outcome * world :=
  let (c1, promoted) := promote me (w_cluster w) in
  if negb (c_complete c1) then
    if promoted then finish_demote me (with_cluster c1 w) (Exit 1) else (Exit 1, w)
  else if negb promoted then (AssertPromoted, w)
  else
    let w1 := with_cluster c1 w in
    let go (w1 : world) :=
      if fault_eqb f FSelect then (Raised FSelect, w1) else
      let sel := selected failed missing successful (w_results w1) (map s_name (c_jobs (w_cluster w1))) in
      if fault_eqb f FClosure then (Raised FClosure, w1) else
      match closure (w_config w1) sel with
      | ClAssert _ _ _ => (AssertClosure, w1)
      | ClOk (rerun, d) =>
        if fault_eqb f FReset then (Raised FReset, w1) else
        let w2 := {| w_cluster := w_cluster w1; w_rows := clear_results (w_rows w1) rerun;
                     w_results := w_results w1; w_config := w_config w1; w_events := w_events w1 |} in
        if fault_eqb f FPrepare then (Raised FPrepare, w2) else
        match prepare (w_cluster w2) rerun d with
        | None => (AssertPrepare, w2)
        | Some c3 =>
          let w3 := with_cluster c3 w2 in
          if fault_eqb f FEvents then (Raised FEvents, w3) else
          let w4 := {| w_cluster := w_cluster w3; w_rows := w_rows w3; w_results := w_results w3;
                       w_config := w_config w3;
                       w_events := match w_events w3 with Some _ => Some [] | None => None end |} in
          if fault_eqb f FLoad then finish_demote me w4 (Raised FLoad) else
          if fault_eqb f FSubmit then finish_demote me (sub w4) (Raised FSubmit) else
          finish_demote me (sub w4) (Exit status_exit)
        end
      end in
    match groups_file with
    | None => go w1
    | Some file =>
      if negb (Nat.eqb (length file) (length (c_groups c1))) then finish_demote me w1 (Exit 1)
      else let (g', ok) := replace_groups file (c_groups c1) in
           let w1' := with_cluster (set_groups g' c1) w1 in
           if ok then go w1' else finish_demote me w1' (Exit 1)
    end.
