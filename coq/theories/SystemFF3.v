(* Fault-free runs, part 3: batches.  Every job of a batch is queued on its node, running there, or
   has a row; a batch that ended has a row for each of its jobs; once the holder of the submitter
   role has collected results, every batch it no longer tracks is completely in the consolidated
   results. *)
From Coq Require Import List ZArith NArith Bool Arith Lia Permutation.
From Jade Require Import Base System SystemMonitors SystemProofs SystemInv SystemOrder SystemLimits SystemHooks SystemLaunch SystemTheorems SystemFF1 SystemFF2.
Import ListNotations.
Open Scope N_scope.
Set Default Timeout 300.

Record FFc (sc : scenario) (s : state) : Prop := {
  c_hstate : forall h, In h (hpc s) -> h_state h <> HCancelled;
  c_node : forall n h, In n (nodes s) -> In h (hpc s) -> h_id h = n_id n -> forall j, In j (hnames h) ->
           In j (qnames n) \/ In j (n_running n) \/ In j (row_names (rows s));
  c_gone : forall h, In h (hpc s) -> h_state h = HGone -> forall j, In j (hnames h) -> In j (row_names (rows s));
  c_coll : forall r, holder s = Some r -> r_collected r = true ->
           forall h, In h (hpc s) -> ~ In (h_id h) (r_out r) -> forall j, In j (hnames h) -> In j (P s)
}.
Lemma ffc_init sc : FFc sc init.
Proof. constructor; cbn; intros; try discriminate; try contradiction. Qed.

Lemma in_names_filter (j j0 : N) (l : list (N * list N)) : In j (map fst l) -> j <> j0 ->
  In j (map fst (filter (fun jb => negb (N.eqb (fst jb) j0)) l)).
Proof.
  intros Hin Hne. apply in_map_iff in Hin. destruct Hin as ([a b] & E & Hin). cbn in E. subst a.
  apply in_map_iff. exists (j, b). split; [reflexivity|]. apply filter_In. split; [exact Hin|].
  cbn. apply negb_true_iff. apply N.eqb_neq. exact Hne.
Qed.
Lemma in_filter_ne (j j0 : N) (l : list N) : In j l -> j <> j0 -> In j (filter (fun x => negb (N.eqb x j0)) l).
Proof. intros Hin Hne. apply filter_In. split; [exact Hin|]. apply negb_true_iff. apply N.eqb_neq. exact Hne. Qed.
Lemma active_in l h : In h l -> h_active h = true -> In (h_id h) (act_ids l).
Proof. intros Hin Ha. unfold act_ids. apply in_map. apply filter_In. auto. Qed.
Lemma all_mem_rows_names l rs j : all_mem_rows l rs = true -> (exists rw, In rw l /\ rw_job rw = j) -> In j (row_names rs).
Proof.
  intros A (rw & Hin & E). apply all_mem_rows_incl in A. apply A in Hin. unfold row_names. apply in_map_iff. eauto.
Qed.

Section GroupC.
Variable sc : scenario.
Variables (s s' : state) (e : event).
Hypothesis H : step sc s e = Some s'.
Hypothesis Hff : ff_ev sc s e = true.
Hypothesis HI1 : Inv1 sc s.
Hypothesis HI3 : Inv3 sc s.
Hypothesis HI4 : Inv4 sc s.
Hypothesis HA : FFa sc s.
Hypothesis HK : rows_kept s.
Hypothesis HB : FFb sc s.
Hypothesis HI : FFc sc s.

Lemma c1 : forall h, In h (hpc s') -> h_state h <> HCancelled.
Proof.
  pose proof (c_hstate sc s HI) as O. pose proof (k_fresh sc s HI3) as FR.
  revert H Hff. intros H Hff. ffstart2 e H Hff FR. all: try basic.
  all: intros hx Hh.
  all: try (apply in_app_iff in Hh; destruct Hh as [Hh|[<-|[]]]; [apply O; exact Hh|cbn; discriminate]).
  all: try (apply set_h_In' in Hh; destruct Hh as (h1 & Hh1 & _ & _ & [Es|[_ Es]]); rewrite Es; [apply O; exact Hh1|discriminate]).
Qed.

Lemma c2 : forall n h, In n (nodes s') -> In h (hpc s') -> h_id h = n_id n -> forall j, In j (hnames h) ->
  In j (qnames n) \/ In j (n_running n) \/ In j (row_names (rows s')).
Proof.
  pose proof (c_node sc s HI) as O. pose proof (k_fresh sc s HI3) as FR. pose proof (k_hpc_nodup sc s HI3) as ND.
  pose proof (m_queue sc s HI4) as MQ.
  revert H Hff. intros H Hff. ffstart2 e H Hff FR. all: try basic.
  all: intros nx hx Hn Hh Eid jx Hj.
  all: repeat match goal with Fn : find_n _ _ = Some _ |- _ => apply find_n_In in Fn; destruct Fn as [Fn ?] end.
  all: lazymatch goal with EV := ?x |- _ =>
         lazymatch x with
         | ESubCancel _ _ =>
           destruct (O _ _ Hn Hh Eid _ Hj) as [A|[A|A]]; [left|right;left|right;right; rewrite row_names_app; apply in_app_iff; left]; exact A
         | ESbatch _ _ _ _ _ _ =>
           apply in_app_iff in Hh; destruct Hh as [Hh|[<-|[]]]; [exact (O _ _ Hn Hh Eid _ Hj)|];
           exfalso; destruct (MQ _ Hn) as (h1 & Hh1 & Ei1 & _); cbn [h_id] in Eid;
           match goal with Q : memN _ (map h_id (hpc s)) = false |- _ => apply memN_false in Q; apply Q end;
           rewrite Eid, <- Ei1; apply in_map; exact Hh1
         | EBatchStart _ =>
           apply set_h_In in Hh; destruct Hh as (h1 & Hh1 & Ei & Ej); unfold hnames in Hj; rewrite Ej in Hj; fold (hnames h1) in Hj; rewrite Ei in Eid;
           apply in_app_iff in Hn; destruct Hn as [Hn|[<-|[]]]; [exact (O _ _ Hn Hh1 Eid _ Hj)|];
           left; cbn [n_id] in Eid; unfold qnames; cbn [n_queue];
           match goal with Fh : find_h _ _ = Some ?h0 |- _ => apply find_h_In in Fh; destruct Fh as [Fh Fi];
             rewrite <- (hid_unique _ h1 h0 ND Hh1 Fh ltac:(congruence)) end; exact Hj
         | EBatchEnd _ =>
           apply dead_full in Hn; destruct Hn as (n1 & Hn1 & En & Eq & Er); unfold qnames; rewrite Eq, Er, En in *; fold (qnames n1);
           first [ exact (O _ _ Hn1 Hh Eid _ Hj)
                 | apply set_h_In in Hh; destruct Hh as (h1 & Hh1 & Ei & Ej); unfold hnames in Hj; rewrite Ej in Hj; fold (hnames h1) in Hj;
                   rewrite Ei in Eid; exact (O _ _ Hn1 Hh1 Eid _ Hj) ]
         | ELaunch _ ?j0 =>
           apply set_n_In' in Hn; destruct Hn as [->|[Hn _]]; [|exact (O _ _ Hn Hh Eid _ Hj)];
           cbn [n_id] in Eid; unfold qnames; cbn [n_queue n_running];
           match goal with Fn : In ?n0 (nodes s), En : n_id ?n0 = _ |- _ => rewrite <- En in Eid; destruct (O _ _ Fn Hh Eid _ Hj) as [A|[A|A]] end;
           [ destruct (N.eq_dec jx j0) as [->|Hne]; [right; left; apply in_app_iff; right; left; reflexivity|left; apply in_names_filter; assumption]
           | right; left; apply in_app_iff; left; exact A | right; right; exact A ]
         | EAppend _ ?rw =>
           apply set_n_In' in Hn; destruct Hn as [->|[Hn _]];
           [|destruct (O _ _ Hn Hh Eid _ Hj) as [A|[A|A]]; [left|right;left|right;right; rewrite row_names_app; apply in_app_iff; left]; exact A];
           cbn [n_id] in Eid; unfold qnames; cbn [n_queue n_running]; rewrite row_names_app; cbn [row_names map];
           match goal with Fn : In ?n0 (nodes s), En : n_id ?n0 = _ |- _ => rewrite <- En in Eid; destruct (O _ _ Fn Hh Eid _ Hj) as [A|[A|A]] end;
           [ first [ left; exact A
                   | destruct (N.eq_dec jx (rw_job rw)) as [->|Hne]; [right; right; apply in_app_iff; right; left; reflexivity|left; apply in_names_filter; assumption] ]
           | first [ right; left; exact A
                   | destruct (N.eq_dec jx (rw_job rw)) as [->|Hne]; [right; right; apply in_app_iff; right; left; reflexivity|right; left; apply in_filter_ne; assumption] ]
           | right; right; apply in_app_iff; left; exact A ]
         | _ =>
           apply set_n_In' in Hn; destruct Hn as [->|[Hn _]]; [|exact (O _ _ Hn Hh Eid _ Hj)];
           cbn [n_id] in Eid; unfold qnames; cbn [n_queue n_running]; rewrite ?map_fst_unblock;
           match goal with Fn : In ?n0 (nodes s), En : n_id ?n0 = _ |- _ => rewrite <- En in Eid; pose proof (O _ _ Fn Hh Eid _ Hj) as A end;
           unfold qnames in *; repeat match goal with E : n_queue _ = _ |- _ => rewrite E in * end;
           repeat match goal with E : n_running _ = _ |- _ => rewrite E in * end; exact A
         end
       end.
Qed.

Lemma c3 : forall h, In h (hpc s') -> h_state h = HGone -> forall j, In j (hnames h) -> In j (row_names (rows s')).
Proof.
  pose proof (c_gone sc s HI) as O. pose proof (k_fresh sc s HI3) as FR. pose proof (k_hpc_nodup sc s HI3) as ND.
  pose proof (c_node sc s HI) as CN. pose proof (c_hstate sc s HI) as HS.
  revert H Hff. intros H Hff. ffstart2 e H Hff FR. all: try basic.
  all: intros hx Hh Eg jx Hj.
  all: repeat match goal with Fn : find_n _ _ = Some _ |- _ => apply find_n_In in Fn; destruct Fn as [Fn ?] end.
  all: try (rewrite row_names_app; apply in_app_iff; left; eapply O; eauto; fail).
  all: lazymatch goal with EV := ?x |- _ =>
         lazymatch x with
         | ESbatch _ _ _ _ _ _ => apply in_app_iff in Hh; destruct Hh as [Hh|[<-|[]]]; [eapply O; eauto|discriminate Eg]
         | EBatchStart _ =>
           apply set_h_In' in Hh; destruct Hh as (h1 & Hh1 & Ei & Ej & [Es|[_ Es]]); [|congruence];
           unfold hnames in Hj; rewrite Ej in Hj; eapply O; [exact Hh1|congruence|exact Hj]
         | EBatchEnd _ =>
           apply set_h_In' in Hh; destruct Hh as (h1 & Hh1 & Ei & Ej & [Es|[Ei1 Es]]);
           unfold hnames in Hj; rewrite Ej in Hj; fold (hnames h1) in Hj;
           [eapply O; [exact Hh1|congruence|exact Hj]|];
           match type of Hff with context [find_n ?i ?l] => destruct (find_n i l) as [n1|] eqn:Fn1; [|discriminate Hff] end;
           apply find_n_In in Fn1; destruct Fn1 as [Fn1 En1];
           apply andb_true_iff in Hff; destruct Hff as [Q1 Q2];
           destruct (CN n1 h1 Fn1 Hh1 ltac:(congruence) _ Hj) as [A|[A|A]];
           [ unfold qnames in A; destruct (n_queue n1); [contradiction|discriminate Q1]
           | destruct (n_running n1); [contradiction|discriminate Q2]
           | exact A ]
         end
       end.
Qed.

Lemma c4 : forall r, holder s' = Some r -> r_collected r = true ->
  forall h, In h (hpc s') -> ~ In (h_id h) (r_out r) -> forall j, In j (hnames h) -> In j (P s').
Proof.
  pose proof (c_coll sc s HI) as O. pose proof (k_fresh sc s HI3) as FR.
  pose proof (c_gone sc s HI) as CG. pose proof (c_hstate sc s HI) as HS. pose proof (k_active_free sc s HI3) as AF.
  pose proof (k_hpc_nodup sc s HI3) as ND.
  unfold believed in AF.
  revert H Hff. intros H Hff. ffstart2 e H Hff FR. all: try basic.
  all: lazymatch goal with EV := ?x |- _ =>
         lazymatch x with
         | ECollect _ _ =>
           intros Hc hx Hh Hni jx Hj;
           try match goal with E : r_out _ = _ |- _ => rewrite E in * end;
           assert (Hin : h_active hx = false) by
             (destruct (h_active hx) eqn:Ea; [exfalso; apply Hni; apply AF; [assumption|]; apply active_in; assumption|reflexivity]);
           unfold h_active in Hin; destruct (h_state hx) eqn:Es; try discriminate Hin; [|exfalso; exact (HS _ Hh Es)];
           rewrite row_names_app; apply in_app_iff;
           destruct (rows_where s _ HK (CG _ Hh Es _ Hj)) as [(rw0 & Hp & Ej)|Hp]; [|left; exact Hp];
           rewrite forallb_forall in Hff; specialize (Hff _ Hp); apply orb_true_iff in Hff; destruct Hff as [Hm|Ht];
           [ right; apply mem_row_In in Hm; unfold row_names; apply in_map_iff; eauto |];
           exfalso; unfold tracked in Ht; apply existsb_exists in Ht; destruct Ht as (h2 & Hh2 & Ht);
           apply andb_true_iff in Ht; destruct Ht as [Ht1 Ht2]; apply memN_In in Ht1; apply memN_In in Ht2; rewrite Ej in Ht2;
           assert (Hne : h_id hx <> h_id h2) by (intros Eq; apply Hni; rewrite Eq; sescbn; first [assumption | match goal with E : r_out _ = _ |- _ => rewrite <- E; assumption end]);
           pose proof (i_nodup_handed sc s HI1) as NH; rewrite (m_handed sc s HI4) in NH;
           exact (nodup_flat_map_disjoint _ hx h2 jx NH ND Hh Hh2 Hne Hj Ht2)
         | ESubCancel _ _ => intros Hc hx Hh Hni jx Hj; rewrite row_names_app; apply in_app_iff; left; eapply O; eauto
         | EMarkerTouch _ => intros Hc hx Hh Hni jx Hj; repeat match goal with E : r_out _ = _ |- _ => rewrite E in * end; eapply O; eauto
         | ESbatch _ _ _ _ _ _ =>
           intros Hc hx Hh Hni jx Hj;
           apply in_app_iff in Hh; destruct Hh as [Hh|[<-|[]]];
           [eapply O; eauto; intros Hx; apply Hni; apply in_app_iff; left; exact Hx
           |exfalso; apply Hni; apply in_app_iff; right; left; reflexivity]
         | _ =>
           intros Eh Hc hx Hh Hni jx Hj;
           apply set_h_In in Hh; destruct Hh as (h1 & Hh1 & Ei & Ej); unfold hnames in Hj; rewrite Ej in Hj; rewrite Ei in Hni;
           eapply O; eauto
         end
       end.
Qed.

Lemma ffc_step_lemma : FFc sc s'.
Proof. constructor; [apply c1|apply c2|apply c3|apply c4]. Qed.
End GroupC.

Lemma ffc_step sc s e s' : step sc s e = Some s' -> ff_ev sc s e = true -> Inv1 sc s -> Inv3 sc s -> Inv4 sc s ->
  FFa sc s -> rows_kept s -> FFb sc s -> FFc sc s -> FFc sc s'.
Proof. intros. eapply ffc_step_lemma; eauto. Qed.
