(* Round trip of the csv model: the reader returns exactly the fields the writer was given, for
   every list of fields over the full byte alphabet except CR / LF (which CPython 3.12's writer
   with lineterminator="" leaves unquoted, so that they would split the physical line). *)
From Coq Require Import String Ascii List Bool NArith Lia.
From Jade Require Import Base Csv.
Import ListNotations.
Open Scope list_scope.

Definition delim_ok (d : ascii) : Prop := Ascii.eqb d dq = false /\ is_crlf d = false.

Definition field_ok (f : list ascii) : Prop := forall c, In c f -> is_crlf c = false.

Lemma dq_not_crlf : is_crlf dq = false.
Proof. reflexivity. Qed.

(* plain characters inside an unquoted field *)
Lemma in_field_plain d cur acc f tail :
  (forall c, In c f -> is_crlf c = false /\ Ascii.eqb c d = false) ->
  parse_aux d InField cur acc (f ++ tail) = parse_aux d InField (rev f ++ cur) acc tail.
Proof.
  revert cur. induction f as [|c f IH]; intros cur H; cbn [app rev parse_aux].
  - reflexivity.
  - destruct (H c (or_introl eq_refl)) as [H1 H2]. rewrite H1, H2.
    rewrite IH by (intros x Hx; apply H; right; exact Hx).
    rewrite <- app_assoc. reflexivity.
Qed.

(* the body of a quoted field up to and including the closing quote *)
Lemma in_quoted_body d cur acc f tail :
  parse_aux d InQuoted cur acc (double_quotes f ++ dq :: tail)
  = parse_aux d QuoteInQuoted (rev f ++ cur) acc tail.
Proof.
  revert cur. induction f as [|c f IH]; intros cur; cbn [double_quotes app rev parse_aux].
  - rewrite Ascii.eqb_refl. reflexivity.
  - destruct (Ascii.eqb c dq) eqn:E.
    + apply Ascii.eqb_eq in E. subst c. cbn [app parse_aux]. change (Ascii.eqb dq dq) with true.
      cbv iota. rewrite IH. rewrite <- app_assoc. reflexivity.
    + cbn [app parse_aux]. rewrite E. rewrite IH. rewrite <- app_assoc. reflexivity.
Qed.

(* what the reader does after a complete field: end of line, or a delimiter and more *)
Definition continue_with (d : ascii) (f : list ascii) (acc : list (list ascii)) (tail : list ascii) :=
  match tail with
  | [] => Some (rev (f :: acc))
  | _ :: r => parse_aux d StartField [] (f :: acc) r
  end.

Lemma needs_quote_false d f :
  needs_quote d f = false -> forall c, In c f -> Ascii.eqb c d = false /\ Ascii.eqb c dq = false.
Proof.
  unfold needs_quote. intros H c Hc.
  destruct (Ascii.eqb c d) eqn:E1; destruct (Ascii.eqb c dq) eqn:E2; try (split; reflexivity);
    exfalso; assert (X : existsb (fun c => Ascii.eqb c d || Ascii.eqb c dq) f = true)
      by (apply existsb_exists; exists c; split; [exact Hc|rewrite E1, E2; reflexivity]);
    congruence.
Qed.

Lemma one_field d f acc tail :
  delim_ok d -> field_ok f -> (tail = [] \/ exists r, tail = d :: r) ->
  parse_aux d StartField [] acc (format_field d f ++ tail) = continue_with d f acc tail.
Proof.
  intros [Hd1 Hd2] Hf Ht. unfold format_field. destruct (needs_quote d f) eqn:Q.
  - cbn [app parse_aux]. rewrite dq_not_crlf, Ascii.eqb_refl.
    rewrite <- app_assoc. cbn [app]. rewrite in_quoted_body. rewrite app_nil_r.
    destruct Ht as [->|[r ->]]; cbn [parse_aux continue_with].
    + rewrite rev_involutive. reflexivity.
    + rewrite Hd1, Ascii.eqb_refl, rev_involutive. reflexivity.
  - pose proof (needs_quote_false d f Q) as Hq.
    destruct f as [|c f].
    + cbn [app]. destruct Ht as [->|[r ->]]; cbn [parse_aux continue_with].
      * reflexivity.
      * rewrite Hd2, Hd1, Ascii.eqb_refl. reflexivity.
    + cbn [app parse_aux]. rewrite (Hf c (or_introl eq_refl)).
      destruct (Hq c (or_introl eq_refl)) as [H1 H2]. rewrite H2, H1.
      rewrite in_field_plain.
      2:{ intros x Hx. split; [apply Hf; right; exact Hx|apply (Hq x); right; exact Hx]. }
      destruct Ht as [->|[r ->]]; cbn [parse_aux continue_with].
      * rewrite rev_app_distr, rev_involutive. reflexivity.
      * rewrite Hd2, Ascii.eqb_refl. rewrite rev_app_distr, rev_involutive. reflexivity.
Qed.

Lemma all_fields d fs acc :
  delim_ok d -> Forall field_ok fs -> fs <> [] ->
  parse_aux d StartField [] acc (join_fields d (map (format_field d) fs)) = Some (rev acc ++ fs).
Proof.
  intros Hd Hfs. revert acc. induction Hfs as [|f fs Hf Hfs IH]; intros acc Hne; [congruence|].
  destruct fs as [|g fs].
  - cbn [map join_fields]. rewrite <- (app_nil_r (format_field d f)).
    rewrite one_field by (auto). cbn [continue_with rev]. reflexivity.
  - change (join_fields d (map (format_field d) (f :: g :: fs)))
      with (format_field d f ++ d :: join_fields d (map (format_field d) (g :: fs))).
    rewrite one_field by (auto; right; eexists; reflexivity).
    cbn [continue_with]. rewrite IH by discriminate. cbn [rev]. rewrite <- app_assoc. reflexivity.
Qed.

Lemma join_nonempty d fs :
  fs <> [] -> fs <> [ [] ] -> join_fields d (map (format_field d) fs) <> [].
Proof.
  intros H1 H2. destruct fs as [|f fs]; [congruence|]. destruct fs as [|g fs].
  - cbn. unfold format_field. destruct (needs_quote d f); [discriminate|].
    intros ->. apply H2. reflexivity.
  - change (join_fields d (map (format_field d) (f :: g :: fs)))
      with (format_field d f ++ d :: join_fields d (map (format_field d) (g :: fs))).
    intros H. apply app_eq_nil in H. destruct H as [_ H]. discriminate.
Qed.

Theorem parse_format_fields d fs :
  delim_ok d -> Forall field_ok fs -> parse_fields d (format_fields d fs) = Some fs.
Proof.
  intros Hd Hfs.
  destruct fs as [|f fs]; [reflexivity|].
  destruct f as [|c f]; destruct fs as [|g fs].
  - (* the record of one empty field *) reflexivity.
  - unfold format_fields, parse_fields.
    pose proof (join_nonempty d ([] :: g :: fs)) as N.
    destruct (join_fields d (map (format_field d) ([] :: g :: fs))) eqn:E.
    + exfalso. apply N; congruence.
    + rewrite <- E. rewrite all_fields by (auto; discriminate). reflexivity.
  - unfold format_fields, parse_fields.
    pose proof (join_nonempty d [c :: f]) as N.
    destruct (join_fields d (map (format_field d) [c :: f])) eqn:E.
    + exfalso. apply N; congruence.
    + rewrite <- E. rewrite all_fields by (auto; discriminate). reflexivity.
  - unfold format_fields, parse_fields.
    pose proof (join_nonempty d ((c :: f) :: g :: fs)) as N.
    destruct (join_fields d (map (format_field d) ((c :: f) :: g :: fs))) eqn:E.
    + exfalso. apply N; congruence.
    + rewrite <- E. rewrite all_fields by (auto; discriminate). reflexivity.
Qed.

Lemma map_of_chars_chars l : map of_chars (map chars l) = l.
Proof. induction l as [|a l IH]; cbn; [reflexivity|]. rewrite of_chars_chars, IH. reflexivity. Qed.

(* the string-level statement used by the results-file model *)
Theorem parse_format_line d fs :
  delim_ok d -> Forall no_crlf fs -> parse_line d (format_line d fs) = Some fs.
Proof.
  intros Hd Hfs. unfold parse_line, format_line. rewrite chars_of_chars.
  rewrite parse_format_fields.
  - cbn. rewrite map_of_chars_chars. reflexivity.
  - exact Hd.
  - induction Hfs as [|s l Hs Hl IH]; constructor; [exact Hs|exact IH].
Qed.

Lemma no_crlfb_spec s : no_crlfb s = true <-> no_crlf s.
Proof.
  unfold no_crlfb, no_crlf. rewrite forallb_forall. split; intros H c Hc.
  - apply negb_true_iff. apply H. exact Hc.
  - apply negb_true_iff. apply H. exact Hc.
Qed.

(* a formatted record never contains CR/LF either: it occupies exactly one physical line *)
Lemma format_fields_no_crlf d fs c :
  delim_ok d -> Forall field_ok fs -> In c (format_fields d fs) -> is_crlf c = false.
Proof.
  intros [Hd1 Hd2] Hfs.
  assert (Hfield : forall f, field_ok f -> forall x, In x (format_field d f) -> is_crlf x = false).
  { intros f Hf x. unfold format_field. destruct (needs_quote d f); [|apply Hf].
    intros Hx. destruct Hx as [<-|Hx]; [reflexivity|]. apply in_app_or in Hx. destruct Hx as [Hx|[<-|[]]]; [|reflexivity].
    clear -Hx Hf. induction f as [|a f IH]; [destruct Hx|].
    revert Hx; cbn [double_quotes]; destruct (Ascii.eqb a dq); intros Hx.
    - destruct Hx as [<-|[<-|Hx]]; [reflexivity|reflexivity|]. apply IH; [|exact Hx]. intros y Hy. apply Hf. right. exact Hy.
    - destruct Hx as [<-|Hx]; [apply Hf; left; reflexivity|]. apply IH; [|exact Hx]. intros y Hy. apply Hf. right. exact Hy. }
  assert (Hjoin : forall l, Forall field_ok l -> forall x, In x (join_fields d (map (format_field d) l)) -> is_crlf x = false).
  { intros l Hl. induction Hl as [|f l Hf Hl IH]; intros x Hx; [destruct Hx|].
    destruct l as [|g l].
    - cbn in Hx. apply (Hfield f Hf). exact Hx.
    - change (join_fields d (map (format_field d) (f :: g :: l)))
        with (format_field d f ++ d :: join_fields d (map (format_field d) (g :: l))) in Hx.
      apply in_app_or in Hx. destruct Hx as [Hx|[<-|Hx]]; [apply (Hfield f Hf); exact Hx|exact Hd2|apply IH; exact Hx]. }
  unfold format_fields. destruct fs as [|f fs]; [intros []|].
  destruct f; destruct fs; try (apply Hjoin; exact Hfs).
  cbn. intros [<-|[<-|[]]]; reflexivity.
Qed.
