(* C01, third part: no job is started twice - derived from the structure of the model (a node's queue
   is a duplicate-free part of its batch, batches are disjoint, a launch removes the job from the
   queue), not demanded by a guard of the acceptor. *)
From Coq Require Import List ZArith NArith Bool Arith Lia.
From Jade Require Import Base System SystemMonitors SystemProofs SystemInv SystemOrder SystemLimits SystemHooks.
Import ListNotations.
Open Scope N_scope.
Set Default Timeout 300.

Definition hnames (h : hentry) : list N := map fst (h_jobs h).
Definition qnames (n : node) : list N := map fst (n_queue n).

Record Inv4 (sc : scenario) (s : state) : Prop := {
  m_handed : handed s = flat_map hnames (hpc s);
  m_nids : NoDup (map n_id (nodes s));
  m_queue : forall n, In n (nodes s) -> exists h, In h (hpc s) /\ h_id h = n_id n /\ h_state h <> HPending /\
            incl (qnames n) (hnames h) /\ NoDup (qnames n);
  m_queue_fresh : forall n j, In n (nodes s) -> In j (qnames n) -> ~ In j (launched s);
  m_pending_fresh : forall h j, In h (hpc s) -> h_state h = HPending -> In j (hnames h) -> ~ In j (launched s);
  m_launched_handed : incl (launched s) (handed s);
  m_launched : NoDup (launched s)
}.
Lemma inv4_init sc : Inv4 sc init.
Proof. constructor; cbn; intros; try contradiction; auto; try constructor; intros ? []. Qed.

Lemma flat_map_set_h id x l : flat_map hnames (set_h id x l) = flat_map hnames l.
Proof.
  unfold set_h. induction l as [|h t IH]; cbn; [reflexivity|]. rewrite IH. f_equal.
  destruct (N.eqb (h_id h) id); reflexivity.
Qed.
Lemma nodup_flat_map_disjoint (l : list hentry) h1 h2 j : NoDup (flat_map hnames l) -> NoDup (map h_id l) ->
  In h1 l -> In h2 l -> h_id h1 <> h_id h2 -> In j (hnames h1) -> In j (hnames h2) -> False.
Proof.
  induction l as [|x t IH]; cbn; [contradiction|]. intros Hnd Hid H1 H2 Hne J1 J2.
  apply NoDup_app_iff in Hnd. destruct Hnd as (Hx & Ht & Hd). apply NoDup_cons_iff in Hid. destruct Hid as [_ Hid].
  destruct H1 as [<-|H1], H2 as [<-|H2].
  - congruence.
  - apply (Hd j J1). apply in_flat_map. eauto.
  - apply (Hd j J2). apply in_flat_map. eauto.
  - eapply IH; eauto.
Qed.
Lemma nodup_flat_map_part (l : list hentry) h : NoDup (flat_map hnames l) -> In h l -> NoDup (hnames h).
Proof.
  induction l as [|x t IH]; cbn; [contradiction|]. intros Hnd [<-|Hin]; apply NoDup_app_iff in Hnd; destruct Hnd as (Hx & Ht & _); auto.
Qed.
Lemma set_h_In' id x l h' : In h' (set_h id x l) ->
  exists h, In h l /\ h_id h' = h_id h /\ h_jobs h' = h_jobs h /\ (h_state h' = h_state h \/ (h_id h = id /\ h_state h' = x)).
Proof.
  unfold set_h. rewrite in_map_iff. intros (h & E & Hin). exists h. split; [exact Hin|].
  destruct (N.eqb (h_id h) id) eqn:Eq; subst; cbn; auto. apply N.eqb_eq in Eq. auto.
Qed.
Lemma set_h_has id x l h : In h l -> exists h', In h' (set_h id x l) /\ h_id h' = h_id h /\ h_jobs h' = h_jobs h /\
  (h_state h' = h_state h \/ (h_id h = id /\ h_state h' = x)).
Proof.
  intros Hin. unfold set_h. eexists. split; [apply (in_map _ _ _ Hin)|]. cbv beta.
  destruct (N.eqb (h_id h) id) eqn:Eq; cbn; auto. apply N.eqb_eq in Eq. auto.
Qed.

Lemma nodup_map_filter {A} (f : A * list N -> bool) (l : list (A * list N)) :
  NoDup (map fst l) -> NoDup (map fst (filter f l)).
Proof.
  induction l as [|x t IH]; cbn; [auto|]. intros Hnd. apply NoDup_cons_iff in Hnd. destruct Hnd as [Hx Ht].
  destruct (f x); cbn; [|auto]. constructor; [|auto]. intros Hin. apply Hx.
  apply in_map_iff in Hin. destruct Hin as (y & E & Hy). apply filter_In in Hy. rewrite <- E. apply in_map. tauto.
Qed.
Lemma incl_map_filter {A B} (g : A -> B) (f : A -> bool) l : incl (map g (filter f l)) (map g l).
Proof. intros x Hx. apply in_map_iff in Hx. destruct Hx as (y & <- & Hy). apply filter_In in Hy. apply in_map. tauto. Qed.
Lemma map_fst_unblock (j d : N) (l : list (N * list N)) :
  map fst (map (fun jb => if N.eqb (fst jb) j then (j, filter (fun x => negb (N.eqb x d)) (snd jb)) else jb) l) = map fst l.
Proof.
  rewrite map_map. apply map_ext. intros [a b]. cbn. destruct (N.eqb a j) eqn:E; [apply N.eqb_eq in E; subst; reflexivity|reflexivity].
Qed.
Lemma dead_In_all id l n' :
  In n' (map (fun n => if N.eqb (n_id n) id
                       then {| n_id := id; n_alive := false; n_queue := n_queue n; n_running := n_running n;
                               n_depth := n_depth n; n_setup := n_setup n; n_teardown := n_teardown n; n_started := n_started n |}
                       else n) l) ->
  exists n, In n l /\ n_id n' = n_id n /\ n_queue n' = n_queue n.
Proof.
  rewrite in_map_iff. intros (n & E & Hin). exists n. split; [exact Hin|].
  destruct (N.eqb (n_id n) id) eqn:Eq; subst; cbn; auto. apply N.eqb_eq in Eq. auto.
Qed.
Lemma set_h_has' id x l h : In h l -> exists h', In h' (set_h id x l) /\ h_id h' = h_id h /\ h_jobs h' = h_jobs h /\
  h_state h' = (if N.eqb (h_id h) id then x else h_state h).
Proof.
  intros Hin. unfold set_h. eexists. split; [apply (in_map _ _ _ Hin)|]. cbv beta.
  destruct (N.eqb (h_id h) id) eqn:Eq; cbn; auto.
Qed.

Lemma hid_unique (l : list hentry) a b : NoDup (map h_id l) -> In a l -> In b l -> h_id a = h_id b -> a = b.
Proof.
  induction l as [|x t IH]; cbn; [contradiction|]. intros Hnd Ha Hb E. apply NoDup_cons_iff in Hnd. destruct Hnd as [Hx Ht].
  destruct Ha as [<-|Ha], Hb as [<-|Hb]; auto.
  - exfalso. apply Hx. rewrite E. apply in_map. exact Hb.
  - exfalso. apply Hx. rewrite <- E. apply in_map. exact Ha.
Qed.

Section Group4.
Variable sc : scenario.
Variables (s s' : state) (e : event).
Hypothesis H : step sc s e = Some s'.
Hypothesis HI1 : Inv1 sc s.
Hypothesis HI3 : Inv3 sc s.
Hypothesis HI : Inv4 sc s.

Lemma u_handed : handed s' = flat_map hnames (hpc s').
Proof.
  pose proof (m_handed sc s HI) as O. revert H. intros H. prep e H. all: hlit. all: rewrite ?flat_map_set_h. all: try basic.
  all: rewrite flat_map_app; cbn [flat_map]; rewrite app_nil_r; unfold hnames at 2; cbn [h_jobs]; congruence.
Qed.

Lemma u_nids : NoDup (map n_id (nodes s')).
Proof.
  pose proof (m_nids sc s HI) as O. revert H. intros H. prep e H. all: hlit. all: try basic.
  all: try (match goal with Fnone : find_n _ _ = None |- _ => pose proof (find_n_none _ _ Fnone) as NN end).
  all: first [ rewrite set_n_ids; [exact O|auto] | rewrite dead_map_ids; exact O
             | rewrite map_app; apply NoDup_app_iff; repeat split; [exact O|repeat constructor; intros []|];
               intros i Hi [<-|[]]; apply in_map_iff in Hi; destruct Hi as (m & Em & Hm); exact (NN m Hm Em) ].
Qed.

Lemma u_queue : forall n, In n (nodes s') -> exists h, In h (hpc s') /\ h_id h = n_id n /\ h_state h <> HPending /\
  incl (qnames n) (hnames h) /\ NoDup (qnames n).
Proof.
  pose proof (m_queue sc s HI) as O. pose proof (i_nodup_handed sc s HI1) as NH. rewrite (m_handed sc s HI) in NH.
  pose proof (k_hpc_nodup sc s HI3) as ND.
  revert H. intros H. prep e H. all: hlit. all: try basic.
  all: try (match goal with Fn : find_n _ _ = Some _ |- _ => apply find_n_In in Fn; destruct Fn as [Fn Fid] end).
  all: try (match goal with Fh : find_h _ _ = Some _ |- _ => pose proof (find_h_unique _ _ _ ND Fh) as FU; apply find_h_In in Fh; destruct Fh as [Fh Fhid] end).
  all: lazymatch goal with EV := ?x |- _ =>
    lazymatch x with
    | ESbatch _ _ _ _ _ _ =>
      intros n0 Hn; destruct (O n0 Hn) as (hx & Hh & A & B & C & D); exists hx; split; [apply in_app_iff; left; exact Hh|auto]
    | EScancel _ ?id =>
      intros nq Hn; apply dead_In_all in Hn; destruct Hn as (n1 & Hn1 & E1 & E2);
      destruct (O n1 Hn1) as (hx & Hh & A & B & C & D);
      first [ destruct (set_h_has id HCancelled _ hx Hh) as (h' & Hh' & I1 & I2 & I3); exists h'; split; [exact Hh'|];
              unfold qnames, hnames in *; rewrite E1, E2, I1, I2; repeat split; auto; destruct I3 as [I3|[_ I3]]; rewrite I3; [exact B|discriminate]
            | solve [exists hx; unfold qnames in *; rewrite E1, E2; auto] ]
    | EBatchEnd ?id =>
      intros nq Hn; apply dead_In_all in Hn; destruct Hn as (n1 & Hn1 & E1 & E2);
      destruct (O n1 Hn1) as (hx & Hh & A & B & C & D);
      first [ destruct (set_h_has id HGone _ hx Hh) as (h' & Hh' & I1 & I2 & I3); exists h'; split; [exact Hh'|];
              unfold qnames, hnames in *; rewrite E1, E2, I1, I2; repeat split; auto; destruct I3 as [I3|[_ I3]]; rewrite I3; [exact B|discriminate]
            | solve [exists hx; unfold qnames in *; rewrite E1, E2; auto] ]
    | EBatchStart ?id =>
      intros nq Hn; apply in_app_iff in Hn; destruct Hn as [Hn|[<-|[]]];
      [ destruct (O nq Hn) as (h0 & Hh & A & B & C & D);
        destruct (set_h_has id HRunning _ h0 Hh) as (h' & Hh' & I1 & I2 & I3); exists h'; split; [exact Hh'|];
        unfold hnames in *; rewrite I1, I2; repeat split; auto; destruct I3 as [I3|[_ I3]]; rewrite I3; [exact B|discriminate]
      | match goal with Fh : In ?h0 (hpc s), Fhid : h_id ?h0 = id |- _ =>
          destruct (set_h_has' id HRunning _ h0 Fh) as (h' & Hh' & I1 & I2 & I3); exists h'; split; [exact Hh'|];
          rewrite Fhid, N.eqb_refl in I3;
          unfold qnames, hnames in *; cbn [n_id n_queue]; rewrite I1, I2, I3; repeat split;
          [ exact Fhid | discriminate | apply incl_refl | exact (nodup_flat_map_part _ _ NH Fh) ] end ]
    | _ =>
      (* set_n cases *)
      intros nq Hn; apply set_n_In' in Hn; destruct Hn as [->|[Hn _]]; [|exact (O nq Hn)];
      match goal with Fn : In ?n0 (nodes s), Fid : n_id ?n0 = _ |- _ =>
        destruct (O n0 Fn) as (hx & Hh & A & B & C & D); exists hx; split; [exact Hh|]; unfold qnames in *; cbn [n_id n_queue]; repeat match goal with E : n_queue _ = _ |- _ => rewrite E in * end;
        split; [congruence|]; split; [exact B|]; rewrite ?map_fst_unblock;
        first [ split; [exact C|exact D]
              | split; [eapply incl_tran; [apply incl_map_filter|exact C]|apply nodup_map_filter; exact D] ] end
    end end.
Qed.

Lemma u_launched_handed : incl (launched s') (handed s').
Proof.
  pose proof (m_launched_handed sc s HI) as O. pose proof (m_queue sc s HI) as Q. pose proof (m_handed sc s HI) as MH.
  revert H. intros H. prep e H. all: hlit. all: try basic.
  all: try (apply incl_appl; exact O).
  (* launch *)
  all: match goal with Fn : find_n _ _ = Some _ |- _ => apply find_n_In in Fn; destruct Fn as [Fn Fid] end.
  all: match goal with L : lookup _ _ = Some _ |- _ => apply lookup_In in L end.
  all: apply incl_app; [exact O|]; intros x [<-|[]]; rewrite MH;
    match goal with Fn : In ?n0 (nodes s), L : In (_, _) (n_queue ?n0) |- _ =>
      destruct (Q n0 Fn) as (hx & Hh & _ & _ & C & _); apply in_flat_map; exists hx; split; [exact Hh|]; apply C;
      unfold qnames; apply in_map_iff; eexists; split; [|exact L]; reflexivity end.
Qed.

Lemma u_launched : NoDup (launched s').
Proof.
  pose proof (m_launched sc s HI) as O. pose proof (m_queue_fresh sc s HI) as QF.
  revert H. intros H. prep e H. all: hlit. all: try basic.
  all: match goal with Fn : find_n _ _ = Some _ |- _ => apply find_n_In in Fn; destruct Fn as [Fn Fid] end.
  all: match goal with L : lookup _ _ = Some _ |- _ => apply lookup_In in L end.
  all: apply NoDup_app_iff; split; [exact O|]; split; [apply NoDup_cons; [intros []|apply NoDup_nil]|];
    intros x Hx [<-|[]];
    match goal with Fn : In ?n0 (nodes s), L : In (?j0, _) (n_queue ?n0) |- _ =>
      refine (QF n0 j0 Fn _ Hx); unfold qnames; apply in_map_iff; eexists; split; [|exact L]; reflexivity end.
Qed.

Lemma u_pending_fresh : forall h j, In h (hpc s') -> h_state h = HPending -> In j (hnames h) -> ~ In j (launched s').
Proof.
  pose proof (m_pending_fresh sc s HI) as O. pose proof (m_queue sc s HI) as Q. pose proof (m_launched_handed sc s HI) as LH.
  pose proof (k_hpc_nodup sc s HI3) as ND.
  pose proof (i_nodup_handed sc s HI1) as NH0. pose proof NH0 as NH. rewrite (m_handed sc s HI) in NH.
  assert (NH' : NoDup (handed s')) by (apply (i_nodup_handed sc s'); eapply inv1_step; eauto).
  revert H NH'. intros H NH'. prep e H. all: hlit. all: try basic.
  all: try (match goal with Fn : find_n _ _ = Some _ |- _ => apply find_n_In in Fn; destruct Fn as [Fn Fid] end).
  all: lazymatch goal with EV := ?x |- _ =>
    lazymatch x with
    | ESbatch _ _ _ _ _ _ =>
      intros hq jq Hh Hp Hj; apply in_app_iff in Hh; destruct Hh as [Hh|[<-|[]]]; [exact (O hq jq Hh Hp Hj)|];
      unfold hnames in Hj; cbn [h_jobs] in Hj; intros Hl; apply LH in Hl;
      cbn [handed] in NH'; apply NoDup_app_iff in NH'; destruct NH' as (_ & _ & Dj); exact (Dj jq Hl Hj)
    | ELaunch _ ?j0 =>
      intros hq jq Hh Hp Hj Hl; apply in_app_iff in Hl; destruct Hl as [Hl|[<-|[]]]; [exact (O hq jq Hh Hp Hj Hl)|];
      match goal with L : lookup _ _ = Some _ |- _ => apply lookup_In in L end;
      match goal with Fn : In ?n0 (nodes s), L : In (_, _) (n_queue ?n0) |- _ =>
        destruct (Q n0 Fn) as (hx & Hhx & A & B & C & _);
        assert (J0 : In j0 (hnames hx)) by (apply C; unfold qnames; apply in_map_iff; eexists; split; [|exact L]; reflexivity);
        apply (nodup_flat_map_disjoint _ hq hx j0 NH ND Hh Hhx); [|exact Hj|exact J0];
        intros Eid; rewrite (hid_unique _ _ _ ND Hh Hhx Eid) in Hp; contradiction end
    | _ =>
      intros hq jq Hh Hp Hj; apply set_h_In' in Hh; destruct Hh as (h1 & Hh1 & _ & Ej & [Es|[_ Es]]);
      [ unfold hnames in *; rewrite Ej in Hj; rewrite Es in Hp; exact (O h1 jq Hh1 Hp Hj) | rewrite Es in Hp; discriminate ]
    end end.
Qed.

Lemma u_queue_fresh : forall n j, In n (nodes s') -> In j (qnames n) -> ~ In j (launched s').
Proof.
  pose proof (m_queue_fresh sc s HI) as O. pose proof (m_pending_fresh sc s HI) as PF. pose proof (m_queue sc s HI) as Q.
  pose proof (k_hpc_nodup sc s HI3) as ND. pose proof (m_nids sc s HI) as NI.
  pose proof (i_nodup_handed sc s HI1) as NH. rewrite (m_handed sc s HI) in NH.
  revert H. intros H. prep e H. all: hlit. all: try basic.
  all: try (match goal with Fn : find_n _ _ = Some _ |- _ => apply find_n_In in Fn; destruct Fn as [Fn Fid] end).
  all: try (match goal with Fh : find_h _ _ = Some _ |- _ => apply find_h_In in Fh; destruct Fh as [Fh Fhid] end).
  all: lazymatch goal with EV := ?x |- _ =>
    lazymatch x with
    | EScancel _ _ => intros nq jq Hn Hj; apply dead_In_all in Hn; destruct Hn as (n1 & Hn1 & _ & E2); unfold qnames in *; rewrite E2 in Hj; exact (O n1 jq Hn1 Hj)
    | EBatchEnd _ => intros nq jq Hn Hj; apply dead_In_all in Hn; destruct Hn as (n1 & Hn1 & _ & E2); unfold qnames in *; rewrite E2 in Hj; exact (O n1 jq Hn1 Hj)
    | EBatchStart _ =>
      intros nq jq Hn Hj; apply in_app_iff in Hn; destruct Hn as [Hn|[<-|[]]]; [exact (O nq jq Hn Hj)|];
      unfold qnames in Hj; cbn [n_queue] in Hj;
      match goal with Fh : In ?h0 (hpc s), St : h_state ?h0 = HPending |- _ => exact (PF h0 jq Fh St Hj) end
    | ELaunch _ ?j0 =>
      match goal with L : lookup _ _ = Some _ |- _ => apply lookup_In in L end;
      match goal with Fn : In ?n0 (nodes s), L : In (_, _) (n_queue ?n0), Fid : n_id ?n0 = _ |- _ =>
        intros nq jq Hn Hj Hl; apply set_n_In' in Hn; apply in_app_iff in Hl;
        assert (J0 : In j0 (qnames n0)) by (unfold qnames; apply in_map_iff; eexists; split; [|exact L]; reflexivity);
        destruct Hn as [->|[Hn Hne]];
        [ unfold qnames in Hj; cbn [n_queue] in Hj; apply in_map_iff in Hj; destruct Hj as ([a b] & Ea & Hf); cbn [fst] in Ea; subst a;
          apply filter_In in Hf; destruct Hf as [Hf Hneq]; cbn [fst] in Hneq; apply negb_true_iff, N.eqb_neq in Hneq;
          destruct Hl as [Hl|[E|[]]]; [|congruence];
          apply (O n0 jq Fn); [unfold qnames; apply in_map_iff; eexists; split; [|exact Hf]; reflexivity|exact Hl]
        | destruct Hl as [Hl|[<-|[]]]; [exact (O nq jq Hn Hj Hl)|];
          destruct (Q n0 Fn) as (h0 & Hh0 & A0 & _ & C0 & _); destruct (Q nq Hn) as (hq & Hhq & Aq & _ & Cq & _);
          apply (nodup_flat_map_disjoint _ h0 hq j0 NH ND Hh0 Hhq); [cbn [n_id] in Hne; congruence|exact (C0 _ J0)|exact (Cq _ Hj)] ] end
    | _ =>
      intros nq jq Hn Hj; apply set_n_In' in Hn; destruct Hn as [->|[Hn _]]; [|first [exact (O nq jq Hn Hj) | intros Hl; apply in_app_iff in Hl; fail]];
      match goal with Fn : In ?n0 (nodes s) |- _ =>
        unfold qnames in Hj; cbn [n_queue] in Hj; repeat match goal with E : n_queue _ = _ |- _ => rewrite E in * end;
        rewrite ?map_fst_unblock in Hj; try (apply incl_map_filter in Hj);
        first [ exact (O n0 jq Fn Hj) | contradiction ] end
    end end.
Qed.
End Group4.

Lemma inv4_step sc s e s' : step sc s e = Some s' -> Inv1 sc s -> Inv3 sc s -> Inv4 sc s -> Inv4 sc s'.
Proof.
  intros H H1 H3 H4. constructor.
  - eapply u_handed; eauto.
  - eapply u_nids; eauto.
  - eapply u_queue; eauto.
  - eapply u_queue_fresh; eauto.
  - eapply u_pending_fresh; eauto.
  - eapply u_launched_handed; eauto.
  - eapply u_launched; eauto.
Qed.

Lemma inv4_run_from sc tr : forall s s', run_from sc s tr = Some s' -> Inv1 sc s -> Inv3 sc s -> Inv4 sc s -> Inv4 sc s'.
Proof.
  induction tr as [|e t IH]; intros s s' Hr H1 H3 H4; cbn [run_from] in Hr.
  - injection Hr as <-. exact H4.
  - destruct (step sc s e) as [s1|] eqn:Es; [|discriminate]. eapply IH; eauto using inv1_step, inv3_step, inv4_step.
Qed.

(* no job is started twice: from the structure of batches and node queues *)
Theorem launched_nodup sc tr s : run sc tr = Some s -> NoDup (launched_of tr).
Proof.
  intros H. destruct (ghost_run_from _ _ _ _ H) as (_ & _ & C & _). cbn in C. rewrite <- C.
  apply (m_launched sc s). eapply inv4_run_from; eauto using inv1_init, inv3_init, inv4_init.
Qed.

Theorem c01_accepted sc tr s : run sc tr = Some s -> c01_ok sc tr = true.
Proof.
  intros H. unfold c01_ok. pose proof (c01_placement_accepted _ _ _ H) as P. apply andb_true_iff in P. destruct P as [P1 P2].
  rewrite P1, P2. cbn. apply nodupbN_spec. eapply launched_nodup; eauto.
Qed.
