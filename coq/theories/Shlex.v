(* Shlex - model of CPython's shlex as shlex.split(s) uses it
   (Lib/shlex.py: lex = shlex(s, posix=True); lex.whitespace_split = True; lex.commenters = empty;
   list(lex)), and of shlex.quote.  Byte level: a Python str is its utf-8 encoding; every
   byte >= 128 is an ordinary word character for the lexer and an unsafe character for quote,
   which is what shlex does with the non-ASCII code points they encode.

   The state machine follows shlex.read_token branch by branch:
     self.state   space              -> StW        (between tokens)
                  letter a           -> StA        (inside a word)
                  a quote character  -> StQ q      (inside quotes q)
                  the backslash      -> StE back   (after the escape character; back is
                                                    escapedstate: None for a, Some q for quote q)
     self.token   -> tok,   the local variable quoted -> quoted.
   A token is handed out when (self.token or (self.posix and quoted)); otherwise reading goes on.
   None = ValueError (No closing quotation: end of input inside quotes; No escaped character:
   end of input after a backslash): list(lex) raises and nothing is returned.
   Not modelled because unreachable with these settings: commenters, punctuation_chars,
   wordchars (whitespace_split makes every remaining character a word character), pushback,
   source inclusion. *)
From Coq Require Import String Ascii List Bool NArith.
From Jade Require Import Base.
Import ListNotations.
Open Scope string_scope.

Definition c_sq : ascii := "'"%char.           (* single quote *)
Definition c_dq : ascii := ascii_of_N 34.      (* double quote *)
Definition c_bs : ascii := ascii_of_N 92.      (* backslash *)
Definition c_sp : ascii := " "%char.

(* self.whitespace: space, tab, CR, LF *)
Definition sh_ws (c : ascii) : bool :=
  let n := N_of_ascii c in ((n =? 32) || (n =? 9) || (n =? 13) || (n =? 10))%N.
(* self.quotes: single and double quote *)
Definition sh_quote (c : ascii) : bool := Ascii.eqb c c_sq || Ascii.eqb c c_dq.
(* self.escape: backslash *)
Definition sh_escape (c : ascii) : bool := Ascii.eqb c c_bs.
(* self.escapedquotes: double quote *)
Definition sh_escapedquote (q : ascii) : bool := Ascii.eqb q c_dq.

Inductive lstate := StW | StA | StQ (q : ascii) | StE (back : option ascii).

Definition snoc (t : string) (c : ascii) : string := t ++ String c "".
Definition nonempty (t : string) : bool := match t with EmptyString => false | _ => true end.
Definition cons_opt (t : string) (r : option (list string)) : option (list string) :=
  match r with Some l => Some (t :: l) | None => None end.

Fixpoint lex (s : string) (st : lstate) (tok : string) (quoted : bool) : option (list string) :=
  match s with
  | EmptyString =>
      match st with
      | StW | StA => if nonempty tok || quoted then Some [tok] else Some []
      | StQ _ => None            (* ValueError: No closing quotation *)
      | StE _ => None            (* ValueError: No escaped character *)
      end
  | String c r =>
      match st with
      | StW =>
          if sh_ws c then
            if nonempty tok || quoted then cons_opt tok (lex r StW "" false)
            else lex r StW tok quoted
          else if sh_escape c then lex r (StE None) tok quoted
          else if sh_quote c then lex r (StQ c) tok quoted
          else lex r StA (String c "") quoted
      | StQ q =>
          if Ascii.eqb c q then lex r StA tok true
          else if sh_escape c && sh_escapedquote q then lex r (StE (Some q)) tok true
          else lex r (StQ q) (snoc tok c) true
      | StE back =>
          match back with
          | None => lex r StA (snoc tok c) quoted
          | Some q =>
              if negb (Ascii.eqb c c_bs) && negb (Ascii.eqb c q)
              then lex r (StQ q) (snoc (snoc tok c_bs) c) quoted
              else lex r (StQ q) (snoc tok c) quoted
          end
      | StA =>
          if sh_ws c then
            if nonempty tok || quoted then cons_opt tok (lex r StW "" false)
            else lex r StW tok quoted
          else if sh_quote c then lex r (StQ c) tok quoted
          else if sh_escape c then lex r (StE None) tok quoted
          else lex r StA (snoc tok c) quoted
      end
  end.

(* shlex.split(s) *)
Definition split (s : string) : option (list string) := lex s StW "" false.

(* ---------- shlex.quote ----------
   _find_unsafe = re.compile(r[^\w@%+=:,./-], re.ASCII).search *)
Definition is_alnum_ (c : ascii) : bool :=
  let n := N_of_ascii c in
  ((48 <=? n) && (n <=? 57) || (65 <=? n) && (n <=? 90) || (97 <=? n) && (n <=? 122) || (n =? 95))%N.
Definition safe_char (c : ascii) : bool :=
  is_alnum_ c || existsb (Ascii.eqb c) (chars "@%+=:,./-").
Fixpoint all_chars (f : ascii -> bool) (s : string) : bool :=
  match s with EmptyString => true | String c r => f c && all_chars f r end.
(* s.replace(sq, sq dq sq dq sq) *)
Definition sq_repl : string := String c_sq (String c_dq (String c_sq (String c_dq (String c_sq "")))).
Fixpoint quote_body (s : string) : string :=
  match s with
  | EmptyString => ""
  | String c r => if Ascii.eqb c c_sq then sq_repl ++ quote_body r else String c (quote_body r)
  end.
Definition quote (s : string) : string :=
  match s with
  | EmptyString => "''"
  | _ => if all_chars safe_char s then s else String c_sq (quote_body s ++ String c_sq "")
  end.

(* shlex.join(argv): the quoted arguments joined by one space *)
Definition shjoin (argv : list string) : string := join " " (map quote argv).

(* characters that are neither whitespace, quote nor escape: they only ever extend a word *)
Definition plain_char (c : ascii) : bool := negb (sh_ws c) && negb (sh_quote c) && negb (sh_escape c).
Definition plain (s : string) : bool := all_chars plain_char s.

(* ---------- specification vocabulary: plain words separated by whitespace runs ---------- *)
(* items = (word, the whitespace that follows it) *)
Fixpoint join_ws (items : list (string * string)) : string :=
  match items with [] => "" | (t, s) :: r => t ++ s ++ join_ws r end.
(* every separator except possibly the last is non-empty *)
Fixpoint seps_ok (items : list (string * string)) : Prop :=
  match items with
  | [] => True
  | (_, s) :: r => (r <> [] -> s <> "") /\ seps_ok r
  end.
Definition item_ok (it : string * string) : Prop :=
  plain (fst it) = true /\ fst it <> "" /\ all_chars sh_ws (snd it) = true.

