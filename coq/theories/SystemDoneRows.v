(* C09 at system level, "every done job has a recorded result": along every accepted trace - kills, errors,
   failed writes and stale copies included - a job that is DONE in the persisted job table has a row in the
   consolidated results file.  (Resubmission, which clears rows on purpose, is outside System.v.) *)
From Coq Require Import List ZArith NArith Bool Arith Lia.
From Jade Require Import Base System SystemMonitors SystemProofs SystemInv SystemOrder SystemLimits.
Import ListNotations.
Open Scope N_scope.
Set Default Timeout 300.

(* what a status update may write as DONE *)
Lemma update_ok_done r sn j : update_ok_job r sn j = true -> snap_st sn j = DONE ->
  r_st r j = DONE \/ In j (r_seen r).
Proof.
  unfold update_ok_job, snap_st. destruct (lookup j (sn_jobs sn)) as [[x b]|]; [|discriminate].
  destruct (memN j (r_placed r)).
  - intros H D. apply andb_true_iff in H. destruct H as [H _]. apply jstate_eqb_eq in H. congruence.
  - destruct (r_st r j) eqn:E.
    + intros H D. apply andb_true_iff in H. destruct H as [H _]. apply jstate_eqb_eq in H. congruence.
    + destruct (memN j (r_seen r)) eqn:M.
      * intros _ _. right. apply memN_In. exact M.
      * intros H D. apply andb_true_iff in H. destruct H as [H _]. apply jstate_eqb_eq in H. congruence.
    + intros _ _. left. reflexivity.
Qed.

Record Inv9c (sc : scenario) (s : state) : Prop := {
  d_st : forall j, In j (all_jobs sc) -> st s j = DONE -> In j (row_names (processed s));
  d_hst : forall r j, holder s = Some r -> In j (all_jobs sc) -> r_st r j = DONE -> In j (row_names (processed s));
  d_seen : forall r j, holder s = Some r -> In j (r_seen r) -> In j (row_names (processed s))
}.
Lemma inv9c_init sc : Inv9c sc init.
Proof. constructor; cbn; intros; discriminate. Qed.

Ltac upd_done B C :=
  intros Hj D;
  match goal with F : forallb (update_ok_job _ _) _ = true |- _ =>
    rewrite forallb_forall in F; specialize (F _ Hj); destruct (update_ok_done _ _ _ F D) as [G|G]; [apply B|apply C]; assumption end.

Lemma inv9c_step sc s e s' : step sc s e = Some s' -> Inv9c sc s -> Inv9c sc s'.
Proof.
  intros H [A B C]. constructor.
  - revert H. intros H. prep e H. all: hlit. all: try basic.
    all: try (intros; rewrite row_names_app; apply in_app_iff; left; eauto; fail).
    all: try (intros; eauto; fail).
    all: upd_done B C.
  - revert H. intros H. prep e H. all: hlit. all: try basic.
    all: try (intros; rewrite row_names_app; apply in_app_iff; left; eauto; fail).
    all: try (intros; eauto; fail).
    all: lazymatch goal with EV := ?x |- _ =>
           lazymatch x with
           | ESubCancel _ _ =>
             intros Hj; unfold upd; rewrite row_names_app; rewrite in_app_iff;
             match goal with |- context [N.eqb ?a ?b] => destruct (N.eqb a b) eqn:En end;
             [ intros _; right; apply N.eqb_eq in En; subst; left; reflexivity | intros D; left; apply B; assumption ]
           | EUpdate _ _ => upd_done B C
           end
         end.
  - revert H. intros H. prep e H. all: hlit. all: try basic.
    all: try (intros; rewrite row_names_app; apply in_app_iff; left; eauto; fail).
    all: try (intros; eauto; fail).
    all: intros Hin; rewrite row_names_app; apply in_app_iff; apply in_app_iff in Hin; destruct Hin as [Hin|Hin];
         [left; apply C; exact Hin | right; exact Hin].
Qed.

Lemma inv9c_run_from sc tr : forall s s', run_from sc s tr = Some s' -> Inv9c sc s -> Inv9c sc s'.
Proof.
  induction tr as [|e t IH]; intros s s' Hr I; cbn [run_from] in Hr.
  - injection Hr as <-. exact I.
  - destruct (step sc s e) as [s1|] eqn:Es; [|discriminate]. eapply IH; eauto using inv9c_step.
Qed.

(* C09: in every state an accepted trace reaches, a job that is done in the persisted table has a row in the
   consolidated results file *)
Theorem done_job_has_result sc tr s : run sc tr = Some s ->
  forall j, In j (all_jobs sc) -> st s j = DONE -> In j (row_names (processed s)).
Proof.
  intros H. unfold run in H. apply (d_st sc s (inv9c_run_from sc tr _ _ H (inv9c_init sc))).
Qed.
