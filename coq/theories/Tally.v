(* C20, tallies: model of jade/jobs/job_submitter.py (_handle_completion's missing-job computation,
   _build_results / write_results_summary) and jade/result.py::ResultsSummary (get_results_by_type,
   get_*_results, get_missing_jobs, show_results).  The class predicates is_successful / is_failed /
   is_canceled, the status vocabulary, the chains and the writer shapes are GENERATED
   (Gen/ReportsGen.v).  No proofs here.

   row = one Result as the tallies see it: name, return code, status string. *)
From Coq Require Import String List ZArith NArith Bool Arith.
From Jade Require Import Base.
From Jade.Gen Require Import ReportsGen.
Import ListNotations.
Open Scope string_scope.
Open Scope list_scope.

Record row := mkRow { r_name : string; r_rc : Z; r_status : string }.
Definition succ_p (r : row) : bool := is_successful (r_rc r) (r_status r).
Definition fail_p (r : row) : bool := is_failed (r_rc r) (r_status r).
Definition canc_p (r : row) : bool := is_canceled (r_rc r) (r_status r).

Inductive cls := Successful | Failed | Canceled.
(* _build_results / show_results:  if is_successful .. elif is_failed .. else: assert is_canceled
   None = AssertionError *)
Definition classify_assert (r : row) : option cls :=
  if succ_p r then Some Successful else if fail_p r then Some Failed
  else if canc_p r then Some Canceled else None.

Record counts := mkCounts { n_succ : N; n_fail : N; n_canc : N }.
Fixpoint count_from (c : counts) (rows : list row) : option counts :=
  match rows with
  | [] => Some c
  | r :: rest =>
    match classify_assert r with
    | Some Successful => count_from (mkCounts (n_succ c + 1) (n_fail c) (n_canc c)) rest
    | Some Failed => count_from (mkCounts (n_succ c) (n_fail c + 1) (n_canc c)) rest
    | Some Canceled => count_from (mkCounts (n_succ c) (n_fail c) (n_canc c + 1)) rest
    | None => None
    end
  end.
(* _build_results(missing_jobs)["summary"]: (num_successful, num_failed, num_canceled, num_missing) *)
Definition build_summary_counts (rows : list row) (missing : list string) : option (N * N * N * N) :=
  match count_from (mkCounts 0 0 0) rows with
  | Some c => Some (n_succ c, n_fail c, n_canc c, N.of_nat (length missing))
  | None => None
  end.

Definition mem_str (x : string) (l : list string) : bool := existsb (String.eqb x) l.
(* _handle_completion: if len(results) != num_jobs: sorted(all_jobs - finished_jobs) else []
   (jobs are given in sorted order, so that filter yields the sorted difference) *)
Definition missing_jobs (jobs : list string) (rows : list row) : list string :=
  if Nat.eqb (length rows) (length jobs) then []
  else filter (fun j => negb (mem_str j (map r_name rows))) jobs.
(* the results.json summary block for a finished submission *)
Definition completion_summary (jobs : list string) (rows : list row) : option (N * N * N * N) :=
  build_summary_counts rows (missing_jobs jobs rows).

(* ResultsSummary.get_results_by_type: if/elif/elif, rows in no class are dropped silently *)
Definition by_type (rows : list row) : list row * list row * list row :=
  (filter succ_p rows,
   filter (fun r => negb (succ_p r) && fail_p r) rows,
   filter (fun r => negb (succ_p r) && negb (fail_p r) && canc_p r) rows).
(* get_successful_results / get_failed_results / get_canceled_results: independent filters *)
Definition successful_results (rows : list row) := filter succ_p rows.
Definition failed_results (rows : list row) := filter fail_p rows.
Definition canceled_results (rows : list row) := filter canc_p rows.
(* get_missing_jobs(expected_jobs) *)
Definition summary_missing (expected : list string) (rows : list row) : list string :=
  filter (fun j => negb (mem_str j (map r_name rows))) expected.

(* rows JADE writes (generated shapes): Some rc = that literal return code, None = any *)
Definition shape_matches (r : row) (sh : option Z * string) : bool :=
  String.eqb (r_status r) (snd sh) && match fst sh with None => true | Some rc => Z.eqb (r_rc r) rc end.
Definition writable (r : row) : bool := existsb (shape_matches r) writer_shapes.
