(* Base definitions shared by the JADE models: byte strings, small list/set utilities.
   No proofs about JADE here; only general lemmas. *)
From Coq Require Import String Ascii List ZArith NArith Bool Lia Arith.
Import ListNotations.
Open Scope string_scope.

(* ---------- HPC status vocabulary (jade/hpc/common.py::HpcJobStatus); the translator checks
   that the enum still has exactly these members. ---------- *)
Inductive hpc_status := UNKNOWN | NONE | QUEUED | RUNNING | COMPLETE.
Definition hpc_status_eqb (a b : hpc_status) : bool :=
  match a, b with
  | UNKNOWN, UNKNOWN | NONE, NONE | QUEUED, QUEUED | RUNNING, RUNNING | COMPLETE, COMPLETE => true
  | _, _ => false
  end.
Lemma hpc_status_eqb_eq a b : hpc_status_eqb a b = true <-> a = b.
Proof. destruct a, b; cbn; split; intros H; try reflexivity; try discriminate. Qed.

(* ---------- f-string templates ---------- *)
Inductive piece := Lit (s : string) | Fld (name : string).

(* ---------- strings ---------- *)
Definition bytes_to_string (l : list N) : string :=
  fold_right (fun b s => String (ascii_of_N b) s) EmptyString l.
Fixpoint string_to_bytes (s : string) : list N :=
  match s with EmptyString => [] | String a r => N_of_ascii a :: string_to_bytes r end.

Fixpoint chars (s : string) : list ascii :=
  match s with EmptyString => [] | String a r => a :: chars r end.
Fixpoint of_chars (l : list ascii) : string :=
  match l with [] => EmptyString | a :: r => String a (of_chars r) end.
Lemma of_chars_chars s : of_chars (chars s) = s.
Proof. induction s; cbn; congruence. Qed.
Lemma chars_of_chars l : chars (of_chars l) = l.
Proof. induction l; cbn; congruence. Qed.
Lemma chars_append a b : chars (a ++ b) = (chars a ++ chars b)%list.
Proof. induction a; cbn; congruence. Qed.

Definition nl : ascii := ascii_of_N 10.
Definition nl_s : string := String nl EmptyString.

(* Python's str.isspace for ASCII: \t \n \v \f \r, 0x1c-0x1f, space *)
Definition is_ws (a : ascii) : bool :=
  let n := N_of_ascii a in
  ((9 <=? n) && (n <=? 13) || (28 <=? n) && (n <=? 32))%N.
Definition is_digit (a : ascii) : bool :=
  let n := N_of_ascii a in ((48 <=? n) && (n <=? 57))%N.

(* s.split(sep) for a one-character separator: always returns a non-empty list *)
Fixpoint split_on_aux (sep : ascii) (l : list ascii) (cur : list ascii) : list (list ascii) :=
  match l with
  | [] => [rev cur]
  | a :: r => if Ascii.eqb a sep then rev cur :: split_on_aux sep r [] else split_on_aux sep r (a :: cur)
  end.
Definition split_on (sep : ascii) (l : list ascii) : list (list ascii) := split_on_aux sep l [].

(* s.split() : maximal runs of non-whitespace *)
Fixpoint split_ws_aux (l : list ascii) (cur : list ascii) : list (list ascii) :=
  match l with
  | [] => match cur with [] => [] | _ => [rev cur] end
  | a :: r =>
    if is_ws a then match cur with [] => split_ws_aux r [] | _ => rev cur :: split_ws_aux r [] end
    else split_ws_aux r (a :: cur)
  end.
Definition split_ws (l : list ascii) : list (list ascii) := split_ws_aux l [].

Fixpoint is_prefix (p l : list ascii) : bool :=
  match p, l with
  | [], _ => true
  | a :: p', b :: l' => Ascii.eqb a b && is_prefix p' l'
  | _ :: _, [] => false
  end.
Fixpoint drop_prefix (p l : list ascii) : list ascii :=
  match p, l with
  | _ :: p', _ :: l' => drop_prefix p' l'
  | _, _ => l
  end.
(* `p in s` *)
Fixpoint contains (p l : list ascii) : bool :=
  is_prefix p l || match l with [] => false | _ :: r => contains p r end.
Definition str_contains (p s : string) : bool := contains (chars p) (chars s).

Fixpoint take_while (f : ascii -> bool) (l : list ascii) : list ascii :=
  match l with a :: r => if f a then a :: take_while f r else [] | [] => [] end.

Definition str_eqb := String.eqb.
Fixpoint assoc {A} (k : string) (l : list (string * A)) : option A :=
  match l with [] => None | (k', v) :: r => if String.eqb k k' then Some v else assoc k r end.

Fixpoint concat_str (l : list string) : string :=
  match l with [] => "" | [x] => x | x :: r => x ++ concat_str r end.
(* Some rest if p is a prefix of s *)
Fixpoint str_drop_prefix (p s : string) : option string :=
  match p, s with
  | EmptyString, _ => Some s
  | String a p', String b s' => if Ascii.eqb a b then str_drop_prefix p' s' else None
  | String _ _, EmptyString => None
  end.
(* split at the first occurrence of character c *)
Fixpoint str_split_char (c : ascii) (s : string) : option (string * string) :=
  match s with
  | EmptyString => None
  | String a r => if Ascii.eqb a c then Some (EmptyString, r)
                  else match str_split_char c r with Some (k, v) => Some (String a k, v) | None => None end
  end.
Fixpoint join (sep : string) (l : list string) : string :=
  match l with [] => "" | [x] => x | x :: r => x ++ sep ++ join sep r end.

(* ---------- boolean equalities used by the correspondence cases ---------- *)
Fixpoint list_eqb {A} (eqb : A -> A -> bool) (a b : list A) : bool :=
  match a, b with
  | [], [] => true
  | x :: a', y :: b' => eqb x y && list_eqb eqb a' b'
  | _, _ => false
  end.
Definition option_eqb {A} (eqb : A -> A -> bool) (a b : option A) : bool :=
  match a, b with
  | None, None => true
  | Some x, Some y => eqb x y
  | _, _ => false
  end.
Definition prod_eqb {A B} (ea : A -> A -> bool) (eb : B -> B -> bool) (a b : A * B) : bool :=
  ea (fst a) (fst b) && eb (snd a) (snd b).
Definition unit_eqb (a b : unit) : bool := true.

(* ---------- N sets as lists ---------- *)
Definition memN (x : N) (l : list N) : bool := existsb (N.eqb x) l.
Definition subsetN (a b : list N) : bool := forallb (fun x => memN x b) a.
Definition interN (a b : list N) : list N := filter (fun x => memN x b) a.
Definition diffN (a b : list N) : list N := filter (fun x => negb (memN x b)) a.
Definition addN (x : N) (l : list N) : list N := if memN x l then l else l ++ [x].
Definition unionN (a b : list N) : list N := fold_left (fun acc x => addN x acc) b a.
Fixpoint nodupbN (l : list N) : bool :=
  match l with [] => true | x :: r => negb (memN x r) && nodupbN r end.
Definition disjointN (a b : list N) : bool := forallb (fun x => negb (memN x b)) a.

Lemma memN_In x l : memN x l = true <-> In x l.
Proof.
  unfold memN. rewrite existsb_exists. split.
  - intros [y [Hy E]]. apply N.eqb_eq in E. subst. exact Hy.
  - intros H. exists x. split; [exact H|apply N.eqb_refl].
Qed.
Lemma memN_false x l : memN x l = false <-> ~ In x l.
Proof. rewrite <- memN_In. destruct (memN x l); split; congruence. Qed.
Lemma subsetN_spec a b : subsetN a b = true <-> (forall x, In x a -> In x b).
Proof.
  unfold subsetN. rewrite forallb_forall. split; intros H x Hx.
  - apply memN_In. auto.
  - apply memN_In. auto.
Qed.
Lemma interN_spec a b x : In x (interN a b) <-> In x a /\ In x b.
Proof. unfold interN. rewrite filter_In, memN_In. tauto. Qed.
Lemma diffN_spec a b x : In x (diffN a b) <-> In x a /\ ~ In x b.
Proof. unfold diffN. rewrite filter_In, negb_true_iff, memN_false. tauto. Qed.
Lemma addN_spec x l y : In y (addN x l) <-> y = x \/ In y l.
Proof.
  unfold addN. destruct (memN x l) eqn:E.
  - apply memN_In in E. split; [tauto|]. intros [->|H]; assumption.
  - rewrite in_app_iff. cbn. split; [intros [H|[H|[]]]|intros [H|H]]; auto.
Qed.
Lemma nodupbN_spec l : nodupbN l = true <-> NoDup l.
Proof.
  induction l as [|x r IH]; cbn.
  - split; [constructor|reflexivity].
  - rewrite andb_true_iff, negb_true_iff, memN_false, IH. split.
    + intros [H1 H2]. constructor; assumption.
    + intros H. inversion H; subst. split; assumption.
Qed.
Lemma disjointN_spec a b : disjointN a b = true <-> (forall x, In x a -> ~ In x b).
Proof.
  unfold disjointN. rewrite forallb_forall. split; intros H x Hx.
  - apply memN_false. apply negb_true_iff. auto.
  - apply negb_true_iff. apply memN_false. auto.
Qed.
(* ---------- misc list lemmas ---------- *)
Lemma NoDup_app_iff {A} (l1 l2 : list A) :
  NoDup (l1 ++ l2) <-> NoDup l1 /\ NoDup l2 /\ (forall x, In x l1 -> ~ In x l2).
Proof.
  induction l1 as [|a l1 IH]; cbn.
  - split; [intros H; repeat split; [constructor|exact H|tauto]|tauto].
  - split.
    + intros H. inversion H as [|? ? Hn Hd]; subst. apply IH in Hd. destruct Hd as [H1 [H2 H3]].
      rewrite in_app_iff in Hn. repeat split.
      * constructor; tauto.
      * exact H2.
      * intros x [->|Hx]; [tauto|auto].
    + intros [H1 [H2 H3]]. inversion H1 as [|? ? Hn Hd]; subst. constructor.
      * rewrite in_app_iff. intros [H|H]; [tauto|]. apply (H3 a); auto.
      * apply IH. repeat split; auto.
Qed.

Lemma addN_nodup x l : NoDup l -> NoDup (addN x l).
Proof.
  intros H. unfold addN. destruct (memN x l) eqn:E; [exact H|].
  apply memN_false in E. apply NoDup_app_iff. repeat split.
  - exact H.
  - constructor; [intros []|constructor].
  - intros y Hy [->|[]]. exact (E Hy).
Qed.
