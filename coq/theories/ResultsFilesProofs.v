(* Proofs about the fine-grained interleaving model ResultsFiles.v: one inductive invariant over
   ALL schedules (any number of appenders / collectors / rows / rounds, any interleaving of the
   visible operations), from which the C08 theorems follow. *)
From Coq Require Import String Ascii List Bool NArith Arith Lia Permutation.
From Jade Require Import Base Csv CsvProofs ResultsFiles.
From Jade.Gen Require Import ResultsFilesGen.
Import ListNotations.
Open Scope list_scope.

(* ------------------------------------------------------------------------------------------ *)
(* reading back what was written *)


Lemma delim_is_ok : delim_ok delim.
Proof. split; reflexivity. Qed.

Lemma header_parses : parse_line delim header_line = Some result_fields.
Proof. reflexivity. Qed.

Lemma read_row_fields r : is_int_lit (r_rc r) = true -> read_row result_fields (row_fields r) = Some r.
Proof.
  intros H. destruct r as [a b c e f g]. cbn in H.
  unfold read_row, row_fields, result_fields. cbn. rewrite H. reflexivity.
Qed.

Lemma row_fields_cons r : exists x l, row_fields r = x :: l.
Proof. unfold row_fields, result_fields. cbn [map]. eexists. eexists. reflexivity. Qed.

Lemma read_rows_formatted rs :
  Forall row_ok rs -> read_rows result_fields (map format_row rs) = Some rs.
Proof.
  induction 1 as [|r rs [Hr1 Hr2] Hrs IH]; [reflexivity|].
  cbn [map read_rows]. unfold format_row at 1.
  rewrite (parse_format_line delim (row_fields r) delim_is_ok Hr1).
  destruct (row_fields_cons r) as [x [l E]]. rewrite E. rewrite <- E.
  rewrite (read_row_fields r Hr2), IH. reflexivity.
Qed.

Definition wf_items (its : list item) : Prop := exists rs, its = Hdr :: map Row rs /\ Forall row_ok rs.

Lemma map_render_rows rs : map render_item (map Row rs) = map format_row rs.
Proof. induction rs as [|r rs IH]; cbn; [reflexivity|]. rewrite IH. reflexivity. Qed.

Lemma rows_of_map_Row rs : rows_of (map Row rs) = rs.
Proof. induction rs as [|r rs IH]; cbn; [reflexivity|]. rewrite IH. reflexivity. Qed.

Lemma rows_of_app a b : rows_of (a ++ b) = rows_of a ++ rows_of b.
Proof. induction a as [|[|r] a IH]; cbn; [reflexivity|exact IH|rewrite IH; reflexivity]. Qed.

Lemma read_items_wf its : wf_items its -> read_items its = Some (rows_of its).
Proof.
  intros [rs [-> Hrs]]. unfold read_items. cbn [map render_item read_file rows_of].
  rewrite header_parses, map_render_rows, rows_of_map_Row. apply read_rows_formatted. exact Hrs.
Qed.

Lemma wf_items_app its rs : wf_items its -> Forall row_ok rs -> wf_items (its ++ map Row rs).
Proof.
  intros [rs0 [-> H0]] H. exists (rs0 ++ rs). split.
  - cbn. rewrite map_app. reflexivity.
  - apply Forall_app. split; assumption.
Qed.

Lemma wf_items_not_nil its : wf_items its -> is_nil its = false.
Proof. intros [rs [-> _]]. reflexivity. Qed.

Lemma wf_items_rows its : wf_items its -> Forall row_ok (rows_of its).
Proof. intros [rs [-> H]]. cbn. rewrite rows_of_map_Row. exact H. Qed.

(* ------------------------------------------------------------------------------------------ *)
(* finite maps *)

Lemma fid_eqb_eq a b : fid_eqb a b = true <-> a = b.
Proof.
  destruct a as [|x], b as [|y]; cbn; split; intros H; try reflexivity; try discriminate.
  - apply N.eqb_eq in H. subst. reflexivity.
  - inversion H. apply N.eqb_refl.
Qed.
Lemma fid_eqb_refl a : fid_eqb a a = true.
Proof. apply fid_eqb_eq. reflexivity. Qed.
Lemma fid_eqb_neq a b : a <> b -> fid_eqb a b = false.
Proof. intros H. destruct (fid_eqb a b) eqn:E; [|reflexivity]. apply fid_eqb_eq in E. contradiction. Qed.
Lemma fid_eq_dec (a b : fid) : {a = b} + {a <> b}.
Proof. destruct (fid_eqb a b) eqn:E; [left; apply fid_eqb_eq; exact E|right; intros H; apply fid_eqb_eq in H; congruence]. Qed.

Lemma fget_fdel_same {V} f (l : list (fid * V)) : fget f (fdel f l) = None.
Proof.
  induction l as [|[g v] l IH]; cbn; [reflexivity|].
  destruct (fid_eqb f g) eqn:E; cbn; [exact IH|]. rewrite E. exact IH.
Qed.
Lemma fget_fdel_other {V} f g (l : list (fid * V)) : g <> f -> fget g (fdel f l) = fget g l.
Proof.
  intros H. induction l as [|[h v] l IH]; cbn; [reflexivity|].
  destruct (fid_eqb f h) eqn:E; cbn.
  - apply fid_eqb_eq in E. subst h. rewrite (fid_eqb_neq g f H). exact IH.
  - destruct (fid_eqb g h); [reflexivity|exact IH].
Qed.
Lemma fget_fset_same {V} f (v : V) l : fget f (fset f v l) = Some v.
Proof. unfold fset. cbn. rewrite fid_eqb_refl. reflexivity. Qed.
Lemma fget_fset_other {V} f g (v : V) l : g <> f -> fget g (fset f v l) = fget g l.
Proof. intros H. unfold fset. cbn. rewrite (fid_eqb_neq g f H). apply fget_fdel_other. exact H. Qed.

Lemma fget_In {V} f (v : V) l : fget f l = Some v -> In (f, v) l.
Proof.
  induction l as [|[g w] l IH]; cbn; [discriminate|].
  destruct (fid_eqb f g) eqn:E.
  - apply fid_eqb_eq in E. subst. intros H. inversion H. left. reflexivity.
  - intros H. right. apply IH. exact H.
Qed.
Lemma fget_None_notin {V} f (l : list (fid * V)) : fget f l = None <-> ~ In f (map fst l).
Proof.
  induction l as [|[g w] l IH]; cbn; [tauto|].
  destruct (fid_eqb f g) eqn:E.
  - apply fid_eqb_eq in E. subst. split; [discriminate|]. intros H. exfalso. apply H. left. reflexivity.
  - rewrite IH. split; [|tauto]. intros H [H1|H1]; [|tauto]. subst. rewrite fid_eqb_refl in E. discriminate.
Qed.

Lemma fdel_notin {V} f (l : list (fid * V)) : ~ In f (map fst l) -> fdel f l = l.
Proof.
  induction l as [|[g w] l IH]; cbn; [reflexivity|]. intros H.
  rewrite (fid_eqb_neq f g) by (intros ->; apply H; left; reflexivity). cbn.
  f_equal. apply IH. tauto.
Qed.
Lemma keys_fdel_in {V} f g (l : list (fid * V)) : In g (map fst (fdel f l)) -> In g (map fst l) /\ g <> f.
Proof.
  induction l as [|[h w] l IH]; cbn; [tauto|].
  destruct (fid_eqb f h) eqn:E; cbn.
  - intros H. destruct (IH H). tauto.
  - intros [H|H]; [|destruct (IH H); tauto]. subst h. split; [tauto|]. intros ->. rewrite fid_eqb_refl in E. discriminate.
Qed.
Lemma keys_fdel_nodup {V} f (l : list (fid * V)) : NoDup (map fst l) -> NoDup (map fst (fdel f l)).
Proof.
  induction l as [|[h w] l IH]; cbn; [constructor|]. intros H. inversion H as [|? ? Hn Hd]; subst.
  destruct (fid_eqb f h); cbn; [apply IH; exact Hd|].
  constructor; [|apply IH; exact Hd]. intros Hin. apply keys_fdel_in in Hin. tauto.
Qed.
Lemma keys_fset_nodup {V} f (v : V) l : NoDup (map fst l) -> NoDup (map fst (fset f v l)).
Proof.
  intros H. unfold fset. cbn. constructor; [|apply keys_fdel_nodup; exact H].
  intros Hin. apply keys_fdel_in in Hin. tauto.
Qed.

(* ------------------------------------------------------------------------------------------ *)
(* counting rows *)

Definition row_eq_dec : forall a b : row, {a = b} + {a <> b}.
Proof. decide equality; apply string_dec. Defined.
Notation cnt r l := (count_occ row_eq_dec l r).

Lemma content_cons_same f v (l : list (fid * list item)) : content f ((f, v) :: l) = v.
Proof. unfold content. cbn. rewrite fid_eqb_refl. reflexivity. Qed.

Lemma cnt_fdel f fs r :
  NoDup (map fst fs) ->
  cnt r (all_rows (fdel f fs)) + cnt r (rows_of (content f fs)) = cnt r (all_rows fs).
Proof.
  induction fs as [|[g w] fs IH]; intros H; [reflexivity|].
  cbn in H. inversion H as [|? ? Hn Hd]; subst.
  unfold content. cbn [fdel filter fst fget]. destruct (fid_eqb f g) eqn:E.
  - apply fid_eqb_eq in E. subst g. cbn [negb].
    change (filter (fun p : fid * list item => negb (fid_eqb f (fst p))) fs) with (fdel f fs).
    rewrite (fdel_notin f fs Hn). unfold all_rows. cbn [flat_map snd]. rewrite count_occ_app. lia.
  - cbn [negb]. change (filter (fun p : fid * list item => negb (fid_eqb f (fst p))) fs) with (fdel f fs).
    unfold all_rows. cbn [flat_map snd]. rewrite !count_occ_app.
    specialize (IH Hd). unfold all_rows, content in IH. lia.
Qed.

Lemma cnt_fset f v fs r :
  NoDup (map fst fs) ->
  cnt r (all_rows (fset f v fs)) + cnt r (rows_of (content f fs)) = cnt r (rows_of v) + cnt r (all_rows fs).
Proof.
  intros H. unfold fset. unfold all_rows at 1. cbn [flat_map snd]. rewrite count_occ_app.
  pose proof (cnt_fdel f fs r H) as X. unfold all_rows in *. lia.
Qed.

(* ------------------------------------------------------------------------------------------ *)
(* the actor list *)

Lemma set_nth_split {A} (l : list A) i a :
  nth_error l i = Some a ->
  exists l1 l2, l = l1 ++ a :: l2 /\ length l1 = i /\ forall x, set_nth i x l = l1 ++ x :: l2.
Proof.
  revert i. induction l as [|b l IH]; intros i H; [destruct i; discriminate|].
  destruct i as [|i]; cbn in H.
  - inversion H. subst. exists [], l. repeat split.
  - destruct (IH i H) as [l1 [l2 [E1 [E2 E3]]]]. exists (b :: l1), l2. cbn. rewrite E2. rewrite E1 at 1.
    repeat split. intros x. rewrite E3. reflexivity.
Qed.

Lemma nth_error_set_nth_eq {A} (l : list A) i a x : nth_error l i = Some a -> nth_error (set_nth i x l) i = Some x.
Proof.
  revert i. induction l as [|b l IH]; intros i H; [destruct i; discriminate|].
  destruct i as [|i]; cbn in *; [reflexivity|]. apply IH. exact H.
Qed.
Lemma nth_error_set_nth_neq {A} (l : list A) i j x : i <> j -> nth_error (set_nth i x l) j = nth_error l j.
Proof.
  revert i j. induction l as [|b l IH]; intros i j H; [destruct i; reflexivity|].
  destruct i as [|i], j as [|j]; cbn; try reflexivity; [congruence|]. apply IH. congruence.
Qed.

(* ------------------------------------------------------------------------------------------ *)
(* the invariant *)

Definition present (f : fid) (fs : list (fid * list item)) : Prop := fget f fs <> None.

Definition apc_ok (lk : list (fid * nat)) (i : nat) (pc : apc) : Prop :=
  match pc with
  | AIdle => True
  | AHold f r => row_ok r /\ fget f lk = Some i
  | AWritten f => fget f lk = Some i
  end.

Definition todo_ok (fs : list (fid * list item)) (todo : list N) : Prop :=
  NoDup todo /\ forall m, In m todo -> present (Node m) fs.
Definition has_rows (fs : list (fid * list item)) (n : N) (rs : list row) : Prop :=
  exists its, fget (Node n) fs = Some its /\ rows_of its = rs.

Definition cpc_ok (fs : list (fid * list item)) (lk : list (fid * nat)) (i : nat) (pc : cpc) (acc : list row) : Prop :=
  match pc with
  | CIdle => acc = []
  | CGlob => fget Proc lk = Some i
  | CLoop todo => fget Proc lk = Some i /\ todo_ok fs todo
  | CRead n todo => fget Proc lk = Some i /\ fget (Node n) lk = Some i /\ todo_ok fs (n :: todo)
  | CAppend n rs todo | CRemove n rs todo =>
    fget Proc lk = Some i /\ fget (Node n) lk = Some i /\ todo_ok fs (n :: todo) /\ has_rows fs n rs
  | CRelN n todo => fget Proc lk = Some i /\ fget (Node n) lk = Some i /\ todo_ok fs todo
  end.

Definition actor_ok (fs : list (fid * list item)) (lk : list (fid * nat)) (i : nat) (a : actor) : Prop :=
  match a with
  | App todo pc => Forall (fun p => row_ok (snd p)) todo /\ apc_ok lk i pc
  | Col rounds pc acc failed rets =>
    failed = false /\ Forall (fun o => o <> None) rets /\ cpc_ok fs lk i pc acc
  end.

(* rows that are, for a moment, both in the processed file and in a node file *)
Definition dup_of (a : actor) : list row :=
  match a with Col _ (CRemove _ rs _) _ _ _ => rs | _ => [] end.
(* rows a collector has moved into the processed file *)
Definition moved_of (a : actor) : list row :=
  match a with
  | Col _ pc acc _ rets => rets_rows rets ++ acc ++ match pc with CRemove _ rs _ => rs | _ => [] end
  | App _ _ => []
  end.

Record Inv (s : state) : Prop := mkInv {
  inv_nodup : NoDup (map fst (files s));
  inv_wf : forall f its, fget f (files s) = Some its -> wf_items its;
  inv_proc : present Proc (files s);
  inv_actors : forall i a, nth_error (actors s) i = Some a -> actor_ok (files s) (locks s) i a;
  inv_acc : forall r, cnt r (all_rows (files s)) = cnt r (map snd (log s)) + cnt r (flat_map dup_of (actors s));
  inv_rep : forall r, cnt r (rows_of (content Proc (files s))) = cnt r (direct (log s)) + cnt r (flat_map moved_of (actors s))
}.

Lemma actor_ok_frame fs lk fs' lk' j b :
  (forall f, fget f lk = Some j -> fget f lk' = Some j) ->
  (forall f, fget f lk = Some j -> fget f fs' = fget f fs) ->
  (fget Proc lk = Some j -> forall f, present f fs -> present f fs') ->
  actor_ok fs lk j b -> actor_ok fs' lk' j b.
Proof.
  intros F1 F2 F3. destruct b as [todo pc|rounds pc acc failed rets]; cbn.
  - intros [H1 H2]. split; [exact H1|]. destruct pc; cbn in *; intuition.
  - intros [H1 [H2 H3]]. split; [exact H1|]. split; [exact H2|].
    assert (T : forall l, fget Proc lk = Some j -> todo_ok fs l -> todo_ok fs' l).
    { intros l HP [Hn Hp]. split; [exact Hn|]. intros m Hm. apply (F3 HP). apply Hp. exact Hm. }
    assert (R : forall n rs, fget (Node n) lk = Some j -> has_rows fs n rs -> has_rows fs' n rs).
    { intros n rs HL [its [E1 E2]]. exists its. split; [|exact E2]. rewrite (F2 _ HL). exact E1. }
    destruct pc; cbn in *; intuition.
Qed.

Lemma present_fset f g v (fs : list (fid * list item)) : present g fs -> present g (fset f v fs).
Proof.
  unfold present. destruct (fid_eq_dec g f) as [->|H].
  - rewrite fget_fset_same. discriminate.
  - rewrite (fget_fset_other f g v fs H). tauto.
Qed.

Lemma others_lock_acq fs lk f i j b :
  fget f lk = None -> actor_ok fs lk j b -> actor_ok fs (fset f i lk) j b.
Proof.
  intros H. apply actor_ok_frame; [|reflexivity|tauto].
  intros g Hg. rewrite fget_fset_other; [exact Hg|]. intros ->. congruence.
Qed.
Lemma others_lock_rel fs lk f i j b :
  fget f lk = Some i -> j <> i -> actor_ok fs lk j b -> actor_ok fs (fdel f lk) j b.
Proof.
  intros H Hj. apply actor_ok_frame; [|reflexivity|tauto].
  intros g Hg. rewrite fget_fdel_other; [exact Hg|]. intros ->. congruence.
Qed.
Lemma others_file_set fs lk f v i j b :
  fget f lk = Some i -> j <> i -> actor_ok fs lk j b -> actor_ok (fset f v fs) lk j b.
Proof.
  intros H Hj. apply actor_ok_frame; [tauto| |].
  - intros g Hg. apply fget_fset_other. intros ->. congruence.
  - intros _ g. apply present_fset.
Qed.
Lemma others_file_del fs lk n i j b :
  fget (Node n) lk = Some i -> fget Proc lk = Some i -> j <> i ->
  actor_ok fs lk j b -> actor_ok (fdel (Node n) fs) lk j b.
Proof.
  intros H HP Hj. apply actor_ok_frame; [tauto| |].
  - intros g Hg. apply fget_fdel_other. intros ->. congruence.
  - intros Hc. congruence.
Qed.

Lemma actors_step fs' lk' (acts : list actor) i old new :
  nth_error acts i = Some old ->
  actor_ok fs' lk' i new ->
  (forall j b, j <> i -> nth_error acts j = Some b -> actor_ok fs' lk' j b) ->
  forall j b, nth_error (set_nth i new acts) j = Some b -> actor_ok fs' lk' j b.
Proof.
  intros Ho Hn Hoth j b Hj. destruct (Nat.eq_dec j i) as [->|Hne].
  - rewrite (nth_error_set_nth_eq acts i old new Ho) in Hj. inversion Hj. subst. exact Hn.
  - rewrite nth_error_set_nth_neq in Hj by congruence. apply Hoth; assumption.
Qed.

(* ------------------------------------------------------------------------------------------ *)
(* every step preserves the invariant *)

Lemma wf_append fs f r :
  (forall g its, fget g fs = Some its -> wf_items its) -> row_ok r ->
  wf_items (content f fs ++ (if is_nil (content f fs) then [Hdr; Row r] else [Row r])).
Proof.
  intros Hwf Hr. unfold content. destruct (fget f fs) as [its|] eqn:E.
  - pose proof (Hwf f its E) as W. rewrite (wf_items_not_nil its W).
    apply (wf_items_app its [r] W). constructor; [exact Hr|constructor].
  - cbn. exists [r]. split; [reflexivity|]. constructor; [exact Hr|constructor].
Qed.
Lemma rows_of_append fs f r :
  rows_of (content f fs ++ (if is_nil (content f fs) then [Hdr; Row r] else [Row r])) = rows_of (content f fs) ++ [r].
Proof. rewrite rows_of_app. destruct (is_nil (content f fs)); reflexivity. Qed.
Lemma content_fset_same f v (fs : list (fid * list item)) : content f (fset f v fs) = v.
Proof. unfold content. rewrite fget_fset_same. reflexivity. Qed.
Lemma content_fset_other f g v (fs : list (fid * list item)) : g <> f -> content g (fset f v fs) = content g fs.
Proof. intros H. unfold content. rewrite fget_fset_other by exact H. reflexivity. Qed.
Lemma content_fdel_other f g (fs : list (fid * list item)) : g <> f -> content g (fdel f fs) = content g fs.
Proof. intros H. unfold content. rewrite fget_fdel_other by exact H. reflexivity. Qed.
Lemma direct_app lg f r : direct (lg ++ [(f, r)]) = direct lg ++ (if fid_eqb f Proc then [r] else []).
Proof. unfold direct. rewrite filter_app, map_app. cbn. destruct (fid_eqb f Proc); reflexivity. Qed.
Lemma rets_rows_app a b : rets_rows (a ++ b) = rets_rows a ++ rets_rows b.
Proof. unfold rets_rows. apply flat_map_app. Qed.

Lemma in_node_ids_present (fs : list (fid * list item)) n : In n (node_ids fs) <-> present (Node n) fs.
Proof.
  unfold present. induction fs as [|[g w] fs IH]; cbn; [tauto|].
  rewrite in_app_iff, IH. destruct g as [|m]; cbn.
  - tauto.
  - destruct (N.eqb n m) eqn:E.
    + apply N.eqb_eq in E. subst. split; [discriminate|]. intros _. left. left. reflexivity.
    + split; [|tauto]. intros [[H|[]]|H]; [|exact H]. subst. rewrite N.eqb_refl in E. discriminate.
Qed.
Lemma enum_todo_ok fs perm : is_enum_of perm (node_ids fs) = true -> todo_ok fs perm.
Proof.
  unfold is_enum_of. rewrite !andb_true_iff. intros [[H1 H2] H3]. split.
  - apply nodupbN_spec. exact H1.
  - intros m Hm. apply in_node_ids_present. rewrite subsetN_spec in H2. apply H2. exact Hm.
Qed.
Lemma todo_ok_fset f v fs l : todo_ok fs l -> todo_ok (fset f v fs) l.
Proof. intros [H1 H2]. split; [exact H1|]. intros m Hm. apply present_fset. apply H2. exact Hm. Qed.

Lemma cnt_nil r : count_occ row_eq_dec [] r = 0.
Proof. reflexivity. Qed.

Ltac cnt_norm :=
  repeat (rewrite ?flat_map_app, ?count_occ_app, ?map_app, ?rows_of_app, ?rets_rows_app, ?rows_of_map_Row, ?app_nil_r, ?cnt_nil in *;
          cbn [flat_map dup_of moved_of rets_rows map snd rows_of app] in *).

Lemma step_inv s i perm s' o : Inv s -> step s i perm = Some (s', o) -> Inv s'.
Proof.
  intros HI Hs. unfold step in Hs.
  destruct (nth_error (actors s) i) as [a|] eqn:Ha; [|discriminate].
  pose proof (inv_actors s HI i a Ha) as Hok.
  destruct (set_nth_split (actors s) i a Ha) as [l1 [l2 [El [Elen Eset]]]].
  destruct HI as [Hnd Hwf Hproc Hacts Hacc Hrep].
  destruct s as [fs lk acts lg]. cbn [files locks actors log] in *.
  destruct a as [todo pc|rounds pc acc failed rets].
  - destruct pc as [|f r|f].
    + (* appender acquires *)
      destruct todo as [|[f r] rest]; [discriminate|].
      destruct (fget f lk) eqn:El0; [discriminate|]. inversion Hs; subst s' o; clear Hs.
      cbn in Hok. destruct Hok as [Htodo _]. inversion Htodo as [|? ? Hr Hrest]; subst.
      constructor; cbn [files locks actors log].
      * exact Hnd.
      * exact Hwf.
      * exact Hproc.
      * eapply actors_step; [exact Ha| |].
        -- cbn [actor_ok cpc_ok apc_ok]. split; [exact Hrest|]. split; [exact Hr|apply fget_fset_same].
        -- intros j b Hj Hb. apply others_lock_acq; [exact El0|]. apply Hacts. exact Hb.
      * intros r0. rewrite Hacc. rewrite Eset. rewrite !flat_map_app. cbn [flat_map dup_of]. reflexivity.
      * intros r0. rewrite Hrep. rewrite Eset. rewrite !flat_map_app. cbn [flat_map moved_of]. reflexivity.
    + (* appender appends *)
      inversion Hs; subst s' o; clear Hs. cbn in Hok. destruct Hok as [Htodo [Hr Hl]].
      constructor; cbn [files locks actors log].
      * apply keys_fset_nodup. exact Hnd.
      * intros g its Hg. destruct (fid_eq_dec g f) as [->|Hne].
        -- rewrite fget_fset_same in Hg. inversion Hg. apply wf_append; assumption.
        -- rewrite fget_fset_other in Hg by exact Hne. apply (Hwf g). exact Hg.
      * apply present_fset. exact Hproc.
      * eapply actors_step; [exact Ha| |].
        -- cbn [actor_ok cpc_ok apc_ok]. split; [exact Htodo|exact Hl].
        -- intros j b Hj Hb. apply (others_file_set fs lk f _ i); [exact Hl|exact Hj|]. apply Hacts. exact Hb.
      * intros r0. specialize (Hacc r0). pose proof (cnt_fset f (content f fs ++ (if is_nil (content f fs) then [Hdr; Row r] else [Row r])) fs r0 Hnd) as X.
        rewrite rows_of_append in X. rewrite Eset. subst acts. cnt_norm. lia.
      * intros r0. specialize (Hrep r0). rewrite direct_app. rewrite Eset. subst acts.
        destruct f as [|n].
        -- rewrite content_fset_same, rows_of_append. cbn [fid_eqb]. cnt_norm. lia.
        -- rewrite content_fset_other by discriminate. cbn [fid_eqb]. cnt_norm. lia.
    + (* appender releases *)
      inversion Hs; subst s' o; clear Hs. cbn in Hok. destruct Hok as [Htodo Hl].
      constructor; cbn [files locks actors log]; try assumption.
      * eapply actors_step; [exact Ha| |].
        -- cbn [actor_ok cpc_ok apc_ok]. split; [exact Htodo|exact I].
        -- intros j b Hj Hb. apply (others_lock_rel fs lk f i); [exact Hl|exact Hj|]. apply Hacts. exact Hb.
      * intros r0. rewrite Hacc. rewrite Eset. subst acts. rewrite !flat_map_app. reflexivity.
      * intros r0. rewrite Hrep. rewrite Eset. subst acts. rewrite !flat_map_app. reflexivity.
  - cbn in Hok. destruct Hok as [Hf [Hrets Hpc]]. subst failed.
    destruct pc as [| |todo|n todo|n rs todo|n rs todo|n todo]; cbn in Hpc.
    + (* collector acquires the processed lock *)
      destruct rounds as [|k]; [discriminate|].
      destruct (fget Proc lk) eqn:El0; [discriminate|]. inversion Hs; subst s' o; clear Hs. subst acc.
      constructor; cbn [files locks actors log]; try assumption.
      * eapply actors_step; [exact Ha| |].
        -- cbn [actor_ok cpc_ok apc_ok]. split; [reflexivity|]. split; [exact Hrets|first [reflexivity|apply fget_fset_same]].
        -- intros j b Hj Hb. apply others_lock_acq; [exact El0|]. apply Hacts. exact Hb.
      * intros r0. rewrite Hacc. rewrite Eset. subst acts. rewrite !flat_map_app. reflexivity.
      * intros r0. rewrite Hrep. rewrite Eset. subst acts. rewrite !flat_map_app. reflexivity.
    + (* glob *)
      destruct (is_enum_of perm (node_ids fs)) eqn:Ee; [|discriminate].
      inversion Hs; subst s' o; clear Hs. unfold with_actor. cbn [files locks actors log].
      constructor; cbn [files locks actors log]; try assumption.
      * eapply actors_step; [exact Ha| |].
        -- cbn [actor_ok cpc_ok apc_ok]. split; [reflexivity|]. split; [exact Hrets|]. split; [exact Hpc|apply enum_todo_ok; exact Ee].
        -- intros j b Hj Hb. apply Hacts. exact Hb.
      * intros r0. rewrite Hacc. rewrite Eset. subst acts. rewrite !flat_map_app. reflexivity.
      * intros r0. rewrite Hrep. rewrite Eset. subst acts. rewrite !flat_map_app. reflexivity.
    + destruct Hpc as [HP Htodo]. destruct todo as [|n todo].
      * (* release the processed lock, return *)
        inversion Hs; subst s' o; clear Hs.
        constructor; cbn [files locks actors log]; try assumption.
        -- eapply actors_step; [exact Ha| |].
           ++ cbn [actor_ok cpc_ok apc_ok]. split; [reflexivity|]. split; [|reflexivity].
              apply Forall_app. split; [exact Hrets|]. constructor; [discriminate|constructor].
           ++ intros j b Hj Hb. apply (others_lock_rel fs lk Proc i); [exact HP|exact Hj|]. apply Hacts. exact Hb.
        -- intros r0. rewrite Hacc. rewrite Eset. subst acts. rewrite !flat_map_app. reflexivity.
        -- intros r0. specialize (Hrep r0). rewrite Eset. subst acts. cnt_norm. lia.
      * (* acquire the node file's lock *)
        destruct (fget (Node n) lk) eqn:El0; [discriminate|]. inversion Hs; subst s' o; clear Hs.
        constructor; cbn [files locks actors log]; try assumption.
        -- eapply actors_step; [exact Ha| |].
           ++ cbn [actor_ok cpc_ok apc_ok]. split; [reflexivity|]. split; [exact Hrets|]. split; [|split; [first [reflexivity|apply fget_fset_same]|exact Htodo]].
              rewrite fget_fset_other by discriminate. exact HP.
           ++ intros j b Hj Hb. apply others_lock_acq; [exact El0|]. apply Hacts. exact Hb.
        -- intros r0. rewrite Hacc. rewrite Eset. subst acts. rewrite !flat_map_app. reflexivity.
        -- intros r0. rewrite Hrep. rewrite Eset. subst acts. rewrite !flat_map_app. reflexivity.
    + (* read the node file *)
      destruct Hpc as [HP [HN Htodo]].
      assert (Hpres : present (Node n) fs) by (apply (proj2 Htodo); left; reflexivity).
      destruct (fget (Node n) fs) as [its|] eqn:Ef; [|exfalso; apply Hpres; exact Ef].
      rewrite (read_items_wf its (Hwf _ _ Ef)) in Hs.
      inversion Hs; subst s' o; clear Hs. unfold with_actor. cbn [files locks actors log].
      constructor; cbn [files locks actors log]; try assumption.
      * eapply actors_step; [exact Ha| |].
        -- cbn [actor_ok cpc_ok apc_ok]. split; [reflexivity|]. split; [exact Hrets|]. repeat split; try assumption; try apply Htodo.
           exists its. split; [exact Ef|reflexivity].
        -- intros j b Hj Hb. apply Hacts. exact Hb.
      * intros r0. rewrite Hacc. rewrite Eset. subst acts. rewrite !flat_map_app. reflexivity.
      * intros r0. rewrite Hrep. rewrite Eset. subst acts. rewrite !flat_map_app. reflexivity.
    + (* append to the processed file *)
      destruct Hpc as [HP [HN [Htodo [its [Ef Er]]]]].
      inversion Hs; subst s' o; clear Hs.
      assert (Hrs : Forall row_ok rs) by (rewrite <- Er; apply wf_items_rows; apply (Hwf _ _ Ef)).
      constructor; cbn [files locks actors log].
      * apply keys_fset_nodup. exact Hnd.
      * intros g its' Hg. destruct (fid_eq_dec g Proc) as [->|Hne].
        -- rewrite fget_fset_same in Hg. inversion Hg. apply wf_items_app; [|exact Hrs].
           unfold content. unfold present in Hproc. destruct (fget Proc fs) as [itp|] eqn:Ep; [|congruence].
           apply (Hwf _ _ Ep).
        -- rewrite fget_fset_other in Hg by exact Hne. apply (Hwf g). exact Hg.
      * apply present_fset. exact Hproc.
      * eapply actors_step; [exact Ha| |].
        -- cbn [actor_ok cpc_ok apc_ok]. split; [reflexivity|]. split; [exact Hrets|]. split; [exact HP|]. split; [exact HN|].
           split; [apply todo_ok_fset; exact Htodo|]. exists its. split; [|exact Er].
           rewrite fget_fset_other by discriminate. exact Ef.
        -- intros j b Hj Hb. apply (others_file_set fs lk Proc _ i); [exact HP|exact Hj|]. apply Hacts. exact Hb.
      * intros r0. specialize (Hacc r0). pose proof (cnt_fset Proc (content Proc fs ++ map Row rs) fs r0 Hnd) as X.
        rewrite Eset. subst acts. cnt_norm. lia.
      * intros r0. specialize (Hrep r0). rewrite content_fset_same. rewrite Eset. subst acts. cnt_norm. lia.
    + (* remove the node file *)
      destruct Hpc as [HP [HN [Htodo [its [Ef Er]]]]]. rewrite Ef in Hs.
      inversion Hs; subst s' o; clear Hs.
      constructor; cbn [files locks actors log].
      * apply keys_fdel_nodup. exact Hnd.
      * intros g its' Hg. destruct (fid_eq_dec g (Node n)) as [->|Hne].
        -- rewrite fget_fdel_same in Hg. discriminate.
        -- rewrite fget_fdel_other in Hg by exact Hne. apply (Hwf g). exact Hg.
      * unfold present. rewrite fget_fdel_other by discriminate. exact Hproc.
      * eapply actors_step; [exact Ha| |].
        -- cbn [actor_ok cpc_ok apc_ok]. split; [reflexivity|]. split; [exact Hrets|]. split; [exact HP|]. split; [exact HN|].
           destruct Htodo as [Hn Hp]. inversion Hn as [|? ? Hnin Hnd']; subst. split; [exact Hnd'|].
           intros m Hm. unfold present. rewrite fget_fdel_other.
           ++ apply Hp. right. exact Hm.
           ++ intros E. inversion E. subst. contradiction.
        -- intros j b Hj Hb. apply (others_file_del fs lk n i); [exact HN|exact HP|exact Hj|]. apply Hacts. exact Hb.
      * intros r0. specialize (Hacc r0). pose proof (cnt_fdel (Node n) fs r0 Hnd) as X.
        unfold content in X. rewrite Ef, Er in X. rewrite Eset. subst acts. cnt_norm. lia.
      * intros r0. specialize (Hrep r0). rewrite content_fdel_other by discriminate. rewrite Eset. subst acts. cnt_norm. lia.
    + (* release the node file's lock *)
      destruct Hpc as [HP [HN Htodo]]. inversion Hs; subst s' o; clear Hs.
      constructor; cbn [files locks actors log]; try assumption.
      * eapply actors_step; [exact Ha| |].
        -- cbn [actor_ok cpc_ok apc_ok]. split; [reflexivity|]. split; [exact Hrets|]. split; [|exact Htodo].
           rewrite fget_fdel_other by discriminate. exact HP.
        -- intros j b Hj Hb. apply (others_lock_rel fs lk (Node n) i); [exact HN|exact Hj|]. apply Hacts. exact Hb.
      * intros r0. rewrite Hacc. rewrite Eset. subst acts. rewrite !flat_map_app. reflexivity.
      * intros r0. rewrite Hrep. rewrite Eset. subst acts. rewrite !flat_map_app. reflexivity.
Qed.

(* ------------------------------------------------------------------------------------------ *)
(* initial states, runs *)


Lemma initial_no_dups acts : Forall initial_actor acts -> flat_map dup_of acts = [] /\ flat_map moved_of acts = [].
Proof.
  induction 1 as [|a acts Ha Hacts [IH1 IH2]]; [split; reflexivity|].
  cbn [flat_map]. rewrite IH1, IH2.
  destruct a as [todo pc|rounds pc acc failed rets]; [split; reflexivity|].
  destruct pc; try contradiction. destruct acc; try contradiction. destruct failed; try contradiction.
  destruct rets; try contradiction. split; reflexivity.
Qed.

Lemma Inv_init acts : Forall initial_actor acts -> Inv (init acts).
Proof.
  intros H. destruct (initial_no_dups acts H) as [E1 E2].
  constructor; cbn [init files locks actors log].
  - cbn. constructor; [intros []|constructor].
  - intros f its Hf. cbn in Hf. destruct (fid_eqb f Proc); [|discriminate]. inversion Hf.
    exists []. split; [reflexivity|constructor].
  - unfold present. cbn. discriminate.
  - intros i a Ha. apply nth_error_In in Ha. rewrite Forall_forall in H. specialize (H a Ha).
    destruct a as [todo pc|rounds pc acc failed rets]; cbn in *.
    + destruct pc; try contradiction. split; [exact H|exact I].
    + destruct pc; try contradiction. destruct acc; try contradiction. destruct failed; try contradiction.
      destruct rets; try contradiction. repeat split. constructor.
  - intros r. rewrite E1. reflexivity.
  - intros r. rewrite E2. reflexivity.
Qed.

Lemma run_inv sch : forall s s' ops, Inv s -> run s sch = Some (s', ops) -> Inv s'.
Proof.
  induction sch as [|[i perm] sch IH]; intros s s' ops HI Hr; cbn in Hr.
  - inversion Hr. subst. exact HI.
  - destruct (step s i perm) as [[s1 o]|] eqn:Es; [|discriminate].
    destruct (run s1 sch) as [[s2 os]|] eqn:Er; [|discriminate]. inversion Hr; subst.
    apply (IH s1 s' os); [|exact Er]. apply (step_inv s i perm s1 o HI Es).
Qed.

Lemma run_app s sch1 sch2 :
  run s (sch1 ++ sch2) =
  match run s sch1 with
  | None => None
  | Some (s1, o1) => match run s1 sch2 with None => None | Some (s2, o2) => Some (s2, o1 ++ o2) end
  end.
Proof.
  revert s. induction sch1 as [|[i perm] sch1 IH]; intros s; cbn.
  - destruct (run s sch2) as [[s2 o2]|]; reflexivity.
  - destruct (step s i perm) as [[s1 o]|]; [|reflexivity]. rewrite IH.
    destruct (run s1 sch1) as [[s1' o1]|]; [|reflexivity].
    destruct (run s1' sch2) as [[s2 o2]|]; reflexivity.
Qed.


Lemma reachable_inv acts s : Forall initial_actor acts -> reachable acts s -> Inv s.
Proof. intros H [sch [ops Hr]]. apply (run_inv sch (init acts) s ops); [apply Inv_init; exact H|exact Hr]. Qed.

(* ------------------------------------------------------------------------------------------ *)
(* consequences *)

Lemma quiescent_dups acts : forallb actor_idle acts = true -> flat_map dup_of acts = [].
Proof.
  induction acts as [|a acts IH]; [reflexivity|]. cbn [forallb flat_map]. rewrite andb_true_iff. intros [H1 H2].
  rewrite (IH H2), app_nil_r. destruct a as [todo pc|rounds pc acc failed rets]; [reflexivity|].
  destruct pc; try discriminate. reflexivity.
Qed.

Lemma quiescent_moved fs lk acts :
  (forall i a, nth_error acts i = Some a -> actor_ok fs lk i a) ->
  forallb actor_idle acts = true ->
  flat_map moved_of acts = flat_map (fun a => match a with Col _ _ _ _ rets => rets_rows rets | _ => [] end) acts.
Proof.
  revert fs lk. induction acts as [|a acts IH]; intros fs lk Hok Hq; [reflexivity|].
  cbn [forallb flat_map] in *. rewrite andb_true_iff in Hq. destruct Hq as [H1 H2].
  f_equal.
  - pose proof (Hok 0 a eq_refl) as H0. destruct a as [todo pc|rounds pc acc failed rets]; [reflexivity|].
    destruct pc; try discriminate. cbn in H0. destruct H0 as [_ [_ ->]]. cbn. rewrite app_nil_r. reflexivity.
  - (* the tail: the statement does not depend on the actor numbers *)
    assert (G : forall acts0 : list actor,
               (forall a0, In a0 acts0 -> forall rounds pc acc failed rets, a0 = Col rounds pc acc failed rets -> pc = CIdle -> acc = []) ->
               forallb actor_idle acts0 = true ->
               flat_map moved_of acts0 = flat_map (fun a => match a with Col _ _ _ _ rets => rets_rows rets | _ => [] end) acts0).
    { clear. induction acts0 as [|a acts0 IH0]; intros Hc Hq; [reflexivity|].
      cbn [forallb flat_map] in *. rewrite andb_true_iff in Hq. destruct Hq as [H1 H2]. f_equal.
      - destruct a as [todo pc|rounds pc acc failed rets]; [reflexivity|]. destruct pc; try discriminate.
        rewrite (Hc _ (or_introl eq_refl) _ _ _ _ _ eq_refl eq_refl). cbn. rewrite app_nil_r. reflexivity.
      - apply IH0; [|exact H2]. intros a0 Ha0. apply Hc. right. exact Ha0. }
    apply G; [|exact H2]. intros a0 Ha0 rounds pc acc failed rets -> ->.
    apply In_nth_error in Ha0. destruct Ha0 as [k Hk]. pose proof (Hok (S k) _ Hk) as H0. cbn in H0. tauto.
Qed.

Theorem exactly_once acts s :
  Forall initial_actor acts -> reachable acts s -> quiescent s = true ->
  Permutation (proc_rows s ++ node_rows s) (map snd (log s)).
Proof.
  intros Hi Hr Hq. pose proof (reachable_inv acts s Hi Hr) as HI.
  apply (Permutation_count_occ row_eq_dec). intros r.
  pose proof (inv_acc s HI r) as A. unfold quiescent in Hq. rewrite (quiescent_dups _ Hq) in A. cbn in A.
  pose proof (cnt_fdel Proc (files s) r (inv_nodup s HI)) as D.
  unfold proc_rows, node_rows. rewrite count_occ_app. lia.
Qed.

Theorem reported_are_moved acts s :
  Forall initial_actor acts -> reachable acts s -> quiescent s = true ->
  Permutation (proc_rows s) (direct (log s) ++ reported s).
Proof.
  intros Hi Hr Hq. pose proof (reachable_inv acts s Hi Hr) as HI.
  apply (Permutation_count_occ row_eq_dec). intros r.
  pose proof (inv_rep s HI r) as A. unfold quiescent in Hq.
  rewrite (quiescent_moved (files s) (locks s) (actors s) (inv_actors s HI) Hq) in A.
  unfold proc_rows, reported. rewrite count_occ_app. exact A.
Qed.


Lemma cnt_log_split lg r : cnt r (map snd lg) = cnt r (direct lg) + cnt r (node_log lg).
Proof.
  unfold direct, node_log. induction lg as [|[f x] lg IH]; [reflexivity|].
  cbn [map snd filter fst]. destruct (fid_eqb f Proc); cbn [negb map snd].
  - destruct (row_eq_dec x r) as [E|E].
    + rewrite !(count_occ_cons_eq _ _ E). lia.
    + rewrite !(count_occ_cons_neq _ _ E). lia.
  - destruct (row_eq_dec x r) as [E|E].
    + rewrite !(count_occ_cons_eq _ _ E). lia.
    + rewrite !(count_occ_cons_neq _ _ E). lia.
Qed.

(* every row appended to a node file is still in a node file or in exactly one return value *)
Theorem reported_once acts s :
  Forall initial_actor acts -> reachable acts s -> quiescent s = true ->
  Permutation (reported s ++ node_rows s) (node_log (log s)).
Proof.
  intros Hi Hr Hq.
  pose proof (exactly_once acts s Hi Hr Hq) as P1. pose proof (reported_are_moved acts s Hi Hr Hq) as P2.
  apply (Permutation_count_occ row_eq_dec). intros r.
  rewrite (Permutation_count_occ row_eq_dec) in P1, P2. specialize (P1 r). specialize (P2 r).
  rewrite count_occ_app in *. pose proof (cnt_log_split (log s) r). lia.
Qed.

Theorem files_parse acts s f its :
  Forall initial_actor acts -> reachable acts s -> fget f (files s) = Some its ->
  exists rs, its = Hdr :: map Row rs /\ read_items its = Some rs /\
             Forall (fun r => parse_line delim (format_row r) = Some (row_fields r)) rs.
Proof.
  intros Hi Hr Hf. pose proof (reachable_inv acts s Hi Hr) as HI.
  pose proof (inv_wf s HI f its Hf) as W. pose proof (read_items_wf its W) as R.
  destruct W as [rs [-> Hrs]]. exists rs. cbn [rows_of] in R. rewrite rows_of_map_Row in R.
  split; [reflexivity|]. split; [exact R|].
  rewrite Forall_forall in *. intros r Hin. destruct (Hrs r Hin) as [H1 _].
  apply parse_format_line; [apply delim_is_ok|exact H1].
Qed.

(* no collect round ever fails (FileNotFoundError / ValueError), and locks exclude *)
Theorem no_failure acts s i rounds pc acc failed rets :
  Forall initial_actor acts -> reachable acts s ->
  nth_error (actors s) i = Some (Col rounds pc acc failed rets) ->
  failed = false /\ Forall (fun o => o <> None) rets.
Proof.
  intros Hi Hr Ha. pose proof (inv_actors s (reachable_inv acts s Hi Hr) i _ Ha) as H. cbn in H. tauto.
Qed.


Lemma holds_lock fs lk i a f : actor_ok fs lk i a -> holds a f -> fget f lk = Some i.
Proof.
  destruct a as [todo pc|rounds pc acc failed rets]; cbn.
  - destruct pc; cbn; intros H Hh; try contradiction; subst; tauto.
  - destruct pc; cbn; intros H Hh; try contradiction; try (subst; tauto); destruct Hh; subst; tauto.
Qed.

Theorem mutual_exclusion acts s i j a b f :
  Forall initial_actor acts -> reachable acts s ->
  nth_error (actors s) i = Some a -> nth_error (actors s) j = Some b ->
  holds a f -> holds b f -> i = j.
Proof.
  intros Hi Hr Ha Hb H1 H2. pose proof (reachable_inv acts s Hi Hr) as HI.
  pose proof (holds_lock _ _ _ _ f (inv_actors s HI i a Ha) H1) as E1.
  pose proof (holds_lock _ _ _ _ f (inv_actors s HI j b Hb) H2) as E2. congruence.
Qed.

(* ------------------------------------------------------------------------------------------ *)
(* the log is what the appenders' programs have written so far *)


Ltac pend_norm :=
  repeat (rewrite ?flat_map_app, ?count_occ_app, ?map_app, ?app_nil_r, ?cnt_nil in *;
          cbn [flat_map pending_of map snd] in *).

Lemma step_pending s i perm s' o r :
  step s i perm = Some (s', o) ->
  cnt r (map snd (log s')) + cnt r (pending s') = cnt r (map snd (log s)) + cnt r (pending s).
Proof.
  intros Hs. unfold step in Hs. unfold pending.
  destruct (nth_error (actors s) i) as [a|] eqn:Ha; [|discriminate].
  destruct (set_nth_split (actors s) i a Ha) as [l1 [l2 [El [Elen Eset]]]].
  destruct s as [fs lk acts lg]. cbn [files locks actors log] in *.
  destruct a as [todo pc|rounds pc acc failed rets].
  - destruct pc as [|f x|f].
    + destruct todo as [|[f x] rest]; [discriminate|]. destruct (fget f lk); [discriminate|].
      inversion Hs; subst s' o; clear Hs. cbn [actors log]. rewrite Eset. subst acts. pend_norm.
      change (x :: map snd rest) with ([x] ++ map snd rest). rewrite count_occ_app. lia.
    + inversion Hs; subst s' o; clear Hs. cbn [actors log]. rewrite Eset. subst acts. pend_norm. lia.
    + inversion Hs; subst s' o; clear Hs. cbn [actors log]. rewrite Eset. subst acts. pend_norm. lia.
  - assert (G : forall new fs' lk', s' = mkstate fs' lk' (set_nth i new acts) lg ->
                (exists a b c d e, new = Col a b c d e) ->
                cnt r (map snd (log s')) + cnt r (flat_map pending_of (actors s')) =
                cnt r (map snd lg) + cnt r (flat_map pending_of acts)).
    { intros new fs' lk' -> [a [b [c [d [e ->]]]]]. cbn [actors log]. rewrite Eset. subst acts. pend_norm. lia. }
    destruct pc as [| |todo|n todo|n rs todo|n rs todo|n todo].
    + destruct rounds; [discriminate|]. destruct (fget Proc lk); [discriminate|].
      injection Hs as Es Eo; eapply G; [symmetry; exact Es|repeat eexists].
    + destruct (is_enum_of perm (node_ids fs)); [|discriminate].
      injection Hs as Es Eo; eapply G; [symmetry; exact Es|repeat eexists].
    + destruct todo as [|n todo].
      * injection Hs as Es Eo; eapply G; [symmetry; exact Es|repeat eexists].
      * destruct (fget (Node n) lk); [discriminate|].
        injection Hs as Es Eo; eapply G; [symmetry; exact Es|repeat eexists].
    + destruct (fget (Node n) fs) as [its|]; [destruct (read_items its)|];
        injection Hs as Es Eo; (eapply G; [symmetry; exact Es|repeat eexists]).
    + injection Hs as Es Eo; eapply G; [symmetry; exact Es|repeat eexists].
    + destruct (fget (Node n) fs) as [its|];
        injection Hs as Es Eo; (eapply G; [symmetry; exact Es|repeat eexists]).
    + injection Hs as Es Eo; eapply G; [symmetry; exact Es|repeat eexists].
Qed.

Lemma run_pending sch : forall s s' ops r,
  run s sch = Some (s', ops) ->
  cnt r (map snd (log s')) + cnt r (pending s') = cnt r (map snd (log s)) + cnt r (pending s).
Proof.
  induction sch as [|[i perm] sch IH]; intros s s' ops r Hr; cbn in Hr.
  - inversion Hr. reflexivity.
  - destruct (step s i perm) as [[s1 o]|] eqn:Es; [|discriminate].
    destruct (run s1 sch) as [[s2 os]|] eqn:Er; [|discriminate]. inversion Hr; subst.
    rewrite (IH s1 s' os r Er). apply (step_pending s i perm s1 o r Es).
Qed.


Theorem log_is_progress acts sch s ops :
  run (init acts) sch = Some (s, ops) ->
  Permutation (map snd (log s) ++ pending s) (program_rows acts).
Proof.
  intros Hr. apply (Permutation_count_occ row_eq_dec). intros r.
  rewrite count_occ_app. rewrite (run_pending sch (init acts) s ops r Hr). reflexivity.
Qed.

Lemma done_no_pending acts : forallb (fun a => match a with App [] AIdle => true | App _ _ => false | _ => true end) acts = true ->
  flat_map pending_of acts = [].
Proof.
  induction acts as [|a acts IH]; [reflexivity|]. cbn [forallb flat_map]. rewrite andb_true_iff. intros [H1 H2].
  rewrite (IH H2), app_nil_r. destruct a as [todo pc|]; [|reflexivity].
  destruct todo; [|discriminate]. destruct pc; try discriminate. reflexivity.
Qed.

(* ------------------------------------------------------------------------------------------ *)
(* once all appenders have finished, a complete collect round leaves no node file *)

Definition in_round (a : actor) : bool :=
  match a with Col _ CIdle _ _ _ => false | Col _ _ _ _ _ => true | App _ _ => false end.
Definition covers (fs : list (fid * list item)) (a : actor) : Prop :=
  match a with
  | Col _ (CLoop todo) _ _ _ | Col _ (CRelN _ todo) _ _ _ => forall m, present (Node m) fs -> In m todo
  | Col _ (CRead n todo) _ _ _ | Col _ (CAppend n _ todo) _ _ _ | Col _ (CRemove n _ todo) _ _ _ =>
    forall m, present (Node m) fs -> In m (n :: todo)
  | _ => True
  end.
Definition J (R0 : nat) (s : state) : Prop :=
  appenders_done s = true /\
  (forall a, In a (actors s) -> covers (files s) a) /\
  (total_rounds (actors s) = R0 \/ existsb in_round (actors s) = true \/ node_ids (files s) = []).

Lemma covers_mono fs fs' a :
  (forall m, present (Node m) fs' -> present (Node m) fs) -> covers fs a -> covers fs' a.
Proof.
  intros H. destruct a as [|rounds pc acc failed rets]; [tauto|]. destruct pc; cbn; auto.
Qed.

Lemma no_present_no_ids (fs : list (fid * list item)) : (forall m, ~ present (Node m) fs) -> node_ids fs = [].
Proof.
  intros H. destruct (node_ids fs) as [|m l] eqn:E; [reflexivity|]. exfalso. apply (H m).
  apply in_node_ids_present. rewrite E. left. reflexivity.
Qed.

Lemma no_ids_fdel_proc (fs : list (fid * list item)) : node_ids fs = [] -> fdel Proc fs = [].
Proof.
  induction fs as [|[g w] fs IH]; [reflexivity|]. cbn. destruct g as [|n]; cbn.
  - exact IH.
  - discriminate.
Qed.

Lemma existsb_in_round_mid l1 l2 a : in_round a = true -> existsb in_round (l1 ++ a :: l2) = true.
Proof. intros H. rewrite existsb_app. cbn. rewrite H. apply orb_true_iff. right. reflexivity. Qed.

Lemma done_mid l1 l2 a b :
  forallb (fun a => match a with App [] AIdle => true | App _ _ => false | _ => true end) (l1 ++ a :: l2) = true ->
  (match b with App [] AIdle => true | App _ _ => false | _ => true end) = true ->
  forallb (fun a => match a with App [] AIdle => true | App _ _ => false | _ => true end) (l1 ++ b :: l2) = true.
Proof.
  rewrite !forallb_app. cbn [forallb]. rewrite !andb_true_iff. intros [H1 [_ H2]] Hb. tauto.
Qed.

Lemma step_J R0 s i perm s' o : Inv s -> J R0 s -> step s i perm = Some (s', o) -> J R0 s'.
Proof.
  intros HI [Hd [Hc Hx]] Hs.
  pose proof (step_inv s i perm s' o HI Hs) as HI'.
  unfold step in Hs.
  destruct (nth_error (actors s) i) as [a|] eqn:Ha; [|discriminate].
  pose proof (inv_actors s HI i a Ha) as Hok.
  pose proof (Hc a (nth_error_In _ _ Ha)) as Hca.
  destruct (set_nth_split (actors s) i a Ha) as [l1 [l2 [El [Elen Eset]]]].
  unfold appenders_done in Hd.
  destruct s as [fs lk acts lg]. cbn [files locks actors log] in *.
  destruct a as [todo pc|rounds pc acc failed rets].
  - (* an appender cannot step any more *)
    exfalso. rewrite forallb_forall in Hd. specialize (Hd _ (nth_error_In _ _ Ha)). cbn in Hd.
    destruct todo; [|discriminate]. destruct pc; try discriminate.
  - cbn in Hok. destruct Hok as [Hf [Hrets Hpc]]. subst failed.
    assert (G : forall new fs' lk',
               s' = mkstate fs' lk' (set_nth i new acts) lg ->
               (exists a b c d e, new = Col a b c d e) ->
               (forall m, present (Node m) fs' -> present (Node m) fs) ->
               covers fs' new ->
               (in_round new = true \/ node_ids fs' = []) ->
               J R0 s').
    { intros new fs' lk' -> [a [b [c [d [e ->]]]]] Hmono Hnew Hdisj. unfold J, appenders_done. cbn [files actors].
      rewrite Eset. subst acts. split; [|split].
      - eapply done_mid; [exact Hd|reflexivity].
      - intros a0 Hin. apply in_app_or in Hin. destruct Hin as [Hin|[<-|Hin]].
        + apply (covers_mono fs); [exact Hmono|]. apply Hc. apply in_or_app. left. exact Hin.
        + exact Hnew.
        + apply (covers_mono fs); [exact Hmono|]. apply Hc. apply in_or_app. right. right. exact Hin.
      - destruct Hdisj as [H|H]; [right; left; apply existsb_in_round_mid; exact H|right; right; exact H]. }
    destruct pc as [| |todo|n todo|n rs todo|n rs todo|n todo]; cbn in Hpc, Hca.
    + destruct rounds; [discriminate|]. destruct (fget Proc lk); [discriminate|].
      injection Hs as Es Eo. eapply G; [symmetry; exact Es|repeat eexists|tauto|exact I|left; reflexivity].
    + destruct (is_enum_of perm (node_ids fs)) eqn:Ee; [|discriminate].
      injection Hs as Es Eo. unfold with_actor in Es. cbn [files locks actors log] in Es.
      eapply G; [symmetry; exact Es|repeat eexists|tauto| |left; reflexivity].
      cbn. intros m Hm. unfold is_enum_of in Ee. rewrite !andb_true_iff in Ee. destruct Ee as [_ E3].
      rewrite subsetN_spec in E3. apply E3. apply in_node_ids_present. exact Hm.
    + destruct todo as [|n todo].
      * injection Hs as Es Eo. eapply G; [symmetry; exact Es|repeat eexists|tauto|exact I|].
        right. apply no_present_no_ids. intros m Hm. apply (Hca m Hm).
      * destruct (fget (Node n) lk); [discriminate|].
        injection Hs as Es Eo. eapply G; [symmetry; exact Es|repeat eexists|tauto|exact Hca|left; reflexivity].
    + destruct Hpc as [HP [HN Htodo]].
      assert (Hpres : present (Node n) fs) by (apply (proj2 Htodo); left; reflexivity).
      destruct (fget (Node n) fs) as [its|] eqn:Ef; [|exfalso; apply Hpres; exact Ef].
      rewrite (read_items_wf its (inv_wf _ HI _ _ Ef)) in Hs.
      injection Hs as Es Eo. unfold with_actor in Es. cbn [files locks actors log] in Es.
      eapply G; [symmetry; exact Es|repeat eexists|tauto|exact Hca|left; reflexivity].
    + injection Hs as Es Eo. eapply G; [symmetry; exact Es|repeat eexists| | |left; reflexivity].
      * intros m. unfold present. rewrite fget_fset_other by discriminate. tauto.
      * cbn. intros m Hm. apply Hca. revert Hm. unfold present. rewrite fget_fset_other by discriminate. tauto.
    + destruct Hpc as [HP [HN [Htodo [its [Ef Er]]]]]. rewrite Ef in Hs.
      injection Hs as Es Eo. eapply G; [symmetry; exact Es|repeat eexists| | |left; reflexivity].
      * intros m. unfold present. destruct (N.eq_dec m n) as [->|Hne].
        -- rewrite fget_fdel_same. tauto.
        -- rewrite fget_fdel_other by congruence. tauto.
      * cbn. intros m. unfold present. destruct (N.eq_dec m n) as [->|Hne].
        -- rewrite fget_fdel_same. tauto.
        -- rewrite fget_fdel_other by congruence. intros Hm. destruct (Hca m Hm) as [E|Hin]; [congruence|exact Hin].
    + injection Hs as Es Eo. eapply G; [symmetry; exact Es|repeat eexists|tauto|exact Hca|left; reflexivity].
Qed.

Lemma run_J sch : forall R0 s s' ops, Inv s -> J R0 s -> run s sch = Some (s', ops) -> J R0 s'.
Proof.
  induction sch as [|[i perm] sch IH]; intros R0 s s' ops HI HJ Hr; cbn in Hr.
  - inversion Hr. subst. exact HJ.
  - destruct (step s i perm) as [[s1 o]|] eqn:Es; [|discriminate].
    destruct (run s1 sch) as [[s2 os]|] eqn:Er; [|discriminate]. inversion Hr; subst.
    apply (IH R0 s1 s' os); [apply (step_inv s i perm s1 o HI Es)|apply (step_J R0 s i perm s1 o HI HJ Es)|exact Er].
Qed.

Lemma idle_covers fs a : actor_idle a = true -> covers fs a.
Proof. destruct a as [|rounds pc acc failed rets]; [intros; exact I|]. destruct pc; try discriminate. intros; exact I. Qed.

Lemma quiescent_not_in_round acts : forallb actor_idle acts = true -> existsb in_round acts = false.
Proof.
  induction acts as [|a acts IH]; [reflexivity|]. cbn [forallb existsb]. rewrite andb_true_iff. intros [H1 H2].
  rewrite (IH H2), orb_false_r. destruct a as [|rounds pc acc failed rets]; [reflexivity|]. destruct pc; try discriminate. reflexivity.
Qed.

Lemma quiescent_J s : quiescent s = true -> appenders_done s = true -> J (total_rounds (actors s)) s.
Proof.
  intros Hq Hd. split; [exact Hd|]. split; [|left; reflexivity].
  intros a Hin. apply idle_covers. unfold quiescent in Hq. rewrite forallb_forall in Hq. apply Hq. exact Hin.
Qed.

Lemma reachable_trans acts s sch s' ops : reachable acts s -> run s sch = Some (s', ops) -> reachable acts s'.
Proof.
  intros [sch0 [ops0 H0]] Hr. exists (sch0 ++ sch), (ops0 ++ ops). rewrite run_app, H0, Hr. reflexivity.
Qed.

(* after all appenders have finished: any continuation in which at least one collect round was
   started and which ends with nobody inside a locked section leaves every row of the
   programs exactly once in the processed file, every node row in exactly one return value,
   and no node file *)
Theorem final_collect acts s sch s' ops :
  Forall initial_actor acts -> reachable acts s -> quiescent s = true -> appenders_done s = true ->
  run s sch = Some (s', ops) -> quiescent s' = true ->
  total_rounds (actors s') <> total_rounds (actors s) ->
  node_ids (files s') = [] /\
  Permutation (reported s') (node_log (log s')) /\
  Permutation (proc_rows s') (program_rows acts).
Proof.
  intros Hi Hr Hq Hd Hrun Hq' Hrounds.
  pose proof (reachable_inv acts s Hi Hr) as HI.
  pose proof (run_J sch _ s s' ops HI (quiescent_J s Hq Hd) Hrun) as [Hd' [_ Hx]].
  pose proof (reachable_trans acts s sch s' ops Hr Hrun) as Hr'.
  assert (Hids : node_ids (files s') = []).
  { destruct Hx as [H|[H|H]]; [congruence| |exact H].
    unfold quiescent in Hq'. rewrite (quiescent_not_in_round _ Hq') in H. discriminate. }
  assert (Hnr : node_rows s' = []) by (unfold node_rows; rewrite (no_ids_fdel_proc _ Hids); reflexivity).
  split; [exact Hids|]. split.
  - pose proof (reported_once acts s' Hi Hr' Hq') as P. rewrite Hnr, app_nil_r in P. exact P.
  - pose proof (exactly_once acts s' Hi Hr' Hq') as P. rewrite Hnr, app_nil_r in P.
    destruct Hr' as [sch1 [ops1 H1]]. pose proof (log_is_progress acts sch1 s' ops1 H1) as L.
    unfold pending in L. unfold appenders_done in Hd'. rewrite (done_no_pending _ Hd'), app_nil_r in L.
    eapply Permutation_trans; [exact P|exact L].
Qed.

(* ------------------------------------------------------------------------------------------ *)
(* boolean forms *)
Lemma row_okb_spec r : row_okb r = true -> row_ok r.
Proof.
  unfold row_okb, row_ok. rewrite andb_true_iff, forallb_forall. intros [H1 H2]. split; [|exact H2].
  apply Forall_forall. intros x Hx. apply no_crlfb_spec. apply H1. exact Hx.
Qed.
Lemma initial_actorb_spec acts : forallb initial_actorb acts = true -> Forall initial_actor acts.
Proof.
  rewrite forallb_forall. intros H. apply Forall_forall. intros a Ha. specialize (H a Ha).
  destruct a as [todo pc|rounds pc acc failed rets]; cbn in *.
  - destruct pc; try discriminate. rewrite forallb_forall in H. apply Forall_forall. intros p Hp.
    apply row_okb_spec. apply H. exact Hp.
  - destruct pc; try discriminate. destruct acc; try discriminate. destruct failed; try discriminate.
    destruct rets; try discriminate. exact I.
Qed.
