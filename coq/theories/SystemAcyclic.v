(* An executable test for the hypotheses `acyclic` and `nodes_ok` of the completeness / independence theorems, so that
   the check can evaluate them on every scenario it runs: `acyclicb sc = true -> acyclic sc`.
   Ranks are assigned in passes: a job gets rank 1 + max rank of its blockers once all its blockers (which must be
   configured jobs) have a rank; |jobs| passes suffice for an acyclic graph. *)
From Coq Require Import List ZArith NArith Bool Arith Lia.
From Jade Require Import Base System SystemFault SystemComplete.
Import ListNotations.
Open Scope N_scope.

(* invariant of the assignment: every ranked job's blockers are ranked strictly lower *)
Definition good (sc : scenario) (a : list (N * nat)) : Prop :=
  forall j r, lookup_rank j a = Some r -> forall d, In d (deps sc j) -> exists rd, lookup_rank d a = Some rd /\ (rd < r)%nat.

Lemma deps_rank_spec ds a m : deps_rank ds a = Some m ->
  forall d, In d ds -> exists rd, lookup_rank d a = Some rd /\ (rd < m)%nat.
Proof.
  revert m. induction ds as [|x t IH]; intros m H d Hd; [contradiction|].
  change (deps_rank (x :: t) a) with (match lookup_rank x a, deps_rank t a with
                                      | Some r, Some m0 => Some (Nat.max (S r) m0) | _, _ => None end) in H.
  destruct (lookup_rank x a) as [r|] eqn:Ex; [|discriminate]. destruct (deps_rank t a) as [m'|] eqn:Et; [|discriminate].
  assert (Em : m = Nat.max (S r) m') by congruence. clear H.
  pose proof (Nat.le_max_l (S r) m') as L1. pose proof (Nat.le_max_r (S r) m') as L2. rewrite <- Em in L1, L2.
  destruct Hd as [<-|Hd].
  - exists r. split; [exact Ex|lia].
  - destruct (IH m' eq_refl d Hd) as (rd & E & L). exists rd. split; [exact E|lia].
Qed.

Lemma lookup_cons_other j k r a : lookup_rank k a <> None \/ k <> j -> lookup_rank k ((j, r) :: a) = lookup_rank k a \/ k = j.
Proof. intros _. cbn. destruct (N.eqb k j) eqn:E; [right; apply N.eqb_eq; exact E|left; reflexivity]. Qed.

Lemma good_add sc a j r : good sc a -> lookup_rank j a = None -> deps_rank (deps sc j) a = Some r -> good sc ((j, r) :: a).
Proof.
  intros G Hn Hd k rk Hk d Hin. cbn in Hk. destruct (N.eqb k j) eqn:E.
  - apply N.eqb_eq in E. subst k. injection Hk as <-.
    destruct (deps_rank_spec _ _ _ Hd d Hin) as (rd & Ed & L). exists rd. split; [|exact L].
    cbn. destruct (N.eqb d j) eqn:Edj; [apply N.eqb_eq in Edj; subst; congruence|exact Ed].
  - destruct (G k rk Hk d Hin) as (rd & Ed & L). exists rd. split; [|exact L].
    cbn. destruct (N.eqb d j) eqn:Edj; [apply N.eqb_eq in Edj; subst; congruence|exact Ed].
Qed.

Lemma good_pass sc a : good sc a -> good sc (pass sc a).
Proof.
  unfold pass. generalize (all_jobs sc) as l. intros l. revert a. induction l as [|j t IH]; intros a G; cbn [fold_left]; [exact G|].
  apply IH. destruct (lookup_rank j a) eqn:E; [exact G|].
  destruct (deps_rank (deps sc j) a) as [r|] eqn:Ed; [apply good_add; assumption|exact G].
Qed.
Lemma good_passes n sc : forall a, good sc a -> good sc (passes n sc a).
Proof. induction n as [|n IH]; intros a G; cbn; [exact G|]. apply IH. apply good_pass. exact G. Qed.

Theorem acyclicb_sound sc : acyclicb sc = true -> acyclic sc.
Proof.
  unfold acyclicb. intros H. apply andb_true_iff in H. destruct H as [H1 H2].
  set (a := passes (length (sc_jobs sc)) sc []) in *.
  assert (G : good sc a) by (apply good_passes; intros j r E; discriminate E).
  exists (fun j => match lookup_rank j a with Some r => r | None => O end).
  intros j d Hj Hd. rewrite forallb_forall in H1, H2. split.
  - specialize (H2 j Hj). rewrite forallb_forall in H2. apply memN_In. apply H2. exact Hd.
  - specialize (H1 j Hj). destruct (lookup_rank j a) as [r|] eqn:E; [|discriminate].
    destruct (G j r E d Hd) as (rd & Ed & L). rewrite Ed. exact L.
Qed.
Theorem nodes_okb_sound sc : nodes_okb sc = true -> nodes_ok sc.
Proof. intros H. exact H. Qed.

(* the completeness theorem with every hypothesis executable: this is the form the check instantiates on impl traces *)
Corollary complete_no_missing_checked sc tr1 p res miss tr2 s :
  acyclicb sc && nodes_okb sc = true ->
  run sc (tr1 ++ ESummary p res miss :: tr2) = Some s ->
  fault_free sc init (tr1 ++ ESummary p res miss :: tr2) = true ->
  miss = [] /\ forall j, In j (all_jobs sc) -> In j (row_names res).
Proof.
  intros H. apply andb_true_iff in H. destruct H as [Ha Hn].
  apply complete_no_missing; [apply acyclicb_sound; exact Ha|apply nodes_okb_sound; exact Hn].
Qed.
