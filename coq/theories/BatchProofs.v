(* Contract theorems of Batch.v (HpcSubmitter._make_batch, _submit_batches, group loop).
   All statements are for arbitrary candidate lists and parameters: induction over the lists. *)
From Coq Require Import List ZArith NArith Bool Arith Lia.
From Jade Require Import Base Batch.
Import ListNotations.
Open Scope Z_scope.

Definition sum_est (l : list cjob) : Z := fold_right (fun j a => jest j + a) 0 l.
Lemma sum_est_app a b : sum_est (a ++ b) = sum_est a + sum_est b.
Proof.
  induction a as [|x a IH]; [reflexivity|].
  change (sum_est ((x :: a) ++ b)) with (jest x + sum_est (a ++ b)).
  change (sum_est (x :: a)) with (jest x + sum_est a). rewrite IH. lia.
Qed.

Definition closed (l : list cjob) : Prop :=
  forall j, In j l -> forall d, In d (jblocked j) -> In d (names l).
Definition blocked_only_if_try (p : gparams) (l : list cjob) : Prop :=
  forall j, In j l -> jblocked j <> [] -> g_try p = true.

(* parameters that JADE's own validation guarantees: batch size >= 1, limit >= 0 *)
Definition params_ok (p : gparams) : Prop :=
  if g_time p then 0 <= g_max p else (1 <= g_size p)%N.

Lemma names_app a b : names (a ++ b) = (names a ++ names b)%list.
Proof. apply map_app. Qed.
Lemma in_names j l : In j l -> In (jname j) (names l).
Proof. apply in_map. Qed.

(* ---------- try_append / is_blocked ---------- *)
Lemma try_append_jobs p b j b' ok :
  try_append p b j = (b', ok) -> b_jobs b' = if ok then b_jobs b ++ [j] else b_jobs b.
Proof.
  unfold try_append. destruct (g_time p && _) eqn:E1.
  - intros H; inversion H; subst; reflexivity.
  - destruct (g_time p); intros H; inversion H; subst; reflexivity.
Qed.
Lemma try_append_fail_ready p b j b' : try_append p b j = (b', false) -> b_ready b' = true.
Proof.
  unfold try_append. destruct (g_time p && _) eqn:E1.
  - intros H; inversion H; subst; reflexivity.
  - destruct (g_time p); intros H; inversion H.
Qed.
Lemma try_append_fail_time p b j b' :
  try_append p b j = (b', false) -> g_time p = true /\ b_time b + 60 * jest j > g_max p.
Proof.
  unfold try_append. destruct (g_time p && _) eqn:E1.
  - intros _. apply andb_true_iff in E1. destruct E1 as [E1 E2]. split; [exact E1|]. lia.
  - destruct (g_time p); intros H; inversion H.
Qed.

Lemma is_blocked_false p b j : is_blocked p b j = false ->
  (forall d, In d (jblocked j) -> In d (names (b_jobs b))) /\ (jblocked j <> [] -> g_try p = true).
Proof.
  unfold is_blocked. destruct (jblocked j) as [|d0 ds] eqn:Eb.
  - intros _. split; [intros d []|congruence].
  - intros H. apply negb_false_iff in H. apply andb_true_iff in H. destruct H as [Ht Hs].
    split; [|intros _; exact Ht]. apply subsetN_spec. exact Hs.
Qed.
Lemma is_blocked_true p b j : is_blocked p b j = true -> jblocked j <> [].
Proof. unfold is_blocked. destruct (jblocked j); [discriminate|discriminate]. Qed.

(* ---------- invariants of one _make_batch call ---------- *)
Definition blocked_inv (avail : list cjob) (s : st) : Prop :=
  incl (s_blocked s) avail /\
  forall x, In x (s_blocked s) -> ~ In (jname x) (names (b_jobs (s_batch s))) /\ jblocked x <> [].

(* what holds of the batch whenever the loops have been left *)
Record Fin (p : gparams) (avail : list cjob) (s : st) : Prop := {
  f_incl : incl (b_jobs (s_batch s)) avail;
  f_nodup : NoDup (names (b_jobs (s_batch s)));
  f_closed : closed (b_jobs (s_batch s));
  f_try : blocked_only_if_try p (b_jobs (s_batch s));
  f_limit : if g_time p then 60 * sum_est (b_jobs (s_batch s)) <= g_max p
            else (N.of_nat (length (b_jobs (s_batch s))) <= g_size p)%N;
  f_blocked : blocked_inv avail s
}.
(* what holds while the loops are still running (batch not ready) *)
Record Run (p : gparams) (avail : list cjob) (s : st) : Prop := {
  r_fin : Fin p avail s;
  r_ready : b_ready (s_batch s) = false;
  r_limit : if g_time p then b_time (s_batch s) = 60 * sum_est (b_jobs (s_batch s))
            else (N.of_nat (length (b_jobs (s_batch s))) < g_size p)%N
}.

Lemma add_blocked_in j l x : In x (add_blocked j l) -> x = j \/ In x l.
Proof.
  unfold add_blocked. destruct (memN _ _); [auto|]. rewrite in_app_iff. cbn. intros [H|[H|[]]]; auto.
Qed.
Lemma del_blocked_in n l x : In x (del_blocked n l) <-> In x l /\ jname x <> n.
Proof.
  unfold del_blocked. rewrite filter_In, negb_true_iff, N.eqb_neq. tauto.
Qed.

Lemma visit_run p avail i j s :
  Run p avail s -> In j avail -> ~ In (jname j) (names (b_jobs (s_batch s))) ->
  Fin p avail (visit p i j s) /\ (stop (length avail) (visit p i j s) = false -> Run p avail (visit p i j s)).
Proof.
  intros [[Hi Hn Hc Ht Hl [Hb1 Hb2]] Hr Hrl] Hj Hnj. unfold visit.
  destruct (is_blocked p (s_batch s) j) eqn:Eb.
  - (* blocked *)
    assert (F : Fin p avail {| s_batch := s_batch s; s_blocked := add_blocked j (s_blocked s); s_hi := Z.max (s_hi s) i |}).
    { constructor; cbn [s_batch s_blocked]; try assumption. split.
      - intros x Hx. apply add_blocked_in in Hx. destruct Hx as [->|Hx]; auto.
      - intros x Hx. apply add_blocked_in in Hx. destruct Hx as [->|Hx]; [|auto].
        split; [exact Hnj|eapply is_blocked_true; eauto]. }
    split; [exact F|]. intros _. constructor; [exact F|exact Hr|exact Hrl].
  - destruct (try_append p (s_batch s) j) as [b' ok] eqn:Et.
    pose proof (try_append_jobs _ _ _ _ _ Et) as Hjobs.
    apply is_blocked_false in Eb. destruct Eb as [Eb1 Eb2].
    destruct ok.
    + (* placed *)
      assert (Hl' : if g_time p then b_time b' = 60 * sum_est (b_jobs b') /\ b_time b' <= g_max p
                    else (N.of_nat (length (b_jobs b')) <= g_size p)%N /\
                         (b_ready b' = false -> (N.of_nat (length (b_jobs b')) < g_size p)%N)).
      { revert Et. unfold try_append. destruct (g_time p) eqn:Etime; cbn [andb].
        - destruct (b_time (s_batch s) + 60 * jest j >? g_max p) eqn:Ecmp; intros H;
            [apply (f_equal snd) in H; discriminate H|].
          apply (f_equal fst) in H. cbn [fst] in H. subst b'.
          rewrite Z.gtb_ltb in Ecmp. apply Z.ltb_ge in Ecmp.
          cbn [b_jobs b_time]. rewrite sum_est_app. change (sum_est [j]) with (jest j + 0). split; lia.
        - intros H. apply (f_equal fst) in H. cbn [fst] in H. subst b'. cbn [b_jobs b_ready]. rewrite app_length. cbn [length].
          rewrite Hr. cbn [orb]. split; [lia|]. intros Hle. apply N.leb_gt in Hle. lia. }
      assert (F : Fin p avail {| s_batch := b'; s_blocked := del_blocked (jname j) (s_blocked s); s_hi := Z.max (s_hi s) i |}).
      { constructor; cbn [s_batch s_blocked]; rewrite ?Hjobs.
        - intros x Hx. apply in_app_iff in Hx. destruct Hx as [Hx|[<-|[]]]; auto.
        - rewrite names_app. apply NoDup_app_iff. repeat split; [exact Hn|repeat constructor; intros []|].
          intros x Hx [<-|[]]. exact (Hnj Hx).
        - intros x Hx d Hd. rewrite names_app. apply in_app_iff. apply in_app_iff in Hx.
          destruct Hx as [Hx|[<-|[]]]; left; [eapply Hc; eauto|auto].
        - intros x Hx Hne. apply in_app_iff in Hx. destruct Hx as [Hx|[<-|[]]]; [eapply Ht; eauto|auto].
        - destruct (g_time p); [lia|tauto].
        - split.
          + intros x Hx. apply del_blocked_in in Hx. apply Hb1. tauto.
          + intros x Hx. apply del_blocked_in in Hx. destruct Hx as [Hx Hne]. destruct (Hb2 x Hx) as [H1 H2].
            split; [|exact H2]. rewrite names_app, in_app_iff. cbn. intros [H|[H|[]]]; [tauto|congruence]. }
      split; [exact F|]. intros Hs. unfold stop in Hs. cbn [s_batch] in Hs. apply orb_false_iff in Hs. destruct Hs as [Hs _].
      constructor; [exact F|exact Hs|]. cbn [s_batch]. destruct (g_time p); [tauto|]. destruct Hl' as [_ Hl']. auto.
    + (* does not fit *)
      assert (F : Fin p avail {| s_batch := b'; s_blocked := s_blocked s;
                                 s_hi := if i =? Z.max (s_hi s) i then Z.max (s_hi s) i - 1 else Z.max (s_hi s) i |}).
      { constructor; cbn [s_batch s_blocked]; rewrite ?Hjobs; try assumption. split; [exact Hb1|]. rewrite Hjobs. exact Hb2. }
      split; [exact F|]. intros Hs. unfold stop in Hs. cbn [s_batch] in Hs.
      rewrite (try_append_fail_ready _ _ _ _ Et) in Hs. discriminate Hs.
Qed.

Lemma Run_Fin p avail s : Run p avail s -> Fin p avail s.
Proof. intros [H _ _]. exact H. Qed.

Lemma pass_run p avail : forall l i s s' done,
  Run p avail s -> incl l avail -> pass p (length avail) l i s = (s', done) ->
  Fin p avail s' /\ (done = false -> Run p avail s').
Proof.
  induction l as [|j l IH]; intros i s s' done HR Hl Hp; cbn [pass] in Hp.
  - inversion Hp; subst. split; [apply Run_Fin; exact HR|intros _; exact HR].
  - assert (Hj : In j avail) by (apply Hl; left; reflexivity).
    assert (Hl' : incl l avail) by (intros x Hx; apply Hl; right; exact Hx).
    destruct (memN (jname j) (names (b_jobs (s_batch s)))) eqn:Em.
    + eapply IH; [|exact Hl'|exact Hp]. destruct HR as [[Hi Hn Hc Ht Hlm Hb] Hr Hrl].
      constructor; [constructor|..]; assumption.
    + apply memN_false in Em. destruct (visit_run p avail i j s HR Hj Em) as [HF HRn].
      destruct (stop (length avail) (visit p i j s)) eqn:Es.
      * inversion Hp; subst. split; [exact HF|discriminate].
      * eapply IH; [apply HRn; reflexivity|exact Hl'|exact Hp].
Qed.

Lemma passes_fin p avail : forall n s, Run p avail s -> Fin p avail (passes n p avail s).
Proof.
  induction n as [|n IH]; intros s HR; cbn [passes]; [apply Run_Fin; exact HR|].
  destruct (pass p (length avail) avail 0 s) as [s' done] eqn:Ep.
  destruct (pass_run p avail avail 0 s s' done HR (incl_refl _) Ep) as [HF HRn].
  destruct done; [exact HF|apply IH; apply HRn; reflexivity].
Qed.

Definition s0 : st := {| s_batch := empty_batch; s_blocked := []; s_hi := -1 |}.
Lemma Run_s0 p avail : params_ok p -> Run p avail s0.
Proof.
  unfold params_ok. intros Hp. constructor; [constructor|..]; cbn.
  - intros x [].
  - constructor.
  - intros j [].
  - intros j [].
  - destruct (g_time p); lia.
  - split; [intros x []|intros x []].
  - reflexivity.
  - destruct (g_time p); lia.
Qed.

(* ---------- position of the cursor: the not-checked jobs are a suffix, the batch lies before it ---------- *)
Definition Pos (avail : list cjob) (s : st) : Prop :=
  exists pre rest, avail = (pre ++ rest)%list /\ incl (b_jobs (s_batch s)) pre /\
                   s_hi s = Z.of_nat (length pre) - 1.

Lemma visit_spec p i j s :
  (b_jobs (s_batch (visit p i j s)) = b_jobs (s_batch s) /\ s_hi (visit p i j s) = Z.max (s_hi s) i) \/
  (b_jobs (s_batch (visit p i j s)) = (b_jobs (s_batch s) ++ [j])%list /\ s_hi (visit p i j s) = Z.max (s_hi s) i) \/
  (b_jobs (s_batch (visit p i j s)) = b_jobs (s_batch s) /\ b_ready (s_batch (visit p i j s)) = true /\
   s_hi (visit p i j s) = (if i =? Z.max (s_hi s) i then Z.max (s_hi s) i - 1 else Z.max (s_hi s) i) /\
   g_time p = true /\ b_time (s_batch s) + 60 * jest j > g_max p).
Proof.
  unfold visit. destruct (is_blocked p (s_batch s) j); [left; split; reflexivity|].
  destruct (try_append p (s_batch s) j) as [b' ok] eqn:Et. pose proof (try_append_jobs _ _ _ _ _ Et) as Hj.
  destruct ok; cbn [s_batch s_hi].
  - right; left. split; [exact Hj|reflexivity].
  - right; right. split; [exact Hj|]. split; [eapply try_append_fail_ready; eauto|]. split; [reflexivity|].
    eapply try_append_fail_time; eauto.
Qed.

Lemma stop_ready n s : b_ready (s_batch s) = true -> stop n s = true.
Proof. unfold stop. intros ->. reflexivity. Qed.

(* first sweep: cursor = position *)
Lemma pass_pos_first p avail : forall l pre i s s' done,
  avail = (pre ++ l)%list -> i = Z.of_nat (length pre) -> s_hi s = i - 1 -> incl (b_jobs (s_batch s)) pre ->
  pass p (length avail) l i s = (s', done) ->
  Pos avail s' /\ i - 1 <= s_hi s' /\ (done = false -> s_hi s' = Z.of_nat (length avail) - 1).
Proof.
  induction l as [|j l IH]; intros pre i s s' done Ha Hi Hh Hin Hp; cbn [pass] in Hp.
  - inversion Hp; subst s' done. rewrite app_nil_r in Ha. subst avail. split; [|split].
    + exists pre, []. rewrite app_nil_r. repeat split; [exact Hin|lia].
    + lia.
    + intros _. lia.
  - assert (Ha' : avail = ((pre ++ [j]) ++ l)%list) by (rewrite <- app_assoc; exact Ha).
    assert (Hi' : i + 1 = Z.of_nat (length (pre ++ [j]))) by (rewrite app_length; cbn; lia).
    destruct (memN (jname j) (names (b_jobs (s_batch s)))) eqn:Em.
    + specialize (IH (pre ++ [j])%list (i + 1) _ s' done Ha' Hi').
      cbn [s_hi s_batch] in IH. destruct IH as [H1 [H2 H3]]; [lia| |exact Hp|].
      * intros x Hx. apply in_app_iff. left. auto.
      * split; [exact H1|split; [lia|exact H3]].
    + destruct (visit_spec p i j s) as [[Hj Hv]|[[Hj Hv]|[Hj [Hr [Hv _]]]]].
      * (* blocked *)
        destruct (stop (length avail) (visit p i j s)) eqn:Es.
        -- inversion Hp; subst s' done. split; [|split; [lia|discriminate]].
           exists (pre ++ [j])%list, l. split; [exact Ha'|]. split; [|lia].
           rewrite Hj. intros x Hx. apply in_app_iff. left. auto.
        -- specialize (IH (pre ++ [j])%list (i + 1) _ s' done Ha' Hi'). destruct IH as [H1 [H2 H3]]; [lia| |exact Hp|].
           ++ rewrite Hj. intros x Hx. apply in_app_iff. left. auto.
           ++ split; [exact H1|split; [lia|exact H3]].
      * (* placed *)
        assert (Hin' : incl (b_jobs (s_batch (visit p i j s))) (pre ++ [j])).
        { rewrite Hj. intros x Hx. apply in_app_iff in Hx. apply in_app_iff. destruct Hx as [Hx|Hx]; [left; auto|right; exact Hx]. }
        destruct (stop (length avail) (visit p i j s)) eqn:Es.
        -- inversion Hp; subst s' done. split; [|split; [lia|discriminate]].
           exists (pre ++ [j])%list, l. split; [exact Ha'|]. split; [exact Hin'|lia].
        -- specialize (IH (pre ++ [j])%list (i + 1) _ s' done Ha' Hi'). destruct IH as [H1 [H2 H3]]; [lia|exact Hin'|exact Hp|].
           split; [exact H1|split; [lia|exact H3]].
      * (* does not fit: the cursor steps back onto this job, the loops end *)
        rewrite (stop_ready _ _ Hr) in Hp. inversion Hp; subst s' done.
        replace (Z.max (s_hi s) i) with i in Hv by lia. rewrite Z.eqb_refl in Hv.
        split; [|split; [lia|discriminate]].
        exists pre, (j :: l). split; [exact Ha|]. split; [rewrite Hj; exact Hin|lia].
Qed.

(* later sweeps (try_add_blocked_jobs): the cursor rests on the last candidate *)
Lemma pass_pos_later p avail : forall l pre i s s' done,
  avail = (pre ++ l)%list -> i = Z.of_nat (length pre) ->
  s_hi s = Z.of_nat (length avail) - 1 -> incl (b_jobs (s_batch s)) avail ->
  pass p (length avail) l i s = (s', done) ->
  Pos avail s' /\ Z.of_nat (length avail) - 2 <= s_hi s' /\ (done = false -> s_hi s' = Z.of_nat (length avail) - 1).
Proof.
  induction l as [|j l IH]; intros pre i s s' done Ha Hi Hh Hin Hp; cbn [pass] in Hp.
  - inversion Hp; subst s' done. split; [|split; [lia|intros _; exact Hh]].
    exists avail, []. rewrite app_nil_r. repeat split; [exact Hin|exact Hh].
  - assert (Ha' : avail = ((pre ++ [j]) ++ l)%list) by (rewrite <- app_assoc; exact Ha).
    assert (Hi' : i + 1 = Z.of_nat (length (pre ++ [j]))) by (rewrite app_length; cbn; lia).
    assert (Hlen : Z.of_nat (length avail) = i + 1 + Z.of_nat (length l)).
    { rewrite Ha, app_length. cbn [length]. lia. }
    assert (Hmax : Z.max (s_hi s) i = s_hi s) by lia.
    assert (Hjin : In j avail) by (rewrite Ha; apply in_app_iff; right; left; reflexivity).
    destruct (memN (jname j) (names (b_jobs (s_batch s)))) eqn:Em.
    + eapply (IH (pre ++ [j])%list (i + 1)); [exact Ha'|exact Hi'| | |exact Hp]; cbn [s_hi s_batch]; [lia|exact Hin].
    + apply memN_false in Em.
      destruct (visit_spec p i j s) as [[Hj Hv]|[[Hj Hv]|[Hj [Hr [Hv _]]]]].
      * destruct (stop (length avail) (visit p i j s)) eqn:Es.
        -- inversion Hp; subst s' done. split; [|split; [lia|discriminate]].
           exists avail, []. rewrite app_nil_r. split; [reflexivity|]. split; [rewrite Hj; exact Hin|lia].
        -- eapply (IH (pre ++ [j])%list (i + 1)); [exact Ha'|exact Hi'|lia| |exact Hp]. rewrite Hj. exact Hin.
      * assert (Hin' : incl (b_jobs (s_batch (visit p i j s))) avail).
        { rewrite Hj. intros x Hx. apply in_app_iff in Hx. destruct Hx as [Hx|[<-|[]]]; auto. }
        destruct (stop (length avail) (visit p i j s)) eqn:Es.
        -- inversion Hp; subst s' done. split; [|split; [lia|discriminate]].
           exists avail, []. rewrite app_nil_r. split; [reflexivity|]. split; [exact Hin'|lia].
        -- eapply (IH (pre ++ [j])%list (i + 1)); [exact Ha'|exact Hi'|lia|exact Hin'|exact Hp].
      * rewrite (stop_ready _ _ Hr) in Hp. inversion Hp; subst s' done. rewrite Hmax in Hv.
        destruct (i =? s_hi s) eqn:Ei.
        -- (* the job that does not fit is the last candidate: it alone is handed back *)
           apply Z.eqb_eq in Ei. assert (l = []) by (destruct l; [reflexivity|cbn [length] in Hlen; lia]). subst l.
           split; [|split; [lia|discriminate]].
           exists pre, [j]. split; [exact Ha|]. split; [|lia].
           rewrite Hj. intros x Hx. pose proof (Hin x Hx) as Hxa. rewrite Ha in Hxa. apply in_app_iff in Hxa.
           destruct Hxa as [Hxa|[<-|[]]]; [exact Hxa|]. exfalso. apply Em. apply in_names. exact Hx.
        -- split; [|split; [lia|discriminate]].
           exists avail, []. rewrite app_nil_r. split; [reflexivity|]. split; [rewrite Hj; exact Hin|lia].
Qed.

Lemma Pos_incl avail s : Pos avail s -> incl (b_jobs (s_batch s)) avail.
Proof. intros [pre [rest [Ha [Hi _]]]] x Hx. rewrite Ha. apply in_app_iff. left. auto. Qed.

Lemma passes_pos_later p avail : forall n s,
  s_hi s = Z.of_nat (length avail) - 1 -> incl (b_jobs (s_batch s)) avail ->
  Pos avail (passes n p avail s) /\ Z.of_nat (length avail) - 2 <= s_hi (passes n p avail s).
Proof.
  induction n as [|n IH]; intros s Hh Hin; cbn [passes].
  - split; [|lia]. exists avail, []. rewrite app_nil_r. repeat split; [exact Hin|exact Hh].
  - destruct (pass p (length avail) avail 0 s) as [s' done] eqn:Ep.
    destruct (pass_pos_later p avail avail [] 0 s s' done eq_refl eq_refl Hh Hin Ep) as [H1 [H2 H3]].
    destruct done; [split; assumption|]. apply IH; [apply H3; reflexivity|apply Pos_incl; exact H1].
Qed.

Lemma passes_pos p avail n :
  Pos avail (passes n p avail s0) /\
  (avail <> [] -> (n = 1%nat \/ 2 <= Z.of_nat (length avail)) ->
   (forall j, In j avail -> g_time p = true -> 60 * jest j <= g_max p) -> 0 <= s_hi (passes n p avail s0) \/ n = 0%nat).
Proof.
  destruct n as [|n]; cbn [passes].
  - split; [|intros; right; reflexivity]. exists [], avail. repeat split. intros x [].
  - destruct (pass p (length avail) avail 0 s0) as [s' done] eqn:Ep.
    destruct (pass_pos_first p avail avail [] 0 s0 s' done eq_refl eq_refl eq_refl (fun x H => H) Ep) as [H1 [H2 H3]].
    assert (Hfirst : avail <> [] -> (forall j, In j avail -> g_time p = true -> 60 * jest j <= g_max p) -> 0 <= s_hi s').
    { intros Hne Hfit. destruct avail as [|j l]; [congruence|]. cbn [pass] in Ep. cbn [s0 s_batch empty_batch b_jobs names map memN existsb] in Ep.
      destruct (visit_spec p 0 j s0) as [[Hj Hv]|[[Hj Hv]|[Hj [Hr [Hv [Ht Hgt]]]]]].
      - destruct (stop (length (j :: l)) (visit p 0 j s0)) eqn:Es.
        + inversion Ep; subst s' done. rewrite Hv. cbn. lia.
        + assert (Hin : incl (b_jobs (s_batch (visit p 0 j s0))) [j]) by (rewrite Hj; intros x []).
          assert (Hh : s_hi (visit p 0 j s0) = 0 + 1 - 1) by (rewrite Hv; cbn; lia).
          destruct (pass_pos_first p (j :: l) l [j] (0 + 1) _ s' done eq_refl eq_refl Hh Hin Ep) as [_ [Hlow _]]. lia.
      - destruct (stop (length (j :: l)) (visit p 0 j s0)) eqn:Es.
        + inversion Ep; subst s' done. rewrite Hv. cbn. lia.
        + assert (Hin : incl (b_jobs (s_batch (visit p 0 j s0))) [j]) by (rewrite Hj; cbn; intros x Hx; exact Hx).
          assert (Hh : s_hi (visit p 0 j s0) = 0 + 1 - 1) by (rewrite Hv; cbn; lia).
          destruct (pass_pos_first p (j :: l) l [j] (0 + 1) _ s' done eq_refl eq_refl Hh Hin Ep) as [_ [Hlow _]]. lia.
      - exfalso. cbn in Hgt. specialize (Hfit j (or_introl eq_refl) Ht). lia. }
    destruct done.
    + split; [exact H1|]. intros Hne _ Hfit. left. auto.
    + destruct (passes_pos_later p avail n s' (H3 eq_refl) (Pos_incl _ _ H1)) as [H4 H5].
      split; [exact H4|]. intros Hne Hn Hfit. left. destruct Hn as [Hn|Hn].
      * inversion Hn; subst n. cbn [passes]. auto.
      * lia.
Qed.

(* ---------- the contract of _make_batch ---------- *)
Definition iters (p : gparams) (avail : list cjob) : nat := if g_try p then length avail else 1%nat.

Lemma make_batch_rest p avail :
  exists pre, avail = (pre ++ mb_rest (make_batch p avail))%list /\ incl (mb_batch (make_batch p avail)) pre.
Proof.
  unfold make_batch. cbn [mb_rest mb_batch]. fold s0. fold (iters p avail).
  destruct (passes_pos p avail (iters p avail)) as [[pre [rest [Ha [Hin Hh]]]] _].
  exists pre. split; [|exact Hin]. rewrite Hh.
  destruct (Z.of_nat (length pre) - 1 =? Z.of_nat (length avail) - 1) eqn:E.
  - apply Z.eqb_eq in E. assert (rest = []).
    { destruct rest; [reflexivity|]. rewrite Ha, app_length in E. cbn [length] in E. lia. }
    subst rest. exact Ha.
  - replace (Z.to_nat (Z.of_nat (length pre) - 1 + 1)) with (length pre) by lia.
    rewrite Ha at 2. rewrite skipn_app, skipn_all, Nat.sub_diag. cbn. exact Ha.
Qed.

Theorem make_batch_contract p avail :
  params_ok p -> NoDup (names avail) ->
  let m := make_batch p avail in
  NoDup (names (mb_batch m)) /\
  (exists pre, avail = (pre ++ mb_rest m)%list /\ incl (mb_batch m) pre /\ incl (mb_blocked m) avail) /\
  (forall x, In x (names (mb_batch m)) -> ~ In x (names (mb_rest m))) /\
  (if g_time p then 60 * sum_est (mb_batch m) <= g_max p else (N.of_nat (length (mb_batch m)) <= g_size p)%N) /\
  closed (mb_batch m) /\ blocked_only_if_try p (mb_batch m) /\
  (forall x, In x (mb_blocked m) -> ~ In (jname x) (names (mb_batch m)) /\ jblocked x <> []).
Proof.
  intros Hp Hnd m.
  assert (HF : Fin p avail (passes (iters p avail) p avail s0)) by (apply passes_fin; apply Run_s0; exact Hp).
  destruct HF as [Hi Hn Hc Ht Hl [Hb1 Hb2]].
  destruct (make_batch_rest p avail) as [pre [Ha Hin]].
  subst m. unfold make_batch in *. cbn [mb_batch mb_blocked mb_rest] in *. fold s0 in *. fold (iters p avail) in *.
  split; [exact Hn|]. split; [exists pre; repeat split; assumption|]. split.
  - intros x Hx Hr. rewrite Ha in Hnd. rewrite names_app in Hnd. apply NoDup_app_iff in Hnd. destruct Hnd as [_ [_ Hd]].
    apply (Hd x); [|exact Hr]. unfold names in Hx. apply in_map_iff in Hx. destruct Hx as [y [<- Hy]]. apply in_names. auto.
  - repeat split; assumption.
Qed.

(* a call on a non-empty candidate list consumes at least one candidate, provided every estimate
   fits an empty batch (what check_job_runtimes enforces); without it impl loops forever *)
Theorem make_batch_progress p avail :
  avail <> [] -> (forall j, In j avail -> g_time p = true -> 60 * jest j <= g_max p) ->
  (length (mb_rest (make_batch p avail)) < length avail)%nat.
Proof.
  intros Hne Hfit. unfold make_batch. cbn [mb_rest]. fold s0. fold (iters p avail).
  destruct (passes_pos p avail (iters p avail)) as [[pre [rest [Ha [Hin Hh]]]] Hlow].
  assert (H0 : 0 <= s_hi (passes (iters p avail) p avail s0)).
  { destruct Hlow as [H|H]; [exact Hne| |exact Hfit|exact H|].
    - unfold iters. destruct (g_try p); [|left; reflexivity].
      destruct avail as [|a [|b l]]; [congruence|left; reflexivity|right; cbn [length]; lia].
    - unfold iters in H. destruct (g_try p); [|discriminate]. destruct avail; [congruence|discriminate]. }
  destruct (s_hi (passes (iters p avail) p avail s0) =? Z.of_nat (length avail) - 1) eqn:E.
  - cbn. destruct avail; [congruence|cbn; lia].
  - rewrite skipn_length. lia.
Qed.
