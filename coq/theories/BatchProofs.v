(* Contract theorems of Batch.v (HpcSubmitter._make_batch, _submit_batches, group loop).
   All statements are for arbitrary candidate lists and parameters: induction over the lists.
   Lemmas cited by other properties (C01): make_batch_batch_nodup, make_batch_rest_disjoint,
   submit_round_disjoint, batch_index_fresh, submit_round_slots (also: make_batch_contract, make_batch_cover,
   submit_round_inv, submit_round_batches, submit_round_maximal, submit_round_fuel, the round_batch lemmas). *)
From Coq Require Import List ZArith NArith Bool Arith Lia Permutation.
From Jade Require Import Base Batch.
From Jade.Gen Require Import BatchGen.
Import ListNotations.
Open Scope Z_scope.

Definition sum_est (l : list cjob) : Z := fold_right (fun j a => jest j + a) 0 l.
Lemma sum_est_app a b : sum_est (a ++ b) = sum_est a + sum_est b.
Proof.
  induction a as [|x a IH]; [reflexivity|].
  change (sum_est ((x :: a) ++ b)) with (jest x + sum_est (a ++ b)).
  change (sum_est (x :: a)) with (jest x + sum_est a). rewrite IH. lia.
Qed.

Definition closed (l : list cjob) : Prop :=
  forall j, In j l -> forall d, In d (jblocked j) -> In d (names l).
Definition blocked_only_if_try (p : gparams) (l : list cjob) : Prop :=
  forall j, In j l -> jblocked j <> [] -> g_try p = true.

Lemma names_app a b : names (a ++ b) = (names a ++ names b)%list.
Proof. apply map_app. Qed.
Lemma in_names j l : In j l -> In (jname j) (names l).
Proof. apply in_map. Qed.

(* ---------- try_append / is_blocked ---------- *)
Lemma try_append_jobs p b j b' ok :
  try_append p b j = (b', ok) -> b_jobs b' = if ok then b_jobs b ++ [j] else b_jobs b.
Proof.
  unfold try_append. destruct (g_time p && _) eqn:E1.
  - intros H; inversion H; subst; reflexivity.
  - destruct (g_time p); intros H; inversion H; subst; reflexivity.
Qed.
Lemma try_append_fail_ready p b j b' : try_append p b j = (b', false) -> b_ready b' = true.
Proof.
  unfold try_append. destruct (g_time p && _) eqn:E1.
  - intros H; inversion H; subst; reflexivity.
  - destruct (g_time p); intros H; inversion H.
Qed.
Lemma try_append_fail_time p b j b' :
  try_append p b j = (b', false) -> g_time p = true /\ b_time b + 60 * jest j > g_max p.
Proof.
  unfold try_append, time_exceeded. destruct (g_time p && _) eqn:E1.
  - intros _. apply andb_true_iff in E1. destruct E1 as [E1 E2]. split; [exact E1|]. lia.
  - destruct (g_time p); intros H; inversion H.
Qed.

Lemma is_blocked_false p b j : is_blocked p b j = false ->
  (forall d, In d (jblocked j) -> In d (names (b_jobs b))) /\ (jblocked j <> [] -> g_try p = true).
Proof.
  unfold is_blocked. destruct (jblocked j) as [|d0 ds] eqn:Eb.
  - intros _. split; [intros d []|congruence].
  - intros H. apply negb_false_iff in H. apply andb_true_iff in H. destruct H as [Ht Hs].
    split; [|intros _; exact Ht]. apply subsetN_spec. exact Hs.
Qed.
Lemma is_blocked_true p b j : is_blocked p b j = true -> jblocked j <> [].
Proof. unfold is_blocked. destruct (jblocked j); [discriminate|discriminate]. Qed.

(* ---------- invariants of one _make_batch call ---------- *)
Definition blocked_inv (avail : list cjob) (s : st) : Prop :=
  incl (s_blocked s) avail /\
  forall x, In x (s_blocked s) -> ~ In (jname x) (names (b_jobs (s_batch s))) /\ jblocked x <> [].

(* what holds of the batch whenever the loops have been left *)
Record Fin (p : gparams) (avail : list cjob) (s : st) : Prop := {
  f_incl : incl (b_jobs (s_batch s)) avail;
  f_nodup : NoDup (names (b_jobs (s_batch s)));
  f_closed : closed (b_jobs (s_batch s));
  f_try : blocked_only_if_try p (b_jobs (s_batch s));
  f_limit : if g_time p then b_jobs (s_batch s) = [] \/ 60 * sum_est (b_jobs (s_batch s)) <= g_max p
            else (N.of_nat (length (b_jobs (s_batch s))) <= N.max 1 (g_size p))%N;
  f_blocked : blocked_inv avail s
}.
(* what holds while the loops are still running (batch not ready) *)
Record Run (p : gparams) (avail : list cjob) (s : st) : Prop := {
  r_fin : Fin p avail s;
  r_ready : b_ready (s_batch s) = false;
  r_limit : if g_time p then b_time (s_batch s) = 60 * sum_est (b_jobs (s_batch s))
            else b_jobs (s_batch s) = [] \/ (N.of_nat (length (b_jobs (s_batch s))) < g_size p)%N
}.

Lemma add_blocked_in j l x : In x (add_blocked j l) -> x = j \/ In x l.
Proof.
  unfold add_blocked. destruct (memN _ _); [auto|]. rewrite in_app_iff. cbn. intros [H|[H|[]]]; auto.
Qed.
Lemma del_blocked_in n l x : In x (del_blocked n l) <-> In x l /\ jname x <> n.
Proof.
  unfold del_blocked. rewrite filter_In, negb_true_iff, N.eqb_neq. tauto.
Qed.

Lemma visit_run p avail i j s :
  Run p avail s -> In j avail -> ~ In (jname j) (names (b_jobs (s_batch s))) ->
  Fin p avail (visit p i j s) /\ (stop (length avail) (visit p i j s) = false -> Run p avail (visit p i j s)).
Proof.
  intros [[Hi Hn Hc Ht Hl [Hb1 Hb2]] Hr Hrl] Hj Hnj. unfold visit.
  destruct (is_blocked p (s_batch s) j) eqn:Eb.
  - (* blocked *)
    assert (F : Fin p avail {| s_batch := s_batch s; s_blocked := add_blocked j (s_blocked s); s_hi := Z.max (s_hi s) i |}).
    { constructor; cbn [s_batch s_blocked]; try assumption. split.
      - intros x Hx. apply add_blocked_in in Hx. destruct Hx as [->|Hx]; auto.
      - intros x Hx. apply add_blocked_in in Hx. destruct Hx as [->|Hx]; [|auto].
        split; [exact Hnj|eapply is_blocked_true; eauto]. }
    split; [exact F|]. intros _. constructor; [exact F|exact Hr|exact Hrl].
  - destruct (try_append p (s_batch s) j) as [b' ok] eqn:Et.
    pose proof (try_append_jobs _ _ _ _ _ Et) as Hjobs.
    apply is_blocked_false in Eb. destruct Eb as [Eb1 Eb2].
    destruct ok; cbn iota in Hjobs.
    + (* placed *)
      assert (Hl' : if g_time p then b_time b' = 60 * sum_est (b_jobs b') /\ b_time b' <= g_max p
                    else (N.of_nat (length (b_jobs b')) <= N.max 1 (g_size p))%N /\
                         (b_ready b' = false -> (N.of_nat (length (b_jobs b')) < g_size p)%N)).
      { revert Et Hrl. unfold try_append, time_exceeded, size_reached. destruct (g_time p) eqn:Etime; cbn [andb].
        - destruct (b_time (s_batch s) + 60 * jest j >? g_max p) eqn:Ecmp; intros H Hrl;
            [apply (f_equal snd) in H; discriminate H|].
          apply (f_equal fst) in H. cbn [fst] in H. subst b'.
          rewrite Z.gtb_ltb in Ecmp. apply Z.ltb_ge in Ecmp.
          cbn [b_jobs b_time]. rewrite sum_est_app. change (sum_est [j]) with (jest j + 0). split; lia.
        - intros H Hrl. apply (f_equal fst) in H. cbn [fst] in H. subst b'. cbn [b_jobs b_ready]. rewrite app_length. cbn [length].
          rewrite Hr. cbn [orb]. split.
          + destruct Hrl as [Hrl|Hrl]; [rewrite Hrl; cbn [length]; lia|lia].
          + intros Hle. apply N.leb_gt in Hle. lia. }
      assert (F : Fin p avail {| s_batch := b'; s_blocked := del_blocked (jname j) (s_blocked s); s_hi := Z.max (s_hi s) i |}).
      { constructor; cbn [s_batch s_blocked]; rewrite ?Hjobs.
        - intros x Hx. apply in_app_iff in Hx. destruct Hx as [Hx|[<-|[]]]; auto.
        - rewrite names_app. apply NoDup_app_iff. repeat split; [exact Hn|repeat constructor; intros []|].
          intros x Hx [<-|[]]. exact (Hnj Hx).
        - intros x Hx d Hd. rewrite names_app. apply in_app_iff. apply in_app_iff in Hx.
          destruct Hx as [Hx|[<-|[]]]; left; [eapply Hc; eauto|auto].
        - intros x Hx Hne. apply in_app_iff in Hx. destruct Hx as [Hx|[<-|[]]]; [eapply Ht; eauto|auto].
        - rewrite <- Hjobs. revert Hl'. destruct (g_time p); intros Hl'; [right; lia|tauto].
        - split.
          + intros x Hx. apply del_blocked_in in Hx. apply Hb1. tauto.
          + intros x Hx. apply del_blocked_in in Hx. destruct Hx as [Hx Hne]. destruct (Hb2 x Hx) as [H1 H2].
            split; [|exact H2]. cbn [s_batch]. rewrite Hjobs, names_app, in_app_iff. cbn. intros [H|[H|[]]]; [tauto|congruence]. }
      split; [exact F|]. intros Hs. unfold stop in Hs. cbn [s_batch] in Hs. apply orb_false_iff in Hs. destruct Hs as [Hs _].
      constructor; [exact F|exact Hs|]. cbn [s_batch]. destruct (g_time p); [tauto|]. destruct Hl' as [_ Hl']. right. auto.
    + (* does not fit *)
      assert (F : Fin p avail {| s_batch := b'; s_blocked := s_blocked s;
                                 s_hi := if i =? Z.max (s_hi s) i then Z.max (s_hi s) i - 1 else Z.max (s_hi s) i |}).
      { constructor; cbn [s_batch s_blocked]; rewrite ?Hjobs; try assumption. split; [exact Hb1|]. cbn [s_batch s_blocked]. rewrite Hjobs. exact Hb2. }
      split; [exact F|]. intros Hs. unfold stop in Hs. cbn [s_batch] in Hs.
      rewrite (try_append_fail_ready _ _ _ _ Et) in Hs. discriminate Hs.
Qed.

Lemma Run_Fin p avail s : Run p avail s -> Fin p avail s.
Proof. intros [H _ _]. exact H. Qed.

Lemma pass_run p avail : forall l i s s' done,
  Run p avail s -> incl l avail -> pass p (length avail) l i s = (s', done) ->
  Fin p avail s' /\ (done = false -> Run p avail s').
Proof.
  induction l as [|j l IH]; intros i s s' done HR Hl Hp; cbn [pass] in Hp.
  - inversion Hp; subst. split; [apply Run_Fin; exact HR|intros _; exact HR].
  - assert (Hj : In j avail) by (apply Hl; left; reflexivity).
    assert (Hl' : incl l avail) by (intros x Hx; apply Hl; right; exact Hx).
    destruct (memN (jname j) (names (b_jobs (s_batch s)))) eqn:Em.
    + eapply IH; [|exact Hl'|exact Hp]. destruct HR as [[Hi Hn Hc Ht Hlm Hb] Hr Hrl].
      constructor; [constructor|..]; assumption.
    + apply memN_false in Em. destruct (visit_run p avail i j s HR Hj Em) as [HF HRn].
      destruct (stop (length avail) (visit p i j s)) eqn:Es.
      * inversion Hp; subst. split; [exact HF|discriminate].
      * eapply IH; [apply HRn; reflexivity|exact Hl'|exact Hp].
Qed.

Lemma passes_fin p avail : forall n s, Run p avail s -> Fin p avail (passes n p avail s).
Proof.
  induction n as [|n IH]; intros s HR; cbn [passes]; [apply Run_Fin; exact HR|].
  destruct (pass p (length avail) avail 0 s) as [s' done] eqn:Ep.
  destruct (pass_run p avail avail 0 s s' done HR (incl_refl _) Ep) as [HF HRn].
  destruct done; [exact HF|apply IH; apply HRn; reflexivity].
Qed.

Definition s0 : st := {| s_batch := empty_batch; s_blocked := []; s_hi := -1 |}.
Lemma Run_s0 p avail : Run p avail s0.
Proof.
  constructor; [constructor|..]; cbn.
  - intros x [].
  - constructor.
  - intros j [].
  - intros j [].
  - destruct (g_time p); [left; reflexivity|lia].
  - split; [intros x []|intros x []].
  - reflexivity.
  - destruct (g_time p); [reflexivity|left; reflexivity].
Qed.

(* ---------- position of the cursor: the not-checked jobs are a suffix, the batch lies before it ---------- *)
Definition Pos (avail : list cjob) (s : st) : Prop :=
  exists pre rest, avail = (pre ++ rest)%list /\ incl (b_jobs (s_batch s)) pre /\
                   s_hi s = Z.of_nat (length pre) - 1.

Lemma visit_spec p i j s :
  (b_jobs (s_batch (visit p i j s)) = b_jobs (s_batch s) /\ s_hi (visit p i j s) = Z.max (s_hi s) i) \/
  (b_jobs (s_batch (visit p i j s)) = (b_jobs (s_batch s) ++ [j])%list /\ s_hi (visit p i j s) = Z.max (s_hi s) i) \/
  (b_jobs (s_batch (visit p i j s)) = b_jobs (s_batch s) /\ b_ready (s_batch (visit p i j s)) = true /\
   s_hi (visit p i j s) = (if i =? Z.max (s_hi s) i then Z.max (s_hi s) i - 1 else Z.max (s_hi s) i) /\
   g_time p = true /\ b_time (s_batch s) + 60 * jest j > g_max p).
Proof.
  unfold visit. destruct (is_blocked p (s_batch s) j); [left; split; reflexivity|].
  destruct (try_append p (s_batch s) j) as [b' ok] eqn:Et. pose proof (try_append_jobs _ _ _ _ _ Et) as Hj.
  destruct ok; cbn [s_batch s_hi].
  - right; left. split; [exact Hj|reflexivity].
  - right; right. split; [exact Hj|]. split; [eapply try_append_fail_ready; eauto|]. split; [reflexivity|].
    eapply try_append_fail_time; eauto.
Qed.

Lemma stop_ready n s : b_ready (s_batch s) = true -> stop n s = true.
Proof. unfold stop. intros ->. reflexivity. Qed.

(* first sweep: cursor = position *)
Lemma pass_pos_first p avail : forall l pre i s s' done,
  avail = (pre ++ l)%list -> i = Z.of_nat (length pre) -> s_hi s = i - 1 -> incl (b_jobs (s_batch s)) pre ->
  pass p (length avail) l i s = (s', done) ->
  Pos avail s' /\ i - 1 <= s_hi s' /\ (done = false -> s_hi s' = Z.of_nat (length avail) - 1).
Proof.
  induction l as [|j l IH]; intros pre i s s' done Ha Hi Hh Hin Hp; cbn [pass] in Hp.
  - inversion Hp; subst s' done. rewrite app_nil_r in Ha. subst avail. split; [|split].
    + exists pre, []. rewrite app_nil_r. repeat split; [exact Hin|lia].
    + lia.
    + intros _. lia.
  - assert (Ha' : avail = ((pre ++ [j]) ++ l)%list) by (rewrite <- app_assoc; exact Ha).
    assert (Hi' : i + 1 = Z.of_nat (length (pre ++ [j]))) by (rewrite app_length; cbn; lia).
    assert (Hpre : forall b, incl b pre -> incl b (pre ++ [j])) by (intros b Hb x Hx; apply in_app_iff; left; auto).
    destruct (memN (jname j) (names (b_jobs (s_batch s)))) eqn:Em.
    + assert (Hh' : s_hi {| s_batch := s_batch s; s_blocked := s_blocked s; s_hi := Z.max (s_hi s) i |} = i + 1 - 1) by (cbn [s_hi]; lia).
      destruct (IH _ _ _ _ _ Ha' Hi' Hh' (Hpre _ Hin) Hp) as [H1 [H2 H3]].
      split; [exact H1|split; [lia|exact H3]].
    + destruct (visit_spec p i j s) as [[Hj Hv]|[[Hj Hv]|[Hj [Hr [Hv _]]]]].
      * (* blocked *)
        assert (Hin' : incl (b_jobs (s_batch (visit p i j s))) (pre ++ [j])) by (rewrite Hj; auto).
        assert (Hh' : s_hi (visit p i j s) = i + 1 - 1) by lia.
        destruct (stop (length avail) (visit p i j s)) eqn:Es.
        -- inversion Hp; subst s' done. split; [|split; [lia|discriminate]].
           exists (pre ++ [j])%list, l. split; [exact Ha'|]. split; [exact Hin'|lia].
        -- destruct (IH _ _ _ _ _ Ha' Hi' Hh' Hin' Hp) as [H1 [H2 H3]].
           split; [exact H1|split; [lia|exact H3]].
      * (* placed *)
        assert (Hin' : incl (b_jobs (s_batch (visit p i j s))) (pre ++ [j])).
        { rewrite Hj. intros x Hx. apply in_app_iff in Hx. apply in_app_iff. destruct Hx as [Hx|Hx]; [left; auto|right; exact Hx]. }
        assert (Hh' : s_hi (visit p i j s) = i + 1 - 1) by lia.
        destruct (stop (length avail) (visit p i j s)) eqn:Es.
        -- inversion Hp; subst s' done. split; [|split; [lia|discriminate]].
           exists (pre ++ [j])%list, l. split; [exact Ha'|]. split; [exact Hin'|lia].
        -- destruct (IH _ _ _ _ _ Ha' Hi' Hh' Hin' Hp) as [H1 [H2 H3]].
           split; [exact H1|split; [lia|exact H3]].
      * (* does not fit: the cursor steps back onto this job, the loops end *)
        rewrite (stop_ready _ _ Hr) in Hp. inversion Hp; subst s' done.
        replace (Z.max (s_hi s) i) with i in Hv by lia. rewrite Z.eqb_refl in Hv.
        split; [|split; [lia|discriminate]].
        exists pre, (j :: l). split; [exact Ha|]. split; [rewrite Hj; exact Hin|lia].
Qed.

(* later sweeps (try_add_blocked_jobs): the cursor rests on the last candidate *)
Lemma pass_pos_later p avail : forall l pre i s s' done,
  avail = (pre ++ l)%list -> i = Z.of_nat (length pre) ->
  s_hi s = Z.of_nat (length avail) - 1 -> incl (b_jobs (s_batch s)) avail ->
  pass p (length avail) l i s = (s', done) ->
  Pos avail s' /\ Z.of_nat (length avail) - 2 <= s_hi s' /\ (done = false -> s_hi s' = Z.of_nat (length avail) - 1).
Proof.
  induction l as [|j l IH]; intros pre i s s' done Ha Hi Hh Hin Hp; cbn [pass] in Hp.
  - inversion Hp; subst s' done. split; [|split; [lia|intros _; exact Hh]].
    exists avail, []. rewrite app_nil_r. repeat split; [exact Hin|exact Hh].
  - assert (Ha' : avail = ((pre ++ [j]) ++ l)%list) by (rewrite <- app_assoc; exact Ha).
    assert (Hi' : i + 1 = Z.of_nat (length (pre ++ [j]))) by (rewrite app_length; cbn; lia).
    assert (Hlen : Z.of_nat (length avail) = i + 1 + Z.of_nat (length l)).
    { rewrite Ha, app_length. cbn [length]. lia. }
    assert (Hmax : Z.max (s_hi s) i = s_hi s) by lia.
    assert (Hjin : In j avail) by (rewrite Ha; apply in_app_iff; right; left; reflexivity).
    destruct (memN (jname j) (names (b_jobs (s_batch s)))) eqn:Em.
    + assert (Hh' : s_hi {| s_batch := s_batch s; s_blocked := s_blocked s; s_hi := Z.max (s_hi s) i |} = Z.of_nat (length avail) - 1) by (cbn [s_hi]; lia).
      exact (IH _ _ _ _ _ Ha' Hi' Hh' Hin Hp).
    + apply memN_false in Em.
      destruct (visit_spec p i j s) as [[Hj Hv]|[[Hj Hv]|[Hj [Hr [Hv _]]]]].
      * destruct (stop (length avail) (visit p i j s)) eqn:Es.
        -- inversion Hp; subst s' done. split; [|split; [lia|discriminate]].
           exists avail, []. rewrite app_nil_r. split; [reflexivity|]. split; [rewrite Hj; exact Hin|lia].
        -- assert (Hh' : s_hi (visit p i j s) = Z.of_nat (length avail) - 1) by lia.
           assert (Hin' : incl (b_jobs (s_batch (visit p i j s))) avail) by (rewrite Hj; exact Hin).
           exact (IH _ _ _ _ _ Ha' Hi' Hh' Hin' Hp).
      * assert (Hin' : incl (b_jobs (s_batch (visit p i j s))) avail).
        { rewrite Hj. intros x Hx. apply in_app_iff in Hx. destruct Hx as [Hx|[<-|[]]]; auto. }
        destruct (stop (length avail) (visit p i j s)) eqn:Es.
        -- inversion Hp; subst s' done. split; [|split; [lia|discriminate]].
           exists avail, []. rewrite app_nil_r. split; [reflexivity|]. split; [exact Hin'|lia].
        -- assert (Hh' : s_hi (visit p i j s) = Z.of_nat (length avail) - 1) by lia.
           exact (IH _ _ _ _ _ Ha' Hi' Hh' Hin' Hp).
      * rewrite (stop_ready _ _ Hr) in Hp. inversion Hp; subst s' done. rewrite Hmax in Hv.
        destruct (i =? s_hi s) eqn:Ei.
        -- (* the job that does not fit is the last candidate: it alone is handed back *)
           apply Z.eqb_eq in Ei. assert (l = []) by (destruct l; [reflexivity|cbn [length] in Hlen; lia]). subst l.
           split; [|split; [lia|discriminate]].
           exists pre, [j]. split; [exact Ha|]. split; [|lia].
           rewrite Hj. intros x Hx. pose proof (Hin x Hx) as Hxa. rewrite Ha in Hxa. apply in_app_iff in Hxa.
           destruct Hxa as [Hxa|[<-|[]]]; [exact Hxa|]. exfalso. apply Em. apply in_names. exact Hx.
        -- split; [|split; [lia|discriminate]].
           exists avail, []. rewrite app_nil_r. split; [reflexivity|]. split; [rewrite Hj; exact Hin|lia].
Qed.

Lemma Pos_incl avail s : Pos avail s -> incl (b_jobs (s_batch s)) avail.
Proof. intros [pre [rest [Ha [Hi _]]]] x Hx. rewrite Ha. apply in_app_iff. left. auto. Qed.

Lemma passes_pos_later p avail : forall n s,
  s_hi s = Z.of_nat (length avail) - 1 -> incl (b_jobs (s_batch s)) avail ->
  Pos avail (passes n p avail s) /\ Z.of_nat (length avail) - 2 <= s_hi (passes n p avail s).
Proof.
  induction n as [|n IH]; intros s Hh Hin; cbn [passes].
  - split; [|lia]. exists avail, []. rewrite app_nil_r. repeat split; [exact Hin|exact Hh].
  - destruct (pass p (length avail) avail 0 s) as [s' done] eqn:Ep.
    destruct (pass_pos_later p avail avail [] 0 s s' done eq_refl eq_refl Hh Hin Ep) as [H1 [H2 H3]].
    destruct done; [split; assumption|]. apply IH; [apply H3; reflexivity|apply Pos_incl; exact H1].
Qed.

Lemma passes_pos p avail n :
  Pos avail (passes n p avail s0) /\
  (avail <> [] -> (n = 1%nat \/ 2 <= Z.of_nat (length avail)) ->
   (forall j, In j avail -> g_time p = true -> 60 * jest j <= g_max p) -> 0 <= s_hi (passes n p avail s0) \/ n = 0%nat).
Proof.
  destruct n as [|n]; cbn [passes].
  - split; [|intros; right; reflexivity]. exists [], avail. repeat split. intros x [].
  - destruct (pass p (length avail) avail 0 s0) as [s' done] eqn:Ep.
    destruct (pass_pos_first p avail avail [] 0 s0 s' done eq_refl eq_refl eq_refl (fun x H => H) Ep) as [H1 [H2 H3]].
    assert (Hfirst : avail <> [] -> (forall j, In j avail -> g_time p = true -> 60 * jest j <= g_max p) -> 0 <= s_hi s').
    { intros Hne Hfit. destruct avail as [|j l]; [congruence|]. cbn [pass] in Ep. cbn [s0 s_batch empty_batch b_jobs names map memN existsb] in Ep.
      destruct (visit_spec p 0 j s0) as [[Hj Hv]|[[Hj Hv]|[Hj [Hr [Hv [Ht Hgt]]]]]].
      - destruct (stop (length (j :: l)) (visit p 0 j s0)) eqn:Es.
        + inversion Ep; subst s' done. rewrite Hv. cbn. lia.
        + assert (Hin : incl (b_jobs (s_batch (visit p 0 j s0))) [j]) by (rewrite Hj; intros x []).
          assert (Hh : s_hi (visit p 0 j s0) = 0 + 1 - 1) by (rewrite Hv; cbn; lia).
          destruct (pass_pos_first p (j :: l) l [j] (0 + 1) _ s' done eq_refl eq_refl Hh Hin Ep) as [_ [Hlow _]]. lia.
      - destruct (stop (length (j :: l)) (visit p 0 j s0)) eqn:Es.
        + inversion Ep; subst s' done. rewrite Hv. cbn. lia.
        + assert (Hin : incl (b_jobs (s_batch (visit p 0 j s0))) [j]) by (rewrite Hj; cbn; intros x Hx; exact Hx).
          assert (Hh : s_hi (visit p 0 j s0) = 0 + 1 - 1) by (rewrite Hv; cbn; lia).
          destruct (pass_pos_first p (j :: l) l [j] (0 + 1) _ s' done eq_refl eq_refl Hh Hin Ep) as [_ [Hlow _]]. lia.
      - exfalso. cbn [s0 s_batch empty_batch b_time] in Hgt. specialize (Hfit j (or_introl eq_refl) Ht). lia. }
    destruct done.
    + split; [exact H1|]. intros Hne _ Hfit. left. auto.
    + destruct (passes_pos_later p avail n s' (H3 eq_refl) (Pos_incl _ _ H1)) as [H4 H5].
      split; [exact H4|]. intros Hne Hn Hfit. left. destruct Hn as [Hn|Hn].
      * inversion Hn; subst n. cbn [passes]. auto.
      * lia.
Qed.

(* ---------- the contract of _make_batch ---------- *)
Definition iters (p : gparams) (avail : list cjob) : nat := if g_try p then length avail else 1%nat.

Lemma make_batch_rest p avail :
  exists pre, avail = (pre ++ mb_rest (make_batch p avail))%list /\ incl (mb_batch (make_batch p avail)) pre.
Proof.
  unfold make_batch. cbn [mb_rest mb_batch]. fold s0. fold (iters p avail).
  destruct (passes_pos p avail (iters p avail)) as [[pre [rest [Ha [Hin Hh]]]] _].
  exists pre. split; [|exact Hin]. rewrite Hh.
  destruct (Z.of_nat (length pre) - 1 =? Z.of_nat (length avail) - 1) eqn:E.
  - apply Z.eqb_eq in E. assert (rest = []).
    { destruct rest; [reflexivity|]. rewrite Ha, app_length in E. cbn [length] in E. lia. }
    subst rest. exact Ha.
  - replace (Z.to_nat (Z.of_nat (length pre) - 1 + 1)) with (length pre) by lia.
    rewrite Ha at 2. rewrite skipn_app, skipn_all, Nat.sub_diag. cbn. exact Ha.
Qed.

Theorem make_batch_contract p avail :
  NoDup (names avail) ->
  let m := make_batch p avail in
  NoDup (names (mb_batch m)) /\
  (exists pre, avail = (pre ++ mb_rest m)%list /\ incl (mb_batch m) pre /\ incl (mb_blocked m) avail) /\
  (forall x, In x (names (mb_batch m)) -> ~ In x (names (mb_rest m))) /\
  (if g_time p then mb_batch m = [] \/ 60 * sum_est (mb_batch m) <= g_max p
   else (N.of_nat (length (mb_batch m)) <= N.max 1 (g_size p))%N) /\
  closed (mb_batch m) /\ blocked_only_if_try p (mb_batch m) /\
  (forall x, In x (mb_blocked m) -> ~ In (jname x) (names (mb_batch m)) /\ jblocked x <> []).
Proof.
  intros Hnd m.
  assert (HF : Fin p avail (passes (iters p avail) p avail s0)) by (apply passes_fin; apply Run_s0).
  destruct HF as [Hi Hn Hc Ht Hl [Hb1 Hb2]].
  destruct (make_batch_rest p avail) as [pre [Ha Hin]].
  subst m. unfold make_batch in *. cbn [mb_batch mb_blocked mb_rest] in *. fold s0 in *. fold (iters p avail) in *.
  split; [exact Hn|]. split; [exists pre; repeat split; assumption|]. split.
  - intros x Hx Hr. rewrite Ha in Hnd. rewrite names_app in Hnd. apply NoDup_app_iff in Hnd. destruct Hnd as [_ [_ Hd]].
    apply (Hd x); [|exact Hr]. unfold names in Hx. apply in_map_iff in Hx. destruct Hx as [y [<- Hy]]. apply in_names. auto.
  - split; [exact Hl|]. split; [exact Hc|]. split; [exact Ht|exact Hb2].
Qed.

(* a call on a non-empty candidate list consumes at least one candidate, provided every estimate
   fits an empty batch (what check_job_runtimes enforces); without it impl loops forever *)
Theorem make_batch_progress p avail :
  avail <> [] -> (forall j, In j avail -> g_time p = true -> 60 * jest j <= g_max p) ->
  (length (mb_rest (make_batch p avail)) < length avail)%nat.
Proof.
  intros Hne Hfit. unfold make_batch. cbn [mb_rest]. fold s0. fold (iters p avail).
  destruct (passes_pos p avail (iters p avail)) as [[pre [rest [Ha [Hin Hh]]]] Hlow].
  assert (H0 : 0 <= s_hi (passes (iters p avail) p avail s0)).
  { destruct Hlow as [H|H]; [exact Hne| |exact Hfit|exact H|].
    - unfold iters. destruct (g_try p); [|left; reflexivity].
      destruct avail as [|a [|b l]]; [congruence|left; reflexivity|right; cbn [length]; lia].
    - unfold iters in H. destruct (g_try p); [|discriminate]. destruct avail; [congruence|discriminate]. }
  destruct (s_hi (passes (iters p avail) p avail s0) =? Z.of_nat (length avail) - 1) eqn:E.
  - cbn. destruct avail; [congruence|cbn; lia].
  - rewrite skipn_length. assert (0 < length avail)%nat by (destruct avail; [congruence|cbn [length]; lia]). lia.
Qed.

(* ---------- coverage: every candidate is placed, reported blocked, or handed back as not checked ---------- *)
Definition PB (x : cjob) (s : st) : Prop := In (jname x) (names (b_jobs (s_batch s))) \/ In x (s_blocked s).

Lemma visit_cases p i j s :
  (b_jobs (s_batch (visit p i j s)) = b_jobs (s_batch s) /\ s_blocked (visit p i j s) = add_blocked j (s_blocked s) /\
   s_hi (visit p i j s) = Z.max (s_hi s) i) \/
  (b_jobs (s_batch (visit p i j s)) = (b_jobs (s_batch s) ++ [j])%list /\
   s_blocked (visit p i j s) = del_blocked (jname j) (s_blocked s) /\ s_hi (visit p i j s) = Z.max (s_hi s) i) \/
  (b_jobs (s_batch (visit p i j s)) = b_jobs (s_batch s) /\ s_blocked (visit p i j s) = s_blocked s /\
   b_ready (s_batch (visit p i j s)) = true /\
   s_hi (visit p i j s) = (if i =? Z.max (s_hi s) i then Z.max (s_hi s) i - 1 else Z.max (s_hi s) i)).
Proof.
  unfold visit. destruct (is_blocked p (s_batch s) j); [left; repeat split; reflexivity|].
  destruct (try_append p (s_batch s) j) as [b' ok] eqn:Et. pose proof (try_append_jobs _ _ _ _ _ Et) as Hj.
  destruct ok; cbn [s_batch s_hi s_blocked].
  - right; left. repeat split; [exact Hj].
  - right; right. split; [exact Hj|]. split; [reflexivity|]. split; [eapply try_append_fail_ready; eauto|reflexivity].
Qed.

Lemma names_unique l x y : NoDup (names l) -> In x l -> In y l -> jname x = jname y -> x = y.
Proof.
  induction l as [|a l IH]; intros Hnd Hx Hy He; [destruct Hx|].
  cbn in Hnd. inversion Hnd as [|? ? Hna Hnd']; subst.
  destruct Hx as [<-|Hx]; destruct Hy as [<-|Hy]; [reflexivity| | |auto].
  - exfalso. apply Hna. rewrite He. apply in_names. exact Hy.
  - exfalso. apply Hna. rewrite <- He. apply in_names. exact Hx.
Qed.

Lemma add_blocked_has avail j l : NoDup (names avail) -> In j avail -> incl l avail -> In j (add_blocked j l).
Proof.
  intros Hnd Hj Hl. unfold add_blocked. destruct (memN (jname j) (names l)) eqn:E.
  - apply memN_In in E. unfold names in E. apply in_map_iff in E. destruct E as [y [Hy1 Hy2]].
    assert (y = j) by (eapply names_unique; eauto). subst y. exact Hy2.
  - apply in_app_iff. right. left. reflexivity.
Qed.
Lemma add_blocked_keeps j l x : In x l -> In x (add_blocked j l).
Proof. unfold add_blocked. destruct (memN _ _); [auto|]. intros H. apply in_app_iff. left. exact H. Qed.

Lemma visit_PB_mono p i j s x : PB x s -> PB x (visit p i j s).
Proof.
  unfold PB. destruct (visit_cases p i j s) as [[H1 [H2 _]]|[[H1 [H2 _]]|[H1 [H2 _]]]]; rewrite H1, H2; intros [H|H].
  - left; exact H.
  - right; apply add_blocked_keeps; exact H.
  - left. rewrite names_app. apply in_app_iff. left. exact H.
  - destruct (N.eq_dec (jname x) (jname j)) as [E|E].
    + left. rewrite names_app. apply in_app_iff. right. left. symmetry. exact E.
    + right. apply del_blocked_in. split; assumption.
  - left; exact H.
  - right; exact H.
Qed.
Lemma visit_blocked_incl p avail i j s : In j avail -> incl (s_blocked s) avail -> incl (s_blocked (visit p i j s)) avail.
Proof.
  intros Hj Hl. destruct (visit_cases p i j s) as [[_ [H2 _]]|[[_ [H2 _]]|[_ [H2 _]]]]; rewrite H2; intros x Hx.
  - apply add_blocked_in in Hx. destruct Hx as [->|Hx]; auto.
  - apply del_blocked_in in Hx. apply Hl. tauto.
  - auto.
Qed.

Lemma in_firstn {A} n (l : list A) x : In x (firstn n l) -> In x l.
Proof. intros H. rewrite <- (firstn_skipn n l). apply in_app_iff. left. exact H. Qed.
Lemma firstn_prefix {A} (pre l : list A) : firstn (length pre) (pre ++ l) = pre.
Proof.
  rewrite <- (Nat.add_0_r (length pre)). rewrite firstn_app_2. cbn. apply app_nil_r.
Qed.

Lemma pass_cov_first p avail (Hnd : NoDup (names avail)) : forall l pre i s s' done,
  avail = (pre ++ l)%list -> i = Z.of_nat (length pre) -> s_hi s = i - 1 ->
  incl (s_blocked s) avail -> (forall x, In x pre -> PB x s) ->
  pass p (length avail) l i s = (s', done) ->
  incl (s_blocked s') avail /\ (forall x, In x (firstn (Z.to_nat (s_hi s' + 1)) avail) -> PB x s').
Proof.
  induction l as [|j l IH]; intros pre i s s' done Ha Hi Hh Hb Hc Hp; cbn [pass] in Hp.
  - inversion Hp; subst s' done. split; [exact Hb|]. rewrite app_nil_r in Ha. subst avail.
    replace (Z.to_nat (s_hi s + 1)) with (length pre) by lia. rewrite firstn_all. exact Hc.
  - assert (Ha' : avail = ((pre ++ [j]) ++ l)%list) by (rewrite <- app_assoc; exact Ha).
    assert (Hi' : i + 1 = Z.of_nat (length (pre ++ [j]))) by (rewrite app_length; cbn; lia).
    assert (Hjin : In j avail) by (rewrite Ha; apply in_app_iff; right; left; reflexivity).
    assert (Hmax : Z.max (s_hi s) i = i) by lia.
    destruct (memN (jname j) (names (b_jobs (s_batch s)))) eqn:Em.
    + apply memN_In in Em.
      refine (IH (pre ++ [j])%list (i + 1) _ s' done Ha' Hi' _ _ _ Hp); cbn [s_hi s_blocked]; [lia|exact Hb|].
      intros x Hx. apply in_app_iff in Hx. destruct Hx as [Hx|[<-|[]]].
      * destruct (Hc x Hx) as [H|H]; [left|right]; exact H.
      * left. exact Em.
    + assert (Hb' : incl (s_blocked (visit p i j s)) avail) by (apply visit_blocked_incl; assumption).
      destruct (visit_cases p i j s) as [[H1 [H2 H3]]|[[H1 [H2 H3]]|[H1 [H2 [Hr H3]]]]].
      * assert (Hc' : forall x, In x (pre ++ [j]) -> PB x (visit p i j s)).
        { intros x Hx. apply in_app_iff in Hx. destruct Hx as [Hx|[<-|[]]]; [apply visit_PB_mono; auto|].
          right. rewrite H2. eapply add_blocked_has; eauto. }
        destruct (stop (length avail) (visit p i j s)) eqn:Es.
        -- inversion Hp; subst s' done. split; [exact Hb'|].
           replace (Z.to_nat (s_hi (visit p i j s) + 1)) with (length (pre ++ [j])) by lia.
           rewrite Ha'. rewrite firstn_prefix. exact Hc'.
        -- refine (IH (pre ++ [j])%list (i + 1) _ s' done Ha' Hi' _ Hb' Hc' Hp). lia.
      * assert (Hc' : forall x, In x (pre ++ [j]) -> PB x (visit p i j s)).
        { intros x Hx. apply in_app_iff in Hx. destruct Hx as [Hx|[<-|[]]]; [apply visit_PB_mono; auto|].
          left. rewrite H1, names_app. apply in_app_iff. right. left. reflexivity. }
        destruct (stop (length avail) (visit p i j s)) eqn:Es.
        -- inversion Hp; subst s' done. split; [exact Hb'|].
           replace (Z.to_nat (s_hi (visit p i j s) + 1)) with (length (pre ++ [j])) by lia.
           rewrite Ha'. rewrite firstn_prefix. exact Hc'.
        -- refine (IH (pre ++ [j])%list (i + 1) _ s' done Ha' Hi' _ Hb' Hc' Hp). lia.
      * rewrite (stop_ready _ _ Hr) in Hp. inversion Hp; subst s' done. split; [exact Hb'|].
        rewrite Hmax, Z.eqb_refl in H3.
        replace (Z.to_nat (s_hi (visit p i j s) + 1)) with (length pre) by lia.
        rewrite Ha. rewrite firstn_prefix. intros x Hx. apply visit_PB_mono. auto.
Qed.

Lemma pass_cov_later p avail : forall l i s s' done,
  incl l avail -> incl (s_blocked s) avail -> (forall x, In x avail -> PB x s) ->
  pass p (length avail) l i s = (s', done) ->
  incl (s_blocked s') avail /\ (forall x, In x avail -> PB x s').
Proof.
  induction l as [|j l IH]; intros i s s' done Hl Hb Hc Hp; cbn [pass] in Hp.
  - inversion Hp; subst. split; assumption.
  - assert (Hj : In j avail) by (apply Hl; left; reflexivity).
    assert (Hl' : incl l avail) by (intros x Hx; apply Hl; right; exact Hx).
    destruct (memN (jname j) (names (b_jobs (s_batch s)))) eqn:Em.
    + refine (IH _ _ s' done Hl' _ _ Hp); cbn [s_blocked]; [exact Hb|].
      intros x Hx. destruct (Hc x Hx) as [H|H]; [left|right]; exact H.
    + assert (Hb' : incl (s_blocked (visit p i j s)) avail) by (apply visit_blocked_incl; assumption).
      assert (Hc' : forall x, In x avail -> PB x (visit p i j s)) by (intros x Hx; apply visit_PB_mono; auto).
      destruct (stop (length avail) (visit p i j s)).
      * inversion Hp; subst. split; assumption.
      * exact (IH _ _ s' done Hl' Hb' Hc' Hp).
Qed.

Lemma passes_cov_later p avail : forall n s,
  incl (s_blocked s) avail -> (forall x, In x avail -> PB x s) ->
  incl (s_blocked (passes n p avail s)) avail /\ (forall x, In x avail -> PB x (passes n p avail s)).
Proof.
  induction n as [|n IH]; intros s Hb Hc; cbn [passes]; [split; assumption|].
  destruct (pass p (length avail) avail 0 s) as [s' done] eqn:Ep.
  destruct (pass_cov_later p avail avail 0 s s' done (incl_refl _) Hb Hc Ep) as [Hb' Hc'].
  destruct done; [split; assumption|apply IH; assumption].
Qed.

Lemma passes_cov p avail n : NoDup (names avail) ->
  incl (s_blocked (passes n p avail s0)) avail /\
  (forall x, In x (firstn (Z.to_nat (s_hi (passes n p avail s0) + 1)) avail) -> PB x (passes n p avail s0)).
Proof.
  intros Hnd. destruct n as [|n]; cbn [passes].
  - split; [intros x []|]. cbn. intros x [].
  - destruct (pass p (length avail) avail 0 s0) as [s' done] eqn:Ep.
    destruct (pass_cov_first p avail Hnd avail [] 0 s0 s' done eq_refl eq_refl eq_refl (fun x (H : In x []) => match H with end)
                (fun x (H : In x []) => match H with end) Ep) as [Hb Hc].
    destruct done; [split; assumption|].
    destruct (pass_pos_first p avail avail [] 0 s0 s' false eq_refl eq_refl eq_refl (fun x H => H) Ep) as [_ [_ H3]].
    specialize (H3 eq_refl).
    assert (Hall : forall x, In x avail -> PB x s').
    { intros x Hx. apply Hc. rewrite H3. replace (Z.to_nat (Z.of_nat (length avail) - 1 + 1)) with (length avail) by lia.
      rewrite firstn_all. exact Hx. }
    destruct (passes_cov_later p avail n s' Hb Hall) as [Hb' Hc']. split; [exact Hb'|].
    intros x Hx. apply Hc'. eapply in_firstn; exact Hx.
Qed.

Theorem make_batch_cover p avail : NoDup (names avail) ->
  forall x, In x avail ->
    In (jname x) (names (mb_batch (make_batch p avail))) \/ In x (mb_blocked (make_batch p avail)) \/
    In x (mb_rest (make_batch p avail)).
Proof.
  intros Hnd x Hx. unfold make_batch. cbn [mb_batch mb_blocked mb_rest]. fold s0. fold (iters p avail).
  destruct (passes_cov p avail (iters p avail) Hnd) as [_ Hc].
  destruct (s_hi (passes (iters p avail) p avail s0) =? Z.of_nat (length avail) - 1) eqn:E.
  - apply Z.eqb_eq in E. destruct (Hc x) as [H|H]; [|left; exact H|right; left; exact H].
    rewrite E. replace (Z.to_nat (Z.of_nat (length avail) - 1 + 1)) with (length avail) by lia.
    rewrite firstn_all. exact Hx.
  - pose proof (firstn_skipn (Z.to_nat (s_hi (passes (iters p avail) p avail s0) + 1)) avail) as Hs.
    assert (Hx' : In x (firstn (Z.to_nat (s_hi (passes (iters p avail) p avail s0) + 1)) avail ++
                        skipn (Z.to_nat (s_hi (passes (iters p avail) p avail s0) + 1)) avail)) by (rewrite Hs; exact Hx).
    apply in_app_iff in Hx'. destruct Hx' as [Hx'|Hx']; [|right; right; exact Hx'].
    destruct (Hc x Hx') as [H|H]; [left; exact H|right; left; exact H].
Qed.

(* ---- the component lemmas C01 cites ---- *)
Theorem make_batch_batch_nodup p avail :
  NoDup (names avail) -> NoDup (names (mb_batch (make_batch p avail))).
Proof. intros H. exact (proj1 (make_batch_contract p avail H)). Qed.

Theorem make_batch_rest_disjoint p avail :
  NoDup (names avail) ->
  forall x, In x (names (mb_batch (make_batch p avail))) -> ~ In x (names (mb_rest (make_batch p avail))).
Proof. intros H. exact (proj1 (proj2 (proj2 (make_batch_contract p avail H)))). Qed.

(* ---------- candidate lists ---------- *)
Lemma insert_perm j l : Permutation (insert_by_est j l) (j :: l).
Proof.
  induction l as [|x r IH]; cbn [insert_by_est]; [apply Permutation_refl|].
  destruct (jest j <=? jest x); [apply Permutation_refl|].
  eapply Permutation_trans; [apply perm_skip; exact IH|apply perm_swap].
Qed.
Lemma sort_perm l : Permutation (sort_by_est l) l.
Proof.
  induction l as [|x r IH]; cbn; [apply perm_nil|].
  eapply Permutation_trans; [apply insert_perm|apply perm_skip; exact IH].
Qed.
Lemma filter_names_nodup f (l : list cjob) : NoDup (names l) -> NoDup (names (filter f l)).
Proof.
  induction l as [|x r IH]; cbn; intros H; [constructor|]. inversion H as [|? ? Hn Hr]; subst.
  destruct (f x); [|auto]. cbn. constructor; [|auto]. intros Hc. apply Hn.
  unfold names in Hc. apply in_map_iff in Hc. destruct Hc as [y [Hy1 Hy2]]. apply filter_In in Hy2.
  rewrite <- Hy1. apply in_names. tauto.
Qed.
Lemma available_spec g ns x : In x (available g ns) <-> In x ns /\ jgroup x = g_name g.
Proof.
  unfold available.
  assert (H : In x (filter (fun j => N.eqb (jgroup j) (g_name g)) ns) <-> In x ns /\ jgroup x = g_name g).
  { rewrite filter_In, N.eqb_eq. tauto. }
  destruct (g_time g); [|exact H]. rewrite <- H. split; apply Permutation_in; [apply sort_perm|apply Permutation_sym, sort_perm].
Qed.
Lemma available_nodup g ns : NoDup (names ns) -> NoDup (names (available g ns)).
Proof.
  intros H. unfold available. pose proof (filter_names_nodup (fun j => N.eqb (jgroup j) (g_name g)) ns H) as Hf.
  destruct (g_time g); [|exact Hf].
  eapply Permutation_NoDup; [|exact Hf]. apply Permutation_map. apply Permutation_sym, sort_perm.
Qed.

(* ---------- _submit_batches and the group loop ---------- *)
Definition sb_step (p : gparams) (avail : list cjob) (r : rstate) : rstate :=
  let m := make_batch p avail in
  let r1 := {| r_out := r_out r; r_index := r_index r; r_oks := r_oks r; r_subs := r_subs r;
               r_submitted := r_submitted r ++ mb_batch m; r_blocked := r_blocked r ++ mb_blocked m |} in
  match mb_batch m with [] => r1 | _ => submit_batch p (mb_batch m) r1 end.

Lemma submit_batches_S f depth p avail r :
  submit_batches (S f) depth p avail r =
  match avail with
  | [] => ROk r
  | _ => if is_full depth r then ROk r
         else submit_batches f depth p (mb_rest (make_batch p avail)) (sb_step p avail r)
  end.
Proof. destruct avail; reflexivity. Qed.

Lemma submit_batches_inv depth p (P : list cjob -> rstate -> Prop) :
  (forall avail r, P avail r -> avail <> [] -> is_full depth r = false ->
                   P (mb_rest (make_batch p avail)) (sb_step p avail r)) ->
  forall fuel avail r r', P avail r -> submit_batches fuel depth p avail r = ROk r' ->
  exists rest, P rest r' /\ (rest = [] \/ is_full depth r' = true).
Proof.
  intros Hstep. induction fuel as [|f IH]; intros avail r r' HP Hs.
  - cbn [submit_batches] in Hs. destruct avail as [|a l].
    + inversion Hs; subst. exists []. auto.
    + destruct (is_full depth r) eqn:Ef; [|discriminate]. inversion Hs; subst. exists (a :: l). auto.
  - rewrite submit_batches_S in Hs. destruct avail as [|a l].
    + inversion Hs; subst. exists []. auto.
    + destruct (is_full depth r) eqn:Ef.
      * inversion Hs; subst. exists (a :: l). auto.
      * eapply IH; [|exact Hs]. apply Hstep; [exact HP|discriminate|exact Ef].
Qed.

Lemma submit_groups_inv depth ns (Q : list gparams -> rstate -> Prop) :
  (forall done g r, Q done r -> is_full depth r = true -> Q (done ++ [g]) r) ->
  (forall done g r r', Q done r -> is_full depth r = false ->
     submit_batches (S (length (available g ns))) depth g (available g ns) r = ROk r' -> Q (done ++ [g]) r') ->
  forall groups done r r', Q done r -> submit_groups depth groups ns r = ROk r' -> Q (done ++ groups) r'.
Proof.
  intros Hfull Hrun. induction groups as [|g gs IH]; intros done r r' HQ Hs; cbn [submit_groups] in Hs.
  - inversion Hs; subst. rewrite app_nil_r. exact HQ.
  - replace (done ++ g :: gs)%list with ((done ++ [g]) ++ gs)%list by (rewrite <- app_assoc; reflexivity).
    destruct (is_full depth r) eqn:Ef.
    + eapply IH; [|exact Hs]. apply Hfull; assumption.
    + destruct (submit_batches (S (length (available g ns))) depth g (available g ns) r) as [r1|] eqn:Es; [|discriminate].
      eapply IH; [|exact Hs]. eapply Hrun; eauto.
Qed.

Definition subs_jobs (l : list sub) : list cjob := concat (map sb_jobs l).
Definition count_ok (l : list sub) : nat := length (filter sb_ok l).
Fixpoint nseq (start : N) (n : nat) : list N :=
  match n with O => [] | S k => start :: nseq (N.succ start) k end.

Lemma nseq_app start n : nseq start (n + 1) = (nseq start n ++ [(start + N.of_nat n)%N])%list.
Proof.
  revert start. induction n as [|n IH]; intros start; cbn [nseq Nat.add].
  - cbn. rewrite N.add_0_r. reflexivity.
  - rewrite IH. cbn [app]. do 3 f_equal. lia.
Qed.
Lemma nseq_in start n x : In x (nseq start n) <-> (start <= x < start + N.of_nat n)%N.
Proof.
  revert start. induction n as [|n IH]; intros start; cbn [nseq In].
  - split; [intros []|lia].
  - rewrite IH. lia.
Qed.
Lemma nseq_nodup start n : NoDup (nseq start n).
Proof.
  revert start. induction n as [|n IH]; intros start; cbn [nseq]; constructor; [|apply IH].
  rewrite nseq_in. lia.
Qed.
Lemma subs_jobs_app a b : subs_jobs (a ++ b) = (subs_jobs a ++ subs_jobs b)%list.
Proof. unfold subs_jobs. rewrite map_app, concat_app. reflexivity. Qed.
Lemma count_ok_app a b : count_ok (a ++ b) = (count_ok a + count_ok b)%nat.
Proof. unfold count_ok. rewrite filter_app, app_length. reflexivity. Qed.

(* the limit a submitted (non-empty) batch obeys *)
Definition limit_ok (p : gparams) (jobs : list cjob) : Prop :=
  if g_time p then 60 * sum_est jobs <= g_max p
  else (1 <= N.of_nat (length jobs) <= N.max 1 (g_size p))%N.

(* what holds of every batch handed to _submit_batch *)
Definition SubOK (gs : list gparams) (ns : list cjob) (s : sub) : Prop :=
  exists g, In g gs /\ sb_group s = g_name g /\ sb_jobs s <> [] /\
            incl (sb_jobs s) (available g ns) /\ NoDup (names (sb_jobs s)) /\ limit_ok g (sb_jobs s) /\
            closed (sb_jobs s) /\ blocked_only_if_try g (sb_jobs s) /\ (g_dry g = true -> sb_ok s = true).

Record RInv (depth out0 index0 : N) (ns : list cjob) (done : list gparams) (r : rstate) : Prop := {
  ri_sub : r_submitted r = subs_jobs (r_subs r);
  ri_idx : map sb_index (r_subs r) = nseq index0 (length (r_subs r));
  ri_next : r_index r = (index0 + N.of_nat (length (r_subs r)))%N;
  ri_out : r_out r = (out0 + N.of_nat (count_ok (r_subs r)))%N;
  ri_cap : (r_out r <= N.max depth out0)%N;
  ri_subs : Forall (SubOK done ns) (r_subs r);
  ri_nodup : NoDup (names (r_submitted r));
  ri_incl : incl (r_submitted r) ns;
  ri_grp : forall x, In x (r_submitted r) -> In (jgroup x) (map g_name done);
  ri_blk : forall x, In x (r_blocked r) -> In x ns /\ jblocked x <> []
}.

Lemma SubOK_mono gs gs' ns s : incl gs gs' -> SubOK gs ns s -> SubOK gs' ns s.
Proof. intros Hi [g [Hg H]]. exists g. split; [apply Hi; exact Hg|exact H]. Qed.

Lemma RInv_mono depth out0 index0 ns done g r :
  RInv depth out0 index0 ns done r -> RInv depth out0 index0 ns (done ++ [g]) r.
Proof.
  intros [H1 H2 H3 H4 H5 H6 H7 H8 H9 H10]. constructor; try assumption.
  - eapply Forall_impl; [|exact H6]. intros s. apply SubOK_mono. intros x Hx. apply in_app_iff. left. exact Hx.
  - intros x Hx. rewrite map_app. apply in_app_iff. left. auto.
Qed.

(* invariant of the loop in _submit_batches for group g; `done` = the groups handled before *)
Definition GP (depth out0 index0 : N) (ns : list cjob) (done : list gparams) (g : gparams)
           (avail : list cjob) (r : rstate) : Prop :=
  RInv depth out0 index0 ns (done ++ [g]) r /\ NoDup (names avail) /\ incl avail (available g ns) /\
  (forall x, In x (names (r_submitted r)) -> ~ In x (names avail)) /\
  (forall x, In x (available g ns) ->
             In (jname x) (names (r_submitted r)) \/ In x (r_blocked r) \/ In x avail) /\
  (forall g' x, In g' done -> In x ns -> jgroup x = g_name g' ->
                In (jname x) (names (r_submitted r)) \/ In x (r_blocked r)).

Lemma is_full_false depth r : is_full depth r = false -> (r_out r < depth)%N.
Proof. unfold is_full, queue_full. intros H. apply N.leb_gt in H. exact H. Qed.

Lemma names_incl a b : incl a b -> incl (names a) (names b).
Proof. intros H x Hx. unfold names in *. apply in_map_iff in Hx. destruct Hx as [y [<- Hy]]. apply in_map. auto. Qed.

Lemma sb_step_GP depth out0 index0 ns done g avail r :
  GP depth out0 index0 ns done g avail r -> avail <> [] -> is_full depth r = false ->
  GP depth out0 index0 ns done g (mb_rest (make_batch g avail)) (sb_step g avail r).
Proof.
  intros [HR [Hnd [Hav [Hdis [Hcov Hold]]]]] Hne Hfull.
  destruct (make_batch_contract g avail Hnd) as [Mn [[pre [Ma [Mi Mb]]] [Md [Ml [Mc [Mt Mbl]]]]]].
  pose proof (make_batch_cover g avail Hnd) as Mcov.
  assert (F1 : incl (mb_batch (make_batch g avail)) avail).
  { intros x Hx. rewrite Ma. apply in_app_iff. left. auto. }
  assert (F3 : incl (mb_rest (make_batch g avail)) avail).
  { intros x Hx. rewrite Ma. apply in_app_iff. right. exact Hx. }
  assert (F2 : NoDup (names (mb_rest (make_batch g avail)))).
  { rewrite Ma, names_app in Hnd. apply NoDup_app_iff in Hnd. tauto. }
  assert (Fsub : r_submitted (sb_step g avail r) = (r_submitted r ++ mb_batch (make_batch g avail))%list).
  { unfold sb_step. destruct (mb_batch (make_batch g avail)); reflexivity. }
  assert (Fblk : r_blocked (sb_step g avail r) = (r_blocked r ++ mb_blocked (make_batch g avail))%list).
  { unfold sb_step. destruct (mb_batch (make_batch g avail)); reflexivity. }
  assert (Fnd : NoDup (names (r_submitted r ++ mb_batch (make_batch g avail)))).
  { rewrite names_app. apply NoDup_app_iff. split; [apply (ri_nodup _ _ _ _ _ _ HR)|]. split; [exact Mn|].
    intros x Hx Hb. apply (Hdis x Hx). exact (names_incl _ _ F1 x Hb). }
  assert (Fincl : incl (r_submitted r ++ mb_batch (make_batch g avail)) ns).
  { intros x Hx. apply in_app_iff in Hx. destruct Hx as [Hx|Hx]; [apply (ri_incl _ _ _ _ _ _ HR); exact Hx|].
    apply (available_spec g ns x). auto. }
  assert (Fgrp : forall x, In x (r_submitted r ++ mb_batch (make_batch g avail)) -> In (jgroup x) (map g_name (done ++ [g]))).
  { intros x Hx. apply in_app_iff in Hx. destruct Hx as [Hx|Hx]; [apply (ri_grp _ _ _ _ _ _ HR); exact Hx|].
    assert (Hg : jgroup x = g_name g) by (apply (available_spec g ns x); auto).
    rewrite Hg, map_app. apply in_app_iff. right. left. reflexivity. }
  assert (Fb : forall x, In x (r_blocked r ++ mb_blocked (make_batch g avail)) -> In x ns /\ jblocked x <> []).
  { intros x Hx. apply in_app_iff in Hx. destruct Hx as [Hx|Hx]; [apply (ri_blk _ _ _ _ _ _ HR); exact Hx|].
    split; [apply (available_spec g ns x); auto|apply Mbl; exact Hx]. }
  split; [|split; [exact F2|split; [intros x Hx; auto|split; [|split]]]].
  - (* RInv *)
    destruct HR as [H1 H2 H3 H4 H5 H6 H7 H8 H9 H10].
    destruct (mb_batch (make_batch g avail)) as [|b bs] eqn:Eb.
    + unfold sb_step. rewrite Eb. rewrite app_nil_r in *.
      constructor; cbn [r_out r_index r_oks r_subs r_submitted r_blocked]; assumption.
    + unfold sb_step. rewrite Eb. unfold submit_batch. cbn [r_out r_index r_oks r_subs r_submitted r_blocked].
      set (ok := g_dry g || hd true (r_oks r)).
      set (sb := {| sb_index := r_index r; sb_group := g_name g; sb_jobs := b :: bs; sb_ok := ok |}).
      constructor; cbn [r_out r_index r_oks r_subs r_submitted r_blocked]; try assumption.
      * rewrite subs_jobs_app, H1. unfold subs_jobs at 2. cbn. rewrite app_nil_r. reflexivity.
      * rewrite map_app, app_length. cbn [map length sb sb_index]. rewrite nseq_app, H2, H3. reflexivity.
      * rewrite app_length. cbn [length]. lia.
      * rewrite count_ok_app. unfold count_ok at 2. cbn [filter sb sb_ok]. destruct ok; cbn [length]; lia.
      * apply is_full_false in Hfull. destruct ok; lia.
      * apply Forall_app. split; [exact H6|]. constructor; [|constructor].
        exists g. split; [apply in_app_iff; right; left; reflexivity|]. cbn [sb sb_group sb_jobs sb_ok].
        split; [reflexivity|]. split; [discriminate|]. split; [intros x Hx; auto|]. split; [exact Mn|].
        split; [|split; [exact Mc|split; [exact Mt|]]].
        -- unfold limit_ok. destruct (g_time g).
           ++ destruct Ml as [Ml|Ml]; [discriminate|exact Ml].
           ++ cbn [length] in *. lia.
        -- intros Hd. unfold ok. rewrite Hd. reflexivity.
  - rewrite Fsub. intros x Hx Hr. rewrite names_app in Hx. apply in_app_iff in Hx. destruct Hx as [Hx|Hx].
    + apply (Hdis x Hx). exact (names_incl _ _ F3 x Hr).
    + exact (Md x Hx Hr).
  - rewrite Fsub, Fblk. intros x Hx. rewrite names_app. destruct (Hcov x Hx) as [H|[H|H]].
    + left. apply in_app_iff. left. exact H.
    + right. left. apply in_app_iff. left. exact H.
    + destruct (Mcov x H) as [H'|[H'|H']].
      * left. apply in_app_iff. right. exact H'.
      * right. left. apply in_app_iff. right. exact H'.
      * right. right. exact H'.
  - rewrite Fsub, Fblk. intros g' x Hg' Hx Hgx. rewrite names_app. destruct (Hold g' x Hg' Hx Hgx) as [H|H].
    + left. apply in_app_iff. left. exact H.
    + right. apply in_app_iff. left. exact H.
Qed.

(* unless the queue is full, every NOT_SUBMITTED job of the groups handled so far was placed in a batch of
   this round or reported blocked *)
Definition Cover (ns : list cjob) (gs : list gparams) (r : rstate) : Prop :=
  forall g x, In g gs -> In x ns -> jgroup x = g_name g ->
              In (jname x) (names (r_submitted r)) \/ In x (r_blocked r).

Definition QInv (depth out0 index0 : N) (ns : list cjob) (done : list gparams) (r : rstate) : Prop :=
  NoDup (map g_name done) ->
  RInv depth out0 index0 ns done r /\ (is_full depth r = true \/ Cover ns done r).

Lemma submit_groups_QInv depth out0 index0 ns : NoDup (names ns) ->
  forall groups done r r',
    QInv depth out0 index0 ns done r -> submit_groups depth groups ns r = ROk r' ->
    QInv depth out0 index0 ns (done ++ groups) r'.
Proof.
  intros Hns. apply submit_groups_inv.
  - intros done g r HQ Hf Hnd. rewrite map_app in Hnd. apply NoDup_app_iff in Hnd. destruct Hnd as [Hnd _].
    destruct (HQ Hnd) as [HR _]. split; [apply RInv_mono; exact HR|left; exact Hf].
  - intros done g r r' HQ Hf Hs Hnd.
    assert (Hnd' := Hnd). rewrite map_app in Hnd'. apply NoDup_app_iff in Hnd'. destruct Hnd' as [Hnd1 [_ Hdisj]].
    destruct (HQ Hnd1) as [HR Hc]. destruct Hc as [Hc|Hc]; [congruence|].
    assert (HGP : GP depth out0 index0 ns done g (available g ns) r).
    { split; [apply RInv_mono; exact HR|]. split; [apply available_nodup; exact Hns|]. split; [apply incl_refl|].
      split; [|split].
      - intros x Hx Ha. unfold names in Hx, Ha. apply in_map_iff in Hx. destruct Hx as [y [Hy1 Hy2]].
        apply in_map_iff in Ha. destruct Ha as [z [Hz1 Hz2]].
        apply available_spec in Hz2. destruct Hz2 as [Hz2 Hz3].
        assert (y = z).
        { eapply names_unique; [exact Hns|apply (ri_incl _ _ _ _ _ _ HR); exact Hy2|exact Hz2|congruence]. }
        subst z. apply (Hdisj (g_name g)); [rewrite <- Hz3; apply (ri_grp _ _ _ _ _ _ HR); exact Hy2|left; reflexivity].
      - intros x Hx. right. right. exact Hx.
      - exact Hc. }
    destruct (submit_batches_inv depth g (GP depth out0 index0 ns done g)
                (fun avail r => sb_step_GP depth out0 index0 ns done g avail r) _ _ _ _ HGP Hs)
      as [rest [[HR' [_ [_ [_ [Hcov Hold]]]]] Hend]].
    split; [exact HR'|]. destruct Hend as [->|Hf']; [|left; exact Hf']. right.
    intros g' x Hg' Hx Hgx. apply in_app_iff in Hg'. destruct Hg' as [Hg'|[<-|[]]]; [eapply Hold; eauto|].
    destruct (Hcov x) as [H|[H|[]]]; [apply available_spec; auto|left; exact H|right; exact H].
Qed.

Definition r_init (out0 index0 : N) (oks : list bool) : rstate :=
  {| r_out := out0; r_index := index0; r_oks := oks; r_subs := []; r_submitted := []; r_blocked := [] |}.

Lemma RInv_init depth out0 index0 oks ns : RInv depth out0 index0 ns [] (r_init out0 index0 oks).
Proof.
  constructor; cbn; try reflexivity; try lia; try (constructor; fail); intros x [].
Qed.

(* everything the round establishes, for any number of jobs and groups *)
Theorem submit_round_inv depth out0 index0 oks groups ns r :
  NoDup (names ns) -> NoDup (map g_name groups) ->
  submit_round depth out0 index0 oks groups ns = ROk r ->
  RInv depth out0 index0 ns groups r /\ (is_full depth r = true \/ Cover ns groups r).
Proof.
  intros Hns Hg Hs. unfold submit_round in Hs. fold (r_init out0 index0 oks) in Hs.
  assert (HQ : QInv depth out0 index0 ns [] (r_init out0 index0 oks)).
  { intros _. split; [apply RInv_init|]. right. intros g x []. }
  exact (submit_groups_QInv depth out0 index0 ns Hns groups [] _ _ HQ Hs Hg).
Qed.

(* ---- named corollaries (C01 cites the first three) ---- *)
Theorem submit_round_disjoint depth out0 index0 oks groups ns r :
  NoDup (names ns) -> NoDup (map g_name groups) ->
  submit_round depth out0 index0 oks groups ns = ROk r ->
  NoDup (names (subs_jobs (r_subs r))) /\ incl (subs_jobs (r_subs r)) ns /\ r_submitted r = subs_jobs (r_subs r).
Proof.
  intros Hns Hg Hs. destruct (submit_round_inv _ _ _ _ _ _ _ Hns Hg Hs) as [[H1 H2 H3 H4 H5 H6 H7 H8 H9 H10] _].
  rewrite <- H1. repeat split; assumption.
Qed.

Theorem batch_index_fresh depth out0 index0 oks groups ns r :
  NoDup (names ns) -> NoDup (map g_name groups) ->
  submit_round depth out0 index0 oks groups ns = ROk r ->
  map sb_index (r_subs r) = nseq index0 (length (r_subs r)) /\
  r_index r = (index0 + N.of_nat (length (r_subs r)))%N /\
  NoDup (map sb_index (r_subs r)) /\
  (forall s, In s (r_subs r) -> (index0 <= sb_index s < r_index r)%N).
Proof.
  intros Hns Hg Hs. destruct (submit_round_inv _ _ _ _ _ _ _ Hns Hg Hs) as [[H1 H2 H3 H4 H5 H6 H7 H8 H9 H10] _].
  split; [exact H2|]. split; [exact H3|]. split; [rewrite H2; apply nseq_nodup|].
  intros s Hs'. rewrite H3. apply nseq_in. rewrite <- H2. apply in_map. exact Hs'.
Qed.

Theorem submit_round_slots depth out0 index0 oks groups ns r :
  NoDup (names ns) -> NoDup (map g_name groups) ->
  submit_round depth out0 index0 oks groups ns = ROk r ->
  r_out r = (out0 + N.of_nat (count_ok (r_subs r)))%N /\
  (N.of_nat (count_ok (r_subs r)) <= depth - out0)%N.
Proof.
  intros Hns Hg Hs. destruct (submit_round_inv _ _ _ _ _ _ _ Hns Hg Hs) as [[H1 H2 H3 H4 H5 H6 H7 H8 H9 H10] _].
  split; [exact H4|]. lia.
Qed.

Theorem submit_round_batches depth out0 index0 oks groups ns r :
  NoDup (names ns) -> NoDup (map g_name groups) ->
  submit_round depth out0 index0 oks groups ns = ROk r ->
  Forall (SubOK groups ns) (r_subs r).
Proof.
  intros Hns Hg Hs. destruct (submit_round_inv _ _ _ _ _ _ _ Hns Hg Hs) as [[H1 H2 H3 H4 H5 H6 H7 H8 H9 H10] _].
  exact H6.
Qed.

(* maximality: when the round ends with free slots, every NOT_SUBMITTED job of a listed group that has no
   unfinished blocker was placed in a batch *)
Theorem submit_round_maximal depth out0 index0 oks groups ns r :
  NoDup (names ns) -> NoDup (map g_name groups) ->
  submit_round depth out0 index0 oks groups ns = ROk r ->
  is_full depth r = true \/
  forall g x, In g groups -> In x ns -> jgroup x = g_name g -> jblocked x = [] ->
              In (jname x) (names (subs_jobs (r_subs r))).
Proof.
  intros Hns Hg Hs. destruct (submit_round_inv _ _ _ _ _ _ _ Hns Hg Hs) as [[H1 H2 H3 H4 H5 H6 H7 H8 H9 H10] Hc].
  destruct Hc as [Hc|Hc]; [left; exact Hc|right]. intros g x Hgi Hx Hgx Hb. rewrite <- H1.
  destruct (Hc g x Hgi Hx Hgx) as [H|H]; [exact H|]. exfalso. apply (proj2 (H10 x H)). exact Hb.
Qed.

(* ---------- the fuel of the model's while loop suffices ---------- *)
Definition fits (p : gparams) (l : list cjob) : Prop :=
  forall j, In j l -> g_time p = true -> 60 * jest j <= g_max p.

Lemma submit_batches_fuel depth p : forall fuel avail r,
  (length avail < fuel)%nat -> fits p avail -> submit_batches fuel depth p avail r <> ROutOfFuel.
Proof.
  induction fuel as [|f IH]; intros avail r Hlen Hfit; [lia|].
  rewrite submit_batches_S. destruct avail as [|a l]; [discriminate|].
  destruct (is_full depth r); [discriminate|].
  apply IH.
  - assert (H : (length (mb_rest (make_batch p (a :: l))) < length (a :: l))%nat).
    { apply make_batch_progress; [discriminate|exact Hfit]. }
    lia.
  - destruct (make_batch_rest p (a :: l)) as [pre [Ha _]]. intros j Hj. apply Hfit. rewrite Ha. apply in_app_iff. right. exact Hj.
Qed.

Lemma submit_groups_fuel depth ns : forall groups r,
  (forall g, In g groups -> fits g (available g ns)) -> submit_groups depth groups ns r <> ROutOfFuel.
Proof.
  induction groups as [|g gs IH]; intros r Hfit; cbn [submit_groups]; [discriminate|].
  assert (Hgs : forall g', In g' gs -> fits g' (available g' ns)) by (intros g' Hg'; apply Hfit; right; exact Hg').
  destruct (is_full depth r); [apply IH; exact Hgs|].
  destruct (submit_batches (S (length (available g ns))) depth g (available g ns) r) eqn:Es.
  - apply IH; exact Hgs.
  - exfalso. revert Es. apply submit_batches_fuel; [lia|apply Hfit; left; reflexivity].
Qed.

Theorem submit_round_fuel depth out0 index0 oks groups ns :
  (forall g, In g groups -> fits g (available g ns)) ->
  submit_round depth out0 index0 oks groups ns <> ROutOfFuel.
Proof. intros H. unfold submit_round. apply submit_groups_fuel. exact H. Qed.

(* ---------- dry run ---------- *)
Definition set_dry (d : bool) (p : gparams) : gparams :=
  {| g_name := g_name p; g_size := g_size p; g_time := g_time p; g_max := g_max p; g_try := g_try p; g_dry := d |}.
Definition erase_oks (r : rstate) : rstate :=
  {| r_out := r_out r; r_index := r_index r; r_oks := []; r_subs := r_subs r;
     r_submitted := r_submitted r; r_blocked := r_blocked r |}.
Definition map_rr (f : rstate -> rstate) (x : round_result) : round_result :=
  match x with ROk r => ROk (f r) | ROutOfFuel => ROutOfFuel end.

Lemma pass_dry d p n : forall l i s, pass (set_dry d p) n l i s = pass p n l i s.
Proof.
  induction l as [|j l IH]; intros i s; cbn [pass]; [reflexivity|].
  rewrite !IH. reflexivity.
Qed.
Lemma passes_dry d p avail : forall n s, passes n (set_dry d p) avail s = passes n p avail s.
Proof.
  induction n as [|n IH]; intros s; cbn [passes]; [reflexivity|]. rewrite pass_dry.
  destruct (pass p (length avail) avail 0 s) as [s' done]. destruct done; [reflexivity|apply IH].
Qed.
(* the batch built does not depend on the dry_run flag *)
Theorem make_batch_dry d p avail : make_batch (set_dry d p) avail = make_batch p avail.
Proof. unfold make_batch. cbn [g_try set_dry]. rewrite passes_dry. reflexivity. Qed.

Lemma sb_step_dry p avail r : g_dry p = true ->
  erase_oks (sb_step p avail r) = sb_step (set_dry false p) avail (erase_oks r) /\
  r_oks (sb_step p avail r) = r_oks r.
Proof.
  intros Hd. unfold sb_step. rewrite make_batch_dry. destruct (mb_batch (make_batch p avail)) as [|b bs].
  - split; reflexivity.
  - unfold submit_batch. cbn [r_out r_index r_oks r_subs r_submitted r_blocked g_dry set_dry erase_oks g_name].
    rewrite Hd. cbn [orb hd tl]. split; reflexivity.
Qed.

Lemma submit_batches_dry depth p : g_dry p = true -> forall fuel avail r,
  map_rr erase_oks (submit_batches fuel depth p avail r) =
  submit_batches fuel depth (set_dry false p) avail (erase_oks r) /\
  (forall r', submit_batches fuel depth p avail r = ROk r' -> r_oks r' = r_oks r).
Proof.
  intros Hd. induction fuel as [|f IH]; intros avail r.
  - cbn [submit_batches]. destruct avail as [|a l]; [split; [reflexivity|intros r' H; inversion H; reflexivity]|].
    change (is_full depth (erase_oks r)) with (is_full depth r).
    destruct (is_full depth r); split; try reflexivity; intros r' H; inversion H; reflexivity.
  - rewrite !submit_batches_S. destruct avail as [|a l]; [split; [reflexivity|intros r' H; inversion H; reflexivity]|].
    change (is_full depth (erase_oks r)) with (is_full depth r).
    destruct (is_full depth r); [split; [reflexivity|intros r' H; inversion H; reflexivity]|].
    rewrite make_batch_dry. destruct (sb_step_dry p (a :: l) r Hd) as [E1 E2]. rewrite <- E1.
    destruct (IH (mb_rest (make_batch p (a :: l))) (sb_step p (a :: l) r)) as [I1 I2].
    split; [exact I1|]. intros r' H. rewrite (I2 r' H). exact E2.
Qed.

Lemma available_dry d g ns : available (set_dry d g) ns = available g ns.
Proof. reflexivity. Qed.

Lemma submit_groups_dry depth ns : forall groups r,
  Forall (fun g => g_dry g = true) groups ->
  map_rr erase_oks (submit_groups depth groups ns r) =
  submit_groups depth (map (set_dry false) groups) ns (erase_oks r) /\
  (forall r', submit_groups depth groups ns r = ROk r' -> r_oks r' = r_oks r).
Proof.
  induction groups as [|g gs IH]; intros r Hall; cbn [submit_groups map].
  - split; [reflexivity|intros r' H; inversion H; reflexivity].
  - inversion Hall as [|? ? Hg Hgs]; subst.
    change (is_full depth (erase_oks r)) with (is_full depth r).
    destruct (is_full depth r); [apply IH; exact Hgs|].
    rewrite available_dry.
    destruct (submit_batches_dry depth g Hg (S (length (available g ns))) (available g ns) r) as [B1 B2].
    rewrite <- B1.
    destruct (submit_batches (S (length (available g ns))) depth g (available g ns) r) as [r1|] eqn:Es; cbn [map_rr].
    + destruct (IH r1 Hgs) as [I1 I2]. split; [exact I1|]. intros r' H. rewrite (I2 r' H). apply B2. reflexivity.
    + split; [reflexivity|discriminate].
Qed.

(* With dry_run set for every group: the batches (index, group, jobs, in order) are exactly those of the same
   round without dry_run in which every sbatch succeeds; the sbatch oracle is not consumed (nothing is handed
   to sbatch) and every batch counts as queued. *)
Theorem dry_run_same_batches depth out0 index0 oks groups ns r :
  Forall (fun g => g_dry g = true) groups ->
  submit_round depth out0 index0 oks groups ns = ROk r ->
  submit_round depth out0 index0 [] (map (set_dry false) groups) ns = ROk (erase_oks r) /\
  r_oks r = oks.
Proof.
  intros Hall Hs. unfold submit_round in *. fold (r_init out0 index0 oks) in Hs.
  destruct (submit_groups_dry depth ns groups (r_init out0 index0 oks) Hall) as [H1 H2].
  split; [|exact (H2 r Hs)].
  change {| r_out := out0; r_index := index0; r_oks := []; r_subs := []; r_submitted := []; r_blocked := [] |}
    with (erase_oks (r_init out0 index0 oks)).
  rewrite <- H1. fold (r_init out0 index0 oks). rewrite Hs. reflexivity.
Qed.

(* ---------- per-batch statements, unpacked ---------- *)
Lemma map_inj_unique {A B} (f : A -> B) l x y : NoDup (map f l) -> In x l -> In y l -> f x = f y -> x = y.
Proof.
  induction l as [|a l IH]; intros Hnd Hx Hy He; [destruct Hx|].
  cbn in Hnd. inversion Hnd as [|? ? Hna Hnd']; subst.
  destruct Hx as [<-|Hx]; destruct Hy as [<-|Hy]; [reflexivity| | |auto].
  - exfalso. apply Hna. rewrite He. apply in_map. exact Hy.
  - exfalso. apply Hna. rewrite <- He. apply in_map. exact Hx.
Qed.

Theorem round_batch_group depth out0 index0 oks groups ns r s :
  NoDup (names ns) -> NoDup (map g_name groups) ->
  submit_round depth out0 index0 oks groups ns = ROk r -> In s (r_subs r) ->
  exists g, In g groups /\ sb_group s = g_name g.
Proof.
  intros Hns Hg Hs Hin. pose proof (submit_round_batches _ _ _ _ _ _ _ Hns Hg Hs) as HF.
  rewrite Forall_forall in HF. destruct (HF s Hin) as [g [H1 [H2 _]]]. exists g. split; assumption.
Qed.

Theorem round_batch_props depth out0 index0 oks groups ns r s g :
  NoDup (names ns) -> NoDup (map g_name groups) ->
  submit_round depth out0 index0 oks groups ns = ROk r -> In s (r_subs r) ->
  In g groups -> sb_group s = g_name g ->
  sb_jobs s <> [] /\ incl (sb_jobs s) (available g ns) /\ NoDup (names (sb_jobs s)) /\ limit_ok g (sb_jobs s) /\
  closed (sb_jobs s) /\ blocked_only_if_try g (sb_jobs s) /\ (g_dry g = true -> sb_ok s = true).
Proof.
  intros Hns Hg Hs Hin Hgi Hgn. pose proof (submit_round_batches _ _ _ _ _ _ _ Hns Hg Hs) as HF.
  rewrite Forall_forall in HF. destruct (HF s Hin) as [g' [H1 [H2 H3]]].
  assert (g' = g) by (eapply (map_inj_unique g_name); eauto; congruence). subst g'. exact H3.
Qed.

Theorem round_batch_nonempty depth out0 index0 oks groups ns r s :
  NoDup (names ns) -> NoDup (map g_name groups) ->
  submit_round depth out0 index0 oks groups ns = ROk r -> In s (r_subs r) -> sb_jobs s <> [].
Proof.
  intros Hns Hg Hs Hin. destruct (round_batch_group _ _ _ _ _ _ _ _ Hns Hg Hs Hin) as [g [H1 H2]].
  exact (proj1 (round_batch_props _ _ _ _ _ _ _ _ _ Hns Hg Hs Hin H1 H2)).
Qed.

Theorem round_batch_size depth out0 index0 oks groups ns r s g :
  NoDup (names ns) -> NoDup (map g_name groups) ->
  submit_round depth out0 index0 oks groups ns = ROk r -> In s (r_subs r) ->
  In g groups -> sb_group s = g_name g -> g_time g = false ->
  (1 <= N.of_nat (length (sb_jobs s)) <= N.max 1 (g_size g))%N /\
  ((1 <= g_size g)%N -> (N.of_nat (length (sb_jobs s)) <= g_size g)%N).
Proof.
  intros Hns Hg Hs Hin Hgi Hgn Ht.
  destruct (round_batch_props _ _ _ _ _ _ _ _ _ Hns Hg Hs Hin Hgi Hgn) as [_ [_ [_ [Hl _]]]].
  unfold limit_ok in Hl. rewrite Ht in Hl. split; [exact Hl|lia].
Qed.

Theorem round_batch_time depth out0 index0 oks groups ns r s g :
  NoDup (names ns) -> NoDup (map g_name groups) ->
  submit_round depth out0 index0 oks groups ns = ROk r -> In s (r_subs r) ->
  In g groups -> sb_group s = g_name g -> g_time g = true ->
  60 * sum_est (sb_jobs s) <= g_max g.
Proof.
  intros Hns Hg Hs Hin Hgi Hgn Ht.
  destruct (round_batch_props _ _ _ _ _ _ _ _ _ Hns Hg Hs Hin Hgi Hgn) as [_ [_ [_ [Hl _]]]].
  unfold limit_ok in Hl. rewrite Ht in Hl. exact Hl.
Qed.

Theorem round_batch_single_group depth out0 index0 oks groups ns r s :
  NoDup (names ns) -> NoDup (map g_name groups) ->
  submit_round depth out0 index0 oks groups ns = ROk r -> In s (r_subs r) ->
  (exists g, In g groups /\ sb_group s = g_name g) /\
  forall x, In x (sb_jobs s) -> In x ns /\ jgroup x = sb_group s.
Proof.
  intros Hns Hg Hs Hin. destruct (round_batch_group _ _ _ _ _ _ _ _ Hns Hg Hs Hin) as [g [H1 H2]].
  split; [exists g; split; assumption|].
  destruct (round_batch_props _ _ _ _ _ _ _ _ _ Hns Hg Hs Hin H1 H2) as [_ [Hi _]].
  intros x Hx. rewrite H2. apply available_spec. auto.
Qed.

Theorem round_batch_nodup depth out0 index0 oks groups ns r s :
  NoDup (names ns) -> NoDup (map g_name groups) ->
  submit_round depth out0 index0 oks groups ns = ROk r -> In s (r_subs r) -> NoDup (names (sb_jobs s)).
Proof.
  intros Hns Hg Hs Hin. destruct (round_batch_group _ _ _ _ _ _ _ _ Hns Hg Hs Hin) as [g [H1 H2]].
  exact (proj1 (proj2 (proj2 (round_batch_props _ _ _ _ _ _ _ _ _ Hns Hg Hs Hin H1 H2)))).
Qed.

Theorem round_batch_blockers depth out0 index0 oks groups ns r s g :
  NoDup (names ns) -> NoDup (map g_name groups) ->
  submit_round depth out0 index0 oks groups ns = ROk r -> In s (r_subs r) ->
  In g groups -> sb_group s = g_name g ->
  forall x, In x (sb_jobs s) -> jblocked x <> [] ->
            g_try g = true /\ forall d, In d (jblocked x) -> In d (names (sb_jobs s)).
Proof.
  intros Hns Hg Hs Hin Hgi Hgn x Hx Hb.
  destruct (round_batch_props _ _ _ _ _ _ _ _ _ Hns Hg Hs Hin Hgi Hgn) as [_ [_ [_ [_ [Hc [Ht _]]]]]].
  split; [exact (Ht x Hx Hb)|exact (Hc x Hx)].
Qed.

(* two different batches of one round (same or different groups) share no job *)
Theorem round_batches_pairwise_disjoint depth out0 index0 oks groups ns r l1 s1 l2 s2 l3 :
  NoDup (names ns) -> NoDup (map g_name groups) ->
  submit_round depth out0 index0 oks groups ns = ROk r ->
  r_subs r = (l1 ++ s1 :: l2 ++ s2 :: l3)%list ->
  forall x, In x (names (sb_jobs s1)) -> ~ In x (names (sb_jobs s2)).
Proof.
  intros Hns Hg Hs Hsplit x H1 H2.
  destruct (submit_round_disjoint _ _ _ _ _ _ _ Hns Hg Hs) as [Hnd _].
  rewrite Hsplit in Hnd. rewrite subs_jobs_app, names_app in Hnd. apply NoDup_app_iff in Hnd. destruct Hnd as [_ [Hnd _]].
  change (s1 :: l2 ++ s2 :: l3)%list with ([s1] ++ l2 ++ s2 :: l3)%list in Hnd.
  rewrite subs_jobs_app, names_app in Hnd. apply NoDup_app_iff in Hnd. destruct Hnd as [_ [_ Hd]].
  apply (Hd x).
  - unfold subs_jobs. cbn. rewrite app_nil_r. exact H1.
  - rewrite subs_jobs_app, names_app. apply in_app_iff. right.
    change (s2 :: l3)%list with ([s2] ++ l3)%list. rewrite subs_jobs_app, names_app. apply in_app_iff. left.
    unfold subs_jobs. cbn. rewrite app_nil_r. exact H2.
Qed.

(* dry run: every batch of the round counts as queued and the sbatch oracle is untouched *)
Theorem dry_run_no_sbatch depth out0 index0 oks groups ns r :
  NoDup (names ns) -> NoDup (map g_name groups) -> Forall (fun g => g_dry g = true) groups ->
  submit_round depth out0 index0 oks groups ns = ROk r ->
  r_oks r = oks /\ forall s, In s (r_subs r) -> sb_ok s = true.
Proof.
  intros Hns Hg Hall Hs. split; [exact (proj2 (dry_run_same_batches _ _ _ _ _ _ _ Hall Hs))|].
  intros s Hin. destruct (round_batch_group _ _ _ _ _ _ _ _ Hns Hg Hs Hin) as [g [H1 H2]].
  destruct (round_batch_props _ _ _ _ _ _ _ _ _ Hns Hg Hs Hin H1 H2) as [_ [_ [_ [_ [_ [_ Hd]]]]]].
  apply Hd. rewrite Forall_forall in Hall. auto.
Qed.
