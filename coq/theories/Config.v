(* Config.v - model of JADE's configuration round trip and up-front validation (property C17).

   Follows, as they are:
     jade/extensions/generic_command/generic_command_parameters.py  (GenericCommandParametersModel: field
        validation = strip / coerce blockers to strings / set semantics, `dict` with default elision,
        GenericCommandParameters.name / serialize / deserialize)
     jade/extensions/generic_command/generic_command_configuration.py (add_job: job ids, empty command)
     jade/jobs/job_container_by_name.py (add_job: unique names)
     jade/jobs/job_configuration.py (serialize, deserialize/__init__, check_submission_groups,
        check_job_estimated_run_minutes, check_job_dependencies, check_job_runtimes)
     jade/jobs/job_configuration_factory.py (create_config_from_file)
     jade/models/submitter_params.py (get_wall_time, _to_timedelta), jade/models/submission_group.py
     jade/jobs/job_submitter.py (run_checks, create, run_submit_jobs: order of the calls)

   The level of the model is the *dict level*: what `json.load` hands to the constructors and what
   `serialize()` hands to `json.dump`.  `json` below is that value type.  A `config` is the description
   of a configuration as the user gives it (file content or constructor arguments); `construct` is what
   building the Python objects does to it (pydantic validation of every job, `add_job`); the in-memory
   Python objects correspond to the configs `c` with `construct c = Ok c` (`normalized`).

   Generated (Gen/ConfigGen.v): job fields with defaults, the default-elision tuple, the strip switch,
   the group-consistency tuples, SubmitterParams fields, the order of checks, constants.

   Not modelled (see the report of C17): spark_config (always null), job_global_config,
   job_post_process_config, jobs_directory/job_names, the old-format upgrade path, TOML, pydantic's
   coercions between JSON types (a bool given as "yes", an int given as "3"), non-ASCII text; the inside
   of `submitter_params` is opaque JSON in the normal form `SubmitterParams.dict()` produces. *)
From Coq Require Import String Ascii List ZArith NArith Bool DecimalString.
From Jade Require Import Base.
From Jade.Gen Require Import ConfigGen.
Import ListNotations.
Open Scope string_scope.

(* ---------- JSON-like values ---------- *)
Inductive json :=
| JNull | JBool (b : bool) | JNum (z : Z) | JStr (s : string) | JList (l : list json) | JObj (l : list (string * json)).

Fixpoint json_eqb (a b : json) : bool :=
  match a, b with
  | JNull, JNull => true
  | JBool x, JBool y => Bool.eqb x y
  | JNum x, JNum y => Z.eqb x y
  | JStr x, JStr y => String.eqb x y
  | JList x, JList y =>
    (fix go (x y : list json) : bool :=
       match x, y with
       | [], [] => true
       | a :: x', b :: y' => json_eqb a b && go x' y'
       | _, _ => false
       end) x y
  | JObj x, JObj y =>
    (fix go (x y : list (string * json)) : bool :=
       match x, y with
       | [], [] => true
       | (k, a) :: x', (k', b) :: y' => String.eqb k k' && json_eqb a b && go x' y'
       | _, _ => false
       end) x y
  | _, _ => false
  end.

Definition mem (x : string) (l : list string) : bool := existsb (String.eqb x) l.
(* dict lookup with a default *)
Definition jget (k : string) (o : list (string * json)) : json :=
  match assoc k o with Some v => v | None => JNull end.
Definition jobj (v : json) : list (string * json) := match v with JObj o => o | _ => [] end.
Definition jopt {A} (f : A -> json) (x : option A) : json := match x with Some a => f a | None => JNull end.

(* ---------- Python str.strip() (ASCII) and str(int) ---------- *)
Fixpoint lstrip_l (l : list ascii) : list ascii :=
  match l with a :: r => if is_ws a then lstrip_l r else l | [] => [] end.
Fixpoint rstrip_l (l : list ascii) : list ascii :=
  match l with
  | [] => []
  | a :: r => match rstrip_l r with [] => if is_ws a then [] else [a] | r' => a :: r' end
  end.
Definition strip (s : string) : string := of_chars (rstrip_l (lstrip_l (chars s))).
(* pydantic Config.anystr_strip_whitespace (generated switch) *)
Definition sstrip (s : string) : string := if cfg_strip_whitespace then strip s else s.
Definition z_str (z : Z) : string := NilZero.string_of_int (Z.to_int z).

(* ---------- the data ---------- *)
Inductive blocker := BInt (z : Z) | BStr (s : string).
Definition blocker_str (b : blocker) : string := match b with BInt z => z_str z | BStr s => s end.

Record job := mkJob {
  j_name : option string;
  j_mnm : bool;                        (* use_multi_node_manager *)
  j_command : string;
  j_blocked : list blocker;
  j_cancel : bool;                     (* cancel_on_blocking_job_failure *)
  j_est : option Z;                    (* estimated_run_minutes *)
  j_group : string;                    (* submission_group *)
  j_ajn : bool;                        (* append_job_name *)
  j_aod : bool;                        (* append_output_dir *)
  j_ext : list (string * json);
  j_id : option Z }.
Record group := mkGroup { g_name : string; g_params : list (string * json) }.
Record config := mkConfig {
  c_jobs : list job;
  c_groups : list group;
  c_setup : option string;
  c_teardown : option string;
  c_node_setup : option string;
  c_node_teardown : option string;
  c_user_data : list (string * json) }.

(* GenericCommandParameters.name *)
Definition job_name (j : job) : string :=
  match j_name j with
  | Some n => n
  | None => match j_id j with Some i => z_str i | None => "None" end
  end.

Inductive error :=
| EParse                                   (* outside the modelled input domain / pydantic ValidationError *)
| EEmptyCommand
| EDuplicateName (n : string)
| ENoGroups                                (* next(iter([])) : StopIteration *)
| EFieldsAssert                            (* the assertion on the partition of SubmitterParams fields *)
| EGroupTwice (n : string)
| EHpcType
| EMustBeSame (p : string)
| EJobInvalidGroup (job grp : string)
| EMissingEstimate
| EMissingBlocker
| EWalltimeAssert                          (* _to_timedelta: assert match *)
| EGroupKey                                (* wall_times[job.submission_group] KeyError *)
| ERuntime (job : string)
| EUnknownStep (s : string).
Inductive result (A : Type) := Ok (a : A) | Err (e : error).
Arguments Ok {A} a.
Arguments Err {A} e.

(* ---------- construction: what building the objects does ---------- *)
Fixpoint dedup (l : list string) : list string :=
  match l with [] => [] | x :: r => if mem x r then dedup r else x :: dedup r end.

(* GenericCommandParametersModel(kwargs): strip every str, blockers -> set of stripped strings,
   append_output_dir forced by use_multi_node_manager (spark not modelled) *)
Definition norm_blocker (b : blocker) : string :=
  match b with BInt z => z_str z | BStr s => sstrip s end.
Definition norm_job (j : job) : job :=
  {| j_name := option_map sstrip (j_name j);
     j_mnm := j_mnm j;
     j_command := sstrip (j_command j);
     j_blocked := map BStr (dedup (map norm_blocker (j_blocked j)));
     j_cancel := j_cancel j;
     j_est := j_est j;
     j_group := sstrip (j_group j);
     j_ajn := j_ajn j;
     j_aod := j_mnm j || j_aod j;
     j_ext := j_ext j;
     j_id := j_id j |}.
Definition norm_group (g : group) : group := {| g_name := sstrip (g_name g); g_params := g_params g |}.

Definition set_id (j : job) (i : Z) : job :=
  {| j_name := j_name j; j_mnm := j_mnm j; j_command := j_command j; j_blocked := j_blocked j;
     j_cancel := j_cancel j; j_est := j_est j; j_group := j_group j; j_ajn := j_ajn j; j_aod := j_aod j;
     j_ext := j_ext j; j_id := Some i |}.

(* GenericCommandConfiguration.add_job over the jobs in order; `seen` = keys of the container.
   `if not job.command` reads the *property* GenericCommandParameters.command, which for a
   use_multi_node_manager job is "jade-internal run-multi-node-job <name> <command>": never empty. *)
Fixpoint add_jobs (cur : Z) (seen : list string) (js : list job) : result (list job) :=
  match js with
  | [] => Ok []
  | j :: r =>
    let j' := match j_id j with None => set_id j cur | Some _ => j end in
    let cur' := match j_id j with None => (cur + 1)%Z | Some _ => cur end in
    if negb (j_mnm j') && String.eqb (j_command j') "" then Err EEmptyCommand
    else if mem (job_name j') seen then Err (EDuplicateName (job_name j'))
    else match add_jobs cur' (job_name j' :: seen) r with
         | Ok l => Ok (j' :: l)
         | Err e => Err e
         end
  end.

Definition construct (c : config) : result config :=
  match add_jobs first_job_id [] (map norm_job (c_jobs c)) with
  | Err e => Err e
  | Ok js => Ok {| c_jobs := js; c_groups := map norm_group (c_groups c);
                   c_setup := c_setup c; c_teardown := c_teardown c;
                   c_node_setup := c_node_setup c; c_node_teardown := c_node_teardown c;
                   c_user_data := c_user_data c |}
  end.

(* ---------- serialization ---------- *)
Definition default_json (kp : string * string) : json :=
  let (k, p) := kp in
  if String.eqb k "bool" then JBool (String.eqb p "true")
  else if String.eqb k "str" then JStr p
  else if String.eqb k "set" then JList []
  else if String.eqb k "dict" then JObj []
  else JNull.
(* GenericCommandParametersModel.__fields__[field].default, at the dict level *)
Definition job_field_default (f : string) : json :=
  match assoc f job_field_defaults with Some kp => default_json kp | None => JNull end.
Definition job_field_names : list string := map fst job_field_defaults.

Definition blocker_json (b : blocker) : json := match b with BInt z => JNum z | BStr s => JStr s end.
(* pydantic's .dict(): every field, declaration order *)
Definition job_dict (j : job) : list (string * json) :=
  [("name", jopt JStr (j_name j));
   ("use_multi_node_manager", JBool (j_mnm j));
   ("spark_config", JNull);
   ("command", JStr (j_command j));
   ("blocked_by", JList (map blocker_json (j_blocked j)));
   ("cancel_on_blocking_job_failure", JBool (j_cancel j));
   ("estimated_run_minutes", jopt JNum (j_est j));
   ("submission_group", JStr (j_group j));
   ("append_job_name", JBool (j_ajn j));
   ("append_output_dir", JBool (j_aod j));
   ("ext", JObj (j_ext j));
   ("job_id", jopt JNum (j_id j));
   ("extension", JStr job_extension)].
(* GenericCommandParametersModel.dict: drop the listed fields that equal their default *)
Definition elided (kv : string * json) : bool :=
  mem (fst kv) job_elide_fields && json_eqb (snd kv) (job_field_default (fst kv)).
Definition serialize_job (j : job) : json := JObj (filter (fun kv => negb (elided kv)) (job_dict j)).
Definition serialize_group (g : group) : json :=
  JObj [("name", JStr (g_name g)); ("submitter_params", JObj (g_params g))].
(* JobConfiguration.serialize (ConfigSerializeOptions.JOBS) *)
Definition serialize (c : config) : json :=
  JObj [("jobs_directory", JNull);
        ("configuration_module", JStr config_module);
        ("configuration_class", JStr config_class);
        ("format_version", JStr format_version);
        ("user_data", JObj (c_user_data c));
        ("submission_groups", JList (map serialize_group (c_groups c)));
        ("setup_command", jopt JStr (c_setup c));
        ("teardown_command", jopt JStr (c_teardown c));
        ("node_setup_command", jopt JStr (c_node_setup c));
        ("node_teardown_command", jopt JStr (c_node_teardown c));
        ("jobs", JList (map serialize_job (c_jobs c)))].

(* ---------- loading: dict level -> description ---------- *)
Fixpoint traverse {A B} (f : A -> option B) (l : list A) : option (list B) :=
  match l with
  | [] => Some []
  | a :: r => match f a, traverse f r with Some b, Some bs => Some (b :: bs) | _, _ => None end
  end.
Definition dec_opt_str (v : json) : option (option string) :=
  match v with JNull => Some None | JStr s => Some (Some s) | _ => None end.
Definition dec_opt_num (v : json) : option (option Z) :=
  match v with JNull => Some None | JNum z => Some (Some z) | _ => None end.
Definition dec_str (v : json) : option string := match v with JStr s => Some s | _ => None end.
Definition dec_bool (v : json) : option bool := match v with JBool b => Some b | _ => None end.
Definition dec_obj (v : json) : option (list (string * json)) := match v with JObj o => Some o | _ => None end.
Definition dec_blocker (v : json) : option blocker :=
  match v with JNum z => Some (BInt z) | JStr s => Some (BStr s) | _ => None end.
Definition dec_blockers (v : json) : option (list blocker) :=
  match v with JList l => traverse dec_blocker l | _ => None end.
Definition dec_null (v : json) : option unit := match v with JNull => Some tt | _ => None end.

(* value of a job key: the given one, else the field's default *)
Definition jfield (k : string) (o : list (string * json)) : json :=
  match assoc k o with Some v => v | None => job_field_default k end.

(* JobConfiguration._deserialize_jobs body for one entry: _job["extension"] must name the extension,
   then GenericCommandParametersModel(_job) (extra = forbid, `command` required) *)
Definition parse_job (v : json) : option job :=
  match v with
  | JObj o =>
    if negb (forallb (fun kv => mem (fst kv) job_field_names) o) then None else
    match assoc "extension" o, assoc "command" o with
    | Some (JStr e), Some (JStr cmd) =>
      if negb (String.eqb e job_extension) then None else
      match dec_opt_str (jfield "name" o), dec_bool (jfield "use_multi_node_manager" o),
            dec_null (jfield "spark_config" o), dec_blockers (jfield "blocked_by" o),
            dec_bool (jfield "cancel_on_blocking_job_failure" o), dec_opt_num (jfield "estimated_run_minutes" o),
            dec_str (jfield "submission_group" o), dec_bool (jfield "append_job_name" o),
            dec_bool (jfield "append_output_dir" o), dec_obj (jfield "ext" o), dec_opt_num (jfield "job_id" o) with
      | Some name, Some mnm, Some _, Some bl, Some cancel, Some est, Some grp, Some ajn, Some aod, Some ext, Some id =>
        Some {| j_name := name; j_mnm := mnm; j_command := cmd; j_blocked := bl; j_cancel := cancel;
                j_est := est; j_group := grp; j_ajn := ajn; j_aod := aod; j_ext := ext; j_id := id |}
      | _, _, _, _, _, _, _, _, _, _, _ => None
      end
    | _, _ => None
    end
  | _ => None
  end.

(* SubmissionGroup(x): both fields required, nothing else allowed *)
Definition parse_group (v : json) : option group :=
  match v with
  | JObj o =>
    if negb (forallb (fun kv => mem (fst kv) ["name"; "submitter_params"]) o) then None else
    match assoc "name" o, assoc "submitter_params" o with
    | Some (JStr n), Some (JObj p) => Some {| g_name := n; g_params := p |}
    | _, _ => None
    end
  | _ => None
  end.

Definition top_opt_str (k : string) (o : list (string * json)) : option (option string) :=
  match assoc k o with None => Some None | Some v => dec_opt_str v end.
Definition top_absent_or_null (k : string) (o : list (string * json)) : bool :=
  match assoc k o with None | Some JNull => true | _ => false end.

(* create_config_from_file after json.load: format_version present, the class is
   GenericCommandConfiguration, then JobConfiguration.__init__(data) *)
Definition parse (v : json) : option config :=
  match v with
  | JObj o =>
    match assoc "format_version" o, assoc "configuration_module" o, assoc "configuration_class" o with
    | Some (JStr _), Some (JStr m), Some (JStr cl) =>
      if negb (String.eqb m config_module && String.eqb cl config_class) then None else
      if negb (top_absent_or_null "job_global_config" o && top_absent_or_null "job_post_process_config" o
               && top_absent_or_null "jobs_directory" o) then None else
      match (match assoc "jobs" o with None => Some [] | Some (JList l) => traverse parse_job l | _ => None end),
            (match assoc "submission_groups" o with
             | None | Some JNull => Some [] | Some (JList l) => traverse parse_group l | _ => None end),
            top_opt_str "setup_command" o, top_opt_str "teardown_command" o,
            top_opt_str "node_setup_command" o, top_opt_str "node_teardown_command" o,
            (match assoc "user_data" o with None | Some JNull => Some [] | Some (JObj u) => Some u | _ => None end) with
      | Some js, Some gs, Some s1, Some s2, Some s3, Some s4, Some u =>
        Some {| c_jobs := js; c_groups := gs; c_setup := s1; c_teardown := s2; c_node_setup := s3;
                c_node_teardown := s4; c_user_data := u |}
      | _, _, _, _, _, _, _ => None
      end
    | _, _, _ => None
    end
  | _ => None
  end.

(* create_config_from_file at the dict level *)
Definition deserialize (v : json) : result config :=
  match parse v with None => Err EParse | Some c => construct c end.

(* ---------- the checks ---------- *)
Definition g_param (p : string) (g : group) : json := jget p (g_params g).
Definition g_hpc_config (g : group) : list (string * json) := jobj (g_param "hpc_config" g).
Definition g_hpc_type (g : group) : json := jget "hpc_type" (g_hpc_config g).
Definition g_walltime (g : group) : json := jget "walltime" (jobj (jget "hpc" (g_hpc_config g))).
Definition g_batch_size (g : group) : json := g_param "per_node_batch_size" g.

(* _REGEX_WALL_TIME.search: leftmost  digits ':' digits ':' digits  *)
Fixpoint span_digits (l : list ascii) : list ascii * list ascii :=
  match l with
  | a :: r => if is_digit a then let (d, t) := span_digits r in (a :: d, t) else ([], l)
  | [] => ([], [])
  end.
Definition colon : ascii := ":"%char.
Definition wall_match_here (l : list ascii) : option (list ascii * list ascii * list ascii) :=
  match span_digits l with
  | ((_ :: _) as h, c1 :: r1) =>
    if Ascii.eqb c1 colon then
      match span_digits r1 with
      | ((_ :: _) as m, c2 :: r2) =>
        if Ascii.eqb c2 colon then
          match span_digits r2 with ((_ :: _) as s, _) => Some (h, m, s) | _ => None end
        else None
      | _ => None
      end
    else None
  | _ => None
  end.
Fixpoint wall_search (l : list ascii) : option (list ascii * list ascii * list ascii) :=
  match wall_match_here l with
  | Some r => Some r
  | None => match l with [] => None | _ :: r => wall_search r end
  end.
Definition int_of_digits (l : list ascii) : Z :=
  fold_left (fun acc a => (acc * 10 + Z.of_N (N_of_ascii a - 48))%Z) l 0%Z.
(* SubmitterParams.get_wall_time in seconds; None = AssertionError *)
Definition group_wall (g : group) : option Z :=
  match g_walltime g with
  | JStr s => match wall_search (chars s) with
              | Some (h, m, sec) => Some (int_of_digits h * 3600 + int_of_digits m * 60 + int_of_digits sec)%Z
              | None => None
              end
  | _ => Some no_walltime_seconds
  end.

(* the assertion of check_submission_groups: the four tuples cover exactly the SubmitterParams fields *)
Definition all_group_tuples : list string :=
  (group_must_be_same ++ group_params ++ group_user_overrides ++ group_user_override_if_not_set)%list.
Fixpoint nodupb (l : list string) : bool := match l with [] => true | x :: r => negb (mem x r) && nodupb r end.
Definition fields_assert : bool :=
  forallb (fun f => mem f submitter_params_fields) all_group_tuples
  && forallb (fun f => mem f all_group_tuples) submitter_params_fields
  && nodupb submitter_params_fields.

Fixpoint check_groups_loop (first : group) (seen : list string) (gs : list group) : result (list string) :=
  match gs with
  | [] => Ok seen
  | g :: r =>
    if mem (g_name g) seen then Err (EGroupTwice (g_name g))
    else if negb (json_eqb (g_hpc_type g) (g_hpc_type first)) then Err EHpcType
    else match find (fun p => negb (json_eqb (g_param p g) (g_param p first))) group_must_be_same with
         | Some p => Err (EMustBeSame p)
         | None => check_groups_loop first (g_name g :: seen) r
         end
  end.
Fixpoint check_jobs_groups (names : list string) (js : list job) : result unit :=
  match js with
  | [] => Ok tt
  | j :: r => if mem (j_group j) names then check_jobs_groups names r
              else Err (EJobInvalidGroup (job_name j) (j_group j))
  end.
Definition check_submission_groups (c : config) : result unit :=
  match c_groups c with
  | [] => Err ENoGroups
  | first :: _ =>
    if negb fields_assert then Err EFieldsAssert else
    match check_groups_loop first [] (c_groups c) with
    | Err e => Err e
    | Ok names => check_jobs_groups names (c_jobs c)
    end
  end.

(* run_checks: for every group with per_node_batch_size == 0, every job of it needs an estimate *)
Definition missing_estimate (c : config) (g : group) : bool :=
  json_eqb (g_batch_size g) (JNum 0)
  && existsb (fun j => String.eqb (j_group j) (g_name g) && match j_est j with None => true | Some _ => false end) (c_jobs c).
Definition check_estimates (c : config) : result unit :=
  if existsb (missing_estimate c) (c_groups c) then Err EMissingEstimate else Ok tt.

Definition all_blockers (c : config) : list string := flat_map (fun j => map blocker_str (j_blocked j)) (c_jobs c).
Definition check_dependencies (c : config) : result unit :=
  if forallb (fun b => mem b (map job_name (c_jobs c))) (all_blockers c) then Ok tt else Err EMissingBlocker.

Fixpoint check_runtimes_jobs (walls : list (string * Z)) (js : list job) : result unit :=
  match js with
  | [] => Ok tt
  | j :: r =>
    match assoc (j_group j) walls with
    | None => Err EGroupKey
    | Some w =>
      match j_est j with
      | Some e => if (w <? e * 60)%Z then Err (ERuntime (job_name j)) else check_runtimes_jobs walls r
      | None => check_runtimes_jobs walls r
      end
    end
  end.
Definition check_runtimes (c : config) : result unit :=
  match traverse (fun g => option_map (fun w => (g_name g, w)) (group_wall g)) (c_groups c) with
  | None => Err EWalltimeAssert
  | Some walls => check_runtimes_jobs walls (c_jobs c)
  end.

(* JobSubmitter.run_checks: the generated order of the steps *)
Definition step_fn (s : string) (c : config) : result unit :=
  if String.eqb s "check_submission_groups" then check_submission_groups c
  else if String.eqb s "check_job_estimated_run_minutes" then check_estimates c
  else if String.eqb s "check_job_dependencies" then check_dependencies c
  else if String.eqb s "check_job_runtimes" then check_runtimes c
  else if String.eqb s "check_spark_config" then Ok tt      (* no spark jobs in the model *)
  else Err (EUnknownStep s).
Fixpoint run_steps (steps : list string) (c : config) : result unit :=
  match steps with
  | [] => Ok tt
  | s :: r => match step_fn s c with Ok _ => run_steps r c | Err e => Err e end
  end.
Definition run_checks (c : config) : result unit := run_steps run_checks_steps c.

(* ---------- JobSubmitter.create / run_submit_jobs as a trace of boundary events ---------- *)
Inductive event := EvDump | EvClusterCreate | EvSubmitJobs.
(* JobSubmitter.create: the generated statement order; events emitted until the first error *)
Fixpoint exec_create (steps : list string) (c : config) (tr : list event) : list event * result unit :=
  match steps with
  | [] => (tr, Ok tt)
  | s :: r =>
    if String.eqb s "run_checks" then
      match run_checks c with Ok _ => exec_create r c tr | Err e => (tr, Err e) end
    else if String.eqb s "dump" then exec_create r c (tr ++ [EvDump])
    else if String.eqb s "construct" then exec_create r c tr
    else if String.eqb s "return" then (tr, Ok tt)
    else (tr, Err (EUnknownStep s))
  end.
Fixpoint exec_submit (steps : list string) (c : config) (tr : list event) : list event * result unit :=
  match steps with
  | [] => (tr, Ok tt)
  | s :: r =>
    if String.eqb s "JobSubmitter.create" then
      match exec_create create_steps c tr with
      | (tr', Ok _) => exec_submit r c tr'
      | (tr', Err e) => (tr', Err e)
      end
    else if String.eqb s "Cluster.create" then exec_submit r c (tr ++ [EvClusterCreate])
    else if String.eqb s "mgr.submit_jobs" then exec_submit r c (tr ++ [EvSubmitJobs])
    else (tr, Err (EUnknownStep s))
  end.
Definition run_submit_jobs (c : config) : list event * result unit := exec_submit run_submit_steps c [].

(* file content -> (what is loaded, what submitting it does) *)
Definition load_and_submit (v : json) : result (json * (list event * result unit)) :=
  match deserialize v with
  | Err e => Err e
  | Ok c => Ok (serialize c, run_submit_jobs c)
  end.

(* ---------- comparison helpers for the correspondence (blocked_by is a set) ---------- *)
Fixpoint json_eqb_sets (a b : json) : bool :=
  match a, b with
  | JList x, JList y =>
    (fix go (x y : list json) : bool :=
       match x, y with
       | [], [] => true
       | a :: x', b :: y' => json_eqb_sets a b && go x' y'
       | _, _ => false
       end) x y
  | JObj x, JObj y =>
    (fix go (x y : list (string * json)) : bool :=
       match x, y with
       | [], [] => true
       | (k, a) :: x', (k', b) :: y' =>
         String.eqb k k'
         && (if String.eqb k "blocked_by" then
               match a, b with
               | JList la, JList lb =>
                 Nat.eqb (length la) (length lb)
                 && forallb (fun u => existsb (json_eqb u) lb) la && forallb (fun u => existsb (json_eqb u) la) lb
               | _, _ => json_eqb a b
               end
             else json_eqb_sets a b)
         && go x' y'
       | _, _ => false
       end) x y
  | _, _ => json_eqb a b
  end.
Definition error_eqb (a b : error) : bool :=
  match a, b with
  | EParse, EParse | EEmptyCommand, EEmptyCommand | ENoGroups, ENoGroups | EFieldsAssert, EFieldsAssert
  | EHpcType, EHpcType | EMissingEstimate, EMissingEstimate | EMissingBlocker, EMissingBlocker
  | EWalltimeAssert, EWalltimeAssert | EGroupKey, EGroupKey => true
  | EDuplicateName x, EDuplicateName y | EGroupTwice x, EGroupTwice y | EMustBeSame x, EMustBeSame y
  | ERuntime x, ERuntime y | EUnknownStep x, EUnknownStep y => String.eqb x y
  | EJobInvalidGroup x1 x2, EJobInvalidGroup y1 y2 => String.eqb x1 y1 && String.eqb x2 y2
  | _, _ => false
  end.
Definition event_eqb (a b : event) : bool :=
  match a, b with EvDump, EvDump | EvClusterCreate, EvClusterCreate | EvSubmitJobs, EvSubmitJobs => true | _, _ => false end.
Definition result_eqb {A} (eqb : A -> A -> bool) (a b : result A) : bool :=
  match a, b with Ok x, Ok y => eqb x y | Err x, Err y => error_eqb x y | _, _ => false end.

(* ---------- specification vocabulary (used by the statements in Props/C17.v) ---------- *)
(* job ids as add_job hands them out: the counter advances only when it is used *)
Fixpoint assign_ids (cur : Z) (js : list job) : list job :=
  match js with
  | [] => []
  | j :: r => match j_id j with
              | None => set_id j cur :: assign_ids (cur + 1)%Z r
              | Some _ => j :: assign_ids cur r
              end
  end.
(* `if not job.command` *)
Definition command_ok (j : job) : Prop := j_mnm j = false -> j_command j <> "".

Definition stripped (s : string) : Prop := sstrip s = s.
(* a job as a constructed GenericCommandParameters holds it *)
Definition job_normal (j : job) : Prop :=
  (forall n, j_name j = Some n -> stripped n) /\ stripped (j_command j) /\ stripped (j_group j) /\
  (forall b, In b (j_blocked j) -> exists s, b = BStr s /\ stripped s) /\ NoDup (j_blocked j) /\
  (j_mnm j = true -> j_aod j = true) /\ j_id j <> None /\ command_ok j.
(* a configuration as the constructed Python objects hold it *)
Definition normalized (c : config) : Prop :=
  Forall job_normal (c_jobs c) /\ NoDup (map job_name (c_jobs c)) /\
  Forall (fun g => stripped (g_name g)) (c_groups c).

(* the settings that must agree across groups, as the property names them *)
Definition spec_group_wide : list string := ["max_nodes"; "poll_interval"].
Definition valid (c : config) : Prop :=
  c_groups c <> [] /\
  NoDup (map g_name (c_groups c)) /\
  (forall g1 g2, In g1 (c_groups c) -> In g2 (c_groups c) ->
     g_hpc_type g1 = g_hpc_type g2 /\ forall p, In p spec_group_wide -> g_param p g1 = g_param p g2) /\
  (forall j, In j (c_jobs c) -> In (j_group j) (map g_name (c_groups c))) /\
  (forall g j, In g (c_groups c) -> g_batch_size g = JNum 0 -> In j (c_jobs c) -> j_group j = g_name g ->
     j_est j <> None) /\
  (forall j b, In j (c_jobs c) -> In b (j_blocked j) -> In (blocker_str b) (map job_name (c_jobs c))) /\
  (forall g, In g (c_groups c) -> group_wall g <> None) /\
  (forall j g e w, In j (c_jobs c) -> In g (c_groups c) -> g_name g = j_group j -> j_est j = Some e ->
     group_wall g = Some w -> (e * 60 <= w)%Z).
(* what construction yields when it succeeds *)
Definition built (c : config) : config :=
  {| c_jobs := assign_ids first_job_id (map norm_job (c_jobs c)); c_groups := map norm_group (c_groups c);
     c_setup := c_setup c; c_teardown := c_teardown c; c_node_setup := c_node_setup c;
     c_node_teardown := c_node_teardown c; c_user_data := c_user_data c |}.
