(* C20, statistics: model of jade/resource_monitor.py::ResourceMonitorAggregator
   (__init__ initial summaries, update_resource_stats, finalize), one scalar statistic at a time.
   Samples are integers (exact arithmetic); Python's floats are not modelled: the correspondence
   uses integer-valued samples whose sums are exact in binary64.  No proofs here.

   Node statistics (cpu / disk / memory / network), per (resource_type, stat_name):
     __init__ : maximum = 0.0, minimum = sys.maxsize, sum = 0.0, average = 0.0, self._count = 0
                (generated: stats_init_* in Gen/ReportsGen.v)
     update   : if val > maximum: maximum = val
                if val < minimum: minimum = val          (an independent `if`)
                sum += val ;  self._count += 1 (once per update, shared by all statistics)
     finalize : if self._count == 0: return (nothing written)
                average = sum / self._count
   Process statistics, per (process name, stat_name):
     first sample of a process: maximum = minimum = sum = val, count = 1
     later samples            : if val > maximum: maximum = val
                                elif val < minimum: minimum = val     (`elif` here)
                                sum += val ; count += 1
     finalize : average = sum / count *)
From Coq Require Import List ZArith QArith Bool.
From Jade Require Import Base.
From Jade.Gen Require Import ReportsGen.
Import ListNotations.
Open Scope Z_scope.

Record summ := mkSumm { s_max : Z; s_min : Z; s_sum : Z; s_count : Z }.

Definition node_init : summ := mkSumm stats_init_maximum stats_init_minimum stats_init_sum 0.
Definition node_update (s : summ) (v : Z) : summ :=
  mkSumm (if v >? s_max s then v else s_max s)
         (if v <? s_min s then v else s_min s)
         (s_sum s + v) (s_count s + 1).
Definition node_run (samples : list Z) : summ := fold_left node_update samples node_init.

Definition average (s : summ) : Q := inject_Z (s_sum s) / inject_Z (s_count s).
(* finalize: None = "Resource monitoring was disabled", no file *)
Definition node_finalize (s : summ) : option (Q * Z * Z) :=
  if s_count s =? 0 then None else Some (average s, s_max s, s_min s).

Definition proc_update (st : option summ) (v : Z) : option summ :=
  match st with
  | None => Some (mkSumm v v v 1)
  | Some s => Some (mkSumm (if v >? s_max s then v else s_max s)
                           (if v >? s_max s then s_min s else if v <? s_min s then v else s_min s)
                           (s_sum s + v) (s_count s + 1))
  end.
Definition proc_run (samples : list Z) : option summ := fold_left proc_update samples None.
(* a process that was never sampled has no entry at all *)
Definition proc_finalize (st : option summ) : option (Q * Z * Z * Z) :=
  match st with None => None | Some s => Some (average s, s_max s, s_min s, s_count s) end.
