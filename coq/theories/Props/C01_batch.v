(* C01, component level: batch construction never places a job twice and never reuses an index
   (statements over the Batch.v model of HpcSubmitter._make_batch / _submit_batches / run, which is
   tied to the real code by the correspondence of the C07 check). *)
From Coq Require Import List ZArith NArith Bool.
From Jade Require Import Base Batch BatchProofs.
Import ListNotations.

Theorem c01_make_batch_no_rehand : forall p avail, NoDup (names avail) ->
  let m := make_batch p avail in
  NoDup (names (mb_batch m)) /\ (forall x, In x (names (mb_batch m)) -> ~ In x (names (mb_rest m))).
Proof.
  intros p avail H. destruct (make_batch_contract p avail H) as (A & _ & C & _). split; [exact A|exact C].
Qed.
Print Assumptions c01_make_batch_no_rehand.

Theorem c01_round_disjoint : forall depth out0 index0 oks groups ns r,
  NoDup (names ns) -> NoDup (map g_name groups) ->
  submit_round depth out0 index0 oks groups ns = ROk r ->
  NoDup (names (subs_jobs (r_subs r))) /\ incl (subs_jobs (r_subs r)) ns /\ r_submitted r = subs_jobs (r_subs r).
Proof. exact submit_round_disjoint. Qed.
Print Assumptions c01_round_disjoint.

Theorem c01_batch_index_fresh : forall depth out0 index0 oks groups ns r,
  NoDup (names ns) -> NoDup (map g_name groups) ->
  submit_round depth out0 index0 oks groups ns = ROk r ->
  map sb_index (r_subs r) = nseq index0 (length (r_subs r)) /\
  r_index r = (index0 + N.of_nat (length (r_subs r)))%N /\
  NoDup (map sb_index (r_subs r)) /\
  (forall s, In s (r_subs r) -> (index0 <= sb_index s < r_index r)%N).
Proof. exact batch_index_fresh. Qed.
Print Assumptions c01_batch_index_fresh.
