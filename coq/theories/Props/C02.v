(* C02 - no job starts before every job blocking it has a recorded outcome.
   For every accepted trace (same batch, other batch, other group; all interleavings; kills and
   failures included): at the moment of any launch, each configured blocker of the job already has an
   outcome row (finished, failed or canceled) appended by a node or by a submitter. *)
From Coq Require Import List ZArith NArith Bool.
From Jade Require Import Base System SystemMonitors SystemProofs SystemInv SystemOrder SystemTheorems.
From Jade.Props Require Import SysExamples.
Import ListNotations.
Open Scope N_scope.

Theorem c02_order : forall sc tr1 id j tr2 s, run sc (tr1 ++ ELaunch id j :: tr2) = Some s ->
  forall d, In d (deps sc j) -> In d (row_names (rows_of tr1)).
Proof. exact c02_system. Qed.
Print Assumptions c02_order.

Theorem c02_monitor : forall sc tr s, run sc tr = Some s -> c02_ok sc tr = true.
Proof. exact c02_accepted. Qed.
Print Assumptions c02_monitor.

(* the invariant: wherever a job waits (cluster status, a submitter's copy, a batch config, a node
   queue) its configured blockers are covered by the remaining-blocker set plus the rows written *)
Theorem c02_waiting_jobs_covered : forall sc tr s, run sc tr = Some s -> Inv2 sc s.
Proof. exact (fun sc tr s H => proj1 (proj2 (inv_run sc tr s H))). Qed.
Print Assumptions c02_waiting_jobs_covered.

Theorem c02_never_started_without_outcome : forall sc tr s j d, run sc tr = Some s ->
  In d (deps sc j) -> ~ In d (row_names (rows_of tr)) -> ~ In j (launched_of tr).
Proof. exact never_started_without_blocker_outcome. Qed.
Print Assumptions c02_never_started_without_outcome.

Example c02_nonvacuous : accepted ex_sc ex_tr = true /\ deps ex_sc 1 = [0] /\ c02_ok ex_sc ex_tr = true.
Proof. vm_compute. auto. Qed.
