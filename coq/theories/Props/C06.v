(* C06 - node and process concurrency limits are never exceeded.
   Only statements here; every proof is `exact <lemma>` (QueueProofs.v).  The model (Queue.v) is the
   JobQueue used on a compute node (depth = worker count, no existing entries) and by a submitter
   round (depth = max_nodes, existing = persisted HPC job ids, only guarded submits).
   An operation sequence `ops` is ANY list of submit / guarded submit / process_queue calls; every
   process_queue carries the environment's answers (which running entries are complete, with which
   return code) and every run() its result, so the theorems quantify over all environments. *)
From Coq Require Import List ZArith NArith Bool Arith.
From Jade Require Import Base Queue QueueProofs.
Import ListNotations.
Open Scope Z_scope.

(* Node level and HPC level: if the queue is constructed with at most `depth` existing entries then
   in every reachable state no canceled job is left in the outstanding set, at most `depth` entries
   are outstanding, every run() call left at most `depth` running entries (`live` = outstanding
   entries that are not parked cancels, right after the call), and the cancel fix-point loop
   terminated within its bound (so `available_jobs` in process_queue is never negative). *)
Theorem c06_queue_depth_bound : forall depth existing ops,
  Z.of_nat (length (q_out (init existing))) <= depth ->
  let s := run_ops depth (init existing) ops in
  noparked (q_out s) /\
  Z.of_nat (length (q_out s)) <= depth /\
  (forall j blk ok n, In (EvRun j blk ok n) (q_log s) -> Z.of_nat n <= depth) /\
  q_err s = false.
Proof. exact queue_depth_bound. Qed.
Print Assumptions c06_queue_depth_bound.

Theorem c06_queue_depth_bound_existing : forall depth existing ops,
  Z.of_nat (length existing) <= depth ->
  Z.of_nat (length (q_out (run_ops depth (init existing) ops))) <= depth.
Proof. exact queue_depth_bound_existing. Qed.
Print Assumptions c06_queue_depth_bound_existing.

(* the compute node: JobQueue.run_jobs(jobs, depth) = submit all, then poll until empty; for all
   job lists, depths >= 0 and all poll answer sequences of any length *)
Theorem c06_procs : forall depth jobs polls, 0 <= depth ->
  let s := run_ops depth (init []) (run_jobs_ops jobs polls) in
  Z.of_nat (length (q_out s)) <= depth /\
  forall j blk ok n, In (EvRun j blk ok n) (q_log s) -> Z.of_nat n <= depth.
Proof.
  exact (fun depth jobs polls H =>
           let P := queue_depth_bound depth [] (run_jobs_ops jobs polls) H in
           conj (proj1 (proj2 P)) (proj1 (proj2 (proj2 P)))).
Qed.
Print Assumptions c06_procs.

(* HPC level, also when MORE ids are persisted than max_nodes allows: with the operations
   HpcSubmitter.run performs (process_queue, `if not is_full(): submit(batch)`) nothing is ever left
   queued inside the JobQueue, outstanding never exceeds max(depth, #existing), and every run()
   (= sbatch) leaves at most `depth` outstanding *)
Theorem c06_hpc_bound : forall depth existing ops,
  Forall guarded_op ops ->
  let k := Z.of_nat (length (q_out (init existing))) in
  let s := run_ops depth (init existing) ops in
  q_queued s = [] /\ noparked (q_out s) /\
  Z.of_nat (length (q_out s)) <= Z.max depth k /\
  (forall j blk ok n, In (EvRun j blk ok n) (q_log s) -> Z.of_nat n <= depth) /\
  q_err s = false.
Proof. exact queue_hpc_bound. Qed.
Print Assumptions c06_hpc_bound.

(* one submitter round: k persisted ids, one squeue snapshot answering which are complete, then any
   number of batches each handed over only while not full, sbatch succeeding or failing;
   max_nodes = None is sys.maxsize *)
Theorem c06_nodes_round : forall max_nodes existing answers batches,
  let depth := hpc_depth max_nodes in
  let s := run_ops depth (init existing) (hpc_round_ops answers batches) in
  Z.of_nat (length (q_out s)) <= Z.max depth (Z.of_nat (length (q_out (init existing)))) /\
  forall j blk ok n, In (EvRun j blk ok n) (q_log s) -> Z.of_nat n <= depth.
Proof.
  exact (fun max_nodes existing answers batches =>
           let P := queue_hpc_bound (hpc_depth max_nodes) existing (hpc_round_ops answers batches)
                                    (hpc_round_ops_guarded answers batches) in
           conj (proj1 (proj2 (proj2 P))) (proj1 (proj2 (proj2 (proj2 P))))).
Qed.
Print Assumptions c06_nodes_round.

(* the bounds above are upper bounds; conversely NO entry is lost: a name that entered the
   outstanding set (existing id, or a run()/sbatch that returned GOOD) stays outstanding until it has
   been seen complete - so the ids a round persists cover every batch that may still be active *)
Theorem c06_no_lost_entry : forall depth existing ops n,
  let s := run_ops depth (init existing) ops in
  In n existing \/ (exists j blk k, In (EvRun j blk true k) (q_log s) /\ j_name j = n) ->
  In n (map e_name (q_out s)) \/ exists rc, In (EvComplete n rc) (q_log s).
Proof. exact queue_no_lost_entry. Qed.
Print Assumptions c06_no_lost_entry.

(* ---- contracts exported to C02 ---- *)
Theorem c06_aux_queue_runs_only_unblocked : forall depth existing ops j blk ok n,
  In (EvRun j blk ok n) (q_log (run_ops depth (init existing) ops)) -> blk = [].
Proof. exact queue_runs_only_unblocked. Qed.
Print Assumptions c06_aux_queue_runs_only_unblocked.

Theorem c06_aux_queue_run_after_blockers : forall depth existing ops pre j blk ok n post,
  q_log (run_ops depth (init existing) ops) = pre ++ EvRun j blk ok n :: post ->
  forall b, In b (j_block j) -> exists rc, In (EvComplete b rc) pre.
Proof. exact queue_run_after_blockers. Qed.
Print Assumptions c06_aux_queue_run_after_blockers.

Theorem c06_aux_queue_unblock_only_on_completion : forall depth existing ops,
  let s := run_ops depth (init existing) ops in
  (forall pre jn b post, q_log s = pre ++ EvUnblock jn b :: post -> exists rc, In (EvComplete b rc) pre) /\
  (forall x, In x (q_queued s) ->
     incl (qj_block x) (j_block (qj_job x)) /\
     forall b, In b (j_block (qj_job x)) -> In b (qj_block x) \/ exists rc, In (EvComplete b rc) (q_log s)).
Proof. exact queue_unblock_only_on_completion. Qed.
Print Assumptions c06_aux_queue_unblock_only_on_completion.

Theorem c06_aux_queue_runs_once : forall depth existing ops n,
  (nstarted n (q_log (run_ops depth (init existing) ops)) <= nsubmits n ops)%nat.
Proof. exact queue_runs_once. Qed.
Print Assumptions c06_aux_queue_runs_once.

Theorem c06_aux_queue_cancel_excludes_run : forall depth existing ops j1 b1 j2 b2 ok n,
  In (EvCancel j1 b1) (q_log (run_ops depth (init existing) ops)) ->
  In (EvRun j2 b2 ok n) (q_log (run_ops depth (init existing) ops)) ->
  j_name j1 = j_name j2 -> (2 <= nsubmits (j_name j1) ops)%nat.
Proof. exact queue_cancel_excludes_run. Qed.
Print Assumptions c06_aux_queue_cancel_excludes_run.

(* ---- contract exported to C04 ---- *)
Theorem c06_aux_check_completions_cancels_iff : forall s ans s' F rest,
  check_completions s ans = (s', F, rest) ->
  exists evs, q_log s' = q_log s ++ evs /\
    (forall b, In b F <-> exists rc, rc <> 0 /\ In (EvComplete b rc) evs) /\
    (forall j blk, In (EvCancel j blk) evs ->
       j_flag j = true /\ (exists b, In b blk /\ In b F) /\
       exists x, In x (q_queued s) /\ qj_job x = j /\ incl blk (qj_block x)) /\
    (forall x, In x (q_queued s) ->
       (exists blk, In (EvCancel (qj_job x) blk) evs) \/
       (exists x', In x' (q_queued s') /\ qj_job x' = qj_job x /\ incl (qj_block x') (qj_block x))) /\
    (forall x', In x' (q_queued s') ->
       must_cancel F x' = false /\
       exists x, In x (q_queued s) /\ qj_job x' = qj_job x /\ incl (qj_block x') (qj_block x)).
Proof. exact check_completions_cancels_iff. Qed.
Print Assumptions c06_aux_check_completions_cancels_iff.

(* ---- non-vacuity / witnesses ---- *)
Definition J (n : N) (b : list N) (f : bool) : job := {| j_name := n; j_block := b; j_flag := f |}.
Local Open Scope N_scope.

(* chain 1 <- 2 <- 3 <- 4 (flagged) <- 5 (unflagged), depth 2: job 1 fails; ONE pass cancels 2, 3, 4
   through the parked entries (three extra iterations), nothing is left parked, 5 is unblocked and
   started by the same process_queue. *)
Example c06_chain_cancel :
  let ops := [OpSubmit (J 1 [] false) true; OpSubmit (J 2 [1] true) true; OpSubmit (J 3 [2] true) true;
              OpSubmit (J 4 [3] true) true; OpSubmit (J 5 [4] false) true; OpProcess [Some 3%Z] []] in
  let s := run_ops 2%Z (init []) ops in
  map e_name (q_out s) = [5] /\ q_queued s = [] /\ q_err s = false /\
  q_log s = [EvRun (J 1 [] false) [] true 1%nat; EvComplete 1 3%Z;
             EvCancel (J 2 [1] true) [1]; EvComplete 2 1%Z; EvCancel (J 3 [2] true) [2]; EvComplete 3 1%Z;
             EvCancel (J 4 [3] true) [3]; EvComplete 4 1%Z; EvUnblock 5 4;
             EvRun (J 5 [4] false) [] true 1%nat].
Proof. vm_compute. repeat split. Qed.

(* the depth is reached (the bound is tight) and respected: 5 free jobs, depth 2 *)
Example c06_depth_reached :
  let ops := map (fun n => OpSubmit (J n [] false) true) [1; 2; 3; 4; 5] ++ [OpProcess [Some 0%Z; None] []] in
  let s := run_ops 2%Z (init []) ops in
  map e_name (q_out s) = [2; 3] /\ map qname (q_queued s) = [4; 5] /\
  q_log s = [EvRun (J 1 [] false) [] true 1%nat; EvRun (J 2 [] false) [] true 2%nat; EvComplete 1 0%Z;
             EvRun (J 3 [] false) [] true 2%nat].
Proof. vm_compute. repeat split. Qed.

(* a round with 3 persisted ids, max_nodes 2: one id is reported complete -> still full -> no
   batch is accepted; next snapshot reports another complete -> exactly one batch is accepted
   (the first sbatch fails and is not counted) *)
Example c06_round_overfull :
  let s1 := run_ops 2%Z (init [100; 101; 102]) (hpc_round_ops [Some 1%Z; None; None] [(1001, true); (1002, true)]) in
  let s2 := run_ops 2%Z (init [101; 102]) (hpc_round_ops [Some 1%Z; None] [(1001, false); (1002, true); (1003, true)]) in
  map e_name (q_out s1) = [101; 102] /\ map e_name (q_out s2) = [102; 1002].
Proof. vm_compute. split; reflexivity. Qed.

(* Why c06_queue_depth_bound needs #existing <= depth and c06_hpc_bound needs guarded submits: an
   UNGUARDED submit into a queue constructed over-full is started by process_queue, because
   `available_jobs = depth - len(outstanding)` is negative and `len(jobs_to_pop) >= available_jobs`
   holds after the first start.  Neither JobRunner (no existing entries) nor HpcSubmitter (guarded)
   does this; the real JobQueue behaves the same (directed correspondence case). *)
Example c06_overfull_unguarded_submit_quirk :
  let s := run_ops 1%Z (init [101; 102; 103]) [OpSubmit (J 1 [] false) true; OpProcess [] []] in
  map e_name (q_out s) = [101; 102; 103; 1].
Proof. vm_compute. reflexivity. Qed.

Example c06_none_is_maxsize :
  hpc_depth None = 9223372036854775807%Z /\ is_full (hpc_depth None) (init [1; 2; 3]) = false.
Proof. vm_compute. split; reflexivity. Qed.
