(* C06 - node and process concurrency limits are never exceeded.
   Only statements here; every proof is `exact <lemma>` (QueueProofs.v).  The model (Queue.v) is the
   JobQueue used on a compute node (depth = worker count) and by a submitter round (depth =
   max_nodes, existing = persisted HPC job ids). *)
From Coq Require Import List ZArith NArith Bool Arith.
From Jade Require Import Base Queue QueueProofs.
Import ListNotations.
Open Scope Z_scope.

(* Node level and HPC level, any sequence of operations of any length, any jobs, any completion
   answers / return codes / run() results: if the queue is constructed with at most `depth`
   existing entries then in every reachable state no canceled job is left in the outstanding set, at
   most `depth` entries are outstanding, every run() call left at most `depth` running entries, and
   the cancel fix-point loop terminated within its bound. *)
Theorem c06_queue_depth_bound : forall depth existing ops,
  Z.of_nat (length (q_out (init existing))) <= depth ->
  let s := run_ops depth (init existing) ops in
  noparked (q_out s) /\
  Z.of_nat (length (q_out s)) <= depth /\
  (forall j blk ok n, In (EvRun j blk ok n) (q_log s) -> Z.of_nat n <= depth) /\
  q_err s = false.
Proof. exact queue_depth_bound. Qed.
Print Assumptions c06_queue_depth_bound.
