(* C03 - final results are complete and independent of schedule and batching.
   PROVED: (1) every row JADE records - whichever node or submitter records it, under any batching,
   any number of rounds and any interleaving - is the reference outcome of its job, i.e. the outcome
   obtained by evaluating the dependency graph with the jobs' exit codes (Cancel.v model of the two
   real cancel loops; the right-hand side mentions neither schedule nor batching: independence);
   (2) the results summary written at completion lists exactly the recorded rows and reports exactly
   the jobs without a row as missing (system model).
   (3) completeness: in every fault-free run of an acyclic configuration, whatever the batching
   parameters, the number of rounds and the interleaving, the results summary reports no missing job
   and lists a result for every configured job (SystemComplete.v; "fault-free" is the executable
   predicate SystemFault.fault_free, evaluated by the check on every impl trace of its fault-free
   modes, so the hypothesis is one that real runs are seen to satisfy).
   (4) independence at system level: every row a fault-free run records is consistent with the job
   graph (SystemOutcome.v), a consistent assignment is unique on an acyclic graph, hence two fault-free
   runs of the same job graph - with ANY batching parameters, groups, node limits, numbers of rounds
   and interleavings - that reach their summaries report exactly the same results, one per job.
   NOT PROVED in Coq: that a run reaches the summary at all (termination of the real processes; the
   acceptor has no scheduling) and local mode (no batches; outside the system model) - decided on impl
   by the oracles over all explored schedules.  Still stated as partial in MANIFEST.json. *)
From Coq Require Import List ZArith NArith Bool.
From Jade Require Import Base.
From Jade Require Cancel CancelProofs.
From Jade Require System SystemMonitors SystemTheorems SystemFault SystemComplete SystemOutcome SystemAcyclic SystemReference.
From Jade.Props Require SysExamples.
Import ListNotations.

Theorem c03_rows_are_reference_partial : forall sc, CancelProofs.acyclic sc -> NoDup (map Cancel.jname sc) ->
  forall evs s, Cancel.sys_run sc (Cancel.sys_init sc) evs = Some s ->
  (forall r, In r (Cancel.s_rows s) -> Cancel.row_outcome r = Cancel.reference sc (Cancel.r_name r)) /\
  (forall n, In n (Cancel.s_launched s) -> exists j, Cancel.find_job sc n = Some j /\ Cancel.reference sc n = Cancel.Finished (Cancel.jrc j)) /\
  (forall r, In r (Cancel.s_rows s) -> Cancel.row_outcome r = Cancel.Canceled -> ~ In (Cancel.r_name r) (Cancel.s_launched s)).
Proof. exact CancelProofs.level_agnostic. Qed.
Print Assumptions c03_rows_are_reference_partial.

(* independence: two arbitrary executions of the same configuration agree on every job both recorded *)
Theorem c03_independent : forall sc, CancelProofs.acyclic sc -> NoDup (map Cancel.jname sc) ->
  forall evs1 s1 evs2 s2,
  Cancel.sys_run sc (Cancel.sys_init sc) evs1 = Some s1 -> Cancel.sys_run sc (Cancel.sys_init sc) evs2 = Some s2 ->
  forall r1 r2, In r1 (Cancel.s_rows s1) -> In r2 (Cancel.s_rows s2) -> Cancel.r_name r1 = Cancel.r_name r2 ->
  Cancel.row_outcome r1 = Cancel.row_outcome r2.
Proof.
  intros sc Ha Hn evs1 s1 evs2 s2 H1 H2 r1 r2 I1 I2 E.
  destruct (CancelProofs.level_agnostic sc Ha Hn evs1 s1 H1) as [A1 _].
  destruct (CancelProofs.level_agnostic sc Ha Hn evs2 s2 H2) as [A2 _].
  rewrite (A1 r1 I1), (A2 r2 I2), E. reflexivity.
Qed.
Print Assumptions c03_independent.

Theorem c03_summary_faithful : forall sc tr1 p res miss tr2 s,
  System.run sc (tr1 ++ System.ESummary p res miss :: tr2) = Some s ->
  exists s1, System.run sc tr1 = Some s1 /\ Permutation.Permutation res (System.processed s1) /\
    (forall j, In j miss <-> In j (System.all_jobs sc) /\ ~ In j (System.row_names (System.processed s1))) /\
    (forall r, In r res -> In r (SystemMonitors.rows_of tr1)).
Proof. exact SystemTheorems.summary_faithful. Qed.
Print Assumptions c03_summary_faithful.

(* completeness: fault-free + acyclic => nothing missing, one result per configured job *)
Theorem c03_complete_when_fault_free : forall sc tr1 p res miss tr2 s,
  SystemComplete.acyclic sc -> SystemComplete.nodes_ok sc ->
  System.run sc (tr1 ++ System.ESummary p res miss :: tr2) = Some s ->
  SystemFault.fault_free sc System.init (tr1 ++ System.ESummary p res miss :: tr2) = true ->
  miss = [] /\ forall j, In j (System.all_jobs sc) -> In j (System.row_names res).
Proof. exact SystemComplete.complete_no_missing. Qed.
Print Assumptions c03_complete_when_fault_free.

(* the hypotheses are satisfiable: the example run is accepted, fault-free, acyclic and has a summary *)
Example c03_complete_nonvacuous :
  SysExamples.accepted SysExamples.ex_sc SysExamples.ex_tr = true /\
  SystemFault.fault_free SysExamples.ex_sc System.init SysExamples.ex_tr = true /\
  SystemComplete.acyclic SysExamples.ex_sc /\ SystemComplete.nodes_ok SysExamples.ex_sc /\
  existsb (fun e => match e with System.ESummary _ _ _ => true | _ => false end) SysExamples.ex_tr = true.
Proof.
  split; [vm_compute; reflexivity|]. split; [vm_compute; reflexivity|]. split; [|split; vm_compute; reflexivity].
  exists N.to_nat. intros j d Hj Hd. vm_compute in Hj.
  destruct Hj as [<-|[<-|[<-|[]]]]; vm_compute in Hd; try contradiction.
  destruct Hd as [<-|[]]. split; [vm_compute; auto|vm_compute; auto].
Qed.

(* every row of a fault-free run is consistent with the dependency graph and the exit codes *)
Theorem c03_rows_consistent : forall sc tr s, SystemComplete.acyclic sc -> SystemComplete.nodes_ok sc ->
  System.run sc tr = Some s -> SystemFault.fault_free sc System.init tr = true ->
  SystemOutcome.consistent sc (System.rows s).
Proof. exact SystemOutcome.rows_consistent. Qed.
Print Assumptions c03_rows_consistent.

(* the full statement for the system model: same job graph (dependencies, flags, exit codes), arbitrary other
   parameters and schedules => the same final results, nothing missing *)
Theorem c03_final_results_independent : forall sc1 sc2 tra1 p1 res1 miss1 trb1 s1 tra2 p2 res2 miss2 trb2 s2,
  SystemComplete.acyclic sc1 -> SystemComplete.acyclic sc2 -> SystemComplete.nodes_ok sc1 -> SystemComplete.nodes_ok sc2 ->
  SystemOutcome.same_graph sc1 sc2 ->
  System.run sc1 (tra1 ++ System.ESummary p1 res1 miss1 :: trb1) = Some s1 ->
  SystemFault.fault_free sc1 System.init (tra1 ++ System.ESummary p1 res1 miss1 :: trb1) = true ->
  System.run sc2 (tra2 ++ System.ESummary p2 res2 miss2 :: trb2) = Some s2 ->
  SystemFault.fault_free sc2 System.init (tra2 ++ System.ESummary p2 res2 miss2 :: trb2) = true ->
  miss1 = [] /\ miss2 = [] /\ (forall r, In r res1 <-> In r res2).
Proof. exact SystemOutcome.final_results_independent. Qed.
Print Assumptions c03_final_results_independent.

(* every hypothesis of the completeness theorem is executable: the check evaluates acyclicb, nodes_okb, fault_free and
   the acceptor on every impl trace of its fault-free modes and re-reads the conclusion from the trace *)
Theorem c03_acyclicb_sound : forall sc, SystemFault.acyclicb sc = true -> SystemComplete.acyclic sc.
Proof. exact SystemAcyclic.acyclicb_sound. Qed.
Print Assumptions c03_acyclicb_sound.

Theorem c03_complete_when_checked : forall sc tr1 p res miss tr2 s,
  (SystemFault.acyclicb sc && SystemFault.nodes_okb sc)%bool = true ->
  System.run sc (tr1 ++ System.ESummary p res miss :: tr2) = Some s ->
  SystemFault.fault_free sc System.init (tr1 ++ System.ESummary p res miss :: tr2) = true ->
  miss = [] /\ forall j, In j (System.all_jobs sc) -> In j (System.row_names res).
Proof. exact SystemAcyclic.complete_no_missing_checked. Qed.
Print Assumptions c03_complete_when_checked.

Example c03_checked_nonvacuous :
  (SystemFault.acyclicb SysExamples.ex_sc && SystemFault.nodes_okb SysExamples.ex_sc)%bool = true.
Proof. vm_compute. reflexivity. Qed.

(* the property as stated: the final results are the reference evaluation of the dependency graph (an executable
   function of the jobs' dependencies, flags and exit codes alone), nothing missing - for every fault-free run, whatever
   the batching parameters, groups, node limit, number of rounds and interleaving *)
Theorem c03_rows_are_the_reference : forall sc tr s,
  (SystemFault.acyclicb sc && SystemFault.nodes_okb sc)%bool = true ->
  System.run sc tr = Some s -> SystemFault.fault_free sc System.init tr = true ->
  forall rw, In rw (System.rows s) -> In rw (SystemReference.reference sc).
Proof. exact SystemReference.rows_are_the_reference. Qed.
Print Assumptions c03_rows_are_the_reference.

Theorem c03_final_results_are_the_reference : forall sc tr1 p res miss tr2 s,
  (SystemFault.acyclicb sc && SystemFault.nodes_okb sc)%bool = true ->
  System.run sc (tr1 ++ System.ESummary p res miss :: tr2) = Some s ->
  SystemFault.fault_free sc System.init (tr1 ++ System.ESummary p res miss :: tr2) = true ->
  miss = [] /\ forall r, In r res <-> In r (SystemReference.reference sc).
Proof. exact SystemReference.final_results_are_the_reference. Qed.
Print Assumptions c03_final_results_are_the_reference.

(* the example: job 0 succeeds, its flagged dependent 1 runs, job 2 fails with its own code *)
Example c03_reference_example : SystemReference.reference SysExamples.ex_sc =
  [SysExamples.rw 0 0; SysExamples.rw 1 0; SysExamples.rw 2 2].
Proof. vm_compute. reflexivity. Qed.
