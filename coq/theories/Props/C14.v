(* C14 - cancel is final: after the submission was marked canceled nothing is handed to the HPC, in
   any continuation (cancel-jobs' own completion round, later try-submit-jobs, node rounds), for every
   accepted trace; when the flag is set no batch listed in the status is still active (the acceptor
   demands the scancel calls before the flag).  (A resubmission clears the flag; resubmission is
   outside this model.) *)
From Coq Require Import List ZArith NArith Bool.
From Jade Require Import Base System SystemMonitors SystemProofs SystemTheorems SystemStatus SystemProgress SystemCancelDone.
From Jade.Props Require Import SysExamples.
Import ListNotations.
Open Scope N_scope.

Theorem c14_no_sbatch_after_cancel : forall sc tr1 p tr2 s, run sc (tr1 ++ EMarkCanceled p :: tr2) = Some s ->
  forall e, In e tr2 -> is_sbatch e = false.
Proof. exact c14_system. Qed.
Print Assumptions c14_no_sbatch_after_cancel.

Theorem c14_monitor : forall sc tr s, run sc tr = Some s -> c14_ok sc tr = true.
Proof. exact c14_accepted. Qed.
Print Assumptions c14_monitor.

(* every batch that the status lists was asked to be canceled (or had ended) before the flag is set *)
Theorem c14_listed_batches_canceled : forall sc tr1 p tr2 s, run sc (tr1 ++ EMarkCanceled p :: tr2) = Some s ->
  exists s1, run sc tr1 = Some s1 /\ forall i, In i (ids s1) -> ~ In i (active_ids s1).
Proof. exact canceled_means_no_listed_batch_active. Qed.
Print Assumptions c14_listed_batches_canceled.

(* results recorded before the cancel are kept: rows are never removed, only moved *)
Theorem c14_results_kept : forall sc tr s, run sc tr = Some s ->
  Permutation.Permutation (rows_of tr) (pending s ++ processed s).
Proof. exact c11_rows_kept. Qed.
Print Assumptions c14_results_kept.

Definition ex_tr_cancel : list event :=
  firstn 12 ex_tr ++ [ELoad 7 true true false false; EScancel 7 100; EMarkCanceled 7; EDemote 7; EBatchEnd 100;
                      ELoad 8 true true false true; ERound 8; ESqueue 8 []; ECollect 8 [rw 0 0]; EMarkerTouch 8;
                      EUpdate 8 {| sn_jobs := [(0, (DONE, [])); (1, (SUB, [])); (2, (NS, []))]; sn_ids := []; sn_index := 2;
                                   sn_submitted := 2; sn_completed := 1 |};
                      ECheckComplete 8 true; EMarkerRemove 8; ESummary 8 [rw 0 0] [1; 2]; EMarkComplete 8; EDemote 8].
Example c14_nonvacuous : accepted ex_sc ex_tr_cancel = true /\ existsb is_mark_canceled ex_tr_cancel = true.
Proof. vm_compute. auto. Qed.

(* a canceled submission still runs to completion: from any quiescent state after the flag was set (no batch queued
   or running, nobody submitter) every completion check that a submitter round reaches returns "complete".
   PARTIAL in the same sense as c05_progress: that a started round reaches its check is not proved (the acceptor has
   no scheduling); on the implementation the oracle canceled-submission-never-completes decides it. *)
Theorem c14_canceled_submission_completes_partial : forall sc tr0 q tr1 tr2 p b tr3 s0 s',
  run sc (tr0 ++ EMarkCanceled q :: tr1) = Some s0 -> quiescent s0 ->
  run sc ((tr0 ++ EMarkCanceled q :: tr1) ++ tr2 ++ ECheckComplete p b :: tr3) = Some s' ->
  b = true.
Proof. exact canceled_submission_completes. Qed.
Print Assumptions c14_canceled_submission_completes_partial.

Example c14_completes_nonvacuous :
  exists s0, run ex_sc (firstn 17 ex_tr_cancel) = Some s0 /\ quiescent s0 /\ nth 16 ex_tr_cancel (EDemote 0) = EBatchEnd 100
             /\ nth 14 ex_tr_cancel (EDemote 0) = EMarkCanceled 7 /\ nth 23 ex_tr_cancel (EDemote 0) = ECheckComplete 8 true.
Proof. vm_compute. eexists. repeat split; reflexivity. Qed.
