(* C04 - failure cancellation is exact.  Statements only; models in Cancel.v, proofs in CancelProofs.v,
   constants/predicates of the result records in Gen/ResultGen.v (regenerated from /repo). *)
From Coq Require Import String List ZArith NArith Bool.
From Jade Require Import Base Cancel CancelProofs.
From Jade.Gen Require Import ResultGen.
Import ListNotations.
Open Scope list_scope.

(* ---- the specification function ---- *)
Theorem c04_reference_step : forall sc, acyclic sc -> forall n j, find_job sc n = Some j ->
  reference sc n = if jflag j && existsb (fun d => bad (reference sc d)) (jdeps j) then Canceled else Finished (jrc j).
Proof. exact reference_step. Qed.
Print Assumptions c04_reference_step.

Theorem c04_reference_canceled_iff : forall sc, acyclic sc -> forall n j, find_job sc n = Some j ->
  (reference sc n = Canceled <-> jflag j = true /\ exists d, In d (jdeps j) /\ bad (reference sc d) = true).
Proof. exact reference_canceled_iff. Qed.
Print Assumptions c04_reference_canceled_iff.

(* ---- (4) every row JADE writes is exactly one of successful / failed / canceled ---- *)
Theorem c04_classification_exact : forall r, jade_row r ->
  b2n (is_successful (r_rc r) (r_status r)) + b2n (is_failed (r_rc r) (r_status r)) + b2n (is_canceled (r_rc r) (r_status r)) = 1.
Proof. exact classification_exact. Qed.
Print Assumptions c04_classification_exact.

Theorem c04_classification_matches_outcome : forall r, jade_row r ->
  (is_canceled (r_rc r) (r_status r) = true <-> row_outcome r = Canceled) /\
  (is_failed (r_rc r) (r_status r) = true <-> exists rc, row_outcome r = Finished rc /\ rc <> 0%Z) /\
  (is_successful (r_rc r) (r_status r) = true <-> row_outcome r = Finished 0).
Proof. exact classification_matches_outcome. Qed.
Print Assumptions c04_classification_matches_outcome.

(* the canceled records: non-zero return code, read back as canceled, and counted as a failure by both loops *)
Theorem c04_cancel_records : forall n,
  is_canceled (r_rc (sub_cancel_row n)) (r_status (sub_cancel_row n)) = true /\
  is_canceled (r_rc (node_cancel_row n)) (r_status (node_cancel_row n)) = true /\
  r_rc (sub_cancel_row n) <> 0%Z /\ r_rc (node_cancel_row n) <> 0%Z /\
  sub_is_failure (r_rc (sub_cancel_row n)) = true /\ sub_is_failure (r_rc (node_cancel_row n)) = true /\
  node_is_failure (r_rc (node_cancel_row n)) = true.
Proof. exact cancel_records. Qed.
Print Assumptions c04_cancel_records.

(* ---- (1) submitter level ---- *)
Theorem c04_update_completed_terminates : forall feeds jobs, update_completed feeds jobs <> None.
Proof. exact update_completed_terminates. Qed.
Print Assumptions c04_update_completed_terminates.

(* after the fix-point: a job is canceled iff it was NOT_SUBMITTED, flagged, and in some iteration k its
   then-remaining blockers met failed_k ([cancels]; an empty blocker set never does); one canceled row per
   canceled job; canceled => DONE with no blockers; otherwise state unchanged and the blockers of a waiting
   job shrink exactly by the names reported completed ([remaining], see c04_remaining_spec) *)
Theorem c04_update_completed_cancels_iff : forall feeds jobs u,
  update_completed feeds jobs = Some u -> NoDup (map c_name jobs) ->
  (forall j, In j jobs ->
     (In (c_name j) (u_canceled u) <-> is_waiting j = true /\ c_flag j = true /\ cancels (c_blocked j) (u_log u) = true)) /\
  u_rows u = map sub_cancel_row (u_canceled u) /\
  (forall j, In j jobs -> exists j', In j' (u_jobs u) /\ c_name j' = c_name j /\ c_flag j' = c_flag j /\
     (In (c_name j) (u_canceled u) -> c_state j' = DONE /\ c_blocked j' = []) /\
     (~ In (c_name j) (u_canceled u) -> c_state j' = c_state j /\
        c_blocked j' = if is_waiting j then remaining (c_blocked j) (u_log u) else c_blocked j)).
Proof. exact update_completed_cancels_iff. Qed.
Print Assumptions c04_update_completed_cancels_iff.

Theorem c04_remaining_spec : forall log b x,
  In x (remaining b log) <-> In x b /\ forall e, In e log -> ~ In x (snd e).
Proof. exact remaining_spec. Qed.
Print Assumptions c04_remaining_spec.

(* canceled => some blocker is in the failed set accumulated over all iterations; the converse holds only when
   every name is reported at most once (C08/C01): witness of the failing converse below *)
Theorem c04_cancels_sound : forall log b, cancels b log = true -> meets b (all_failed log) = true.
Proof. exact cancels_sound. Qed.
Print Assumptions c04_cancels_sound.
Theorem c04_cancels_accumulated_converse_refuted : exists b log, meets b (all_failed log) = true /\ cancels b log = false.
Proof. exact cancels_refuted_converse. Qed.
Print Assumptions c04_cancels_accumulated_converse_refuted.

(* ---- (2) node level ---- *)
Theorem c04_check_completions_terminates : forall fin out queued, check_completions fin out queued <> None.
Proof. exact check_completions_terminates. Qed.
Print Assumptions c04_check_completions_terminates.

Theorem c04_check_completions_cancels_iff : forall failed name q,
  (cc_job failed name q = inr (q_name q) <-> q_blocking q <> [] /\ q_flag q = true /\ meets (q_blocking q) failed = true) /\
  (forall n, cc_job failed name q = inr n -> n = q_name q) /\
  (forall q', cc_job failed name q = inl q' ->
     q_name q' = q_name q /\ q_flag q' = q_flag q /\ forall x, In x (q_blocking q') <-> In x (q_blocking q) /\ x <> name).
Proof. exact check_completions_cancels_iff. Qed.
Print Assumptions c04_check_completions_cancels_iff.

(* ---- (3) both levels: whatever sequence of batchings, starts, node polls and submitter rounds, every row
   written is the reference outcome of its job, every started job is one the reference lets run, and a job
   with a canceled row was never started ---- *)
Theorem c04_level_agnostic : forall sc, acyclic sc -> NoDup (map jname sc) ->
  forall evs s, sys_run sc (sys_init sc) evs = Some s ->
  (forall r, In r (s_rows s) -> row_outcome r = reference sc (r_name r)) /\
  (forall n, In n (s_launched s) -> exists j, find_job sc n = Some j /\ reference sc n = Finished (jrc j)) /\
  (forall r, In r (s_rows s) -> row_outcome r = Canceled -> ~ In (r_name r) (s_launched s)).
Proof. exact level_agnostic. Qed.
Print Assumptions c04_level_agnostic.

(* flagged: canceled row iff some blocker's reference outcome is failed/canceled; unflagged: never a canceled row *)
Theorem c04_cancel_exact : forall sc, acyclic sc -> NoDup (map jname sc) ->
  forall evs s, sys_run sc (sys_init sc) evs = Some s ->
  forall r j, In r (s_rows s) -> find_job sc (r_name r) = Some j ->
  (row_outcome r = Canceled <-> jflag j = true /\ exists d, In d (jdeps j) /\ bad (reference sc d) = true) /\
  (jflag j = false -> row_outcome r = Finished (jrc j)).
Proof. exact cancel_exact. Qed.
Print Assumptions c04_cancel_exact.

(* ---- non-vacuity ---- *)
Definition ex_sc : scenario :=
  [ {| jname := 3; jdeps := [2%N]; jflag := true; jrc := 0 |};     (* dependents listed before their blockers *)
    {| jname := 2; jdeps := [1%N]; jflag := true; jrc := 0 |};
    {| jname := 1; jdeps := []; jflag := false; jrc := 2 |};
    {| jname := 4; jdeps := [1%N]; jflag := false; jrc := 0 |};
    {| jname := 5; jdeps := [4%N; 3%N]; jflag := true; jrc := 0 |} ].
Example ex_acyclic : acyclic ex_sc /\ NoDup (map jname ex_sc).
Proof.
  split.
  - exists (fun n => match n with 1%N => 0 | 2%N => 1 | 3%N => 2 | 4%N => 1 | _ => 3 end).
    intros j Hj. cbn in Hj. repeat (destruct Hj as [<-|Hj]; [cbn; split; [auto with arith|intros d Hd; cbn in Hd; repeat (destruct Hd as [<-|Hd]; [cbn; auto with arith|]); destruct Hd]|]). destruct Hj.
  - apply nodupbN_spec. reflexivity.
Qed.
Example ex_reference : map (fun j => (jname j, reference ex_sc (jname j))) ex_sc =
  [(3%N, Canceled); (2%N, Canceled); (1%N, Finished 2); (4%N, Finished 0); (5%N, Canceled)].
Proof. vm_compute. reflexivity. Qed.
(* j1, j2 batched together (try-add-blocked): j2 is canceled ON THE NODE; j3 and then j5 are canceled BY THE
   SUBMITTER (chain through the node-level canceled row, two loop iterations); unflagged j4 runs *)
Definition ex_events : list event :=
  [ EvBatch 1 [1%N; 2%N]; EvStart 1 1; EvNode 1 [[(1%N, 2%Z)]];
    EvSubmitter [[finish_row 1 2; node_cancel_row 2]];
    EvBatch 2 [4%N]; EvStart 2 4; EvNode 2 [[(4%N, 0%Z)]]; EvSubmitter [[finish_row 4 0]] ].
Example ex_run : option_map (fun s => (map (fun r => (r_name r, row_outcome r)) (s_rows s), s_launched s)) (sys_run ex_sc (sys_init ex_sc) ex_events)
  = Some ([(1%N, Finished 2); (2%N, Canceled); (3%N, Canceled); (5%N, Canceled); (4%N, Finished 0)], [1%N; 4%N]).
Proof. vm_compute. reflexivity. Qed.
Example ex_update_completed :
  option_map (fun u => (u_canceled u, length (u_log u), map c_blocked (u_jobs u)))
    (update_completed [[finish_row 1 2; finish_row 4 0]]
       [ {| c_name := 3; c_blocked := [2%N]; c_flag := true; c_state := NOT_SUBMITTED |};
         {| c_name := 2; c_blocked := [1%N]; c_flag := true; c_state := NOT_SUBMITTED |};
         {| c_name := 6; c_blocked := [4%N; 7%N]; c_flag := true; c_state := NOT_SUBMITTED |};
         {| c_name := 1; c_blocked := []; c_flag := false; c_state := SUBMITTED |} ])
  = Some ([2%N; 3%N], 3, [[]; []; [7%N]; []]).
Proof. vm_compute. reflexivity. Qed.
