(* C04 - failure cancellation is exact.  Statements only; proofs in CancelProofs.v. *)
From Coq Require Import String List ZArith NArith Bool.
From Jade Require Import Base Cancel CancelProofs.
From Jade.Gen Require Import ResultGen.
Import ListNotations.

(* the specification function unfolds along the dependency graph (acyclic scenarios) *)
Theorem c04_reference_step : forall sc, acyclic sc -> forall n j, find_job sc n = Some j ->
  reference sc n = if jflag j && existsb (fun d => bad (reference sc d)) (jdeps j) then Canceled else Finished (jrc j).
Proof. exact reference_step. Qed.
Print Assumptions c04_reference_step.

(* every row JADE writes is exactly one of successful / failed / canceled (generated predicates) *)
Theorem c04_classification_exact : forall r, jade_row r ->
  b2n (is_successful (r_rc r) (r_status r)) + b2n (is_failed (r_rc r) (r_status r)) + b2n (is_canceled (r_rc r) (r_status r)) = 1.
Proof. exact classification_exact. Qed.
Print Assumptions c04_classification_exact.

(* the submitter's `while need_to_rerun` loop ends within #jobs + 1 iterations *)
Theorem c04_update_completed_terminates : forall feeds jobs, update_completed feeds jobs <> None.
Proof. exact update_completed_terminates. Qed.
Print Assumptions c04_update_completed_terminates.
