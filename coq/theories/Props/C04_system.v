(* C04 at system level (System.v): for every accepted trace - kills, errors and time-outs included - a
   flagged job is never started once one of its blockers has a failed or canceled outcome.  The
   acceptor demands it of every launch (guard of ELaunch), so every impl trace of every mode is
   checked against it; the component theorems of Props/C04.v prove the two cancel loops that make
   it true. *)
From Coq Require Import List ZArith NArith Bool.
From Jade Require Import Base System SystemMonitors SystemOutcome.
From Jade.Props Require Import SysExamples.
Import ListNotations.
Open Scope N_scope.

Theorem c04_flagged_never_started_after_failure : forall sc tr1 id j tr2 s,
  run sc (tr1 ++ ELaunch id j :: tr2) = Some s -> flag sc j = true ->
  forall rd, In rd (rows_of tr1) -> In (rw_job rd) (deps sc j) -> rw_rc rd = 0%Z.
Proof. exact flagged_never_started_after_failure. Qed.
Print Assumptions c04_flagged_never_started_after_failure.

(* the example run launches the flagged job 1 after its blocker 0 succeeded *)
Example c04_system_nonvacuous : accepted ex_sc ex_tr = true /\ flag ex_sc 1 = true /\
  existsb (fun e => match e with ELaunch _ 1 => true | _ => false end) ex_tr = true.
Proof. vm_compute. auto. Qed.
