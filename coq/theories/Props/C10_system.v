(* C10, system level: in every accepted trace (any interleaving of login-node and compute-node
   submitter attempts and user commands) the submitter role is held by one process at a time:
   between two successful promotions there is a demotion, and a dead holder is never replaced. *)
From Coq Require Import List ZArith NArith Bool.
From Jade Require Import Base System SystemMonitors SystemProofs SystemTheorems.
From Jade.Props Require Import SysExamples.
Import ListNotations.
Open Scope N_scope.

Theorem c10_one_submitter_at_a_time : forall sc tr1 e1 tr2 e2 tr3 s,
  run sc (tr1 ++ e1 :: tr2 ++ e2 :: tr3) = Some s -> is_promotion e1 = true -> is_promotion e2 = true ->
  exists d, In d tr2 /\ is_demote d = true.
Proof. exact c10_system. Qed.
Print Assumptions c10_one_submitter_at_a_time.

Theorem c10_role_monitor : forall sc tr s, run sc tr = Some s -> c10_ok sc tr = true.
Proof. exact c10_accepted. Qed.
Print Assumptions c10_role_monitor.

Example c10_system_nonvacuous : accepted ex_sc ex_tr = true /\ length (filter is_promotion ex_tr) = 4%nat.
Proof. vm_compute. auto. Qed.
