(* C17 - configurations round-trip losslessly; invalid ones are rejected up front.
   Only statements here; every proof is `exact <lemma>`.  The model is Config.v (dict level of
   serialize / create_config_from_file, construction = pydantic validation + add_job, the checks of
   JobSubmitter.run_checks, the order of the calls in JobSubmitter.create / run_submit_jobs).
   GENERATED from /repo (Gen/ConfigGen.v): job fields and defaults, the default-elision tuple, the strip
   switch, the group-consistency tuples and SubmitterParams fields, the order of checks and calls. *)
From Coq Require Import String Ascii List ZArith NArith Bool.
From Jade Require Import Base Config ConfigProofs.
From Jade.Gen Require Import ConfigGen.
Import ListNotations.
Open Scope string_scope.

(* ---- round trip ------------------------------------------------------------------------------- *)
(* A configuration as the Python objects hold it (any number of jobs and groups) written out and
   loaded back is the same configuration: same jobs in the same order with the same names, commands,
   dependencies, flags, estimates, groups, ids, ext; same groups; same four lifecycle commands. *)
Theorem c17_roundtrip : forall c, normalized c -> deserialize (serialize c) = Ok c.
Proof. exact roundtrip. Qed.
Print Assumptions c17_roundtrip.

(* For ANY description (raw or not): loading its serialization is exactly constructing it.  Nothing is
   lost by the default elision of the generated tuple, whatever fields it names. *)
Theorem c17_reload_is_construction : forall c, deserialize (serialize c) = construct c.
Proof. exact deserialize_serialize. Qed.
Print Assumptions c17_reload_is_construction.

(* construction normalizes (strip, blockers to a set of strings, ids) and is idempotent *)
Theorem c17_normalize_idempotent : forall raw c, construct raw = Ok c -> normalized c /\ construct c = Ok c.
Proof. exact (fun raw c H => conj (construct_normalized raw c H) (construct_idem raw c H)). Qed.
Print Assumptions c17_normalize_idempotent.
Theorem c17_normalized_is_fixed : forall c, normalized c -> construct c = Ok c.
Proof. exact construct_fixed. Qed.
Print Assumptions c17_normalized_is_fixed.

(* construction succeeds exactly when, after normalization and id assignment, job names are unique
   and no (single-node) job has an empty command; it then yields exactly `built raw` *)
Theorem c17_construct_exact : forall raw c,
  construct raw = Ok c <->
  c = built raw /\ Forall command_ok (c_jobs (built raw)) /\ NoDup (map job_name (c_jobs (built raw))).
Proof. exact construct_spec. Qed.
Print Assumptions c17_construct_exact.

(* ---- the checks ---------------------------------------------------------------------------------- *)
(* run_checks accepts exactly the valid configurations *)
Theorem c17_checks_exact : forall c, run_checks c = Ok tt <-> valid c.
Proof. exact checks_exact. Qed.
Print Assumptions c17_checks_exact.

(* each single invalidity the property names makes it an error *)
Theorem c17_rejects_missing_blocker : forall c j b,
  In j (c_jobs c) -> In b (j_blocked j) -> ~ In (blocker_str b) (map job_name (c_jobs c)) ->
  exists e, run_checks c = Err e.
Proof. exact reject_missing_blocker. Qed.
Print Assumptions c17_rejects_missing_blocker.
Theorem c17_rejects_duplicate_names : forall raw,
  ~ NoDup (map job_name (c_jobs (built raw))) ->
  exists e, construct raw = Err e /\ (e = EEmptyCommand \/ exists n, e = EDuplicateName n).
Proof.
  exact (fun raw H => match reject_duplicate_names raw H with
                      | ex_intro _ e He => ex_intro _ e (conj He (construct_errors raw e He))
                      end).
Qed.
Print Assumptions c17_rejects_duplicate_names.
Theorem c17_rejects_job_without_listed_group : forall c j,
  In j (c_jobs c) -> ~ In (j_group j) (map g_name (c_groups c)) -> exists e, run_checks c = Err e.
Proof. exact reject_invalid_group. Qed.
Print Assumptions c17_rejects_job_without_listed_group.
Theorem c17_rejects_no_groups : forall c, c_groups c = [] -> run_checks c = Err ENoGroups.
Proof. exact reject_no_groups. Qed.
Print Assumptions c17_rejects_no_groups.
Theorem c17_rejects_duplicate_group : forall c,
  ~ NoDup (map g_name (c_groups c)) -> exists e, run_checks c = Err e.
Proof. exact reject_duplicate_group. Qed.
Print Assumptions c17_rejects_duplicate_group.
Theorem c17_rejects_inconsistent_hpc_type : forall c g1 g2,
  In g1 (c_groups c) -> In g2 (c_groups c) -> g_hpc_type g1 <> g_hpc_type g2 -> exists e, run_checks c = Err e.
Proof. exact reject_inconsistent_hpc_type. Qed.
Print Assumptions c17_rejects_inconsistent_hpc_type.
Theorem c17_rejects_inconsistent_group_setting : forall c g1 g2 p,
  In g1 (c_groups c) -> In g2 (c_groups c) -> In p ["max_nodes"; "poll_interval"] ->
  g_param p g1 <> g_param p g2 -> exists e, run_checks c = Err e.
Proof. exact reject_inconsistent_setting. Qed.
Print Assumptions c17_rejects_inconsistent_group_setting.
Theorem c17_rejects_runtime_over_walltime : forall c j g e w,
  In j (c_jobs c) -> In g (c_groups c) -> g_name g = j_group j -> j_est j = Some e -> group_wall g = Some w ->
  (w < e * 60)%Z -> exists e', run_checks c = Err e'.
Proof. exact reject_runtime_over_walltime. Qed.
Print Assumptions c17_rejects_runtime_over_walltime.
Theorem c17_rejects_missing_estimate : forall c g j,
  In g (c_groups c) -> g_batch_size g = JNum 0 -> In j (c_jobs c) -> j_group j = g_name g -> j_est j = None ->
  exists e, run_checks c = Err e.
Proof. exact reject_missing_estimate. Qed.
Print Assumptions c17_rejects_missing_estimate.

(* the error kind reported by the checks is truthful: it names a defect the configuration really has
   (error_claim in ConfigProofs.v spells out what each kind claims) *)
Theorem c17_error_kind_truthful : forall c e, run_checks c = Err e -> error_claim c e.
Proof. exact checks_error_truthful. Qed.
Print Assumptions c17_error_kind_truthful.
(* construction fails only for an empty command or a duplicate name *)
Theorem c17_construct_error_kinds : forall raw e,
  construct raw = Err e -> e = EEmptyCommand \/ exists n, e = EDuplicateName n.
Proof. exact construct_errors. Qed.
Print Assumptions c17_construct_error_kinds.

(* ---- before anything is handed to the HPC ------------------------------------------------------------ *)
(* a file that does not load, or loads to a configuration the checks reject, produces no boundary event
   at all (no config dump, no Cluster.create, no submit_jobs); an accepted one produces all three in order *)
Theorem c17_rejected_before_hpc : forall v,
  (forall e, deserialize v = Err e -> load_and_submit v = Err e) /\
  (forall c e, deserialize v = Ok c -> run_checks c = Err e -> load_and_submit v = Ok (serialize c, ([], Err e))) /\
  (forall c, deserialize v = Ok c -> run_checks c = Ok tt ->
             load_and_submit v = Ok (serialize c, ([EvDump; EvClusterCreate; EvSubmitJobs], Ok tt))).
Proof. exact load_rejected_no_events. Qed.
Print Assumptions c17_rejected_before_hpc.
Theorem c17_valid_accepted : forall c, valid c ->
  run_submit_jobs c = ([EvDump; EvClusterCreate; EvSubmitJobs], Ok tt).
Proof. exact (fun c H => submit_accepted c (proj2 (checks_exact c) H)). Qed.
Print Assumptions c17_valid_accepted.

(* ---- non-vacuity ------------------------------------------------------------------------------------------ *)
Local Open Scope Z_scope.
Definition ex_params (wall : string) (poll : Z) : list (string * json) :=
  [("hpc_config", JObj [("hpc_type", JStr "slurm"); ("job_prefix", JStr "job");
                        ("hpc", JObj [("account", JStr "acct"); ("walltime", JStr wall)])]);
   ("max_nodes", JNull); ("per_node_batch_size", JNum 500); ("poll_interval", JNum poll)].
Definition ex_job (name : option string) (cmd : string) (bl : list blocker) (est : option Z) (grp : string) : job :=
  {| j_name := name; j_mnm := false; j_command := cmd; j_blocked := bl; j_cancel := false; j_est := est;
     j_group := grp; j_ajn := false; j_aod := false; j_ext := []; j_id := None |}.
(* as a user writes it: padded strings, an integer blocker, no ids *)
Definition ex_raw : config :=
  {| c_jobs := [ex_job None " echo 1 " [] (Some 60) "g 1";
                ex_job (Some " b, ""x"" ") "echo 2" [BInt 1; BStr " 1 "] None " g 1";
                ex_job (Some "c") "echo 3" [BStr "b, ""x"""; BInt 1] (Some 30) "short"];
     c_groups := [{| g_name := "g 1 "; g_params := ex_params "1:00:00" 10 |};
                  {| g_name := "short"; g_params := ex_params "0:30:00" 10 |}];
     c_setup := Some " make env "; c_teardown := None; c_node_setup := Some ""; c_node_teardown := None;
     c_user_data := [] |}.
Definition ex_built : config :=
  {| c_jobs := [set_id (ex_job None "echo 1" [] (Some 60) "g 1") 1;
                set_id (ex_job (Some "b, ""x""") "echo 2" [BStr "1"] None "g 1") 2;
                set_id (ex_job (Some "c") "echo 3" [BStr "b, ""x"""; BStr "1"] (Some 30) "short") 3];
     c_groups := [{| g_name := "g 1"; g_params := ex_params "1:00:00" 10 |};
                  {| g_name := "short"; g_params := ex_params "0:30:00" 10 |}];
     c_setup := Some " make env "; c_teardown := None; c_node_setup := Some ""; c_node_teardown := None;
     c_user_data := [] |}.
Example c17_ex_construct : construct ex_raw = Ok ex_built.
Proof. vm_compute. reflexivity. Qed.
Example c17_ex_normalized : normalized ex_built.
Proof. exact (construct_normalized ex_raw ex_built c17_ex_construct). Qed.
Example c17_ex_valid : valid ex_built.
Proof. apply checks_exact. vm_compute. reflexivity. Qed.
Example c17_ex_roundtrip : deserialize (serialize ex_built) = Ok ex_built /\ serialize ex_built <> serialize ex_raw.
Proof. split; [vm_compute; reflexivity|vm_compute; discriminate]. Qed.
(* single injected invalidities on the example and the error kind reported *)
Definition with_jobs (c : config) (js : list job) : config :=
  {| c_jobs := js; c_groups := c_groups c; c_setup := c_setup c; c_teardown := c_teardown c;
     c_node_setup := c_node_setup c; c_node_teardown := c_node_teardown c; c_user_data := c_user_data c |}.
Definition with_groups (c : config) (gs : list group) : config :=
  {| c_jobs := c_jobs c; c_groups := gs; c_setup := c_setup c; c_teardown := c_teardown c;
     c_node_setup := c_node_setup c; c_node_teardown := c_node_teardown c; c_user_data := c_user_data c |}.
Example c17_ex_invalid_kinds :
  run_submit_jobs (with_jobs ex_built (c_jobs ex_built ++ [set_id (ex_job (Some "d") "x" [BStr "ghost"] None "short") 4]))
    = ([], Err EMissingBlocker) /\
  construct (with_jobs ex_raw (c_jobs ex_raw ++ [ex_job (Some "1 ") "x" [] None "short"])) = Err (EDuplicateName "1") /\
  run_submit_jobs (with_jobs ex_built (c_jobs ex_built ++ [set_id (ex_job (Some "d") "x" [] None "default") 4]))
    = ([], Err (EJobInvalidGroup "d" "default")) /\
  run_submit_jobs (with_groups ex_built [{| g_name := "g 1"; g_params := ex_params "1:00:00" 10 |};
                                         {| g_name := "short"; g_params := ex_params "0:30:00" 11 |}])
    = ([], Err (EMustBeSame "poll_interval")) /\
  run_submit_jobs (with_jobs ex_built (c_jobs ex_built ++ [set_id (ex_job (Some "d") "x" [] (Some 31) "short") 4]))
    = ([], Err (ERuntime "d")) /\
  run_submit_jobs (with_jobs ex_built (c_jobs ex_built ++ [set_id (ex_job (Some "d") "x" [] (Some 30) "short") 4]))
    = ([EvDump; EvClusterCreate; EvSubmitJobs], Ok tt).
Proof. vm_compute. repeat split; reflexivity. Qed.
