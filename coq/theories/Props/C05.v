(* C05 - a submission makes progress and completes exactly once.
   PROVED here (safety half, every accepted trace): the completion flag is set at most once, a
   results summary was written before it, and nothing is submitted afterwards.
   NOT PROVED in Coq (liveness half: a recovery round submits or completes; finitely many rounds; a
   round leaves an unblocked job unsubmitted only at the max-nodes limit): decided on impl by the
   oracles of harness/syscheck.py over all explored fault-free schedules, and at component level by
   the maximality statements of Props/C07.v.  Stated as partial in MANIFEST.json. *)
From Coq Require Import List ZArith NArith Bool.
From Jade Require Import Base System SystemMonitors SystemProofs SystemTheorems.
From Jade.Props Require Import SysExamples.
Import ListNotations.
Open Scope N_scope.

Theorem c05_complete_once_partial : forall sc tr1 p tr2 s, run sc (tr1 ++ EMarkComplete p :: tr2) = Some s ->
  (exists q r m, In (ESummary q r m) tr1) /\
  (forall e, In e tr1 -> is_mark_complete e = false) /\
  (forall e, In e tr2 -> is_mark_complete e = false /\ is_sbatch e = false).
Proof. exact c05_system. Qed.
Print Assumptions c05_complete_once_partial.

Theorem c05_monitor : forall sc tr s, run sc tr = Some s -> c05_ok sc tr = true.
Proof. exact c05_accepted. Qed.
Print Assumptions c05_monitor.

(* the summary written before completion lists exactly the recorded results; the rest is missing *)
Theorem c05_summary_before_completion : forall sc tr1 p res miss tr2 s,
  run sc (tr1 ++ ESummary p res miss :: tr2) = Some s ->
  exists s1, run sc tr1 = Some s1 /\ Permutation.Permutation res (processed s1) /\
    (forall j, In j miss <-> In j (all_jobs sc) /\ ~ In j (row_names (processed s1))) /\
    (forall r, In r res -> In r (rows_of tr1)).
Proof. exact summary_faithful. Qed.
Print Assumptions c05_summary_before_completion.

Example c05_nonvacuous : accepted ex_sc ex_tr = true /\ existsb is_mark_complete ex_tr = true.
Proof. vm_compute. auto. Qed.
