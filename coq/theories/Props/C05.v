(* C05 - a submission makes progress and completes exactly once.
   PROVED here, for every accepted trace: (safety) the completion flag is set at most once, a
   results summary was written before it, and nothing is submitted afterwards; (progress) from a
   state in which no batch of the submission is queued or running and nobody holds the submitter
   role, every submitter round that reaches its completion check either handed a batch to the HPC
   or decides that the submission is complete - whatever else happens in between (refused
   promotions, failed sbatch calls, any number of processes); (finitely many rounds) an accepted
   trace contains at most |jobs| successful submissions.
   (completion only when done) in a fault-free run of an acyclic configuration the completion flag is
   set only when every configured job has a result (SystemComplete.v).
   "A round leaves a job whose blockers all have outcomes unsubmitted only when the max-nodes limit is
   reached" is a guard of the acceptor (System.round_maximal at the completion check): every impl
   trace of every mode must satisfy it to be accepted, the batching function is proved to have it in
   Props/C07.v (c07_round_maximal), and the completeness proof uses it.
   NOT PROVED in Coq: that a round which is started always reaches its completion check (the real
   code terminates; the model is an acceptor and has no notion of a process being scheduled): decided
   on impl by the oracles of harness/syscheck.py over all explored fault-free schedules.  Still stated
   as partial in MANIFEST.json. *)
From Coq Require Import List ZArith NArith Bool.
From Jade Require Import Base System SystemMonitors SystemProofs SystemTheorems SystemProgress SystemFault SystemComplete SystemCancelDone.
From Jade.Props Require Import SysExamples.
Import ListNotations.
Open Scope N_scope.

Theorem c05_complete_once_partial : forall sc tr1 p tr2 s, run sc (tr1 ++ EMarkComplete p :: tr2) = Some s ->
  (exists q r m, In (ESummary q r m) tr1) /\
  (forall e, In e tr1 -> is_mark_complete e = false) /\
  (forall e, In e tr2 -> is_mark_complete e = false /\ is_sbatch e = false).
Proof. exact c05_system. Qed.
Print Assumptions c05_complete_once_partial.

Theorem c05_monitor : forall sc tr s, run sc tr = Some s -> c05_ok sc tr = true.
Proof. exact c05_accepted. Qed.
Print Assumptions c05_monitor.

(* the summary written before completion lists exactly the recorded results; the rest is missing *)
Theorem c05_summary_before_completion : forall sc tr1 p res miss tr2 s,
  run sc (tr1 ++ ESummary p res miss :: tr2) = Some s ->
  exists s1, run sc tr1 = Some s1 /\ Permutation.Permutation res (processed s1) /\
    (forall j, In j miss <-> In j (all_jobs sc) /\ ~ In j (row_names (processed s1))) /\
    (forall r, In r res -> In r (rows_of tr1)).
Proof. exact summary_faithful. Qed.
Print Assumptions c05_summary_before_completion.

(* progress: a recovery round from a quiescent state submits or completes *)
Theorem c05_progress : forall sc tr0 tr1 p b tr2 s0 s', run sc tr0 = Some s0 -> quiescent s0 ->
  run sc (tr0 ++ tr1 ++ ECheckComplete p b :: tr2) = Some s' ->
  (exists e, In e tr1 /\ sbatch_ok e = true) \/ b = true.
Proof. exact progress_run. Qed.
Print Assumptions c05_progress.

(* progress after a cancellation: nothing is submitted any more, so from a quiescent state every completion check
   that a round reaches returns "complete" - a canceled submission completes at the first try-submit-jobs after its
   batches have ended (same partiality as c05_progress: reaching the check is decided on the implementation) *)
Theorem c05_canceled_submission_completes_partial : forall sc tr0 q tr1 tr2 p b tr3 s0 s',
  run sc (tr0 ++ EMarkCanceled q :: tr1) = Some s0 -> quiescent s0 ->
  run sc ((tr0 ++ EMarkCanceled q :: tr1) ++ tr2 ++ ECheckComplete p b :: tr3) = Some s' ->
  b = true.
Proof. exact canceled_submission_completes. Qed.
Print Assumptions c05_canceled_submission_completes_partial.

(* finitely many rounds: each successful submission hands at least one fresh job *)
Theorem c05_rounds_bounded : forall sc tr s, run sc tr = Some s ->
  (length (filter sbatch_ok tr) <= length (sc_jobs sc))%nat.
Proof. exact sbatch_bound. Qed.
Print Assumptions c05_rounds_bounded.

(* the completion flag is set only when every job has a result (fault-free run, acyclic configuration) *)
Theorem c05_complete_only_when_all_done : forall sc tr1 p tr2 s,
  acyclic sc -> nodes_ok sc ->
  run sc (tr1 ++ EMarkComplete p :: tr2) = Some s ->
  fault_free sc init (tr1 ++ EMarkComplete p :: tr2) = true ->
  exists s1, run sc tr1 = Some s1 /\ forall j, In j (all_jobs sc) -> In j (row_names (processed s1)).
Proof. exact complete_only_when_all_done. Qed.
Print Assumptions c05_complete_only_when_all_done.

(* a round that ends leaves no submittable job behind unless the node limit is reached or the submission
   is canceled: this is what the acceptor demands of every completion check *)
Theorem c05_round_maximal : forall sc s p b s', step sc s (ECheckComplete p b) = Some s' ->
  exists r, holder s = Some r /\ round_maximal sc r = true.
Proof.
  intros sc s p b s' Hs. unfold step in Hs. cbv beta iota in Hs. destruct (in_round s p) as [r|] eqn:Er; [|discriminate].
  apply in_round_some in Er. destruct Er as (Eh & _). exists r. split; [exact Eh|].
  destruct (round_maximal sc r); [reflexivity|]. rewrite !andb_false_r in Hs. discriminate.
Qed.
Print Assumptions c05_round_maximal.

(* non-vacuity of c05_progress: after batch 100 of the example ended, the state is quiescent and the
   next round (process 4) submits batch 2 *)
Example c05_progress_nonvacuous : exists s0, run ex_sc (firstn 25 ex_tr) = Some s0 /\ quiescent s0 /\
  nth 24 ex_tr (EKill []) = EBatchEnd 100 /\ existsb sbatch_ok (skipn 25 ex_tr) = true.
Proof. vm_compute. eexists. repeat split; reflexivity. Qed.

Example c05_nonvacuous : accepted ex_sc ex_tr = true /\ existsb is_mark_complete ex_tr = true.
Proof. vm_compute. auto. Qed.
