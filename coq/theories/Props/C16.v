(* C16 - setup and teardown commands run exactly once, at the right time.
   The hook monitor c16_ok (SystemMonitors.v) demands, along a trace: the setup command at most once
   and before any sbatch; the teardown command only after a results summary, at most once per summary,
   and - when configured - exactly once before the completion flag is set; node setup at most once per
   node and before the node's first launch; every launch on a node after its node setup (when
   configured) and before its node teardown; node teardown at most once, and no launch or result row
   of that node after it.  PROVED: every accepted trace satisfies the monitor (all set/unset
   combinations are instances: the flags are scenario fields; all schedules; kills included).
   Tie: hook commands are recorded at the run_command / check_run_command boundary with their
   environment; env variables and 'results still recorded' are judged by Python oracles. *)
From Coq Require Import List ZArith NArith Bool.
From Jade Require Import Base System SystemMonitors SystemProofs SystemHooks.
From Jade.Props Require Import SysExamples.
Import ListNotations.
Open Scope N_scope.

Theorem c16_monitor : forall sc tr s, run sc tr = Some s -> c16_ok sc tr = true.
Proof. exact c16_accepted. Qed.
Print Assumptions c16_monitor.

Theorem c16_setup_once_before_any_batch : forall sc tr1 e tr2 s, run sc (tr1 ++ e :: tr2) = Some s ->
  (is_setup e = true \/ is_sbatch e = true) -> forall x, In x tr2 -> is_setup x = false.
Proof. exact c16_setup_once_and_first. Qed.
Print Assumptions c16_setup_once_before_any_batch.

Theorem c16_node_setup_precedes_launch : forall sc tr1 id j tr2 s, hk_node_setup (sc_hooks sc) = true ->
  run sc (tr1 ++ ELaunch id j :: tr2) = Some s -> exists e, In e tr1 /\ is_node_setup id e = true.
Proof. exact c16_node_setup_before_launch. Qed.
Print Assumptions c16_node_setup_precedes_launch.

Theorem c16_node_teardown_is_last : forall sc tr1 p id tr2 s,
  run sc (tr1 ++ EHook p HNodeTeardown (Some id) :: tr2) = Some s ->
  forall e, In e tr2 -> on_node_after_teardown id e = false.
Proof. exact c16_nothing_after_node_teardown. Qed.
Print Assumptions c16_node_teardown_is_last.

Definition ex_sc_hooks : scenario := {|
  sc_jobs := sc_jobs ex_sc; sc_groups := sc_groups ex_sc; sc_max_nodes := Some 1; sc_cpus := 4;
  sc_hooks := {| hk_setup := true; hk_teardown := true; hk_node_setup := true; hk_node_teardown := true |} |}.
Definition ex_tr_hooks : list event := [
  ECreate 1; EHook 1 HSetup None; ERound 1; ECollect 1 []; EMarkerTouch 1;
  ESbatch 1 1 0 [(0, []); (1, [0])] (Some 1) (Some 100);
  EUpdate 1 {| sn_jobs := [(0, (SUB, [])); (1, (SUB, [])); (2, (NS, []))]; sn_ids := [100]; sn_index := 2;
               sn_submitted := 2; sn_completed := 0 |};
  ECheckComplete 1 false; EMarkerRemove 1; EDemote 1;
  EBatchStart 100; EHook 2 HNodeSetup (Some 100); ELaunch 100 0; EAppend 100 (rw 0 0); EUnblock 100 1 0;
  ELaunch 100 1; EAppend 100 (rw 1 0); EHook 2 HNodeTeardown (Some 100); EBatchEnd 100 ].
Example c16_nonvacuous : accepted ex_sc_hooks ex_tr_hooks = true /\ c16_ok ex_sc_hooks ex_tr_hooks = true.
Proof. vm_compute. auto. Qed.
