(* C12 - every job is accounted for when batches fail, are killed or time out.
   sbatch failures (ESbatch .. None), node deaths and time-outs (EBatchEnd/EKill) are events of the
   accepted traces.  PROVED: the results summary lists exactly the rows that were really recorded
   (none fabricated, none dropped) and reports exactly the jobs without a row as missing; a job with a
   blocker that never got an outcome is never started.  NOT PROVED in Coq: that the documented
   try-submit-jobs always reaches completion after such faults (decided on impl by the oracles of
   harness/syscheck.py; one known finding: a node that dies while holding a result-file lock). *)
From Coq Require Import List ZArith NArith Bool.
From Jade Require Import Base System SystemMonitors SystemProofs SystemTheorems.
From Jade.Props Require Import SysExamples.
Import ListNotations.
Open Scope N_scope.

Theorem c12_accounting_partial : forall sc tr1 p res miss tr2 s,
  run sc (tr1 ++ ESummary p res miss :: tr2) = Some s ->
  exists s1, run sc tr1 = Some s1 /\ Permutation.Permutation res (processed s1) /\
    (forall j, In j miss <-> In j (all_jobs sc) /\ ~ In j (row_names (processed s1))) /\
    (forall r, In r res -> In r (rows_of tr1)).
Proof. exact summary_faithful. Qed.
Print Assumptions c12_accounting_partial.

Theorem c12_no_start_after_missing : forall sc tr s j d, run sc tr = Some s ->
  In d (deps sc j) -> ~ In d (row_names (rows_of tr)) -> ~ In j (launched_of tr).
Proof. exact never_started_without_blocker_outcome. Qed.
Print Assumptions c12_no_start_after_missing.

Theorem c12_rows_kept : forall sc tr s, run sc tr = Some s ->
  Permutation.Permutation (rows_of tr) (pending s ++ processed s).
Proof. exact c11_rows_kept. Qed.
Print Assumptions c12_rows_kept.

(* batch 1 fails at sbatch: its jobs are marked submitted, never run and end up missing *)
Definition ex_tr_sbatch_fail : list event := [
  ECreate 1; ERound 1; ECollect 1 []; EMarkerTouch 1;
  ESbatch 1 1 0 [(0, []); (1, [0])] (Some 1) None;
  EUpdate 1 {| sn_jobs := [(0, (SUB, [])); (1, (SUB, [])); (2, (NS, []))]; sn_ids := []; sn_index := 2;
               sn_submitted := 2; sn_completed := 0 |};
  ECheckComplete 1 true; EMarkerRemove 1; ESummary 1 [] [0; 1; 2]; EMarkComplete 1; EDemote 1 ].
Example c12_nonvacuous : accepted ex_sc ex_tr_sbatch_fail = true.
Proof. vm_compute. reflexivity. Qed.
