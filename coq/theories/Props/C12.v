(* C12 - every job is accounted for when batches fail, are killed or time out.
   sbatch failures (ESbatch .. None), node deaths and time-outs (EBatchEnd/EKill) are events of the
   accepted traces.  PROVED: the results summary lists exactly the rows that were really recorded
   (none fabricated, none dropped) and reports exactly the jobs without a row as missing; a job with a
   blocker that never got an outcome is never started; once no batch remains active (lost batches
   included) and nobody holds the submitter role, a try-submit-jobs round that reaches its completion
   check either submits a batch or completes the submission.  NOT PROVED in Coq: that such a round
   always gets as far as its completion check - the known finding of this property (a node that dies
   while holding a result-file lock wedges result collection) is exactly a run in which it does not;
   decided on impl by the oracles of harness/syscheck.py. *)
From Coq Require Import List ZArith NArith Bool.
From Jade Require Import Base System SystemMonitors SystemProofs SystemInv SystemTheorems SystemProgress SystemStatus.
From Jade.Props Require Import SysExamples.
Import ListNotations.
Open Scope N_scope.

Theorem c12_accounting_partial : forall sc tr1 p res miss tr2 s,
  run sc (tr1 ++ ESummary p res miss :: tr2) = Some s ->
  exists s1, run sc tr1 = Some s1 /\ Permutation.Permutation res (processed s1) /\
    (forall j, In j miss <-> In j (all_jobs sc) /\ ~ In j (row_names (processed s1))) /\
    (forall r, In r res -> In r (rows_of tr1)).
Proof. exact summary_faithful. Qed.
Print Assumptions c12_accounting_partial.

Theorem c12_no_start_after_missing : forall sc tr s j d, run sc tr = Some s ->
  In d (deps sc j) -> ~ In d (row_names (rows_of tr)) -> ~ In j (launched_of tr).
Proof. exact never_started_without_blocker_outcome. Qed.
Print Assumptions c12_no_start_after_missing.

Theorem c12_rows_kept : forall sc tr s, run sc tr = Some s ->
  Permutation.Permutation (rows_of tr) (pending s ++ processed s).
Proof. exact c11_rows_kept. Qed.
Print Assumptions c12_rows_kept.

Theorem c12_completion_after_loss_partial : forall sc tr0 tr1 p b tr2 s0 s', run sc tr0 = Some s0 -> quiescent s0 ->
  run sc (tr0 ++ tr1 ++ ECheckComplete p b :: tr2) = Some s' ->
  (exists e, In e tr1 /\ sbatch_ok e = true) \/ b = true.
Proof. exact progress_run. Qed.
Print Assumptions c12_completion_after_loss_partial.

(* "once no batch remains active": the completion check returns true either because every job is done or - the forced
   completion that reports the rest as missing - when no batch at all is queued or running any more, whatever faults
   came before (a batch the status does not list included: the round's own queue covers it) *)
Theorem c12_forced_completion_only_when_nothing_active : forall sc tr1 p tr2 s,
  run sc (tr1 ++ ECheckComplete p true :: tr2) = Some s ->
  exists s1 r, run sc tr1 = Some s1 /\ holder s1 = Some r /\
    ((forall j, In j (all_jobs sc) -> r_st r j = DONE) \/ act_ids (hpc s1) = []).
Proof. exact forced_completion_only_when_nothing_active. Qed.
Print Assumptions c12_forced_completion_only_when_nothing_active.

(* batch 1 is lost while job 0 runs (node killed, job 1 never started), the next round's sbatch
   fails: nothing is active, the round completes the submission with all three jobs missing *)
Definition ex_tr_lost : list event := firstn 9 ex_tr ++ [
  EBatchStart 100; ELaunch 100 0; EBatchEnd 100;
  ELoad 3 true true false false; ERound 3; ESqueue 3 []; ECollect 3 []; EMarkerTouch 3;
  ESbatch 3 2 0 [(2, [])] (Some 1) None;
  EUpdate 3 {| sn_jobs := [(0, (SUB, [])); (1, (SUB, [])); (2, (SUB, []))]; sn_ids := []; sn_index := 3;
               sn_submitted := 3; sn_completed := 0 |};
  ECheckComplete 3 true; EMarkerRemove 3; ESummary 3 [] [0; 1; 2]; EMarkComplete 3; EDemote 3 ].
Example c12_lost_nonvacuous : accepted ex_sc ex_tr_lost = true /\
  exists s0, run ex_sc (firstn 12 ex_tr_lost) = Some s0 /\ quiescent s0.
Proof. split; [vm_compute; reflexivity|]. vm_compute. eexists. repeat split; reflexivity. Qed.

(* both batches fail at sbatch: their jobs are marked submitted, never run and end up missing *)
Definition ex_tr_sbatch_fail : list event := [
  ECreate 1; ERound 1; ECollect 1 []; EMarkerTouch 1;
  ESbatch 1 1 0 [(0, []); (1, [0])] (Some 1) None; ESbatch 1 2 0 [(2, [])] (Some 1) None;
  EUpdate 1 {| sn_jobs := [(0, (SUB, [])); (1, (SUB, [])); (2, (SUB, []))]; sn_ids := []; sn_index := 3;
               sn_submitted := 3; sn_completed := 0 |};
  ECheckComplete 1 true; EMarkerRemove 1; ESummary 1 [] [0; 1; 2]; EMarkComplete 1; EDemote 1 ].
Example c12_nonvacuous : accepted ex_sc ex_tr_sbatch_fail = true.
Proof. vm_compute. reflexivity. Qed.
