(* C15 - pipeline stages run strictly in order, each exactly once.
   Only statements here; every proof is `exact <lemma>`.  `src_consts` are the integer literals and
   the statement order of the sequencing code, GENERATED from /repo (Gen/PipelineGen.v); the lemma
   `src_consts_std` (PipelineProofs.v) checks that they are the ones the proofs are about.
   Model: Pipeline.v (what is modelled and what is not is listed in its header). *)
From Coq Require Import String List ZArith Bool Arith Sorted.
From Jade Require Import Pipeline PipelineProofs.
From Jade.Gen Require Import PipelineGen.
Import ListNotations.
Open Scope list_scope.
Open Scope Z_scope.

(* For ALL histories of `jade pipeline submit` / `jade pipeline submit-next-stage k rc` (any k, any
   rc, any order, any multiplicity, any behaviour of the auto-config commands, config files and
   run_submit_jobs): the stages whose auto-config command ran, whose config file was read and which
   were handed to JobSubmitter.run_submit_jobs are, each, strictly increasing (in order, never
   twice), lie in 1..n and never exceed the recorded current stage. *)
Theorem c15_order_once : forall ops, forallb cli_op ops = true ->
  forall view, In view [submitted; configured; config_read] ->
  let l := view (w_log (final src_consts ops)) in
  StronglySorted Z.lt l /\ NoDup l /\
  forall k, In k l -> exists s, w_pipe (final src_consts ops) = Some s /\ 1 <= k <= p_stage s /\ k <= nstages s.
Proof. exact (order_once src_consts src_consts_std). Qed.
Print Assumptions c15_order_once.

(* ... and when every auto-config command and config file is fine, they are exactly 1,2,..,m with
   m = the recorded current stage (n once the pipeline is complete): no stage is skipped. *)
Theorem c15_submitted_prefix : forall ops,
  forallb cli_op ops = true -> forallb (fun o => env_ok (op_env o)) ops = true ->
  forall s, w_pipe (final src_consts ops) = Some s ->
  submitted (w_log (final src_consts ops)) = zseq 1 (Z.to_nat (Z.min (p_stage s) (nstages s))).
Proof. exact (prefix_env_ok src_consts src_consts_std). Qed.
Print Assumptions c15_submitted_prefix.

(* submit_next_stage(k, rc) gets past the sequencing check only if the current stage is k-1, and
   then the current stage is k *)
Theorem c15_accept_only_current : forall w k rc e,
  accepted (fst (step src_consts w (OpNext k (Some rc) e))) = true ->
  exists s, w_pipe w = Some s /\ p_stage s = k - 1 /\
            exists s', w_pipe (snd (step src_consts w (OpNext k (Some rc) e))) = Some s' /\ p_stage s' = k.
Proof. exact (accept_only_current src_consts src_consts_std). Qed.
Print Assumptions c15_accept_only_current.

(* a rejected call (output directory exists / no pipeline / InvalidParameter / AssertionError /
   IndexError) leaves pipeline.json unchanged and submits nothing *)
Theorem c15_rejected_unchanged : forall w o,
  accepted (fst (step src_consts w o)) = false -> snd (step src_consts w o) = w.
Proof. exact (rejected_unchanged src_consts src_consts_std). Qed.
Print Assumptions c15_rejected_unchanged.

(* a repeated completion call (same k again, e.g. after a resubmitted stage completes a second
   time) is rejected and submits nothing, whatever happened in between *)
Theorem c15_repeat_rejected : forall w k rc e,
  accepted (fst (step src_consts w (OpNext k (Some rc) e))) = true ->
  forall ops rc' e',
  let w2 := snd (run src_consts (snd (step src_consts w (OpNext k (Some rc) e))) ops) in
  step src_consts w2 (OpNext k (Some rc') e') = (RErrInvalidParameter, w2).
Proof. exact (repeat_rejected src_consts src_consts_std). Qed.
Print Assumptions c15_repeat_rejected.

(* ---- non-vacuity / witnesses ---- *)
Definition bad_auto : env := {| e_auto := AutoRetNonzero; e_cfg_ok := true; e_ret := 0 |}.

(* a 3-stage pipeline driven with wrong, repeated and out-of-range calls in between *)
Example c15_ex_history :
  let ops := [OpNext 2 (Some 0) good_env; OpSubmit [true; false; true] good_env; OpSubmit [true] good_env;
              OpNext 3 (Some 0) good_env; OpNext 2 (Some 7) good_env; OpNext 2 (Some 7) good_env;
              OpNext 3 (Some 1) good_env; OpNext 3 (Some 1) good_env; OpNext 4 (Some 0) good_env;
              OpNext 4 (Some 0) good_env; OpNext 5 (Some 0) good_env] in
  fst (run src_consts init_world ops) =
    [RErrNoPipeline; ROkSubmitted 1; RErrExists; RErrInvalidParameter; ROkSubmitted 2; RErrInvalidParameter;
     ROkSubmitted 3; RErrInvalidParameter; ROkComplete; RErrInvalidParameter; RErrIndexRc]
  /\ submitted (w_log (final src_consts ops)) = [1; 2; 3]
  /\ configured (w_log (final src_consts ops)) = [1; 3]
  /\ observe (final src_consts ops) = Some (4, [Some 7; Some 1; Some 0], true).
Proof. vm_compute. repeat split. Qed.

(* why c15_submitted_prefix needs the environment hypothesis: stage 2's auto-config fails, a (forced)
   call for stage 3 is then accepted: 2 is never submitted.  Order and uniqueness still hold. *)
Example c15_ex_gap_when_autoconfig_fails :
  submitted (w_log (final src_consts [OpSubmit [true; true; true] good_env; OpNext 2 (Some 0) bad_auto;
                                      OpNext 3 (Some 0) good_env])) = [1; 3].
Proof. vm_compute. reflexivity. Qed.

(* why the theorems are about the command line (cli_op): the raw API call submit_next_stage(1) with
   return_code=None on an existing pipeline re-submits the current stage.  Only `jade pipeline
   submit` makes that call, on a freshly created directory. *)
Example c15_ex_raw_api_first_not_guarded :
  submitted (w_log (final src_consts [OpSubmit [false; false] good_env; OpNext 1 None good_env])) = [1; 1].
Proof. vm_compute. reflexivity. Qed.
