(* C15 - pipeline stages run strictly in order, each exactly once.
   Only statements here; every proof is `exact <lemma>`.  `src_consts` are the integer literals and
   the statement order of the sequencing code, GENERATED from /repo (Gen/PipelineGen.v); the lemma
   `src_consts_std` (PipelineProofs.v) checks that they are the ones the proofs are about.
   Model: Pipeline.v (what is modelled and what is not is listed in its header). *)
From Coq Require Import String List ZArith Bool Arith Sorted.
From Jade Require Import Pipeline PipelineProofs.
From Jade.Gen Require Import PipelineGen.
Import ListNotations.
Open Scope list_scope.
Open Scope Z_scope.

(* For ALL histories of `jade pipeline submit` / `jade pipeline submit-next-stage k rc` (any k, any
   rc, any order, any multiplicity, any behaviour of the auto-config commands, config files and
   run_submit_jobs): the stages whose auto-config command ran, whose config file was read and which
   were handed to JobSubmitter.run_submit_jobs are, each, strictly increasing (in order, never
   twice), lie in 1..n and never exceed the recorded current stage. *)
Theorem c15_order_once : forall ops, forallb cli_op ops = true ->
  forall view, In view [submitted; configured; config_read] ->
  let l := view (w_log (final src_consts ops)) in
  StronglySorted Z.lt l /\ NoDup l /\
  forall k, In k l -> exists s, w_pipe (final src_consts ops) = Some s /\ 1 <= k <= p_stage s /\ k <= nstages s.
Proof. exact (order_once src_consts src_consts_std). Qed.
Print Assumptions c15_order_once.

(* ... and when every auto-config command and config file is fine, they are exactly 1,2,..,m with
   m = the recorded current stage (n once the pipeline is complete): no stage is skipped. *)
Theorem c15_submitted_prefix : forall ops,
  forallb cli_op ops = true -> forallb (fun o => env_ok (op_env o)) ops = true ->
  forall s, w_pipe (final src_consts ops) = Some s ->
  submitted (w_log (final src_consts ops)) = zseq 1 (Z.to_nat (Z.min (p_stage s) (nstages s))).
Proof. exact (prefix_env_ok src_consts src_consts_std). Qed.
Print Assumptions c15_submitted_prefix.

(* submit_next_stage(k, rc) gets past the sequencing check only if the current stage is k-1, and
   then the current stage is k *)
Theorem c15_accept_only_current : forall w k rc e,
  accepted (fst (step src_consts w (OpNext k (Some rc) e))) = true ->
  exists s, w_pipe w = Some s /\ p_stage s = k - 1 /\
            exists s', w_pipe (snd (step src_consts w (OpNext k (Some rc) e))) = Some s' /\ p_stage s' = k.
Proof. exact (accept_only_current src_consts src_consts_std). Qed.
Print Assumptions c15_accept_only_current.

(* a rejected call (output directory exists / no pipeline / InvalidParameter / AssertionError /
   IndexError) leaves pipeline.json unchanged and submits nothing *)
Theorem c15_rejected_unchanged : forall w o,
  accepted (fst (step src_consts w o)) = false -> snd (step src_consts w o) = w.
Proof. exact (rejected_unchanged src_consts src_consts_std). Qed.
Print Assumptions c15_rejected_unchanged.

(* a repeated completion call (same k again, e.g. after a resubmitted stage completes a second
   time) is rejected and submits nothing, whatever happened in between *)
Theorem c15_repeat_rejected : forall w k rc e,
  accepted (fst (step src_consts w (OpNext k (Some rc) e))) = true ->
  forall ops rc' e',
  let w2 := snd (run src_consts (snd (step src_consts w (OpNext k (Some rc) e))) ops) in
  step src_consts w2 (OpNext k (Some rc') e') = (RErrInvalidParameter, w2).
Proof. exact (repeat_rejected src_consts src_consts_std). Qed.
Print Assumptions c15_repeat_rejected.

(* ---- non-vacuity / witnesses ---- *)
Definition bad_auto : env := {| e_auto := AutoRetNonzero; e_cfg_ok := true; e_ret := 0 |}.

(* a 3-stage pipeline driven with wrong, repeated and out-of-range calls in between *)
Example c15_ex_history :
  let ops := [OpNext 2 (Some 0) good_env; OpSubmit [true; false; true] good_env; OpSubmit [true] good_env;
              OpNext 3 (Some 0) good_env; OpNext 2 (Some 7) good_env; OpNext 2 (Some 7) good_env;
              OpNext 3 (Some 1) good_env; OpNext 3 (Some 1) good_env; OpNext 4 (Some 0) good_env;
              OpNext 4 (Some 0) good_env; OpNext 5 (Some 0) good_env] in
  fst (run src_consts init_world ops) =
    [RErrNoPipeline; ROkSubmitted 1; RErrExists; RErrInvalidParameter; ROkSubmitted 2; RErrInvalidParameter;
     ROkSubmitted 3; RErrInvalidParameter; ROkComplete; RErrInvalidParameter; RErrIndexRc]
  /\ submitted (w_log (final src_consts ops)) = [1; 2; 3]
  /\ configured (w_log (final src_consts ops)) = [1; 3]
  /\ observe (final src_consts ops) = Some (4, [Some 7; Some 1; Some 0], true).
Proof. vm_compute. repeat split. Qed.

(* why c15_submitted_prefix needs the environment hypothesis: stage 2's auto-config fails, a (forced)
   call for stage 3 is then accepted: 2 is never submitted.  Order and uniqueness still hold. *)
Example c15_ex_gap_when_autoconfig_fails :
  submitted (w_log (final src_consts [OpSubmit [true; true; true] good_env; OpNext 2 (Some 0) bad_auto;
                                      OpNext 3 (Some 0) good_env])) = [1; 3].
Proof. vm_compute. reflexivity. Qed.

(* why the theorems are about the command line (cli_op): the raw API call submit_next_stage(1) with
   return_code=None on an existing pipeline re-submits the current stage.  Only `jade pipeline
   submit` makes that call, on a freshly created directory. *)
Example c15_ex_raw_api_first_not_guarded :
  submitted (w_log (final src_consts [OpSubmit [false; false] good_env; OpNext 1 None good_env])) = [1; 1].
Proof. vm_compute. reflexivity. Qed.

(* ---- return codes, accepted completions, completion ---- *)

(* the accepted submit-next-stage calls are exactly k = 2,3,..,current stage, each once; the return
   code recorded for stage j is the rc of the (unique) accepted `submit-next-stage j+1 rc` *)
Theorem c15_return_codes : forall ops, forallb cli_op ops = true ->
  forall s, w_pipe (final src_consts ops) = Some s ->
  map fst (advanced (w_log (final src_consts ops))) = zseq 2 (Z.to_nat (p_stage s - 1)) /\
  forall j rc, 1 <= j <= nstages s ->
    (recorded_rc s j = Some rc <-> In (EvAdvance (j + 1) rc) (w_log (final src_consts ops))).
Proof. exact (rc_recorded src_consts src_consts_std). Qed.
Print Assumptions c15_return_codes.

(* EvAdvance k rc is logged by, and only by, an accepted `submit-next-stage k rc` call *)
Theorem c15_advance_iff_accepted : forall ops o, forallb cli_op ops = true ->
  let w := final src_consts ops in
  advanced (w_log (snd (step src_consts w o))) =
  advanced (w_log w) ++ match o with
                        | OpNext k (Some rc) _ => if accepted (fst (step src_consts w o)) then [(k, rc)] else []
                        | _ => []
                        end.
Proof. exact (advanced_step src_consts src_consts_std). Qed.
Print Assumptions c15_advance_iff_accepted.

(* is_complete <-> the current stage is n+1; and then submit-next-stage 2..n+1 were each accepted
   exactly once (the last one is what set the flag) and every stage has its return code *)
Theorem c15_complete_only_after_last : forall ops, forallb cli_op ops = true ->
  forall s, w_pipe (final src_consts ops) = Some s ->
  (p_complete s = true <-> p_stage s = nstages s + 1) /\
  (p_complete s = true ->
   map fst (advanced (w_log (final src_consts ops))) = zseq 2 (length (p_auto s)) /\
   forall j, 1 <= j <= nstages s ->
     exists rc, recorded_rc s j = Some rc /\ In (EvAdvance (j + 1) rc) (w_log (final src_consts ops))).
Proof. exact (complete_only_after_last src_consts src_consts_std). Qed.
Print Assumptions c15_complete_only_after_last.

Theorem c15_complete_all_submitted : forall ops,
  forallb cli_op ops = true -> forallb (fun o => env_ok (op_env o)) ops = true ->
  forall s, w_pipe (final src_consts ops) = Some s -> p_complete s = true ->
  submitted (w_log (final src_consts ops)) = zseq 1 (length (p_auto s)).
Proof. exact (complete_all_submitted src_consts src_consts_std). Qed.
Print Assumptions c15_complete_all_submitted.

(* ---- system level: the hand-over in JobSubmitter._handle_completion composed with the above ----
   sys_run = Some y  <=>  every SysComplete k consumed an outstanding submission of stage k and every
   SysResubmit k hit a completed one (Pipeline.c05_enabled: at most one mark_complete per
   (re)submission of a stage - property C05's business, here the explicit hypothesis).
   Any number of stages, any interleaving of completions / resubmissions, any environment. *)

(* stage j>1 is configured (auto-config run, config read), made current and submitted only after
   stage j-1 was submitted and that submission was marked complete; completions only of existing
   submissions (log_ordered / ev_justified: Pipeline.v) *)
Theorem c15_after_completion : forall ops y,
  sys_run src_consts init_sys ops = Some y -> log_ordered (w_log (y_world y)).
Proof. exact (sys_handover_order src_consts src_consts_std). Qed.
Print Assumptions c15_after_completion.

(* the submitted stages are exactly 1,2,..,m - no gap even when auto-config / config / submission
   fail - and nothing is configured, read or submitted twice *)
Theorem c15_system_order_once : forall ops y,
  sys_run src_consts init_sys ops = Some y ->
  let L := w_log (y_world y) in
  submitted L = zseq 1 (length (submitted L)) /\
  NoDup (submitted L) /\ NoDup (configured L) /\ NoDup (config_read L) /\
  forall k, In k (submitted L) -> exists s, w_pipe (y_world y) = Some s /\ 1 <= k <= p_stage s /\ k <= nstages s.
Proof. exact (sys_order_once src_consts src_consts_std). Qed.
Print Assumptions c15_system_order_once.

(* the pipeline is marked complete only after every stage was submitted and its submission marked
   complete; the recorded return code of stage j is the result value its completion handed over *)
Theorem c15_system_complete : forall ops y,
  sys_run src_consts init_sys ops = Some y ->
  forall s, w_pipe (y_world y) = Some s -> p_complete s = true ->
  let L := w_log (y_world y) in
  p_stage s = nstages s + 1 /\
  forall j, 1 <= j <= nstages s ->
    In (EvSubmit j) L /\ In (EvMarkComplete j) L /\
    exists rc, recorded_rc s j = Some rc /\ In (EvAdvance (j + 1) rc) L.
Proof. exact (sys_complete src_consts src_consts_std). Qed.
Print Assumptions c15_system_complete.

(* "exactly once" includes "at least once": the first completion of stage k (its submission exists and
   was not yet marked complete), with auto-config command and config file of stage k+1 in order,
   records k's result value and submits stage k+1 - or marks the pipeline complete if k = n *)
Theorem c15_system_progress : forall ops y,
  sys_run src_consts init_sys ops = Some y ->
  forall k res e s, w_pipe (y_world y) = Some s ->
  In (EvSubmit k) (w_log (y_world y)) -> ~ In (EvMarkComplete k) (w_log (y_world y)) -> env_ok e = true ->
  let w2 := complete_world src_consts (y_world y) k res e in
  exists s2, w_pipe w2 = Some s2 /\ p_stage s2 = k + 1 /\ recorded_rc s2 k = Some res /\
    ((k < nstages s /\ In (EvSubmit (k + 1)) (w_log w2)) \/ (k = nstages s /\ p_complete s2 = true)).
Proof. exact (sys_progress src_consts src_consts_std). Qed.
Print Assumptions c15_system_progress.

(* non-vacuity: a 3-stage pipeline; stage 1 is resubmitted and completes a second time after the
   pipeline moved on (rejected, nothing submitted), stage 2's completion hands over result 1 *)
Example c15_ex_system :
  let ops := [SysStart [true; false; true] good_env; SysComplete 1 0 good_env; SysResubmit 1;
              SysComplete 1 0 good_env; SysComplete 2 1 good_env; SysComplete 3 0 good_env] in
  option_map (fun y => (observe (y_world y), w_log (y_world y))) (sys_run src_consts init_sys ops) =
  Some (Some (4, [Some 0; Some 1; Some 0], true),
        [EvAutoConfig 1; EvReadConfig 1; EvSubmit 1; EvMarkComplete 1; EvAdvance 2 0; EvReadConfig 2; EvSubmit 2;
         EvResubmit 1; EvMarkComplete 1; EvMarkComplete 2; EvAdvance 3 1; EvAutoConfig 3; EvReadConfig 3; EvSubmit 3;
         EvMarkComplete 3; EvAdvance 4 0]).
Proof. vm_compute. reflexivity. Qed.

(* the hypothesis is not vacuous the other way either: a second completion without resubmission is
   outside the discipline *)
Example c15_ex_system_discipline :
  sys_run src_consts init_sys [SysStart [true] good_env; SysComplete 1 0 good_env; SysComplete 1 0 good_env] = None.
Proof. vm_compute. reflexivity. Qed.
