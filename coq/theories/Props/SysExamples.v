(* A concrete accepted trace used by the non-vacuity examples of the system properties:
   3 jobs (job 1 blocked by job 0, job 2 independent), batch size 2, max-nodes 1, one group.
   login creates, submits batch 1 = {0,1}; node 100 runs 0 then 1; its try-submit collects,
   submits batch 2 = {2}; node 101 runs 2; its try-submit collects and completes. *)
From Coq Require Import List ZArith NArith Bool.
From Jade Require Import Base System SystemMonitors.
Import ListNotations.
Open Scope N_scope.

Definition ex_sc : scenario := {|
  sc_jobs := [ {| jc_deps := []; jc_flag := false; jc_group := 0; jc_est := 1%Z; jc_rc := 0%Z |};
               {| jc_deps := [0]; jc_flag := true; jc_group := 0; jc_est := 1%Z; jc_rc := 0%Z |};
               {| jc_deps := []; jc_flag := false; jc_group := 0; jc_est := 1%Z; jc_rc := 2%Z |} ];
  sc_groups := [ {| gc_size := 2; gc_time := false; gc_limit := 3600%Z; gc_try := true; gc_nproc := Some 1 |} ];
  sc_max_nodes := Some 1; sc_cpus := 4;
  sc_hooks := {| hk_setup := false; hk_teardown := false; hk_node_setup := false; hk_node_teardown := false |} |}.

Definition rw (j : N) (rc : Z) : row := {| rw_job := j; rw_rc := rc; rw_cancel := false |}.
Definition ex_tr : list event := [
  ECreate 1; ERound 1; ECollect 1 []; EMarkerTouch 1;
  ESbatch 1 1 0 [(0, []); (1, [0])] (Some 1) (Some 100);
  EUpdate 1 {| sn_jobs := [(0, (SUB, [])); (1, (SUB, [])); (2, (NS, []))]; sn_ids := [100]; sn_index := 2;
               sn_submitted := 2; sn_completed := 0 |};
  ECheckComplete 1 false; EMarkerRemove 1; EDemote 1;
  EBatchStart 100; ELaunch 100 0; EAppend 100 (rw 0 0); EUnblock 100 1 0; ELaunch 100 1; EAppend 100 (rw 1 0);
  ELoad 3 true true false false; ERound 3; ESqueue 3 [100]; ECollect 3 [rw 0 0; rw 1 0]; EMarkerTouch 3;
  EUpdate 3 {| sn_jobs := [(0, (DONE, [])); (1, (DONE, [])); (2, (NS, []))]; sn_ids := [100]; sn_index := 2;
               sn_submitted := 2; sn_completed := 2 |};
  ECheckComplete 3 false; EMarkerRemove 3; EDemote 3; EBatchEnd 100;
  ELoad 4 true true false false; ERound 4; ESqueue 4 []; ECollect 4 []; EMarkerTouch 4;
  ESbatch 4 2 0 [(2, [])] (Some 1) (Some 101);
  EUpdate 4 {| sn_jobs := [(0, (DONE, [])); (1, (DONE, [])); (2, (SUB, []))]; sn_ids := [101]; sn_index := 3;
               sn_submitted := 3; sn_completed := 2 |};
  ECheckComplete 4 false; EMarkerRemove 4; EDemote 4;
  EBatchStart 101; ELaunch 101 2; EAppend 101 (rw 2 2);
  ELoad 6 true true false false; ERound 6; ESqueue 6 [101]; ECollect 6 [rw 2 2]; EMarkerTouch 6;
  EUpdate 6 {| sn_jobs := [(0, (DONE, [])); (1, (DONE, [])); (2, (DONE, []))]; sn_ids := [101]; sn_index := 3;
               sn_submitted := 3; sn_completed := 3 |};
  ECheckComplete 6 true; EMarkerRemove 6; ESummary 6 [rw 0 0; rw 1 0; rw 2 2] []; EMarkComplete 6; EDemote 6;
  EBatchEnd 101 ].

Definition accepted (sc : scenario) (tr : list event) : bool :=
  match run sc tr with Some _ => true | None => false end.
Example ex_tr_accepted : accepted ex_sc ex_tr = true.
Proof. vm_compute. reflexivity. Qed.
(* the same submission with the first submitter killed between sbatch and the status update *)
Definition ex_tr_kill : list event := firstn 5 ex_tr ++ [EKill [1]; EBatchStart 100; ELaunch 100 0; EAppend 100 (rw 0 0);
  ELoad 3 true false false false; ELoad 9 true false false false].
Example ex_tr_kill_accepted : accepted ex_sc ex_tr_kill = true.
Proof. vm_compute. reflexivity. Qed.
