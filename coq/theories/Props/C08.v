(* C08 - results are collected exactly once under concurrent writers.
   Only statements here; every proof is `exact <lemma>`.

   The model (ResultsFiles.v): any number of appenders (each a list of (file, row) to append,
   to node batch files or directly to the processed file) and collectors (each a number of
   process_results rounds); `run (init acts) sch` executes the schedule `sch` - a list of
   (actor number, glob order) - one visible operation (lock acquire / release, open-append,
   glob, read, remove) per entry, and is `None` if an entry is not enabled.  The theorems
   quantify over ALL actor lists and ALL schedules.  `quiescent s`: no actor is inside a
   locked section.  Field list, delimiter and file names are GENERATED from /repo. *)
From Coq Require Import String Ascii List Bool NArith Arith Permutation.
From Jade Require Import Base Csv CsvProofs ResultsFiles ResultsFilesProofs.
From Jade.Gen Require Import ResultsFilesGen.
Import ListNotations.
Open Scope string_scope.

(* no loss, no duplication: whenever nobody is inside a locked section, the rows of the
   processed file together with the rows of the existing node files are exactly the rows
   appended so far (as multisets) *)
Theorem c08_exactly_once : forall acts s,
  Forall initial_actor acts -> reachable acts s -> quiescent s = true ->
  Permutation (proc_rows s ++ node_rows s) (map snd (log s)).
Proof. exact exactly_once. Qed.
Print Assumptions c08_exactly_once.

(* "appended so far" is tied to the appenders' programs: log + still-to-write = all rows *)
Theorem c08_log_is_progress : forall acts sch s ops,
  run (init acts) sch = Some (s, ops) ->
  Permutation (map snd (log s) ++ pending s) (program_rows acts).
Proof. exact log_is_progress. Qed.
Print Assumptions c08_log_is_progress.

(* the return values of all process_results rounds are exactly the rows moved into the processed
   file (the rest of it are the rows appended to it directly) *)
Theorem c08_reported_are_moved : forall acts s,
  Forall initial_actor acts -> reachable acts s -> quiescent s = true ->
  Permutation (proc_rows s) (direct (log s) ++ reported s).
Proof. exact reported_are_moved. Qed.
Print Assumptions c08_reported_are_moved.

(* every row appended to a node file is either still in a node file or in exactly one return
   value (multiset equality: never in two, never lost) *)
Theorem c08_reported_once : forall acts s,
  Forall initial_actor acts -> reachable acts s -> quiescent s = true ->
  Permutation (reported s ++ node_rows s) (node_log (log s)).
Proof. exact reported_once. Qed.
Print Assumptions c08_reported_once.

(* after all appenders have finished: any continuation in which at least one further collect
   round was started and which ends with nobody inside a locked section leaves no node file,
   every node row in exactly one return value and every row of the programs exactly once in the
   processed file *)
Theorem c08_final_collect : forall acts s sch s' ops,
  Forall initial_actor acts -> reachable acts s -> quiescent s = true -> appenders_done s = true ->
  run s sch = Some (s', ops) -> quiescent s' = true ->
  total_rounds (actors s') <> total_rounds (actors s) ->
  node_ids (files s') = [] /\
  Permutation (reported s') (node_log (log s')) /\
  Permutation (proc_rows s') (program_rows acts).
Proof. exact final_collect. Qed.
Print Assumptions c08_final_collect.

(* every file that exists, in every reachable state (also in the middle of locked sections), is
   the header followed by rows, reads back (csv.DictReader model) as exactly those rows, and
   every row's text parses into the fields that were written: no truncation, no mis-attribution *)
Theorem c08_parses : forall acts s f its,
  Forall initial_actor acts -> reachable acts s -> fget f (files s) = Some its ->
  exists rs, its = Hdr :: map Row rs /\ read_items its = Some rs /\
             Forall (fun r => parse_line delim (format_row r) = Some (row_fields r)) rs.
Proof. exact files_parse. Qed.
Print Assumptions c08_parses.

(* csv.writer (minimal quoting, empty line terminator) followed by csv.reader gives back exactly
   the fields, for all field texts without CR / LF (CPython 3.12 leaves those unquoted) *)
Theorem c08_csv_round_trip : forall d fs,
  delim_ok d -> Forall no_crlf fs -> parse_line d (format_line d fs) = Some fs.
Proof. exact parse_format_line. Qed.
Print Assumptions c08_csv_round_trip.

(* no process_results round ever raises (file missing / unparsable) *)
Theorem c08_no_failure : forall acts s i rounds pc acc failed rets,
  Forall initial_actor acts -> reachable acts s ->
  nth_error (actors s) i = Some (Col rounds pc acc failed rets) ->
  failed = false /\ Forall (fun o => o <> None) rets.
Proof. exact no_failure. Qed.
Print Assumptions c08_no_failure.

(* the soft locks exclude: two actors are never inside a locked section on the same file *)
Theorem c08_mutual_exclusion : forall acts s i j a b f,
  Forall initial_actor acts -> reachable acts s ->
  nth_error (actors s) i = Some a -> nth_error (actors s) j = Some b ->
  holds a f -> holds b f -> i = j.
Proof. exact mutual_exclusion. Qed.
Print Assumptions c08_mutual_exclusion.

(* ---------- non-vacuity: a concrete run ---------- *)
Definition ex_r1 := mkrow "a,b" "0" "finished" "1.5" "100.25" "None".
Definition ex_r2 := mkrow "q""x y" "-9" "canceled" "0.0" "100.5" "77".
Definition ex_r3 := mkrow "d" "1" "canceled" "0" "101.0" "None".
Definition ex_acts := [App [(Node 1, ex_r1); (Node 2, ex_r2)] AIdle; Col 2 CIdle [] false []; App [(Proc, ex_r3)] AIdle].
(* appender 0 writes r1; the collector globs [1]; appender 0 writes r2 while the collector moves
   file 1; appender 2 has to wait for the processed lock *)
Definition ex_sch1 : list label :=
  [(0, []); (0, []); (0, []); (1, []); (1, [1%N]); (0, []); (1, []); (1, []); (0, []); (1, []); (1, []); (1, []); (0, []);
   (1, []); (2, []); (2, []); (2, [])].
Definition ex_sch2 : list label :=
  [(1, []); (1, [2%N]); (1, []); (1, []); (1, []); (1, []); (1, []); (1, [])].

Example c08_ex_initial : Forall initial_actor ex_acts.
Proof. apply initial_actorb_spec. vm_compute. reflexivity. Qed.
Example c08_ex_run :
  option_map (fun p => (quiescent (fst p), appenders_done (fst p), proc_rows (fst p), node_rows (fst p), reported (fst p)))
             (run (init ex_acts) ex_sch1)
  = Some (true, true, [ex_r1; ex_r3], [ex_r2], [ex_r1]).
Proof. vm_compute. reflexivity. Qed.
Example c08_ex_final :
  option_map (fun p => (quiescent (fst p), proc_rows (fst p), node_ids (files (fst p)), reported (fst p)))
             (run (init ex_acts) (ex_sch1 ++ ex_sch2))
  = Some (true, [ex_r1; ex_r3; ex_r2], [], [ex_r1; ex_r2]).
Proof. vm_compute. reflexivity. Qed.
(* an acquire of a held lock is not enabled *)
Example c08_ex_blocked :
  run (init ex_acts) [(1, []); (2, [])] = None.
Proof. vm_compute. reflexivity. Qed.
Example c08_ex_csv :
  format_row ex_r2 = """q""""x y"",-9,canceled,0.0,100.5,77" /\
  parse_line delim (format_row ex_r2) = Some (row_fields ex_r2) /\ delim_ok delim.
Proof. vm_compute. repeat split; reflexivity. Qed.
