(* C08 - results are collected exactly once under concurrent writers.
   Only statements here; every proof is `exact <lemma>`. *)
From Coq Require Import String Ascii List Bool NArith Arith Permutation.
From Jade Require Import Base Csv CsvProofs ResultsFiles.
From Jade.Gen Require Import ResultsFilesGen.
Import ListNotations.
Open Scope string_scope.

(* csv.writer (minimal quoting, empty line terminator) followed by csv.reader gives back exactly
   the fields, for all field texts without CR / LF (CPython 3.12 leaves those unquoted). *)
Theorem c08_csv_round_trip : forall d fs,
  delim_ok d -> Forall no_crlf fs -> parse_line d (format_line d fs) = Some fs.
Proof. exact parse_format_line. Qed.
Print Assumptions c08_csv_round_trip.
