(* C07 - every batch respects its group's size/time limit and holds only its group's jobs; blockers;
   dry run.  Only statements here; every proof is `exact <lemma>` (lemmas in BatchProofs.v).

   Model: Batch.v (_BatchJobs.try_append / is_job_blocked, HpcSubmitter._make_batch,
   _get_available_jobs[_by_time], _submit_batches, the group loop of HpcSubmitter.run for a submission that
   is not canceled).  The comparison operators of try_append and JobQueue.is_full are GENERATED from the
   source (Gen/BatchGen.v).  All statements are for candidate lists, dependency sets, estimates and group
   parameter sets of any size.

   Reading guide:  submit_round depth out0 index0 oks groups ns = ROk r
     depth  = max_nodes (queue depth), out0 = batches still active when the round starts,
     index0 = persisted next batch index, oks = outcome of the successive sbatch calls (missing = success),
     groups = the submission groups in configuration order, ns = the NOT_SUBMITTED jobs in cluster order
     (jblocked = the REMAINING, unfinished blockers);  r_subs r = the batches handed to _submit_batch, in order.
   Hypotheses: job names are unique (NoDup (names ns)) and group names are unique (check_submission_groups
   rejects a group listed twice). *)
From Coq Require Import List ZArith NArith Bool Arith.
From Jade Require Import Base Batch BatchProofs.
Import ListNotations.
Open Scope Z_scope.

(* ------------------------------------------------------------------------------------------------ *)
(* one _make_batch call                                                                              *)
(* ------------------------------------------------------------------------------------------------ *)

(* no job twice; the not-checked rest is a suffix of the candidates and disjoint from the batch, the batch
   lies in the checked prefix; limit (time: unless empty; count: at most max(1, size)); a job with unfinished
   blockers is in the batch only with try_add_blocked_jobs and all of them in the same batch; the jobs
   reported blocked are not in the batch and do have unfinished blockers *)
Theorem c07_make_batch_contract : forall p avail, NoDup (names avail) ->
  let m := make_batch p avail in
  NoDup (names (mb_batch m)) /\
  (exists pre, avail = (pre ++ mb_rest m)%list /\ incl (mb_batch m) pre /\ incl (mb_blocked m) avail) /\
  (forall x, In x (names (mb_batch m)) -> ~ In x (names (mb_rest m))) /\
  (if g_time p then mb_batch m = [] \/ 60 * sum_est (mb_batch m) <= g_max p
   else (N.of_nat (length (mb_batch m)) <= N.max 1 (g_size p))%N) /\
  closed (mb_batch m) /\ blocked_only_if_try p (mb_batch m) /\
  (forall x, In x (mb_blocked m) -> ~ In (jname x) (names (mb_batch m)) /\ jblocked x <> []).
Proof. exact make_batch_contract. Qed.
Print Assumptions c07_make_batch_contract.

(* batch + blocked + rest cover the candidates: every candidate is placed, reported blocked, or handed
   back as not yet checked *)
Theorem c07_make_batch_cover : forall p avail, NoDup (names avail) ->
  forall x, In x avail ->
    In (jname x) (names (mb_batch (make_batch p avail))) \/ In x (mb_blocked (make_batch p avail)) \/
    In x (mb_rest (make_batch p avail)).
Proof. exact make_batch_cover. Qed.
Print Assumptions c07_make_batch_cover.

(* a call on a non-empty candidate list consumes at least one candidate when every estimate fits an
   empty batch (check_job_runtimes); without the hypothesis the real while loop does not terminate *)
Theorem c07_make_batch_progress : forall p avail,
  avail <> [] -> (forall j, In j avail -> g_time p = true -> 60 * jest j <= g_max p) ->
  (length (mb_rest (make_batch p avail)) < length avail)%nat.
Proof. exact make_batch_progress. Qed.
Print Assumptions c07_make_batch_progress.

(* ------------------------------------------------------------------------------------------------ *)
(* every batch of a submitter round                                                                  *)
(* ------------------------------------------------------------------------------------------------ *)

Theorem c07_batch_nonempty : forall depth out0 index0 oks groups ns r s,
  NoDup (names ns) -> NoDup (map g_name groups) ->
  submit_round depth out0 index0 oks groups ns = ROk r -> In s (r_subs r) -> sb_jobs s <> [].
Proof. exact round_batch_nonempty. Qed.
Print Assumptions c07_batch_nonempty.

(* count-based: 1 <= |batch| <= max(1, per_node_batch_size), hence <= per_node_batch_size when that is >= 1 *)
Theorem c07_batch_size_limit : forall depth out0 index0 oks groups ns r s g,
  NoDup (names ns) -> NoDup (map g_name groups) ->
  submit_round depth out0 index0 oks groups ns = ROk r -> In s (r_subs r) ->
  In g groups -> sb_group s = g_name g -> g_time g = false ->
  (1 <= N.of_nat (length (sb_jobs s)) <= N.max 1 (g_size g))%N /\
  ((1 <= g_size g)%N -> (N.of_nat (length (sb_jobs s)) <= g_size g)%N).
Proof. exact round_batch_size. Qed.
Print Assumptions c07_batch_size_limit.

(* time-based: 60 * sum of estimated minutes <= walltime seconds * processes per node (g_max) *)
Theorem c07_batch_time_limit : forall depth out0 index0 oks groups ns r s g,
  NoDup (names ns) -> NoDup (map g_name groups) ->
  submit_round depth out0 index0 oks groups ns = ROk r -> In s (r_subs r) ->
  In g groups -> sb_group s = g_name g -> g_time g = true ->
  60 * sum_est (sb_jobs s) <= g_max g.
Proof. exact round_batch_time. Qed.
Print Assumptions c07_batch_time_limit.

(* the batch is submitted under the name of a configured group, and all its jobs are NOT_SUBMITTED jobs of
   exactly that group *)
Theorem c07_batch_single_group : forall depth out0 index0 oks groups ns r s,
  NoDup (names ns) -> NoDup (map g_name groups) ->
  submit_round depth out0 index0 oks groups ns = ROk r -> In s (r_subs r) ->
  (exists g, In g groups /\ sb_group s = g_name g) /\
  forall x, In x (sb_jobs s) -> In x ns /\ jgroup x = sb_group s.
Proof. exact round_batch_single_group. Qed.
Print Assumptions c07_batch_single_group.

Theorem c07_batch_no_job_twice : forall depth out0 index0 oks groups ns r s,
  NoDup (names ns) -> NoDup (map g_name groups) ->
  submit_round depth out0 index0 oks groups ns = ROk r -> In s (r_subs r) -> NoDup (names (sb_jobs s)).
Proof. exact round_batch_nodup. Qed.
Print Assumptions c07_batch_no_job_twice.

(* a job with unfinished blockers is in a batch only if its group has try_add_blocked_jobs and all its
   unfinished blockers are in the same batch *)
Theorem c07_batch_blockers_closed : forall depth out0 index0 oks groups ns r s g,
  NoDup (names ns) -> NoDup (map g_name groups) ->
  submit_round depth out0 index0 oks groups ns = ROk r -> In s (r_subs r) ->
  In g groups -> sb_group s = g_name g ->
  forall x, In x (sb_jobs s) -> jblocked x <> [] ->
            g_try g = true /\ forall d, In d (jblocked x) -> In d (names (sb_jobs s)).
Proof. exact round_batch_blockers. Qed.
Print Assumptions c07_batch_blockers_closed.

(* everything at once: the parameters that shaped a batch are those of the group it is submitted for *)
Theorem c07_batch_params_of_group : forall depth out0 index0 oks groups ns r s g,
  NoDup (names ns) -> NoDup (map g_name groups) ->
  submit_round depth out0 index0 oks groups ns = ROk r -> In s (r_subs r) ->
  In g groups -> sb_group s = g_name g ->
  sb_jobs s <> [] /\ incl (sb_jobs s) (available g ns) /\ NoDup (names (sb_jobs s)) /\ limit_ok g (sb_jobs s) /\
  closed (sb_jobs s) /\ blocked_only_if_try g (sb_jobs s) /\ (g_dry g = true -> sb_ok s = true).
Proof. exact round_batch_props. Qed.
Print Assumptions c07_batch_params_of_group.

(* ------------------------------------------------------------------------------------------------ *)
(* the round as a whole                                                                              *)
(* ------------------------------------------------------------------------------------------------ *)

(* across all batches and groups of a round no job is placed twice, all are NOT_SUBMITTED jobs, and
   submitted_jobs is exactly the concatenation of the batches *)
Theorem c07_round_disjoint : forall depth out0 index0 oks groups ns r,
  NoDup (names ns) -> NoDup (map g_name groups) ->
  submit_round depth out0 index0 oks groups ns = ROk r ->
  NoDup (names (subs_jobs (r_subs r))) /\ incl (subs_jobs (r_subs r)) ns /\ r_submitted r = subs_jobs (r_subs r).
Proof. exact submit_round_disjoint. Qed.
Print Assumptions c07_round_disjoint.

Theorem c07_round_pairwise_disjoint : forall depth out0 index0 oks groups ns r l1 s1 l2 s2 l3,
  NoDup (names ns) -> NoDup (map g_name groups) ->
  submit_round depth out0 index0 oks groups ns = ROk r ->
  r_subs r = (l1 ++ s1 :: l2 ++ s2 :: l3)%list ->
  forall x, In x (names (sb_jobs s1)) -> ~ In x (names (sb_jobs s2)).
Proof. exact round_batches_pairwise_disjoint. Qed.
Print Assumptions c07_round_pairwise_disjoint.

(* batch indices are index0, index0+1, ... in order, pairwise different, and the index persisted afterwards
   is the first unused one *)
Theorem c07_batch_index_fresh : forall depth out0 index0 oks groups ns r,
  NoDup (names ns) -> NoDup (map g_name groups) ->
  submit_round depth out0 index0 oks groups ns = ROk r ->
  map sb_index (r_subs r) = nseq index0 (length (r_subs r)) /\
  r_index r = (index0 + N.of_nat (length (r_subs r)))%N /\
  NoDup (map sb_index (r_subs r)) /\
  (forall s, In s (r_subs r) -> (index0 <= sb_index s < r_index r)%N).
Proof. exact batch_index_fresh. Qed.
Print Assumptions c07_batch_index_fresh.

(* at most max_nodes - (still active) batches are successfully queued *)
Theorem c07_round_slots : forall depth out0 index0 oks groups ns r,
  NoDup (names ns) -> NoDup (map g_name groups) ->
  submit_round depth out0 index0 oks groups ns = ROk r ->
  r_out r = (out0 + N.of_nat (count_ok (r_subs r)))%N /\
  (N.of_nat (count_ok (r_subs r)) <= depth - out0)%N.
Proof. exact submit_round_slots. Qed.
Print Assumptions c07_round_slots.

(* the while loop of _submit_batches terminates within |candidates|+1 iterations when every estimate of a
   time-based group fits an empty batch *)
Theorem c07_round_fuel : forall depth out0 index0 oks groups ns,
  (forall g, In g groups -> fits g (available g ns)) ->
  submit_round depth out0 index0 oks groups ns <> ROutOfFuel.
Proof. exact submit_round_fuel. Qed.
Print Assumptions c07_round_fuel.

(* maximality: a round that ends with free slots has placed every NOT_SUBMITTED job of every listed group
   that has no unfinished blocker *)
Theorem c07_round_maximal : forall depth out0 index0 oks groups ns r,
  NoDup (names ns) -> NoDup (map g_name groups) ->
  submit_round depth out0 index0 oks groups ns = ROk r ->
  is_full depth r = true \/
  forall g x, In g groups -> In x ns -> jgroup x = g_name g -> jblocked x = [] ->
              In (jname x) (names (subs_jobs (r_subs r))).
Proof. exact submit_round_maximal. Qed.
Print Assumptions c07_round_maximal.

(* ------------------------------------------------------------------------------------------------ *)
(* dry run                                                                                           *)
(* ------------------------------------------------------------------------------------------------ *)

Theorem c07_make_batch_ignores_dry_run : forall d p avail, make_batch (set_dry d p) avail = make_batch p avail.
Proof. exact make_batch_dry. Qed.
Print Assumptions c07_make_batch_ignores_dry_run.

(* with dry_run the round builds exactly the batches (index, group, jobs, order; also submitted_jobs,
   blocked_jobs, next index) of the same round without dry_run in which every sbatch succeeds, and the sbatch
   outcome list is not consumed *)
Theorem c07_dry_run_same_batches : forall depth out0 index0 oks groups ns r,
  Forall (fun g => g_dry g = true) groups ->
  submit_round depth out0 index0 oks groups ns = ROk r ->
  submit_round depth out0 index0 [] (map (set_dry false) groups) ns = ROk (erase_oks r) /\
  r_oks r = oks.
Proof. exact dry_run_same_batches. Qed.
Print Assumptions c07_dry_run_same_batches.

Theorem c07_dry_run_no_sbatch : forall depth out0 index0 oks groups ns r,
  NoDup (names ns) -> NoDup (map g_name groups) -> Forall (fun g => g_dry g = true) groups ->
  submit_round depth out0 index0 oks groups ns = ROk r ->
  r_oks r = oks /\ forall s, In s (r_subs r) -> sb_ok s = true.
Proof. exact dry_run_no_sbatch. Qed.
Print Assumptions c07_dry_run_no_sbatch.

(* ------------------------------------------------------------------------------------------------ *)
(* non-vacuity: a concrete round satisfying every hypothesis above                                   *)
(* ------------------------------------------------------------------------------------------------ *)
Definition ex_job n b e g := {| jname := n; jblocked := b; jest := e; jgroup := g |}.
(* group 1: count-based, 3 per node; group 2: time-based, 10 minutes x 1 process; both try-add-blocked *)
Definition ex_g1 := {| g_name := 1; g_size := 3; g_time := false; g_max := 0; g_try := true; g_dry := false |}.
Definition ex_g2 := {| g_name := 2; g_size := 500; g_time := true; g_max := 600; g_try := true; g_dry := false |}.
(* job 2 is listed before its blocker 1; job 7 waits for job 9 of an earlier batch; 4 (3 min) is blocked by
   6 (5 min) and listed first: the family of the repaired double placement *)
Definition ex_ns := [ex_job 2 [1%N] 1 1; ex_job 1 [] 1 1; ex_job 3 [] 1 1; ex_job 4 [6%N] 3 2;
                     ex_job 5 [] 4 2; ex_job 6 [] 5 2; ex_job 7 [9%N] 1 1]%N.
Definition ex_view (x : round_result) :=
  match x with
  | ROk r => Some (map (fun s => (sb_index s, sb_group s, names (sb_jobs s), sb_ok s)) (r_subs r),
                   r_out r, r_index r, names (r_blocked r), r_oks r)
  | ROutOfFuel => None
  end.

Example c07_ex_hypotheses :
  NoDup (names ex_ns) /\ NoDup (map g_name [ex_g1; ex_g2]) /\
  (forall g, In g [ex_g1; ex_g2] -> fits g (available g ex_ns)).
Proof.
  split; [apply nodupbN_spec; vm_compute; reflexivity|]. split; [apply nodupbN_spec; vm_compute; reflexivity|].
  intros g [<-|[<-|[]]] j Hj Ht; [discriminate Ht|].
  vm_compute in Hj. decompose [or] Hj; subst; try contradiction; vm_compute; discriminate.
Qed.

(* 4 nodes, 1 batch still active, next index 5, second sbatch fails: batch 5 = group 1 {1,3,2} (2 rides with
   its blocker), batch 6 = group 2 {5,6} (9 of 10 minutes; 4 does not fit and is reported blocked) *)
Example c07_ex_round :
  ex_view (submit_round 4 1 5 [true; false] [ex_g1; ex_g2] ex_ns) =
  Some ([(5, 1, [1; 3; 2], true); (6, 2, [5; 6], false)], 2, 7, [7; 4], [])%N.
Proof. vm_compute. reflexivity. Qed.

(* the same round with dry_run: same batches, both count as queued, the sbatch outcomes are untouched *)
Example c07_ex_dry_round :
  ex_view (submit_round 4 1 5 [true; false] (map (set_dry true) [ex_g1; ex_g2]) ex_ns) =
  Some ([(5, 1, [1; 3; 2], true); (6, 2, [5; 6], true)], 3, 7, [7; 4], [true; false])%N.
Proof. vm_compute. reflexivity. Qed.

(* the queue fills up: with one free slot only the first batch is built *)
Example c07_ex_full :
  ex_view (submit_round 2 1 5 [] [ex_g1; ex_g2] ex_ns) = Some ([(5, 1, [1; 3; 2], true)], 2, 6, [7], [])%N.
Proof. vm_compute. reflexivity. Qed.
