(* C06, system level: at EVERY instant of EVERY accepted trace (all interleavings of batch
   start/finish with submitter rounds on any number of nodes; kills and failures included) the number
   of this submission's batches queued or running is at most max-nodes, and on each node the number of
   running job processes is at most min(#jobs of the batch, processes-per-node or CPU count). *)
From Coq Require Import List ZArith NArith Bool.
From Jade Require Import Base System SystemMonitors SystemProofs SystemInv SystemLimits SystemTheorems.
From Jade.Props Require Import SysExamples.
Import ListNotations.
Open Scope N_scope.

Theorem c06_nodes_every_instant : forall sc tr s, run sc tr = Some s ->
  forall m, sc_max_nodes sc = Some m -> N.of_nat (length (act_ids (hpc s))) <= m.
Proof. exact c06_system. Qed.
Print Assumptions c06_nodes_every_instant.

Theorem c06_nodes_monitor : forall sc tr s, run sc tr = Some s -> c06_ok sc tr = true.
Proof. exact c06_accepted. Qed.
Print Assumptions c06_nodes_monitor.

Theorem c06_procs_every_instant : forall sc tr s, run sc tr = Some s ->
  forall n, In n (nodes s) -> N.of_nat (length (n_running n)) <= n_depth n.
Proof. exact c06_procs_accepted. Qed.
Print Assumptions c06_procs_every_instant.

Example c06_system_nonvacuous : accepted ex_sc ex_tr = true /\ sc_max_nodes ex_sc = Some 1 /\ c06_ok ex_sc ex_tr = true
  /\ c06p_ok ex_sc ex_tr = true.
Proof. vm_compute. auto. Qed.
