(* C13 - resubmission reruns exactly the selected jobs and their dependents.
   Only statements here; every proof is `exact <lemma>` (ResubmitProofs.v).  Model: Resubmit.v. *)
From Coq Require Import List ZArith NArith Bool Arith.
From Jade Require Import Base Resubmit ResubmitProofs.
Import ListNotations.

(* Which jobs the flags select, for every results file and every job list: failed/canceled rows
   (--failed), successful rows (--successful), jobs without a row (--missing); nothing else. *)
Theorem c13_selected : forall failed missing successful results jobs x,
  let d := results_dict results in
  In x (selected failed missing successful results jobs) <->
    (failed = true /\ exists r, In r d /\ r_name r = x /\ (is_failed r = true \/ is_canceled r = true)) \/
    (successful = true /\ exists r, In r d /\ r_name r = x /\ is_successful r = true) \/
    (missing = true /\ In x jobs /\ ~ In x (map r_name d)).
Proof. exact selected_spec. Qed.
Print Assumptions c13_selected.

(* with one result per job (a completed submission) the dict built from results.json is the list *)
Theorem c13_results_dict_id : forall rows, NoDup (map r_name rows) -> results_dict rows = rows.
Proof. exact results_dict_id. Qed.
Print Assumptions c13_results_dict_id.

(* The loop of _update_with_blocking_jobs, for every configuration (any size, any listing order,
   any dependency relation - cycles included) and every selection inside the configuration:
   it ends without tripping its assertion, and the set it leaves in `jobs_to_resubmit` is the LEAST
   set that contains the selected jobs and is closed under "is blocked by a member"; the dict it
   returns maps every job to (its configured blockers) /\ (that set). *)
Theorem c13_closure : forall jobs sel, incl sel (names jobs) ->
  exists s d, closure jobs sel = ClOk (s, d) /\
    NoDup s /\
    (forall x, In x sel -> In x s) /\
    closed jobs (fun x => In x s) /\
    (forall P : N -> Prop, (forall x, In x sel -> P x) -> closed jobs P -> forall x, In x s -> P x) /\
    (NoDup (names jobs) -> forall j, In j jobs -> new_blockers d (cj_name j) = interN (cj_deps j) s).
Proof. exact closure_least. Qed.
Print Assumptions c13_closure.

Theorem c13_closure_assert_unreachable : forall jobs sel, incl sel (names jobs) ->
  forall i a f, closure jobs sel <> ClAssert i a f.
Proof. exact closure_no_assert. Qed.
Print Assumptions c13_closure_assert_unreachable.

(* blockers after the reset (closure + prepare_for_resubmission): a rerun job is NOT_SUBMITTED, its
   blocked_by is exactly (configured blockers) /\ (rerun set), and every one of those blockers is
   itself a rerun job that is NOT_SUBMITTED again. *)
Theorem c13_blockers_reset : forall jobs sel s d c c',
  incl sel (names jobs) -> NoDup (names jobs) -> closure jobs sel = ClOk (s, d) ->
  map s_name (c_jobs c) = names jobs ->
  prepare c s d = Some c' ->
  forall j, In j (c_jobs c') -> In (s_name j) s ->
    s_state j = NOT_SUBMITTED /\
    (forall cj, In cj jobs -> cj_name cj = s_name j -> s_blocked j = interN (cj_deps cj) s) /\
    (forall b, In b (s_blocked j) -> In b s /\
       exists jb, In jb (c_jobs c') /\ s_name jb = b /\ s_state jb = NOT_SUBMITTED).
Proof. exact prepared_blockers_pending. Qed.
Print Assumptions c13_blockers_reset.

(* clear_results_for_resubmission keeps exactly the rows of jobs that are not rerun, in their order,
   with the same name, return code, status, execution time, completion time (and HPC id when there
   was one; a None id is re-read as the empty string - `rewrite_row`). *)
Theorem c13_results_preserved : forall rows rerun r',
  In r' (clear_results rows rerun) <-> exists r, In r rows /\ ~ In (r_name r) rerun /\ r' = rewrite_row r.
Proof. exact clear_results_spec. Qed.
Print Assumptions c13_results_preserved.

Theorem c13_results_fields_unchanged : forall r,
  r_name (rewrite_row r) = r_name r /\ r_rc (rewrite_row r) = r_rc r /\ r_status (rewrite_row r) = r_status r /\
  r_exec (rewrite_row r) = r_exec r /\ r_ctime (rewrite_row r) = r_ctime r /\
  (forall h, r_hpc r = Some h -> r_hpc (rewrite_row r) = Some h).
Proof. exact rewrite_row_fields. Qed.
Print Assumptions c13_results_fields_unchanged.

Theorem c13_results_order_and_uniqueness : forall rows rerun,
  map r_name (clear_results rows rerun) = filter (fun n => negb (memN n rerun)) (map r_name rows) /\
  (NoDup (map r_name rows) -> NoDup (map r_name (clear_results rows rerun))).
Proof. exact (fun rows rerun => conj (clear_results_names rows rerun) (clear_results_nodup rows rerun)). Qed.
Print Assumptions c13_results_order_and_uniqueness.

(* prepare_for_resubmission: states and counters *)
Theorem c13_prepare : forall c rerun d, c_complete c = true ->
  exists c', prepare c rerun d = Some c' /\
    c_complete c' = false /\ c_canceled c' = false /\ c_submitter c' = c_submitter c /\ c_num c' = c_num c /\ c_groups c' = c_groups c /\
    c_submitted c' = Z.of_nat (length (filter (fun j => negb (memN (s_name j) rerun) && negb (jstate_eqb (s_state j) NOT_SUBMITTED)) (c_jobs c))) /\
    c_completed c' = Z.of_nat (length (filter (fun j => negb (memN (s_name j) rerun) && jstate_eqb (s_state j) DONE) (c_jobs c))) /\
    c_jobs c' = map (prep_job rerun d) (c_jobs c) /\
    map s_name (c_jobs c') = map s_name (c_jobs c).
Proof. exact prepare_spec. Qed.
Print Assumptions c13_prepare.

(* whatever was canceled before: the state handed to the submitter lets rounds submit again *)
Theorem c13_reset_clears_canceled : forall c rerun d c',
  prepare c rerun d = Some c' -> round_may_submit c' = true.
Proof. exact prepare_clears_canceled. Qed.
Print Assumptions c13_reset_clears_canceled.

(* Which jobs the next submitter rounds can put into batches after the reset: exactly the rerun set.
   HYPOTHESIS (explicit, see c13_offered_exact_refuted): every job outside the rerun set is SUBMITTED or
   DONE when the command runs.  It excludes the known finding
   `unselected-never-submitted-jobs-launched-after-cancel`: on a submission canceled by cancel-jobs,
   jobs that were never submitted stay NOT_SUBMITTED; if the flags do not select them (--no-missing)
   they are nevertheless offered and launched once the reset has cleared the canceled flag. *)
Theorem c13_offered_exact : forall c rerun d c',
  prepare c rerun d = Some c' ->
  (forall j, In j (c_jobs c) -> ~ In (s_name j) rerun -> s_state j <> NOT_SUBMITTED) ->
  forall x, In x (offered c') <-> In x rerun /\ In x (map s_name (c_jobs c)).
Proof. exact offered_exact. Qed.
Print Assumptions c13_offered_exact.

(* without the hypothesis the statement is false of the code (known finding): user-canceled submission,
   job 1 failed, jobs 2 and 3 never submitted; `resubmit-jobs --failed --no-missing`: rerun set = {1},
   but 2 and 3 are offered too (NOT_SUBMITTED, no blockers, and rounds may submit again) *)
Theorem c13_offered_exact_refuted : exists c rerun d c',
  c_complete c = true /\ c_canceled c = true /\ prepare c rerun d = Some c' /\ round_may_submit c' = true /\
  exists j, In j (c_jobs c') /\ s_state j = NOT_SUBMITTED /\ s_blocked j = [] /\ In (s_name j) (offered c') /\
            ~ In (s_name j) rerun.
Proof.
  exists {| c_submitter := Some 77%N; c_complete := true; c_canceled := true; c_num := 3; c_submitted := 1;
            c_completed := 1; c_groups := [(1, 1)]%N;
            c_jobs := [ {| s_name := 1; s_state := DONE; s_blocked := [] |};
                        {| s_name := 2; s_state := NOT_SUBMITTED; s_blocked := [] |};
                        {| s_name := 3; s_state := NOT_SUBMITTED; s_blocked := [] |} ]%N |}, [1%N], [].
  eexists. split; [reflexivity|]. split; [reflexivity|]. split; [reflexivity|]. split; [reflexivity|].
  exists {| s_name := 2%N; s_state := NOT_SUBMITTED; s_blocked := [] |}.
  split; [cbn; tauto|]. split; [reflexivity|]. split; [reflexivity|]. split; [cbn; tauto|].
  cbn. intros [H|[]]. discriminate H.
Qed.
Print Assumptions c13_offered_exact_refuted.

Theorem c13_prepare_untouched : forall rerun d j, ~ In (s_name j) rerun -> prep_job rerun d j = j.
Proof. exact prep_job_other. Qed.
Print Assumptions c13_prepare_untouched.

(* the counters written by the reset describe the job table written with them: submitted = jobs that
   are not NOT_SUBMITTED, completed = DONE jobs, 0 <= completed <= submitted <= num_jobs *)
Theorem c13_prepare_counters : forall c rerun d c',
  prepare c rerun d = Some c' ->
  c_submitted c' = Z.of_nat (length (filter (fun j => negb (jstate_eqb (s_state j) NOT_SUBMITTED)) (c_jobs c'))) /\
  c_completed c' = Z.of_nat (length (filter (fun j => jstate_eqb (s_state j) DONE) (c_jobs c'))) /\
  (0 <= c_completed c' <= c_submitted c')%Z /\
  (c_num c = Z.of_nat (length (c_jobs c)) -> (c_submitted c' <= c_num c')%Z).
Proof. exact prepare_counters. Qed.
Print Assumptions c13_prepare_counters.

(* the command on a submission that is not complete: exit 1 and NOTHING changes (jobs, results,
   counters, groups, submitter role), whoever holds the role, whatever the flags *)
Theorem c13_refuses_incomplete : forall me fl ms su gf f sub se w,
  c_complete (w_cluster w) = false -> resubmit me fl ms su gf f sub se w = (Exit 1, w).
Proof. exact refuses_incomplete. Qed.
Print Assumptions c13_refuses_incomplete.

(* complete, but the role is taken: the command stops at `assert promoted`, nothing changes *)
Theorem c13_held_role_untouched : forall me fl ms su gf f sub se w h,
  c_complete (w_cluster w) = true -> c_submitter (w_cluster w) = Some h ->
  resubmit me fl ms su gf f sub se w = (AssertPromoted, w).
Proof. exact held_role_untouched. Qed.
Print Assumptions c13_held_role_untouched.

(* a failure never leaves results pruned AND the submitter role taken, unless an exception was
   injected (I/O error) between the pruning and the try block; in particular a missing events
   directory, a failing JobSubmitter.load and a failing submit_jobs all end with the role released,
   so `jade try-submit-jobs` / another `resubmit-jobs` can continue *)
Theorem c13_failure_recoverable : forall me fl ms su gf f sub se w o w',
  (forall x, c_submitter (w_cluster (sub x)) = c_submitter (w_cluster x)) ->
  resubmit me fl ms su gf f sub se w = (o, w') ->
  pruned w w' -> ~ role_free w' -> (f = FPrepare \/ f = FEvents) \/ c_submitter (w_cluster w) <> None.
Proof. exact failure_recoverable. Qed.
Print Assumptions c13_failure_recoverable.

(* the normal path, with or without an events directory *)
Theorem c13_normal_path : forall me fl ms su sub se w,
  (forall x, c_submitter (w_cluster (sub x)) = c_submitter (w_cluster x)) ->
  c_complete (w_cluster w) = true -> c_submitter (w_cluster w) = None ->
  let sel := selected fl ms su (w_results w) (map s_name (c_jobs (w_cluster w))) in
  incl sel (names (w_config w)) ->
  exists rerun d c3,
    closure (w_config w) sel = ClOk (rerun, d) /\
    prepare (set_submitter (Some me) (w_cluster w)) rerun d = Some c3 /\
    let w4 := {| w_cluster := c3; w_rows := clear_results (w_rows w) rerun; w_results := w_results w;
                 w_config := w_config w;
                 w_events := match w_events w with Some _ => Some [] | None => None end |} in
    resubmit me fl ms su None FNone sub se w =
      (Exit se, with_cluster (set_submitter None (w_cluster (sub w4))) (sub w4)).
Proof. exact resubmit_normal. Qed.
Print Assumptions c13_normal_path.

(* ---------- non-vacuity / witnesses ---------- *)
(* 5 jobs listed in REVERSE dependency order: 5 <- 4 <- 3 <- 2 <- 1 (k+1 blocked by k), job 1 selected:
   needs all 5 iterations (4 adding rounds + the closing one), result = everything, blockers = chain *)
Example c13_ex_reverse_chain :
  closure (rev_chain 5) [1%N] =
  ClOk ([1; 2; 3; 4; 5]%N, [(2, [1]); (3, [2]); (4, [3]); (5, [4])]%N).
Proof. vm_compute. reflexivity. Qed.

(* a job examined before its second blocker joined the set is re-examined: final value is the full
   intersection.  3 blocked by {1,2}; 2 blocked by 1; listed 3,2,1; selected {1}. *)
Example c13_ex_late_blocker :
  closure [{| cj_name := 3; cj_deps := [1; 2] |}; {| cj_name := 2; cj_deps := [1] |}; {| cj_name := 1; cj_deps := [] |}]%N [1%N]
  = ClOk ([1; 3; 2]%N, [(3, [1; 2]); (2, [1])]%N).
Proof. vm_compute. reflexivity. Qed.

(* the hypothesis `incl sel (names jobs)` of c13_closure is needed: a selected name that is not a
   job of the configuration makes the assertion fire (1 job blocked by the foreign name) *)
Example c13_ex_assert_needs_hypothesis :
  closure [{| cj_name := 1%N; cj_deps := [9%N] |}] [9%N] = ClAssert 0 1 1.
Proof. exact closure_assert_outside. Qed.

Example c13_ex_empty : closure [] [] = ClOk ([], []).
Proof. vm_compute. reflexivity. Qed.

Definition ex_rows : list row :=
  [ {| r_name := 1; r_rc := 1; r_status := 0; r_exec := 5; r_ctime := 100; r_hpc := Some 7%N |};
    {| r_name := 2; r_rc := 1; r_status := 1; r_exec := 0; r_ctime := 101; r_hpc := None |};
    {| r_name := 3; r_rc := 0; r_status := 0; r_exec := 6; r_ctime := 102; r_hpc := Some 8%N |};
    {| r_name := 4; r_rc := 0; r_status := 0; r_exec := 7; r_ctime := 103; r_hpc := Some 8%N |} ]%N%Z.
Definition ex_config : list cjob :=
  [ {| cj_name := 1; cj_deps := [] |}; {| cj_name := 2; cj_deps := [1] |}; {| cj_name := 3; cj_deps := [2] |};
    {| cj_name := 4; cj_deps := [] |}; {| cj_name := 5; cj_deps := [4] |} ]%N.
Definition ex_cluster (sub : option N) (complete : bool) : cluster :=
  {| c_submitter := sub; c_complete := complete; c_canceled := false; c_num := 5; c_submitted := 5; c_completed := 4;
     c_groups := [(1, 1)]%N;
     c_jobs := [ {| s_name := 1; s_state := DONE; s_blocked := [] |}; {| s_name := 2; s_state := DONE; s_blocked := [] |};
                 {| s_name := 3; s_state := DONE; s_blocked := [] |}; {| s_name := 4; s_state := DONE; s_blocked := [] |};
                 {| s_name := 5; s_state := SUBMITTED; s_blocked := [] |} ]%N |}.
Definition ex_world (sub : option N) (complete : bool) (ev : option (list N)) : world :=
  {| w_cluster := ex_cluster sub complete; w_rows := ex_rows; w_results := ex_rows; w_config := ex_config; w_events := ev |}.

(* default flags on: 1 failed, 2 canceled, 3 and 4 successful, 5 missing; no events directory.
   Rerun = {1,2,5} + dependent 3; row of job 4 survives; role released; counters submitted 1 / completed 1. *)
Example c13_ex_command_default_flags_no_events_dir :
  resubmit 77 true true false None FNone (fun w => w) 0 (ex_world None true None) =
  (Exit 0,
   {| w_cluster := {| c_submitter := None; c_complete := false; c_canceled := false; c_num := 5; c_submitted := 1; c_completed := 1;
                      c_groups := [(1, 1)]%N;
                      c_jobs := [ {| s_name := 1; s_state := NOT_SUBMITTED; s_blocked := [] |};
                                  {| s_name := 2; s_state := NOT_SUBMITTED; s_blocked := [1] |};
                                  {| s_name := 3; s_state := NOT_SUBMITTED; s_blocked := [2] |};
                                  {| s_name := 4; s_state := DONE; s_blocked := [] |};
                                  {| s_name := 5; s_state := NOT_SUBMITTED; s_blocked := [] |} ]%N |};
      w_rows := [ {| r_name := 4; r_rc := 0; r_status := 0; r_exec := 7; r_ctime := 103; r_hpc := Some 8%N |} ]%N%Z;
      w_results := ex_rows; w_config := ex_config; w_events := None |}).
Proof. vm_compute. reflexivity. Qed.

(* incomplete + another host is submitter: refused, nothing changes (the D5 situation) *)
Example c13_ex_refuse_foreign_submitter :
  resubmit 77 true true false None FNone (fun w => w) 0 (ex_world (Some 5%N) false None) = (Exit 1, ex_world (Some 5%N) false None).
Proof. vm_compute. reflexivity. Qed.

(* JobSubmitter.load fails after the pruning: role released *)
Example c13_ex_load_fails :
  c_submitter (w_cluster (snd (resubmit 77 true true false None FLoad (fun w => w) 0 (ex_world None true (Some [1%N]))))) = None
  /\ fst (resubmit 77 true true false None FLoad (fun w => w) 0 (ex_world None true (Some [1%N]))) = Raised FLoad.
Proof. vm_compute. split; reflexivity. Qed.

(* a submission canceled with cancel-jobs and then completed (1 failed, 2 and 3 never submitted):
   after resubmit-jobs the canceled flag is gone, so the next submitter round may submit again
   (before commit 34e0409 the flag stayed: results erased and nothing rerun) *)
Example c13_ex_canceled_submission :
  let w := {| w_cluster := {| c_submitter := None; c_complete := true; c_canceled := true; c_num := 3; c_submitted := 1;
                              c_completed := 1; c_groups := [(1, 1)]%N;
                              c_jobs := [ {| s_name := 1; s_state := DONE; s_blocked := [] |};
                                          {| s_name := 2; s_state := NOT_SUBMITTED; s_blocked := [] |};
                                          {| s_name := 3; s_state := NOT_SUBMITTED; s_blocked := [] |} ]%N |};
              w_rows := [ {| r_name := 1; r_rc := 1; r_status := 0; r_exec := 5; r_ctime := 100; r_hpc := Some 100%N |} ]%N%Z;
              w_results := [ {| r_name := 1; r_rc := 1; r_status := 0; r_exec := 5; r_ctime := 100; r_hpc := Some 100%N |} ]%N%Z;
              w_config := [ {| cj_name := 1; cj_deps := [] |}; {| cj_name := 2; cj_deps := [] |}; {| cj_name := 3; cj_deps := [] |} ]%N;
              w_events := None |} in
  let r := resubmit 77 true true false None FNone (fun w => w) 0 w in
  fst r = Exit 0 /\ round_may_submit (w_cluster (snd r)) = true /\ w_rows (snd r) = [] /\
  map s_state (c_jobs (w_cluster (snd r))) = [NOT_SUBMITTED; NOT_SUBMITTED; NOT_SUBMITTED] /\
  c_submitted (w_cluster (snd r)) = 0%Z.
Proof. vm_compute. repeat split. Qed.

(* the window that remains: an I/O error while the cluster state is rewritten or while the old
   event files are deleted leaves the role taken and the rows pruned (limit of c13_failure_recoverable) *)
Example c13_ex_window_fault :
  c_submitter (w_cluster (snd (resubmit 77 true true false None FEvents (fun w => w) 0 (ex_world None true (Some [1%N]))))) = Some 77%N.
Proof. vm_compute. reflexivity. Qed.
