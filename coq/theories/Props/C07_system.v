(* C07 at system level (System.v): every batch that an accepted trace hands to sbatch - in any round, by
   any process, after any faults - satisfies the batch contract on what was really written to
   config_batch_N.json: non-empty, no job twice, all jobs of the one submission group it is submitted
   for and not yet submitted, within the size limit (or, with time-based batching, the estimated minutes
   within walltime x processes), every unfinished blocker listed for a job is inside the batch and only
   if try-add-blocked is on, and the processes-per-node option of the run script is the group's.  The
   acceptor demands it of every ESbatch (guard valid_batch), so every impl trace is checked against it;
   Props/C07.v proves it of the batching function and SystemBridge.v connects the two. *)
From Coq Require Import List ZArith NArith Bool.
From Jade Require Import Base System SystemMonitors SystemProofs SystemInv SystemBridge.
From Jade.Props Require Import SysExamples.
Import ListNotations.
Open Scope N_scope.

Theorem c07_every_submitted_batch_is_valid : forall sc tr1 p idx g jobs nproc res tr2 s,
  run sc (tr1 ++ ESbatch p idx g jobs nproc res :: tr2) = Some s ->
  jobs <> [] /\ NoDup (map fst jobs) /\
  (forall j b, In (j, b) jobs ->
     In j (all_jobs sc) /\ jc_group (job sc j) = g /\
     (forall x, In x b -> In x (map fst jobs)) /\ (b <> [] -> gc_try (group sc g) = true)) /\
  (if gc_time (group sc g) then (60 * sum_est sc (map fst jobs) <= gc_limit (group sc g))%Z
   else N.of_nat (length jobs) <= gc_size (group sc g)) /\
  nproc = gc_nproc (group sc g).
Proof.
  intros sc tr1 p idx g jobs nproc res tr2 s H. unfold run in H. rewrite run_from_app in H.
  destruct (run_from sc init tr1) as [s1|]; [|discriminate]. cbn [run_from] in H.
  destruct (step sc s1 (ESbatch p idx g jobs nproc res)) as [s2|] eqn:Es; [|discriminate]. clear H.
  unfold step in Es. cbv beta iota in Es. destruct (in_round s1 p) as [r|]; [|discriminate].
  match type of Es with (if ?c then _ else _) = _ => destruct c eqn:G; [|discriminate] end. clear Es.
  rewrite !andb_true_iff in G. destruct G as ((((((((((_ & _) & _) & _) & _) & _) & V) & _) & _) & Np) & _).
  pose proof V as V0. apply valid_batch_spec in V. destruct V as (Vne & Vnd & Vj).
  split; [exact Vne|]. split; [exact Vnd|]. split.
  - intros j b Hin. destruct (Vj j b Hin) as (A & B & _ & _ & _ & E & F). split; [apply is_job_all_jobs; exact A|]. auto.
  - split.
    + unfold valid_batch in V0. rewrite !andb_true_iff in V0. destruct V0 as (_ & L).
      destruct (gc_time (group sc g)); [apply Z.leb_le; exact L|apply N.leb_le; exact L].
    + destruct nproc as [a|], (gc_nproc (group sc g)) as [b|]; cbn in Np; try discriminate; [apply N.eqb_eq in Np; subst; reflexivity|reflexivity].
Qed.
Print Assumptions c07_every_submitted_batch_is_valid.

(* Layer A -> Layer B: what the proved model of the batching code produces passes the acceptor's guards *)
Theorem c07_make_batch_passes_the_acceptor : forall sc r g p avail, view_ok sc r g avail -> params_ok sc g p ->
  B.mb_batch (B.make_batch p avail) <> [] ->
  valid_batch sc r g (payload (B.mb_batch (B.make_batch p avail))) = true.
Proof. exact make_batch_valid. Qed.
Print Assumptions c07_make_batch_passes_the_acceptor.

Theorem c07_round_passes_the_maximality_guard : forall sc (r0 r1 : session) depth groups ns oks idx rr,
  sc_max_nodes sc = Some depth -> NoDup (B.names ns) -> NoDup (map B.g_name groups) ->
  (forall j, In j (all_jobs sc) -> r_st r0 j = NS ->
     exists x, In x ns /\ B.jname x = j /\ B.jblocked x = r_bl r0 j /\ exists g, In g groups /\ B.jgroup x = B.g_name g) ->
  B.submit_round depth (N.of_nat (length (r_out r0))) idx oks groups ns = B.ROk rr ->
  r_st r1 = r_st r0 -> r_bl r1 = r_bl r0 ->
  r_placed r1 = B.names (BP.subs_jobs (B.r_subs rr)) -> N.of_nat (length (r_out r1)) = B.r_out rr ->
  round_maximal sc r1 = true.
Proof. exact round_maximal_of_submit_round. Qed.
Print Assumptions c07_round_passes_the_maximality_guard.

Example c07_system_nonvacuous : accepted ex_sc ex_tr = true /\ existsb is_sbatch ex_tr = true.
Proof. vm_compute. auto. Qed.
