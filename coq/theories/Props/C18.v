(* C18 - SLURM boundary: faithful scripts, conservative status, bounded retries.
   Only statements here; every proof is `exact <lemma>`.  The tables (statuses, finished_statuses,
   script templates, sbatch marker) are GENERATED from /repo by harness/translate.py. *)
From Coq Require Import String Ascii List ZArith NArith Bool Arith.
From Jade Require Import Base Slurm SlurmProofs Retry RetryProofs.
From Jade.Gen Require Import SlurmGen.
Import ListNotations.
Open Scope string_scope.

(* The script holds exactly account, job name, walltime, the two output paths and every optional
   parameter that is set - nothing else - for every configuration. *)
Theorem c18_script_exact : forall cfg name script path k v,
  In (k, v) (directives (script_lines cfg name script path)) <->
  In (k, v) [("account", c_account cfg); ("job-name", name); ("time", c_walltime cfg);
             ("output", path ++ "/job_output_%j.o"); ("error", path ++ "/job_output_%j.e")]
  \/ (In k spec_optional_fields /\ c_opt cfg k = Some v).
Proof. intros cfg name script path. exact (script_exact cfg name script path optional_vocab_ok). Qed.
Print Assumptions c18_script_exact.

(* ... starts with the shebang and ends by running the batch's run script under srun *)
Theorem c18_script_runs_run_script : forall cfg name script path,
  hd "" (script_lines cfg name script path) = "#!/bin/bash" /\
  last (script_lines cfg name script path) "" = "srun " ++ script.
Proof. exact script_first_last. Qed.
Print Assumptions c18_script_runs_run_script.

(* squeue answers: any number of lines, arbitrary (non-newline) whitespace around the two fields,
   blank lines anywhere: each id gets the table value of the state reported last, ids not in the
   answer are absent, unknown state names map to the default. *)
Theorem c18_status_exact : forall ls, Forall line_ok ls ->
  exists snap, get_statuses (render_output ls) = Some snap /\
  forall id, status_of snap id =
             match reported ls id None with Some st => lookup_status st | None => status_absent end.
Proof. exact status_exact. Qed.
Print Assumptions c18_status_exact.

(* a batch is treated as finished only if it is absent from the answer or reported in a state in
   which the SLURM job has ended or is ending *)
Theorem c18_conservative : forall ls, Forall line_ok ls ->
  exists snap, get_statuses (render_output ls) = Some snap /\
  forall id, batch_is_complete snap id = true ->
    reported ls id None = None \/ exists st, reported ls id None = Some st /\ In st terminal_vocabulary.
Proof. exact (fun ls => conservative ls table_conservative_ok). Qed.
Print Assumptions c18_conservative.

Theorem c18_active_states_never_finished : forall st,
  In st active_vocabulary \/ assoc st statuses = None -> is_finished (lookup_status st) = false.
Proof.
  exact (fun st H => match H with
                     | or_introl Ha => active_never_finished table_conservative_ok st Ha
                     | or_intror Hn => unknown_never_finished table_conservative_ok st Hn
                     end).
Qed.
Print Assumptions c18_active_states_never_finished.

(* submit: GOOD only with exit code 0 and a response carrying the marker followed by digits *)
Theorem c18_submit_good : forall ret out id, submit ret out = GOOD id ->
  ret = 0%Z /\ chars id <> [] /\ all_digits (chars id) /\
  exists pre post, chars out = (pre ++ chars sbatch_prefix ++ chars id ++ post)%list.
Proof. exact submit_good. Qed.
Print Assumptions c18_submit_good.
Theorem c18_submit_nonzero_is_error : forall ret out, ret <> 0%Z -> submit ret out = ERROR.
Proof. exact submit_nonzero. Qed.
Print Assumptions c18_submit_nonzero_is_error.
Theorem c18_submit_unparsable_is_error : forall ret out,
  str_contains sbatch_prefix out = false -> submit ret out = ERROR.
Proof. exact submit_unparsable. Qed.
Print Assumptions c18_submit_unparsable_is_error.
Theorem c18_submit_standard_answer : forall ds post,
  ds <> [] -> all_digits ds -> (match post with [] => True | a :: _ => is_digit a = false end) ->
  search_sbatch (chars sbatch_prefix ++ ds ++ post)%list = Some ds.
Proof. exact search_sbatch_here. Qed.
Print Assumptions c18_submit_standard_answer.

(* retry loop: at most num_retries+1 executions, the returned outcome is the last one executed,
   the loop ends only on success / listed permanent error / exhaustion, never earlier *)
Theorem c18_retry_bounded : forall n capture errs outs m o,
  run_command n capture errs outs = (m, o) ->
  1 <= m <= n + 1 /\ o = outs (m - 1) /\
  (o_ret o = 0%Z \/ (capture && should_exit_early (o_stderr o) errs) = true \/ m = n + 1) /\
  (forall j, j < m - 1 -> continues capture errs (outs j)).
Proof. exact run_command_spec. Qed.
Print Assumptions c18_retry_bounded.
Theorem c18_retry_first_success : forall n capture errs outs i,
  i <= n -> o_ret (outs i) = 0%Z -> (forall j, j < i -> continues capture errs (outs j)) ->
  run_command n capture errs outs = (S i, outs i).
Proof. exact run_command_first_success. Qed.
Print Assumptions c18_retry_first_success.
Theorem c18_retry_permanent_error : forall n errs outs i,
  i <= n -> should_exit_early (o_stderr (outs i)) errs = true ->
  (forall j, j < i -> continues true errs (outs j)) ->
  run_command n true errs outs = (S i, outs i).
Proof. exact run_command_permanent_error. Qed.
Print Assumptions c18_retry_permanent_error.
Theorem c18_retry_exhausts : forall n capture errs outs,
  (forall j, j < n -> continues capture errs (outs j)) ->
  run_command n capture errs outs = (S n, outs n).
Proof. exact run_command_exhausts. Qed.
Print Assumptions c18_retry_exhausts.

(* non-vacuity: a concrete well-formed answer, a concrete configuration *)
Definition ex_entry (id st : string) : sq_line :=
  Ent {| e_p1 := chars "   "; e_id := chars id; e_p2 := chars "  "; e_st := chars st; e_p3 := chars " " |}.
Example c18_ex_lines_ok : Forall line_ok [ex_entry "101" "RUNNING"; Blank; ex_entry "102" "COMPLETED"; ex_entry "101" "FOO"].
Proof.
  repeat constructor; cbn; try discriminate;
    intros a H; repeat (destruct H as [<-|H]; [reflexivity|]); destruct H.
Qed.
Example c18_ex_status :
  option_map (fun snap => (status_of snap "101", status_of snap "102", status_of snap "103",
                           batch_is_complete snap "101", batch_is_complete snap "102", batch_is_complete snap "103"))
    (get_statuses (render_output [ex_entry "101" "RUNNING"; Blank; ex_entry "102" "COMPLETED"; ex_entry "101" "FOO"]))
  = Some (UNKNOWN, COMPLETE, NONE, false, true, true).
Proof. vm_compute. reflexivity. Qed.
Example c18_ex_submit : submit 0 "warning: x
Submitted batch job 4711 on cluster" = GOOD "4711" /\ submit 0 "Submitted batch job " = ERROR.
Proof. vm_compute. split; reflexivity. Qed.
