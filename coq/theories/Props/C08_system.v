(* C08 at system level (System.v): at every point of every accepted trace - kills, errors, racing
   collectors included - the rows that nodes and submitters recorded are exactly the rows still in node
   files plus the rows in the consolidated file (as multisets): collection moves rows, it never drops or
   duplicates one; and in a fault-free run no job has two rows.  (The byte-level, lock-operation-level
   statement about ResultsAggregator is Props/C08.v.) *)
From Coq Require Import List ZArith NArith Bool Permutation.
From Jade Require Import Base System SystemMonitors SystemTheorems SystemFault SystemComplete SystemOutcome.
From Jade.Props Require Import SysExamples.
Import ListNotations.
Open Scope N_scope.

Theorem c08_rows_moved_exactly_once : forall sc tr s, run sc tr = Some s ->
  Permutation (rows_of tr) (pending s ++ processed s).
Proof. exact c11_rows_kept. Qed.
Print Assumptions c08_rows_moved_exactly_once.

Theorem c08_one_row_per_job_when_fault_free : forall sc tr s, acyclic sc -> nodes_ok sc ->
  run sc tr = Some s -> fault_free sc init tr = true -> NoDup (row_names (rows s)).
Proof. intros sc tr s A N R F. exact (proj1 (rows_consistent sc tr s A N R F)). Qed.
Print Assumptions c08_one_row_per_job_when_fault_free.

Example c08_system_nonvacuous : accepted ex_sc ex_tr = true /\ length (rows_of ex_tr) = 3%nat.
Proof. vm_compute. auto. Qed.
