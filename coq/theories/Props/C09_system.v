(* C09 at system level (System.v): along every accepted trace - kills, errors, refused stale copies and
   racing submitters included - the persisted state of a job only moves forward (not submitted ->
   submitted -> done), a job that is submitted or done has no blockers left in the table, and a job that is
   done has a row in the consolidated results file.  (The
   counters and the two version files are the subject of the component theorems in Props/C09.v.) *)
From Coq Require Import List ZArith NArith Bool.
From Jade Require Import Base System SystemMonitors SystemStatus SystemBridge2 SystemDoneRows.
From Jade.Props Require Import SysExamples.
Import ListNotations.
Open Scope N_scope.

Theorem c09_status_monotone : forall sc tr1 tr2 s1 s2, run sc tr1 = Some s1 -> run sc (tr1 ++ tr2) = Some s2 ->
  forall j, In j (all_jobs sc) -> jle (st s1 j) (st s2 j) = true.
Proof. exact status_monotone. Qed.
Print Assumptions c09_status_monotone.

Theorem c09_no_blockers_after_submit : forall sc tr s, run sc tr = Some s ->
  forall j, In j (all_jobs sc) -> st s j <> NS -> bl s j = [].
Proof. exact status_no_blockers_after_submit. Qed.
Print Assumptions c09_no_blockers_after_submit.

(* "every done job has a recorded result", in every state an accepted trace reaches (resubmission, which clears
   rows on purpose and rewrites the table, is outside System.v and is covered on the implementation by the
   observation oracle done-job-without-result) *)
Theorem c09_done_job_has_result : forall sc tr s, run sc tr = Some s ->
  forall j, In j (all_jobs sc) -> st s j = DONE -> In j (row_names (processed s)).
Proof. exact done_job_has_result. Qed.
Print Assumptions c09_done_job_has_result.

(* Layer A -> Layer B: the table that the model of Cluster._update_job_status (Status.v; tied to the real code by the
   correspondence of this check) writes is a table the system acceptor accepts as the round's status update *)
Theorem c09_update_table_passes_the_acceptor : forall (r : session) (jobs j2 j3 j4 : list S.job) (bl : list (N * list N)) (cl : list N) (sn : snapshot),
  (forall n, In n (S.names jobs) ->
     exists j, S.find_job n jobs = Some j /\ conv (S.j_state j) = r_st r n /\ S.j_blocked j = r_bl r n) ->
  S.submit_loop (r_placed r) jobs = S.Ok j2 ->
  (forall n bs, In (n, bs) bl -> bs = r_bl r n) ->
  S.blocked_loop bl j2 = S.Ok j3 ->
  (forall n, In n cl <-> In n (r_seen r)) ->
  S.completed_loop cl (r_placed r ++ map fst bl) j3 = S.Ok j4 ->
  (forall n, In n (r_seen r) -> r_st r n <> NS) ->
  (forall n, In n (r_placed r) -> r_st r n = NS) ->
  sn_jobs sn = snap_of (S.clear_loop j4) ->
  forall n, In n (S.names jobs) -> update_ok_job r sn n = true.
Proof. exact update_table_accepted. Qed.
Print Assumptions c09_update_table_passes_the_acceptor.

Example c09_system_nonvacuous : exists s, run ex_sc ex_tr = Some s /\ st s 0 = DONE /\ st s 1 = DONE /\ st s 2 = DONE.
Proof. vm_compute. eexists. repeat split; reflexivity. Qed.
Example c09_done_rows_nonvacuous : exists s, run ex_sc ex_tr = Some s /\ st s 0 = DONE /\ In 0 (row_names (processed s))
  /\ length (processed s) = 3%nat.
Proof. vm_compute. eexists. repeat split; try reflexivity. left; reflexivity. Qed.
