(* C09 at system level (System.v): along every accepted trace - kills, errors, refused stale copies and
   racing submitters included - the persisted state of a job only moves forward (not submitted ->
   submitted -> done), and a job that is submitted or done has no blockers left in the table.  (The
   counters and the two version files are the subject of the component theorems in Props/C09.v.) *)
From Coq Require Import List ZArith NArith Bool.
From Jade Require Import Base System SystemMonitors SystemStatus.
From Jade.Props Require Import SysExamples.
Import ListNotations.
Open Scope N_scope.

Theorem c09_status_monotone : forall sc tr1 tr2 s1 s2, run sc tr1 = Some s1 -> run sc (tr1 ++ tr2) = Some s2 ->
  forall j, In j (all_jobs sc) -> jle (st s1 j) (st s2 j) = true.
Proof. exact status_monotone. Qed.
Print Assumptions c09_status_monotone.

Theorem c09_no_blockers_after_submit : forall sc tr s, run sc tr = Some s ->
  forall j, In j (all_jobs sc) -> st s j <> NS -> bl s j = [].
Proof. exact status_no_blockers_after_submit. Qed.
Print Assumptions c09_no_blockers_after_submit.

Example c09_system_nonvacuous : exists s, run ex_sc ex_tr = Some s /\ st s 0 = DONE /\ st s 1 = DONE /\ st s 2 = DONE.
Proof. vm_compute. eexists. repeat split; reflexivity. Qed.
