(* C19 - jobs are launched exactly as configured and their real exit status is recorded.
   Only statements here; every proof is `exact <lemma>`.  Shlex.v is the state machine of CPython's
   shlex as shlex.split uses it; the appended templates, environment assignments, stdio file names,
   Result fields and status strings are GENERATED from /repo (Gen/LaunchGen.v). *)
From Coq Require Import String Ascii List ZArith NArith Bool.
From Jade Require Import Base Shlex ShlexProofs Launch LaunchProofs.
From Jade.Gen Require Import LaunchGen.
Import ListNotations.
Open Scope string_scope.

(* Every argument vector - any strings: empty, with quotes, backslashes, whitespace, any bytes - is
   expressible as a command string (shlex.quote each, join with one space) and is delivered unchanged. *)
Theorem c19_split_roundtrip : forall argv : list string,
  split (join " " (map quote argv)) = Some argv.
Proof. exact split_shjoin. Qed.
Print Assumptions c19_split_roundtrip.

(* Words over characters that are neither whitespace, quote nor backslash, separated by arbitrary
   non-empty runs of whitespace (any leading run, any trailing run): exactly the words. *)
Theorem c19_split_plain : forall lead items,
  all_chars sh_ws lead = true -> Forall item_ok items -> seps_ok items ->
  split (lead ++ join_ws items) = Some (map fst items).
Proof. exact split_plain. Qed.
Print Assumptions c19_split_plain.

(* Text appended after a space never changes the arguments before it; an unparsable appended text
   makes the whole command unparsable (None = ValueError, the job is not started). *)
Theorem c19_split_compositional : forall a b la, split a = Some la ->
  split (a ++ " " ++ b) = option_map (app la) (split b).
Proof. exact split_app_sp. Qed.
Print Assumptions c19_split_compositional.

(* generate_command + shlex.split: the program gets the configured arguments followed by
   --jade-job-name=NAME and/or --jade-runtime-output=DIR, each as ONE argument, in this order, as the
   two flags demand (all four combinations) - for EVERY job name and directory. *)
Theorem c19_append : forall j output args,
  split (j_command j) = Some args ->
  split (gen_command j output) =
  Some (args ++ (if j_append_name j then [("--jade-job-name=" ++ j_name j)%string] else [])
             ++ (if j_append_out j then [("--jade-runtime-output=" ++ dirname output)%string] else []))%list.
Proof. exact append_exact. Qed.
Print Assumptions c19_append.

(* a configured command that does not parse is launched by nobody *)
Theorem c19_append_error : forall j output,
  split (j_command j) = None -> j_append_name j = false -> j_append_out j = false ->
  split (gen_command j output) = None.
Proof. exact append_error. Qed.
Print Assumptions c19_append_error.

(* the directory generate_command derives from the jobs-output directory the runner passes is the
   runner's output directory *)
Theorem c19_output_dir : forall pre a, a <> "/"%char ->
  dirname (path_join (pre ++ String a "") "job-outputs") = pre ++ String a "".
Proof. exact dirname_jobs_output. Qed.
Print Assumptions c19_output_dir.

(* AsyncCliCommand.run: the split command, the two environment variables, the job's own files *)
Theorem c19_launch : forall name cmd output argv, split cmd = Some argv ->
  launch_of name cmd output =
  Some {| l_argv := argv;
          l_env := [("JADE_RUNTIME_OUTPUT", output); ("JADE_JOB_NAME", name)];
          l_stdout := output ++ "/job-stdio/" ++ name ++ ".o";
          l_stderr := output ++ "/job-stdio/" ++ name ++ ".e" |}.
Proof. exact launch_exact. Qed.
Print Assumptions c19_launch.

(* The row appended for a finished job reads back as the job's name, the process's return code
   (any integer), status finished and the node's HPC job id (None when there is none).  The row
   model is the one-line csv record: names with CR/LF are outside it. *)
Theorem c19_row : forall name rc exec ctime hpc,
  no_crlf name = true -> (forall h, hpc = Some h -> no_crlf h = true) -> hpc <> Some "None" ->
  read_result header_text (format_row (result_row (complete_result name rc exec ctime hpc))) =
  Some {| r_name := name; r_rc := rc; r_status := "finished"; r_exec := exec; r_ctime := ctime; r_hpc := hpc |}.
Proof. exact (fun name rc exec ctime hpc _ _ H => complete_row name rc exec ctime hpc H). Qed.
Print Assumptions c19_row.

Theorem c19_row_canceled : forall name ctime hpc,
  no_crlf name = true -> (forall h, hpc = Some h -> no_crlf h = true) -> hpc <> Some "None" ->
  read_result header_text (format_row (result_row (cancel_result name ctime hpc))) =
  Some {| r_name := name; r_rc := 1; r_status := "canceled"; r_exec := "0.0"; r_ctime := ctime; r_hpc := hpc |}.
Proof. exact (fun name ctime hpc _ _ H => cancel_row name ctime hpc H). Qed.
Print Assumptions c19_row_canceled.

(* ---------- non-vacuity / witnesses ---------- *)
Definition bs : string := String c_bs "".
Example c19_ex_roundtrip :
  split (join " " (map quote ["prog"; ""; "it's"; "a  b"; bs; "x" ++ bs ++ "'y"; "q""r"; "$HOME;*"]))
  = Some ["prog"; ""; "it's"; "a  b"; bs; "x" ++ bs ++ "'y"; "q""r"; "$HOME;*"].
Proof. reflexivity. Qed.
Example c19_ex_plain : item_ok ("--n=1", "  ") /\ seps_ok [("prog", " "); ("--n=1", "  "); ("x", "")] /\
  split ("  " ++ join_ws [("prog", " "); ("--n=1", "  "); ("x", "")]) = Some ["prog"; "--n=1"; "x"].
Proof. unfold item_ok; cbn; repeat split; try reflexivity; intros; congruence. Qed.
Definition ex_job := {| j_command := "prog 'x y' z" ++ bs ++ " w"; j_name := "it's a,b";
                        j_append_name := true; j_append_out := true |}.
Example c19_ex_append :
  split (j_command ex_job) = Some ["prog"; "x y"; "z w"] /\
  split (gen_command ex_job (path_join "/data/my out" "job-outputs")) =
  Some ["prog"; "x y"; "z w"; "--jade-job-name=it's a,b"; "--jade-runtime-output=/data/my out"].
Proof. split; reflexivity. Qed.
Example c19_ex_errors : split "prog 'x" = None /\ split ("prog x" ++ bs) = None.
Proof. split; reflexivity. Qed.
Example c19_ex_row :
  format_row (result_row (complete_result "a,b ""c""" 255 "0.5" "17.25" (Some "4242")))
  = """a,b """"c"""""",255,finished,0.5,17.25,4242" /\
  read_result header_text (format_row (result_row (complete_result "x" (-9) "0.5" "17.25" None)))
  = Some {| r_name := "x"; r_rc := -9; r_status := "finished"; r_exec := "0.5"; r_ctime := "17.25"; r_hpc := None |}.
Proof. split; reflexivity. Qed.
(* regression (defect D8, repaired): without quote the appended name is split / unparsable *)
Example c19_ex_unquoted_append_was_wrong :
  split "prog --jade-job-name=a b" = Some ["prog"; "--jade-job-name=a"; "b"] /\
  split "prog --jade-job-name=it's" = None.
Proof. split; reflexivity. Qed.
