(* C01 - each job is handed to the HPC in exactly one batch and started at most once.
   System level: for EVERY trace accepted by the system model (any number of submitter processes on
   login and compute nodes, any interleaving of rounds, batch starts/ends and job completions, any
   parameters and DAG, kill and failure events included), no job occurs in two sbatch payloads, no
   batch index is used twice and no job is launched twice.  Component level: batch construction
   (Props/C07.v carries the per-batch and per-round statements of BatchProofs.v).
   Only statements here. *)
From Coq Require Import List ZArith NArith Bool.
From Jade Require Import Base System SystemMonitors SystemProofs SystemInv SystemLaunch SystemTheorems.
From Jade.Props Require Import SysExamples.
Import ListNotations.
Open Scope N_scope.

Theorem c01_no_double_placement : forall sc tr s, run sc tr = Some s ->
  NoDup (handed_of tr) /\ NoDup (indices_of tr) /\ NoDup (launched_of tr).
Proof. exact c01_system. Qed.
Print Assumptions c01_no_double_placement.

Theorem c01_monitor : forall sc tr s, run sc tr = Some s -> c01_ok sc tr = true.
Proof. exact c01_accepted. Qed.
Print Assumptions c01_monitor.

(* 'started at most once' is not a guard of the acceptor: it follows from the structure - a node's queue is
   a duplicate-free part of its batch, batches are disjoint, a launch removes the job from the queue *)
Theorem c01_started_at_most_once : forall sc tr s, run sc tr = Some s -> NoDup (launched_of tr).
Proof. exact launched_nodup. Qed.
Print Assumptions c01_started_at_most_once.

(* the state behind it: a job that was handed out and is still 'not submitted' on disk can only exist
   while submitter.lock is present, and then only the process that created the lock may submit *)
Theorem c01_handed_protected : forall sc tr s, run sc tr = Some s ->
  forall j, In j (handed s) -> st s j = NS ->
    marker s = true /\ forall r, holder s = Some r -> r_owns r = true -> In j (r_placed r).
Proof. exact (fun sc tr s H => i_handed_ns sc s (proj1 (inv_run sc tr s H))). Qed.
Print Assumptions c01_handed_protected.

Example c01_nonvacuous : accepted ex_sc ex_tr = true /\ handed_of ex_tr = [0; 1; 2] /\ indices_of ex_tr = [1; 2]
  /\ launched_of ex_tr = [0; 1; 2].
Proof. vm_compute. auto. Qed.
