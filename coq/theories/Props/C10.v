(* C10 - only one submitter at a time; stale state never overwrites newer state.
   Only statements here; every proof is `exact <lemma>` (ClusterProofs.v); the model of
   jade/jobs/cluster.py and of the CLI call sites is Cluster.v.
   All theorems quantify over EVERY operation sequence `ops` (any length, any number of handles on
   any hosts, any interleaving) executed after Cluster.create on any host. *)
From Coq Require Import List NArith Bool Arith.
From Jade Require Import Base Cluster ClusterProofs.
Import ListNotations.
Open Scope N_scope.

(* ---- stale state is rejected ------------------------------------------------------------------- *)
(* In ANY state: if the handle's config copy is out of date and the operation writes the config, or
   its job-status copy is out of date and the operation writes the job status (update_job_status and
   prepare_for_resubmission write both), the operation does not take effect, all four files are unchanged, and - when the
   operation's own precondition holds and the lock marker is absent - the result is a version
   mismatch error. *)
Theorem c10_stale_rejected : forall s i h o,
  nth_error (s_handles s) i = Some h ->
  (writes_cfg o = true /\ cfg_stale (s_disk s) h) \/ (writes_js o = true /\ js_stale (s_disk s) h) ->
  let '(r, s') := step s (Do i o) in
  s_disk s' = s_disk s /\ rejected r = true /\
  (precond o h = true -> locked o && s_wedged s = false -> r = RCfgMismatch \/ r = RJsMismatch).
Proof. exact stale_rejected. Qed.
Print Assumptions c10_stale_rejected.

(* whatever raises (or times out on the lock marker) leaves all four files unchanged *)
Theorem c10_failed_unchanged : forall host ops o,
  let s := run (create host) ops in
  failed (fst (step s o)) = true -> s_disk (snd (step s o)) = s_disk s.
Proof. exact failed_unchanged. Qed.
Print Assumptions c10_failed_unchanged.

(* ---- no lost update ------------------------------------------------------------------------------ *)
(* Every write that changes an object was made by a handle whose copy carried the latest version;
   it installs that handle's copy with the next version; object and version file stay in step. *)
Theorem c10_no_lost_update : forall host ops i o h,
  let s := run (create host) ops in
  nth_error (s_handles s) i = Some h ->
  let d := s_disk s in
  let s' := snd (step s (Do i o)) in
  let d' := s_disk s' in
  consistent d' /\
  (cfg_changed d d' = true ->
     c_version (h_cfg h) = d_cfg_vf d /\ d_cfg_vf d' = d_cfg_vf d + 1 /\
     exists h', nth_error (s_handles s') i = Some h' /\ d_cfg d' = h_cfg h') /\
  (js_changed d d' = true ->
     (exists j, h_js h = Some j /\ j_version j = d_js_vf d) /\ d_js_vf d' = d_js_vf d + 1 /\
     exists h', nth_error (s_handles s') i = Some h' /\ h_js h' = Some (d_js d')).
Proof. exact no_lost_update_reach. Qed.
Print Assumptions c10_no_lost_update.

(* The disk history is a sequential composition: each version file equals 1 + the number of
   changing writes so far (versions go up by exactly one per changing write, never otherwise). *)
Theorem c10_versions_count_writes : forall host ops,
  let s0 := create host in
  d_cfg_vf (s_disk (run s0 ops)) = 1 + count_cfg_writes s0 ops /\
  d_js_vf (s_disk (run s0 ops)) = 1 + count_js_writes s0 ops /\
  c_version (d_cfg (s_disk (run s0 ops))) = d_cfg_vf (s_disk (run s0 ops)) /\
  j_version (d_js (s_disk (run s0 ops))) = d_js_vf (s_disk (run s0 ops)).
Proof. exact versions_count_writes_reach. Qed.
Print Assumptions c10_versions_count_writes.

(* A copy never runs ahead of the file; a copy with the current version has the current submitter
   field, and what its handle wrote last IS the file content (nobody wrote in between). *)
Theorem c10_fresh_copy : forall host ops i h,
  let s := run (create host) ops in
  nth_error (s_handles s) i = Some h ->
  c_version (h_cfg h) <= d_cfg_vf (s_disk s) /\
  (c_version (h_cfg h) = d_cfg_vf (s_disk s) ->
     c_submitter (h_cfg h) = c_submitter (d_cfg (s_disk s)) /\
     forall c, h_hash h = Some c -> c = d_cfg (s_disk s)).
Proof. exact fresh_copy. Qed.
Print Assumptions c10_fresh_copy.

(* ---- one submitter --------------------------------------------------------------------------------- *)
(* Under the CLI protocol hypothesis (protocol_ok: a handle calls demote only while its own
   promotion is outstanding) at most one HANDLE holds the role, the submitter field names the
   holder's host, and the field is set only if a holder exists. *)
Theorem c10_single_holder : forall host ops,
  protocol_ok (create host) ops = true ->
  let s := run (create host) ops in
  let sub := c_submitter (d_cfg (s_disk s)) in
  (forall i h, nth_error (s_handles s) i = Some h -> h_promoted h = true -> sub = Some (h_host h)) /\
  (forall i j hi hj, nth_error (s_handles s) i = Some hi -> nth_error (s_handles s) j = Some hj ->
                     h_promoted hi = true -> h_promoted hj = true -> i = j) /\
  (forall x, sub = Some x ->
             exists i h, nth_error (s_handles s) i = Some h /\ h_promoted h = true /\ h_host h = x).
Proof. exact single_holder. Qed.
Print Assumptions c10_single_holder.

(* ... and while a handle holds it, Cluster.deserialize(try_promote_to_submitter=True) returns
   promoted = False, promote_to_submitter() never returns True, and neither writes anything. *)
Theorem c10_promote_refused : forall host ops,
  protocol_ok (create host) ops = true ->
  let s := run (create host) ops in
  forall k hk, nth_error (s_handles s) k = Some hk -> h_promoted hk = true ->
  (forall h0 j, s_wedged s = false -> fst (step s (Load h0 true j)) = RLoaded (length (s_handles s)) false) /\
  (forall h0 j, s_disk (snd (step s (Load h0 true j))) = s_disk s) /\
  (forall i, fst (step s (Do i HPromote)) <> RBool true /\ s_disk (snd (step s (Do i HPromote))) = s_disk s).
Proof. exact promote_refused_reach. Qed.
Print Assumptions c10_promote_refused.

(* What identifies a holder to the CODE is the host name (am_i_submitter).  Across hosts the code
   enforces the protocol by itself: in every reachable state (no hypothesis), a handle whose host
   is not the one named in the file cannot demote, and nothing is written. *)
Theorem c10_cross_host_demote_rejected : forall host ops i h,
  let s := run (create host) ops in
  nth_error (s_handles s) i = Some h ->
  c_submitter (d_cfg (s_disk s)) <> Some (h_host h) ->
  fst (step s (Do i HDemote)) <> ROk /\ s_disk (snd (step s (Do i HDemote))) = s_disk s.
Proof. exact cross_host_demote_reach. Qed.
Print Assumptions c10_cross_host_demote_rejected.

(* Two handles on the SAME host are indistinguishable to the code: the scenario below (D5, formerly
   resubmit_jobs) violates the protocol hypothesis - handle 1 was not promoted, yet its demote
   succeeds - and afterwards two handles (0 and 2) believe they hold the role.  Not a violation of
   the property by the current code (no CLI does this any more, see c10_callsites), but the reason
   why c10_single_holder needs its hypothesis. *)
Example c10_same_host_indistinguishable :
  let ops := [Load 0 true true; Do 1%nat HDemote; Load 1 true true] in
  protocol_ok (create 0) ops = false /\
  map snd (trace (create 0) ops) = [RLoaded 1 false; ROk; RLoaded 2 true] /\
  bit_of (run (create 0) ops) 0 = true /\ bit_of (run (create 0) ops) 2 = true.
Proof. vm_compute. repeat split. Qed.
(* the same attempt from another host is stopped by the assertion in _demote_from_submitter *)
Example c10_other_host_demote_asserts :
  map snd (trace (create 0) [Load 1 true true; Do 1%nat HDemote]) = [RLoaded 1 false; RAssertion].
Proof. vm_compute. reflexivity. Qed.

(* ---- system view: rounds ---------------------------------------------------------------------------- *)
(* In every trace (no hypothesis) successful promotions and successful demotions alternate,
   starting with the creator's promotion: at most one submitter round is in progress. *)
Theorem c10_system_alternation : forall host ops, alternates true (trace (create host) ops) = true.
Proof. exact alternation_reach. Qed.
Print Assumptions c10_system_alternation.

(* ---- the call sites ---------------------------------------------------------------------------------- *)
(* Every run (any branch, any exception point, any prefix) of try_submit_jobs, cancel_jobs (one loop
   iteration), resubmit_jobs, JobRunner._complete_hpc_job (one iteration) and of the read-only CLIs
   demotes only while its own promotion is outstanding; so does JobSubmitter.run_submit_jobs, whose
   handle comes promoted from Cluster.create. *)
Theorem c10_callsites : forall p, In p cli_programs ->
  forall evs, accepts p evs = true -> local_ok false evs = true.
Proof. exact cli_programs_ok. Qed.
Print Assumptions c10_callsites.
Theorem c10_callsites_run_submit : forall evs, accepts prog_run_submit evs = true -> local_ok true evs = true.
Proof. exact run_submit_ok. Qed.
Print Assumptions c10_callsites_run_submit.

(* If every handle's life is a run of one of these programs, the protocol hypothesis holds ... *)
Theorem c10_callsites_protocol : forall host ops,
  accepts prog_run_submit (events_of 0%nat (trace (create host) ops)) = true ->
  (forall i, i <> 0%nat -> exists p, In p cli_programs /\ accepts p (events_of i (trace (create host) ops)) = true) ->
  protocol_ok (create host) ops = true.
Proof. exact callsites_protocol. Qed.
Print Assumptions c10_callsites_protocol.

(* ... and hence the CLIs, in any number and interleaving, on any hosts, keep a single holder. *)
Theorem c10_single_holder_cli : forall host ops,
  accepts prog_run_submit (events_of 0%nat (trace (create host) ops)) = true ->
  (forall i, i <> 0%nat -> exists p, In p cli_programs /\ accepts p (events_of i (trace (create host) ops)) = true) ->
  let s := run (create host) ops in
  let sub := c_submitter (d_cfg (s_disk s)) in
  (forall i h, nth_error (s_handles s) i = Some h -> h_promoted h = true -> sub = Some (h_host h)) /\
  (forall i j hi hj, nth_error (s_handles s) i = Some hi -> nth_error (s_handles s) j = Some hj ->
                     h_promoted hi = true -> h_promoted hj = true -> i = j) /\
  (forall x, sub = Some x ->
             exists i h, nth_error (s_handles s) i = Some h /\ h_promoted h = true /\ h_host h = x).
Proof. exact single_holder_cli. Qed.
Print Assumptions c10_single_holder_cli.

(* resubmit_jobs as it was before its fix (D5) does NOT keep the protocol *)
Theorem c10_resubmit_old_refuted : exists evs, accepts prog_resubmit_old evs = true /\ local_ok false evs = false.
Proof. exact resubmit_old_refuted. Qed.
Print Assumptions c10_resubmit_old_refuted.

(* ---- non-vacuity ---------------------------------------------------------------------------------------- *)
Definition demo_ops : list op :=
  [Load 1 true true; Do 0%nat HDemote; Load 1 true true; Load 2 true false;
   Do 2%nat (HUpdate 1 2 [5]); Do 2%nat HDemote; Load 2 true true].
(* a protocol-following sequence with three rounds on two hosts *)
Example c10_protocol_satisfiable :
  protocol_ok (create 0) demo_ops = true /\
  map snd (trace (create 0) demo_ops) =
    [RLoaded 1 false; ROk; RLoaded 2 true; RLoaded 3 false; ROk; ROk; RLoaded 4 true] /\
  c_submitter (d_cfg (s_disk (run (create 0) demo_ops))) = Some 2.
Proof. vm_compute. repeat split. Qed.
(* ... whose handles are runs of the CLI programs *)
Example c10_callsites_satisfiable :
  accepts prog_run_submit (events_of 0%nat (trace (create 0) demo_ops)) = true /\
  forallb (fun i => existsb (fun p => accepts p (events_of i (trace (create 0) demo_ops))) cli_programs)
          [1; 2; 3; 4]%nat = true.
Proof. vm_compute. split; reflexivity. Qed.
(* stale copies exist: handle 1 loaded before the creator demoted *)
Example c10_stale_satisfiable :
  let s := run (create 0) [Load 1 false true; Do 0%nat HDemote; Do 0%nat (HUpdate 0 2 [7])] in
  exists h, nth_error (s_handles s) 1 = Some h /\ cfg_stale (s_disk s) h /\ js_stale (s_disk s) h /\
            precond (HUpdate 1 3 []) h = true /\ fst (step s (Do 1%nat (HUpdate 1 3 []))) = RCfgMismatch.
Proof.
  eexists. split; [vm_compute; reflexivity|]. split; [vm_compute; discriminate|].
  split; [eexists; split; [vm_compute; reflexivity|vm_compute; discriminate]|]. split; vm_compute; reflexivity.
Qed.
(* prepare_for_resubmission by a handle whose job-status copy is out of date: rejected, nothing written *)
Example c10_prepare_stale_rejected :
  let s := run (create 0) [Do 0%nat HMarkComplete; Load 1 false true; Do 0%nat HSerializeJobs] in
  fst (step s (Do 1%nat (HPrepare 0))) = RJsMismatch /\ s_disk (snd (step s (Do 1%nat (HPrepare 0)))) = s_disk s /\
  fst (step s (Do 0%nat (HPrepare 0))) = ROk.
Proof. vm_compute. repeat split. Qed.
(* the defect repaired by "reject a stale job-status copy before the cluster config is written" *)
Example c10_update_partial_write_history :
  js_stale hist_disk hist_handle /\
  fst (fst (update_old 1 7 [99] hist_disk hist_handle)) = RJsMismatch /\
  snd (fst (update_old 1 7 [99] hist_disk hist_handle)) <> hist_disk /\
  fst (act (HUpdate 1 7 [99]) hist_disk hist_handle) = (RJsMismatch, hist_disk).
Proof.
  destruct update_old_partial_write as [A [B C]]. split; [exact A|]. split; [exact B|]. split; [exact C|exact update_now_rejects].
Qed.
